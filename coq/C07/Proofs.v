(** C07 proofs.  Part A: explicit-bucket histogram.  Part B: bucket windows (record,
    halve, downscale, scaleChange).  Part C: the exact bucket relation (uniqueness, closed
    form, re-scaling law, getBin for scale <= 0).  Part D: invariants of the exponential
    histogram over arbitrary measurement sequences.  Part E: the certified binary-logarithm
    index used to judge positive-scale buckets. *)
From Coq Require Import ZArith NArith List Lia Bool Permutation ZifyBool ZifyNat ZifyN.
From Verif Require Import Lib.Base Lib.Dyadic C07.Model C07.Spec.
Import ListNotations.
Open Scope Z_scope.

(* ====================================================================== *)
(** * Part A: explicit-bucket histogram *)

Lemma count_where_nil {A} (p : A -> bool) : count_where p [] = 0%N.
Proof. reflexivity. Qed.

Lemma count_where_app {A} (p : A -> bool) l1 l2 :
  count_where p (l1 ++ l2) = (count_where p l1 + count_where p l2)%N.
Proof. unfold count_where. rewrite filter_app, app_length. lia. Qed.

Lemma count_where_cons {A} (p : A -> bool) x l :
  count_where p (x :: l) = ((if p x then 1 else 0) + count_where p l)%N.
Proof. unfold count_where. cbn [filter]. destruct (p x); cbn [length]; lia. Qed.

Lemma count_where_one {A} (p : A -> bool) x :
  count_where p [x] = (if p x then 1 else 0)%N.
Proof. rewrite count_where_cons, count_where_nil. destruct (p x); reflexivity. Qed.

Lemma count_where_ext {A} (p q : A -> bool) l :
  (forall x, In x l -> p x = q x) -> count_where p l = count_where q l.
Proof.
  induction l as [|x l IH]; intro H; [reflexivity|].
  rewrite !count_where_cons, (H x (or_introl eq_refl)), IH; [reflexivity|].
  intros y Hy. apply H. now right.
Qed.

Lemma zsum_app l1 l2 : zsum (l1 ++ l2) = zsum l1 + zsum l2.
Proof.
  induction l1 as [|x l IH]; cbn [app]; [reflexivity|].
  change (zsum (x :: l ++ l2)) with (x + zsum (l ++ l2)). change (zsum (x :: l)) with (x + zsum l). lia.
Qed.

Lemma nsum_app l1 l2 : nsum (l1 ++ l2) = (nsum l1 + nsum l2)%N.
Proof.
  induction l1 as [|x l IH]; cbn [app]; [reflexivity|].
  change (nsum (x :: l ++ l2)) with (x + nsum (l ++ l2))%N. change (nsum (x :: l)) with (x + nsum l)%N. lia.
Qed.

Lemma nsum_repeat0 n : nsum (repeat 0%N n) = 0%N.
Proof.
  induction n as [|n IH]; cbn [repeat]; [reflexivity|].
  change (nsum (0%N :: repeat 0%N n)) with (0 + nsum (repeat 0%N n))%N. lia.
Qed.

Lemma bucket_index_le bounds v : (bucket_index bounds v <= length bounds)%nat.
Proof. induction bounds as [|b r IH]; cbn [bucket_index length]; [lia|]. destruct (v <=? b); lia. Qed.

(** The bucket chosen by the search contains the value: lower < v <= upper. *)
Lemma bucket_index_correct bounds v : in_explicit_bucket bounds (bucket_index bounds v) v.
Proof.
  induction bounds as [|b r IH]; cbn [bucket_index].
  - repeat split; auto.
  - destruct (Z.leb_spec v b) as [Hle|Hgt].
    + repeat split; cbn [length nth]; auto; lia.
    + destruct IH as (Hk & Hlo & Hhi). set (k := bucket_index r v) in *.
      repeat split; cbn [length]; [lia| |].
      * right. replace (S k - 1)%nat with k by lia. destruct k as [|k']; cbn [nth]; [lia|].
        destruct Hlo as [Hlo|Hlo]; [discriminate|]. replace (S k' - 1)%nat with k' in Hlo by lia. exact Hlo.
      * destruct Hhi as [Hhi|Hhi]; [left; lia|right; exact Hhi].
Qed.

Lemma strictly_increasing_tail a r : strictly_increasing (a :: r) = true -> strictly_increasing r = true.
Proof. destruct r as [|b r]; cbn [strictly_increasing]; [reflexivity|]. intro H. apply andb_true_iff in H. tauto. Qed.

Lemma strictly_increasing_head a r j :
  strictly_increasing (a :: r) = true -> (j < length r)%nat -> a < nth j r 0.
Proof.
  revert a j. induction r as [|b r IH]; intros a j H Hj; cbn [length] in Hj; [lia|].
  cbn [strictly_increasing] in H. apply andb_true_iff in H as [H1 H2]. apply Z.ltb_lt in H1.
  destruct j as [|j]; cbn [nth]; [exact H1|]. specialize (IH b j H2). lia.
Qed.

(** ... and, for strictly increasing boundaries, it is the only bucket that does. *)
Lemma bucket_index_unique bounds k v :
  strictly_increasing bounds = true -> in_explicit_bucket bounds k v -> k = bucket_index bounds v.
Proof.
  revert k. induction bounds as [|b r IH]; intros k Hs (Hk & Hlo & Hhi); cbn [bucket_index length] in *.
  - lia.
  - destruct (Z.leb_spec v b) as [Hle|Hgt].
    + destruct k as [|k']; [reflexivity|exfalso].
      destruct Hlo as [Hlo|Hlo]; [discriminate|]. replace (S k' - 1)%nat with k' in Hlo by lia.
      destruct k' as [|k'']; cbn [nth] in Hlo; [lia|].
      pose proof (strictly_increasing_head b r k'' Hs). lia.
    + destruct k as [|k'].
      * exfalso. destruct Hhi as [Hhi|Hhi]; [discriminate|]. cbn [nth] in Hhi. lia.
      * f_equal. apply IH; [eapply strictly_increasing_tail; exact Hs|].
        repeat split; [lia| |].
        -- destruct k' as [|k'']; [now left|right].
           destruct Hlo as [Hlo|Hlo]; [discriminate|].
           replace (S (S k'') - 1)%nat with (S k'') in Hlo by lia. cbn [nth] in Hlo.
           replace (S k'' - 1)%nat with k'' by lia. exact Hlo.
        -- destruct Hhi as [Hhi|Hhi]; [left; lia|right; exact Hhi].
Qed.

Lemma in_explicit_bucketb_spec bounds k v :
  in_explicit_bucketb bounds k v = true <-> in_explicit_bucket bounds k v.
Proof.
  unfold in_explicit_bucketb, in_explicit_bucket.
  rewrite !andb_true_iff, !orb_true_iff, Nat.leb_le, !Nat.eqb_eq, Z.ltb_lt, Z.leb_le. tauto.
Qed.

Lemma in_explicit_bucketb_index bounds k v :
  strictly_increasing bounds = true ->
  in_explicit_bucketb bounds k v = (bucket_index bounds v =? k)%nat.
Proof.
  intro Hs. destruct (Nat.eqb_spec (bucket_index bounds v) k) as [E|E].
  - subst k. apply in_explicit_bucketb_spec, bucket_index_correct.
  - destruct (in_explicit_bucketb bounds k v) eqn:H; [|reflexivity].
    apply in_explicit_bucketb_spec in H. apply bucket_index_unique in H; [congruence|exact Hs].
Qed.

Lemma incr_nth_length k l : length (incr_nth k l) = length l.
Proof. revert k; induction l as [|x l IH]; intros [|k]; cbn [incr_nth length]; auto. Qed.

Lemma incr_nth_nth k l j : (k < length l)%nat ->
  nth j (incr_nth k l) 0%N = (nth j l 0 + (if (k =? j)%nat then 1 else 0))%N.
Proof.
  revert k j; induction l as [|x l IH]; intros k j Hk; cbn [length] in Hk; [lia|].
  destruct k as [|k], j as [|j]; cbn [incr_nth nth Nat.eqb]; try lia.
  apply IH. lia.
Qed.

Lemma incr_nth_nsum k l : (k < length l)%nat -> nsum (incr_nth k l) = (nsum l + 1)%N.
Proof.
  revert k; induction l as [|x l IH]; intros k Hk; cbn [length] in Hk; [lia|].
  destruct k as [|k]; cbn [incr_nth nsum fold_right].
  - fold (nsum l). lia.
  - fold (nsum (incr_nth k l)) (nsum l). rewrite IH by lia. lia.
Qed.

Lemma is_min_snoc l x v : is_min l x -> is_min (l ++ [v]) (if v <? x then v else x).
Proof.
  intros [Hin Hall]. destruct (Z.ltb_spec v x) as [Hlt|Hge]; split.
  - apply in_or_app. right. now left.
  - apply Forall_app. split; [|constructor; [lia|constructor]].
    eapply Forall_impl; [|exact Hall]. cbn. intros; lia.
  - apply in_or_app. now left.
  - apply Forall_app. split; [exact Hall|constructor; [lia|constructor]].
Qed.

Lemma is_max_snoc l x v : is_max l x -> is_max (l ++ [v]) (if x <? v then v else x).
Proof.
  intros [Hin Hall]. destruct (Z.ltb_spec x v) as [Hlt|Hge]; split.
  - apply in_or_app. right. now left.
  - apply Forall_app. split; [|constructor; [lia|constructor]].
    eapply Forall_impl; [|exact Hall]. cbn. intros; lia.
  - apply in_or_app. now left.
  - apply Forall_app. split; [exact Hall|constructor; [lia|constructor]].
Qed.

Lemma is_min_one v : is_min [v] v.
Proof. split; [now left|constructor; [lia|constructor]]. Qed.
Lemma is_max_one v : is_max [v] v.
Proof. split; [now left|constructor; [lia|constructor]]. Qed.

Lemma is_min_le_max l x y : is_min l x -> is_max l y -> x <= y.
Proof. intros [Hin Hall] [Hin' _]. rewrite Forall_forall in Hall. now apply Hall. Qed.

Lemma is_minb_spec l x : is_minb l x = true <-> is_min l x.
Proof.
  unfold is_minb, is_min. rewrite andb_true_iff, existsb_exists, forallb_forall, Forall_forall.
  split; intros [H1 H2]; split.
  - destruct H1 as (y & Hy & E). apply Z.eqb_eq in E. now subst.
  - intros y Hy. apply Z.leb_le. auto.
  - exists x. split; [exact H1|apply Z.eqb_refl].
  - intros y Hy. apply Z.leb_le. auto.
Qed.

Lemma is_maxb_spec l x : is_maxb l x = true <-> is_max l x.
Proof.
  unfold is_maxb, is_max. rewrite andb_true_iff, existsb_exists, forallb_forall, Forall_forall.
  split; intros [H1 H2]; split.
  - destruct H1 as (y & Hy & E). apply Z.eqb_eq in E. now subst.
  - intros y Hy. apply Z.leb_le. auto.
  - exists x. split; [exact H1|apply Z.eqb_refl].
  - intros y Hy. apply Z.leb_le. auto.
Qed.

(** Invariant of the explicit accumulator after the measurements [l] (in order). *)
Definition hist_inv (bounds l : list Z) (st : option hist) : Prop :=
  match st with
  | None => l = []
  | Some h =>
      l <> [] /\
      length (h_counts h) = S (length bounds) /\
      (forall k, nth k (h_counts h) 0%N = count_where (fun v => (bucket_index bounds v =? k)%nat) l) /\
      nsum (h_counts h) = h_count h /\
      h_count h = N.of_nat (length l) /\
      is_min l (h_min h) /\ is_max l (h_max h) /\ h_total h = zsum l
  end.

Lemma nth_repeat0 k n : nth k (repeat 0%N n) 0%N = 0%N.
Proof. revert k; induction n as [|n IH]; intros [|k]; cbn [repeat nth]; auto. Qed.

Lemma hist_step bounds l st v :
  hist_inv bounds l st -> hist_inv bounds (l ++ [v]) (hist_measure bounds st v).
Proof.
  intro H. unfold hist_measure.
  pose proof (bucket_index_le bounds v) as Hidx.
  destruct st as [h|]; cbn [hist_inv] in *.
  - destruct H as (Hne & Hlen & Hnth & Hsum & Hcnt & Hmin & Hmax & Htot).
    unfold hist_bin. cbn [h_counts h_count h_min h_max h_total].
    split; [destruct l; discriminate|].
    split; [rewrite incr_nth_length; exact Hlen|].
    split.
    { intro k. rewrite incr_nth_nth by lia. rewrite count_where_app, count_where_one, Hnth. reflexivity. }
    split; [rewrite incr_nth_nsum by lia; lia|].
    split; [rewrite app_length; cbn [length]; lia|].
    split; [apply is_min_snoc; exact Hmin|].
    split.
    { pose proof (is_min_le_max _ _ _ Hmin Hmax) as Hle.
      pose proof (is_max_snoc l (h_max h) v Hmax) as Hm.
      destruct (Z.ltb_spec v (h_min h)) as [Hlt|Hge]; [|exact Hm].
      destruct (Z.ltb_spec (h_max h) v); [lia|exact Hm]. }
    rewrite zsum_app. cbn [zsum fold_right]. lia.
  - subst l. cbn [app]. unfold hist_bin, hist_new. cbn [h_counts h_count h_min h_max h_total].
    rewrite Z.ltb_irrefl.
    split; [discriminate|].
    split; [rewrite incr_nth_length, repeat_length; reflexivity|].
    split.
    { intro k. rewrite incr_nth_nth by (rewrite repeat_length; lia).
      rewrite nth_repeat0, count_where_one. reflexivity. }
    split; [rewrite incr_nth_nsum by (rewrite repeat_length; lia); rewrite nsum_repeat0; reflexivity|].
    split; [reflexivity|].
    split; [apply is_min_one|]. split; [apply is_max_one|]. cbn. lia.
Qed.

Lemma hist_run_inv bounds vs : hist_inv bounds vs (hist_run bounds vs).
Proof.
  unfold hist_run. induction vs as [|v vs IH] using rev_ind; [reflexivity|].
  rewrite fold_left_app. cbn [fold_left]. apply hist_step. exact IH.
Qed.

Definition hist_to_point (h : hist) : hist_point :=
  {| hp_counts := h_counts h; hp_count := h_count h; hp_min := h_min h; hp_max := h_max h;
     hp_sum := h_total h |}.

(** All explicit-histogram clauses, for every boundary list the validation admits and
    every non-empty measurement sequence. *)
Lemma explicit_point_ok bounds v0 vs :
  strictly_increasing bounds = true ->
  exists h, hist_run bounds (v0 :: vs) = Some h /\ hist_point_ok bounds (v0 :: vs) (hist_to_point h).
Proof.
  intro Hs. pose proof (hist_run_inv bounds (v0 :: vs)) as H.
  destruct (hist_run bounds (v0 :: vs)) as [h|]; cbn [hist_inv] in H; [|discriminate].
  exists h. split; [reflexivity|].
  destruct H as (_ & Hlen & Hnth & Hsum & Hcnt & Hmin & Hmax & Htot).
  unfold hist_point_ok, hist_to_point. cbn [hp_counts hp_count hp_min hp_max hp_sum].
  repeat split; try assumption; try apply Hmin; try apply Hmax.
  intros k Hk. rewrite Hnth. apply count_where_ext. intros x _.
  symmetry. apply in_explicit_bucketb_index. exact Hs.
Qed.

Lemma explicit_shape bounds vs h :
  hist_run bounds vs = Some h -> length (h_counts h) = S (length bounds).
Proof. intro E. pose proof (hist_run_inv bounds vs) as H. rewrite E in H. apply H. Qed.

Lemma explicit_counts_sum bounds vs h :
  hist_run bounds vs = Some h ->
  nsum (h_counts h) = h_count h /\ h_count h = N.of_nat (length vs).
Proof. intro E. pose proof (hist_run_inv bounds vs) as H. rewrite E in H. split; apply H. Qed.

Lemma explicit_min_max_sum bounds vs h :
  hist_run bounds vs = Some h ->
  is_min vs (h_min h) /\ is_max vs (h_max h) /\ h_total h = zsum vs.
Proof. intro E. pose proof (hist_run_inv bounds vs) as H. rewrite E in H. repeat split; apply H. Qed.

(** The validation model accepts exactly the strictly increasing lists. *)
Lemma bounds_valid_spec l : bounds_valid l = strictly_increasing l.
Proof.
  induction l as [|a [|b r] IH]; try reflexivity.
  cbn [bounds_valid strictly_increasing] in *. rewrite IH.
  destruct (Z.leb_spec b a), (Z.ltb_spec a b); try lia; reflexivity.
Qed.

Lemma expo_valid_spec ms mxs : expo_valid ms mxs = expo_config_ok ms mxs.
Proof.
  unfold expo_valid, expo_config_ok.
  destruct (Z.ltb_spec 20 mxs), (Z.ltb_spec mxs (-10)), (Z.leb_spec ms 0), (Z.ltb_spec 0 ms),
    (Z.leb_spec (-10) mxs), (Z.leb_spec mxs 20); cbn [andb]; try reflexivity; lia.
Qed.

(** The boolean judge used on implementation observations implies the Prop reading. *)
Lemma nat_upto_in n k : In k (nat_upto n) <-> (k < n)%nat.
Proof.
  induction n as [|n IH]; cbn [nat_upto]; [split; [intros []|lia]|].
  rewrite in_app_iff, IH. cbn [In]. lia.
Qed.

Lemma hist_point_okb_sound bounds vs p :
  hist_point_okb true bounds vs p = true -> hist_point_ok bounds vs p.
Proof.
  unfold hist_point_okb, hist_point_ok. rewrite !andb_true_iff.
  intros ((((((H1 & H2) & H3) & H4) & H5) & H6) & H7).
  apply Nat.eqb_eq in H1. apply N.eqb_eq in H2. apply N.eqb_eq in H3.
  apply is_minb_spec in H5. apply is_maxb_spec in H6. cbn [negb orb] in H7. apply Z.eqb_eq in H7.
  repeat split; try assumption; try apply H5; try apply H6.
  intros k Hk. rewrite forallb_forall in H4. specialize (H4 k). apply N.eqb_eq. apply H4.
  apply nat_upto_in. lia.
Qed.

(* ====================================================================== *)
(** * Part B: bucket windows *)

Definition bget (b : buckets) (i : Z) : N := bucket_get (b_start b) (b_counts b) i.
Definition bend (b : buckets) : Z := b_start b + blen b - 1.
Definition bsum (b : buckets) : N := nsum (b_counts b).

Lemma list_ind2 {A} (P : list A -> Prop) :
  P [] -> (forall a, P [a]) -> (forall a b r, P r -> P (a :: b :: r)) -> forall l, P l.
Proof.
  intros H0 H1 H2 l. assert (H : P l /\ forall x, P (x :: l)); [|apply H].
  induction l as [|y l [IHa IHb]]; split; auto.
Qed.

Lemma nth_nil {A} k (d : A) : nth k [] d = d.
Proof. destruct k; reflexivity. Qed.

Lemma nth_app_if {A} k (l1 l2 : list A) d :
  nth k (l1 ++ l2) d = if (k <? length l1)%nat then nth k l1 d else nth (k - length l1) l2 d.
Proof.
  destruct (Nat.ltb_spec k (length l1)); [apply app_nth1; lia|apply app_nth2; lia].
Qed.

Lemma pairsum_nsum l : nsum (pairsum l) = nsum l.
Proof.
  induction l as [|a|a b r IH] using list_ind2; try reflexivity.
  cbn [pairsum]. change (nsum ((a + b)%N :: pairsum r)) with (a + b + nsum (pairsum r))%N.
  change (nsum (a :: b :: r)) with (a + (b + nsum r))%N. lia.
Qed.

Lemma pairsum_nth l : forall k, nth k (pairsum l) 0%N = (nth (2 * k) l 0 + nth (2 * k + 1) l 0)%N.
Proof.
  induction l as [|a|a b r IH] using list_ind2; intro k.
  - cbn [pairsum]. rewrite !nth_nil. reflexivity.
  - cbn [pairsum]. destruct k as [|k]; [cbn [nth Nat.mul Nat.add]; lia|].
    rewrite !nth_overflow by (cbn [length]; lia). reflexivity.
  - cbn [pairsum]. destruct k as [|k]; [reflexivity|].
    replace (2 * S k)%nat with (S (S (2 * k))) by lia.
    replace (S (S (2 * k)) + 1)%nat with (S (S (2 * k + 1))) by lia.
    cbn [nth]. apply IH.
Qed.

Lemma pairsum_length l : (2 * length (pairsum l) = length l + Nat.b2n (Nat.odd (length l)))%nat.
Proof.
  induction l as [|a|a b r IH] using list_ind2; try reflexivity.
  cbn [pairsum length]. rewrite Nat.odd_succ_succ. lia.
Qed.

Lemma pairsum_nonempty l : l <> [] -> pairsum l <> [].
Proof. destruct l as [|a [|b r]]; cbn [pairsum]; congruence. Qed.

Lemma div2_odd_eq x : x = 2 * Z.shiftr x 1 + Z.b2z (Z.odd x).
Proof. rewrite <- Z.div2_spec. apply Z.div2_odd. Qed.

Lemma b_halve_start b : b_start (b_halve b) = Z.shiftr (b_start b) 1.
Proof. unfold b_halve. destruct (b_counts b); reflexivity. Qed.

Lemma b_halve_empty b : b_counts b = [] -> b_counts (b_halve b) = [].
Proof. unfold b_halve. intros ->. reflexivity. Qed.

Lemma b_halve_nonempty b : b_counts b <> [] -> b_counts (b_halve b) <> [].
Proof.
  unfold b_halve. destruct (b_counts b) as [|a c] eqn:E; [congruence|intros _].
  cbn [b_counts]. destruct (Z.odd (b_start b)); apply pairsum_nonempty; discriminate.
Qed.

Lemma b_halve_sum b : bsum (b_halve b) = bsum b.
Proof.
  unfold bsum, b_halve. destruct (b_counts b) as [|a c] eqn:E; [reflexivity|].
  cbn [b_counts]. destruct (Z.odd (b_start b)); rewrite pairsum_nsum; [|reflexivity].
  change (nsum (0%N :: a :: c)) with (0 + nsum (a :: c))%N. lia.
Qed.

Lemma b_halve_end b : b_counts b <> [] -> bend (b_halve b) = Z.shiftr (bend b) 1.
Proof.
  intro Hne. unfold bend, blen. rewrite b_halve_start.
  pose proof (div2_odd_eq (b_start b)) as Hs.
  unfold b_halve. destruct (b_counts b) as [|a c] eqn:E; [congruence|].
  cbn [b_counts]. rewrite !shiftr1_div2 in *.
  destruct (Z.odd (b_start b)); cbn [Z.b2z] in Hs.
  - pose proof (pairsum_length (0%N :: a :: c)) as HL. cbn [length] in *.
    destruct (Nat.odd (S (S (length c)))); cbn [Nat.b2n] in HL; lia.
  - pose proof (pairsum_length (a :: c)) as HL. cbn [length] in *.
    destruct (Nat.odd (S (length c))); cbn [Nat.b2n] in HL; lia.
Qed.
Lemma b_halve_get b j : bget (b_halve b) j = (bget b (2 * j) + bget b (2 * j + 1))%N.
Proof.
  unfold bget, bucket_get. rewrite b_halve_start.
  pose proof (div2_odd_eq (b_start b)) as Hs.
  unfold b_halve. destruct (b_counts b) as [|a c] eqn:E.
  - cbn [b_counts]. rewrite !nth_nil. destruct (_ <? _), (_ <? _), (_ <? _); reflexivity.
  - cbn [b_counts]. set (q := Z.shiftr (b_start b) 1) in *.
    destruct (Z.odd (b_start b)); cbn [Z.b2z] in Hs.
    + destruct (Z.ltb_spec j q) as [Hj|Hj].
      * destruct (Z.ltb_spec (2 * j) (b_start b)), (Z.ltb_spec (2 * j + 1) (b_start b)); try lia.
      * rewrite pairsum_nth. set (k := Z.to_nat (j - q)).
        destruct (Z.ltb_spec (2 * j + 1) (b_start b)); [lia|].
        replace (Z.to_nat (2 * j + 1 - b_start b)) with (2 * k)%nat by lia.
        replace (2 * k + 1)%nat with (S (2 * k)) by lia. cbn [nth].
        destruct (Z.ltb_spec (2 * j) (b_start b)).
        -- replace (2 * k)%nat with O by lia. reflexivity.
        -- replace (2 * k)%nat with (S (Z.to_nat (2 * j - b_start b))) at 1 by lia. reflexivity.
    + destruct (Z.ltb_spec j q) as [Hj|Hj].
      * destruct (Z.ltb_spec (2 * j) (b_start b)), (Z.ltb_spec (2 * j + 1) (b_start b)); try lia.
      * rewrite pairsum_nth. set (k := Z.to_nat (j - q)).
        destruct (Z.ltb_spec (2 * j) (b_start b)), (Z.ltb_spec (2 * j + 1) (b_start b)); try lia.
        replace (Z.to_nat (2 * j - b_start b)) with (2 * k)%nat by lia.
        replace (Z.to_nat (2 * j + 1 - b_start b)) with (2 * k + 1)%nat by lia. reflexivity.
Qed.
(** downscale *)
Lemma b_downscale_start d b : b_start (b_downscale d b) = Z.shiftr (b_start b) (Z.of_nat d).
Proof.
  revert b; induction d as [|d IH]; intro b; cbn [b_downscale]; [now rewrite Z.shiftr_0_r|].
  rewrite IH, b_halve_start, shiftr_shiftr1 by lia. f_equal. lia.
Qed.

Lemma b_downscale_empty d b : b_counts b = [] -> b_counts (b_downscale d b) = [].
Proof. revert b; induction d as [|d IH]; intros b H; cbn [b_downscale]; auto using b_halve_empty. Qed.

Lemma b_downscale_nonempty d b : b_counts b <> [] -> b_counts (b_downscale d b) <> [].
Proof. revert b; induction d as [|d IH]; intros b H; cbn [b_downscale]; auto using b_halve_nonempty. Qed.

Lemma b_downscale_end d b : b_counts b <> [] -> bend (b_downscale d b) = Z.shiftr (bend b) (Z.of_nat d).
Proof.
  revert b; induction d as [|d IH]; intros b H; cbn [b_downscale]; [now rewrite Z.shiftr_0_r|].
  rewrite IH by (apply b_halve_nonempty; exact H).
  rewrite b_halve_end, shiftr_shiftr1 by (exact H || lia). f_equal. lia.
Qed.

Lemma b_downscale_sum d b : bsum (b_downscale d b) = bsum b.
Proof. revert b; induction d as [|d IH]; intro b; cbn [b_downscale]; [reflexivity|]. now rewrite IH, b_halve_sum. Qed.

Lemma blen_end b : blen b = bend b - b_start b + 1.
Proof. unfold bend. lia. Qed.

Lemma shiftr1_diff_le x y : x <= y -> Z.shiftr y 1 - Z.shiftr x 1 <= y - x.
Proof. intro H. rewrite !shiftr1_div2. lia. Qed.

Lemma b_halve_len_le b : blen (b_halve b) <= blen b.
Proof.
  destruct (b_counts b) as [|a c] eqn:E.
  - unfold blen. rewrite b_halve_empty, E by exact E. lia.
  - assert (Hne : b_counts b <> []) by congruence.
    rewrite !blen_end, b_halve_end, b_halve_start by exact Hne.
    assert (b_start b <= bend b) by (unfold bend, blen; rewrite E; cbn [length]; lia).
    pose proof (shiftr1_diff_le _ _ H). lia.
Qed.

Lemma b_downscale_len_le d b : blen (b_downscale d b) <= blen b.
Proof.
  revert b; induction d as [|d IH]; intro b; cbn [b_downscale]; [lia|].
  pose proof (IH (b_halve b)). pose proof (b_halve_len_le b). lia.
Qed.

(** record *)
Lemma blen_nonneg b : 0 <= blen b.
Proof. unfold blen. lia. Qed.

Lemma b_record_nonempty b bin : b_counts (b_record b bin) <> [].
Proof.
  unfold b_record. destruct (b_counts b) as [|a c] eqn:E; [discriminate|].
  destruct (_ && _); [|destruct (_ <? _)]; cbn [b_counts].
  - intro H. apply (f_equal (@length N)) in H. rewrite incr_nth_length in H. discriminate.
  - discriminate.
  - intro H. apply (f_equal (@length N)) in H. rewrite !app_length in H. cbn [length] in H. lia.
Qed.

Lemma b_record_sum b bin : bsum (b_record b bin) = (bsum b + 1)%N.
Proof.
  unfold bsum, b_record. destruct (b_counts b) as [|a c] eqn:E; [reflexivity|].
  unfold blen. rewrite E.
  destruct ((b_start b <=? bin) && (bin <=? b_start b + Z.of_nat (length (a :: c)) - 1)) eqn:Hr; cbn [b_counts].
  - rewrite incr_nth_nsum; [reflexivity|]. cbn [length] in *. lia.
  - destruct (bin <? b_start b); cbn [b_counts].
    + rewrite nsum_app. change (nsum (1%N :: repeat 0%N ?n)) with (1 + nsum (repeat 0%N n))%N.
      rewrite nsum_repeat0. lia.
    + rewrite !nsum_app, nsum_repeat0. cbn. lia.
Qed.
Lemma b_record_get b bin i :
  bget (b_record b bin) i = (bget b i + (if (i =? bin)%Z then 1 else 0))%N.
Proof.
  unfold bget, bucket_get, b_record. destruct (b_counts b) as [|a c] eqn:E.
  - cbn [b_start b_counts]. rewrite nth_nil.
    destruct (Z.ltb_spec i bin), (Z.ltb_spec i (b_start b)), (Z.eqb_spec i bin); try lia;
      try (replace (Z.to_nat (i - bin)) with O by lia; reflexivity);
      try (rewrite nth_overflow by (cbn [length]; lia); reflexivity).
  - unfold blen. rewrite E. set (l := a :: c) in *. set (n := Z.of_nat (length l)).
    assert (Hn : 0 < n) by (unfold n, l; cbn [length]; lia).
    destruct ((b_start b <=? bin) && (bin <=? b_start b + n - 1)) eqn:Hr; cbn [b_start b_counts].
    + destruct (Z.ltb_spec i (b_start b)), (Z.eqb_spec i bin); try lia.
      * rewrite incr_nth_nth by lia. replace (Z.to_nat (bin - b_start b) =? Z.to_nat (i - b_start b))%nat with true by lia. reflexivity.
      * rewrite incr_nth_nth by lia. replace (Z.to_nat (bin - b_start b) =? Z.to_nat (i - b_start b))%nat with false by lia. lia.
    + destruct (Z.ltb_spec bin (b_start b)) as [Hlt|Hge]; cbn [b_start b_counts].
      * set (z := Z.to_nat (b_start b - bin - 1)).
        destruct (Z.ltb_spec i bin), (Z.ltb_spec i (b_start b)), (Z.eqb_spec i bin); try lia.
        -- subst i. replace (Z.to_nat (bin - bin)) with O by lia. reflexivity.
        -- rewrite nth_app_if. cbn [length]. rewrite repeat_length.
           replace (Z.to_nat (i - bin) <? S z)%nat with true by lia.
           replace (Z.to_nat (i - bin)) with (S (Z.to_nat (i - bin - 1))) by lia. cbn [nth].
           rewrite nth_repeat0. reflexivity.
        -- rewrite nth_app_if. cbn [length]. rewrite repeat_length.
           replace (Z.to_nat (i - bin) <? S z)%nat with false by lia.
           replace (Z.to_nat (i - bin) - S z)%nat with (Z.to_nat (i - b_start b)) by lia. lia.
      * set (z := Z.to_nat (bin - (b_start b + n - 1) - 1)).
        destruct (Z.ltb_spec i (b_start b)), (Z.eqb_spec i bin); try lia.
        -- subst i. rewrite nth_app_if. replace (Z.to_nat (bin - b_start b) <? length l)%nat with false by lia.
           rewrite nth_app_if, repeat_length.
           replace (Z.to_nat (bin - b_start b) - length l <? z)%nat with false by lia.
           replace (Z.to_nat (bin - b_start b) - length l - z)%nat with O by lia. cbn [nth].
           rewrite nth_overflow by lia. reflexivity.
        -- rewrite nth_app_if. destruct (Nat.ltb_spec (Z.to_nat (i - b_start b)) (length l)); [lia|].
           rewrite (nth_overflow l) by lia. rewrite nth_app_if, repeat_length.
           destruct (Nat.ltb_spec (Z.to_nat (i - b_start b) - length l) z); [rewrite nth_repeat0; reflexivity|].
           rewrite nth_overflow by (cbn [length]; lia). reflexivity.
Qed.

(** After record the window is the hull of the old window and the bin. *)
Lemma b_record_range b bin :
  b_counts b <> [] ->
  b_start (b_record b bin) = Z.min (b_start b) bin /\ bend (b_record b bin) = Z.max (bend b) bin.
Proof.
  intro Hne. unfold bend, b_record, blen. destruct (b_counts b) as [|a c] eqn:E; [congruence|].
  set (l := a :: c) in *. set (n := Z.of_nat (length l)).
  assert (Hn : 0 < n) by (unfold n, l; cbn [length]; lia).
  destruct ((b_start b <=? bin) && (bin <=? b_start b + n - 1)) eqn:Hr; cbn [b_start b_counts].
  - rewrite incr_nth_length. lia.
  - destruct (Z.ltb_spec bin (b_start b)) as [Hlt|Hge]; cbn [b_start b_counts].
    + rewrite app_length. cbn [length]. rewrite repeat_length. lia.
    + rewrite !app_length, repeat_length. cbn [length]. lia.
Qed.

Lemma b_record_first b bin :
  b_counts b = [] -> b_start (b_record b bin) = bin /\ bend (b_record b bin) = bin.
Proof. intro E. unfold bend, blen, b_record. rewrite E. cbn. lia. Qed.

(** scaleChange's loop *)
Lemma sc_loop_range n low high ms : 0 <= sc_loop n low high ms <= Z.of_nat n + 1.
Proof.
  revert low high; induction n as [|n IH]; intros low high; cbn [sc_loop];
    destruct (ms <=? high - low); try lia.
  specialize (IH (Z.shiftr low 1) (Z.shiftr high 1)). lia.
Qed.

(** Below the returned count the window never fits ... *)
Lemma sc_loop_below n low high ms j :
  0 <= j < sc_loop n low high ms -> ms <= Z.shiftr high j - Z.shiftr low j.
Proof.
  revert low high j; induction n as [|n IH]; intros low high j; cbn [sc_loop];
    destruct (Z.leb_spec ms (high - low)) as [Hc|Hc]; try lia.
  - intro Hj. replace j with 0 by lia. now rewrite !Z.shiftr_0_r.
  - intro Hj. destruct (Z.eq_dec j 0) as [->|Hnz]; [now rewrite !Z.shiftr_0_r|].
    specialize (IH (Z.shiftr low 1) (Z.shiftr high 1) (j - 1)).
    rewrite !shiftr_shiftr1 in IH by lia. replace (j - 1 + 1) with j in IH by lia. apply IH. lia.
Qed.

(** ... and at the returned count it does, unless the iteration cap was hit. *)
Lemma sc_loop_at n low high ms :
  sc_loop n low high ms <= Z.of_nat n ->
  Z.shiftr high (sc_loop n low high ms) - Z.shiftr low (sc_loop n low high ms) < ms.
Proof.
  revert low high; induction n as [|n IH]; intros low high; cbn [sc_loop];
    destruct (Z.leb_spec ms (high - low)) as [Hc|Hc]; try lia;
    try (intros _; now rewrite !Z.shiftr_0_r).
  intro Hle. specialize (IH (Z.shiftr low 1) (Z.shiftr high 1)).
  pose proof (sc_loop_range n (Z.shiftr low 1) (Z.shiftr high 1) ms).
  rewrite !shiftr_shiftr1 in IH by lia.
  replace (1 + sc_loop n (Z.shiftr low 1) (Z.shiftr high 1) ms)
    with (sc_loop n (Z.shiftr low 1) (Z.shiftr high 1) ms + 1) by lia.
  apply IH. lia.
Qed.
(* ====================================================================== *)
(** * Part C: the exact bucket relation *)

(** "2^lo < M <= 2^hi" for a positive integer M and integer exponents of either sign. *)
Definition bk2 (M lo hi : Z) : Prop := (lo < 0 \/ 2 ^ lo < M) /\ (0 <= hi /\ M <= 2 ^ hi).

Lemma bk2_weaken M lo hi lo' hi' : bk2 M lo hi -> lo' <= lo -> hi <= hi' -> bk2 M lo' hi'.
Proof.
  intros [[H1|H1] [H2 H3]] Hl Hh; (split; [|split; [lia|]]).
  - left; lia.
  - eapply Z.le_trans; [exact H3|]. apply Z.pow_le_mono_r; lia.
  - destruct (Z_lt_ge_dec lo' 0); [now left|right].
    eapply Z.le_lt_trans; [|exact H1]. apply Z.pow_le_mono_r; lia.
  - eapply Z.le_trans; [exact H3|]. apply Z.pow_le_mono_r; lia.
Qed.

Lemma bk2_excl M lo hi lo' hi' : bk2 M lo hi -> bk2 M lo' hi' -> hi <= lo' -> False.
Proof.
  intros [_ [H2 H3]] [[H1|H1] _] Hle; [lia|].
  assert (2 ^ hi <= 2 ^ lo') by (apply Z.pow_le_mono_r; lia). lia.
Qed.

Lemma in_bucket_nonneg_iff s m e i : 0 <= s -> 0 < m ->
  (in_bucket s m e i <-> bk2 (m ^ 2 ^ s) (i - e * 2 ^ s) (i + 1 - e * 2 ^ s)).
Proof.
  intros Hs Hm. unfold in_bucket, bk2. replace (0 <=? s) with true by lia. cbv zeta.
  assert (0 < m ^ 2 ^ s) by (apply Z.pow_pos_nonneg; [exact Hm|apply Z.pow_nonneg; lia]).
  rewrite pow2_lt_iff, le_pow2_iff by assumption. reflexivity.
Qed.

Lemma in_bucket_nonpos_iff s m e i : s <= 0 -> 0 < m ->
  (in_bucket s m e i <-> bk2 m (i * 2 ^ (- s) - e) ((i + 1) * 2 ^ (- s) - e)).
Proof.
  intros Hs Hm. destruct (Z.eq_dec s 0) as [->|Hnz].
  - rewrite in_bucket_nonneg_iff by lia. change (2 ^ 0) with 1. change (2 ^ (- 0)) with 1.
    rewrite Z.pow_1_r, !Z.mul_1_r. reflexivity.
  - unfold in_bucket, bk2. replace (0 <=? s) with false by lia. cbv zeta.
    rewrite pow2_lt_iff, le_pow2_iff by assumption. reflexivity.
Qed.

Lemma in_bucket_unique s m e i j : 0 < m -> in_bucket s m e i -> in_bucket s m e j -> i = j.
Proof.
  intros Hm Hi Hj. destruct (Z_le_gt_dec 0 s) as [Hs|Hs].
  - rewrite in_bucket_nonneg_iff in Hi, Hj by assumption.
    destruct (Z.lt_trichotomy i j) as [Hlt|[E|Hgt]]; [exfalso|exact E|exfalso].
    + eapply (bk2_excl _ _ _ _ _ Hi Hj). lia.
    + eapply (bk2_excl _ _ _ _ _ Hj Hi). lia.
  - rewrite in_bucket_nonpos_iff in Hi, Hj by (assumption || lia).
    assert (Hk : 0 < 2 ^ (- s)) by (apply pow2_pos; lia).
    destruct (Z.lt_trichotomy i j) as [Hlt|[E|Hgt]]; [exfalso|exact E|exfalso].
    + eapply (bk2_excl _ _ _ _ _ Hi Hj). nia.
    + eapply (bk2_excl _ _ _ _ _ Hj Hi). nia.
Qed.

Lemma bk2_log2_up M : 0 < M -> bk2 M (Z.log2_up M - 1) (Z.log2_up M).
Proof.
  intro HM. pose proof (Z.log2_up_nonneg M) as Hnn. unfold bk2.
  destruct (Z.eq_dec M 1) as [->|Hne].
  - change (Z.log2_up 1) with 0. cbn. lia.
  - pose proof (Z.log2_up_spec M ltac:(lia)) as [H1 H2]. rewrite <- Z.sub_1_r in H1. tauto.
Qed.

(** The closed form is a bucket of the value (so buckets exist at every scale) ... *)
Lemma exact_bin_correct s m e : 0 < m -> in_bucket s m e (exact_bin s m e).
Proof.
  intro Hm. unfold exact_bin. destruct (Z.leb_spec 0 s) as [Hs|Hs].
  - rewrite in_bucket_nonneg_iff by assumption.
    assert (HM : 0 < m ^ 2 ^ s) by (apply Z.pow_pos_nonneg; [exact Hm|apply Z.pow_nonneg; lia]).
    eapply bk2_weaken; [apply bk2_log2_up; exact HM|lia|lia].
  - rewrite in_bucket_nonpos_iff by (assumption || lia).
    rewrite Z.shiftr_div_pow2 by lia.
    assert (Hk : 0 < 2 ^ (- s)) by (apply pow2_pos; lia).
    set (k := 2 ^ (- s)) in *. set (x := Z.log2_up m + e - 1).
    pose proof (Z.div_mod x k ltac:(lia)) as Hd. pose proof (Z.mod_pos_bound x k Hk) as Hr.
    eapply bk2_weaken; [apply bk2_log2_up; exact Hm| |]; nia.
Qed.

(** ... and the only one. *)
Lemma in_bucket_exact s m e i : 0 < m -> (in_bucket s m e i <-> i = exact_bin s m e).
Proof.
  intro Hm. split.
  - intro H. eapply in_bucket_unique; [exact Hm|exact H|apply exact_bin_correct; exact Hm].
  - intros ->. apply exact_bin_correct; exact Hm.
Qed.

(** Halving the resolution: the bucket of a value at scale s-1 is its bucket at scale s,
    shifted right by one (from the monotonicity of squaring). *)
Lemma in_bucket_shift1 s m e i : 0 < m -> in_bucket s m e i -> in_bucket (s - 1) m e (Z.shiftr i 1).
Proof.
  intros Hm H. rewrite shiftr1_div2. destruct (Z_le_gt_dec 1 s) as [Hs|Hs].
  - rewrite in_bucket_nonneg_iff in * by (assumption || lia).
    replace (2 ^ s) with (2 * 2 ^ (s - 1)) in H
      by (replace s with (1 + (s - 1)) at 2 by lia; rewrite pow2_split by lia; reflexivity).
    set (n := 2 ^ (s - 1)) in *. assert (Hn : 0 < n) by (apply pow2_pos; lia).
    replace (m ^ (2 * n)) with (m ^ n * m ^ n) in H by (rewrite <- Z.pow_add_r by lia; f_equal; lia).
    assert (HM : 0 < m ^ n) by (apply Z.pow_pos_nonneg; lia).
    set (M := m ^ n) in *. set (t := e * n).
    replace (e * (2 * n)) with (2 * t) in H by (unfold t; ring).
    set (d := i - 2 * t) in *. replace (i + 1 - 2 * t) with (d + 1) in H by (unfold d; lia).
    replace (i / 2 - t) with (d / 2) by (unfold d; lia).
    replace (i / 2 + 1 - t) with (d / 2 + 1) by (unfold d; lia).
    destruct H as [Hlo [Hh1 Hh2]]. unfold bk2. split; [|split; [lia|]].
    + destruct (Z_lt_ge_dec (d / 2) 0) as [Hneg|Hnn]; [now left|right].
      destruct Hlo as [Hlo|Hlo]; [lia|].
      assert (Hp : 2 ^ (d / 2) * 2 ^ (d / 2) <= 2 ^ d).
      { rewrite <- pow2_split by lia. apply Z.pow_le_mono_r; lia. }
      apply sq_lt_inv; [apply Z.pow_nonneg; lia|lia|lia].
    + assert (Hp : 2 ^ (d + 1) <= 2 ^ (d / 2 + 1) * 2 ^ (d / 2 + 1)).
      { rewrite <- pow2_split by lia. apply Z.pow_le_mono_r; lia. }
      apply sq_le_inv; [lia|apply Z.pow_nonneg; lia|lia].
  - rewrite in_bucket_nonpos_iff in * by (assumption || lia).
    replace (- (s - 1)) with (1 + - s) by lia. rewrite pow2_split by lia. change (2 ^ 1) with 2.
    assert (Hk : 0 < 2 ^ (- s)) by (apply pow2_pos; lia). set (k := 2 ^ (- s)) in *.
    eapply bk2_weaken; [exact H| |]; nia.
Qed.

Lemma in_bucket_shift_nat s m e i (d : nat) : 0 < m ->
  in_bucket s m e i -> in_bucket (s - Z.of_nat d) m e (Z.shiftr i (Z.of_nat d)).
Proof.
  intros Hm H. induction d as [|d IH].
  - cbn [Z.of_nat]. now rewrite Z.sub_0_r, Z.shiftr_0_r.
  - replace (s - Z.of_nat (S d)) with (s - Z.of_nat d - 1) by lia.
    replace (Z.of_nat (S d)) with (Z.of_nat d + 1) by lia.
    rewrite shiftr_succ by lia. apply in_bucket_shift1; assumption.
Qed.

Lemma in_bucket_shift s m e i d : 0 < m -> 0 <= d ->
  in_bucket s m e i -> in_bucket (s - d) m e (Z.shiftr i d).
Proof.
  intros Hm Hd H. rewrite <- (Z2Nat.id d Hd). now apply in_bucket_shift_nat.
Qed.

Lemma exact_bin_shift s m e d : 0 < m -> 0 <= d ->
  exact_bin (s - d) m e = Z.shiftr (exact_bin s m e) d.
Proof.
  intros Hm Hd. symmetry. apply in_bucket_exact; [exact Hm|].
  apply in_bucket_shift; [exact Hm|exact Hd|]. apply exact_bin_correct; exact Hm.
Qed.

(** getBin for scale <= 0 (Frexp exponent, power-of-two correction, shift) is exact for
    every positive dyadic, in particular every positive finite float64, subnormals included. *)
Lemma get_bin_nonpos_exact s m u : s <= 0 -> 0 < m -> get_bin_nonpos s m u = exact_bin s m u.
Proof.
  intros Hs Hm. unfold get_bin_nonpos. cbv zeta.
  pose proof (Z.log2_spec m Hm) as [HL1 HL2]. pose proof (Z.log2_nonneg m) as HL0.
  rewrite shiftl_1 by exact HL0.
  set (L := Z.log2 m) in *.
  assert (E : L + u + 1 - (if m =? 2 ^ L then 2 else 1) = Z.log2_up m + u - 1).
  { destruct (Z.eqb_spec m (2 ^ L)) as [Ep|Ep].
    - rewrite Ep, Z.log2_up_pow2 by lia. lia.
    - rewrite (Z.log2_up_unique m (L + 1)); [lia|lia|].
      replace (Z.pred (L + 1)) with L by lia. rewrite <- Z.add_1_r in HL2. lia. }
  rewrite E. unfold exact_bin. destruct (Z.leb_spec 0 s) as [H0|H0]; [|reflexivity].
  replace s with 0 by lia. change (2 ^ 0) with 1. rewrite Z.pow_1_r, Z.shiftr_0_r. lia.
Qed.

Lemma get_bin_nonpos_in_bucket s m u : s <= 0 -> 0 < m -> in_bucket s m u (get_bin_nonpos s m u).
Proof. intros Hs Hm. rewrite get_bin_nonpos_exact by assumption. apply exact_bin_correct; exact Hm. Qed.

Lemma in_bucketb_spec s m e i : 0 < m -> (in_bucketb s m e i = true <-> in_bucket s m e i).
Proof.
  intro Hm. unfold in_bucketb, in_bucket. destruct (0 <=? s) eqn:Hs; cbv zeta.
  - assert (0 < m ^ 2 ^ s) by (apply Z.pow_pos_nonneg; [exact Hm|apply Z.pow_nonneg; lia]).
    rewrite andb_true_iff, pow2_ltb_spec, le_pow2b_spec by assumption. reflexivity.
  - rewrite andb_true_iff, pow2_ltb_spec, le_pow2b_spec by assumption. reflexivity.
Qed.

Lemma in_bucketb_exact s m e i : 0 < m -> in_bucketb s m e i = (exact_bin s m e =? i).
Proof.
  intro Hm. destruct (Z.eqb_spec (exact_bin s m e) i) as [E|E].
  - apply in_bucketb_spec; [exact Hm|]. subst i. apply exact_bin_correct; exact Hm.
  - destruct (in_bucketb s m e i) eqn:H; [|reflexivity].
    apply in_bucketb_spec in H; [|exact Hm]. apply in_bucket_exact in H; [congruence|exact Hm].
Qed.
(* ====================================================================== *)
(** * Part D: the exponential histogram over arbitrary measurement sequences *)

Definition ecount_parts (st : expo) : N := (e_zero st + bsum (e_pos st) + bsum (e_neg st))%N.

Lemma scale_change_nonneg ms bin start len : 0 <= scale_change ms bin start len <= 31.
Proof.
  unfold scale_change. destruct (len =? 0); [lia|].
  destruct (bin <=? start).
  - pose proof (sc_loop_range 30 bin (start + len - 1) ms). lia.
  - pose proof (sc_loop_range 30 start bin ms). lia.
Qed.

Section ExpoAny.
  (** D.1: facts that hold for every index function [gb] (even a wrong one). *)
  Variable gb : Z -> Z -> Z.
  Variables u ms mxs : Z.
  Notation rec := (expo_record gb u ms).
  Notation run := (expo_run gb u ms mxs).

  Lemma expo_record_scale st v :
    e_scale (rec st v) <= e_scale st /\ (-10 <= e_scale st -> -10 <= e_scale (rec st v)).
  Proof.
    unfold expo_record. cbv zeta. destruct (v =? 0); [cbn; lia|].
    set (d := scale_change _ _ _ _).
    destruct (Z.ltb_spec 0 d) as [Hd|Hd].
    - destruct (Z.ltb_spec (e_scale st - d) (-10)); [cbn; lia|].
      destruct (v <? 0); cbn [with_buckets e_scale]; lia.
    - destruct (v <? 0); cbn [with_buckets e_scale]; lia.
  Qed.

  Lemma fold_scale_le l st : e_scale (fold_left rec l st) <= e_scale st.
  Proof.
    revert st; induction l as [|v l IH]; intro st; cbn [fold_left]; [lia|].
    pose proof (IH (rec st v)). pose proof (expo_record_scale st v). lia.
  Qed.

  Lemma fold_scale_ge l st : -10 <= e_scale st -> -10 <= e_scale (fold_left rec l st).
  Proof.
    revert st; induction l as [|v l IH]; intros st H; cbn [fold_left]; [lia|].
    apply IH. apply expo_record_scale. exact H.
  Qed.

  (** scale <= MaxScale, scale >= -10, and the scale never increases along a sequence. *)
  Lemma expo_scale_range vs : -10 <= mxs -> -10 <= e_scale (run vs) <= mxs.
  Proof.
    intro H. unfold expo_run. split; [apply fold_scale_ge; cbn; exact H|].
    pose proof (fold_scale_le vs (expo_init mxs)). cbn [expo_init e_scale] in *. lia.
  Qed.

  Lemma expo_scale_monotone l1 l2 : e_scale (run (l1 ++ l2)) <= e_scale (run l1).
  Proof. unfold expo_run. rewrite fold_left_app. apply fold_scale_le. Qed.

  (** count, sum, min, max: every branch of record leaves them as expo_stats set them. *)
  Lemma expo_record_stats st v :
    e_count (rec st v) = (e_count st + 1)%N /\ e_sum (rec st v) = e_sum st + v /\
    e_min (rec st v) = e_min (expo_stats st v) /\ e_max (rec st v) = e_max (expo_stats st v).
  Proof.
    unfold expo_record. cbv zeta. destruct (v =? 0); [cbn; auto|].
    destruct (0 <? _); [destruct (_ <? -10)|]; try destruct (v <? 0); cbn; auto.
  Qed.

  Definition stats_inv (l : list Z) (st : expo) : Prop :=
    e_count st = N.of_nat (length l) /\ e_sum st = zsum l /\
    match e_min st with None => l = [] | Some x => is_min l x end /\
    match e_max st with None => l = [] | Some x => is_max l x end.

  Lemma stats_step l st v : stats_inv l st -> stats_inv (l ++ [v]) (rec st v).
  Proof.
    intros (Hc & Hs & Hmin & Hmax). pose proof (expo_record_stats st v) as (E1 & E2 & E3 & E4).
    unfold stats_inv. rewrite E1, E2, E3, E4. cbn [expo_stats e_min e_max].
    split; [rewrite app_length; cbn [length]; lia|].
    split; [rewrite zsum_app; cbn [zsum fold_right]; lia|].
    split.
    - destruct (e_min st) as [x|]; [apply is_min_snoc; exact Hmin|subst l; apply is_min_one].
    - destruct (e_max st) as [x|]; [apply is_max_snoc; exact Hmax|subst l; apply is_max_one].
  Qed.

  Lemma stats_run vs : stats_inv vs (run vs).
  Proof.
    unfold expo_run. induction vs as [|v vs IH] using rev_ind.
    - cbn. repeat split; reflexivity.
    - rewrite fold_left_app. cbn [fold_left]. apply stats_step. exact IH.
  Qed.

  (** Nothing is counted in a bucket without being counted in [count]. *)
  Lemma count_le_step st v :
    (ecount_parts st <= e_count st)%N -> (ecount_parts (rec st v) <= e_count (rec st v))%N.
  Proof.
    unfold ecount_parts, expo_record. cbv zeta. intro H. destruct (v =? 0); [cbn; lia|].
    destruct (0 <? _); [destruct (_ <? -10)|]; try destruct (v <? 0);
      cbn [with_buckets expo_stats e_zero e_pos e_neg e_count];
      rewrite ?b_record_sum, ?b_downscale_sum; lia.
  Qed.

  Lemma count_le_run vs : (ecount_parts (run vs) <= e_count (run vs))%N.
  Proof.
    unfold expo_run. induction vs as [|v vs IH] using rev_ind; [cbn; lia|].
    rewrite fold_left_app. cbn [fold_left]. apply count_le_step. exact IH.
  Qed.
End ExpoAny.

(** Window arithmetic of one record step: the new window is never wider than maxSize. *)
Lemma size_step_same ms b bin :
  1 <= ms -> blen b <= ms ->
  scale_change ms bin (b_start b) (blen b) = 0 -> blen (b_record b bin) <= ms.
Proof.
  intros Hms Hlen Hd. destruct (b_counts b) as [|a c] eqn:E.
  - rewrite blen_end. destruct (b_record_first b bin E) as [-> ->]. lia.
  - assert (Hne : b_counts b <> []) by congruence.
    assert (Hl : 0 < blen b) by (unfold blen; rewrite E; cbn [length]; lia).
    rewrite (blen_end (b_record b bin)). destruct (b_record_range b bin Hne) as [-> ->].
    unfold scale_change in Hd. replace (blen b =? 0) with false in Hd by lia.
    fold (bend b) in Hd. pose proof (blen_end b).
    destruct (Z.leb_spec bin (b_start b)).
    + pose proof (sc_loop_at 30 bin (bend b) ms) as H30. rewrite Hd, !Z.shiftr_0_r in H30. lia.
    + pose proof (sc_loop_at 30 (b_start b) bin ms) as H30. rewrite Hd, !Z.shiftr_0_r in H30. lia.
Qed.

Lemma size_step_down ms b bin d :
  1 <= ms -> blen b <= ms ->
  scale_change ms bin (b_start b) (blen b) = d -> 0 < d <= 30 ->
  blen (b_record (b_downscale (Z.to_nat d) b) (Z.shiftr bin d)) <= ms.
Proof.
  intros Hms Hlen Hsc Hd. unfold scale_change in Hsc.
  destruct (Z.eqb_spec (blen b) 0) as [E0|E0]; [lia|].
  assert (Hne : b_counts b <> []) by (unfold blen in E0; destruct (b_counts b); [cbn in E0; lia|discriminate]).
  fold (bend b) in Hsc. pose proof (blen_end b) as Hbe.
  set (b1 := b_downscale (Z.to_nat d) b).
  assert (Hne1 : b_counts b1 <> []) by (apply b_downscale_nonempty; exact Hne).
  assert (Hs1 : b_start b1 = Z.shiftr (b_start b) d)
    by (unfold b1; rewrite b_downscale_start, Z2Nat.id by lia; reflexivity).
  assert (He1 : bend b1 = Z.shiftr (bend b) d)
    by (unfold b1; rewrite b_downscale_end, Z2Nat.id by (exact Hne || lia); reflexivity).
  rewrite (blen_end (b_record b1 _)). destruct (b_record_range b1 (Z.shiftr bin d) Hne1) as [-> ->].
  rewrite Hs1, He1.
  pose proof (blen_nonneg b) as Hbn. assert (Hsb : b_start b <= bend b) by lia.
  pose proof (shiftr_mono _ _ d ltac:(lia) Hsb).
  destruct (Z.leb_spec bin (b_start b)) as [Hle|Hgt].
  - pose proof (sc_loop_at 30 bin (bend b) ms) as H30. rewrite Hsc in H30. specialize (H30 ltac:(lia)).
    pose proof (shiftr_mono _ _ d ltac:(lia) Hle). lia.
  - pose proof (sc_loop_at 30 (b_start b) bin ms) as H30. rewrite Hsc in H30. specialize (H30 ltac:(lia)).
    pose proof (sc_loop_below 30 (b_start b) bin ms 0) as Hb. rewrite Hsc, !Z.shiftr_0_r in Hb.
    specialize (Hb ltac:(lia)).
    assert (Hbb : bend b <= bin) by lia.
    pose proof (shiftr_mono _ _ d ltac:(lia) Hbb).
    assert (Hsb' : b_start b <= bin) by lia.
    pose proof (shiftr_mono _ _ d ltac:(lia) Hsb'). lia.
Qed.
Lemma count_where_halves {A} (f : A -> Z) l j :
  count_where (fun m => Z.shiftr (f m) 1 =? j) l =
  N.add (count_where (fun m => f m =? 2 * j) l) (count_where (fun m => f m =? 2 * j + 1) l).
Proof.
  induction l as [|x l IH]; [reflexivity|]. rewrite !count_where_cons, IH, shiftr1_div2.
  destruct (Z.eqb_spec (f x / 2) j), (Z.eqb_spec (f x) (2 * j)), (Z.eqb_spec (f x) (2 * j + 1)); lia.
Qed.

Definition posl (vs : list Z) : list Z := filter (fun v => 0 <? v) vs.
Definition negl (vs : list Z) : list Z := map Z.opp (filter (fun v => v <? 0) vs).

Lemma posl_snoc vs v : posl (vs ++ [v]) = posl vs ++ (if 0 <? v then [v] else []).
Proof. unfold posl. rewrite filter_app. cbn [filter]. reflexivity. Qed.
Lemma negl_snoc vs v : negl (vs ++ [v]) = negl vs ++ (if v <? 0 then [- v] else []).
Proof. unfold negl. rewrite filter_app, map_app. cbn [filter]. destruct (v <? 0); reflexivity. Qed.

Lemma posl_in vs a : In a (posl vs) <-> In a vs /\ 0 < a.
Proof. unfold posl. rewrite filter_In, Z.ltb_lt. reflexivity. Qed.
Lemma negl_in vs a : In a (negl vs) <-> In (- a) vs /\ 0 < a.
Proof.
  unfold negl. rewrite in_map_iff. split.
  - intros (x & E & Hx). apply filter_In in Hx as [Hx Hn]. subst a. rewrite Z.opp_involutive. split; [exact Hx|lia].
  - intros [Hin Hp]. exists (- a). rewrite Z.opp_involutive. split; [reflexivity|].
    apply filter_In. split; [exact Hin|lia].
Qed.

Section ExpoExact.
  (** D.2: facts that need the positive-scale index to be the exact one. *)
  Variable gb : Z -> Z -> Z.
  Variables u ms mxs : Z.
  Hypothesis Hgb : positive_index_exact gb u mxs.
  Hypothesis Hms : 1 <= ms.
  Hypothesis Hmx : -10 <= mxs <= 20.
  Notation rec := (expo_record gb u ms).
  Notation run := (expo_run gb u ms mxs).
  Notation E := (fun s m => exact_bin s m u).

  Lemma get_bin_exact s m : s <= mxs -> 0 < m -> get_bin gb u s m = exact_bin s m u.
  Proof.
    intros Hs Hm. unfold get_bin. destruct (Z.leb_spec s 0).
    - apply get_bin_nonpos_exact; assumption.
    - apply Hgb; lia.
  Qed.

  (** The part of record shared by both signs: [bk] is the bucket window of the value's
      sign, [ob] the other one. *)
  Definition step_core (s : Z) (bk ob : buckets) (m : Z) : option (Z * buckets * buckets) :=
    let bin := get_bin gb u s m in
    let d := scale_change ms bin (b_start bk) (blen bk) in
    if 0 <? d then
      if s - d <? -10 then None
      else Some (s - d, b_record (b_downscale (Z.to_nat d) bk) (get_bin gb u (s - d) m),
                 b_downscale (Z.to_nat d) ob)
    else Some (s, b_record bk bin, ob).

  Lemma expo_record_core st v : v <> 0 ->
    rec st v =
      let st1 := expo_stats st v in
      if v <? 0 then
        match step_core (e_scale st) (e_neg st) (e_pos st) (Z.abs v) with
        | None => st1 | Some (s', bk', ob') => with_buckets st1 s' ob' bk' end
      else
        match step_core (e_scale st) (e_pos st) (e_neg st) (Z.abs v) with
        | None => st1 | Some (s', bk', ob') => with_buckets st1 s' bk' ob' end.
  Proof.
    intro Hv. unfold expo_record, step_core. cbv zeta. replace (v =? 0) with false by lia.
    destruct (v <? 0); destruct (0 <? _); try destruct (_ <? -10); reflexivity.
  Qed.

  (** Sizes and scale range are preserved by every step (no guard on the values). *)
  Lemma core_size s bk ob m :
    -10 <= s <= mxs -> 0 < m -> blen bk <= ms -> blen ob <= ms ->
    match step_core s bk ob m with
    | None => True
    | Some (s', bk', ob') => -10 <= s' <= s /\ blen bk' <= ms /\ blen ob' <= ms
    end.
  Proof.
    intros Hs Hm Hb Ho. unfold step_core. cbv zeta.
    rewrite (get_bin_exact s m) by lia.
    set (d := scale_change ms (exact_bin s m u) (b_start bk) (blen bk)).
    pose proof (scale_change_nonneg ms (exact_bin s m u) (b_start bk) (blen bk)) as Hd. fold d in Hd.
    destruct (Z.ltb_spec 0 d) as [Hpos|Hz].
    - destruct (Z.ltb_spec (s - d) (-10)) as [Hu|Hu]; [exact I|].
      rewrite (get_bin_exact (s - d) m) by lia. rewrite exact_bin_shift by lia.
      split; [lia|]. split.
      + apply size_step_down; [exact Hms|exact Hb|reflexivity|lia].
      + pose proof (b_downscale_len_le (Z.to_nat d) ob). lia.
    - split; [lia|]. split; [|exact Ho].
      apply size_step_same; [exact Hms|exact Hb|fold d; lia].
  Qed.

  Definition size_inv (st : expo) : Prop :=
    -10 <= e_scale st <= mxs /\ blen (e_pos st) <= ms /\ blen (e_neg st) <= ms.

  Lemma size_inv_step st v : size_inv st -> size_inv (rec st v).
  Proof.
    intros (Hs & Hp & Hn). destruct (Z.eq_dec v 0) as [->|Hv].
    - unfold size_inv, expo_record. change (0 =? 0) with true.
      cbn [with_zero expo_stats e_scale e_pos e_neg]. lia.
    - rewrite expo_record_core by exact Hv. cbv zeta.
      destruct (Z.ltb_spec v 0).
      + pose proof (core_size (e_scale st) (e_neg st) (e_pos st) (Z.abs v) Hs ltac:(lia) Hn Hp) as Hc.
        unfold size_inv. destruct (step_core _ _ _ _) as [[[s' bk'] ob']|];
          cbn [with_buckets expo_stats e_scale e_pos e_neg]; lia.
      + pose proof (core_size (e_scale st) (e_pos st) (e_neg st) (Z.abs v) Hs ltac:(lia) Hp Hn) as Hc.
        unfold size_inv. destruct (step_core _ _ _ _) as [[[s' bk'] ob']|];
          cbn [with_buckets expo_stats e_scale e_pos e_neg]; lia.
  Qed.

  Lemma size_inv_run vs : size_inv (run vs).
  Proof.
    unfold expo_run. induction vs as [|v vs IH] using rev_ind.
    - unfold size_inv. cbn. lia.
    - rewrite fold_left_app. cbn [fold_left]. apply size_inv_step. exact IH.
  Qed.

  (** Tally invariant of one bucket window against the magnitudes [l] recorded in it. *)
  Definition BI (s : Z) (b : buckets) (l : list Z) : Prop :=
    Forall (fun m => 0 < m) l /\
    (forall i, bget b i = count_where (fun m => exact_bin s m u =? i) l) /\
    (b_counts b <> [] -> exists m1 m2, In m1 l /\ In m2 l /\
        b_start b = exact_bin s m1 u /\ bend b = exact_bin s m2 u).

  Lemma BI_empty s : BI s b_empty [].
  Proof.
    split; [constructor|]. split; [|intro H; now contradiction H].
    intro i. unfold bget, bucket_get, b_empty. cbn [b_start b_counts]. rewrite nth_nil.
    destruct (i <? 0); reflexivity.
  Qed.

  Lemma BI_halve s b l : BI s b l -> BI (s - 1) (b_halve b) l.
  Proof.
    intros (Hpos & Hget & Hext). rewrite Forall_forall in Hpos.
    split; [now apply Forall_forall|]. split.
    - intro j. rewrite b_halve_get, !Hget, <- count_where_halves.
      apply count_where_ext. intros m Hm. cbv beta. rewrite exact_bin_shift by (auto || lia). reflexivity.
    - intro Hne. assert (Hne0 : b_counts b <> []) by (intro E0; apply Hne, b_halve_empty, E0).
      destruct (Hext Hne0) as (m1 & m2 & H1 & H2 & Hs & He). exists m1, m2.
      repeat split; try assumption.
      + rewrite b_halve_start, Hs. symmetry. apply exact_bin_shift; [auto|lia].
      + rewrite b_halve_end, He by exact Hne0. symmetry. apply exact_bin_shift; [auto|lia].
  Qed.

  Lemma BI_downscale d s b l : BI s b l -> BI (s - Z.of_nat d) (b_downscale d b) l.
  Proof.
    revert s b; induction d as [|d IH]; intros s b H; cbn [b_downscale].
    - replace (s - Z.of_nat 0) with s by lia. exact H.
    - replace (s - Z.of_nat (S d)) with (s - 1 - Z.of_nat d) by lia. apply IH, BI_halve, H.
  Qed.

  Lemma BI_record s b l m : BI s b l -> 0 < m -> BI s (b_record b (exact_bin s m u)) (l ++ [m]).
  Proof.
    intros (Hpos & Hget & Hext) Hm. split; [apply Forall_app; split; [exact Hpos|repeat constructor; exact Hm]|].
    split.
    - intro i. rewrite b_record_get, Hget, count_where_app, count_where_one. cbv beta.
      rewrite (Z.eqb_sym i). reflexivity.
    - intros _. destruct (b_counts b) as [|a c] eqn:Eb.
      + destruct (b_record_first b (exact_bin s m u) Eb) as [-> ->]. exists m, m.
        repeat split; apply in_or_app; right; now left.
      + assert (Hne : b_counts b <> []) by congruence.
        destruct (Hext ltac:(discriminate)) as (m1 & m2 & H1 & H2 & Hs & He).
        destruct (b_record_range b (exact_bin s m u) Hne) as [-> ->].
        exists (if b_start b <=? exact_bin s m u then m1 else m),
               (if exact_bin s m u <=? bend b then m2 else m).
        repeat split.
        * destruct (_ <=? _); apply in_or_app; [now left|right; now left].
        * destruct (_ <=? _); apply in_or_app; [now left|right; now left].
        * destruct (Z.leb_spec (b_start b) (exact_bin s m u)); lia.
        * destruct (Z.leb_spec (exact_bin s m u) (bend b)); lia.
  Qed.

  (** If the values of this sign fit into [ms] buckets at scale -10, scaleChange never asks
      for a scale below -10. *)
  Lemma no_underflow s bk lk m :
    -10 <= s <= mxs -> BI s bk lk -> 0 < m ->
    (forall a b, In a (lk ++ [m]) -> In b (lk ++ [m]) -> exact_bin (-10) a u - exact_bin (-10) b u < ms) ->
    -10 <= s - scale_change ms (exact_bin s m u) (b_start bk) (blen bk).
  Proof.
    intros Hs (Hpos & Hget & Hext) Hm Hfit. rewrite Forall_forall in Hpos.
    set (bin := exact_bin s m u). set (d := scale_change ms bin (b_start bk) (blen bk)).
    destruct (Z_le_gt_dec d (s + 10)) as [Hok|Hbad]; [lia|exfalso].
    set (d0 := s + 10) in *. assert (Hd0 : 0 <= d0) by (unfold d0; lia).
    unfold d, scale_change in Hbad.
    destruct (Z.eqb_spec (blen bk) 0) as [E0|E0]; [lia|].
    assert (Hne : b_counts bk <> []) by (unfold blen in E0; destruct (b_counts bk); [cbn in E0; lia|discriminate]).
    destruct (Hext Hne) as (m1 & m2 & H1 & H2 & Hst & Hen). fold (bend bk) in Hbad.
    assert (Hsh : forall x, 0 < x -> Z.shiftr (exact_bin s x u) d0 = exact_bin (-10) x u).
    { intros x Hx. rewrite <- exact_bin_shift by lia. f_equal. unfold d0. lia. }
    assert (Hinm : In m (lk ++ [m])) by (apply in_or_app; right; now left).
    destruct (Z.leb_spec bin (b_start bk)).
    - pose proof (sc_loop_below 30 bin (bend bk) ms d0 ltac:(lia)) as Hb.
      rewrite Hen in Hb. unfold bin in Hb. rewrite !Hsh in Hb by auto.
      specialize (Hfit m2 m (in_or_app _ _ _ (or_introl H2)) Hinm). lia.
    - pose proof (sc_loop_below 30 (b_start bk) bin ms d0 ltac:(lia)) as Hb.
      rewrite Hst in Hb. unfold bin in Hb. rewrite !Hsh in Hb by auto.
      specialize (Hfit m m1 Hinm (in_or_app _ _ _ (or_introl H1))). lia.
  Qed.

  (** One step of the shared core under the fit guard: the value is bucketed, both tallies
      stay exact, sizes stay bounded, and exactly one count is added. *)
  Lemma core_ok s bk ob lk lo m :
    -10 <= s <= mxs -> 0 < m -> BI s bk lk -> BI s ob lo -> blen bk <= ms -> blen ob <= ms ->
    (forall a b, In a (lk ++ [m]) -> In b (lk ++ [m]) -> exact_bin (-10) a u - exact_bin (-10) b u < ms) ->
    exists s' bk' ob', step_core s bk ob m = Some (s', bk', ob') /\
      -10 <= s' <= s /\ BI s' bk' (lk ++ [m]) /\ BI s' ob' lo /\
      blen bk' <= ms /\ blen ob' <= ms /\
      bsum bk' = (bsum bk + 1)%N /\ bsum ob' = bsum ob.
  Proof.
    intros Hs Hm Hbk Hob Hlb Hlo Hfit.
    pose proof (no_underflow s bk lk m Hs Hbk Hm Hfit) as Hnu.
    pose proof (core_size s bk ob m Hs Hm Hlb Hlo) as Hsz.
    unfold step_core in *. cbv zeta in *. rewrite (get_bin_exact s m) in * by lia.
    set (d := scale_change ms (exact_bin s m u) (b_start bk) (blen bk)) in *.
    pose proof (scale_change_nonneg ms (exact_bin s m u) (b_start bk) (blen bk)) as Hd. fold d in Hd.
    destruct (Z.ltb_spec 0 d) as [Hpos|Hz].
    - destruct (Z.ltb_spec (s - d) (-10)) as [Hu|Hu]; [lia|].
      rewrite (get_bin_exact (s - d) m) in * by lia.
      do 3 eexists. split; [reflexivity|]. destruct Hsz as (Hs1 & Hs2 & Hs3).
      assert (Hdn : s - d = s - Z.of_nat (Z.to_nat d)) by lia.
      split; [lia|]. split; [|split; [|split; [exact Hs2|split; [exact Hs3|]]]].
      + apply BI_record; [|exact Hm]. rewrite Hdn. apply BI_downscale. exact Hbk.
      + rewrite Hdn. apply BI_downscale. exact Hob.
      + rewrite b_record_sum, !b_downscale_sum. split; reflexivity.
    - do 3 eexists. split; [reflexivity|]. destruct Hsz as (Hs1 & Hs2 & Hs3).
      split; [lia|]. split; [apply BI_record; assumption|]. split; [exact Hob|].
      split; [exact Hs2|]. split; [exact Hs3|]. rewrite b_record_sum. split; reflexivity.
  Qed.

  Lemma fits_prefix vs v : fits_at_min_scale u ms (vs ++ [v]) -> fits_at_min_scale u ms vs.
  Proof.
    intros F a b i j Ha Hb. apply F; apply in_or_app; now left.
  Qed.

  Lemma fits_posl vs : fits_at_min_scale u ms vs ->
    forall a b, In a (posl vs) -> In b (posl vs) -> exact_bin (-10) a u - exact_bin (-10) b u < ms.
  Proof.
    intros F a b Ha Hb. apply posl_in in Ha as [Ha Ha0]. apply posl_in in Hb as [Hb Hb0].
    apply (F a b); try assumption; [nia| |]; rewrite Z.abs_eq by lia; apply exact_bin_correct; lia.
  Qed.

  Lemma fits_negl vs : fits_at_min_scale u ms vs ->
    forall a b, In a (negl vs) -> In b (negl vs) -> exact_bin (-10) a u - exact_bin (-10) b u < ms.
  Proof.
    intros F a b Ha Hb. apply negl_in in Ha as [Ha Ha0]. apply negl_in in Hb as [Hb Hb0].
    apply (F (- a) (- b)); try assumption; [nia| |];
      rewrite Z.abs_opp, Z.abs_eq by lia; apply exact_bin_correct; lia.
  Qed.

  (** The full invariant after the measurements [vs], none of which underflowed. *)
  Definition EInv (vs : list Z) (st : expo) : Prop :=
    -10 <= e_scale st <= mxs /\
    BI (e_scale st) (e_pos st) (posl vs) /\ BI (e_scale st) (e_neg st) (negl vs) /\
    blen (e_pos st) <= ms /\ blen (e_neg st) <= ms /\
    e_zero st = count_where (Z.eqb 0) vs /\
    e_count st = ecount_parts st.

  Lemma EInv_step vs st v :
    EInv vs st -> fits_at_min_scale u ms (vs ++ [v]) -> EInv (vs ++ [v]) (rec st v).
  Proof.
    intros (Hs & Hp & Hn & Hlp & Hln & Hz & Hc) F.
    destruct (Z.lt_trichotomy v 0) as [Hneg|[->|Hpos]].
    - (* negative *)
      rewrite expo_record_core by lia. cbv zeta. replace (v <? 0) with true by lia.
      assert (Hfit : forall a b, In a (negl vs ++ [Z.abs v]) -> In b (negl vs ++ [Z.abs v]) ->
                 exact_bin (-10) a u - exact_bin (-10) b u < ms).
      { pose proof (fits_negl _ F) as Fn. rewrite negl_snoc in Fn. replace (v <? 0) with true in Fn by lia.
        replace (Z.abs v) with (- v) by lia. exact Fn. }
      destruct (core_ok (e_scale st) (e_neg st) (e_pos st) (negl vs) (posl vs) (Z.abs v)
                  Hs ltac:(lia) Hn Hp Hln Hlp Hfit)
        as (s' & bk' & ob' & -> & Hs' & Hbk & Hob & Hl1 & Hl2 & Hsum1 & Hsum2).
      unfold EInv, ecount_parts in *.
      cbn [with_buckets expo_stats e_scale e_pos e_neg e_zero e_count].
      rewrite posl_snoc, negl_snoc. replace (0 <? v) with false by lia. replace (v <? 0) with true by lia.
      rewrite app_nil_r. replace (- v) with (Z.abs v) by lia.
      rewrite count_where_app, count_where_one. replace (0 =? v) with false by lia. cbv iota.
      split; [lia|]. split; [exact Hob|]. split; [exact Hbk|]. split; [exact Hl2|]. split; [exact Hl1|].
      split; lia.
    - (* zero *)
      unfold expo_record. change (0 =? 0) with true. unfold EInv, ecount_parts in *.
      cbn [with_zero expo_stats e_scale e_pos e_neg e_zero e_count].
      rewrite posl_snoc, negl_snoc. cbn [Z.ltb Z.compare]. rewrite !app_nil_r.
      rewrite count_where_app, count_where_one. change (0 =? 0) with true. cbv iota.
      split; [lia|]. split; [exact Hp|]. split; [exact Hn|]. split; [exact Hlp|]. split; [exact Hln|].
      split; lia.
    - (* positive *)
      rewrite expo_record_core by lia. cbv zeta. replace (v <? 0) with false by lia.
      assert (Hfit : forall a b, In a (posl vs ++ [Z.abs v]) -> In b (posl vs ++ [Z.abs v]) ->
                 exact_bin (-10) a u - exact_bin (-10) b u < ms).
      { pose proof (fits_posl _ F) as Fp. rewrite posl_snoc in Fp. replace (0 <? v) with true in Fp by lia.
        replace (Z.abs v) with v by lia. exact Fp. }
      destruct (core_ok (e_scale st) (e_pos st) (e_neg st) (posl vs) (negl vs) (Z.abs v)
                  Hs ltac:(lia) Hp Hn Hlp Hln Hfit)
        as (s' & bk' & ob' & -> & Hs' & Hbk & Hob & Hl1 & Hl2 & Hsum1 & Hsum2).
      unfold EInv, ecount_parts in *.
      cbn [with_buckets expo_stats e_scale e_pos e_neg e_zero e_count].
      rewrite posl_snoc, negl_snoc. replace (0 <? v) with true by lia. replace (v <? 0) with false by lia.
      rewrite app_nil_r. replace (Z.abs v) with v in Hbk by lia.
      rewrite count_where_app, count_where_one. replace (0 =? v) with false by lia. cbv iota.
      split; [lia|]. split; [exact Hbk|]. split; [exact Hob|]. split; [exact Hl1|]. split; [exact Hl2|].
      split; lia.
  Qed.

  Lemma EInv_run vs : fits_at_min_scale u ms vs -> EInv vs (run vs).
  Proof.
    unfold expo_run. induction vs as [|v vs IH] using rev_ind; intro F.
    - unfold EInv, ecount_parts. cbn [fold_left expo_init e_scale e_pos e_neg e_zero e_count posl negl filter map].
      split; [lia|]. split; [apply BI_empty|]. split; [apply BI_empty|]. cbn. lia.
    - rewrite fold_left_app. cbn [fold_left]. apply EInv_step; [|exact F].
      apply IH. eapply fits_prefix. exact F.
  Qed.
End ExpoExact.
(** D.3: the model state as a data point of the specification. *)
Definition expo_to_point (st : expo) : expo_point :=
  {| ep_scale := e_scale st;
     ep_pos_off := b_start (e_pos st); ep_pos := b_counts (e_pos st);
     ep_neg_off := b_start (e_neg st); ep_neg := b_counts (e_neg st);
     ep_zero := e_zero st; ep_count := e_count st;
     ep_min := match e_min st with Some x => x | None => 0 end;
     ep_max := match e_max st with Some x => x | None => 0 end;
     ep_sum := e_sum st |}.

Lemma count_where_filter {A} (p q : A -> bool) l :
  count_where p (filter q l) = count_where (fun x => q x && p x) l.
Proof.
  induction l as [|x l IH]; [reflexivity|]. cbn [filter]. rewrite count_where_cons.
  destruct (q x); cbn [andb]; [rewrite count_where_cons|]; rewrite IH; reflexivity.
Qed.

Lemma count_where_map {A B} (p : B -> bool) (f : A -> B) l :
  count_where p (map f l) = count_where (fun x => p (f x)) l.
Proof. unfold count_where. induction l as [|x l IH]; [reflexivity|]. cbn [map filter]. destruct (p (f x)); cbn [length]; lia. Qed.

Section ExpoTheorems.
  Variable gb : Z -> Z -> Z.
  Variables u ms mxs : Z.
  Notation run := (expo_run gb u ms mxs).

  Lemma expo_stats_run v0 vs : expo_stats_ok (v0 :: vs) (expo_to_point (run (v0 :: vs))).
  Proof.
    pose proof (stats_run gb u ms mxs (v0 :: vs)) as (Hc & Hs & Hmin & Hmax).
    unfold expo_stats_ok, expo_to_point. cbn [ep_count ep_min ep_max ep_sum].
    destruct (e_min (run (v0 :: vs))); [|discriminate].
    destruct (e_max (run (v0 :: vs))); [|discriminate]. auto.
  Qed.

  Lemma expo_scale_ok_run vs : -10 <= mxs -> expo_scale_ok mxs (expo_to_point (run vs)).
  Proof. intro H. unfold expo_scale_ok, expo_to_point. cbn [ep_scale]. now apply expo_scale_range. Qed.

  Lemma expo_count_le_run vs :
    (ep_zero (expo_to_point (run vs)) + nsum (ep_pos (expo_to_point (run vs)))
       + nsum (ep_neg (expo_to_point (run vs))) <= ep_count (expo_to_point (run vs)))%N.
  Proof. exact (count_le_run gb u ms mxs vs). Qed.

  Hypothesis Hgb : positive_index_exact gb u mxs.
  Hypothesis Hms : 1 <= ms.
  Hypothesis Hmx : -10 <= mxs <= 20.

  Lemma expo_size_run vs : expo_size_ok ms (expo_to_point (run vs)).
  Proof.
    pose proof (size_inv_run gb u ms mxs Hgb Hms Hmx vs) as (_ & Hp & Hn).
    unfold expo_size_ok, expo_to_point. cbn [ep_pos ep_neg]. split; assumption.
  Qed.

  Lemma expo_count_eq_run vs : fits_at_min_scale u ms vs -> expo_count_ok (expo_to_point (run vs)).
  Proof.
    intro F. pose proof (EInv_run gb u ms mxs Hgb Hms Hmx vs F) as (_ & _ & _ & _ & _ & _ & Hc).
    exact Hc.
  Qed.

  Lemma expo_placed_run vs : fits_at_min_scale u ms vs -> expo_placed u vs (expo_to_point (run vs)).
  Proof.
    intro F. pose proof (EInv_run gb u ms mxs Hgb Hms Hmx vs F) as (_ & Hp & Hn & _ & _ & Hz & _).
    unfold expo_placed, expo_to_point.
    cbn [ep_zero ep_pos_off ep_pos ep_neg_off ep_neg ep_scale].
    split; [exact Hz|]. intro i. destruct Hp as (_ & Hp & _). destruct Hn as (_ & Hn & _).
    unfold bget in Hp, Hn. rewrite Hp, Hn. unfold posl, negl.
    rewrite count_where_map, !count_where_filter. split; apply count_where_ext; intros x _; cbv beta.
    - destruct (Z.ltb_spec 0 x); cbn [andb]; [|reflexivity]. symmetry. apply in_bucketb_exact; lia.
    - destruct (Z.ltb_spec x 0); cbn [andb]; [|reflexivity]. symmetry. apply in_bucketb_exact; lia.
  Qed.
End ExpoTheorems.

(** Three buckets always suffice for float64 values at scale -10 (bins -2, -1, 0), two for
    int64 values (bins -1, 0): for these sizes the fit guard is automatic. *)
Lemma exact_bin_m10_f64 m : 0 < m < 2 ^ 2098 -> -2 <= exact_bin (-10) m (-1074) <= 0.
Proof.
  intros [H0 H1]. unfold exact_bin. cbn [Z.leb Z.compare Z.opp].
  rewrite Z.shiftr_div_pow2 by lia. change (2 ^ 10) with 1024.
  pose proof (Z.log2_up_nonneg m).
  assert (Z.log2_up m <= 2098) by (apply Z.log2_up_le_pow2; lia). lia.
Qed.

Lemma fits_float64 ms vs : 3 <= ms -> f64_values vs -> fits_at_min_scale (-1074) ms vs.
Proof.
  intros Hms Hf v w i j Hv Hw Hvw Hi Hj. unfold f64_values in Hf. rewrite Forall_forall in Hf.
  pose proof (Hf v Hv). pose proof (Hf w Hw).
  apply in_bucket_exact in Hi; [|nia]. apply in_bucket_exact in Hj; [|nia]. subst i j.
  pose proof (exact_bin_m10_f64 (Z.abs v) ltac:(nia)). pose proof (exact_bin_m10_f64 (Z.abs w) ltac:(nia)). lia.
Qed.

Lemma exact_bin_m10_i64 m : 0 < m <= 2 ^ 63 -> -1 <= exact_bin (-10) m 0 <= 0.
Proof.
  intros [H0 H1]. unfold exact_bin. cbn [Z.leb Z.compare Z.opp].
  rewrite Z.shiftr_div_pow2 by lia. change (2 ^ 10) with 1024.
  pose proof (Z.log2_up_nonneg m).
  assert (Z.log2_up m <= 63) by (apply Z.log2_up_le_pow2; lia). lia.
Qed.

Lemma fits_int64 ms vs : 2 <= ms -> Forall (fun v => Z.abs v <= 2 ^ 63) vs -> fits_at_min_scale 0 ms vs.
Proof.
  intros Hms Hf v w i j Hv Hw Hvw Hi Hj. rewrite Forall_forall in Hf.
  pose proof (Hf v Hv). pose proof (Hf w Hw). cbv beta in *.
  apply in_bucket_exact in Hi; [|nia]. apply in_bucket_exact in Hj; [|nia]. subst i j.
  pose proof (exact_bin_m10_i64 (Z.abs v) ltac:(nia)). pose proof (exact_bin_m10_i64 (Z.abs w) ltac:(nia)). lia.
Qed.
(* ====================================================================== *)
(** * Part E: certified bucket index at positive scales

    [index P s m e] computes the bucket of m*2^e at scale s >= 0 by the bit-by-bit binary
    logarithm: normalise x = m/2^L into [1,2), square s times, emit a bit and halve whenever
    the square reaches 2.  x is carried as an integer enclosure [lo,hi] of x*2^P that is
    rounded outwards at every step, so the answer is exact whenever one is returned; [None]
    means the enclosure straddled a decision point (precision P too small). *)

Definition sq_step (P acc lo hi : Z) : option (Z * Z * Z) :=
  let one := Z.shiftl 1 P in
  let two := Z.shiftl 1 (P + 1) in
  let lo2 := Z.shiftr (lo * lo) P in
  let hi2 := Z.shiftr (hi * hi + one - 1) P in
  if two <=? lo2 then Some (2 * acc + 1, Z.shiftr lo2 1, Z.shiftr (hi2 + 1) 1)
  else if hi2 <? two then Some (2 * acc, lo2, hi2)
  else None.

Fixpoint sq_iter (P : Z) (n : nat) (acc lo hi : Z) : option (Z * Z * Z) :=
  match n with
  | O => Some (acc, lo, hi)
  | S n' => match sq_step P acc lo hi with
            | None => None
            | Some (a, l, h) => sq_iter P n' a l h
            end
  end.

Definition index (P : Z) (s : nat) (m e : Z) : option Z :=
  if (0 <? m) && (0 <=? P) then
    let L := Z.log2 m in
    let x := Z.shiftl m P in
    let lo0 := Z.shiftr x L in
    let hi0 := Z.shiftr (x + Z.shiftl 1 L - 1) L in
    match sq_iter P s 0 lo0 hi0 with
    | None => None
    | Some (acc, lo, hi) =>
        let base := acc + (L + e) * 2 ^ Z.of_nat s in
        let one := Z.shiftl 1 P in
        if (lo =? one) && (hi =? one) then Some (base - 1)
        else if (one <? lo) && (hi <=? Z.shiftl 1 (P + 1)) then Some base
        else None
    end
  else None.

(** Judge a claimed bucket: [Some true] = certified correct, [Some false] = certified wrong. *)
Definition check_bin (P : Z) (s : nat) (m e i : Z) : option bool :=
  match index P s m e with Some j => Some (i =? j) | None => None end.

Lemma floor_mul_le x d : 0 < d -> x / d * d <= x.
Proof. intro H. pose proof (Z.mul_div_le x d H). lia. Qed.

Lemma ceil_mul_ge x d : 0 < d -> x <= (x + d - 1) / d * d.
Proof.
  intro H. pose proof (Z.div_mod (x + d - 1) d ltac:(lia)) as E.
  pose proof (Z.mod_pos_bound (x + d - 1) d H). lia.
Qed.

(** Enclosure invariant after k squarings: with A = acc + L*2^k,
      lo * 2^A <= m^(2^k) * 2^P <= hi * 2^A. *)
Definition sq_inv (P L m : Z) (k : Z) (acc lo hi : Z) : Prop :=
  0 <= acc /\ 0 <= lo /\
  lo * 2 ^ (acc + L * 2 ^ k) <= m ^ 2 ^ k * 2 ^ P <= hi * 2 ^ (acc + L * 2 ^ k).

Lemma sq_step_inv P L m k acc lo hi acc' lo' hi' :
  0 <= P -> 0 <= L -> 0 < m -> 0 <= k ->
  sq_inv P L m k acc lo hi -> sq_step P acc lo hi = Some (acc', lo', hi') ->
  sq_inv P L m (k + 1) acc' lo' hi'.
Proof.
  intros HP HL Hm Hk (Hacc & Hlo & Hle & Hge) Hstep.
  assert (Hn : 0 < 2 ^ k) by (apply pow2_pos; exact Hk).
  set (A := acc + L * 2 ^ k) in *. assert (HA : 0 <= A) by (unfold A; nia).
  assert (Ha : 0 < 2 ^ A) by (apply pow2_pos; exact HA).
  assert (HMk : 0 < m ^ 2 ^ k) by (apply Z.pow_pos_nonneg; lia).
  assert (HpP : 0 < 2 ^ P) by (apply pow2_pos; exact HP).
  (* the squared quantities *)
  assert (E2k : 2 ^ (k + 1) = 2 * 2 ^ k) by (rewrite pow2_split by lia; change (2 ^ 1) with 2; lia).
  assert (EM : m ^ 2 ^ (k + 1) = m ^ 2 ^ k * m ^ 2 ^ k)
    by (rewrite E2k; replace (2 * 2 ^ k) with (2 ^ k + 2 ^ k) by lia; apply Z.pow_add_r; lia).
  assert (EA : 2 ^ (2 * A) = 2 ^ A * 2 ^ A)
    by (replace (2 * A) with (A + A) by lia; apply pow2_split; lia).
  assert (Hhi : 0 <= hi) by nia.
  set (M := m ^ 2 ^ k) in *. set (a := 2 ^ A) in *. set (p := 2 ^ P) in *.
  assert (Hsq1 : lo * lo * (a * a) <= M * M * p * p) by nia.
  assert (Hsq2 : M * M * p * p <= hi * hi * (a * a)) by nia.
  unfold sq_step in Hstep. cbv zeta in Hstep.
  rewrite !shiftl_1 in Hstep by lia. rewrite !Z.shiftr_div_pow2 in Hstep by lia.
  fold p in Hstep. change (2 ^ 1) with 2 in Hstep.
  set (lo2 := lo * lo / p) in *. set (hi2 := (hi * hi + p - 1) / p) in *.
  assert (Hl2 : lo2 * p <= lo * lo) by (apply floor_mul_le; exact HpP).
  assert (Hh2 : hi * hi <= hi2 * p) by (apply ceil_mul_ge; exact HpP).
  assert (Hlo2 : 0 <= lo2) by (apply Z.div_pos; nia).
  assert (Hb1 : lo2 * (a * a) <= M * M * p).
  { assert (lo2 * (a * a) * p <= M * M * p * p) by nia. nia. }
  assert (Hb2 : M * M * p <= hi2 * (a * a)).
  { assert (M * M * p * p <= hi2 * (a * a) * p) by nia. nia. }
  unfold sq_inv. rewrite EM. fold M.
  destruct (Z.leb_spec (2 ^ (P + 1)) lo2) as [Hbit|Hbit].
  - assert (E1 : acc' = 2 * acc + 1) by congruence. assert (E2 : lo' = lo2 / 2) by congruence.
    assert (E3 : hi' = (hi2 + 1) / 2) by congruence. subst acc' lo' hi'.
    replace (2 * acc + 1 + L * 2 ^ (k + 1)) with (2 * A + 1) by (unfold A; rewrite E2k; ring).
    rewrite pow2_split, EA by lia. change (2 ^ 1) with 2. fold a.
    split; [lia|]. split; [apply Z.div_pos; lia|].
    assert (lo2 / 2 * 2 <= lo2) by (apply floor_mul_le; lia).
    assert (hi2 <= (hi2 + 1) / 2 * 2) by (pose proof (ceil_mul_ge hi2 2 ltac:(lia)); lia).
    split; nia.
  - destruct (Z.ltb_spec hi2 (2 ^ (P + 1))); [|discriminate].
    assert (E1 : acc' = 2 * acc) by congruence. assert (E2 : lo' = lo2) by congruence.
    assert (E3 : hi' = hi2) by congruence. subst acc' lo' hi'.
    replace (2 * acc + L * 2 ^ (k + 1)) with (2 * A) by (unfold A; rewrite E2k; ring).
    rewrite EA. fold a. split; [lia|]. split; [exact Hlo2|]. split; nia.
Qed.

Lemma sq_iter_inv P L m n : forall k acc lo hi acc' lo' hi',
  0 <= P -> 0 <= L -> 0 < m -> 0 <= k ->
  sq_inv P L m k acc lo hi -> sq_iter P n acc lo hi = Some (acc', lo', hi') ->
  sq_inv P L m (k + Z.of_nat n) acc' lo' hi'.
Proof.
  induction n as [|n IH]; intros k acc lo hi acc' lo' hi' HP HL Hm Hk Hinv Hit; cbn [sq_iter] in Hit.
  - injection Hit as <- <- <-. replace (k + Z.of_nat 0) with k by lia. exact Hinv.
  - destruct (sq_step P acc lo hi) as [[[a l] h]|] eqn:Es; [|discriminate].
    replace (k + Z.of_nat (S n)) with (k + 1 + Z.of_nat n) by lia.
    eapply IH; [exact HP|exact HL|exact Hm|lia| |exact Hit].
    eapply sq_step_inv; eassumption.
Qed.

(** Soundness: an index returned by the procedure is the exact bucket. *)
Lemma index_sound P s m e j : index P s m e = Some j -> in_bucket (Z.of_nat s) m e j.
Proof.
  unfold index. destruct ((0 <? m) && (0 <=? P)) eqn:Hg; [|discriminate].
  assert (Hm : 0 < m) by lia. assert (HP : 0 <= P) by lia. cbv zeta.
  pose proof (Z.log2_nonneg m) as HL. set (L := Z.log2 m) in *.
  assert (HpL : 0 < 2 ^ L) by (apply pow2_pos; exact HL).
  assert (HpP : 0 < 2 ^ P) by (apply pow2_pos; exact HP).
  set (lo0 := Z.shiftr (Z.shiftl m P) L). set (hi0 := Z.shiftr (Z.shiftl m P + Z.shiftl 1 L - 1) L).
  assert (H0 : sq_inv P L m 0 0 lo0 hi0).
  { unfold sq_inv, lo0, hi0. rewrite shiftl_1 by lia. rewrite Z.shiftl_mul_pow2 by lia.
    rewrite !Z.shiftr_div_pow2 by lia. change (2 ^ 0) with 1. rewrite Z.pow_1_r, Z.mul_1_r, Z.add_0_l.
    split; [lia|]. split; [apply Z.div_pos; nia|]. split.
    - apply floor_mul_le; exact HpL.
    - apply ceil_mul_ge; exact HpL. }
  destruct (sq_iter P s 0 lo0 hi0) as [[[acc lo] hi]|] eqn:Eit; [|discriminate].
  pose proof (sq_iter_inv P L m s 0 0 lo0 hi0 acc lo hi HP HL Hm ltac:(lia) H0 Eit) as Hinv.
  rewrite Z.add_0_l in Hinv. destruct Hinv as (Hacc & Hlo & Hle & Hge).
  set (n := 2 ^ Z.of_nat s) in *. assert (Hn : 0 < n) by (apply pow2_pos; lia).
  set (A := acc + L * n) in *. assert (HA : 0 <= A) by (unfold A; nia).
  assert (Ha : 0 < 2 ^ A) by (apply pow2_pos; exact HA).
  assert (HM : 0 < m ^ n) by (apply Z.pow_pos_nonneg; lia).
  rewrite !shiftl_1 by lia.
  rewrite in_bucket_nonneg_iff by lia. fold n.
  replace (acc + (L + e) * n) with (A + e * n) by (unfold A; ring).
  set (M := m ^ n) in *. set (a := 2 ^ A) in *. set (p := 2 ^ P) in *.
  destruct ((lo =? p) && (hi =? p)) eqn:Hex.
  - intro Hj. injection Hj as <-. assert (lo = p) by lia. assert (hi = p) by lia. subst lo hi.
    assert (EM : M = a) by nia.
    replace (A + e * n - 1 - e * n) with (A - 1) by ring.
    replace (A + e * n - 1 + 1 - e * n) with A by ring.
    unfold bk2. fold a. split; [|split; [exact HA|lia]].
    destruct (Z_lt_ge_dec (A - 1) 0); [now left|right].
    rewrite EM. unfold a. apply Z.pow_lt_mono_r; lia.
  - destruct ((p <? lo) && (hi <=? 2 ^ (P + 1))) eqn:Hab; [|discriminate].
    intro Hj. injection Hj as <-.
    assert (Hlo' : p < lo) by lia. assert (Hhi' : hi <= 2 ^ (P + 1)) by lia.
    rewrite pow2_split in Hhi' by lia. change (2 ^ 1) with 2 in Hhi'. fold p in Hhi'.
    replace (A + e * n - e * n) with A by ring. replace (A + e * n + 1 - e * n) with (A + 1) by ring.
    unfold bk2. rewrite pow2_split by lia. change (2 ^ 1) with 2. fold a.
    split; [right; nia|]. split; [lia|nia].
Qed.

Lemma check_bin_sound P s m e i :
  0 < m -> check_bin P s m e i = Some true -> in_bucket (Z.of_nat s) m e i.
Proof.
  unfold check_bin. intros Hm H. destruct (index P s m e) as [j|] eqn:E; [|discriminate].
  injection H as H. apply Z.eqb_eq in H. subst j. apply index_sound in E. exact E.
Qed.

Lemma check_bin_refutes P s m e i :
  0 < m -> check_bin P s m e i = Some false -> ~ in_bucket (Z.of_nat s) m e i.
Proof.
  unfold check_bin. intros Hm H Hin. destruct (index P s m e) as [j|] eqn:E; [|discriminate].
  injection H as H. apply Z.eqb_neq in H. apply index_sound in E.
  apply H. eapply in_bucket_unique; eassumption.
Qed.

Lemma index_exact P s m e j : index P s m e = Some j -> j = exact_bin (Z.of_nat s) m e.
Proof.
  intro H. assert (Hm : 0 < m) by (unfold index in H; destruct ((0 <? m) && (0 <=? P)) eqn:G; [lia|discriminate]).
  apply index_sound in H. now apply in_bucket_exact in H.
Qed.

(* ====================================================================== *)
(** * Part F: the executable judge of exponential placement used on implementation output

    The correspondence run cannot evaluate [in_bucketb] at positive scales (it would compute
    m^(2^20)).  It certifies one scale-20 index per magnitude with [index] and shifts it down;
    [placed_b] then compares tallies.  [placed_b_sound]: a positive verdict implies the
    specification's [expo_placed]. *)

Definition U : Z := -1074.
Definition P1 : Z := 112.
Definition P2 : Z := 320.

(** Certified index at scale s >= 0 (retry with more precision before giving up). *)
Definition index2 (s : nat) (m : Z) : option Z :=
  match index P1 s m U with Some j => Some j | None => index P2 s m U end.

(** Table of certified scale-20 indexes of the magnitudes of a case. *)
Fixpoint idx_table (vs : list Z) : option (list (Z * Z)) :=
  match vs with
  | [] => Some []
  | v :: r =>
      match idx_table r with
      | None => None
      | Some t =>
          if v =? 0 then Some t
          else match index2 20 (Z.abs v) with Some j => Some ((Z.abs v, j) :: t) | None => None end
      end
  end.

Fixpoint lookup (m : Z) (t : list (Z * Z)) : Z :=
  match t with [] => 0 | (k, j) :: r => if k =? m then j else lookup m r end.

(** The exact positive-scale index: the certified scale-20 index shifted down. *)
Definition gb_of (t : list (Z * Z)) (s m : Z) : Z := Z.shiftr (lookup m t) (20 - s).

Definition expo_table (mxs : Z) (vz : list Z) : option (list (Z * Z)) :=
  if 0 <? mxs then idx_table vz else Some [].

(** Exact bucket of a magnitude at the observed scale. *)
Definition spec_bin (t : list (Z * Z)) (s m : Z) : Z :=
  if s <=? 0 then exact_bin s m U else gb_of t s m.

Definition tally_ok (t : list (Z * Z)) (s : Z) (mags : list Z) (off : Z) (counts : list N) : bool :=
  (nsum counts =? N.of_nat (length mags))%N &&
  forallb (fun k => let i := off + Z.of_nat k in
                    N.eqb (nth k counts 0%N) (count_where (fun m => spec_bin t s m =? i) mags))
          (nat_upto (length counts)).

Definition placed_b (t : list (Z * Z)) (vz : list Z) (p : expo_point) : bool :=
  (ep_zero p =? count_where (Z.eqb 0) vz)%N &&
  tally_ok t (ep_scale p) (posl vz) (ep_pos_off p) (ep_pos p) &&
  tally_ok t (ep_scale p) (negl vz) (ep_neg_off p) (ep_neg p).

Lemma index2_exact s m j : index2 s m = Some j -> j = exact_bin (Z.of_nat s) m U.
Proof.
  unfold index2. destruct (index P1 s m U) eqn:E1.
  - intro H; injection H as <-. now apply index_exact in E1.
  - intro H. now apply index_exact in H.
Qed.

Lemma idx_table_lookup vs t : idx_table vs = Some t ->
  forall v, In v vs -> v <> 0 -> lookup (Z.abs v) t = exact_bin 20 (Z.abs v) U.
Proof.
  revert t; induction vs as [|w r IH]; intros t Ht v Hin Hv; [destruct Hin|].
  cbn [idx_table] in Ht. destruct (idx_table r) as [t0|] eqn:Er; [|discriminate].
  destruct (Z.eqb_spec w 0) as [Ew|Ew].
  - injection Ht as <-. destruct Hin as [->|Hin]; [contradiction|]. now apply IH.
  - destruct (index2 20 (Z.abs w)) as [j|] eqn:Ej; [|discriminate]. injection Ht as <-.
    apply index2_exact in Ej. change (Z.of_nat 20) with 20 in Ej.
    cbn [lookup]. destruct (Z.eqb_spec (Z.abs w) (Z.abs v)) as [Eq|Ne].
    + rewrite <- Eq. exact Ej.
    + destruct Hin as [->|Hin]; [contradiction|]. now apply IH.
Qed.

Lemma spec_bin_exact mxs vz t s v :
  mxs <= 20 -> expo_table mxs vz = Some t -> s <= mxs -> In v vz -> v <> 0 ->
  spec_bin t s (Z.abs v) = exact_bin s (Z.abs v) U.
Proof.
  intros Hmx Ht Hs Hin Hv. unfold spec_bin. destruct (Z.leb_spec s 0) as [H0|H0]; [reflexivity|].
  unfold expo_table in Ht. destruct (Z.ltb_spec 0 mxs); [|lia].
  unfold gb_of. rewrite (idx_table_lookup vz t Ht v Hin Hv).
  rewrite <- exact_bin_shift by lia. f_equal. lia.
Qed.

Lemma filter_len_le {A} (p : A -> bool) l : (length (filter p l) <= length l)%nat.
Proof. induction l as [|y l IH]; cbn [filter length]; [lia|]. destruct (p y); cbn [length]; lia. Qed.

Lemma count_where_all {A} (p : A -> bool) l :
  count_where p l = N.of_nat (length l) -> forall x, In x l -> p x = true.
Proof.
  unfold count_where. induction l as [|y l IH]; intros H x Hin; [destruct Hin|].
  cbn [filter length] in H. pose proof (filter_len_le p l) as Hle.
  destruct (p y) eqn:Ey; cbn [length] in H.
  - destruct Hin as [->|Hin]; [exact Ey|]. apply IH; [lia|exact Hin].
  - lia.
Qed.

Lemma count_where_none {A} (p : A -> bool) l :
  (forall x, In x l -> p x = false) -> count_where p l = 0%N.
Proof.
  induction l as [|y l IH]; intro H; [reflexivity|].
  rewrite count_where_cons, (H y (or_introl eq_refl)), IH; [reflexivity|].
  intros x Hx. apply H. now right.
Qed.

Lemma count_where_disj {A} (p q r : A -> bool) l :
  (forall x, r x = (p x || q x) /\ (p x && q x = false)) ->
  count_where r l = (count_where p l + count_where q l)%N.
Proof.
  intro H. induction l as [|x l IH]; [reflexivity|]. rewrite !count_where_cons, IH.
  destruct (H x) as [E1 E2]. rewrite E1. destruct (p x), (q x); cbn [orb andb] in *; try congruence; lia.
Qed.

(** Sum of the tallies of a window = number of elements whose bin lies in the window. *)
Lemma window_tally {A} (f : A -> Z) (l : list A) off n :
  nsum (map (fun k => count_where (fun m => f m =? off + Z.of_nat k) l) (nat_upto n)) =
  count_where (fun m => (off <=? f m) && (f m <? off + Z.of_nat n)) l.
Proof.
  induction n as [|n IH].
  - cbn [nat_upto map nsum fold_right]. symmetry. apply count_where_none. intros x _. lia.
  - cbn [nat_upto]. rewrite map_app, nsum_app, IH. cbn [map nsum fold_right]. rewrite N.add_0_r.
    symmetry. apply count_where_disj. intro x. cbv beta.
    destruct (Z.leb_spec off (f x)), (Z.ltb_spec (f x) (off + Z.of_nat n)),
      (Z.ltb_spec (f x) (off + Z.of_nat (S n))), (Z.eqb_spec (f x) (off + Z.of_nat n));
      cbn [andb orb]; split; (reflexivity || lia).
Qed.

Lemma nsum_nth l : nsum (map (fun k => nth k l 0%N) (nat_upto (length l))) = nsum l.
Proof.
  induction l as [|x l IH] using rev_ind; [reflexivity|].
  rewrite app_length. cbn [length]. replace (length l + 1)%nat with (S (length l)) by lia.
  cbn [nat_upto]. rewrite map_app, !nsum_app. cbn [map nsum fold_right].
  rewrite app_nth2, Nat.sub_diag by lia. cbn [nth]. f_equal.
  rewrite <- IH. f_equal. apply map_ext_in. intros k Hk. apply nat_upto_in in Hk.
  now rewrite app_nth1 by lia.
Qed.

Lemma tally_ok_sound t s mags off counts :
  (forall m, In m mags -> spec_bin t s m = exact_bin s m U) ->
  tally_ok t s mags off counts = true ->
  forall i, bucket_get off counts i = count_where (fun m => exact_bin s m U =? i) mags.
Proof.
  intros Hsb H. unfold tally_ok in H. apply andb_true_iff in H as [Hsum Hall].
  apply N.eqb_eq in Hsum. rewrite forallb_forall in Hall.
  set (f := fun m => exact_bin s m U).
  assert (Hk : forall k, (k < length counts)%nat ->
             nth k counts 0%N = count_where (fun m => f m =? off + Z.of_nat k) mags).
  { intros k Hlt. specialize (Hall k ltac:(apply nat_upto_in; exact Hlt)). cbv zeta in Hall.
    apply N.eqb_eq in Hall. rewrite Hall. apply count_where_ext. intros m Hm. now rewrite Hsb. }
  assert (Hin : forall m, In m mags -> (off <=? f m) && (f m <? off + Z.of_nat (length counts)) = true).
  { apply count_where_all. rewrite <- window_tally, <- Hsum. rewrite <- (nsum_nth counts). f_equal.
    apply map_ext_in. intros k Hlt. apply nat_upto_in in Hlt. symmetry. now apply Hk. }
  intro i. unfold bucket_get. destruct (Z.ltb_spec i off) as [Hlo|Hlo].
  - symmetry. apply count_where_none. intros m Hm. specialize (Hin m Hm). fold (f m). lia.
  - destruct (Nat.ltb_spec (Z.to_nat (i - off)) (length counts)) as [Hlt|Hge].
    + rewrite Hk by exact Hlt. apply count_where_ext. intros m _. fold (f m).
      replace (off + Z.of_nat (Z.to_nat (i - off))) with i by lia. reflexivity.
    + rewrite nth_overflow by lia. symmetry. apply count_where_none. intros m Hm.
      specialize (Hin m Hm). fold (f m). lia.
Qed.

(** A positive verdict of the executable judge implies the specification's placement clause. *)
Lemma placed_b_sound mxs vz t p :
  mxs <= 20 -> expo_table mxs vz = Some t -> ep_scale p <= mxs ->
  placed_b t vz p = true -> expo_placed U vz p.
Proof.
  intros Hmx Ht Hs H. unfold placed_b in H. apply andb_true_iff in H as [H Hneg].
  apply andb_true_iff in H as [Hz Hpos]. apply N.eqb_eq in Hz.
  assert (Sp : forall m, In m (posl vz) -> spec_bin t (ep_scale p) m = exact_bin (ep_scale p) m U).
  { intros m Hm. apply posl_in in Hm as [Hin H0]. rewrite <- (Z.abs_eq m) by lia.
    eapply spec_bin_exact; eauto; lia. }
  assert (Sn : forall m, In m (negl vz) -> spec_bin t (ep_scale p) m = exact_bin (ep_scale p) m U).
  { intros m Hm. apply negl_in in Hm as [Hin H0]. replace m with (Z.abs (- m)) by lia.
    eapply spec_bin_exact; eauto; lia. }
  pose proof (tally_ok_sound _ _ _ _ _ Sp Hpos) as Tp.
  pose proof (tally_ok_sound _ _ _ _ _ Sn Hneg) as Tn.
  split; [exact Hz|]. intro i. rewrite Tp, Tn. unfold posl, negl.
  rewrite count_where_map, !count_where_filter. split; apply count_where_ext; intros x _; cbv beta.
  - destruct (Z.ltb_spec 0 x); cbn [andb]; [|reflexivity]. symmetry. apply in_bucketb_exact; lia.
  - destruct (Z.ltb_spec x 0); cbn [andb]; [|reflexivity]. symmetry. apply in_bucketb_exact; lia.
Qed.

(* ====================================================================== *)
(** * Part G: arbitrary configured boundary lists (the aggregator sorts its copy) *)

Lemma strictly_weakly l : strictly_increasing l = true -> weakly_increasing l = true.
Proof.
  induction l as [|a l IH]; [reflexivity|]. destruct l as [|b r]; [reflexivity|].
  cbn [strictly_increasing weakly_increasing] in *.
  intro H. apply andb_true_iff in H as [H1 H2]. rewrite IH by exact H2. lia.
Qed.

Lemma weakly_increasing_tail a r : weakly_increasing (a :: r) = true -> weakly_increasing r = true.
Proof. destruct r as [|b r]; cbn [weakly_increasing]; [reflexivity|]. intro H. apply andb_true_iff in H. tauto. Qed.

Lemma weakly_increasing_head a r j :
  weakly_increasing (a :: r) = true -> (j < length r)%nat -> a <= nth j r 0.
Proof.
  revert a j. induction r as [|b r IH]; intros a j H Hj; cbn [length] in Hj; [lia|].
  cbn [weakly_increasing] in H. apply andb_true_iff in H as [H1 H2]. apply Z.leb_le in H1.
  destruct j as [|j]; cbn [nth]; [exact H1|]. specialize (IH b j H2). lia.
Qed.

(** Uniqueness of the bucket needs only non-decreasing boundaries. *)
Lemma bucket_index_unique_weak bounds k v :
  weakly_increasing bounds = true -> in_explicit_bucket bounds k v -> k = bucket_index bounds v.
Proof.
  revert k. induction bounds as [|b r IH]; intros k Hs (Hk & Hlo & Hhi); cbn [bucket_index length] in *.
  - lia.
  - destruct (Z.leb_spec v b) as [Hle|Hgt].
    + destruct k as [|k']; [reflexivity|exfalso].
      destruct Hlo as [Hlo|Hlo]; [discriminate|]. replace (S k' - 1)%nat with k' in Hlo by lia.
      destruct k' as [|k'']; cbn [nth] in Hlo; [lia|].
      pose proof (weakly_increasing_head b r k'' Hs). lia.
    + destruct k as [|k'].
      * exfalso. destruct Hhi as [Hhi|Hhi]; [discriminate|]. cbn [nth] in Hhi. lia.
      * f_equal. apply IH; [eapply weakly_increasing_tail; exact Hs|].
        repeat split; [lia| |].
        -- destruct k' as [|k'']; [now left|right].
           destruct Hlo as [Hlo|Hlo]; [discriminate|].
           replace (S (S k'') - 1)%nat with (S k'') in Hlo by lia. cbn [nth] in Hlo.
           replace (S k'' - 1)%nat with k'' by lia. exact Hlo.
        -- destruct Hhi as [Hhi|Hhi]; [left; lia|right; exact Hhi].
Qed.

Lemma in_explicit_bucketb_index_weak bounds k v :
  weakly_increasing bounds = true ->
  in_explicit_bucketb bounds k v = (bucket_index bounds v =? k)%nat.
Proof.
  intro Hs. destruct (Nat.eqb_spec (bucket_index bounds v) k) as [E|E].
  - subst k. apply in_explicit_bucketb_spec, bucket_index_correct.
  - destruct (in_explicit_bucketb bounds k v) eqn:H; [|reflexivity].
    apply in_explicit_bucketb_spec in H. apply bucket_index_unique_weak in H; [congruence|exact Hs].
Qed.

Lemma explicit_point_ok_weak bounds v0 vs :
  weakly_increasing bounds = true ->
  exists h, hist_run bounds (v0 :: vs) = Some h /\ hist_point_ok bounds (v0 :: vs) (hist_to_point h).
Proof.
  intro Hs. pose proof (hist_run_inv bounds (v0 :: vs)) as H.
  destruct (hist_run bounds (v0 :: vs)) as [h|]; cbn [hist_inv] in H; [|discriminate].
  exists h. split; [reflexivity|].
  destruct H as (_ & Hlen & Hnth & Hsum & Hcnt & Hmin & Hmax & Htot).
  unfold hist_point_ok, hist_to_point. cbn [hp_counts hp_count hp_min hp_max hp_sum].
  repeat split; try assumption; try apply Hmin; try apply Hmax.
  intros k Hk. rewrite Hnth. apply count_where_ext. intros x _.
  symmetry. apply in_explicit_bucketb_index_weak. exact Hs.
Qed.

(** The sort: a non-decreasing permutation of what was configured. *)
Lemma insert_bound_perm x l : Permutation (x :: l) (insert_bound x l).
Proof.
  induction l as [|y r IH]; cbn [insert_bound]; [apply Permutation_refl|].
  destruct (x <=? y); [apply Permutation_refl|].
  eapply perm_trans; [apply perm_swap|]. now apply perm_skip.
Qed.

Lemma sort_bounds_perm l : Permutation l (sort_bounds l).
Proof.
  induction l as [|x r IH]; cbn [sort_bounds]; [constructor|].
  eapply perm_trans; [apply perm_skip; exact IH|apply insert_bound_perm].
Qed.

Lemma weakly_cons2 a b r : weakly_increasing (a :: b :: r) = (a <=? b) && weakly_increasing (b :: r).
Proof. reflexivity. Qed.

Lemma insert_bound_weakly x l : weakly_increasing l = true -> weakly_increasing (insert_bound x l) = true.
Proof.
  induction l as [|y r IH]; intro H; cbn [insert_bound]; [reflexivity|].
  destruct (Z.leb_spec x y) as [Hle|Hgt].
  - rewrite weakly_cons2, H. lia.
  - pose proof (IH (weakly_increasing_tail _ _ H)) as IH'.
    destruct r as [|z r'].
    + cbn [insert_bound]. rewrite weakly_cons2. cbn [weakly_increasing]. lia.
    + rewrite weakly_cons2 in H. apply andb_true_iff in H as [H1 H2].
      cbn [insert_bound] in *. destruct (Z.leb_spec x z).
      * rewrite weakly_cons2, IH'. lia.
      * rewrite weakly_cons2, IH'. lia.
Qed.

Lemma sort_bounds_weakly l : weakly_increasing (sort_bounds l) = true.
Proof. induction l as [|x r IH]; cbn [sort_bounds]; [reflexivity|]. now apply insert_bound_weakly. Qed.

Lemma sort_bounds_id l : weakly_increasing l = true -> sort_bounds l = l.
Proof.
  induction l as [|x r IH]; intro H; cbn [sort_bounds]; [reflexivity|].
  rewrite IH by (eapply weakly_increasing_tail; exact H).
  destruct r as [|y r']; cbn [insert_bound]; [reflexivity|].
  rewrite weakly_cons2 in H. apply andb_true_iff in H as [H1 _]. now rewrite H1.
Qed.

(** Every clause, for EVERY configured boundary list, against the sorted list the point reports. *)
Lemma explicit_any_bounds bounds v0 vs :
  Permutation bounds (sort_bounds bounds) /\ weakly_increasing (sort_bounds bounds) = true /\
  exists h, hist_run_cfg bounds (v0 :: vs) = Some h /\
            hist_point_ok (sort_bounds bounds) (v0 :: vs) (hist_to_point h).
Proof.
  split; [apply sort_bounds_perm|]. split; [apply sort_bounds_weakly|].
  apply explicit_point_ok_weak, sort_bounds_weakly.
Qed.
