(** C07 specification: what a histogram data point must look like, as a relation between
    the measurements a user recorded and the data point a collect returns.  Nothing here
    mentions the model.

    Numbers.  All values of one data point live in [Z] with one common unit 2^u
    ("value v" means the rational v * 2^u): u = -1074 for float64 instruments (every finite
    float64 is an integer multiple of 2^-1074, see Lib/Dyadic.v), u = 0 for int64
    instruments.  Order, minimum, maximum and sum are then the integer ones, exactly.

    Exponential buckets.  [in_bucket s m e i] is the exact statement
        base^i < m*2^e <= base^(i+1),   base = 2^(2^-s),
    i.e.  2^i < (m*2^e)^(2^s) <= 2^(i+1)              for s >= 0,
          2^(i*2^-s) < m*2^e <= 2^((i+1)*2^-s)         for s <= 0,
    over the rationals with denominators cleared ([pow2_lt], [le_pow2]): no reals, no
    floating point. *)
From Coq Require Import ZArith NArith List Lia Bool.
From Verif Require Import Lib.Base Lib.Dyadic.
Import ListNotations.
Open Scope Z_scope.

(** ** Common *)
Definition nsum (l : list N) : N := fold_right N.add 0%N l.
Definition zsum (l : list Z) : Z := fold_right Z.add 0 l.
Definition count_where {A} (p : A -> bool) (l : list A) : N := N.of_nat (length (filter p l)).

Definition is_min (l : list Z) (x : Z) : Prop := In x l /\ Forall (fun y => x <= y) l.
Definition is_max (l : list Z) (x : Z) : Prop := In x l /\ Forall (fun y => y <= x) l.

Definition is_minb (l : list Z) (x : Z) : bool := existsb (Z.eqb x) l && forallb (Z.leb x) l.
Definition is_maxb (l : list Z) (x : Z) : bool := existsb (Z.eqb x) l && forallb (fun y => y <=? x) l.

(** ** Explicit-bucket histograms *)

(** Boundaries the aggregation validation admits: strictly increasing. *)
Fixpoint strictly_increasing (l : list Z) : bool :=
  match l with
  | a :: (b :: _) as r => (a <? b) && strictly_increasing r
  | _ => true
  end.

(** What the aggregator itself guarantees for ANY configured list (it sorts its copy):
    non-decreasing boundaries.  Equal neighbours give an empty bucket (b, b]. *)
Fixpoint weakly_increasing (l : list Z) : bool :=
  match l with
  | a :: (b :: _) as r => (a <=? b) && weakly_increasing r
  | _ => true
  end.

(** Bucket k of boundaries b_0 < ... < b_(n-1) is (b_(k-1), b_k], with b_(-1) = -oo, b_n = +oo. *)
Definition in_explicit_bucket (bounds : list Z) (k : nat) (v : Z) : Prop :=
  (k <= length bounds)%nat /\
  (k = O \/ nth (k - 1) bounds 0 < v) /\
  (k = length bounds \/ v <= nth k bounds 0).

Definition in_explicit_bucketb (bounds : list Z) (k : nat) (v : Z) : bool :=
  (k <=? length bounds)%nat &&
  ((k =? 0)%nat || (nth (k - 1) bounds 0 <? v)) &&
  ((k =? length bounds)%nat || (v <=? nth k bounds 0)).

Record hist_point := {
  hp_counts : list N; hp_count : N; hp_min : Z; hp_max : Z; hp_sum : Z }.

(** The explicit-histogram clauses of the property for measurements [vs] (non-empty). *)
Definition hist_point_ok (bounds vs : list Z) (p : hist_point) : Prop :=
  length (hp_counts p) = S (length bounds) /\
  nsum (hp_counts p) = hp_count p /\
  hp_count p = N.of_nat (length vs) /\
  (forall k, (k <= length bounds)%nat ->
     nth k (hp_counts p) 0%N = count_where (in_explicit_bucketb bounds k) vs) /\
  is_min vs (hp_min p) /\ is_max vs (hp_max p) /\ hp_sum p = zsum vs.

Fixpoint nat_upto (n : nat) : list nat := match n with O => [] | S k => nat_upto k ++ [k] end.

Definition hist_point_okb (check_sum : bool) (bounds vs : list Z) (p : hist_point) : bool :=
  (length (hp_counts p) =? S (length bounds))%nat &&
  (nsum (hp_counts p) =? hp_count p)%N &&
  (hp_count p =? N.of_nat (length vs))%N &&
  forallb (fun k => (nth k (hp_counts p) 0 =? count_where (in_explicit_bucketb bounds k) vs)%N)
          (nat_upto (S (length bounds))) &&
  is_minb vs (hp_min p) && is_maxb vs (hp_max p) &&
  (negb check_sum || (hp_sum p =? zsum vs)).

(** ** Base-2 exponential histograms *)

Definition in_bucket (s m e i : Z) : Prop :=
  if 0 <=? s
  then let n := 2 ^ s in pow2_lt i (m ^ n) (e * n) /\ le_pow2 (m ^ n) (e * n) (i + 1)
  else let k := 2 ^ (- s) in pow2_lt (i * k) m e /\ le_pow2 m e ((i + 1) * k).

(** The same, as a (for large s astronomically expensive, but total) boolean function. *)
Definition in_bucketb (s m e i : Z) : bool :=
  if 0 <=? s
  then let n := 2 ^ s in pow2_ltb i (m ^ n) (e * n) && le_pow2b (m ^ n) (e * n) (i + 1)
  else let k := 2 ^ (- s) in pow2_ltb (i * k) m e && le_pow2b m e ((i + 1) * k).

(** Closed form of the unique bucket of m * 2^e (m > 0) at scale s:
    ceil(log2(m*2^e) * 2^s) - 1. *)
Definition exact_bin (s m e : Z) : Z :=
  if 0 <=? s
  then Z.log2_up (m ^ (2 ^ s)) + e * 2 ^ s - 1
  else Z.shiftr (Z.log2_up m + e - 1) (- s).

Record expo_point := {
  ep_scale : Z;
  ep_pos_off : Z; ep_pos : list N;
  ep_neg_off : Z; ep_neg : list N;
  ep_zero : N; ep_count : N;
  ep_min : Z; ep_max : Z; ep_sum : Z }.

(** Count of the bucket with index i in a window starting at [off]. *)
Definition bucket_get (off : Z) (counts : list N) (i : Z) : N :=
  if i <? off then 0%N else nth (Z.to_nat (i - off)) counts 0%N.

Definition expo_count_ok (p : expo_point) : Prop :=
  ep_count p = (ep_zero p + nsum (ep_pos p) + nsum (ep_neg p))%N.

Definition expo_size_ok (maxsize : Z) (p : expo_point) : Prop :=
  Z.of_nat (length (ep_pos p)) <= maxsize /\ Z.of_nat (length (ep_neg p)) <= maxsize.

Definition expo_scale_ok (maxscale : Z) (p : expo_point) : Prop :=
  -10 <= ep_scale p <= maxscale.

(** Every non-zero value is counted in exactly the bucket that contains its magnitude;
    zeros are counted in the zero bucket; nothing else is counted. *)
Definition expo_placed (u : Z) (vs : list Z) (p : expo_point) : Prop :=
  ep_zero p = count_where (Z.eqb 0) vs /\
  forall i,
    bucket_get (ep_pos_off p) (ep_pos p) i =
      count_where (fun v => (0 <? v) && in_bucketb (ep_scale p) v u i) vs /\
    bucket_get (ep_neg_off p) (ep_neg p) i =
      count_where (fun v => (v <? 0) && in_bucketb (ep_scale p) (- v) u i) vs.

Definition expo_stats_ok (vs : list Z) (p : expo_point) : Prop :=
  ep_count p = N.of_nat (length vs) /\
  is_min vs (ep_min p) /\ is_max vs (ep_max p) /\ ep_sum p = zsum vs.

(** Configurations the aggregation validation must admit, and only those. *)
Definition expo_config_ok (maxsize maxscale : Z) : bool :=
  (0 <? maxsize) && (-10 <=? maxscale) && (maxscale <=? 20).

(** "The values fit into [maxsize] buckets per sign at the minimum scale -10": the guard of
    the count and placement theorems (finding F-C07-1 is exactly its failure). *)
Definition fits_at_min_scale (u maxsize : Z) (vs : list Z) : Prop :=
  forall v w i j, In v vs -> In w vs -> 0 < v * w ->
    in_bucket (-10) (Z.abs v) u i -> in_bucket (-10) (Z.abs w) u j -> i - j < maxsize.

(** Finite float64 measurements, in the fixed-point unit 2^-1074. *)
Definition f64_values (vs : list Z) : Prop := Forall (fun v => Z.abs v < 2 ^ 2098) vs.

(** What the floating-point index computation of getBin (math.Log based, positive scales
    only) is *assumed* to return in the theorems that depend on it: the exact bucket.
    This is the tested-only clause of C07 (judged per sampled input by a certified
    procedure, see [index_sound] / [check_bin_sound]); it is not proved of the Go code. *)
Definition positive_index_exact (g : Z -> Z -> Z) (u maxscale : Z) : Prop :=
  forall s m, 0 < s <= maxscale -> 0 < m -> g s m = exact_bin s m u.
