(** C07 property theorems: statements only, each closed by a lemma of Proofs.v, the axiom
    audit, and non-vacuity examples.

    Reading guide.  Values are integers in the unit 2^u of the instrument (u = -1074 for
    float64: [Lib.Dyadic.fx64] maps a bit pattern to that integer; u = 0 for int64).
    [gb] is the function computed by getBin's floating-point formula at positive scales;
    theorems that need it to be exact carry [positive_index_exact gb u maxscale] in plain
    sight (it is vacuous for maxscale <= 0 and is the tested-only clause otherwise). *)
From Coq Require Import ZArith NArith List Lia Bool Permutation.
From Verif Require Import Lib.Base Lib.Dyadic C07.Model C07.Spec C07.Proofs.
Import ListNotations.
Open Scope Z_scope.

(** ** Explicit-bucket histograms: all boundary lists, all measurement sequences *)

(** One more bucket than boundaries. *)
Theorem c07_explicit_shape : forall bounds vs h,
  hist_run bounds vs = Some h -> length (h_counts h) = S (length bounds).
Proof. exact explicit_shape. Qed.
Print Assumptions c07_explicit_shape.

(** Bucket counts sum to the count, which is the number of measurements. *)
Theorem c07_explicit_counts_sum : forall bounds vs h,
  hist_run bounds vs = Some h ->
  nsum (h_counts h) = h_count h /\ h_count h = N.of_nat (length vs).
Proof. exact explicit_counts_sum. Qed.
Print Assumptions c07_explicit_counts_sum.

(** The bucket incremented for v satisfies lower < v <= upper, and for strictly increasing
    boundaries (what the aggregation validation admits) it is the only such bucket. *)
Theorem c07_explicit_bucket_correct : forall bounds v,
  in_explicit_bucket bounds (bucket_index bounds v) v /\
  (strictly_increasing bounds = true ->
   forall k, in_explicit_bucket bounds k v -> k = bucket_index bounds v).
Proof. intros. split; [apply bucket_index_correct|intros; now apply bucket_index_unique]. Qed.
Print Assumptions c07_explicit_bucket_correct.

(** Exact minimum, maximum and sum. *)
Theorem c07_explicit_min_max_sum : forall bounds vs h,
  hist_run bounds vs = Some h ->
  is_min vs (h_min h) /\ is_max vs (h_max h) /\ h_total h = zsum vs.
Proof. exact explicit_min_max_sum. Qed.
Print Assumptions c07_explicit_min_max_sum.

(** All clauses in the specification's own vocabulary: bucket k counts exactly the
    measurements in (b_(k-1), b_k]. *)
Theorem c07_explicit_point_ok : forall bounds v0 vs,
  strictly_increasing bounds = true ->
  exists h, hist_run bounds (v0 :: vs) = Some h /\
            hist_point_ok bounds (v0 :: vs) (hist_to_point h).
Proof. exact explicit_point_ok. Qed.
Print Assumptions c07_explicit_point_ok.

(** EVERY configured boundary list (also unsorted or with duplicates, e.g. from a function View,
    which is not validated): the aggregator sorts its copy; the point reports a non-decreasing
    permutation of the configured list and satisfies every clause against it. *)
Theorem c07_explicit_any_bounds : forall bounds v0 vs,
  Permutation bounds (sort_bounds bounds) /\ weakly_increasing (sort_bounds bounds) = true /\
  exists h, hist_run_cfg bounds (v0 :: vs) = Some h /\
            hist_point_ok (sort_bounds bounds) (v0 :: vs) (hist_to_point h).
Proof. exact explicit_any_bounds. Qed.
Print Assumptions c07_explicit_any_bounds.

(** The validation of both aggregations accepts exactly the admissible configurations
    (MaxScale < -10 is rejected: the repaired F-C07-2). *)
Theorem c07_validation : forall bounds ms mxs,
  bounds_valid bounds = strictly_increasing bounds /\ expo_valid ms mxs = expo_config_ok ms mxs.
Proof. intros. split; [apply bounds_valid_spec|apply expo_valid_spec]. Qed.
Print Assumptions c07_validation.

(** The boolean judge applied to implementation observations implies the Prop reading. *)
Theorem c07_hist_checker_sound : forall bounds vs p,
  hist_point_okb true bounds vs p = true -> hist_point_ok bounds vs p.
Proof. exact hist_point_okb_sound. Qed.
Print Assumptions c07_hist_checker_sound.

(** ** The bucket relation *)

(** Every positive dyadic has exactly one bucket at every scale: the closed form. *)
Theorem c07_bucket_exists_unique : forall s m e i,
  0 < m -> (in_bucket s m e i <-> i = exact_bin s m e).
Proof. exact in_bucket_exact. Qed.
Print Assumptions c07_bucket_exists_unique.

(** Re-scaling law: lowering the scale by d shifts the bucket index right by d. *)
Theorem c07_in_bucket_shift : forall s m e i d,
  0 < m -> 0 <= d -> in_bucket s m e i -> in_bucket (s - d) m e (Z.shiftr i d).
Proof. exact in_bucket_shift. Qed.
Print Assumptions c07_in_bucket_shift.

(** getBin at scales <= 0 (Frexp, power-of-two correction, shift) is exact for every
    positive dyadic m*2^u, hence for every positive finite float64 including subnormals. *)
Theorem c07_getbin_nonpos_exact : forall s m u,
  s <= 0 -> 0 < m -> in_bucket s m u (get_bin_nonpos s m u).
Proof. exact get_bin_nonpos_in_bucket. Qed.
Print Assumptions c07_getbin_nonpos_exact.

(** The certified interval procedure that judges positive-scale buckets is sound, at every
    working precision P. *)
Theorem c07_check_bin_sound : forall P s m e i,
  0 < m ->
  (check_bin P s m e i = Some true -> in_bucket (Z.of_nat s) m e i) /\
  (check_bin P s m e i = Some false -> ~ in_bucket (Z.of_nat s) m e i) /\
  (forall j, index P s m e = Some j -> in_bucket (Z.of_nat s) m e j).
Proof.
  intros. split; [now apply check_bin_sound|]. split; [now apply check_bin_refutes|].
  intros j Hj. now apply index_sound in Hj.
Qed.
Print Assumptions c07_check_bin_sound.

(** ** Exponential histograms: all measurement sequences, all (MaxSize, MaxScale) *)

(** count = number of measurements; exact min, max and sum.  (Any gb.) *)
Theorem c07_expo_stats : forall gb u ms mxs v0 vs,
  expo_stats_ok (v0 :: vs) (expo_to_point (expo_run gb u ms mxs (v0 :: vs))).
Proof. exact expo_stats_run. Qed.
Print Assumptions c07_expo_stats.

(** scale <= MaxScale, scale >= -10, and along any sequence the scale only decreases.  (Any gb.) *)
Theorem c07_expo_scale_range_monotone : forall gb u ms mxs,
  -10 <= mxs ->
  (forall vs, expo_scale_ok mxs (expo_to_point (expo_run gb u ms mxs vs))) /\
  (forall l1 l2, e_scale (expo_run gb u ms mxs (l1 ++ l2)) <= e_scale (expo_run gb u ms mxs l1)).
Proof.
  intros gb u ms mxs H. split; [intro vs; now apply expo_scale_ok_run|apply expo_scale_monotone].
Qed.
Print Assumptions c07_expo_scale_range_monotone.

(** Unconditionally, the buckets never hold more than was counted.  (Any gb.) *)
Theorem c07_expo_count_le : forall gb u ms mxs vs,
  let p := expo_to_point (expo_run gb u ms mxs vs) in
  (ep_zero p + nsum (ep_pos p) + nsum (ep_neg p) <= ep_count p)%N.
Proof. exact expo_count_le_run. Qed.
Print Assumptions c07_expo_count_le.

(** At most MaxSize buckets per sign. *)
Theorem c07_expo_size_bound : forall gb u ms mxs,
  positive_index_exact gb u mxs -> 1 <= ms -> -10 <= mxs <= 20 -> forall vs,
  expo_size_ok ms (expo_to_point (expo_run gb u ms mxs vs)).
Proof. exact expo_size_run. Qed.
Print Assumptions c07_expo_size_bound.

(** count = zero + positive + negative counts, when the values fit at scale -10. *)
Theorem c07_expo_count_eq : forall gb u ms mxs,
  positive_index_exact gb u mxs -> 1 <= ms -> -10 <= mxs <= 20 -> forall vs,
  fits_at_min_scale u ms vs ->
  expo_count_ok (expo_to_point (expo_run gb u ms mxs vs)).
Proof. exact expo_count_eq_run. Qed.
Print Assumptions c07_expo_count_eq.

(** Placement through every grow / shift / downscale: the count of bucket i is the number of
    recorded values v with base^i < |v| <= base^(i+1), zeros are in the zero bucket. *)
Theorem c07_expo_placement : forall gb u ms mxs,
  positive_index_exact gb u mxs -> 1 <= ms -> -10 <= mxs <= 20 -> forall vs,
  fits_at_min_scale u ms vs ->
  expo_placed u vs (expo_to_point (expo_run gb u ms mxs vs)).
Proof. exact expo_placed_run. Qed.
Print Assumptions c07_expo_placement.

(** The guard is automatic from MaxSize 3 on for float64 measurements (bins -2, -1, 0 at
    scale -10) and from MaxSize 2 on for int64 measurements. *)
Theorem c07_fits_float64 : forall ms vs,
  3 <= ms -> f64_values vs -> fits_at_min_scale (-1074) ms vs.
Proof. exact fits_float64. Qed.
Print Assumptions c07_fits_float64.

Theorem c07_fits_int64 : forall ms vs,
  2 <= ms -> Forall (fun v => Z.abs v <= 2 ^ 63) vs -> fits_at_min_scale 0 ms vs.
Proof. exact fits_int64. Qed.
Print Assumptions c07_fits_int64.

(** The whole property for float64 instruments and MaxSize >= 3, in one statement. *)
Theorem c07_expo_float64 : forall gb ms mxs v0 vs,
  positive_index_exact gb (-1074) mxs -> 3 <= ms -> -10 <= mxs <= 20 -> f64_values (v0 :: vs) ->
  let p := expo_to_point (expo_run gb (-1074) ms mxs (v0 :: vs)) in
  expo_stats_ok (v0 :: vs) p /\ expo_scale_ok mxs p /\ expo_size_ok ms p /\
  expo_count_ok p /\ expo_placed (-1074) (v0 :: vs) p.
Proof.
  intros gb ms mxs v0 vs Hgb Hms Hmx Hf. pose proof (fits_float64 ms (v0 :: vs) Hms Hf) as F.
  cbv zeta. split; [apply expo_stats_run|]. split; [apply expo_scale_ok_run; lia|].
  split; [apply expo_size_run; (assumption || lia)|].
  split; [apply expo_count_eq_run; (assumption || lia)|apply expo_placed_run; (assumption || lia)].
Qed.
Print Assumptions c07_expo_float64.

(** The executable judge the correspondence run applies to implementation observations at
    any scale (certified scale-20 indexes shifted down, tallies compared) implies the
    specification's placement clause. *)
Theorem c07_expo_judge_sound : forall mxs vz t p,
  mxs <= 20 -> expo_table mxs vz = Some t -> ep_scale p <= mxs ->
  placed_b t vz p = true -> expo_placed U vz p.
Proof. exact placed_b_sound. Qed.
Print Assumptions c07_expo_judge_sound.

(** ** F-C07-1 (known, not repaired): without the fit guard the count clause is false.
    MaxSize 1 with 0.5 and 2; MaxSize 2 with 5e-324 and 2 (contrary to the code comment
    "this can only happen if there is a max size of 1").  MaxScale 0, so no gb is involved. *)
Definition v_half : Z := 2 ^ 1073.       (* 0.5  * 2^1074 *)
Definition v_two : Z := 2 ^ 1075.        (* 2    * 2^1074 *)
Definition v_tiny : Z := 1.              (* 5e-324 = 2^-1074 *)

Theorem c07_expo_underflow_refuted :
  exists vs, f64_values vs /\
    ~ expo_count_ok (expo_to_point (expo_run (fun _ _ => 0) (-1074) 1 0 vs)).
Proof.
  exists [v_half; v_two]. split.
  - repeat constructor; vm_compute; reflexivity.
  - unfold expo_count_ok. vm_compute. discriminate.
Qed.
Print Assumptions c07_expo_underflow_refuted.

Theorem c07_expo_underflow_size2_refuted :
  exists vs, f64_values vs /\
    ~ expo_count_ok (expo_to_point (expo_run (fun _ _ => 0) (-1074) 2 0 vs)).
Proof.
  exists [v_tiny; v_two]. split.
  - repeat constructor; vm_compute; reflexivity.
  - unfold expo_count_ok. vm_compute. discriminate.
Qed.
Print Assumptions c07_expo_underflow_size2_refuted.

(** ** Non-vacuity *)
Example ex_bounds : strictly_increasing [0; 5; 10] = true. Proof. reflexivity. Qed.
Example ex_explicit :
  option_map hist_to_point (hist_run [0; 5; 10] [5; -3; 7; 11; 0; 10]) =
  Some {| hp_counts := [2; 1; 2; 1]%N; hp_count := 6; hp_min := -3; hp_max := 11; hp_sum := 30 |}.
Proof. vm_compute. reflexivity. Qed.

(** An exact positive-scale index exists (the closed form), so the hypothesis of the
    exponential theorems is satisfiable at every MaxScale; small instance evaluated. *)
Example ex_gb_exact : forall u mxs, positive_index_exact (fun s m => exact_bin s m u) u mxs.
Proof. intros u mxs s m _ _. reflexivity. Qed.

(** 1, 1.5, 3, 0, -3 in unit 2^-1 at MaxSize 4, MaxScale 2 (base 2^(1/4)): bins -1, 2, 6 do
    not fit, the scale drops by two. *)
Example ex_expo :
  let p := expo_to_point (expo_run (fun s m => exact_bin s m (-1)) (-1) 4 2 [2; 3; 6; 0; -6]) in
  ep_scale p = 0 /\ ep_pos_off p = -1 /\ ep_pos p = [1; 1; 1]%N /\ ep_neg_off p = 1 /\ ep_neg p = [1%N] /\
  ep_zero p = 1%N /\ ep_count p = 5%N.
Proof. vm_compute. repeat split. Qed.

Example ex_fits : fits_at_min_scale (-1074) 3 [v_half; v_two; v_tiny; - v_two].
Proof. apply fits_float64; [lia|]. repeat constructor; vm_compute; reflexivity. Qed.

Example ex_index : index 64 3 3 (-1) = Some 4 /\ exact_bin 3 3 (-1) = 4 /\ get_bin_nonpos (-1) 3 (-1) = 0.
Proof. vm_compute. auto. Qed.
