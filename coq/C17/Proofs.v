(** C17 proofs: the model of record.go refines the ordered-map specification
    for every count limit other than 0, every value-length limit and every
    call sequence; laws of the specification. *)
From Verif Require Import Lib.Base Lib.Utf8 C17.Spec C17.Model.
From Coq Require Import ZifyBool ZifyNat ZifyN.
Open Scope N_scope.

(** * Ordered maps (generic in the value type) *)

Lemma NoDup_snoc {A} (l : list A) x : NoDup l -> ~ In x l -> NoDup (l ++ [x]).
Proof.
  induction 1 as [|y l Hy Hl IH]; intro Hx; cbn.
  - constructor; [tauto | constructor].
  - constructor.
    + rewrite in_app_iff. cbn. intros [H|[H|[]]]; [tauto|]. subst. apply Hx. now left.
    + apply IH. intro. apply Hx. now right.
Qed.

Section MapLemmas.
  Context {A : Type}.
  Implicit Types (m u l : list (bytes * A)) (k : bytes) (v : A).

  Lemma has_key_in k m : has_key k m = true <-> In k (keys m).
  Proof.
    unfold keys. induction m as [|[k' v'] m IH]; cbn; [split; [discriminate | tauto]|].
    rewrite orb_true_iff, bytes_eqb_eq, IH. tauto.
  Qed.

  Lemma has_key_false k m : has_key k m = false <-> ~ In k (keys m).
  Proof.
    pose proof (has_key_in k m) as H. destruct (has_key k m) eqn:E; split; try congruence.
    - intro Hn. exfalso. apply Hn. now apply H.
    - intros _ Hi. apply H in Hi. discriminate.
  Qed.

  Lemma has_key_app k (a b : list (bytes * A)) : has_key k (a ++ b) = has_key k a || has_key k b.
  Proof. induction a as [|[k' v'] a IH]; cbn; [reflexivity|]. now rewrite IH, orb_assoc. Qed.

  Lemma find_key_none k l : find_key k l = None <-> has_key k l = false.
  Proof.
    induction l as [|[k' v'] l IH]; cbn; [tauto|].
    destruct (bytes_eqb k' k); cbn; [split; discriminate|].
    destruct (find_key k l); split; intro H; try discriminate; try reflexivity.
    - apply IH in H. discriminate.
    - now apply IH.
  Qed.

  Lemma find_key_set k v : forall l i, find_key k l = Some i ->
    set_nth i (k, v) l = set_key k v l /\ has_key k l = true /\ (i < length l)%nat.
  Proof.
    induction l as [|[k' v'] l IH]; cbn; intros i H; [discriminate|].
    destruct (bytes_eqb k' k) eqn:E; cbn.
    - injection H as <-. repeat split. lia.
    - destruct (find_key k l) as [j|]; [|discriminate]. injection H as <-. cbn.
      destruct (IH j eq_refl) as (H1 & H2 & H3). rewrite H1, H2. repeat split. lia.
  Qed.

  Lemma keys_set_key k v m : keys (set_key k v m) = keys m.
  Proof.
    unfold keys. induction m as [|[k' v'] m IH]; cbn; [reflexivity|].
    destruct (bytes_eqb k' k) eqn:E; cbn.
    - apply bytes_eqb_eq in E. now subst.
    - now rewrite IH.
  Qed.

  (** On a duplicate-free list the last position of a key is its first position. *)
  Lemma find_last_nodup k : forall l, NoDup (keys l) -> find_last k l = find_key k l.
  Proof.
    induction l as [|[k' v'] l IH]; intro N; [reflexivity|]. cbn [find_last find_key].
    unfold keys in N. cbn [map fst] in N. inversion N as [|? ? Nk Nl]; subst. rewrite (IH Nl).
    destruct (find_key k l) as [i|] eqn:F; [|reflexivity].
    destruct (find_key_set k v' l i F) as (_ & H & _). apply has_key_in in H.
    destruct (bytes_eqb k' k) eqn:E; [|reflexivity]. apply bytes_eqb_eq in E. subst. contradiction.
  Qed.

  Lemma nodup_keys_app_l (a b : list (bytes * A)) : NoDup (keys (a ++ b)) -> NoDup (keys a).
  Proof.
    unfold keys. rewrite map_app. induction (map fst a) as [|x l IH]; cbn; intro H; [constructor|].
    inversion H; subst. constructor; [rewrite in_app_iff in *; tauto | auto].
  Qed.

  Lemma nodup_keys_app_r (a b : list (bytes * A)) : NoDup (keys (a ++ b)) -> NoDup (keys b).
  Proof.
    unfold keys. rewrite map_app. induction (map fst a) as [|x l IH]; cbn; intro H; [exact H|].
    inversion H; subst. auto.
  Qed.

  Lemma nodup_keys_disjoint k (a b : list (bytes * A)) :
    NoDup (keys (a ++ b)) -> has_key k b = true -> has_key k a = false.
  Proof.
    intros N Hb. apply has_key_false. intro Ha. apply has_key_in in Hb.
    unfold keys in *. rewrite map_app in N. revert N Ha. induction (map fst a) as [|x l IH]; cbn; [tauto|].
    intros N [->|Ha]; inversion N; subst; [|auto]. rewrite in_app_iff in *. tauto.
  Qed.

  Lemma length_set_key k v m : length (set_key k v m) = length m.
  Proof.
    induction m as [|[k' v'] m IH]; cbn; [reflexivity|].
    destruct (bytes_eqb k' k); cbn; [reflexivity | now rewrite IH].
  Qed.

  Lemma keys_app (a b : list (bytes * A)) : keys (a ++ b) = keys a ++ keys b.
  Proof. apply map_app. Qed.

  Lemma set_key_app_l k v (a b : list (bytes * A)) : has_key k a = true -> set_key k v (a ++ b) = set_key k v a ++ b.
  Proof.
    induction a as [|[k' v'] a IH]; cbn; [discriminate|].
    destruct (bytes_eqb k' k); cbn; [reflexivity|]. intro H. now rewrite IH.
  Qed.

  Lemma set_key_app_r k v (a b : list (bytes * A)) : has_key k a = false -> set_key k v (a ++ b) = a ++ set_key k v b.
  Proof.
    induction a as [|[k' v'] a IH]; cbn; [reflexivity|].
    destruct (bytes_eqb k' k); cbn; [discriminate|]. intro H. now rewrite IH.
  Qed.

  Lemma set_key_absent k v m : has_key k m = false -> set_key k v m = m.
  Proof.
    induction m as [|[k' v'] m IH]; cbn; [reflexivity|].
    destruct (bytes_eqb k' k); cbn; [discriminate|]. intro H. now rewrite IH.
  Qed.

  Lemma upsert_nodup u a : NoDup (keys u) -> NoDup (keys (upsert u a)).
  Proof.
    unfold upsert. intro H. destruct (has_key (fst a) u) eqn:E.
    - now rewrite keys_set_key.
    - rewrite keys_app. cbn. apply has_key_false in E. now apply NoDup_snoc.
  Qed.

  Lemma fold_upsert_nodup l : forall u, NoDup (keys u) -> NoDup (keys (fold_left upsert l u)).
  Proof. induction l as [|a l IH]; intros u H; cbn; [exact H|]. apply IH. now apply upsert_nodup. Qed.

  (** dedup is the ordered-map fold, and counts what it removes. *)
  Lemma dedup_step_upsert u d a :
    dedup_step (u, d) a = (upsert u a, if has_key (fst a) u then S d else d).
  Proof.
    unfold dedup_step, upsert. destruct a as [k v]. cbn [fst snd].
    destruct (find_key k u) as [i|] eqn:F.
    - destruct (find_key_set k v u i F) as (H1 & H2 & _). now rewrite H1, H2.
    - apply find_key_none in F. now rewrite F.
  Qed.

  Lemma fold_dedup_fst l : forall u d, fst (fold_left dedup_step l (u, d)) = fold_left upsert l u.
  Proof. induction l as [|a l IH]; intros u d; cbn [fold_left]; [reflexivity|]. now rewrite dedup_step_upsert, IH. Qed.

  Lemma fold_dedup_count l : forall u d,
    (length (fst (fold_left dedup_step l (u, d))) + snd (fold_left dedup_step l (u, d)) = length u + d + length l)%nat.
  Proof.
    induction l as [|a l IH]; intros u d; cbn [fold_left length]; [cbn; lia|].
    rewrite dedup_step_upsert, IH. unfold upsert.
    destruct (has_key (fst a) u); [rewrite length_set_key | rewrite app_length; cbn]; lia.
  Qed.

  Lemma dedup_nodup l : NoDup (keys (fst (dedup l))).
  Proof. unfold dedup. rewrite fold_dedup_fst. apply fold_upsert_nodup. constructor. Qed.

  Lemma fold_upsert_nodup_id m : forall acc, NoDup (keys (acc ++ m)) -> fold_left upsert m acc = acc ++ m.
  Proof.
    induction m as [|a m IH]; intros acc H; cbn; [now rewrite app_nil_r|].
    assert (E : has_key (fst a) acc = false).
    { apply has_key_false. intro Hin. rewrite keys_app in H. cbn in H.
      apply NoDup_remove_2 in H. apply H. rewrite in_app_iff. now left. }
    unfold upsert at 2. rewrite E.
    replace (acc ++ a :: m) with ((acc ++ [a]) ++ m) in * by (now rewrite <- app_assoc).
    now apply IH.
  Qed.

  Lemma dedup_nodup_id m : NoDup (keys m) -> dedup m = (m, 0%nat).
  Proof.
    intro H. pose proof (fold_dedup_fst m [] 0%nat) as F. pose proof (fold_dedup_count m [] 0%nat) as C.
    fold (dedup m) in F, C. rewrite (fold_upsert_nodup_id m []) in F by exact H. cbn [app] in F.
    destruct (dedup m) as [u d]. cbn [fst snd length] in *. subst u. f_equal. lia.
  Qed.
End MapLemmas.

(** Key-preserving maps commute with the ordered-map operations. *)
Section MapCommute.
  Context {A B : Type} (h : A -> B).
  Let g (e : bytes * A) : bytes * B := (fst e, h (snd e)).

  Lemma has_key_map k (m : list (bytes * A)) : has_key k (map g m) = has_key k m.
  Proof. induction m as [|[k' v'] m IH]; cbn; [reflexivity|]. now rewrite IH. Qed.

  Lemma set_key_map k v (m : list (bytes * A)) : set_key k (h v) (map g m) = map g (set_key k v m).
  Proof.
    induction m as [|[k' v'] m IH]; cbn; [reflexivity|].
    destruct (bytes_eqb k' k); cbn; [reflexivity | now rewrite IH].
  Qed.

  Lemma upsert_map (m : list (bytes * A)) a : upsert (map g m) (g a) = map g (upsert m a).
  Proof.
    unfold upsert. cbn [fst snd g]. rewrite has_key_map. destruct (has_key (fst a) m).
    - apply set_key_map.
    - now rewrite map_app.
  Qed.

  Lemma fold_upsert_map l : forall (m : list (bytes * A)),
    fold_left upsert (map g l) (map g m) = map g (fold_left upsert l m).
  Proof. induction l as [|a l IH]; intro m; cbn; [reflexivity|]. now rewrite upsert_map, IH. Qed.
End MapCommute.

(** * Nested values *)

Lemma lvalue_ind' (P : lvalue -> Prop)
  (HS : forall s, P (LStr s))
  (HL : forall l, Forall P l -> P (LSlice l))
  (HM : forall kvs, Forall (fun kv => P (snd kv)) kvs -> P (LMap kvs))
  (HO : forall k r, P (LOther k r)) : forall v, P v.
Proof.
  fix IH 1. intros [s|l|kvs|k r].
  - apply HS.
  - apply HL. induction l as [|x l IHl]; constructor; [apply IH | exact IHl].
  - apply HM. induction kvs as [|[k x] kvs IHk]; constructor; [apply IH | exact IHk].
  - apply HO.
Qed.

Lemma truncate_guarded lenlim s :
  (if (lenlim <? Z.of_nat (length s))%Z then truncate lenlim s else s) = truncate_spec lenlim s.
Proof.
  destruct (Z.ltb_spec lenlim (Z.of_nat (length s))) as [H|H].
  - apply truncate_refines.
  - unfold truncate_spec. destruct (Z.ltb_spec lenlim 0); [reflexivity|].
    destruct (Z.leb_spec (Z.of_nat (length s)) lenlim); [reflexivity | lia].
Qed.

(** applyValueLimits computes the deep normalisation of the specification. *)
Lemma apply_value_limits_norm lenlim v : fst (apply_value_limits lenlim v) = norm lenlim v.
Proof.
  induction v as [s|l IH|kvs IH|k r] using lvalue_ind'; cbn [apply_value_limits norm fst].
  - destruct (lenlim <? Z.of_nat (length s))%Z eqn:E; f_equal.
    + pose proof (truncate_guarded lenlim s) as T. now rewrite E in T.
    + pose proof (truncate_guarded lenlim s) as T. now rewrite E in T.
  - f_equal. rewrite map_map. apply map_ext_in. intros x Hx. rewrite Forall_forall in IH. now apply IH.
  - set (rs := map (fun kv => let '(k, x) := kv in (k, apply_value_limits lenlim x)) kvs).
    pose proof (fold_dedup_fst rs [] 0%nat) as F. fold (dedup rs) in F.
    destruct (dedup rs) as [u d]. cbn [fst] in *. subst u. f_equal.
    change (fun e : bytes * (lvalue * nat) => (fst e, fst (snd e)))
      with (fun e : bytes * (lvalue * nat) => (fst e, (@fst lvalue nat) (snd e))).
    rewrite <- (fold_upsert_map (@fst lvalue nat) rs []). cbn [map]. f_equal.
    unfold rs. rewrite map_map. apply map_ext_in. intros [k x] Hx. cbn [fst snd].
    rewrite Forall_forall in IH. f_equal. now apply (IH (k, x)).
  - reflexivity.
Qed.

(** * The record *)

Definition nk (lenlim : Z) (a : lkv) : lkv := (fst a, norm lenlim (snd a)).

Lemma set_nth_length {A} i (a : bytes * A) : forall l, length (set_nth i a l) = length l.
Proof. induction i as [|i IH]; intros [|x l]; cbn; try reflexivity. now rewrite IH. Qed.

Lemma limit_all_fst lenlim attrs : fst (limit_all lenlim attrs) = map (nk lenlim) attrs.
Proof. unfold limit_all, nk. cbn [fst]. apply map_ext. intro a. now rewrite apply_value_limits_norm. Qed.

(** Invariant of the storage split: the overflow slice is used only when the inline array is full. *)
Definition shape (r : rec) : Prop := (length (r_front r) < inline_count)%nat -> r_back r = [].

Lemma add_attrs_spec lenlim r attrs : shape r ->
  attrs_of (add_attrs lenlim r attrs) = attrs_of r ++ map (nk lenlim) attrs /\
  r_flat (add_attrs lenlim r attrs) = r_flat r /\ shape (add_attrs lenlim r attrs).
Proof.
  intro S. unfold add_attrs. pose proof (limit_all_fst lenlim attrs) as F.
  destruct (limit_all lenlim attrs) as [la n]. cbn [fst] in F. subst la.
  set (la := map (nk lenlim) attrs). unfold attrs_of, shape in *.
  cbn [r_front r_back r_flat]. unfold inline_count in *.
  destruct (Nat.ltb_spec (length (r_front r)) 5) as [L|L].
  - rewrite (S L). cbn [app]. repeat split.
    + rewrite app_nil_r, <- app_assoc. f_equal. apply firstn_skipn.
    + rewrite app_length, firstn_length. intro H. apply skipn_all2. lia.
  - replace (5 - length (r_front r))%nat with 0%nat by lia. cbn [firstn skipn]. rewrite app_nil_r.
    repeat split.
    + now rewrite app_assoc.
    + intro H. lia.
Qed.

Lemma overwrite_spec r k v : NoDup (keys (attrs_of r)) ->
  match overwrite r (k, v) with
  | Some r' => has_key k (attrs_of r) = true /\ attrs_of r' = set_key k v (attrs_of r) /\
               length (r_front r') = length (r_front r) /\ length (r_back r') = length (r_back r) /\
               r_flat r' = r_flat r /\ r_nested r' = r_nested r
  | None => has_key k (attrs_of r) = false
  end.
Proof.
  unfold overwrite, attrs_of. cbn [fst]. intro N.
  rewrite (find_last_nodup k _ (nodup_keys_app_r _ _ N)), (find_last_nodup k _ (nodup_keys_app_l _ _ N)).
  destruct (find_key k (r_back r)) as [i|] eqn:G.
  - destruct (find_key_set k v _ _ G) as (H1 & H2 & _). cbv iota beta. cbn [r_front r_back r_flat r_nested].
    pose proof (nodup_keys_disjoint k _ _ N H2) as F.
    rewrite has_key_app, F, H2, H1, set_key_app_r by exact F. rewrite length_set_key. repeat split.
  - apply find_key_none in G. destruct (find_key k (r_front r)) as [i|] eqn:F.
    + destruct (find_key_set k v _ _ F) as (H1 & H2 & _). cbv iota beta. cbn [r_front r_back r_flat r_nested].
      rewrite has_key_app, H2, H1, set_key_app_l by exact H2. rewrite length_set_key. repeat split.
    + apply find_key_none in F. now rewrite has_key_app, F, G.
Qed.

(** The in-place write touches no counter (no hypothesis on the keys). *)
Lemma overwrite_counters r a r' : overwrite r a = Some r' -> r_flat r' = r_flat r /\ r_nested r' = r_nested r.
Proof.
  unfold overwrite. destruct (find_last (fst a) (r_back r)); [intro H; injection H as <-; now split|].
  destruct (find_last (fst a) (r_front r)); [intro H; injection H as <-; now split | discriminate].
Qed.

(** firstn against the first position of a key *)
Lemma find_key_firstn_in {A} k (v : A) : forall (l : list (bytes * A)) i c, find_key k l = Some i -> (i < c)%nat ->
  has_key k (firstn c l) = true /\ set_key k v (firstn c l) = firstn c (set_key k v l).
Proof.
  induction l as [|[k' v'] l IH]; intros i c F Hc; [discriminate|]. cbn in F.
  destruct c as [|c]; [lia|]. cbn [firstn has_key set_key].
  destruct (bytes_eqb k' k) eqn:E; cbn [orb].
  - split; reflexivity.
  - destruct (find_key k l) as [j|] eqn:G; [|discriminate]. injection F as <-.
    destruct (IH j c eq_refl) as [H1 H2]; [lia|]. cbn [firstn]. now rewrite H1, H2.
Qed.

Lemma find_key_firstn_out {A} k (v : A) : forall (l : list (bytes * A)) i c, find_key k l = Some i -> (c <= i)%nat ->
  has_key k (firstn c l) = false /\ firstn c (set_key k v l) = firstn c l.
Proof.
  induction l as [|[k' v'] l IH]; intros i c F Hc; [discriminate|]. cbn in F.
  destruct c as [|c]; [split; reflexivity|]. cbn [firstn has_key set_key].
  destruct (bytes_eqb k' k) eqn:E; cbn [orb].
  - injection F as <-. lia.
  - destruct (find_key k l) as [j|] eqn:G; [|discriminate]. injection F as <-.
    destruct (IH j c eq_refl) as [H1 H2]; [lia|]. cbn [firstn]. now rewrite H1, H2.
Qed.

Lemma has_key_firstn_false {A} k : forall (l : list (bytes * A)) c, has_key k l = false -> has_key k (firstn c l) = false.
Proof.
  induction l as [|[k' v'] l IH]; intros [|c] H; try reflexivity. cbn in *.
  apply orb_false_iff in H as [H1 H2]. now rewrite H1, IH.
Qed.

Section Merge.
  Variables lenlim limit : Z.
  Hypothesis limit_nz : limit <> 0%Z.
  Notation offer := (offer lenlim limit).
  Notation nk := (nk lenlim).

  (** How many of [len] new distinct keys fit next to [n0] held ones. *)
  Definition keptn (n0 len : nat) : nat :=
    if (0 <? limit)%Z then Nat.min len (Z.to_nat limit - n0) else len.

  (** The specification state that a loop state (record, pending new attributes) stands for. *)
  Definition abs (n0 : nat) (r : rec) (u : list lkv) : list lkv * nat :=
    (attrs_of r ++ map nk (firstn (keptn n0 (length u)) u), (r_flat r + (length u - keptn n0 (length u)))%nat).

  Definition loop_inv (n0 : nat) (r : rec) (u : list lkv) : Prop :=
    length (attrs_of r) = n0 /\
    ((0 < limit)%Z -> (Z.of_nat n0 <= limit)%Z) /\
    (forall k, has_key k u = true -> has_key k (attrs_of r) = false) /\
    NoDup (keys (attrs_of r)).

  Lemma has_key_nk k (m : list lkv) : has_key k (map nk m) = has_key k m.
  Proof. apply (has_key_map (norm lenlim)). Qed.
  Lemma set_key_nk k v (m : list lkv) : set_key k (norm lenlim v) (map nk m) = map nk (set_key k v m).
  Proof. apply (set_key_map (norm lenlim)). Qed.

  Lemma room_len n : room limit n = negb (0 <? limit)%Z || (Z.of_nat n <? limit)%Z.
  Proof. unfold room. destruct (Z.ltb_spec limit 0), (Z.ltb_spec 0 limit); cbn; try reflexivity; lia. Qed.

  Lemma merge_step_abs n0 r u a : loop_inv n0 r u ->
    let st := merge_step lenlim (r, u) a in
    abs n0 (fst st) (snd st) = offer (abs n0 r u) a /\ loop_inv n0 (fst st) (snd st) /\
    length (r_front (fst st)) = length (r_front r) /\ length (r_back (fst st)) = length (r_back r).
  Proof.
    intros (Hn & Hl & Hd & Hnd). destruct a as [k v]. unfold merge_step. cbn [fst snd].
    destruct (find_key k u) as [i|] eqn:F.
    - (* duplicate of a pending new key *)
      destruct (find_key_set k v u i F) as (E1 & E2 & E3). rewrite E1. cbn [fst snd].
      assert (Hc : has_key k (attrs_of r) = false) by now apply Hd.
      split; [|split; [|split; reflexivity]].
      + unfold abs, Spec.offer. cbn [fst snd]. rewrite length_set_key.
        change (attrs_of (bump r 1 0)) with (attrs_of r). change (r_flat (bump r 1 0)) with (r_flat r + 1)%nat.
        rewrite has_key_app, Hc, has_key_nk. cbn [orb].
        set (c := keptn n0 (length u)).
        destruct (Nat.ltb_spec i c) as [Hi|Hi].
        * destruct (find_key_firstn_in k v u i c F Hi) as [G1 G2].
          rewrite G1. rewrite set_key_app_r by exact Hc. rewrite set_key_nk, G2. f_equal. lia.
        * destruct (find_key_firstn_out k v u i c F Hi) as [G1 G2].
          rewrite G1, G2.
          assert (R : room limit (length (attrs_of r ++ map nk (firstn c u))) = false).
          { rewrite room_len, app_length, map_length, firstn_length, Hn. unfold c, keptn in *.
            destruct (Z.ltb_spec 0 limit); cbn [negb orb]; lia. }
          rewrite R. f_equal. lia.
      + repeat split; try assumption.
        intros k' Hk. change (attrs_of (bump r 1 0)) with (attrs_of r). apply Hd.
        apply has_key_in in Hk. rewrite keys_set_key in Hk. now apply has_key_in.
    - apply find_key_none in F.
      pose proof (apply_value_limits_norm lenlim v) as Nv.
      destruct (apply_value_limits lenlim v) as [v' n]. cbn [fst] in Nv. subst v'.
      pose proof (overwrite_spec r k (norm lenlim v) Hnd) as O.
      destruct (overwrite r (k, norm lenlim v)) as [r'|].
      + (* overwrite of a held key *)
        destruct O as (O1 & O2 & O3 & O4 & O5 & O6). cbn [fst snd].
        split; [|split; [|split; assumption]].
        * unfold abs, Spec.offer. cbn [fst snd].
          change (attrs_of (bump r' 1 n)) with (attrs_of r'). change (r_flat (bump r' 1 n)) with (r_flat r' + 1)%nat.
          rewrite has_key_app, O1. cbn [orb]. rewrite O2, O5. rewrite set_key_app_l by exact O1. f_equal. lia.
        * unfold loop_inv. change (attrs_of (bump r' 1 n)) with (attrs_of r'). repeat split; try assumption.
          -- now rewrite O2, length_set_key.
          -- intros k' Hk. specialize (Hd k' Hk). apply has_key_false in Hd. apply has_key_false.
             now rewrite O2, keys_set_key.
          -- now rewrite O2, keys_set_key.
      + (* a new key *)
        cbn [fst snd]. split; [|split; [|split; reflexivity]].
        * unfold abs, Spec.offer. cbn [fst snd]. rewrite app_length. cbn [length].
          rewrite has_key_app, O, has_key_nk. cbn [orb].
          rewrite (has_key_firstn_false k u _ F).
          rewrite room_len, app_length, map_length, firstn_length, Hn.
          unfold keptn. destruct (Z.ltb_spec 0 limit) as [B|B]; cbn [negb orb].
          -- specialize (Hl B). set (c := (Z.to_nat limit - n0)%nat).
             destruct (Nat.ltb_spec (length u) c) as [Hu|Hu].
             ++ replace (Z.of_nat (n0 + Nat.min (Nat.min (length u) c) (length u)) <? limit)%Z with true by lia.
                rewrite !Nat.min_l by lia. rewrite firstn_all.
                rewrite firstn_all2 by (rewrite app_length; cbn; lia).
                rewrite map_app. cbn [map]. rewrite app_assoc. f_equal. lia.
             ++ replace (Z.of_nat (n0 + Nat.min (Nat.min (length u) c) (length u)) <? limit)%Z with false by lia.
                rewrite !Nat.min_r by lia. rewrite firstn_app. replace (c - length u)%nat with 0%nat by lia.
                cbn [firstn]. rewrite app_nil_r. f_equal. lia.
          -- replace (length u + 1)%nat with (length (u ++ [(k, v)])) by (rewrite app_length; reflexivity).
             rewrite !firstn_all. rewrite map_app. cbn [map]. rewrite app_assoc. f_equal.
             rewrite app_length. cbn [length]. lia.
        * repeat split; try assumption.
          intros k' Hk. rewrite has_key_app in Hk. cbn [has_key] in Hk. rewrite orb_false_r in Hk.
          apply orb_true_iff in Hk as [Hk|Hk]; [now apply Hd|]. apply bytes_eqb_eq in Hk. now subst.
  Qed.

  Lemma merge_loop_abs n0 attrs : forall r u, loop_inv n0 r u ->
    let st := fold_left (merge_step lenlim) attrs (r, u) in
    abs n0 (fst st) (snd st) = fold_left offer attrs (abs n0 r u) /\ loop_inv n0 (fst st) (snd st) /\
    length (r_front (fst st)) = length (r_front r) /\ length (r_back (fst st)) = length (r_back r).
  Proof.
    induction attrs as [|a attrs IH]; intros r u I; cbn [fold_left]; cbv zeta.
    - repeat split; try apply I.
    - destruct (merge_step_abs n0 r u a I) as (S1 & S2 & S3 & S4). cbv zeta in *.
      destruct (merge_step lenlim (r, u) a) as [r1 u1]. cbn [fst snd] in *.
      destruct (IH r1 u1 S2) as (T1 & T2 & T3 & T4). cbv zeta in *.
      rewrite T1, S1. repeat split; try apply T2; congruence.
  Qed.
End Merge.

(** * AddAttributes / SetAttributes against the specification *)

Section Refine.
  Variables lenlim limit : Z.
  Hypothesis limit_nz : limit <> 0%Z.
  Notation offer := (offer lenlim limit).
  Notation nk := (nk lenlim).

  (** ** Facts about the specification's fold used by the simulation *)

  Lemma offer_len_ge st a : (length (fst st) <= length (fst (offer st a)))%nat.
  Proof.
    destruct st as [m d]. unfold Spec.offer. cbn [fst].
    destruct (has_key (fst a) m); cbn [fst]; [rewrite length_set_key; lia|].
    destruct (room limit (length m)); cbn [fst]; [rewrite app_length; cbn; lia | lia].
  Qed.

  Lemma fold_offer_len_ge l : forall st, (length (fst st) <= length (fst (fold_left offer l st)))%nat.
  Proof.
    induction l as [|a l IH]; intro st; cbn [fold_left]; [lia|].
    pose proof (offer_len_ge st a). specialize (IH (offer st a)). lia.
  Qed.

  Lemma offer_nonempty st a : fst (offer st a) <> [].
  Proof.
    destruct st as [m d]. unfold Spec.offer. cbn [fst].
    destruct (has_key (fst a) m) eqn:H; cbn [fst].
    - intro E. apply (f_equal (@length _)) in E. rewrite length_set_key in E. destruct m; [discriminate | cbn in E; lia].
    - destruct (room limit (length m)) eqn:R; cbn [fst].
      + destruct m; discriminate.
      + unfold room in R. destruct m; [|discriminate]. cbn in R. lia.
  Qed.

  Lemma fold_offer_nonempty l st : l <> [] -> fst (fold_left offer l st) <> [].
  Proof.
    destruct l as [|a l]; [congruence|]. intros _. cbn [fold_left].
    pose proof (fold_offer_len_ge l (offer st a)) as H. pose proof (offer_nonempty st a) as N.
    intro E. rewrite E in H. destruct (fst (offer st a)); [congruence | cbn in H; lia].
  Qed.

  Lemma offer_len_le st a : (0 < limit)%Z -> (Z.of_nat (length (fst st)) <= limit)%Z ->
    (Z.of_nat (length (fst (offer st a))) <= limit)%Z.
  Proof.
    destruct st as [m d]. unfold Spec.offer. cbn [fst]. intros H0 H.
    destruct (has_key (fst a) m); cbn [fst]; [now rewrite length_set_key|].
    unfold room. destruct ((limit <? 0)%Z || (Z.of_nat (length m) <? limit)%Z) eqn:R; cbn [fst]; [|exact H].
    rewrite app_length. cbn. lia.
  Qed.

  Lemma fold_offer_len_le l : forall st, (0 < limit)%Z -> (Z.of_nat (length (fst st)) <= limit)%Z ->
    (Z.of_nat (length (fst (fold_left offer l st))) <= limit)%Z.
  Proof. induction l as [|a l IH]; intros st H0 H; cbn [fold_left]; [exact H|]. apply IH; [exact H0|]. now apply offer_len_le. Qed.

  Lemma offer_nodup st a : NoDup (keys (fst st)) -> NoDup (keys (fst (offer st a))).
  Proof.
    destruct st as [m d]. unfold Spec.offer. cbn [fst]. intro H.
    destruct (has_key (fst a) m) eqn:E; cbn [fst]; [now rewrite keys_set_key|].
    destruct (room limit (length m)); cbn [fst]; [|exact H].
    rewrite keys_app. cbn. apply has_key_false in E. now apply NoDup_snoc.
  Qed.

  Lemma fold_offer_nodup l : forall st, NoDup (keys (fst st)) -> NoDup (keys (fst (fold_left offer l st))).
  Proof. induction l as [|a l IH]; intros st H; cbn [fold_left]; [exact H|]. apply IH. now apply offer_nodup. Qed.

  (** ** The simulation relation *)

  Definition RInv (r : rec) (st : list lkv * nat) : Prop :=
    attrs_of r = fst st /\ r_flat r = snd st /\ shape r /\
    ((0 < limit)%Z -> (Z.of_nat (length (fst st)) <= limit)%Z) /\
    (fst st = [] -> snd st = 0%nat) /\
    NoDup (keys (fst st)).

  Lemma RInv_ext rA rB st : r_front rA = r_front rB -> r_back rA = r_back rB -> r_flat rA = r_flat rB ->
    RInv rA st -> RInv rB st.
  Proof. unfold RInv, attrs_of, shape. intros -> -> ->. tauto. Qed.

  (** The merge path (taken as written, for any record). *)
  Definition general_path (r : rec) (attrs : list lkv) : rec :=
    let n := (length (r_front r) + length (r_back r))%nat in
    let '(r1, unique) := fold_left (merge_step lenlim) attrs (r, []) in
    if (0 <? limit)%Z && (limit <? Z.of_nat (n + length unique))%Z then
      let last := Z.to_nat (Z.max 0 (limit - Z.of_nat n)) in
      add_attrs lenlim (bump r1 (length unique - last) 0) (firstn last unique)
    else add_attrs lenlim r1 unique.

  Definition fast_path (r : rec) (attrs : list lkv) : rec :=
    let '(u, drop) := dedup attrs in
    let '(u', drop2) := head u limit in
    add_attrs lenlim {| r_front := r_front r; r_back := r_back r; r_flat := (drop + drop2)%nat; r_nested := 0 |} u'.

  Lemma add_attributes_unfold r attrs :
    add_attributes lenlim limit r attrs =
    if Nat.eqb (length (r_front r) + length (r_back r)) 0 then fast_path r attrs else general_path r attrs.
  Proof. reflexivity. Qed.

  Lemma general_path_sim r attrs st : RInv r st -> RInv (general_path r attrs) (fold_left offer attrs st).
  Proof.
    intros (I1 & I2 & I3 & I4 & I5 & I6). destruct st as [m d]. cbn [fst snd] in *.
    set (n0 := length (attrs_of r)).
    assert (Hn : (length (r_front r) + length (r_back r))%nat = n0) by (unfold n0, attrs_of; now rewrite app_length).
    assert (LI : loop_inv limit n0 r []).
    { split; [reflexivity|]. split; [intro H; unfold n0; rewrite I1; now apply I4|]. split; [discriminate | now rewrite I1]. }
    assert (A0 : abs lenlim limit n0 r [] = (m, d)).
    { unfold abs. cbn [length firstn map]. rewrite firstn_nil. cbn [map]. rewrite app_nil_r, I1, I2. f_equal.
      unfold keptn. destruct (0 <? limit)%Z; cbn; lia. }
    destruct (merge_loop_abs lenlim limit limit_nz n0 attrs r [] LI) as (M1 & M2 & M3 & M4). cbv zeta in *.
    unfold general_path. rewrite Hn.
    destruct (fold_left (merge_step lenlim) attrs (r, [])) as [r1 u1]. cbn [fst snd] in *.
    rewrite A0 in M1. destruct M2 as (L1 & L2 & L3 & L4).
    assert (S1 : shape r1).
    { unfold shape in *. rewrite M3. intro H. specialize (I3 H). rewrite I3 in M4. destruct (r_back r1); [reflexivity | discriminate]. }
    set (res := if (0 <? limit)%Z && (limit <? Z.of_nat (n0 + length u1))%Z
                then add_attrs lenlim (bump r1 (length u1 - Z.to_nat (Z.max 0 (limit - Z.of_nat n0))) 0)
                       (firstn (Z.to_nat (Z.max 0 (limit - Z.of_nat n0))) u1)
                else add_attrs lenlim r1 u1).
    assert (E : (attrs_of res, r_flat res) = abs lenlim limit n0 r1 u1 /\ shape res).
    { unfold res, abs, keptn.
      destruct ((0 <? limit)%Z && (limit <? Z.of_nat (n0 + length u1))%Z) eqn:C.
      - assert (B : (0 <? limit)%Z = true) by lia. rewrite B. specialize (L2 ltac:(lia)).
        replace (Z.to_nat (Z.max 0 (limit - Z.of_nat n0))) with (Z.to_nat limit - n0)%nat by lia.
        set (c := (Z.to_nat limit - n0)%nat).
        destruct (add_attrs_spec lenlim (bump r1 (length u1 - c) 0) (firstn c u1)) as (P1 & P2 & P3); [exact S1|].
        rewrite P1, P2. change (attrs_of (bump r1 (length u1 - c) 0)) with (attrs_of r1).
        change (r_flat (bump r1 (length u1 - c) 0)) with (r_flat r1 + (length u1 - c))%nat.
        rewrite Nat.min_r by lia. now split.
      - destruct (add_attrs_spec lenlim r1 u1 S1) as (P1 & P2 & P3). rewrite P1, P2. split; [|exact P3].
        destruct (Z.ltb_spec 0 limit) as [B|B].
        + specialize (L2 B). rewrite Nat.min_l by lia. rewrite firstn_all. f_equal. lia.
        + rewrite firstn_all. f_equal. lia. }
    destruct E as [E1 E2]. fold res. rewrite M1 in E1.
    unfold RInv. set (sp := fold_left offer attrs (m, d)) in *.
    assert (E1a : attrs_of res = fst sp) by (now rewrite <- E1).
    assert (E1b : r_flat res = snd sp) by (now rewrite <- E1).
    repeat split; try assumption.
    - intro H. apply fold_offer_len_le; [exact H|]. cbn [fst]. now apply I4.
    - intro H. destruct attrs as [|a attrs]; [cbn in *; now apply I5|].
      exfalso. apply (fold_offer_nonempty (a :: attrs) (m, d)); [discriminate | exact H].
    - apply fold_offer_nodup. exact I6.
  Qed.

  (** With nothing held the merge loop is dedup. *)
  Lemma merge_step_empty r u a : r_front r = [] -> r_back r = [] ->
    merge_step lenlim (r, u) a = (if has_key (fst a) u then bump r 1 0 else r, upsert u a).
  Proof.
    intros F B. unfold merge_step, upsert. destruct a as [k v]. cbn [fst snd].
    destruct (find_key k u) as [i|] eqn:E.
    - destruct (find_key_set k v u i E) as (H1 & H2 & _). now rewrite H1, H2.
    - apply find_key_none in E. rewrite E. destruct (apply_value_limits lenlim v) as [v' n].
      unfold overwrite. cbn [fst]. now rewrite F, B.
  Qed.

  Lemma merge_loop_empty attrs : forall r u d, r_front r = [] -> r_back r = [] ->
    let st := fold_left (merge_step lenlim) attrs (r, u) in
    let dd := fold_left dedup_step attrs (u, d) in
    snd st = fst dd /\ r_front (fst st) = [] /\ r_back (fst st) = [] /\
    (r_flat (fst st) + d = r_flat r + snd dd)%nat.
  Proof.
    induction attrs as [|a attrs IH]; intros r u d F B; cbn [fold_left]; cbv zeta.
    - cbn. repeat split; assumption || lia.
    - rewrite merge_step_empty by assumption. rewrite dedup_step_upsert.
      destruct (has_key (fst a) u).
      + destruct (IH (bump r 1 0) (upsert u a) (S d) F B) as (H1 & H2 & H3 & H4). cbv zeta in *.
        repeat split; try assumption. change (r_flat (bump r 1 0)) with (r_flat r + 1)%nat in H4. lia.
      + destruct (IH r (upsert u a) d F B) as (H1 & H2 & H3 & H4). cbv zeta in *. repeat split; assumption.
  Qed.

  Lemma fast_path_sim r attrs st : RInv r st -> (length (r_front r) + length (r_back r) = 0)%nat ->
    RInv (fast_path r attrs) (fold_left offer attrs st).
  Proof.
    intros I Z0. pose proof (general_path_sim r attrs st I) as G. revert G. apply RInv_ext.
    all: destruct I as (I1 & I2 & I3 & I4 & I5 & I6);
      assert (F : r_front r = []) by (destruct (r_front r); [reflexivity | cbn in Z0; lia]);
      assert (B : r_back r = []) by (destruct (r_back r); [reflexivity | cbn in Z0; lia]);
      assert (D0 : r_flat r = 0%nat) by (rewrite I2; apply I5; rewrite <- I1; unfold attrs_of; now rewrite F, B);
      destruct (merge_loop_empty attrs r [] 0%nat F B) as (H1 & H2 & H3 & H4); cbv zeta in *;
      unfold general_path, fast_path; rewrite Z0; fold (dedup attrs) in H1, H4;
      destruct (fold_left (merge_step lenlim) attrs (r, [])) as [r1 u1];
      destruct (dedup attrs) as [u drop]; cbn [fst snd] in *; subst u1; unfold head;
      change (Z.of_nat (0 + length u)) with (Z.of_nat (length u));
      destruct ((0 <? limit)%Z && (limit <? Z.of_nat (length u))%Z) eqn:C;
      replace (Z.to_nat (Z.max 0 (limit - Z.of_nat 0))) with (Z.to_nat limit) by lia;
      unfold add_attrs; destruct (limit_all lenlim _) as [la n];
      cbn [r_front r_back r_flat r_nested bump]; rewrite ?H2, ?H3, ?F, ?B; try reflexivity; lia.
  Qed.

  Lemma add_attributes_sim r attrs st : RInv r st ->
    RInv (add_attributes lenlim limit r attrs) (fold_left offer attrs st).
  Proof.
    intro I. rewrite add_attributes_unfold.
    destruct (Nat.eqb_spec (length (r_front r) + length (r_back r)) 0) as [Z0|Z0].
    - now apply fast_path_sim.
    - now apply general_path_sim.
  Qed.

  Lemma RInv_empty : RInv empty_rec ([], 0%nat).
  Proof. unfold RInv, shape. cbn. repeat split; auto; try lia. constructor. Qed.

  Lemma set_attributes_as_add attrs :
    set_attributes lenlim limit attrs = add_attributes lenlim limit empty_rec attrs.
  Proof.
    unfold set_attributes, add_attributes. cbn [empty_rec r_front r_back length Nat.add Nat.eqb].
    destruct (dedup attrs) as [u drop]. destruct (head u limit) as [u' drop2]. unfold add_attrs.
    cbn [r_front r_back r_flat r_nested length]. destruct (limit_all lenlim u') as [la n]. reflexivity.
  Qed.

  Lemma step_sim r st o : RInv r st -> RInv (step lenlim limit r o) (apply_op lenlim limit st o).
  Proof.
    intro I. destruct o as [attrs|attrs]; cbn [step apply_op].
    - rewrite set_attributes_as_add. apply add_attributes_sim. apply RInv_empty.
    - now apply add_attributes_sim.
  Qed.

  Lemma run_sim ops : forall r st, RInv r st ->
    RInv (fold_left (step lenlim limit) ops r) (fold_left (apply_op lenlim limit) ops st).
  Proof. induction ops as [|o ops IH]; intros r st I; cbn [fold_left]; [exact I|]. apply IH. now apply step_sim. Qed.

  (** Refinement: the attributes a record holds and the offers it counted as
      dropped are the specification's, for every call sequence. *)
  Theorem refines ops :
    (attrs_of (run_model lenlim limit ops), r_flat (run_model lenlim limit ops)) = run_spec lenlim limit ops.
  Proof.
    destruct (run_sim ops empty_rec ([], 0%nat) RInv_empty) as (H1 & H2 & _).
    unfold run_model, run_spec. rewrite H1, H2. now destruct (fold_left (apply_op lenlim limit) ops ([], 0%nat)).
  Qed.
End Refine.

(** * Count limit 0: the code treats it as unlimited (F-C17-2) *)

Lemma step_limit_zero lenlim r o : step lenlim 0 r o = step lenlim (-1) r o.
Proof. destruct o; reflexivity. Qed.

Lemma run_limit_zero lenlim ops : run_model lenlim 0 ops = run_model lenlim (-1) ops.
Proof.
  unfold run_model. generalize empty_rec. induction ops as [|o ops IH]; intro r; cbn [fold_left]; [reflexivity|].
  now rewrite step_limit_zero, IH.
Qed.

Lemma limit_zero_refuted :
  exists lenlim ops, o_attrs (observe (run_model lenlim 0 ops)) <> fst (run_spec lenlim 0 ops).
Proof. exists (-1)%Z, [OAdd [(str "a", LStr (str "1"))]]. vm_compute. discriminate. Qed.

(** * Duplicate keys inside map values are the only source of the extra drop count *)

Lemma memb_in k l : memb k l = true <-> In k l.
Proof.
  unfold memb. rewrite existsb_exists. split.
  - intros (x & H & E). apply bytes_eqb_eq in E. now subst.
  - intro H. exists k. split; [exact H | apply bytes_eqb_refl].
Qed.

Lemma memb_false k l : memb k l = false <-> ~ In k l.
Proof. rewrite <- memb_in. destruct (memb k l); split; congruence. Qed.

Lemma distinct_length_le l : forall seen, (length (distinct l seen) <= length l)%nat.
Proof.
  induction l as [|x l IH]; intro seen; cbn; [lia|].
  destruct (memb x seen); cbn; [specialize (IH seen) | specialize (IH (x :: seen))]; lia.
Qed.

Lemma distinct_full_nodup l : forall seen, length (distinct l seen) = length l ->
  NoDup l /\ forall x, In x l -> ~ In x seen.
Proof.
  induction l as [|x l IH]; intros seen H; cbn in *; [split; [constructor | tauto]|].
  destruct (memb x seen) eqn:M.
  - pose proof (distinct_length_le l seen). lia.
  - cbn in H. injection H as H. destruct (IH _ H) as [N D]. apply memb_false in M. split.
    + constructor; [|exact N]. intro I. apply (D x I). now left.
    + intros y [<-|I]; [exact M|]. intro S. apply (D y I). now right.
Qed.

Lemma list_sum_zero (l : list nat) : Forall (fun n => n = 0%nat) l -> list_sum l = 0%nat.
Proof. induction 1 as [|n l Hn _ IH]; cbn; [reflexivity | subst; exact IH]. Qed.

Lemma nested_zero lenlim v : nodup_deep v = true -> snd (apply_value_limits lenlim v) = 0%nat.
Proof.
  induction v as [s|l IH|kvs IH|k r] using lvalue_ind'; cbn [apply_value_limits nodup_deep snd]; intro H; try reflexivity.
  - apply list_sum_zero. rewrite Forall_forall in *. intros n Hn.
    rewrite map_map in Hn. apply in_map_iff in Hn as (x & <- & Hx). rewrite forallb_forall in H. now apply IH; [|apply H].
  - apply andb_true_iff in H as [H1 H2]. apply Nat.eqb_eq in H1. rewrite <- (map_length fst kvs) in H1. apply distinct_full_nodup in H1 as [N _].
    set (rs := map (fun kv => let '(k, x) := kv in (k, apply_value_limits lenlim x)) kvs).
    assert (K : keys rs = map fst kvs).
    { unfold keys, rs. rewrite map_map. apply map_ext. now intros [k x]. }
    rewrite (dedup_nodup_id rs) by (now rewrite K). cbn [snd]. cbn [Nat.add].
    apply list_sum_zero. rewrite Forall_forall in *. intros n Hn.
    apply in_map_iff in Hn as (e & <- & He). unfold rs in He. apply in_map_iff in He as ([k x] & <- & Hx). cbn [snd].
    rewrite forallb_forall in H2. apply (IH (k, x) Hx). now apply (H2 (k, x)).
Qed.

Definition flat_kv (a : lkv) : Prop := nodup_deep (snd a) = true.

Lemma limit_all_nested_zero lenlim l : Forall flat_kv l -> snd (limit_all lenlim l) = 0%nat.
Proof.
  intro F. unfold limit_all. cbn [snd]. apply list_sum_zero. rewrite Forall_forall in *. intros n Hn.
  apply in_map_iff in Hn as (a & <- & Ha). apply nested_zero. now apply F.
Qed.

Lemma add_attrs_nested lenlim r l : Forall flat_kv l -> r_nested (add_attrs lenlim r l) = r_nested r.
Proof.
  intro F. unfold add_attrs. pose proof (limit_all_nested_zero lenlim l F) as Z.
  destruct (limit_all lenlim l) as [la n]. cbn [snd] in Z. subst n. cbn [r_nested]. lia.
Qed.

Lemma Forall_set_nth {A} (P : bytes * A -> Prop) i a : forall l, P a -> Forall P l -> Forall P (set_nth i a l).
Proof.
  induction i as [|i IH]; intros [|x l] Pa F; cbn; try constructor; inversion F; subst; auto.
Qed.

Lemma Forall_upsert {A} (P : bytes * A -> Prop) u a : (forall k v, P (k, v) -> True) -> P a -> Forall P u -> Forall P (upsert u a).
Proof.
  intros _ Pa F. unfold upsert. destruct (has_key (fst a) u).
  - destruct a as [k v]. cbn [fst snd]. induction F as [|[k' v'] u Px Fu IH]; cbn; [constructor|].
    destruct (bytes_eqb k' k); constructor; auto.
  - apply Forall_app. split; [exact F | now constructor].
Qed.

Lemma fold_upsert_Forall {A} (P : bytes * A -> Prop) l : forall u, Forall P l -> Forall P u -> Forall P (fold_left upsert l u).
Proof.
  induction l as [|a l IH]; intros u Fl Fu; cbn; [exact Fu|]. inversion Fl; subst.
  apply IH; [assumption|]. apply Forall_upsert; auto.
Qed.

Lemma merge_loop_nested lenlim attrs : forall r u, Forall flat_kv attrs -> Forall flat_kv u ->
  let st := fold_left (merge_step lenlim) attrs (r, u) in
  r_nested (fst st) = r_nested r /\ Forall flat_kv (snd st).
Proof.
  induction attrs as [|a attrs IH]; intros r u Fa Fu; cbn [fold_left]; cbv zeta; [now split|].
  inversion Fa as [|? ? Pa Fa']; subst.
  assert (S : r_nested (fst (merge_step lenlim (r, u) a)) = r_nested r /\ Forall flat_kv (snd (merge_step lenlim (r, u) a))).
  { unfold merge_step. destruct a as [k v]. cbn [fst snd].
    destruct (find_key k u) as [i|]; cbn [fst snd].
    - split; [cbn; lia | now apply Forall_set_nth].
    - pose proof (nested_zero lenlim v Pa) as Z. destruct (apply_value_limits lenlim v) as [v' n]. cbn [snd] in Z. subst n.
      destruct (overwrite r (k, v')) as [r'|] eqn:O; cbn [fst snd].
      + destruct (overwrite_counters _ _ _ O) as [_ O6]. split; [cbn; lia | exact Fu].
      + split; [reflexivity|]. apply Forall_app. split; [exact Fu | now constructor]. }
  destruct S as [S1 S2]. destruct (merge_step lenlim (r, u) a) as [r1 u1]. cbn [fst snd] in *.
  destruct (IH r1 u1 Fa' S2) as [H1 H2]. cbv zeta in *. split; [congruence | exact H2].
Qed.

Lemma add_attributes_nested lenlim limit r attrs : Forall flat_kv attrs -> r_nested r = 0%nat ->
  r_nested (add_attributes lenlim limit r attrs) = 0%nat.
Proof.
  intros F Z. unfold add_attributes. destruct (Nat.eqb _ 0).
  - pose proof (fold_dedup_fst attrs [] 0%nat) as D. fold (dedup attrs) in D.
    assert (Fu : Forall flat_kv (fst (dedup attrs))) by (rewrite D; apply fold_upsert_Forall; [exact F | constructor]).
    destruct (dedup attrs) as [u drop]. cbn [fst] in Fu. unfold head.
    destruct ((0 <? limit)%Z && (limit <? Z.of_nat (length u))%Z).
    + rewrite add_attrs_nested; [reflexivity | now apply Forall_firstn_].
    + now rewrite add_attrs_nested.
  - destruct (merge_loop_nested lenlim attrs r [] F (Forall_nil _)) as [H1 H2]. cbv zeta in *.
    destruct (fold_left (merge_step lenlim) attrs (r, [])) as [r1 u1]. cbn [fst snd] in *.
    destruct ((0 <? limit)%Z && _).
    + rewrite add_attrs_nested; [cbn; lia | now apply Forall_firstn_].
    + rewrite add_attrs_nested; [lia | exact H2].
Qed.

Lemma flat_attrs_Forall attrs : flat_attrs attrs = true -> Forall flat_kv attrs.
Proof. unfold flat_attrs. rewrite forallb_forall, Forall_forall. auto. Qed.

Lemma run_nested_zero lenlim limit ops : flat_ops ops = true -> r_nested (run_model lenlim limit ops) = 0%nat.
Proof.
  unfold run_model. assert (Z : r_nested empty_rec = 0%nat) by reflexivity. revert Z. generalize empty_rec.
  induction ops as [|o ops IH]; intros r Z H; cbn [fold_left]; [exact Z|].
  cbn in H. apply andb_true_iff in H as [H1 H2]. apply IH; [|exact H2].
  destruct o as [attrs|attrs]; cbn [step].
  - rewrite set_attributes_as_add. apply add_attributes_nested; [now apply flat_attrs_Forall | reflexivity].
  - apply add_attributes_nested; [now apply flat_attrs_Forall | exact Z].
Qed.

(** * Laws of the specification *)

Section SpecLaws.
  Variables lenlim limit : Z.
  Notation offer := (offer lenlim limit).

  (** The map component of an offer depends on the map only. *)
  Definition ins (m : list lkv) (a : lkv) : list lkv :=
    if has_key (fst a) m then set_key (fst a) (norm lenlim (snd a)) m
    else if room limit (length m) then m ++ [(fst a, norm lenlim (snd a))] else m.

  Lemma offer_fst st a : fst (offer st a) = ins (fst st) a.
  Proof.
    destruct st as [m d]. unfold Spec.offer, ins. cbn [fst].
    destruct (has_key (fst a) m); [reflexivity|]. now destruct (room limit (length m)).
  Qed.

  Lemma fold_offer_fst l : forall st, fst (fold_left offer l st) = fold_left ins l (fst st).
  Proof. induction l as [|a l IH]; intro st; cbn [fold_left]; [reflexivity|]. now rewrite IH, offer_fst. Qed.

  (** Every offer is either held as a new key or counted. *)
  Lemma offer_count st a :
    (length (fst (offer st a)) + snd (offer st a) = length (fst st) + snd st + 1)%nat.
  Proof.
    destruct st as [m d]. unfold Spec.offer. cbn [fst snd].
    destruct (has_key (fst a) m); cbn [fst snd]; [rewrite length_set_key; lia|].
    destruct (room limit (length m)); cbn [fst snd]; [rewrite app_length; cbn; lia | lia].
  Qed.

  Lemma fold_offer_count l : forall st,
    (length (fst (fold_left offer l st)) + snd (fold_left offer l st) = length (fst st) + snd st + length l)%nat.
  Proof.
    induction l as [|a l IH]; intro st; cbn [fold_left length]; [lia|].
    rewrite IH. pose proof (offer_count st a). lia.
  Qed.

  Lemma ins_nodup m a : NoDup (keys m) -> NoDup (keys (ins m a)).
  Proof.
    unfold ins. intro H. destruct (has_key (fst a) m) eqn:E.
    - now rewrite keys_set_key.
    - destruct (room limit (length m)); [|exact H]. rewrite keys_app. cbn. apply has_key_false in E. now apply NoDup_snoc.
  Qed.

  Lemma fold_ins_nodup l : forall m, NoDup (keys m) -> NoDup (keys (fold_left ins l m)).
  Proof. induction l as [|a l IH]; intros m H; cbn [fold_left]; [exact H|]. apply IH. now apply ins_nodup. Qed.

  Lemma ins_len_le m a : (0 <= limit)%Z -> (Z.of_nat (length m) <= limit)%Z -> (Z.of_nat (length (ins m a)) <= limit)%Z.
  Proof.
    unfold ins. intros H0 H. destruct (has_key (fst a) m); [now rewrite length_set_key|].
    unfold room. destruct ((limit <? 0)%Z || (Z.of_nat (length m) <? limit)%Z) eqn:R; [|exact H].
    rewrite app_length. cbn. lia.
  Qed.

  Lemma fold_ins_len_le l : forall m, (0 <= limit)%Z -> (Z.of_nat (length m) <= limit)%Z ->
    (Z.of_nat (length (fold_left ins l m)) <= limit)%Z.
  Proof. induction l as [|a l IH]; intros m H0 H; cbn [fold_left]; [exact H|]. apply IH; [exact H0|]. now apply ins_len_le. Qed.

  (** run_spec is the fold over the attributes offered since the last SetAttributes. *)
  Lemma effective_snoc ops o :
    effective (ops ++ [o]) = match o with OSet a => a | OAdd a => effective ops ++ a end.
  Proof. unfold effective. now rewrite fold_left_app. Qed.

  Lemma run_spec_effective ops : run_spec lenlim limit ops = fold_left offer (effective ops) ([], 0%nat).
  Proof.
    induction ops as [|o ops IH] using rev_ind; [reflexivity|].
    unfold run_spec in *. rewrite fold_left_app. cbn [fold_left]. rewrite effective_snoc.
    destruct o as [a|a]; cbn [apply_op]; [reflexivity|]. now rewrite fold_left_app, IH.
  Qed.

  (** ** Deep length limit *)

  Lemma within_slice l : within lenlim (LSlice l) <-> Forall (within lenlim) l.
  Proof.
    induction l as [|x l IH]; cbn; [split; [constructor | trivial]|]. cbn in IH. rewrite IH. split.
    - intros [H1 H2]. now constructor.
    - intro H. inversion H; subst. now split.
  Qed.

  Lemma within_map kvs : within lenlim (LMap kvs) <-> Forall (fun kv => within lenlim (snd kv)) kvs.
  Proof.
    induction kvs as [|[k x] kvs IH]; cbn; [split; [constructor | trivial]|]. cbn in IH. rewrite IH. split.
    - intros [H1 H2]. now constructor.
    - intro H. inversion H; subst. now split.
  Qed.

  Lemma norm_within v : (0 <= lenlim)%Z -> within lenlim (norm lenlim v).
  Proof.
    intro H0. induction v as [s|l IH|kvs IH|k r] using lvalue_ind'; cbn [norm].
    - cbn. rewrite <- truncate_refines. now apply truncate_characterised.
    - apply within_slice. rewrite Forall_forall in *. intros x Hx. apply in_map_iff in Hx as (y & <- & Hy). now apply IH.
    - apply within_map. apply fold_upsert_Forall; [|constructor]. rewrite Forall_forall in *.
      intros e He. apply in_map_iff in He as ([k x] & <- & Hx). cbn [snd]. now apply (IH (k, x)).
    - exact I.
  Qed.

  Lemma Forall_set_key {A} (P : bytes * A -> Prop) k v : forall m, P (k, v) -> Forall P m -> Forall P (set_key k v m).
  Proof.
    induction m as [|[k' v'] m IH]; intros Pa F; cbn; [constructor|]. inversion F; subst.
    destruct (bytes_eqb k' k); constructor; auto.
  Qed.

  Lemma fold_ins_within l : (0 <= lenlim)%Z -> forall m,
    Forall (fun a => within lenlim (snd a)) m -> Forall (fun a => within lenlim (snd a)) (fold_left ins l m).
  Proof.
    intro H0. induction l as [|a l IH]; intros m F; cbn [fold_left]; [exact F|]. apply IH. unfold ins.
    destruct (has_key (fst a) m).
    - apply Forall_set_key; [cbn; now apply norm_within | exact F].
    - destruct (room limit (length m)); [|exact F]. apply Forall_app. split; [exact F|]. constructor; [|constructor].
      cbn. now apply norm_within.
  Qed.
End SpecLaws.

(** ** Closed form of the attribute map: earliest keys kept, last value wins *)

Lemma memb_app k a b : memb k (a ++ b) = memb k a || memb k b.
Proof. unfold memb. apply existsb_app. Qed.

Lemma bytes_eqb_sym a b : bytes_eqb a b = bytes_eqb b a.
Proof.
  destruct (bytes_eqb a b) eqn:E, (bytes_eqb b a) eqn:F; try reflexivity.
  - apply bytes_eqb_eq in E. subst. now rewrite bytes_eqb_refl in F.
  - apply bytes_eqb_eq in F. subst. now rewrite bytes_eqb_refl in E.
Qed.

Lemma distinct_in l : forall seen k, In k (distinct l seen) <-> In k l /\ ~ In k seen.
Proof.
  induction l as [|x l IH]; intros seen k; cbn; [tauto|].
  destruct (memb x seen) eqn:M.
  - rewrite IH. apply memb_in in M. split; [tauto|]. intros [[->|H] Hn]; tauto.
  - apply memb_false in M. cbn. rewrite IH. cbn. split.
    + intros [->|[H Hn]]; tauto.
    + intros [[->|H] Hn]; [tauto|]. destruct (list_eq_dec N.eq_dec x k) as [->|Hne]; [tauto|]. right. tauto.
Qed.

Lemma distinct_nodup l : forall seen, NoDup (distinct l seen).
Proof.
  induction l as [|x l IH]; intro seen; cbn; [constructor|].
  destruct (memb x seen); [apply IH|]. constructor; [|apply IH]. rewrite distinct_in. cbn. tauto.
Qed.

Lemma distinct_snoc l k : forall seen,
  distinct (l ++ [k]) seen = distinct l seen ++ (if memb k seen || memb k l then [] else [k]).
Proof.
  induction l as [|x l IH]; intro seen; cbn.
  - rewrite orb_false_r. now destruct (memb k seen).
  - destruct (memb x seen) eqn:M.
    + rewrite IH. f_equal. destruct (bytes_eqb k x) eqn:E; [|reflexivity].
      apply bytes_eqb_eq in E. subst. rewrite M. reflexivity.
    + cbn. rewrite IH. f_equal.
      replace (memb k (x :: seen) || memb k l) with (memb k seen || (bytes_eqb k x || memb k l)); [reflexivity|].
      unfold memb at 3. cbn [existsb]. fold (memb k seen).
      destruct (memb k seen), (bytes_eqb k x), (memb k l); reflexivity.
Qed.

Lemma memb_distinct k l : memb k (distinct l []) = memb k l.
Proof. apply Bool.eq_true_iff_eq. rewrite !memb_in, distinct_in. cbn. tauto. Qed.

Lemma has_key_kmap (h : bytes -> lvalue) ks k : has_key k (map (fun x => (x, h x)) ks) = memb k ks.
Proof.
  induction ks as [|x ks IH]; [reflexivity|]. cbn [map has_key]. rewrite IH. unfold memb. cbn [existsb].
  now rewrite bytes_eqb_sym.
Qed.

Lemma keys_kmap (h : bytes -> lvalue) ks : keys (map (fun x => (x, h x)) ks) = ks.
Proof. unfold keys. rewrite map_map. cbn. apply map_id. Qed.

Lemma set_key_kmap (h : bytes -> lvalue) k v ks : NoDup ks -> In k ks ->
  set_key k v (map (fun x => (x, h x)) ks) = map (fun x => (x, if bytes_eqb x k then v else h x)) ks.
Proof.
  induction ks as [|x ks IH]; intros N I; [destruct I|]. cbn [map set_key].
  inversion N as [|? ? Nx Nk]; subst.
  destruct (bytes_eqb x k) eqn:E.
  - apply bytes_eqb_eq in E. subst x. f_equal. apply map_ext_in. intros y Hy.
    destruct (bytes_eqb y k) eqn:F; [|reflexivity]. apply bytes_eqb_eq in F. subst. contradiction.
  - f_equal. apply IH; [exact Nk|]. destruct I as [->|I]; [|exact I]. now rewrite bytes_eqb_refl in E.
Qed.

Lemma NoDup_firstn {A} n : forall (l : list A), NoDup l -> NoDup (firstn n l).
Proof.
  induction n as [|n IH]; intros l H; [constructor|]. destruct H as [|x l Hx Hl]; cbn; constructor.
  - intro Hin. apply Hx. revert Hin. clear. revert l. induction n as [|n IH]; intros [|y l]; cbn; try tauto.
    intros [->|H]; [now left | right; now apply IH].
  - now apply IH.
Qed.

Lemma In_firstn {A} n : forall (l : list A) x, In x (firstn n l) -> In x l.
Proof. induction n as [|n IH]; intros [|y l] x; cbn; try tauto. intros [->|H]; [now left | right; now apply IH]. Qed.

Section Closed.
  Variables lenlim limit : Z.

  Definition Dk (os : list lkv) : list bytes := distinct (keys os) [].

  Lemma kept_Dk os : kept_keys limit os = if (limit <? 0)%Z then Dk os else firstn (Z.to_nat limit) (Dk os).
  Proof. reflexivity. Qed.

  Lemma kept_nodup os : NoDup (kept_keys limit os).
  Proof. rewrite kept_Dk. destruct (limit <? 0)%Z; [|apply NoDup_firstn]; apply distinct_nodup. Qed.

  Lemma Dk_snoc os a : Dk (os ++ [a]) = Dk os ++ (if memb (fst a) (Dk os) then [] else [fst a]).
  Proof.
    unfold Dk, keys. rewrite map_app. cbn [map]. rewrite distinct_snoc. cbn [memb existsb orb]. now rewrite memb_distinct.
  Qed.

  Lemma last_val_snoc k os a : last_val k (os ++ [a]) = if bytes_eqb (fst a) k then snd a else last_val k os.
  Proof. unfold last_val. rewrite fold_left_app. reflexivity. Qed.

  Lemma kept_cases os a :
    (memb (fst a) (kept_keys limit os) = true -> kept_keys limit (os ++ [a]) = kept_keys limit os) /\
    (memb (fst a) (kept_keys limit os) = false -> room limit (length (kept_keys limit os)) = true ->
       kept_keys limit (os ++ [a]) = kept_keys limit os ++ [fst a]) /\
    (memb (fst a) (kept_keys limit os) = false -> room limit (length (kept_keys limit os)) = false ->
       kept_keys limit (os ++ [a]) = kept_keys limit os).
  Proof.
    rewrite !kept_Dk, Dk_snoc. unfold room.
    destruct (Z.ltb_spec limit 0) as [L|L]; cbn [orb].
    - repeat split; intros; try discriminate.
      + rewrite H. apply app_nil_r.
      + now rewrite H.
    - set (n := Z.to_nat limit). repeat split.
      + intro M. apply memb_in in M. apply In_firstn in M. apply memb_in in M. rewrite M. now rewrite app_nil_r.
      + intros M R. rewrite firstn_length in R.
        assert (Hl : (length (Dk os) < n)%nat) by lia.
        rewrite (firstn_all2 (Dk os)) in * by lia. rewrite M.
        apply firstn_all2. rewrite app_length. cbn. lia.
      + intros M R. rewrite firstn_length in R.
        assert (Hl : (n <= length (Dk os))%nat) by lia.
        rewrite firstn_app. replace (n - length (Dk os))%nat with 0%nat by lia. cbn. apply app_nil_r.
  Qed.

  (** The held attributes in closed form, for every offer list. *)
  Theorem spec_map_closed os :
    fold_left (ins lenlim limit) os [] =
    map (fun k => (k, norm lenlim (last_val k os))) (kept_keys limit os).
  Proof.
    induction os as [|a os IH] using rev_ind.
    - unfold kept_keys. cbn. destruct (limit <? 0)%Z; [reflexivity | now rewrite firstn_nil].
    - rewrite fold_left_app, IH. cbn [fold_left].
      set (K := kept_keys limit os). set (K' := kept_keys limit (os ++ [a])).
      set (h := fun x => norm lenlim (last_val x os)).
      change (map (fun k => (k, norm lenlim (last_val k os))) K) with (map (fun x => (x, h x)) K).
      destruct (kept_cases os a) as (C1 & C2 & C3). fold K K' in C1, C2, C3.
      unfold ins. rewrite has_key_kmap, map_length.
      destruct (memb (fst a) K) eqn:M.
      + rewrite (C1 eq_refl). rewrite set_key_kmap; [|apply kept_nodup|now apply memb_in].
        apply map_ext. intro x. f_equal. rewrite last_val_snoc. unfold h.
        rewrite (bytes_eqb_sym (fst a) x). now destruct (bytes_eqb x (fst a)).
      + destruct (room limit (length K)) eqn:R.
        * rewrite (C2 eq_refl eq_refl). rewrite map_app. cbn [map]. f_equal.
          -- apply map_ext_in. intros x Hx. f_equal. rewrite last_val_snoc.
             destruct (bytes_eqb (fst a) x) eqn:F; [|reflexivity].
             apply bytes_eqb_eq in F. subst x. apply memb_in in Hx. congruence.
          -- now rewrite last_val_snoc, bytes_eqb_refl.
        * rewrite (C3 eq_refl eq_refl). apply map_ext_in. intros x Hx. f_equal. rewrite last_val_snoc.
          destruct (bytes_eqb (fst a) x) eqn:F; [|reflexivity].
          apply bytes_eqb_eq in F. subst x. apply memb_in in Hx. congruence.
  Qed.
End Closed.

Lemma lookup_kmap (h : bytes -> lvalue) ks k : In k ks -> lookup k (map (fun x => (x, h x)) ks) = Some (h k).
Proof.
  induction ks as [|x ks IH]; intro I; [destruct I|]. cbn [map lookup].
  destruct (bytes_eqb x k) eqn:E.
  - apply bytes_eqb_eq in E. now subst.
  - apply IH. destruct I as [->|I]; [now rewrite bytes_eqb_refl in E | exact I].
Qed.

(** * Clone and aliasing *)

Lemma update_length {A} (l : list A) : forall i x, length (update l i x) = length l.
Proof. induction l as [|y l IH]; intros [|i] x; cbn; try reflexivity. now rewrite IH. Qed.

Lemma nth_update_same {A} (l : list A) d : forall i x, (i < length l)%nat -> nth i (update l i x) d = x.
Proof. induction l as [|y l IH]; intros [|i] x H; cbn in *; try lia; [reflexivity|]. apply IH. lia. Qed.

Lemma nth_update_other {A} (l : list A) d : forall i j x, i <> j -> nth j (update l i x) d = nth j l d.
Proof.
  induction l as [|y l IH]; intros [|i] [|j] x H; cbn; try reflexivity; try congruence. apply IH. congruence.
Qed.

Lemma rec_eta r : {| r_front := r_front r; r_back := r_back r; r_flat := r_flat r; r_nested := r_nested r |} = r.
Proof. now destruct r. Qed.

Lemma hstep_self lenlim limit hp h o : (h_back h < length hp)%nat ->
  to_rec (fst (hstep lenlim limit hp h o)) (snd (hstep lenlim limit hp h o)) = step lenlim limit (to_rec hp h) o /\
  h_back (snd (hstep lenlim limit hp h o)) = h_back h /\
  length (fst (hstep lenlim limit hp h o)) = length hp.
Proof.
  intro H. unfold hstep. cbn [fst snd]. repeat split.
  - unfold to_rec at 1. cbn [h_front h_back h_flat h_nested]. rewrite nth_update_same by exact H. apply rec_eta.
  - apply update_length.
Qed.

Lemma hstep_other lenlim limit hp h o h' : h_back h' <> h_back h ->
  to_rec (fst (hstep lenlim limit hp h o)) h' = to_rec hp h'.
Proof. intro H. unfold hstep, to_rec. cbn [fst]. rewrite nth_update_other by congruence. reflexivity. Qed.

(** Two records at different addresses evolve independently under any schedule. *)
Lemma hrun_independent lenlim limit sched : forall hp ho hc,
  h_back ho <> h_back hc -> (h_back ho < length hp)%nat -> (h_back hc < length hp)%nat ->
  let '(hp', ho', hc') := hrun lenlim limit hp ho hc sched in
  to_rec hp' ho' = fold_left (step lenlim limit) (ops_of false sched) (to_rec hp ho) /\
  to_rec hp' hc' = fold_left (step lenlim limit) (ops_of true sched) (to_rec hp hc).
Proof.
  induction sched as [|[[|] o] s IH]; intros hp ho hc Hne Ho Hc; cbn [hrun ops_of filter map fst snd Bool.eqb fold_left].
  - split; reflexivity.
  - destruct (hstep_self lenlim limit hp hc o Hc) as (S1 & S2 & S3).
    pose proof (hstep_other lenlim limit hp hc o ho Hne) as S4.
    destruct (hstep lenlim limit hp hc o) as [hp' hc']. cbn [fst snd] in *.
    specialize (IH hp' ho hc'). rewrite S2, S3 in IH. specialize (IH Hne Ho Hc).
    destruct (hrun lenlim limit hp' ho hc' s) as [[hp'' ho''] hc'']. now rewrite S1, S4 in IH.
  - destruct (hstep_self lenlim limit hp ho o Ho) as (S1 & S2 & S3).
    pose proof (hstep_other lenlim limit hp ho o hc (not_eq_sym Hne)) as S4.
    destruct (hstep lenlim limit hp ho o) as [hp' ho']. cbn [fst snd] in *.
    specialize (IH hp' ho' hc). rewrite S2, S3 in IH. specialize (IH Hne Ho Hc).
    destruct (hrun lenlim limit hp' ho' hc s) as [[hp'' ho''] hc'']. now rewrite S1, S4 in IH.
Qed.

(** Clone() yields a record equal to the original that no later call on either can disturb. *)
Theorem clone_independent lenlim limit r sched :
  let '(hp0, ho) := on_heap r in
  let '(hp1, hc) := hclone hp0 ho in
  let '(hp', ho', hc') := hrun lenlim limit hp1 ho hc sched in
  to_rec hp1 hc = r /\
  to_rec hp' ho' = fold_left (step lenlim limit) (ops_of false sched) r /\
  to_rec hp' hc' = fold_left (step lenlim limit) (ops_of true sched) r.
Proof.
  unfold on_heap, hclone. cbn [h_back h_front h_flat h_nested length app nth].
  set (ho := {| h_front := r_front r; h_back := 0; h_flat := r_flat r; h_nested := r_nested r |}).
  set (hc := {| h_front := r_front r; h_back := 1; h_flat := r_flat r; h_nested := r_nested r |}).
  pose proof (hrun_independent lenlim limit sched [r_back r; r_back r] ho hc) as H.
  assert (Eo : to_rec [r_back r; r_back r] ho = r) by (unfold to_rec, ho; cbn; apply rec_eta).
  assert (Ec : to_rec [r_back r; r_back r] hc = r) by (unfold to_rec, hc; cbn; apply rec_eta).
  specialize (H ltac:(cbn; lia) ltac:(cbn; lia) ltac:(cbn; lia)).
  destruct (hrun lenlim limit [r_back r; r_back r] ho hc sched) as [[hp' ho'] hc'].
  rewrite Eo, Ec in H. split; [exact Ec | exact H].
Qed.

(** Without cloning the overflow slice the copy is disturbed (what mutation N5 does). *)
Lemma shallow_clone_refuted :
  exists lenlim limit r o,
    let '(hp0, ho) := on_heap r in
    let '(hp1, hc) := hclone_shallow hp0 ho in
    let '(hp', _, hc') := hrun lenlim limit hp1 ho hc [(false, o)] in
    observe (to_rec hp' hc') <> observe r.
Proof.
  exists (-1)%Z, (-1)%Z,
    (run_model (-1) (-1) [OSet [(str "a", LStr (str "1")); (str "b", LStr (str "2")); (str "c", LStr (str "3"));
                                (str "d", LStr (str "4")); (str "e", LStr (str "5")); (str "f", LStr (str "6"))]]),
    (OAdd [(str "f", LStr (str "X"))]).
  vm_compute. discriminate.
Qed.

(** At every step of every schedule the two records show what two
    independent values would show. *)
Lemma htrace_independent lenlim limit sched : forall hp ho hc,
  h_back ho <> h_back hc -> (h_back ho < length hp)%nat -> (h_back hc < length hp)%nat ->
  htrace lenlim limit hp ho hc sched = ptrace lenlim limit (to_rec hp ho) (to_rec hp hc) sched.
Proof.
  induction sched as [|[[|] o] s IH]; intros hp ho hc Hne Ho Hc; cbn [htrace ptrace]; [reflexivity| |].
  - destruct (hstep_self lenlim limit hp hc o Hc) as (S1 & S2 & S3).
    pose proof (hstep_other lenlim limit hp hc o ho Hne) as S4.
    destruct (hstep lenlim limit hp hc o) as [hp' hc']. cbn [fst snd] in *.
    rewrite S1, S4. f_equal. rewrite IH; [now rewrite S1, S4 | congruence | lia | lia].
  - destruct (hstep_self lenlim limit hp ho o Ho) as (S1 & S2 & S3).
    pose proof (hstep_other lenlim limit hp ho o hc (not_eq_sym Hne)) as S4.
    destruct (hstep lenlim limit hp ho o) as [hp' ho']. cbn [fst snd] in *.
    rewrite S1, S4. f_equal. rewrite IH; [now rewrite S1, S4 | congruence | lia | lia].
Qed.

Theorem clone_trace_independent lenlim limit r sched :
  clone_trace lenlim limit r sched = ptrace lenlim limit r r sched.
Proof.
  unfold clone_trace, on_heap, hclone. cbn [h_back h_front h_flat h_nested length app nth].
  rewrite htrace_independent; cbn [h_back length]; try lia.
  unfold to_rec. cbn [h_front h_back h_flat h_nested nth]. now rewrite !rec_eta.
Qed.

(** * The count limit as the code understands it: refinement for ALL limits *)

(** 0 means "unlimited" to the code (documented otherwise: F-C17-2). *)
Definition code_limit (limit : Z) : Z := if (limit =? 0)%Z then (-1)%Z else limit.

Theorem refines_all lenlim limit ops :
  (attrs_of (run_model lenlim limit ops), r_flat (run_model lenlim limit ops)) = run_spec lenlim (code_limit limit) ops.
Proof.
  unfold code_limit. destruct (Z.eqb_spec limit 0) as [->|H].
  - rewrite run_limit_zero. now apply refines.
  - now apply refines.
Qed.

(** * Emit: logger.newRecord adds the emitted attributes one by one *)

Lemma new_record_as_ops lenlim limit init :
  new_record lenlim limit init = run_model lenlim limit (map (fun a => OAdd [a]) init).
Proof.
  unfold new_record, run_model. generalize empty_rec.
  induction init as [|a init IH]; intro r; cbn [map fold_left]; [reflexivity|]. apply IH.
Qed.

Lemma run_emit_as_ops lenlim limit init ops :
  run_emit lenlim limit init ops = run_model lenlim limit (map (fun a => OAdd [a]) init ++ ops).
Proof. unfold run_emit. rewrite new_record_as_ops. unfold run_model. now rewrite fold_left_app. Qed.

Lemma run_spec_emit_as_ops lenlim limit init ops :
  run_spec_emit lenlim limit init ops = run_spec lenlim limit (map (fun a => OAdd [a]) init ++ ops).
Proof.
  unfold run_spec_emit, run_spec. rewrite fold_left_app. f_equal.
  generalize (@nil lkv, 0%nat). induction init as [|a init IH]; intro st; cbn [map fold_left]; [reflexivity|].
  rewrite <- IH. reflexivity.
Qed.

Theorem emit_refines lenlim limit init ops :
  let r := run_emit lenlim limit init ops in
  (attrs_of r, r_flat r) = run_spec_emit lenlim (code_limit limit) init ops /\
  (flat_attrs init = true -> flat_ops ops = true -> r_nested r = 0%nat).
Proof.
  intro r. unfold r. rewrite run_emit_as_ops, run_spec_emit_as_ops. split; [apply refines_all|].
  intros F1 F2. apply run_nested_zero. unfold flat_ops in *. rewrite forallb_app, F2, andb_true_r.
  unfold flat_attrs in F1. rewrite forallb_forall in *. intros o Ho. apply in_map_iff in Ho as (a & <- & Ha).
  unfold flat_attrs. cbn. now rewrite (F1 a Ha).
Qed.
