(** C17 specification: what a log record must hold after any sequence of
    SetAttributes / AddAttributes calls under a count limit and a value-length
    limit, written from the property text: an ordered map with last value
    wins, earliest keys kept, every offer either held as a new key or counted
    as dropped, every string at any depth cut to the first [lenlim] valid
    characters.  Nothing here refers to the model of record.go. *)
From Verif Require Import Lib.Base Lib.Utf8.
Open Scope N_scope.

(** ** Vocabulary *)

(** log.Value: strings, slices and maps are inspected by the SDK; the other
    kinds (bool, int64, float64, bytes, empty) are carried opaquely. *)
Inductive lvalue :=
| LStr (s : bytes)
| LSlice (l : list lvalue)
| LMap (kvs : list (bytes * lvalue))
| LOther (kind : N) (repr : bytes).

Notation lkv := (bytes * lvalue)%type.

Inductive op :=
| OSet (attrs : list lkv)     (* Record.SetAttributes *)
| OAdd (attrs : list lkv).    (* Record.AddAttributes *)

(** What WalkAttributes / DroppedAttributes return. *)
Record obs := { o_attrs : list lkv; o_dropped : nat }.

(** ** Ordered map: replace the value of a held key (position kept) or append *)
Section Map.
  Context {A : Type}.
  Fixpoint has_key (k : bytes) (m : list (bytes * A)) : bool :=
    match m with
    | [] => false
    | (k', _) :: r => bytes_eqb k' k || has_key k r
    end.
  Fixpoint set_key (k : bytes) (v : A) (m : list (bytes * A)) : list (bytes * A) :=
    match m with
    | [] => []
    | (k', v') :: r => if bytes_eqb k' k then (k, v) :: r else (k', v') :: set_key k v r
    end.
  Definition upsert (m : list (bytes * A)) (a : bytes * A) : list (bytes * A) :=
    if has_key (fst a) m then set_key (fst a) (snd a) m else m ++ [a].
  Fixpoint lookup (k : bytes) (m : list (bytes * A)) : option A :=
    match m with
    | [] => None
    | (k', v) :: r => if bytes_eqb k' k then Some v else lookup k r
    end.
  Definition keys (m : list (bytes * A)) : list bytes := map fst m.
End Map.

(** ** Deep normalisation of a value: strings cut to [lenlim] characters, map
    values hold each key once (first position, last value). *)
Fixpoint norm (lenlim : Z) (v : lvalue) : lvalue :=
  match v with
  | LStr s => LStr (truncate_spec lenlim s)
  | LSlice l => LSlice (map (norm lenlim) l)
  | LMap kvs => LMap (fold_left upsert (map (fun kv => let '(k, x) := kv in (k, norm lenlim x)) kvs) [])
  | LOther k r => LOther k r
  end.

(** ** Bounded insertion *)

(** The documented meaning of the count limit: negative = unlimited, otherwise
    at most [limit] attributes (0 = none). *)
Definition room (limit : Z) (n : nat) : bool := (limit <? 0)%Z || (Z.of_nat n <? limit)%Z.

(** One attribute offered: an offer that does not create a new key is counted
    as dropped (also when it replaces the value of a held key). *)
Definition offer (lenlim limit : Z) (st : list lkv * nat) (a : lkv) : list lkv * nat :=
  let '(m, d) := st in
  if has_key (fst a) m then (set_key (fst a) (norm lenlim (snd a)) m, S d)
  else if room limit (length m) then (m ++ [(fst a, norm lenlim (snd a))], d)
  else (m, S d).

Definition apply_op (lenlim limit : Z) (st : list lkv * nat) (o : op) : list lkv * nat :=
  match o with
  | OSet attrs => fold_left (offer lenlim limit) attrs ([], 0%nat)
  | OAdd attrs => fold_left (offer lenlim limit) attrs st
  end.

Definition run_spec (lenlim limit : Z) (ops : list op) : list lkv * nat :=
  fold_left (apply_op lenlim limit) ops ([], 0%nat).

(** Emitting a record with attributes offers them one by one; the processors' calls follow. *)
Definition run_spec_emit (lenlim limit : Z) (init : list lkv) (ops : list op) : list lkv * nat :=
  fold_left (apply_op lenlim limit) ops (fold_left (offer lenlim limit) init ([], 0%nat)).

(** The attributes offered since the record was last reset by SetAttributes. *)
Definition effective (ops : list op) : list lkv :=
  fold_left (fun acc o => match o with OSet a => a | OAdd a => acc ++ a end) ops [].

(** ** Readings used by the laws *)

Definition memb (k : bytes) (l : list bytes) : bool := existsb (bytes_eqb k) l.

Fixpoint distinct (l : list bytes) (seen : list bytes) : list bytes :=
  match l with
  | [] => []
  | k :: r => if memb k seen then distinct r seen else k :: distinct r (k :: seen)
  end.

Definition kept_keys (limit : Z) (offers : list lkv) : list bytes :=
  let d := distinct (keys offers) [] in
  if (limit <? 0)%Z then d else firstn (Z.to_nat limit) d.

Definition last_val (k : bytes) (offers : list lkv) : lvalue :=
  fold_left (fun acc a => if bytes_eqb (fst a) k then snd a else acc) offers (LOther 0 []).

(** Every string anywhere inside the value has at most [lenlim] characters. *)
Fixpoint within (lenlim : Z) (v : lvalue) : Prop :=
  match v with
  | LStr s => (rune_count s <= Z.to_nat lenlim)%nat
  | LSlice l => (fix all (l : list lvalue) : Prop := match l with [] => True | x :: r => within lenlim x /\ all r end) l
  | LMap kvs => (fix all (l : list (bytes * lvalue)) : Prop :=
                   match l with [] => True | (_, x) :: r => within lenlim x /\ all r end) kvs
  | LOther _ _ => True
  end.

(** Map values at every depth hold distinct keys (no attribute hidden inside a
    value is dropped by normalisation). *)
Fixpoint nodup_deep (v : lvalue) : bool :=
  match v with
  | LStr _ => true
  | LSlice l => forallb nodup_deep l
  | LMap kvs =>
      Nat.eqb (length (distinct (map fst kvs) [])) (length kvs) &&
      forallb (fun kv => let '(_, x) := kv in nodup_deep x) kvs
  | LOther _ _ => true
  end.

Definition flat_attrs (attrs : list lkv) : bool := forallb (fun a => nodup_deep (snd a)) attrs.
Definition flat_ops (ops : list op) : bool :=
  forallb (fun o => match o with OSet a => flat_attrs a | OAdd a => flat_attrs a end) ops.
