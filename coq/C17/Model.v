(** C17 model: the algorithm of sdk/log/record.go as written: inline array
    [front] (5 slots) + overflow slice [back], the fresh-record fast path of
    AddAttributes vs the index-based merge path (overwrite of held keys in
    place, de-duplication of the new ones, cut at the count limit), dedup,
    head, addAttrs, SetAttributes, applyValueLimits recursive over nested
    values, truncate (Lib/Utf8.v).  Executable definitions only.

    The single [dropped] counter of the code is kept as two summands: [r_flat]
    (offers that did not create a key: duplicates, overwrites, cut by the
    limit) and [r_nested] (duplicate keys removed inside map values by
    applyValueLimits); DroppedAttributes() is their sum. *)
From Verif Require Import Lib.Base Lib.Utf8 C17.Spec.
Open Scope N_scope.

Section Dedup.
  Context {A : Type}.

  (** The index maps (getIndex): position of the entry with that key. *)
  Fixpoint find_key (k : bytes) (l : list (bytes * A)) : option nat :=
    match l with
    | [] => None
    | (k', _) :: r => if bytes_eqb k' k then Some 0%nat
                      else match find_key k r with Some i => Some (S i) | None => None end
    end.

  (** A Go map filled by assigning index[key] = position while walking the slice front to back:
      a later entry with the same key overwrites the earlier one, so the lookup yields the LAST position. *)
  Fixpoint find_last (k : bytes) (l : list (bytes * A)) : option nat :=
    match l with
    | [] => None
    | (k', _) :: r =>
        match find_last k r with
        | Some i => Some (S i)
        | None => if bytes_eqb k' k then Some 0%nat else None
        end
    end.

  Fixpoint set_nth (i : nat) (a : bytes * A) (l : list (bytes * A)) : list (bytes * A) :=
    match l, i with
    | [], _ => []
    | _ :: r, O => a :: r
    | x :: r, S j => x :: set_nth j a r
    end.

  (** dedup(kvs): front-to-back, last value saved at the first position; number removed. *)
  Definition dedup_step (st : list (bytes * A) * nat) (a : bytes * A) : list (bytes * A) * nat :=
    let '(u, d) := st in
    match find_key (fst a) u with
    | Some idx => (set_nth idx a u, S d)
    | None => (u ++ [a], d)
    end.
  Definition dedup (kvs : list (bytes * A)) : list (bytes * A) * nat := fold_left dedup_step kvs ([], 0%nat).
End Dedup.

(** head(kvs, n) *)
Definition head {A} (kvs : list A) (n : Z) : list A * nat :=
  if (0 <? n)%Z && (n <? Z.of_nat (length kvs))%Z
  then (firstn (Z.to_nat n) kvs, (length kvs - Z.to_nat n)%nat)
  else (kvs, 0%nat).

(** applyValueLimits: the limited value and the number of duplicate map keys
    it removed (what it passes to addDropped).  The code de-duplicates a map
    first and then limits the surviving entries only; here every entry is
    limited and only the survivors' results are used, which is the same
    function. *)
Fixpoint apply_value_limits (lenlim : Z) (v : lvalue) : lvalue * nat :=
  match v with
  | LStr s => (if (lenlim <? Z.of_nat (length s))%Z then LStr (truncate lenlim s) else LStr s, 0%nat)
  | LSlice l =>
      let rs := map (apply_value_limits lenlim) l in
      (LSlice (map fst rs), list_sum (map snd rs))
  | LMap kvs =>
      let rs := map (fun kv => let '(k, x) := kv in (k, apply_value_limits lenlim x)) kvs in
      let '(u, dropped) := dedup rs in
      (LMap (map (fun e => (fst e, fst (snd e))) u), (dropped + list_sum (map (fun e => snd (snd e)) u))%nat)
  | LOther k r => (LOther k r, 0%nat)
  end.

Record rec := {
  r_front : list lkv;   (* front[:nFront], at most 5 *)
  r_back : list lkv;
  r_flat : nat;
  r_nested : nat
}.

Definition empty_rec : rec := {| r_front := []; r_back := []; r_flat := 0; r_nested := 0 |}.

Definition inline_count : nat := 5.

(** applyAttrLimits over a list: limited attributes and nested duplicates removed. *)
Definition limit_all (lenlim : Z) (attrs : list lkv) : list lkv * nat :=
  (map (fun a => (fst a, fst (apply_value_limits lenlim (snd a)))) attrs,
   list_sum (map (fun a => snd (apply_value_limits lenlim (snd a))) attrs)).

(** addAttrs: fill the inline array, the rest goes to the overflow slice. *)
Definition add_attrs (lenlim : Z) (r : rec) (attrs : list lkv) : rec :=
  let room := (inline_count - length (r_front r))%nat in
  let '(la, n) := limit_all lenlim attrs in
  {| r_front := r_front r ++ firstn room la; r_back := r_back r ++ skipn room la;
     r_flat := r_flat r; r_nested := (r_nested r + n)%nat |}.

(** attrIndex() followed by the in-place write.  The index map is filled from the inline array first
    (negative codes) and then from the overflow slice (non-negative codes), each assignment replacing an
    earlier one for the same key: the lookup finds the last position in the overflow slice if the key
    occurs there, otherwise the last position in the inline array. *)
Definition overwrite (r : rec) (a : lkv) : option rec :=
  match find_last (fst a) (r_back r) with
  | Some i => Some {| r_front := r_front r; r_back := set_nth i a (r_back r); r_flat := r_flat r; r_nested := r_nested r |}
  | None =>
      match find_last (fst a) (r_front r) with
      | Some i => Some {| r_front := set_nth i a (r_front r); r_back := r_back r; r_flat := r_flat r; r_nested := r_nested r |}
      | None => None
      end
  end.

Definition bump (r : rec) (flat nested : nat) : rec :=
  {| r_front := r_front r; r_back := r_back r; r_flat := (r_flat r + flat)%nat; r_nested := (r_nested r + nested)%nat |}.

(** Loop body of the merge path of AddAttributes. *)
Definition merge_step (lenlim : Z) (st : rec * list lkv) (a : lkv) : rec * list lkv :=
  let '(r, unique) := st in
  match find_key (fst a) unique with
  | Some idx => (bump r 1 0, set_nth idx a unique)
  | None =>
      let '(v, n) := apply_value_limits lenlim (snd a) in
      match overwrite r (fst a, v) with
      | Some r' => (bump r' 1 n, unique)
      | None => (r, unique ++ [a])
      end
  end.

Definition add_attributes (lenlim limit : Z) (r : rec) (attrs : list lkv) : rec :=
  let n := (length (r_front r) + length (r_back r))%nat in
  if Nat.eqb n 0 then
    let '(u, drop) := dedup attrs in
    let '(u', drop2) := head u limit in
    add_attrs lenlim {| r_front := r_front r; r_back := r_back r; r_flat := (drop + drop2)%nat; r_nested := 0 |} u'
  else
    let '(r1, unique) := fold_left (merge_step lenlim) attrs (r, []) in
    if (0 <? limit)%Z && (limit <? Z.of_nat (n + length unique))%Z then
      let last := Z.to_nat (Z.max 0 (limit - Z.of_nat n)) in
      add_attrs lenlim (bump r1 (length unique - last) 0) (firstn last unique)
    else add_attrs lenlim r1 unique.

Definition set_attributes (lenlim limit : Z) (attrs : list lkv) : rec :=
  let '(u, drop) := dedup attrs in
  let '(u', drop2) := head u limit in
  let '(la, n) := limit_all lenlim u' in
  {| r_front := firstn inline_count la; r_back := skipn inline_count la; r_flat := (drop + drop2)%nat; r_nested := n |}.

Definition step (lenlim limit : Z) (r : rec) (o : op) : rec :=
  match o with
  | OSet attrs => set_attributes lenlim limit attrs
  | OAdd attrs => add_attributes lenlim limit r attrs
  end.

Definition run_model (lenlim limit : Z) (ops : list op) : rec := fold_left (step lenlim limit) ops empty_rec.

(** logger.newRecord: a fresh record carrying the provider's limits; the attributes of the emitted
    API record are added one by one (WalkAttributes + AddAttributes(kv)). *)
Definition new_record (lenlim limit : Z) (init : list lkv) : rec :=
  fold_left (fun r a => add_attributes lenlim limit r [a]) init empty_rec.

(** Emit, then the processors' edits. *)
Definition run_emit (lenlim limit : Z) (init : list lkv) (ops : list op) : rec :=
  fold_left (step lenlim limit) ops (new_record lenlim limit init).

Definition attrs_of (r : rec) : list lkv := r_front r ++ r_back r.

(** WalkAttributes / DroppedAttributes. *)
Definition observe (r : rec) : obs := {| o_attrs := attrs_of r; o_dropped := (r_flat r + r_nested r)%nat |}.

(** Clone(): a copy (the overflow slice is cloned, the inline array is copied by value). *)
Definition clone (r : rec) : rec := r.

(** ** Aliasing model for Clone

    The inline array lives in the Record value; the overflow slice points into
    a heap of arrays.  Every change a call makes to the overflow slice is
    written through at the record's address (the worst case for sharing: any
    alias sees it).  [hclone] is Clone() as written (slices.Clone: a new
    array); [hclone_shallow] is the struct copy alone. *)
Definition heap := list (list lkv).

Fixpoint update {A} (l : list A) (i : nat) (x : A) : list A :=
  match l, i with
  | [], _ => []
  | _ :: r, O => x :: r
  | y :: r, S j => y :: update r j x
  end.

Record hrec := { h_front : list lkv; h_back : nat; h_flat : nat; h_nested : nat }.

Definition to_rec (hp : heap) (h : hrec) : rec :=
  {| r_front := h_front h; r_back := nth (h_back h) hp []; r_flat := h_flat h; r_nested := h_nested h |}.

Definition hstep (lenlim limit : Z) (hp : heap) (h : hrec) (o : op) : heap * hrec :=
  let r' := step lenlim limit (to_rec hp h) o in
  (update hp (h_back h) (r_back r'),
   {| h_front := r_front r'; h_back := h_back h; h_flat := r_flat r'; h_nested := r_nested r' |}).

Definition hclone (hp : heap) (h : hrec) : heap * hrec :=
  (hp ++ [nth (h_back h) hp []],
   {| h_front := h_front h; h_back := length hp; h_flat := h_flat h; h_nested := h_nested h |}).

Definition hclone_shallow (hp : heap) (h : hrec) : heap * hrec := (hp, h).

(** A schedule of calls on the original ([false]) and on the clone ([true]). *)
Fixpoint hrun (lenlim limit : Z) (hp : heap) (ho hc : hrec) (sched : list (bool * op)) : heap * hrec * hrec :=
  match sched with
  | [] => (hp, ho, hc)
  | (false, o) :: s => let '(hp', ho') := hstep lenlim limit hp ho o in hrun lenlim limit hp' ho' hc s
  | (true, o) :: s => let '(hp', hc') := hstep lenlim limit hp hc o in hrun lenlim limit hp' ho hc' s
  end.

Definition ops_of (who : bool) (sched : list (bool * op)) : list op :=
  map snd (filter (fun e => Bool.eqb (fst e) who) sched).

(** A record placed in a one-array heap. *)
Definition on_heap (r : rec) : heap * hrec :=
  ([r_back r], {| h_front := r_front r; h_back := 0; h_flat := r_flat r; h_nested := r_nested r |}).

(** What both records show after every step of a schedule (aliasing model). *)
Fixpoint htrace (lenlim limit : Z) (hp : heap) (ho hc : hrec) (sched : list (bool * op)) : list (obs * obs) :=
  match sched with
  | [] => []
  | (false, o) :: s =>
      let '(hp', ho') := hstep lenlim limit hp ho o in
      (observe (to_rec hp' ho'), observe (to_rec hp' hc)) :: htrace lenlim limit hp' ho' hc s
  | (true, o) :: s =>
      let '(hp', hc') := hstep lenlim limit hp hc o in
      (observe (to_rec hp' ho), observe (to_rec hp' hc')) :: htrace lenlim limit hp' ho hc' s
  end.

(** The same for two records that are plain values (no sharing possible). *)
Fixpoint ptrace (lenlim limit : Z) (ro rc : rec) (sched : list (bool * op)) : list (obs * obs) :=
  match sched with
  | [] => []
  | (false, o) :: s => let ro' := step lenlim limit ro o in (observe ro', observe rc) :: ptrace lenlim limit ro' rc s
  | (true, o) :: s => let rc' := step lenlim limit rc o in (observe ro, observe rc') :: ptrace lenlim limit ro rc' s
  end.

(** Clone the record [r] (placed on a fresh heap) and trace a schedule. *)
Definition clone_trace (lenlim limit : Z) (r : rec) (sched : list (bool * op)) : list (obs * obs) :=
  let '(hp0, ho) := on_heap r in
  let '(hp1, hc) := hclone hp0 ho in
  htrace lenlim limit hp1 ho hc sched.
