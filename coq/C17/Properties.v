(** C17 property theorems.  Statements only, each closed by lemmas of
    Proofs.v (or Lib/Utf8.v), the axiom audit, and non-vacuity examples.
    All theorems quantify over every value-length limit, every count limit
    (guards in plain sight) and every finite list of SetAttributes /
    AddAttributes calls with arbitrary nested values. *)
From Verif Require Import Lib.Base Lib.Utf8 C17.Spec C17.Model C17.Proofs.
Open Scope N_scope.

(** Refinement (count limit <> 0): what WalkAttributes returns is the
    specification's ordered map; DroppedAttributes is the specification's count
    of offers that created no key plus the duplicate keys removed inside map
    values, and exactly the specification's count when no offered value hides
    duplicate map keys. *)
Theorem c17_refines_spec : forall lenlim limit ops, limit <> 0%Z ->
  let r := run_model lenlim limit ops in
  o_attrs (observe r) = fst (run_spec lenlim limit ops) /\
  o_dropped (observe r) = (snd (run_spec lenlim limit ops) + r_nested r)%nat /\
  (flat_ops ops = true -> o_dropped (observe r) = snd (run_spec lenlim limit ops)).
Proof.
  intros lenlim limit ops H r. pose proof (refines lenlim limit H ops) as R. fold r in R.
  cbn [observe o_attrs o_dropped]. rewrite <- R. cbn [fst snd].
  repeat split. intro F. unfold r. rewrite (run_nested_zero lenlim limit ops F). lia.
Qed.
Print Assumptions c17_refines_spec.

(** Refinement for ALL count limits, with the limit read as the code reads it
    (0 = unlimited; [code_limit]): no guard. *)
Theorem c17_refines_code_limit : forall lenlim limit ops,
  (attrs_of (run_model lenlim limit ops), r_flat (run_model lenlim limit ops)) = run_spec lenlim (code_limit limit) ops.
Proof. exact refines_all. Qed.
Print Assumptions c17_refines_code_limit.

(** The Emit path: logger.newRecord builds the record by adding the emitted
    attributes one by one, then the processors edit it; for all limits and all
    emitted attribute lists this is the specification with the emitted
    attributes offered first (no extra drops when no value hides duplicate keys). *)
Theorem c17_emit_refines : forall lenlim limit init ops,
  let r := run_emit lenlim limit init ops in
  (attrs_of r, r_flat r) = run_spec_emit lenlim (code_limit limit) init ops /\
  (flat_attrs init = true -> flat_ops ops = true -> r_nested r = 0%nat).
Proof. exact emit_refines. Qed.
Print Assumptions c17_emit_refines.

(** Count limit 0: the code behaves exactly as with no limit ... *)
Theorem c17_limit_zero_is_unlimited : forall lenlim ops,
  run_model lenlim 0 ops = run_model lenlim (-1) ops.
Proof. exact run_limit_zero. Qed.
Print Assumptions c17_limit_zero_is_unlimited.

(** ... so the documented meaning ("no attributes will be recorded") fails (F-C17-2). *)
Theorem c17_limit_zero_refuted :
  exists lenlim ops, o_attrs (observe (run_model lenlim 0 ops)) <> fst (run_spec lenlim 0 ops).
Proof. exact limit_zero_refuted. Qed.
Print Assumptions c17_limit_zero_refuted.

(** Laws of the specification (hence, by refinement, of the record). *)

(** Only the calls since the last SetAttributes matter. *)
Theorem c17_since_last_set : forall lenlim limit ops,
  run_spec lenlim limit ops = fold_left (offer lenlim limit) (effective ops) ([], 0%nat).
Proof. exact run_spec_effective. Qed.
Print Assumptions c17_since_last_set.

(** Each key at most once, and it carries the (normalised) value supplied last;
    the keys held are the first [limit] distinct keys offered, in order. *)
Theorem c17_nodup_lastwins : forall lenlim limit ops,
  let m := fst (run_spec lenlim limit ops) in
  NoDup (keys m) /\
  keys m = kept_keys limit (effective ops) /\
  forall k, In k (keys m) -> lookup k m = Some (norm lenlim (last_val k (effective ops))).
Proof.
  intros lenlim limit ops m. unfold m. rewrite run_spec_effective, fold_offer_fst. cbn [fst].
  split; [apply fold_ins_nodup; constructor|]. rewrite spec_map_closed. split.
  - apply (keys_kmap (fun k => norm lenlim (last_val k (effective ops)))).
  - intros k I. rewrite (keys_kmap (fun k => norm lenlim (last_val k (effective ops)))) in I.
    now apply (lookup_kmap (fun k => norm lenlim (last_val k (effective ops)))).
Qed.
Print Assumptions c17_nodup_lastwins.

(** At most [limit] attributes (documented meaning: any limit >= 0). *)
Theorem c17_count_limit : forall lenlim limit ops, (0 <= limit)%Z ->
  (Z.of_nat (length (fst (run_spec lenlim limit ops))) <= limit)%Z.
Proof.
  intros lenlim limit ops H. rewrite run_spec_effective, fold_offer_fst. apply fold_ins_len_le; [exact H | cbn; lia].
Qed.
Print Assumptions c17_count_limit.

(** Attribute count plus dropped count equals the number of attributes offered
    (since the last SetAttributes). *)
Theorem c17_count_plus_dropped : forall lenlim limit ops,
  (length (fst (run_spec lenlim limit ops)) + snd (run_spec lenlim limit ops) = length (effective ops))%nat.
Proof. intros. rewrite run_spec_effective, fold_offer_count. cbn. lia. Qed.
Print Assumptions c17_count_plus_dropped.

(** The same for the record itself (count limit <> 0, no duplicate keys hidden
    inside offered map values): AttributesLen + DroppedAttributes = offered. *)
Theorem c17_record_count_plus_dropped : forall lenlim limit ops, limit <> 0%Z -> flat_ops ops = true ->
  let o := observe (run_model lenlim limit ops) in
  (length (o_attrs o) + o_dropped o = length (effective ops))%nat.
Proof.
  intros lenlim limit ops H F o. destruct (c17_refines_spec lenlim limit ops H) as (R1 & _ & R3).
  unfold o. rewrite R1, (R3 F). apply c17_count_plus_dropped.
Qed.
Print Assumptions c17_record_count_plus_dropped.

(** Every string held, at any depth, whether newly added or overwriting, has
    at most [lenlim] characters. *)
Theorem c17_deep_length_limit : forall lenlim limit ops, (0 <= lenlim)%Z ->
  Forall (fun a => within lenlim (snd a)) (fst (run_spec lenlim limit ops)).
Proof.
  intros lenlim limit ops H. rewrite run_spec_effective, fold_offer_fst. apply fold_ins_within; [exact H | constructor].
Qed.
Print Assumptions c17_deep_length_limit.

(** applyValueLimits is the deep normalisation; without duplicate map keys it drops nothing. *)
Theorem c17_value_limits : forall lenlim v,
  fst (apply_value_limits lenlim v) = norm lenlim v /\
  (nodup_deep v = true -> snd (apply_value_limits lenlim v) = 0%nat).
Proof. intros. split; [apply apply_value_limits_norm | apply nested_zero]. Qed.
Print Assumptions c17_value_limits.

(** truncate (shared with C04): see Lib/Utf8.v. *)
Theorem c17_truncate : forall limit s,
  truncate limit s = truncate_spec limit s /\
  ((0 <= limit)%Z ->
   let out := truncate limit s in
   (Z.of_nat (length s) <= limit -> out = s)%Z /\
   (limit < Z.of_nat (length s) ->
      out = concat (firstn (Z.to_nat limit) (runes s)) /\
      runes out = firstn (Z.to_nat limit) (runes s))%Z /\
   Scan s (runes s) /\
   Forall (fun r => wf_rune r = true) (runes out) /\
   (rune_count out <= Z.to_nat limit)%nat).
Proof. intros. split; [apply truncate_refines | apply truncate_characterised]. Qed.
Print Assumptions c17_truncate.

(** Clone shares no mutable state: in the aliasing model (inline array in the
    record value, overflow slice at a heap address, every change to the
    overflow slice written through at that address) the record returned by
    Clone() equals the original, and for EVERY schedule of later calls on the
    original and on the clone each of the two ends up exactly as if it alone
    had received its own calls. *)
Theorem c17_clone_independent : forall lenlim limit r sched,
  let '(hp0, ho) := on_heap r in
  let '(hp1, hc) := hclone hp0 ho in
  let '(hp', ho', hc') := hrun lenlim limit hp1 ho hc sched in
  to_rec hp1 hc = r /\
  to_rec hp' ho' = fold_left (step lenlim limit) (ops_of false sched) r /\
  to_rec hp' hc' = fold_left (step lenlim limit) (ops_of true sched) r.
Proof. exact clone_independent. Qed.
Print Assumptions c17_clone_independent.

(** ... and at every step of the schedule both records show what two independent values would show. *)
Theorem c17_clone_trace_independent : forall lenlim limit r sched,
  clone_trace lenlim limit r sched = ptrace lenlim limit r r sched.
Proof. exact clone_trace_independent. Qed.
Print Assumptions c17_clone_trace_independent.

(** The struct copy alone (overflow slice not cloned) does not have this property. *)
Theorem c17_shallow_clone_refuted :
  exists lenlim limit r o,
    let '(hp0, ho) := on_heap r in
    let '(hp1, hc) := hclone_shallow hp0 ho in
    let '(hp', _, hc') := hrun lenlim limit hp1 ho hc [(false, o)] in
    observe (to_rec hp' hc') <> observe r.
Proof. exact shallow_clone_refuted. Qed.
Print Assumptions c17_shallow_clone_refuted.

(** Non-vacuity: six emitted attributes cross the inline / overflow boundary, a
    processor then overwrites the sixth (held in the overflow slice) and the first. *)
Example ex_emit :
  observe (run_emit (-1) 0 [(str "a", LStr (str "1")); (str "b", LStr (str "2")); (str "c", LStr (str "3"));
                            (str "d", LStr (str "4")); (str "e", LStr (str "5")); (str "f", LStr (str "6"))]
                    [OAdd [(str "f", LStr (str "F")); (str "a", LStr (str "A"))]]) =
  {| o_attrs := [(str "a", LStr (str "A")); (str "b", LStr (str "2")); (str "c", LStr (str "3"));
                 (str "d", LStr (str "4")); (str "e", LStr (str "5")); (str "f", LStr (str "F"))]; o_dropped := 2 |} /\
  length (r_front (run_emit (-1) 0 [(str "a", LStr []); (str "b", LStr []); (str "c", LStr []); (str "d", LStr []);
                                    (str "e", LStr []); (str "f", LStr [])] [])) = 5%nat.
Proof. vm_compute. split; reflexivity. Qed.

(** Non-vacuity. *)
Definition ex_ops : list op :=
  [OAdd [(str "a", LStr (str "1"))]; OAdd [(str "b", LStr (str "2"))];
   OAdd [(str "c", LStr (hx "68c3a96c6c6f")); (str "d", LStr (str "4")); (str "a", LStr (hx "ff616263646566"));
         (str "d", LStr (str "6")); (str "c", LMap [(str "x", LStr (str "0123456789")); (str "x", LSlice [LStr (str "abcdef")])])]].
Example ex_run :
  observe (run_model 3 3 ex_ops) =
  {| o_attrs := [(str "a", LStr (str "abc")); (str "b", LStr (str "2"));
                 (str "c", LMap [(str "x", LSlice [LStr (str "abc")])])];
     o_dropped := 5 |} /\
  run_spec 3 3 ex_ops = ([(str "a", LStr (str "abc")); (str "b", LStr (str "2"));
                          (str "c", LMap [(str "x", LSlice [LStr (str "abc")])])], 4%nat) /\
  flat_ops ex_ops = false /\ length (effective ex_ops) = 7%nat.
Proof. vm_compute. repeat split. Qed.
