(** C17 correspondence: evaluates model and spec on what the Go harness
    observed from the real sdk/log Record (generated case files import this). *)
From Verif Require Import Lib.Base Lib.Utf8 C17.Spec C17.Model.
Open Scope N_scope.

Fixpoint lvalue_eqb (a b : lvalue) {struct a} : bool :=
  match a, b with
  | LStr x, LStr y => bytes_eqb x y
  | LSlice x, LSlice y =>
      (fix go (x y : list lvalue) {struct x} : bool :=
         match x, y with
         | [], [] => true
         | p :: x', q :: y' => lvalue_eqb p q && go x' y'
         | _, _ => false
         end) x y
  | LMap x, LMap y =>
      (fix go (x y : list (bytes * lvalue)) {struct x} : bool :=
         match x, y with
         | [], [] => true
         | (k, p) :: x', (k', q) :: y' => bytes_eqb k k' && lvalue_eqb p q && go x' y'
         | _, _ => false
         end) x y
  | LOther k x, LOther k' y => (k =? k') && bytes_eqb x y
  | _, _ => false
  end.

Definition lkv_eqb (a b : lkv) : bool := bytes_eqb (fst a) (fst b) && lvalue_eqb (snd a) (snd b).
Definition obs_eqb (a b : obs) : bool :=
  list_eqb lkv_eqb (o_attrs a) (o_attrs b) && Nat.eqb (o_dropped a) (o_dropped b).

(** Boolean reading of [within]. *)
Fixpoint within_b (lenlim : Z) (v : lvalue) : bool :=
  match v with
  | LStr s => (rune_count s <=? Z.to_nat lenlim)%nat
  | LSlice l => forallb (within_b lenlim) l
  | LMap kvs => forallb (fun kv => let '(_, x) := kv in within_b lenlim x) kvs
  | LOther _ _ => true
  end.

Definition O := Build_obs.

Inductive case :=
(* limits, the attributes of the emitted record (logger.newRecord), the calls made in OnEmit, observation at the exporter *)
| CRec (lenlim limit : Z) (init : list lkv) (ops : list op) (o : obs)
(* calls before Clone, calls after Clone applied to the original (false) or to the clone (true);
   observation of the clone and of the original at the end *)
| CClone (lenlim limit : Z) (ops1 ops2 : list op) (on_clone : bool) (o_clone o_orig : obs)
(* calls before Clone, then an interleaved schedule of calls on the original (false) and on the clone
   (true); what the original and the clone show after EVERY step.  Compared with the aliasing
   model (heap of overflow arrays), so a shared backing array diverges on the model's own terms. *)
| CAlias (lenlim limit : Z) (ops1 : list op) (sched : list (bool * op)) (trace : list (obs * obs))
(* one string attribute value under a value-length limit (the log copy of truncate) *)
| CTrunc (lenlim : Z) (s out : bytes).

Definition flag (b : bool) (code : N) : list N := if b then [] else [code].

(** The specification judged on an observation: attributes exactly the
    specification's; dropped count exactly the specification's when no offered
    value hides duplicate map keys, at least that otherwise; every string within the limit. *)
Definition spec_ok (lenlim limit : Z) (ops : list op) (o : obs) : bool :=
  let '(m, d) := run_spec lenlim limit ops in
  list_eqb lkv_eqb m (o_attrs o) &&
  (if flat_ops ops then Nat.eqb d (o_dropped o) else (d <=? o_dropped o)%nat) &&
  ((lenlim <? 0)%Z || forallb (fun a => within_b lenlim (snd a)) (o_attrs o)).

(** Known finding F-C17-2 (narrow): the count limit is exactly 0, the
    observation is not what the documented meaning requires, and it is exactly
    what an unlimited record would hold. *)
Definition judge (lenlim limit : Z) (ops : list op) (o : obs) : list N :=
  if spec_ok lenlim limit ops o then []
  else if (limit =? 0)%Z && spec_ok lenlim (-1) ops o then [V_KNOWN 1]
  else [V_SPECFAIL].

(** Specification along a schedule: each record must be what its own calls alone produce. *)
Fixpoint judge_trace (lenlim limit : Z) (po pc : list op) (sched : list (bool * op)) (trace : list (obs * obs)) : list N :=
  match sched, trace with
  | [], [] => []
  | (w, o) :: s, (oo, oc) :: t =>
      let po' := if w then po else po ++ [o] in
      let pc' := if w then pc ++ [o] else pc in
      judge lenlim limit po' oo ++ judge lenlim limit pc' oc ++ judge_trace lenlim limit po' pc' s t
  | _, _ => [V_SPECFAIL]
  end.

Definition check_alias (lenlim limit : Z) (ops1 : list op) (sched : list (bool * op)) (trace : list (obs * obs)) : list N :=
  flag (list_eqb (fun a b => obs_eqb (fst a) (fst b) && obs_eqb (snd a) (snd b))
          (clone_trace lenlim limit (run_model lenlim limit ops1) sched) trace) V_MISMATCH ++
  (match judge_trace lenlim limit ops1 ops1 sched trace with
   | [] => []
   | l => if forallb (fun c => 100 <? c) l then [V_KNOWN 1] else [V_SPECFAIL]
   end).

Definition check_case (c : case) : list N :=
  match c with
  | CRec lenlim limit init ops o =>
      (* the specification judges the emitted attributes as offered one by one (run_spec_emit = run_spec on these ops) *)
      let sops := map (fun a => OAdd [a]) init ++ ops in
      flag (obs_eqb (observe (run_emit lenlim limit init ops)) o) V_MISMATCH ++
      judge lenlim limit sops o ++
      flag (match judge lenlim limit sops (observe (run_emit lenlim limit init ops)) with [] => true | [c] => 100 <? c | _ => false end) V_MODELSPEC
  | CClone lenlim limit ops1 ops2 on_clone oc oo =>
      let r1 := run_model lenlim limit ops1 in
      let r2 := fold_left (step lenlim limit) ops2 (clone r1) in
      let '(pc, po) := if on_clone then (ops1 ++ ops2, ops1) else (ops1, ops1 ++ ops2) in
      flag (obs_eqb (observe (if on_clone then r2 else r1)) oc && obs_eqb (observe (if on_clone then r1 else r2)) oo) V_MISMATCH ++
      (match judge lenlim limit pc oc, judge lenlim limit po oo with
       | [], [] => []
       | a, b => if forallb (fun c => 100 <? c) (a ++ b) then [V_KNOWN 1] else [V_SPECFAIL]
       end)
  | CAlias lenlim limit ops1 sched trace => check_alias lenlim limit ops1 sched trace
  | CTrunc lenlim s out =>
      flag (lvalue_eqb (fst (apply_value_limits lenlim (LStr s))) (LStr out)) V_MISMATCH ++
      flag (lvalue_eqb (norm lenlim (LStr s)) (LStr out)) V_SPECFAIL
  end.

Definition run (cs : list case) : list (N * N) := index_from 0 check_case cs.
