(** C10 proofs, span limits: every history of the LTS with AttributeCountLimit / EventCountLimit /
    LinkCountLimit satisfies the accounting clauses of Spec.spec_lim_ok, for all limits, all
    schedules, any number of threads. *)
From Coq Require Import List Arith Lia Bool.
From Verif Require Import Lib.LTS C10.Spec C10.Model C10.Proofs.
Import ListNotations.

(** * Lists *)
Lemma parts_of_none m l : (forall x, In x l -> fst x <> m) -> parts_of m l = [].
Proof.
  unfold parts_of. induction l as [|x r IH]; intros H; cbn; [reflexivity|].
  destruct (Nat.eqb_spec (fst x) m) as [E|E]; [exfalso; eapply H; [left; reflexivity | exact E]|].
  apply IH. intros y Hy. apply H. now right.
Qed.

Lemma parts_of_in m l x : In x l -> fst x = m -> In x (parts_of m l).
Proof. intros H E. apply filter_In. split; [exact H | now apply Nat.eqb_eq]. Qed.

Lemma length_full m j : length (full m j) = j.
Proof. unfold full. now rewrite map_length, seq_length. Qed.

Lemma full_inj m j j' : full m j = full m j' -> j = j'.
Proof. intros H. apply (f_equal (@length _)) in H. now rewrite !length_full in H. Qed.

Lemma countb_snoc' {A} (p : A -> bool) l x : countb p (l ++ [x]) = countb p l + (if p x then 1 else 0).
Proof. apply countb_snoc. Qed.

(** Removing the first element that satisfies [p]. *)
Lemma remove_first_split (p : nat * nat -> bool) l : existsb p l = true ->
  exists l1 x l2, l = l1 ++ x :: l2 /\ p x = true /\ existsb p l1 = false /\ remove_first_p p l = l1 ++ l2.
Proof.
  induction l as [|y r IH]; cbn; [discriminate|]. destruct (p y) eqn:E.
  - intros _. exists [], y, r. cbn. auto.
  - cbn. intros H. destruct (IH H) as (l1 & x & l2 & -> & Hx & Hn & Hr).
    exists (y :: l1), x, l2. cbn. rewrite E, Hn, Hr. auto.
Qed.

Lemma countb_pos_exists {A} (p : A -> bool) l : 0 < countb p l -> existsb p l = true.
Proof.
  intros H. destruct (existsb p l) eqn:E; [reflexivity|]. apply countb_zero in E. lia.
Qed.

(** * Sums of offered parts *)
Lemma offered_app k b a1 a2 : offered k b (a1 ++ a2) = offered k b a1 + offered k b a2.
Proof.
  induction a1 as [|e r IH]; cbn; [reflexivity|].
  destruct e as [t o|t o r0|p sn]; [destruct o|destruct o|]; cbn; rewrite ?IH; lia.
Qed.

Section Lim.
  Variable c : cfg.
  Notation R := (Reach (step c) init).

  Definition kindof (m : nat) : option mkind :=
    match prog c m with Some (OMut k _) => Some k | _ => None end.
  Definition is_k (k : mkind) (m : nat) : bool :=
    match kindof m with Some k' => mkind_eqb k k' | None => false end.

  Lemma is_kind_k k x : is_kind c k x = is_k k (fst x).
  Proof. unfold is_kind, is_k, kindof. destruct (prog c (fst x)) as [[]|]; reflexivity. Qed.

  Definition cnt (k : mkind) (s : state) : nat := countb (is_kind c k) (parts s).
  Definition sumnp (l : list nat) : nat := fold_right (fun m a => np c m + a) 0 l.
  Definition Ak (k : mkind) (l : list nat) : list nat := filter (is_k k) l.

  Lemma sumnp_app a b : sumnp (a ++ b) = sumnp a + sumnp b.
  Proof.
    induction a as [|x a IH]; [reflexivity|].
    change (sumnp ((x :: a) ++ b)) with (np c x + sumnp (a ++ b)). rewrite IH.
    change (sumnp (x :: a)) with (np c x + sumnp a). lia.
  Qed.

  (** Parts applied so far by the mutator that holds the lock, if it is of kind [k]. *)
  Definition inprog (k : mkind) (s : state) : nat :=
    match mu s with
    | Some t => match pcs s t with MApply i => if is_k k t then i else 0 | _ => 0 end
    | None => 0
    end.

  Definition InvL (s : state) : Prop :=
    (* accounting *)
    (forall k, is_log k = true -> cnt k s + d_of (drops s) k = sumnp (Ak k (applied s)) + inprog k s) /\
    (* the limit *)
    (forall k, is_log k = true ->
       match lim_of (lims c) k with
       | None => d_of (drops s) k = 0
       | Some L => cnt k s <= L /\ (d_of (drops s) k = 0 \/ cnt k s = L)
       end) /\
    (* each call's kept parts are a prefix of what it offered; only calls that took effect have any *)
    (forall m, exists j, j <= np c m /\ parts_of m (parts s) = full m j /\
                         (0 < j -> In m (applied s) \/ exists i, pcs s m = MApply i)) /\
    (* the mutator in progress *)
    (forall t i, pcs s t = MApply i ->
       exists j, j <= i /\ parts_of t (parts s) = full t j /\
                 (kindof t = Some KAttr -> j < i -> exists L, lim_attr (lims c) = Some L /\ cnt KAttr s = L)) /\
    (* a kind that dropped nothing kept everything *)
    (forall k, is_log k = true -> d_of (drops s) k = 0 ->
       (forall m, In m (Ak k (applied s)) -> parts_of m (parts s) = full m (np c m)) /\
       (forall t i, pcs s t = MApply i -> is_k k t = true -> parts_of t (parts s) = full t i)).

  (** Steps that leave parts, drops and applied alone and move no thread into or out of the apply phase. *)
  Lemma invL_frame s s' :
    InvL s -> parts s' = parts s -> drops s' = drops s -> applied s' = applied s ->
    (forall k, inprog k s' = inprog k s) ->
    (forall u i, pcs s' u = MApply i <-> pcs s u = MApply i) ->
    InvL s'.
  Proof.
    intros (L1 & L2 & L3 & L4 & L5) Hp Hd Ha Hi Hpc. unfold InvL, cnt in *. rewrite Hp, Hd, Ha.
    split; [intros k Hk; rewrite Hi; now apply L1|]. split; [exact L2|]. split.
    - intros m. destruct (L3 m) as (j & A & B & C). exists j. split; [exact A|]. split; [exact B|].
      intros Hj. destruct (C Hj) as [X|[i X]]; [now left|].
      (* m was in the apply phase in s: it still is, or the frame does not apply *)
      right. exists i. now apply Hpc.
    - split; [intros t i Ht; apply L4; now apply Hpc|].
      intros k Hk Hz. destruct (L5 k Hk Hz) as [A B]. split; [exact A|].
      intros t i Ht. apply B. now apply Hpc.
  Qed.

  Lemma is_k_of t k n k0 : prog c t = Some (OMut k n) -> is_k k0 t = mkind_eqb k0 k.
  Proof. intros E. unfold is_k, kindof. now rewrite E. Qed.

  Lemma d_of_bump d k k0 : is_log k = true ->
    d_of (bump d k) k0 = if mkind_eqb k0 k then S (d_of d k0) else d_of d k0.
  Proof. destruct k, k0; cbn; intros H; try discriminate; reflexivity. Qed.

  Lemma mkind_eqb_refl k : mkind_eqb k k = true.
  Proof. now destruct k. Qed.

  Lemma parts_of_snoc m l x : parts_of m (l ++ [x]) = parts_of m l ++ (if fst x =? m then [x] else []).
  Proof. rewrite parts_of_app. cbn. now destruct (fst x =? m). Qed.

  (** The in-progress mutator [t] (holding the lock at [MApply i]) appends its part. *)
  Lemma apply_append s s' t i k n :
    R s -> InvL s -> prog c t = Some (OMut k n) -> pcs s t = MApply i -> mu s = Some t -> i < nparts (OMut k n) ->
    mu s' = mu s -> pcs s' = upd (pcs s) t (MApply (S i)) -> applied s' = applied s ->
    drops s' = drops s -> parts s' = parts s ++ [(t, i)] ->
    parts_of t (parts s) = full t i ->
    match lim_of (lims c) k with None => True | Some L => cnt k s < L end ->
    InvL s'.
  Proof.
    intros Hr (L1 & L2 & L3 & L4 & L5) E Hpc Hm Hi Hmu' Hpcs' Happ' Hd' Hp' Hti Hlim.
    pose proof (invD c s Hr) as (D2 & D3 & D4 & _).
    assert (Hnp : np c t = nparts (OMut k n)) by (unfold np; now rewrite E).
    assert (Hkt : forall k0, is_kind c k0 (t, i) = mkind_eqb k0 k) by (intros k0; rewrite is_kind_k; now apply (is_k_of t k n)).
    assert (Hcnt : forall k0, cnt k0 s' = cnt k0 s + (if mkind_eqb k0 k then 1 else 0)).
    { intros k0. unfold cnt. rewrite Hp', countb_snoc, Hkt. reflexivity. }
    assert (Hnotapp : ~ In t (applied s)).
    { intros X. destruct (D3 t X) as [Y _]. rewrite Hpc in Y. discriminate. }
    assert (Hother : forall u j, u <> t -> pcs s u <> MApply j).
    { intros u j Hn X. apply Hn. apply (holder_unique c s u t Hr); [now rewrite X | now rewrite Hpc]. }
    unfold InvL. rewrite Happ', Hd'. split.
    { intros k0 Hk. rewrite Hcnt. specialize (L1 k0 Hk). unfold inprog in *. rewrite Hmu', Hm, Hpcs', upd_same in *.
      rewrite Hpc in L1. rewrite (is_k_of t k n k0 E) in *. destruct (mkind_eqb k0 k); lia. }
    split.
    { intros k0 Hk. specialize (L2 k0 Hk). rewrite Hcnt. destruct (mkind_eqb k0 k) eqn:Ek.
      - apply mkind_eqb_eq in Ek; subst k0. destruct (lim_of (lims c) k) as [L|]; [|exact L2].
        destruct L2 as [A B]. split; [lia|]. destruct B; [now left | lia].
      - rewrite Nat.add_0_r. exact L2. }
    split.
    { intros m. destruct (Nat.eq_dec m t) as [->|Hn].
      - exists (S i). split; [lia|]. split.
        + rewrite Hp', parts_of_snoc, Hti. cbn [fst]. rewrite Nat.eqb_refl. now rewrite full_S.
        + intros _. right. exists (S i). now rewrite Hpcs', upd_same.
      - destruct (L3 m) as (j & A & B & C). exists j. split; [exact A|]. split.
        + rewrite Hp', parts_of_snoc. cbn [fst]. destruct (Nat.eqb_spec t m); [congruence|]. now rewrite app_nil_r.
        + intros Hj. destruct (C Hj) as [X|[i' X]]; [now left | exfalso; eapply Hother; eauto]. }
    split.
    { intros u i' Hu. rewrite Hpcs' in Hu. destruct (Nat.eq_dec u t) as [->|Hn].
      - rewrite upd_same in Hu. inversion Hu; subst i'. exists (S i). split; [lia|]. split.
        + rewrite Hp', parts_of_snoc, Hti. cbn [fst]. rewrite Nat.eqb_refl. now rewrite full_S.
        + intros _ X; lia.
      - rewrite upd_other in Hu by exact Hn. exfalso; eapply Hother; eauto. }
    intros k0 Hk Hz. destruct (L5 k0 Hk Hz) as [A B]. split.
    - intros m Hin. assert (m <> t) by (intros ->; apply Hnotapp; unfold Ak in Hin; apply filter_In in Hin; tauto).
      rewrite Hp', parts_of_snoc. cbn [fst]. destruct (Nat.eqb_spec t m); [congruence|]. rewrite app_nil_r. now apply A.
    - intros u i' Hu Hku. rewrite Hpcs' in Hu. destruct (Nat.eq_dec u t) as [->|Hn].
      + rewrite upd_same in Hu. inversion Hu; subst i'.
        rewrite Hp', parts_of_snoc, Hti. cbn [fst]. rewrite Nat.eqb_refl. now rewrite full_S.
      + rewrite upd_other in Hu by exact Hn. exfalso; eapply Hother; eauto.
  Qed.

  (** … or the limit is reached and the part is only counted as dropped. *)
  Lemma apply_drop s s' t i k n L :
    R s -> InvL s -> prog c t = Some (OMut k n) -> pcs s t = MApply i -> mu s = Some t -> i < nparts (OMut k n) ->
    mu s' = mu s -> pcs s' = upd (pcs s) t (MApply (S i)) -> applied s' = applied s ->
    drops s' = bump (drops s) k -> parts s' = parts s ->
    lim_of (lims c) k = Some L -> cnt k s = L ->
    InvL s'.
  Proof.
    intros Hr (L1 & L2 & L3 & L4 & L5) E Hpc Hm Hi Hmu' Hpcs' Happ' Hd' Hp' Hlim HcL.
    pose proof (invD c s Hr) as (D2 & D3 & D4 & _).
    assert (Hlog : is_log k = true) by (destruct k; cbn in Hi; try lia; reflexivity).
    assert (Hcnt : forall k0, cnt k0 s' = cnt k0 s) by (intros; unfold cnt; now rewrite Hp').
    assert (Hother : forall u j, u <> t -> pcs s u <> MApply j).
    { intros u j Hn X. apply Hn. apply (holder_unique c s u t Hr); [now rewrite X | now rewrite Hpc]. }
    unfold InvL. rewrite Happ', Hd', Hp'. fold (cnt KAttr s).
    split.
    { intros k0 Hk. specialize (L1 k0 Hk). rewrite d_of_bump by exact Hlog. unfold inprog, cnt in *.
      rewrite Hp', Hmu', Hm, Hpcs', upd_same. rewrite Hm, Hpc in L1.
      rewrite (is_k_of t k n k0 E) in *. destruct (mkind_eqb k0 k); lia. }
    split.
    { intros k0 Hk. specialize (L2 k0 Hk). rewrite d_of_bump by exact Hlog. unfold cnt in *. rewrite Hp'.
      destruct (mkind_eqb k0 k) eqn:Ek; [|exact L2].
      apply mkind_eqb_eq in Ek; subst k0. rewrite Hlim in *. split; [lia | right; exact HcL]. }
    split.
    { intros m. destruct (L3 m) as (j & A & B & C). exists j. split; [exact A|]. split; [exact B|].
      intros Hj. destruct (C Hj) as [X|[i' X]]; [now left|]. right.
      destruct (Nat.eq_dec m t) as [->|Hn]; [exists (S i); now rewrite Hpcs', upd_same | exfalso; eapply Hother; eauto]. }
    split.
    { intros u i' Hu. rewrite Hpcs' in Hu. destruct (Nat.eq_dec u t) as [->|Hn].
      - rewrite upd_same in Hu. inversion Hu; subst i'. destruct (L4 t i Hpc) as (j & A & B & C).
        exists j. split; [lia|]. split; [exact B|]. intros Hka _. exists L.
        assert (k = KAttr) by (unfold kindof in Hka; rewrite E in Hka; congruence). subst k.
        split; [exact Hlim | unfold cnt in *; now rewrite Hp'].
      - rewrite upd_other in Hu by exact Hn. exfalso; eapply Hother; eauto. }
    intros k0 Hk Hz. rewrite d_of_bump in Hz by exact Hlog.
    destruct (mkind_eqb k0 k) eqn:Ek; [discriminate|].
    destruct (L5 k0 Hk Hz) as [A B]. split; [exact A|].
    intros u i' Hu Hku. rewrite Hpcs' in Hu. destruct (Nat.eq_dec u t) as [->|Hn].
    - rewrite (is_k_of t k n k0 E) in Hku. congruence.
    - rewrite upd_other in Hu by exact Hn. exfalso; eapply Hother; eauto.
  Qed.

  (** … or (events, links) the queue is full: the oldest element of the kind is evicted and counted,
      the new one is appended. *)
  Lemma apply_evict s s' t k n L :
    R s -> InvL s -> prog c t = Some (OMut k n) -> pcs s t = MApply 0 -> mu s = Some t ->
    (k = KEvent \/ k = KLink) ->
    mu s' = mu s -> pcs s' = upd (pcs s) t (MApply 1) -> applied s' = applied s ->
    drops s' = bump (drops s) k -> parts s' = remove_first_p (is_kind c k) (parts s) ++ [(t, 0)] ->
    lim_of (lims c) k = Some L -> 0 < L -> cnt k s = L ->
    InvL s'.
  Proof.
    intros Hr (L1 & L2 & L3 & L4 & L5) E Hpc Hm Hk Hmu' Hpcs' Happ' Hd' Hp' Hlim HL HcL.
    pose proof (invD c s Hr) as (D2 & D3 & D4 & _).
    assert (Hlog : is_log k = true) by (destruct Hk; subst; reflexivity).
    assert (Hnp1 : forall m, is_k k m = true -> np c m = 1).
    { intros m Hm1. unfold is_k, kindof, np in *. destruct (prog c m) as [[|k' n'| |]|]; try discriminate.
      apply mkind_eqb_eq in Hm1; subst k'. destruct Hk; subst; reflexivity. }
    assert (Hother : forall u j, u <> t -> pcs s u <> MApply j).
    { intros u j Hn X. apply Hn. apply (holder_unique c s u t Hr); [now rewrite X | now rewrite Hpc]. }
    assert (Hnotapp : ~ In t (applied s)).
    { intros X. destruct (D3 t X) as [Y _]. rewrite Hpc in Y. discriminate. }
    (* the evicted element *)
    destruct (remove_first_split (is_kind c k) (parts s)) as (l1 & x & l2 & Hsplit & Hx & Hl1 & Hrem).
    { apply countb_pos_exists. fold (cnt k s). lia. }
    rewrite Hrem in Hp'. remember (fst x) as mx eqn:Emx.
    assert (Hkx : is_k k mx = true) by (rewrite Emx, <- is_kind_k; exact Hx).
    assert (Ht0 : parts_of t (parts s) = []).
    { destruct (L4 t 0 Hpc) as (j & A & B & _). assert (j = 0) by lia. now subst. }
    assert (Hxt : mx <> t).
    { intros Ex. assert (In x (parts_of t (parts s))) by (apply parts_of_in; [rewrite Hsplit; apply in_or_app; right; now left | congruence]).
      rewrite Ht0 in H. destruct H. }
    assert (Hmx : parts_of mx l1 = [] /\ parts_of mx l2 = [] /\ x = (mx, 0)).
    { destruct (L3 mx) as (j & A & B & _). rewrite (Hnp1 mx Hkx) in A.
      rewrite Hsplit, parts_of_app in B. cbn [parts_of filter] in B. fold (parts_of mx l2) in B.
      rewrite <- Emx, Nat.eqb_refl in B.
      destruct j as [|[|j]]; [| |lia].
      - destruct (parts_of mx l1); discriminate.
      - cbn in B. destruct (parts_of mx l1) as [|y r1]; cbn in B.
        + inversion B; subst. auto.
        + inversion B as [[B1 B2]]. destruct r1; discriminate. }
    destruct Hmx as (Hm1 & Hm2 & Hxeq).
    assert (Hpo : forall m, m <> mx -> parts_of m (l1 ++ l2) = parts_of m (parts s)).
    { intros m Hn. rewrite Hsplit, !parts_of_app. cbn [parts_of filter]. fold (parts_of m l2).
      rewrite <- Emx. destruct (Nat.eqb_spec mx m); [congruence | reflexivity]. }
    assert (Hcnt : forall k0, cnt k0 s' = cnt k0 s).
    { intros k0. unfold cnt. rewrite Hp', Hsplit. rewrite countb_snoc, !countb_app.
      change (x :: l2) with ([x] ++ l2). rewrite countb_app.
      assert (Hx1 : countb (is_kind c k0) [x] = if is_k k0 mx then 1 else 0).
      { unfold countb. cbn [filter]. rewrite is_kind_k, <- Emx. now destruct (is_k k0 mx). }
      rewrite Hx1, is_kind_k. cbn [fst]. rewrite (is_k_of t k n k0 E).
      destruct (mkind_eqb k0 k) eqn:Ek.
      - apply mkind_eqb_eq in Ek; subst k0. rewrite Hkx. lia.
      - assert (Hf : is_k k0 mx = false).
        { unfold is_k in *. destruct (kindof mx) as [k'|]; [|reflexivity]. apply mkind_eqb_eq in Hkx; subst k'. exact Ek. }
        rewrite Hf. lia. }
    unfold InvL. rewrite Happ', Hd'. split.
    { intros k0 Hk0. rewrite Hcnt. specialize (L1 k0 Hk0). rewrite d_of_bump by exact Hlog. unfold inprog in *.
      rewrite Hmu', Hm, Hpcs', upd_same. rewrite Hm, Hpc in L1.
      rewrite (is_k_of t k n k0 E) in *. destruct (mkind_eqb k0 k); lia. }
    split.
    { intros k0 Hk0. specialize (L2 k0 Hk0). rewrite Hcnt, d_of_bump by exact Hlog.
      destruct (mkind_eqb k0 k) eqn:Ek; [|exact L2].
      apply mkind_eqb_eq in Ek; subst k0. rewrite Hlim in *. split; [lia | right; exact HcL]. }
    split.
    { intros m. destruct (Nat.eq_dec m t) as [->|Hnt].
      - exists 1. split; [rewrite (Hnp1 t); [lia | rewrite (is_k_of t k n k E); apply mkind_eqb_refl]|]. split.
        + rewrite Hp', parts_of_snoc, (Hpo t) by congruence. rewrite Ht0. cbn [fst]. now rewrite Nat.eqb_refl.
        + intros _. right. exists 1. now rewrite Hpcs', upd_same.
      - destruct (Nat.eq_dec m mx) as [->|Hnx].
        + exists 0. split; [lia|]. split; [|intros X; lia].
          rewrite Hp', !parts_of_app, Hm1, Hm2. cbn. destruct (Nat.eqb_spec t mx); [congruence | reflexivity].
        + destruct (L3 m) as (j & A & B & C). exists j. split; [exact A|]. split.
          * rewrite Hp', parts_of_snoc, (Hpo m) by exact Hnx. cbn [fst].
            destruct (Nat.eqb_spec t m); [congruence|]. now rewrite app_nil_r.
          * intros Hj. destruct (C Hj) as [X|[i' X]]; [now left | exfalso; eapply Hother; eauto]. }
    split.
    { intros u i' Hu. rewrite Hpcs' in Hu. destruct (Nat.eq_dec u t) as [->|Hn].
      - rewrite upd_same in Hu. inversion Hu; subst i'. exists 1. split; [lia|]. split.
        + rewrite Hp', parts_of_snoc, (Hpo t) by congruence. rewrite Ht0. cbn [fst]. now rewrite Nat.eqb_refl.
        + intros _ X; lia.
      - rewrite upd_other in Hu by exact Hn. exfalso; eapply Hother; eauto. }
    intros k0 Hk0 Hz. rewrite d_of_bump in Hz by exact Hlog.
    destruct (mkind_eqb k0 k) eqn:Ek; [discriminate|].
    destruct (L5 k0 Hk0 Hz) as [A B]. split.
    - intros m Hin. unfold Ak in Hin. apply filter_In in Hin as [Hin Hkm].
      assert (m <> t) by congruence.
      assert (m <> mx).
      { intros ->. unfold is_k in *. destruct (kindof mx) as [k'|]; [|discriminate].
        apply mkind_eqb_eq in Hkx; subst k'. congruence. }
      rewrite Hp', parts_of_snoc, (Hpo m) by assumption. cbn [fst].
      destruct (Nat.eqb_spec t m); [congruence|]. rewrite app_nil_r. apply A. unfold Ak. apply filter_In. auto.
    - intros u i' Hu Hku. rewrite Hpcs' in Hu. destruct (Nat.eq_dec u t) as [->|Hn].
      + rewrite (is_k_of t k n k0 E) in Hku. congruence.
      + rewrite upd_other in Hu by exact Hn. exfalso; eapply Hother; eauto.
  Qed.

  Lemma invL : forall s, R s -> InvL s.
  Proof.
    apply invariant.
    - unfold InvL, cnt, inprog; cbn. split; [intros; destruct k; reflexivity|].
      split; [intros k Hk; destruct (lim_of (lims c) k); [split; [unfold countb; cbn; lia | left; destruct k; reflexivity] | destruct k; reflexivity]|].
      split; [intros m; exists 0; repeat split; [lia | lia]|].
      split; [intros t i H; discriminate|].
      intros k Hk _. split; [intros m []|intros t i H; discriminate].
    - intros s t s' Hr HI Hs.
      pose proof (invA c s Hr) as [HL HP]. pose proof (invD c s Hr) as (D2 & D3 & D4 & _).
      assert (HLt := HL t). assert (HPt := HP t).
      step_cases Hs; norm; cbn in HLt.
      all: try (apply (invL_frame s); [exact HI | reflexivity | reflexivity | reflexivity | |];
                [ intros k0; unfold inprog; cbn;
                  first [ (assert (Hm : mu s = Some t) by (apply HLt; reflexivity)); rewrite ?Hm, ?E0, ?upd_same; reflexivity
                        | destruct (mu s) as [h|] eqn:Hm; [|reflexivity];
                          assert (h <> t) by (intros ->; destruct HLt as [_ X]; discriminate (X eq_refl));
                          rewrite upd_other by assumption; reflexivity
                        | rewrite ?upd_same; try destruct o; reflexivity ]
                | intros u j; cbn; destruct (Nat.eq_dec u t) as [->|Hn];
                  [ rewrite upd_same, E0; split; intros X; try discriminate X; try (destruct o; discriminate X);
                    try (destruct (nprocs c =? 0); discriminate X)
                  | rewrite upd_other by exact Hn; tauto ] ]; fail).
      + (* Lock in a call *)
        apply (invL_frame s); [exact HI | reflexivity | reflexivity | reflexivity | |].
        * intros k0. unfold inprog; cbn. rewrite E1, upd_same. destruct o; reflexivity.
        * intros u j; cbn. destruct (Nat.eq_dec u t) as [->|Hn];
            [rewrite upd_same, E0; split; intros X; [destruct o|]; discriminate X | rewrite upd_other by exact Hn; tauto].
      + (* Lock in snapshot() *)
        apply (invL_frame s); [exact HI | reflexivity | reflexivity | reflexivity | |].
        * intros k0. unfold inprog; cbn. rewrite E1, upd_same. reflexivity.
        * intros u j; cbn. destruct (Nat.eq_dec u t) as [->|Hn];
            [rewrite upd_same, E0; split; intros X; discriminate X | rewrite upd_other by exact Hn; tauto].
      + (* SetAttributes / AddEvent / … passed the recording check *)
        destruct HI as (L1 & L2 & L3 & L4 & L5).
        assert (Hm : mu s = Some t) by (apply HLt; reflexivity).
        assert (Ht0 : parts_of t (parts s) = []).
        { destruct (L3 t) as (j & A & B & C). destruct j; [exact B|]. exfalso.
          destruct C as [X|[i X]]; [lia | | congruence].
          destruct (D3 t X) as [Y _]. rewrite E0 in Y. discriminate. }
        unfold InvL, cnt, inprog; cbn [parts drops applied mu pcs set_pc].
        split.
        { intros k0 Hk. rewrite Hm, upd_same. specialize (L1 k0 Hk). unfold inprog, cnt in L1. rewrite Hm, E0 in L1.
          destruct (is_k k0 t); lia. }
        split; [exact L2|]. split.
        { intros m. destruct (L3 m) as (j & A & B & C). exists j. split; [exact A|]. split; [exact B|].
          intros Hj. destruct (C Hj) as [X|[i X]]; [now left|]. right. exists i.
          rewrite upd_other; [exact X | congruence]. }
        split.
        { intros u i Hu. destruct (Nat.eq_dec u t) as [->|Hn].
          - rewrite upd_same in Hu. inversion Hu; subst. exists 0. split; [lia|]. split; [exact Ht0|]. intros _ X; lia.
          - rewrite upd_other in Hu by exact Hn. now apply L4. }
        intros k0 Hk Hz. destruct (L5 k0 Hk Hz) as [A B]. split; [exact A|].
        intros u i Hu Hku. destruct (Nat.eq_dec u t) as [->|Hn].
        * rewrite upd_same in Hu. inversion Hu; subst. exact Ht0.
        * rewrite upd_other in Hu by exact Hn. now apply B.
      + (* one part of a mutation is applied under the limits *)
        assert (Hm : mu s = Some t) by (apply HLt; reflexivity).
        assert (Hlog : is_log k = true) by (destruct k; cbn in E2; try lia; reflexivity).
        pose proof HI as (L1 & L2 & L3 & L4 & L5).
        destruct (L4 t i E0) as (j & Hj & Hpt & Hattr).
        specialize (L2 k Hlog).
        assert (Hkt : kindof t = Some k) by (unfold kindof; now rewrite E).
        destruct (lim_of (lims c) k) as [L|] eqn:Hlim.
        * destruct L2 as [HcL Hd].
          assert (Hji : (k = KAttr -> cnt KAttr s < L -> j = i) /\ (k <> KAttr -> j = i)).
          { split.
            - intros -> Hc. destruct (Nat.eq_dec j i); [assumption|]. destruct (Hattr Hkt) as (L' & HL' & Hc'); [lia|].
              cbn in Hlim. rewrite Hlim in HL'. inversion HL'; subst. lia.
            - intros Hk. destruct k; cbn in E2; try lia; try congruence. }
          destruct Hji as [Hja Hjo].
          destruct (cnt k s <? L) eqn:Hc.
          -- apply Nat.ltb_lt in Hc.
             assert (j = i) by (destruct k; [apply Hja; auto | apply Hjo; discriminate | apply Hjo; discriminate | cbn in Hlog; discriminate | cbn in Hlog; discriminate]).
             subst j.
             eapply (apply_append s _ t i k n Hr HI E E0 Hm E2); try reflexivity; try exact Hpt.
             ++ cbn. unfold new_drops. rewrite Hlim. fold (cnt k s). apply Nat.ltb_lt in Hc. now rewrite Hc.
             ++ cbn. unfold new_parts. rewrite Hlim. fold (cnt k s). assert (Hc' := Hc). apply Nat.ltb_lt in Hc'. rewrite Hc'.
                destruct k; try reflexivity; destruct (L =? 0) eqn:Hz; try reflexivity; apply Nat.eqb_eq in Hz; lia.
             ++ rewrite Hlim. exact Hc.
          -- apply Nat.ltb_ge in Hc. assert (HceL : cnt k s = L) by lia.
             destruct k; cbn in Hlog; try discriminate.
             ++ (* attribute over the limit *)
                eapply (apply_drop s _ t i KAttr n L Hr HI E E0 Hm E2); try reflexivity; try assumption.
                ** cbn. unfold new_drops. rewrite Hlim. fold (cnt KAttr s). apply Nat.ltb_ge in Hc. now rewrite Hc.
                ** cbn. unfold new_parts. rewrite Hlim. fold (cnt KAttr s). apply Nat.ltb_ge in Hc. now rewrite Hc.
             ++ assert (i = 0) by (cbn in E2; lia). subst i. destruct (L =? 0) eqn:Hz.
                ** eapply (apply_drop s _ t 0 KEvent n L Hr HI E E0 Hm E2); try reflexivity; try assumption.
                   --- cbn. unfold new_drops. rewrite Hlim. fold (cnt KEvent s). apply Nat.ltb_ge in Hc. now rewrite Hc.
                   --- cbn. unfold new_parts. rewrite Hlim. now rewrite Hz.
                ** apply Nat.eqb_neq in Hz.
                   eapply (apply_evict s _ t KEvent n L Hr HI E E0 Hm); try reflexivity; try assumption; [now left | | | lia].
                   --- cbn. unfold new_drops. rewrite Hlim. fold (cnt KEvent s). apply Nat.ltb_ge in Hc. now rewrite Hc.
                   --- cbn. unfold new_parts. rewrite Hlim. fold (cnt KEvent s). apply Nat.eqb_neq in Hz. rewrite Hz.
                       apply Nat.ltb_ge in Hc. now rewrite Hc.
             ++ assert (i = 0) by (cbn in E2; lia). subst i. destruct (L =? 0) eqn:Hz.
                ** eapply (apply_drop s _ t 0 KLink n L Hr HI E E0 Hm E2); try reflexivity; try assumption.
                   --- cbn. unfold new_drops. rewrite Hlim. fold (cnt KLink s). apply Nat.ltb_ge in Hc. now rewrite Hc.
                   --- cbn. unfold new_parts. rewrite Hlim. now rewrite Hz.
                ** apply Nat.eqb_neq in Hz.
                   eapply (apply_evict s _ t KLink n L Hr HI E E0 Hm); try reflexivity; try assumption; [now right | | | lia].
                   --- cbn. unfold new_drops. rewrite Hlim. fold (cnt KLink s). apply Nat.ltb_ge in Hc. now rewrite Hc.
                   --- cbn. unfold new_parts. rewrite Hlim. fold (cnt KLink s). apply Nat.eqb_neq in Hz. rewrite Hz.
                       apply Nat.ltb_ge in Hc. now rewrite Hc.
        * assert (j = i).
          { destruct (Nat.eq_dec j i); [assumption|]. destruct k; cbn in E2, Hlog; try discriminate; try lia.
            destruct (Hattr Hkt) as (L' & HL' & _); [lia|]. cbn in Hlim. congruence. }
          subst j.
          eapply (apply_append s _ t i k n Hr HI E E0 Hm E2); try reflexivity; try exact Hpt.
          -- cbn. unfold new_drops. now rewrite Hlim.
          -- cbn. unfold new_parts. now rewrite Hlim.
          -- now rewrite Hlim.
      + (* the mutation's critical section ends *)
        assert (Hm : mu s = Some t) by (apply HLt; reflexivity).
        destruct HI as (L1 & L2 & L3 & L4 & L5).
        assert (Hnp : np c t = nparts (OMut k n)) by (unfold np; now rewrite E).
        assert (Hi : i = np c t) by (specialize (D4 t i E0); lia).
        assert (Hother : forall u j, u <> t -> pcs s u <> MApply j).
        { intros u j Hn X. apply Hn. apply (holder_unique c s u t Hr); [now rewrite X | now rewrite E0]. }
        assert (HnoM : forall u j, upd (pcs s) t (Ret false) u <> MApply j).
        { intros u j. destruct (Nat.eq_dec u t) as [->|Hn]; [rewrite upd_same; discriminate | rewrite upd_other by exact Hn; now apply Hother]. }
        unfold InvL, cnt, inprog; cbn [parts drops applied mu pcs set_pc set_mu finish_mut].
        split.
        { intros k0 Hk. specialize (L1 k0 Hk). unfold inprog, cnt in L1. rewrite Hm, E0 in L1.
          unfold Ak in *. rewrite filter_app, sumnp_app. cbn [filter]. destruct (is_k k0 t); cbn [sumnp fold_right]; lia. }
        split; [exact L2|]. split.
        { intros m. destruct (L3 m) as (j & A & B & C). exists j. split; [exact A|]. split; [exact B|].
          intros Hj. left. apply in_or_app. destruct (C Hj) as [X|[i' X]]; [now left|].
          right. left. destruct (Nat.eq_dec m t); [congruence | exfalso; eapply Hother; eauto]. }
        split; [intros u j Hu; exfalso; eapply HnoM; eauto|].
        intros k0 Hk Hz. destruct (L5 k0 Hk Hz) as [A B]. split; [|intros u j Hu; exfalso; eapply HnoM; eauto].
        intros m Hin. unfold Ak in Hin. rewrite filter_app in Hin. apply in_app_iff in Hin as [Hin|Hin]; [now apply A|].
        cbn [filter] in Hin. destruct (is_k k0 t) eqn:Ekt; [|destruct Hin].
        destruct Hin as [<-|[]]. rewrite <- Hi. now apply B.
  Qed.

  (** ** Sums of offered parts against the ghost list of applied mutators *)
  Lemma sum_le_calls k evs : forall l, NoDup l ->
    (forall m, In m l -> exists n, In (EvCall m (OMut k n)) evs /\ np c m = nparts (OMut k n)) ->
    sumnp l <= offered k false evs.
  Proof.
    intros l. revert evs. induction l as [|m l IH]; intros evs Hnd H; [cbn; lia|].
    inversion Hnd as [|? ? Hm Hl]; subst.
    destruct (H m (or_introl eq_refl)) as (n & Hin & Hn).
    apply in_split in Hin as (e1 & e2 & ->).
    rewrite offered_app. cbn [offered negb andb]. rewrite mkind_eqb_refl.
    change (sumnp (m :: l)) with (np c m + sumnp l). rewrite Hn.
    assert (IH' : sumnp l <= offered k false (e1 ++ e2)).
    { apply IH; [exact Hl|]. intros m' Hm'. destruct (H m' (or_intror Hm')) as (n' & Hin' & Hn').
      exists n'. split; [|exact Hn']. apply in_app_iff in Hin' as [X|[X|X]]; apply in_app_iff; [now left| |now right].
      inversion X; subst. contradiction. }
    rewrite offered_app in IH'. lia.
  Qed.

  Definition is_mret (k : mkind) (e : event) : bool :=
    match e with EvRet _ (OMut k' _) _ => mkind_eqb k k' | _ => false end.

  Lemma sum_ge_rets k evs : forall l,
    NoDup (map ev_tid (filter (is_mret k) evs)) ->
    (forall m n r, In (EvRet m (OMut k n) r) evs -> In m l /\ np c m = nparts (OMut k n)) ->
    offered k true evs <= sumnp l.
  Proof.
    induction evs as [|e evs IH]; intros l Hnd H; [cbn; lia|].
    assert (Hskip : is_mret k e = false -> offered k true (e :: evs) <= sumnp l).
    { intros He. cbn [filter] in Hnd. rewrite He in Hnd.
      assert (X : offered k true (e :: evs) = offered k true evs).
      { destruct e as [t o|t o r|p sn]; [destruct o; reflexivity | | reflexivity].
        destruct o as [|k' n| |]; try reflexivity. cbn in He. cbn [offered andb]. now rewrite He. }
      rewrite X. apply IH; [exact Hnd | intros; eapply H; right; eauto]. }
    destruct (is_mret k e) eqn:He; [|now apply Hskip].
    destruct e as [|t o r|]; try discriminate. destruct o as [|k' n| |]; try discriminate.
    cbn in He. apply mkind_eqb_eq in He; subst k'.
    cbn [offered andb]. rewrite mkind_eqb_refl.
    cbn [filter is_mret] in Hnd. rewrite mkind_eqb_refl in Hnd.
    cbn [map ev_tid] in Hnd. inversion Hnd as [|? ? Hnt Hnd']; subst.
    destruct (H t n r (or_introl eq_refl)) as [Hin Hn]. apply in_split in Hin as (l1 & l2 & ->).
    rewrite sumnp_app. change (sumnp (t :: l2)) with (np c t + sumnp l2). rewrite Hn.
    assert (IH' : offered k true evs <= sumnp (l1 ++ l2)).
    { apply IH; [exact Hnd'|]. intros m n' r' Hin'. destruct (H m n' r' (or_intror Hin')) as [X Y]. split; [|exact Y].
      assert (m <> t).
      { intros ->. apply Hnt. apply in_map_iff. exists (EvRet t (OMut k n') r'). split; [reflexivity|].
        apply filter_In. split; [exact Hin' | cbn; apply mkind_eqb_refl]. }
      apply in_app_iff in X as [X|[X|X]]; apply in_app_iff; [now left | congruence | now right]. }
    rewrite sumnp_app in IH'. lia.
  Qed.

  (** Every call returns at most once. *)
  Definition is_ret_ev (e : event) : bool := match e with EvRet _ _ _ => true | _ => false end.

  Lemma invKR : forall s, R s -> NoDup (map ev_tid (filter is_ret_ev (hist s))).
  Proof.
    apply invariant; [constructor|].
    intros s t s' Hr K Hs. pose proof (invB c s Hr) as (B1 & B2 & B3 & B4 & B5 & B6).
    step_cases Hs; cbn; try assumption; rewrite filter_app, map_app; cbn; rewrite ?app_nil_r; try assumption.
    apply NoDup_snoc; [exact K|]. intros Hin. apply in_map_iff in Hin as [e [He Hin]].
    apply filter_In in Hin as [Hin Hc]. destruct e as [|u o' r'|]; try discriminate. cbn in He; subst u.
    destruct (B4 _ _ _ Hin) as [X _]. congruence.
  Qed.

  Lemma take_until_prefix {A} (p : A -> bool) l : exists r, l = take_until p l ++ r.
  Proof.
    induction l as [|x l [r IH]]; [exists []; reflexivity|]. cbn. destruct (p x); [exists (x :: l); reflexivity|].
    exists r. cbn. now rewrite <- IH.
  Qed.

  Lemma NoDup_map_filter_weaken {A B} (f : A -> B) (p q : A -> bool) l :
    (forall x, q x = true -> p x = true) -> NoDup (map f (filter p l)) -> NoDup (map f (filter q l)).
  Proof.
    intros Hqp. induction l as [|x l IH]; cbn; [auto|]. destruct (q x) eqn:Eq.
    - rewrite (Hqp x Eq). cbn. intros H. inversion H as [|? ? Hn Hd]; subst. constructor; [|now apply IH].
      intros Hin. apply Hn. apply in_map_iff in Hin as [y [Hy Hin]]. apply in_map_iff. exists y. split; [exact Hy|].
      apply filter_In in Hin as [Hin Hq]. apply filter_In. split; [exact Hin | now apply Hqp].
    - destruct (p x); cbn; [intros H; inversion H; subst; now apply IH | exact IH].
  Qed.

  Lemma NoDup_app_l {A} (a b : list A) : NoDup (a ++ b) -> NoDup a.
  Proof.
    induction a as [|x a IH]; cbn; intros H; [constructor|]. inversion H as [|? ? Hn Hd]; subst.
    constructor; [intros X; apply Hn; apply in_or_app; now left | now apply IH].
  Qed.

  Lemma mret_nodup s k : R s -> NoDup (map ev_tid (filter (is_mret k) (pre_end (hist s)))).
  Proof.
    intros Hr. pose proof (invKR s Hr) as K.
    destruct (take_until_prefix is_end_call (hist s)) as [r Hp]. unfold pre_end. rewrite Hp in K.
    rewrite filter_app, map_app in K. apply NoDup_app_l in K.
    eapply NoDup_map_filter_weaken; [|exact K]. intros [| ? [] ?|]; cbn; auto; discriminate.
  Qed.

  (** ** At a delivery: the snapshot of an ended span satisfies the limit clauses *)
  Section AtEnd.
    Variable s : state.
    Hypothesis Hr : R s.
    Hypothesis He : endt s <> 0.

    Lemma no_mapply t i : pcs s t <> MApply i.
    Proof. intros X. destruct (invC c s Hr) as (_ & _ & _ & _ & C5). apply He. eapply C5; eauto. Qed.

    Lemma inprog0 k : inprog k s = 0.
    Proof.
      unfold inprog. destruct (mu s) as [t|]; [|reflexivity]. destruct (pcs s t) eqn:E; try reflexivity.
      exfalso. eapply no_mapply; eauto.
    Qed.

    Lemma owner x : In x (parts s) -> In (fst x) (applied s).
    Proof.
      intros Hx. destruct (invL s Hr) as (_ & _ & L3 & _). destruct (L3 (fst x)) as (j & A & B & C).
      assert (Hin : In x (parts_of (fst x) (parts s))) by (now apply parts_of_in).
      rewrite B in Hin. destruct j; [destruct Hin|]. destruct C as [X|[i X]]; [lia | exact X | exfalso; eapply no_mapply; eauto].
    Qed.

    Lemma applied_call m : In m (applied s) ->
      exists k n, prog c m = Some (OMut k n) /\ In (EvCall m (OMut k n)) (cut (hist s)) /\
                  call_kind (cut (hist s)) m = Some (k, nparts (OMut k n)).
    Proof.
      intros Hm. destruct (invD c s Hr) as (_ & D3 & _). destruct (D3 m Hm) as [_ (k & n & Hp)].
      destruct (invE c s Hr) as (E1 & _). pose proof (E1 m _ Hm Hp) as Hin.
      destruct (invB c s Hr) as (_ & _ & _ & _ & B5 & _).
      exists k, n. split; [exact Hp|]. split; [exact Hin|].
      unfold call_kind.
      destruct (find (fun e => match e with EvCall t (OMut _ _) => t =? m | _ => false end) (cut (hist s))) as [e|] eqn:F.
      - apply find_some in F as [Fin Fp]. destruct e as [t o| |]; try discriminate. destruct o as [|k' n'| |]; try discriminate.
        apply Nat.eqb_eq in Fp; subst t.
        assert (X : prog c m = Some (OMut k' n')) by (apply B5; eapply take_until_incl; eauto).
        rewrite Hp in X. inversion X; subst. reflexivity.
      - exfalso. pose proof (find_none _ _ F _ Hin) as X. cbn in X. rewrite Nat.eqb_refl in X. discriminate.
    Qed.

    Lemma present_eq k : present_of (cut (hist s)) k (mk_snap s) = filter (is_kind c k) (parts s).
    Proof.
      unfold present_of. cbn [sn_parts mk_snap]. apply filter_ext_in. intros x Hx.
      destruct (applied_call (fst x) (owner x Hx)) as (k' & n & Hp & _ & Hc). rewrite Hc.
      unfold is_kind. now rewrite Hp.
    Qed.

    Lemma np_log m k n : prog c m = Some (OMut k n) -> 0 < np c m -> is_log k = true.
    Proof. unfold np. intros ->. destruct k; cbn; auto; lia. Qed.

    Lemma shape_reach : shape_ok (hist s) (mk_snap s) = true.
    Proof.
      unfold shape_ok. cbn [sn_parts mk_snap]. apply forallb_forall. intros x Hx.
      destruct (applied_call (fst x) (owner x Hx)) as (k & n & Hp & _ & Hc). rewrite Hc.
      destruct (invL s Hr) as (_ & _ & L3 & _). destruct (L3 (fst x)) as (j & A & B & _).
      assert (Hin : In x (parts_of (fst x) (parts s))) by (now apply parts_of_in).
      assert (Hnp : np c (fst x) = nparts (OMut k n)) by (unfold np; now rewrite Hp).
      apply andb_true_iff. split.
      - apply (np_log (fst x) k n Hp). rewrite B in Hin. destruct j; [destruct Hin | lia].
      - unfold prefix_ok. rewrite B, length_full. apply andb_true_iff. split; [now apply plist_eqb_eq|].
        apply Nat.leb_le. lia.
    Qed.

    Lemma kind_lim_reach k : is_log k = true -> kind_lim_ok (lims c) (drops s) (hist s) (mk_snap s) k = true.
    Proof.
      intros Hk. destruct (invL s Hr) as (L1 & L2 & L3 & L4 & L5).
      destruct (invD c s Hr) as (D2 & D3 & _). destruct (invE c s Hr) as (E1 & E2 & _).
      destruct (invB c s Hr) as (_ & _ & _ & B4 & _).
      specialize (L1 k Hk). rewrite inprog0, Nat.add_0_r in L1. specialize (L2 k Hk).
      unfold kind_lim_ok. rewrite present_eq. fold (countb (is_kind c k) (parts s)). fold (cnt k s).
      assert (Hlow : offered k true (pre_end (hist s)) <= cnt k s + d_of (drops s) k).
      { rewrite L1. apply sum_ge_rets; [now apply mret_nodup|].
        intros m n r Hin. pose proof (E2 _ _ _ _ Hin) as Hm.
        destruct (B4 _ _ _ (take_until_incl _ _ _ Hin)) as [_ Hp]. split.
        - unfold Ak. apply filter_In. split; [exact Hm|]. rewrite (is_k_of m k n k Hp). apply mkind_eqb_refl.
        - unfold np. now rewrite Hp. }
      assert (Hup : cnt k s + d_of (drops s) k <= offered k false (cut (hist s))).
      { rewrite L1. apply sum_le_calls; [unfold Ak; now apply NoDup_filter|].
        intros m Hm. unfold Ak in Hm. apply filter_In in Hm as [Hm Hkm].
        destruct (D3 m Hm) as [_ (k' & n & Hp)]. rewrite (is_k_of m k' n k Hp) in Hkm. apply mkind_eqb_eq in Hkm; subst k'.
        exists n. split; [now apply E1 | unfold np; now rewrite Hp]. }
      apply andb_true_iff; split; [apply andb_true_iff; split; [apply andb_true_iff; split|]|].
      - now apply Nat.leb_le.
      - now apply Nat.leb_le.
      - destruct (lim_of (lims c) k) as [L|]; [|now apply Nat.eqb_eq].
        destruct L2 as [A [B|B]]; apply andb_true_iff; (split; [now apply Nat.leb_le|]); apply orb_true_iff;
          [left | right]; now apply Nat.eqb_eq.
      - destruct (d_of (drops s) k =? 0) eqn:Ez; [|reflexivity]. cbn [negb orb]. apply Nat.eqb_eq in Ez.
        destruct (L5 k Hk Ez) as [A _]. apply andb_true_iff; split; apply forallb_forall.
        + intros e Hin. destruct e as [|m o r|]; try reflexivity. destruct o as [|k' n| |]; try reflexivity.
          destruct (mkind_eqb k k') eqn:Ek; [|reflexivity]. apply mkind_eqb_eq in Ek; subst k'.
          pose proof (E2 _ _ _ _ Hin) as Hm. destruct (B4 _ _ _ (take_until_incl _ _ _ Hin)) as [_ Hp].
          apply plist_eqb_eq. cbn [sn_parts mk_snap]. rewrite A.
          * unfold np. now rewrite Hp.
          * unfold Ak. apply filter_In. split; [exact Hm|]. rewrite (is_k_of m k n k Hp). apply mkind_eqb_refl.
        + intros x Hx. cbn [sn_parts mk_snap] in *.
          destruct (applied_call (fst x) (owner x Hx)) as (k' & n & Hp & _ & Hc). rewrite Hc.
          destruct (mkind_eqb k k') eqn:Ek; [|reflexivity]. apply mkind_eqb_eq in Ek; subst k'.
          apply plist_eqb_eq. rewrite A.
          * unfold np. now rewrite Hp.
          * unfold Ak. apply filter_In. split; [now apply owner|]. rewrite (is_k_of (fst x) k n k Hp). apply mkind_eqb_refl.
    Qed.

    Lemma snap_lim_reach : snap_lim_ok (lims c) (drops s) (hist s) (mk_snap s) = true.
    Proof.
      unfold snap_lim_ok. rewrite shape_reach, !kind_lim_reach by reflexivity.
      rewrite (children_reach c s Hr). cbn [sn_name sn_status sn_et mk_snap].
      rewrite (reg_name_reach c s Hr), (reg_status_reach c s Hr). cbn.
      destruct (endt s); [contradiction | reflexivity].
    Qed.
  End AtEnd.

  (** ** Every position of every history *)
  Lemma onend_ended s p sn : R s -> In (EvOnEnd p sn) (hist s) -> endt s <> 0.
  Proof.
    intros Hr Hin Hz. destruct (invC c s Hr) as (C1 & _). specialize (C1 Hz).
    assert (existsb is_cut (hist s) = true) by (apply existsb_exists; exists (EvOnEnd p sn); auto).
    congruence.
  Qed.

  Lemma lim_positions : forall s, R s ->
    forall pa p sn fu, hist s = pa ++ EvOnEnd p sn :: fu -> snap_lim_ok (lims c) (drops s) pa sn = true.
  Proof.
    apply (invariant (step c) init (fun s => forall pa p sn fu, hist s = pa ++ EvOnEnd p sn :: fu ->
                                                snap_lim_ok (lims c) (drops s) pa sn = true)).
    - intros pa p sn fu H. destruct pa; discriminate.
    - intros s t s' Hr IH Hs pa p sn fu Hh.
      assert (Hold : forall pa' fu', hist s = pa' ++ EvOnEnd p sn :: fu' -> snap_lim_ok (lims c) (drops s') pa' sn = true).
      { intros pa' fu' E. assert (Hne : endt s <> 0).
        { apply (onend_ended s p sn Hr). rewrite E. apply in_or_app. right. now left. }
        destruct (frozen c s t s' Hr Hne Hs) as (_ & _ & _ & ->). eapply IH; eauto. }
      destruct (emit_base c s t s' Hr Hs) as [H|[e [H He]]]; rewrite H in Hh; [eapply Hold; eauto|].
      destruct fu as [|f fu'] using rev_ind.
      + apply app_inj_tail in Hh as [<- ->]. destruct He as (_ & -> & Hne).
        destruct (frozen c s t s' Hr Hne Hs) as (_ & _ & _ & ->). now apply snap_lim_reach.
      + clear IHfu'. rewrite app_comm_cons, app_assoc in Hh. apply app_inj_tail in Hh as [Hh _]. eapply Hold; eauto.
  Qed.

  Lemma base_positions s : R s -> forall pa e fu, hist s = pa ++ e :: fu ->
    match e with
    | EvOnEnd p sn => onend_base (nprocs c) pa p sn = true
    | _ => ev_ok (nprocs c) pa e = true
    end.
  Proof.
    intros Hr pa e fu Hh.
    eapply (history_positions (step c) init hist
              (fun past e => match e with EvOnEnd p sn => onend_base (nprocs c) past p sn = true
                                        | _ => ev_ok (nprocs c) past e = true end)); eauto.
    intros s0 t s0' Hr0 Hs0. destruct (emit_base c s0 t s0' Hr0 Hs0) as [H|[e0 [H He0]]]; [now left|right].
    exists e0. split; [exact H|]. destruct e0; try exact He0. tauto.
  Qed.

  Lemma scan_lim_spec l P h : forall past,
    scan_lim l P past h = true <->
    (forall a x b, h = a ++ x :: b -> ev_lim_ok l P (past ++ a) (fst x) (snd x) = true).
  Proof.
    induction h as [|[e d] r IH]; intros past; cbn [scan_lim].
    - split; [|reflexivity]. intros _ a x b E. destruct a; discriminate.
    - rewrite andb_true_iff, IH. split.
      + intros [H1 H2] a x b E. destruct a as [|y a]; cbn in E; inversion E; subst.
        * now rewrite app_nil_r.
        * specialize (H2 a x b eq_refl). now rewrite <- app_assoc in H2.
      + intros H. split.
        * specialize (H [] (e, d) r eq_refl). now rewrite app_nil_r in H.
        * intros a x b E. specialize (H ((e, d) :: a) x b). cbn in H. rewrite <- app_assoc. cbn. apply H. now rewrite E.
  Qed.

  Lemma dropped_eqb_refl d : dropped_eqb d d = true.
  Proof. unfold dropped_eqb. now rewrite !Nat.eqb_refl. Qed.

  (** c10_spec_lim_ok: the history of every run, with the drop counts of its final state attached to
      each event, satisfies the specification under limits. *)
  Definition lim_hist (s : state) : list (event * dropped) := map (fun e => (e, drops s)) (hist s).

  Theorem lim_spec_holds s : R s -> spec_lim_ok (lims c) (nprocs c) (lim_hist s) = true.
  Proof.
    intros Hr. unfold spec_lim_ok, lim_hist.
    assert (Hfst : forall l, map fst (map (fun e : event => (e, drops s)) l) = l).
    { intros l. rewrite map_map. cbn. apply map_id. }
    rewrite Hfst. apply andb_true_iff. split.
    - apply scan_lim_spec. intros a x b E. cbn [app].
      apply map_eq_app in E as (pa & rest & Hh & <- & Hrest).
      apply map_eq_cons in Hrest as (e & fu & -> & <- & <-). cbn [fst snd].
      pose proof (base_positions s Hr pa e fu Hh) as Hb.
      unfold ev_lim_ok. rewrite Hfst. destruct e as [| |p sn]; try exact Hb.
      rewrite Hb, (lim_positions s Hr pa p sn fu Hh). cbn [andb]. rewrite andb_true_r.
      apply forallb_forall. intros y Hy. apply in_map_iff in Hy as [e' [<- _]]. cbn.
      destruct e'; auto. apply dropped_eqb_refl.
    - apply final_ok_SpecFinal. now apply final_holds.
  Qed.

  (** After the end the drop counts never change either. *)
  Theorem drops_frozen s sch s' : R s -> endt s <> 0 -> run (step c) s sch = Some s' -> drops s' = drops s.
  Proof.
    revert s. induction sch as [|t r IH]; cbn; intros s Hr He H.
    - now inversion H.
    - destruct (step c s t) as [s1|] eqn:Hs; [|discriminate].
      destruct (frozen c s t s1 Hr He Hs) as (_ & _ & _ & Hd). rewrite <- Hd.
      apply IH; [eapply Reach_step; eauto | | exact H]. rewrite (endt_mono c s t s1 Hs He). exact He.
  Qed.
End Lim.

(** * The status register *)
Lemma last_error_app a b acc : last_error (a ++ b) acc = last_error b (last_error a acc).
Proof. revert acc. induction a as [|[|m|] a IH]; intros acc; cbn; auto. Qed.

Lemma last_error_rank ws acc : srank acc <= 1 -> srank (last_error ws acc) <= 1.
Proof. revert acc. induction ws as [|[|m|] r IH]; intros acc H; cbn; auto. Qed.

Lemma status_after_snoc pre w : status_after (pre ++ [w]) = set_status (status_after pre) w.
Proof.
  unfold status_after. rewrite existsb_app, last_error_app. cbn [existsb last_error].
  destruct (existsb is_sok pre) eqn:E.
  - destruct w; reflexivity.
  - pose proof (last_error_rank pre SUnset ltac:(cbn; lia)) as Hr.
    destruct w as [|m|]; cbn [is_sok orb].
    + unfold set_status. destruct (last_error pre SUnset); cbn in *; try reflexivity; lia.
    + unfold set_status. destruct (last_error pre SUnset); cbn in *; try reflexivity; lia.
    + unfold set_status. destruct (last_error pre SUnset); cbn in *; try reflexivity.
Qed.

Lemma status_run_spec ws : forall pre,
  status_run (status_after pre) ws = map (fun i => status_after (pre ++ firstn (S i) ws)) (seq 0 (length ws)).
Proof.
  induction ws as [|w r IH]; intros pre; [reflexivity|].
  cbn [status_run length seq map firstn]. rewrite <- status_after_snoc. f_equal.
  rewrite (IH (pre ++ [w])). rewrite <- seq_shift, map_map.
  apply map_ext. intros i. now rewrite <- app_assoc.
Qed.

Lemma scodes_eqb_refl l : scodes_eqb l l = true.
Proof. induction l as [|[|m|] l IH]; cbn; auto. now rewrite Nat.eqb_refl. Qed.

Theorem status_spec_holds ws : status_spec ws (status_run SUnset ws) = true.
Proof.
  unfold status_spec. change SUnset with (status_after []). rewrite status_run_spec. cbn [app]. apply scodes_eqb_refl.
Qed.
