(** C10 property theorems: a span ends exactly once and the tracing API is safe
    under concurrent use.  Every theorem quantifies over ALL configurations [c]
    (number of processors, which call each of the unboundedly many thread ids issues)
    and ALL schedules [sch] of the span LTS of Model.v (fixed code, after 845ec5d).
    This file holds only statements closed by lemmas of Proofs.v, the axiom audit
    and non-vacuity examples. *)
From Coq Require Import List Arith Lia Bool.
From Verif Require Import Lib.LTS C10.Spec C10.Model C10.Proofs C10.ProofsLim.
Import ListNotations.

(** The recorded history of every run satisfies the whole specification: the
    executable judge that the harness applies to real histories accepts it. *)
Theorem c10_spec_ok : forall c sch s, lims c = no_limits -> run_c c init sch = Some s ->
  spec_ok (nprocs c) (hist s) = true.
Proof. intros c sch s Hu H. apply spec_ok_holds; [exact Hu | eapply run_reach; eauto]. Qed.
Print Assumptions c10_spec_ok.

(** The same under span limits: for ALL attribute / event / link count limits (0, any n, unlimited), ALL
    configurations and schedules, the history (each event paired with the drop counts of the final state,
    which are those of every delivery) satisfies the limit specification the harness applies to real
    histories: per kind, present + dropped lies between the parts offered by calls returned before the first
    End was invoked and by calls invoked before the end was visible; at most [limit] present and exactly
    [limit] if anything was dropped; a call's kept parts are a prefix of what it offered; a kind that
    dropped nothing obeys the unlimited atomic/present rules; one snapshot and one set of drop counts for
    all deliveries.  And after the end the drop counts never change. *)
Theorem c10_spec_lim_ok : forall c sch s, run_c c init sch = Some s ->
  spec_lim_ok (lims c) (nprocs c) (lim_hist s) = true /\
  (endt s <> 0 -> forall sch' s', run_c c s sch' = Some s' -> drops s' = drops s /\ mk_snap s' = mk_snap s).
Proof.
  intros c sch s H. pose proof (run_reach _ _ _ _ H) as Hr. split; [now apply lim_spec_holds|].
  intros He sch' s' H'. split; [eapply drops_frozen; eauto | eapply ended_is_frozen; eauto].
Qed.
Print Assumptions c10_spec_lim_ok.

(** The judge decides the Prop reading of the specification (so a real history it
    accepts satisfies every clause below, and one it rejects violates one). *)
Theorem c10_checker_sound : forall P h, spec_ok P h = true <-> Spec P h /\ SpecFinal P h.
Proof. exact spec_ok_iff. Qed.
Print Assumptions c10_checker_sound.

(** End exactly once: however many threads call End, each processor receives at most
    one OnEnd, only registered processors receive one, only after End was invoked, all
    deliveries carry one and the same snapshot with one non-zero end time; and once every
    call has returned and some End was invoked, every processor has received exactly one. *)
Theorem c10_end_once : forall c sch s, run_c c init sch = Some s ->
  (forall p, countb (is_onend_of p) (hist s) <= 1) /\
  (forall p sn, In (EvOnEnd p sn) (hist s) -> p < nprocs c) /\
  (forall p sn p' sn', In (EvOnEnd p sn) (hist s) -> In (EvOnEnd p' sn') (hist s) ->
                       sn = sn' /\ sn_et sn <> 0) /\
  (forall past p sn fut, hist s = past ++ EvOnEnd p sn :: fut -> has_end_call past = true) /\
  (Complete (hist s) -> has_end_call (hist s) = true ->
   forall p, p < nprocs c -> countb (is_onend_of p) (hist s) = 1).
Proof.
  intros c sch s H. pose proof (run_reach _ _ _ _ H) as Hr.
  pose proof (specw_holds c s Hr) as HS. pose proof (final_holds c s Hr) as HF.
  repeat split.
  - intros p. now apply (Spec_once (nprocs c)).
  - intros p sn. now apply Spec_registered.
  - eapply (Spec_one_snapshot (nprocs c)); eauto.
  - eapply (Spec_one_snapshot (nprocs c)); eauto.
  - intros past p sn fut E. rewrite E in HS. eapply Spec_after_end_call; eauto.
  - intros Hc He p Hp. pose proof (Spec_once (nprocs c) (hist s) p HS).
    destruct (HF Hc He p Hp) as [sn Hin].
    assert (countb (is_onend_of p) (hist s) <> 0).
    { intros Hz. apply countb_zero in Hz. apply not_true_iff_false in Hz. apply Hz.
      apply onend_exists. eauto. }
    lia.
Qed.
Print Assumptions c10_end_once.

(** Mutations are atomic with respect to the delivered snapshot: every mutator's parts
    are wholly present (and then it was invoked before the end became visible) or wholly
    absent; one that returned before the first End was invoked is present. *)
Theorem c10_mutation_atomic : forall c sch s, lims c = no_limits -> run_c c init sch = Some s ->
  forall past p sn fut, hist s = past ++ EvOnEnd p sn :: fut ->
  (forall m, parts_of m (sn_parts sn) = [] \/
             exists k n, In (EvCall m (OMut k n)) (cut past) /\ is_log k = true /\
                         parts_of m (sn_parts sn) = full m (nparts (OMut k n))) /\
  (forall m k n r, In (EvRet m (OMut k n) r) (pre_end past) -> is_log k = true ->
                   parts_of m (sn_parts sn) = full m (nparts (OMut k n))) /\
  reg_ok KName (sn_name sn) past = true /\ reg_ok KStatus (sn_status sn) past = true.
Proof.
  intros c sch s Hu H past p sn fut E. pose proof (run_reach _ _ _ _ H) as Hr.
  pose proof (spec_holds c Hu s Hr) as HS. rewrite E in HS. pose proof (Spec_snap _ _ _ _ _ HS) as Hsn.
  split; [|split].
  - intros m. now apply snap_atomic.
  - intros m k n r. now apply snap_present.
  - unfold snap_ok in Hsn. rewrite !andb_true_iff in Hsn. tauto.
Qed.
Print Assumptions c10_mutation_atomic.

(** The exported snapshot never changes afterwards: what was delivered equals what
    snapshot() would copy from the live span at any later time, and once the end time is
    set no step of any thread changes that. *)
Theorem c10_snapshot_stable : forall c sch s, run_c c init sch = Some s ->
  (forall p sn, In (EvOnEnd p sn) (hist s) -> sn = mk_snap s) /\
  (endt s <> 0 -> forall sch' s', run_c c s sch' = Some s' -> mk_snap s' = mk_snap s).
Proof.
  intros c sch s H. pose proof (run_reach _ _ _ _ H) as Hr. split.
  - intros p sn. now apply (delivered_is_live c).
  - intros He sch' s' H'. eapply ended_is_frozen; eauto.
Qed.
Print Assumptions c10_snapshot_stable.

(** IsRecording answers true only if it was invoked before any End returned or any
    delivery started, and false only if some End had been invoked. *)
Theorem c10_not_recording_after_end : forall c sch s, run_c c init sch = Some s ->
  forall past t r fut, hist s = past ++ EvRet t OIsRec r :: fut ->
  (r = true -> In (EvCall t OIsRec) (cut past)) /\ (r = false -> has_end_call past = true).
Proof.
  intros c sch s H past t r fut E. pose proof (run_reach _ _ _ _ H) as Hr.
  pose proof (specw_holds c s Hr) as HS. rewrite E in HS. eapply Spec_isrec; eauto.
Qed.
Print Assumptions c10_not_recording_after_end.

(** Child counts: every child whose Start returned before the first End was invoked is
    counted, nothing started after the end became visible is. *)
Theorem c10_child_count_exact : forall c sch s, run_c c init sch = Some s ->
  forall past p sn fut, hist s = past ++ EvOnEnd p sn :: fut ->
  countb is_child_ret (pre_end past) <= sn_children sn <= countb is_child_call (cut past).
Proof.
  intros c sch s H past p sn fut E. pose proof (run_reach _ _ _ _ H) as Hr.
  pose proof (specw_holds c s Hr) as HS. rewrite E in HS. eapply SpecW_children; eauto.
Qed.
Print Assumptions c10_child_count_exact.

(** No deadlock: in every reachable state, if some issued or pending call has not
    returned, some thread can take a step (the only stuck states are "all done"). *)
Theorem c10_no_deadlock : forall c sch s, run_c c init sch = Some s ->
  forall t o, prog c t = Some o -> pcs s t <> Done -> exists u, step c s u <> None.
Proof. intros c sch s H t o. apply no_deadlock. eapply run_reach; eauto. Qed.
Print Assumptions c10_no_deadlock.

(** What the fix excludes: with the lock released before the end time is set (the code
    before 845ec5d), two End callers reach a double delivery. *)
Theorem c10_end_once_prefix_refuted :
  exists sch s, run Old.ostep Old.oinit sch = Some s /\ Old.odelivered s = 2.
Proof. exact old_protocol_double_delivery. Qed.
Print Assumptions c10_end_once_prefix_refuted.

(** The status register, for every sequence of SetStatus calls on a recording span: Ok is final, Error
    overrides Unset and earlier Errors, Unset changes nothing. *)
Theorem c10_status_priority : forall ws, status_spec ws (status_run SUnset ws) = true.
Proof. exact status_spec_holds. Qed.
Print Assumptions c10_status_priority.

Example ex_status :
  status_run SUnset [SUnset; SError 1; SUnset; SError 3; SOk; SError 5; SUnset] =
    [SUnset; SError 1; SError 1; SError 3; SOk; SOk; SOk] /\
  status_spec [SError 1; SOk; SError 2] [SError 1; SOk; SError 2] = false.
Proof. split; reflexivity. Qed.

(** Non-vacuity: a concrete racing schedule (two End callers, a 2-attribute SetAttributes,
    a child Start, IsRecording, two processors) runs to completion, delivers, and its history
    is accepted; and a bad history is rejected by the judge. *)
Definition ex_cfg : cfg :=
  {| nprocs := 2;
     prog := fun t => nth_error [OEnd; OMut KAttr 2; OEnd; OChild; OIsRec; OMut KName 0] t;
     lims := no_limits |}.
Definition ex_sched : list nat :=
  [1;0;2;3;4;5; 1;1;1;1;1;1; 3;3;3; 0;0; 2;2; 4;4;4; 5;5;5; 0;0;0;0;0;0;0;0; 2].
Example ex_run :
  exists s, run_c ex_cfg init ex_sched = Some s /\
            countb (is_onend_of 0) (hist s) = 1 /\ countb (is_onend_of 1) (hist s) = 1 /\
            Complete (hist s) /\ has_end_call (hist s) = true /\
            existsb (fun e => match e with
                              | EvOnEnd 0 sn => plist_eqb (sn_parts sn) [(1, 0); (1, 1)] &&
                                                (sn_children sn =? 1) && (sn_et sn =? 1)
                              | _ => false end) (hist s) = true.
Proof.
  eexists. split; [vm_compute; reflexivity|].
  repeat split; try reflexivity.
  apply complete_b_Complete. vm_compute. reflexivity.
Qed.
(** Under limits: attribute limit 1, event limit 0 - the second attribute and the event are counted
    as dropped, the history is accepted by the limit judge. *)
Example ex_run_limits :
  let c := {| nprocs := 1; prog := fun t => nth_error [OMut KAttr 2; OMut KEvent 1; OEnd] t;
              lims := {| lim_attr := Some 1; lim_event := Some 0; lim_link := None |} |} in
  exists s, run_c c init [0;0;0;0;0;0;0; 1;1;1;1;1;1; 2;2;2;2;2;2;2;2;2;2] = Some s /\
            drops s = {| d_attr := 1; d_event := 1; d_link := 0 |} /\ parts s = [(0, 0)] /\
            spec_lim_ok (lims c) 1 (lim_hist s) = true.
Proof. eexists. split; [vm_compute; reflexivity|]. vm_compute. auto. Qed.

Example ex_double_delivery_rejected :
  let sn := {| sn_parts := []; sn_name := None; sn_status := None; sn_et := 1; sn_children := 0 |} in
  spec_ok 1 [EvCall 0 OEnd; EvCall 1 OEnd; EvOnEnd 0 sn; EvOnEnd 0 sn; EvRet 0 OEnd false; EvRet 1 OEnd false] = false.
Proof. vm_compute. reflexivity. Qed.
Example ex_torn_mutation_rejected :
  let sn := {| sn_parts := [(0, 0)]; sn_name := None; sn_status := None; sn_et := 1; sn_children := 0 |} in
  spec_ok 1 [EvCall 0 (OMut KAttr 2); EvCall 1 OEnd; EvOnEnd 0 sn; EvRet 0 (OMut KAttr 2) false; EvRet 1 OEnd false] = false.
Proof. vm_compute. reflexivity. Qed.
