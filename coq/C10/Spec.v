(** C10 specification: what a user of one span may observe, as a decidable
    predicate over a *history* of call / return / OnEnd events (chronological),
    written without reference to the model.

    A history is what the harness records around the real implementation (sequence
    numbers taken before a call is issued and after it returned, OnEnd deliveries
    stamped inside the processor), and what the model LTS records in its ghost
    history.  Every call carries a unique id [t] (the calling "thread": one call per
    id, so a goroutine issuing several calls is several ids ordered by real time).

    Mutations are identified by the id of their call.  A log-type mutation
    (SetAttributes with [n] fresh keys, AddEvent, AddLink, RecordError) shows in a
    snapshot as parts [(t,0) … (t,n-1)]; a register-type mutation (SetName,
    SetStatus(Error,desc)) shows as the visible name / status id. *)
From Coq Require Import List Arith Lia Bool.
From Verif Require Import Lib.LTS.
Import ListNotations.

Inductive mkind := KAttr | KEvent | KLink | KName | KStatus.
Inductive op := OEnd | OMut (k : mkind) (n : nat) | OChild | OIsRec.

(** What a processor sees of the span in OnEnd. *)
Record snap := {
  sn_parts : list (nat * nat);   (* log-type mutation parts present *)
  sn_name : option nat;          (* id of the SetName whose name is visible, None = original *)
  sn_status : option nat;        (* id of the SetStatus whose description is visible *)
  sn_et : nat;                   (* end time (0 = zero time = not ended) *)
  sn_children : nat              (* ChildSpanCount *)
}.

Inductive event :=
| EvCall (t : nat) (o : op)            (* call [t] of operation [o] is about to be issued *)
| EvRet (t : nat) (o : op) (r : bool)  (* call [t] returned; [r] = IsRecording's answer, false otherwise *)
| EvOnEnd (p : nat) (sn : snap).       (* processor [p] received OnEnd with snapshot [sn] *)

Definition is_log (k : mkind) : bool :=
  match k with KAttr | KEvent | KLink => true | _ => false end.

(** Number of parts a mutation contributes to [sn_parts]. *)
Definition nparts (o : op) : nat :=
  match o with
  | OMut KAttr n => n
  | OMut KEvent _ | OMut KLink _ => 1
  | _ => 0
  end.

Definition full (m n : nat) : list (nat * nat) := map (pair m) (seq 0 n).

(** ** Decidable equalities *)
Definition mkind_eqb (a b : mkind) : bool :=
  match a, b with
  | KAttr, KAttr | KEvent, KEvent | KLink, KLink | KName, KName | KStatus, KStatus => true
  | _, _ => false
  end.
Definition op_eqb (a b : op) : bool :=
  match a, b with
  | OEnd, OEnd | OChild, OChild | OIsRec, OIsRec => true
  | OMut k n, OMut k' n' => mkind_eqb k k' && (n =? n')
  | _, _ => false
  end.
Definition pair_eqb (a b : nat * nat) : bool := (fst a =? fst b) && (snd a =? snd b).
Fixpoint plist_eqb (a b : list (nat * nat)) : bool :=
  match a, b with
  | [], [] => true
  | x :: a', y :: b' => pair_eqb x y && plist_eqb a' b'
  | _, _ => false
  end.
Definition onat_eqb (a b : option nat) : bool :=
  match a, b with
  | None, None => true
  | Some x, Some y => x =? y
  | _, _ => false
  end.
Definition snap_eqb (a b : snap) : bool :=
  plist_eqb (sn_parts a) (sn_parts b) && onat_eqb (sn_name a) (sn_name b) &&
  onat_eqb (sn_status a) (sn_status b) && (sn_et a =? sn_et b) && (sn_children a =? sn_children b).
Definition event_eqb (a b : event) : bool :=
  match a, b with
  | EvCall t o, EvCall t' o' => (t =? t') && op_eqb o o'
  | EvRet t o r, EvRet t' o' r' => (t =? t') && op_eqb o o' && Bool.eqb r r'
  | EvOnEnd p sn, EvOnEnd p' sn' => (p =? p') && snap_eqb sn sn'
  | _, _ => false
  end.

(** ** Vocabulary over histories *)
Definition is_end_call (e : event) : bool := match e with EvCall _ OEnd => true | _ => false end.
(** An event after which the end of the span is certainly visible to everyone:
    some End returned, or a processor is being handed the span. *)
Definition is_cut (e : event) : bool :=
  match e with EvOnEnd _ _ => true | EvRet _ OEnd _ => true | _ => false end.
Definition is_onend_of (p : nat) (e : event) : bool :=
  match e with EvOnEnd q _ => q =? p | _ => false end.
Definition is_child_call (e : event) : bool := match e with EvCall _ OChild => true | _ => false end.
Definition is_child_ret (e : event) : bool := match e with EvRet _ OChild _ => true | _ => false end.
Definition thread_is (t : nat) (e : event) : bool :=
  match e with EvCall u _ | EvRet u _ _ => u =? t | EvOnEnd _ _ => false end.
Definition is_ret_of (t : nat) (e : event) : bool :=
  match e with EvRet u _ _ => u =? t | _ => false end.

Definition has_end_call (h : list event) : bool := existsb is_end_call h.
(** Everything that happened before the first End was invoked. *)
Definition pre_end (h : list event) : list event := take_until is_end_call h.
(** Everything that happened before the end became certainly visible. *)
Definition cut (h : list event) : list event := take_until is_cut h.
Definition mem_ev (e : event) (h : list event) : bool := existsb (event_eqb e) h.

Definition parts_of (m : nat) (l : list (nat * nat)) : list (nat * nat) :=
  filter (fun x => fst x =? m) l.

(** ** The snapshot clauses *)

(** Mutation [m] (a log-type call found in [calls]) is wholly present. *)
Definition whole_in (sn : snap) (calls : list event) (m : nat) : bool :=
  existsb (fun e => match e with
                    | EvCall t (OMut k n) =>
                        (t =? m) && is_log k && plist_eqb (parts_of m (sn_parts sn)) (full m (nparts (OMut k n)))
                    | _ => false
                    end) calls.

(** Atomicity: every part visible in the snapshot belongs to a log-type mutation
    that was invoked before the end was certainly visible and that is wholly present. *)
Definition atomic_ok (past : list event) (sn : snap) : bool :=
  forallb (fun x => whole_in sn (cut past) (fst x)) (sn_parts sn).

(** Every log-type mutation that returned before the first End was invoked is wholly present. *)
Definition present_ok (past : list event) (sn : snap) : bool :=
  forallb (fun e => match e with
                    | EvRet m (OMut k n) _ =>
                        if is_log k then plist_eqb (parts_of m (sn_parts sn)) (full m (nparts (OMut k n))) else true
                    | _ => true
                    end) (pre_end past).

(** Register [k] (name or status): the visible writer was invoked before the end was
    visible; the original value can only be visible if no writer returned before the
    first End was invoked. *)
Definition reg_ok (k : mkind) (v : option nat) (past : list event) : bool :=
  match v with
  | None => negb (existsb (fun e => match e with EvRet _ (OMut k' _) _ => mkind_eqb k k' | _ => false end) (pre_end past))
  | Some m => existsb (fun e => match e with EvCall t (OMut k' _) => (t =? m) && mkind_eqb k k' | _ => false end) (cut past)
  end.

(** Child count: children whose Start returned before the first End was invoked
    are counted; nothing started after the end was visible is. *)
Definition children_ok (past : list event) (sn : snap) : bool :=
  (countb is_child_ret (pre_end past) <=? sn_children sn) &&
  (sn_children sn <=? countb is_child_call (cut past)).

Definition snap_ok (past : list event) (sn : snap) : bool :=
  atomic_ok past sn && present_ok past sn &&
  reg_ok KName (sn_name sn) past && reg_ok KStatus (sn_status sn) past &&
  children_ok past sn && (0 <? sn_et sn).

(** ** The per-event clause.  [P] = number of registered processors, [past] = the
    history before the event. *)
Definition ev_ok (P : nat) (past : list event) (e : event) : bool :=
  match e with
  | EvCall t _ => negb (existsb (thread_is t) past)              (* ids are unique per call *)
  | EvRet t o r =>
      mem_ev (EvCall t o) past && negb (existsb (is_ret_of t) past) &&
      match o with
      | OIsRec =>
          (* true only if invoked before the end was visible; false only if some End was invoked *)
          if r then mem_ev (EvCall t OIsRec) (cut past) else has_end_call past
      | _ => negb r
      end
  | EvOnEnd p sn =>
      (p <? P) &&
      negb (existsb (is_onend_of p) past) &&                     (* at most once per processor *)
      has_end_call past &&                                       (* only after End was invoked *)
      forallb (fun e' => match e' with EvOnEnd _ sn' => snap_eqb sn' sn | _ => true end) past &&
                                                                 (* one snapshot, one end time *)
      snap_ok past sn
  end.

(** The part of the OnEnd clause that does not look into the snapshot. *)
Definition onend_base (P : nat) (past : list event) (p : nat) (sn : snap) : bool :=
  (p <? P) && negb (existsb (is_onend_of p) past) && has_end_call past &&
  forallb (fun e' => match e' with EvOnEnd _ sn' => snap_eqb sn' sn | _ => true end) past.

(** Prop reading: the clause holds at every position of the history. *)
Definition Spec (P : nat) (h : list event) : Prop :=
  forall past e fut, h = past ++ e :: fut -> ev_ok P past e = true.

(** The limit-independent part of the clauses (what holds of a span whatever its limits): everything about
    calls and returns, and for a delivery everything but the content of the parts. *)
Definition ev_w (P : nat) (past : list event) (e : event) : bool :=
  match e with
  | EvOnEnd p sn => onend_base P past p sn && children_ok past sn && (0 <? sn_et sn)
  | _ => ev_ok P past e
  end.
Definition SpecW (P : nat) (h : list event) : Prop :=
  forall past e fut, h = past ++ e :: fut -> ev_w P past e = true.

(** Completed histories (every call returned): if End was invoked, every
    processor received the span. *)
Definition complete_b (h : list event) : bool :=
  forallb (fun e => match e with EvCall t _ => existsb (is_ret_of t) h | _ => true end) h.
Definition final_ok (P : nat) (h : list event) : bool :=
  if complete_b h && has_end_call h
  then forallb (fun p => existsb (is_onend_of p) h) (seq 0 P)
  else true.

Definition Complete (h : list event) : Prop :=
  forall t o, In (EvCall t o) h -> exists o' r, In (EvRet t o' r) h.
Definition SpecFinal (P : nat) (h : list event) : Prop :=
  Complete h -> has_end_call h = true -> forall p, p < P -> exists sn, In (EvOnEnd p sn) h.

(** ** The executable judge used on recorded histories *)
Fixpoint scan (P : nat) (past h : list event) : bool :=
  match h with
  | [] => true
  | e :: r => ev_ok P past e && scan P (past ++ [e]) r
  end.

Definition spec_ok (P : nat) (h : list event) : bool := scan P [] h && final_ok P h.

(** "The exported snapshot never changes afterwards": re-reading the delivered
    ReadOnlySpan later gives what was delivered. *)
Definition stable_ok (h : list event) (rereads : list snap) : bool :=
  forallb (fun sn' => forallb (fun e => match e with EvOnEnd _ sn => snap_eqb sn sn' | _ => true end) h) rereads.

(** * Span limits (judged on recorded histories only; the LTS of Model.v has unlimited spans).
    With a limit the atomicity rule changes shape: SetAttributes keeps a prefix of its attributes
    until the limit is reached and counts the rest as dropped; events / links beyond the limit evict
    the oldest (limit 0: nothing is kept).  What stays exact is the accounting: for each kind,
    present + dropped = the parts offered by the calls that took effect, which lies between the parts
    offered by calls that returned before the first End was invoked and those offered by calls invoked
    before the end was visible; and a kind that dropped nothing obeys the unlimited rules. *)
Record limits := { lim_attr : option nat; lim_event : option nat; lim_link : option nat }.  (* None = unlimited *)
Record dropped := { d_attr : nat; d_event : nat; d_link : nat }.

Definition lim_of (l : limits) (k : mkind) : option nat :=
  match k with KAttr => lim_attr l | KEvent => lim_event l | KLink => lim_link l | _ => None end.
Definition d_of (d : dropped) (k : mkind) : nat :=
  match k with KAttr => d_attr d | KEvent => d_event d | KLink => d_link d | _ => 0 end.
Definition dropped_eqb (a b : dropped) : bool :=
  (d_attr a =? d_attr b) && (d_event a =? d_event b) && (d_link a =? d_link b).

(** Kind and size of the call that produced a part. *)
Definition call_kind (calls : list event) (m : nat) : option (mkind * nat) :=
  match find (fun e => match e with EvCall t (OMut _ _) => t =? m | _ => false end) calls with
  | Some (EvCall _ (OMut k n)) => Some (k, nparts (OMut k n))
  | _ => None
  end.

Fixpoint offered (k : mkind) (rets : bool) (evs : list event) : nat :=
  match evs with
  | [] => 0
  | EvCall _ (OMut k' n) :: r => (if negb rets && mkind_eqb k k' then nparts (OMut k' n) else 0) + offered k rets r
  | EvRet _ (OMut k' n) _ :: r => (if rets && mkind_eqb k k' then nparts (OMut k' n) else 0) + offered k rets r
  | _ :: r => offered k rets r
  end.

Definition present_of (calls : list event) (k : mkind) (sn : snap) : list (nat * nat) :=
  filter (fun x => match call_kind calls (fst x) with Some (k', _) => mkind_eqb k k' | None => false end) (sn_parts sn).

Definition prefix_ok (m n : nat) (ps : list (nat * nat)) : bool :=
  plist_eqb ps (full m (length ps)) && (length ps <=? n).

Definition kind_lim_ok (lims : limits) (d : dropped) (past : list event) (sn : snap) (k : mkind) : bool :=
  let present := present_of (cut past) k sn in
  let total := length present + d_of d k in
  (offered k true (pre_end past) <=? total) && (total <=? offered k false (cut past)) &&
  match lim_of lims k with
  | None => d_of d k =? 0
  | Some L => (length present <=? L) && ((d_of d k =? 0) || (length present =? L))
  end &&
  (* nothing dropped: wholly present or absent, present if returned before End was invoked *)
  (negb (d_of d k =? 0) ||
   (forallb (fun e => match e with
                      | EvRet m (OMut k' n) _ =>
                          if mkind_eqb k k' then plist_eqb (parts_of m (sn_parts sn)) (full m (nparts (OMut k' n))) else true
                      | _ => true end) (pre_end past) &&
    forallb (fun x => match call_kind (cut past) (fst x) with
                      | Some (k', n) => if mkind_eqb k k' then plist_eqb (parts_of (fst x) (sn_parts sn)) (full (fst x) n) else true
                      | None => false end) (sn_parts sn))).

(** Every visible part belongs to a log-type call invoked before the end was visible and the parts
    of one call form a prefix of what it offered. *)
Definition shape_ok (past : list event) (sn : snap) : bool :=
  forallb (fun x => match call_kind (cut past) (fst x) with
                    | Some (k, n) => is_log k && prefix_ok (fst x) n (parts_of (fst x) (sn_parts sn))
                    | None => false end) (sn_parts sn).

Definition snap_lim_ok (lims : limits) (d : dropped) (past : list event) (sn : snap) : bool :=
  shape_ok past sn &&
  kind_lim_ok lims d past sn KAttr && kind_lim_ok lims d past sn KEvent && kind_lim_ok lims d past sn KLink &&
  reg_ok KName (sn_name sn) past && reg_ok KStatus (sn_status sn) past &&
  children_ok past sn && (0 <? sn_et sn).

(** History with the drop counts observed at each OnEnd. *)
Definition ev_lim_ok (lims : limits) (P : nat) (past : list (event * dropped)) (e : event) (d : dropped) : bool :=
  let pe := map fst past in
  match e with
  | EvOnEnd p sn =>
      onend_base P pe p sn &&
      forallb (fun x => match fst x with EvOnEnd _ _ => dropped_eqb (snd x) d | _ => true end) past &&
      snap_lim_ok lims d pe sn
  | _ => ev_ok P pe e
  end.

Fixpoint scan_lim (lims : limits) (P : nat) (past h : list (event * dropped)) : bool :=
  match h with
  | [] => true
  | (e, d) :: r => ev_lim_ok lims P past e d && scan_lim lims P (past ++ [(e, d)]) r
  end.

Definition spec_lim_ok (lims : limits) (P : nat) (h : list (event * dropped)) : bool :=
  scan_lim lims P [] h && final_ok P (map fst h).

(** Later re-reads (delivered snapshot, live span) show the same content and the same drop counts. *)
Definition stable_lim_ok (h : list (event * dropped)) (rereads : list (snap * dropped)) : bool :=
  forallb (fun r => forallb (fun x => match fst x with
                                      | EvOnEnd _ sn => snap_eqb sn (fst r) && dropped_eqb (snd x) (snd r)
                                      | _ => true end) h) rereads.

(** * The status register: Ok is final, Error overrides Unset and an earlier Error, Unset never changes anything.
    [ws] = the SetStatus calls made on a recording span, in order ([SError m] = call [m] with code Error);
    the status read after the i-th call is determined by the calls so far. *)
Inductive scode := SUnset | SError (m : nat) | SOk.

Definition scode_eqb (a b : scode) : bool :=
  match a, b with
  | SUnset, SUnset | SOk, SOk => true
  | SError m, SError n => m =? n
  | _, _ => false
  end.
Definition is_sok (c : scode) : bool := match c with SOk => true | _ => false end.

Fixpoint last_error (ws : list scode) (acc : scode) : scode :=
  match ws with
  | [] => acc
  | SError m :: r => last_error r (SError m)
  | _ :: r => last_error r acc
  end.

Definition status_after (ws : list scode) : scode :=
  if existsb is_sok ws then SOk else last_error ws SUnset.

Fixpoint scodes_eqb (a b : list scode) : bool :=
  match a, b with
  | [], [] => true
  | x :: a', y :: b' => scode_eqb x y && scodes_eqb a' b'
  | _, _ => false
  end.

(** [reads] = the status read after each call. *)
Definition status_spec (ws reads : list scode) : bool :=
  scodes_eqb reads (map (fun i => status_after (firstn (S i) ws)) (seq 0 (length ws))).
