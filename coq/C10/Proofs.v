(** C10 proofs. Part 1: facts about the specification alone (reflection of the
    decidable equalities, [scan] = the clause at every position).  Part 2: invariants of
    the span LTS over arbitrary schedules and any number of threads.  Part 3: the clauses. *)
From Coq Require Import List Arith Lia Bool.
From Verif Require Import Lib.LTS C10.Spec C10.Model.
Import ListNotations.

(** * Part 1: the specification *)

Lemma mkind_eqb_eq a b : mkind_eqb a b = true <-> a = b.
Proof. destruct a, b; cbn; split; congruence. Qed.

Lemma op_eqb_eq a b : op_eqb a b = true <-> a = b.
Proof.
  destruct a, b; cbn; split; try congruence; intro H.
  - apply andb_true_iff in H as [H1 H2]. apply mkind_eqb_eq in H1. apply Nat.eqb_eq in H2. congruence.
  - inversion H; subst. apply andb_true_iff; split; [now apply mkind_eqb_eq | apply Nat.eqb_refl].
Qed.

Lemma pair_eqb_eq a b : pair_eqb a b = true <-> a = b.
Proof.
  destruct a, b; unfold pair_eqb; cbn. rewrite andb_true_iff, !Nat.eqb_eq. split; [intros []|intro H; inversion H]; subst; auto.
Qed.

Lemma plist_eqb_eq a b : plist_eqb a b = true <-> a = b.
Proof.
  revert b; induction a as [|x a IH]; intros [|y b]; cbn; split; intro H; try congruence.
  - apply andb_true_iff in H as [H1 H2]. apply pair_eqb_eq in H1. apply IH in H2. congruence.
  - inversion H; subst. apply andb_true_iff; split; [now apply pair_eqb_eq | now apply IH].
Qed.

Lemma onat_eqb_eq a b : onat_eqb a b = true <-> a = b.
Proof.
  destruct a, b; cbn; split; try congruence; intro H.
  - apply Nat.eqb_eq in H; congruence.
  - inversion H; apply Nat.eqb_refl.
Qed.

Lemma snap_eqb_eq a b : snap_eqb a b = true <-> a = b.
Proof.
  destruct a, b; unfold snap_eqb; cbn.
  rewrite !andb_true_iff, plist_eqb_eq, !onat_eqb_eq, !Nat.eqb_eq.
  split; [intros [[[[? ?] ?] ?] ?]; subst; reflexivity | intro H; inversion H; subst; auto].
Qed.

Lemma event_eqb_eq a b : event_eqb a b = true <-> a = b.
Proof.
  destruct a, b; cbn; split; try congruence; intro H.
  - apply andb_true_iff in H as [H1 H2]. apply Nat.eqb_eq in H1. apply op_eqb_eq in H2. congruence.
  - inversion H; subst. apply andb_true_iff; split; [apply Nat.eqb_refl | now apply op_eqb_eq].
  - apply andb_true_iff in H as [H1 H3]. apply andb_true_iff in H1 as [H1 H2].
    apply Nat.eqb_eq in H1. apply op_eqb_eq in H2. apply eqb_prop in H3. congruence.
  - inversion H; subst. rewrite Nat.eqb_refl, eqb_reflx. cbn. rewrite andb_true_r. now apply op_eqb_eq.
  - apply andb_true_iff in H as [H1 H2]. apply Nat.eqb_eq in H1. apply snap_eqb_eq in H2. congruence.
  - inversion H; subst. apply andb_true_iff; split; [apply Nat.eqb_refl | now apply snap_eqb_eq].
Qed.

Lemma mem_ev_In e h : mem_ev e h = true <-> In e h.
Proof.
  unfold mem_ev. rewrite existsb_exists. split.
  - intros [x [H1 H2]]. apply event_eqb_eq in H2. now subst.
  - intro H. exists e. split; [exact H | now apply event_eqb_eq].
Qed.

(** [scan] checks the clause at every position. *)
Lemma scan_spec P h : forall past,
  scan P past h = true <->
  (forall a e b, h = a ++ e :: b -> ev_ok P (past ++ a) e = true).
Proof.
  induction h as [|x r IH]; intros past; cbn.
  - split; [|reflexivity]. intros _ a e b E. destruct a; discriminate.
  - rewrite andb_true_iff, IH. split.
    + intros [H1 H2] a e b E. destruct a as [|y a]; cbn in E; inversion E; subst.
      * now rewrite app_nil_r.
      * specialize (H2 a e b eq_refl). now rewrite <- app_assoc in H2.
    + intros H. split.
      * specialize (H [] x r eq_refl). now rewrite app_nil_r in H.
      * intros a e b E. specialize (H (x :: a) e b). cbn in H. rewrite <- app_assoc. cbn. apply H. now rewrite E.
Qed.

Lemma scan_Spec P h : scan P [] h = true <-> Spec P h.
Proof. rewrite scan_spec. reflexivity. Qed.

Lemma complete_b_Complete h : complete_b h = true <-> Complete h.
Proof.
  unfold complete_b, Complete. rewrite forallb_forall. split.
  - intros H t o Hin. specialize (H _ Hin). cbn in H. apply existsb_exists in H as [x [Hx Hr]].
    destruct x as [| u o' r |]; try discriminate. cbn in Hr. apply Nat.eqb_eq in Hr; subst. eauto.
  - intros H [t o| |] Hin; auto. destruct (H t o Hin) as [o' [r Hr]].
    apply existsb_exists. exists (EvRet t o' r). split; [exact Hr | cbn; apply Nat.eqb_refl].
Qed.

Lemma onend_exists p h : existsb (is_onend_of p) h = true <-> exists sn, In (EvOnEnd p sn) h.
Proof.
  rewrite existsb_exists. split.
  - intros [x [Hx Hp]]. destruct x as [| |q sn]; try discriminate. cbn in Hp. apply Nat.eqb_eq in Hp; subst. eauto.
  - intros [sn H]. exists (EvOnEnd p sn). split; [exact H | cbn; apply Nat.eqb_refl].
Qed.

Lemma final_ok_SpecFinal P h : final_ok P h = true <-> SpecFinal P h.
Proof.
  unfold final_ok, SpecFinal. destruct (complete_b h) eqn:Ec; cbn.
  - apply complete_b_Complete in Ec. destruct (has_end_call h) eqn:Eh.
    + rewrite forallb_forall. split.
      * intros H _ _ p Hp. apply onend_exists. apply H. apply in_seq. lia.
      * intros H p Hp. apply in_seq in Hp. apply onend_exists. apply H; auto. lia.
    + split; [intros _ _ H; discriminate | reflexivity].
  - split; [|reflexivity]. intros _ Hc. apply complete_b_Complete in Hc. congruence.
Qed.

(** The executable judge decides the specification. *)
Lemma spec_ok_iff P h : spec_ok P h = true <-> Spec P h /\ SpecFinal P h.
Proof. unfold spec_ok. now rewrite andb_true_iff, scan_Spec, final_ok_SpecFinal. Qed.

(** * Part 2: invariants of the LTS *)

Ltac step_cases H :=
  unfold step in H;
  repeat match type of H with
  | match ?x with _ => _ end = Some _ => let E := fresh "E" in destruct x eqn:E; try discriminate
  | (if ?x then _ else _) = Some _ => let E := fresh "E" in destruct x eqn:E; try discriminate
  end;
  inversion H; subst; clear H.

(** Which program counters hold the span mutex, and which belong to which operation. *)
Definition holds (p : pc) : bool :=
  match p with ECrit | ESnap | MCrit | MApply _ | CCrit | RCrit => true | _ => false end.

Definition pc_op (o : op) (p : pc) : bool :=
  match p with
  | Idle | Called | Done => true
  | Ret r => match o with OIsRec => true | _ => negb r end
  | ECrit | ETask | EProcs | ESnapW | ESnap | EDeliver _ _ => match o with OEnd => true | _ => false end
  | MCrit | MApply _ => match o with OMut _ _ => true | _ => false end
  | CCrit => match o with OChild => true | _ => false end
  | RCrit => match o with OIsRec => true | _ => false end
  end.

Section Inv.
  Variable c : cfg.
  Notation R := (Reach (step c) init).

  Definition InvA (s : state) : Prop :=
    (forall t, holds (pcs s t) = true <-> mu s = Some t) /\
    (forall t, match prog c t with Some o => pc_op o (pcs s t) = true | None => pcs s t = Idle end).

  Lemma invA : forall s, R s -> InvA s.
  Proof.
    apply invariant.
    - split; cbn; intros t; [split; discriminate | now destruct (prog c t)].
    - intros s t s' _ [HL HP] Hs.
      assert (Ht := HP t). assert (HLt := HL t).
      step_cases Hs; cbn in Ht; cbn in HLt.
      all: split; cbn; intros u; destruct (Nat.eq_dec u t) as [->|Hn];
        [ rewrite upd_same | rewrite (upd_other _ _ _ _ Hn); specialize (HL u)
        | rewrite upd_same | rewrite (upd_other _ _ _ _ Hn); apply HP ].
      all: cbn; try rewrite E.
      all: try (destruct (nprocs c =? 0)); cbn.
      all: try (destruct o; cbn in *; congruence).
      all: try (assert (Hm : mu s = Some t) by (now apply HLt)).
      all: try (intuition congruence).
      all: destruct o; cbn; tauto.
  Qed.

  Lemma holder_unique s t u : R s -> holds (pcs s t) = true -> holds (pcs s u) = true -> t = u.
  Proof. intros Hr H1 H2. destruct (invA s Hr) as [HL _]. apply HL in H1, H2. congruence. Qed.

  Lemma pc_prog s t : R s -> pcs s t <> Idle -> exists o, prog c t = Some o /\ pc_op o (pcs s t) = true.
  Proof.
    intros Hr H. destruct (invA s Hr) as [_ HP]. specialize (HP t).
    destruct (prog c t) as [o|]; [eauto | contradiction].
  Qed.

  (** History and program counters agree. *)
  Definition InvB (s : state) : Prop :=
    (forall t, pcs s t = Idle -> existsb (thread_is t) (hist s) = false) /\
    (forall t o, prog c t = Some o -> pcs s t <> Idle -> In (EvCall t o) (hist s)) /\
    (forall t, pcs s t <> Done -> existsb (is_ret_of t) (hist s) = false) /\
    (forall t o r, In (EvRet t o r) (hist s) -> pcs s t = Done /\ prog c t = Some o) /\
    (forall t o, In (EvCall t o) (hist s) -> prog c t = Some o) /\
    (forall t o, prog c t = Some o -> pcs s t = Done -> exists r, In (EvRet t o r) (hist s)).

  Lemma invB : forall s, R s -> InvB s.
  Proof.
    apply invariant.
    - repeat split; cbn in *; intros; try tauto; try congruence; try discriminate.
    - intros s t s' _ (B1 & B2 & B3 & B4 & B5 & B6) Hs.
      step_cases Hs; cbn.
      all: repeat split; intros.
      1: match goal with H : context [upd _ ?t _ ?u] |- _ => idtac "found" u t; destruct (Nat.eq_dec u t); [subst|] end.
      Show.
      all: upd_cases.
      all: rewrite ?existsb_app_tail, ?in_app_iff in *; cbn in *.
      all: rewrite ?orb_false_r, ?orb_false_iff, ?Nat.eqb_neq in *.
      all: try congruence.
      all: eauto.
      Show.
  Qed.
End Inv.
