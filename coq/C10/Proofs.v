(** C10 proofs. Part 1: facts about the specification alone (reflection of the
    decidable equalities, [scan] = the clause at every position).  Part 2: invariants of
    the span LTS over arbitrary schedules and any number of threads.  Part 3: the clauses. *)
From Coq Require Import List Arith Lia Bool.
From Verif Require Import Lib.LTS C10.Spec C10.Model.
Import ListNotations.

(** * Part 1: the specification *)

Lemma mkind_eqb_eq a b : mkind_eqb a b = true <-> a = b.
Proof. destruct a, b; cbn; split; congruence. Qed.

Lemma op_eqb_eq a b : op_eqb a b = true <-> a = b.
Proof.
  destruct a, b; cbn; split; try congruence; intro H.
  - apply andb_true_iff in H as [H1 H2]. apply mkind_eqb_eq in H1. apply Nat.eqb_eq in H2. congruence.
  - inversion H; subst. apply andb_true_iff; split; [now apply mkind_eqb_eq | apply Nat.eqb_refl].
Qed.

Lemma pair_eqb_eq a b : pair_eqb a b = true <-> a = b.
Proof.
  destruct a, b; unfold pair_eqb; cbn. rewrite andb_true_iff, !Nat.eqb_eq. split; [intros []|intro H; inversion H]; subst; auto.
Qed.

Lemma plist_eqb_eq a b : plist_eqb a b = true <-> a = b.
Proof.
  revert b; induction a as [|x a IH]; intros [|y b]; cbn; split; intro H; try congruence.
  - apply andb_true_iff in H as [H1 H2]. apply pair_eqb_eq in H1. apply IH in H2. congruence.
  - inversion H; subst. apply andb_true_iff; split; [now apply pair_eqb_eq | now apply IH].
Qed.

Lemma onat_eqb_eq a b : onat_eqb a b = true <-> a = b.
Proof.
  destruct a, b; cbn; split; try congruence; intro H.
  - apply Nat.eqb_eq in H; congruence.
  - inversion H; apply Nat.eqb_refl.
Qed.

Lemma snap_eqb_eq a b : snap_eqb a b = true <-> a = b.
Proof.
  destruct a, b; unfold snap_eqb; cbn.
  rewrite !andb_true_iff, plist_eqb_eq, !onat_eqb_eq, !Nat.eqb_eq.
  split; [intros [[[[? ?] ?] ?] ?]; subst; reflexivity | intro H; inversion H; subst; auto].
Qed.

Lemma event_eqb_eq a b : event_eqb a b = true <-> a = b.
Proof.
  destruct a, b; cbn; split; try congruence; intro H.
  - apply andb_true_iff in H as [H1 H2]. apply Nat.eqb_eq in H1. apply op_eqb_eq in H2. congruence.
  - inversion H; subst. apply andb_true_iff; split; [apply Nat.eqb_refl | now apply op_eqb_eq].
  - apply andb_true_iff in H as [H1 H3]. apply andb_true_iff in H1 as [H1 H2].
    apply Nat.eqb_eq in H1. apply op_eqb_eq in H2. apply eqb_prop in H3. congruence.
  - inversion H; subst. rewrite Nat.eqb_refl, eqb_reflx. cbn. rewrite andb_true_r. now apply op_eqb_eq.
  - apply andb_true_iff in H as [H1 H2]. apply Nat.eqb_eq in H1. apply snap_eqb_eq in H2. congruence.
  - inversion H; subst. apply andb_true_iff; split; [apply Nat.eqb_refl | now apply snap_eqb_eq].
Qed.

Lemma mem_ev_In e h : mem_ev e h = true <-> In e h.
Proof.
  unfold mem_ev. rewrite existsb_exists. split.
  - intros [x [H1 H2]]. apply event_eqb_eq in H2. now subst.
  - intro H. exists e. split; [exact H | now apply event_eqb_eq].
Qed.

(** [scan] checks the clause at every position. *)
Lemma scan_spec P h : forall past,
  scan P past h = true <->
  (forall a e b, h = a ++ e :: b -> ev_ok P (past ++ a) e = true).
Proof.
  induction h as [|x r IH]; intros past; cbn.
  - split; [|reflexivity]. intros _ a e b E. destruct a; discriminate.
  - rewrite andb_true_iff, IH. split.
    + intros [H1 H2] a e b E. destruct a as [|y a]; cbn in E; inversion E; subst.
      * now rewrite app_nil_r.
      * specialize (H2 a e b eq_refl). now rewrite <- app_assoc in H2.
    + intros H. split.
      * specialize (H [] x r eq_refl). now rewrite app_nil_r in H.
      * intros a e b E. specialize (H (x :: a) e b). cbn in H. rewrite <- app_assoc. cbn. apply H. now rewrite E.
Qed.

Lemma scan_Spec P h : scan P [] h = true <-> Spec P h.
Proof. rewrite scan_spec. reflexivity. Qed.

Lemma complete_b_Complete h : complete_b h = true <-> Complete h.
Proof.
  unfold complete_b, Complete. rewrite forallb_forall. split.
  - intros H t o Hin. specialize (H _ Hin). cbn in H. apply existsb_exists in H as [x [Hx Hr]].
    destruct x as [| u o' r |]; try discriminate. cbn in Hr. apply Nat.eqb_eq in Hr; subst. eauto.
  - intros H [t o| |] Hin; auto. destruct (H t o Hin) as [o' [r Hr]].
    apply existsb_exists. exists (EvRet t o' r). split; [exact Hr | cbn; apply Nat.eqb_refl].
Qed.

Lemma onend_exists p h : existsb (is_onend_of p) h = true <-> exists sn, In (EvOnEnd p sn) h.
Proof.
  rewrite existsb_exists. split.
  - intros [x [Hx Hp]]. destruct x as [| |q sn]; try discriminate. cbn in Hp. apply Nat.eqb_eq in Hp; subst. eauto.
  - intros [sn H]. exists (EvOnEnd p sn). split; [exact H | cbn; apply Nat.eqb_refl].
Qed.

Lemma final_ok_SpecFinal P h : final_ok P h = true <-> SpecFinal P h.
Proof.
  unfold final_ok, SpecFinal. destruct (complete_b h) eqn:Ec; cbn.
  - apply complete_b_Complete in Ec. destruct (has_end_call h) eqn:Eh.
    + rewrite forallb_forall. split.
      * intros H _ _ p Hp. apply onend_exists. apply H. apply in_seq. lia.
      * intros H p Hp. apply in_seq in Hp. apply onend_exists. apply H; auto. lia.
    + split; [intros _ _ H; discriminate | reflexivity].
  - split; [|reflexivity]. intros _ Hc. apply complete_b_Complete in Hc. congruence.
Qed.

(** The executable judge decides the specification. *)
Lemma spec_ok_iff P h : spec_ok P h = true <-> Spec P h /\ SpecFinal P h.
Proof. unfold spec_ok. now rewrite andb_true_iff, scan_Spec, final_ok_SpecFinal. Qed.

(** ** Parts lists *)
Lemma full_S m i : full m (S i) = full m i ++ [(m, i)].
Proof. unfold full. rewrite seq_S, map_app. reflexivity. Qed.

Lemma full_0 m : full m 0 = [].
Proof. reflexivity. Qed.

Lemma in_full x m n : In x (full m n) <-> fst x = m /\ snd x < n.
Proof.
  unfold full. rewrite in_map_iff. split.
  - intros [k [<- Hk]]. apply in_seq in Hk. cbn. split; [reflexivity | lia].
  - intros [<- Hn]. exists (snd x). split; [now destruct x | apply in_seq; lia].
Qed.

Lemma parts_of_app m a b : parts_of m (a ++ b) = parts_of m a ++ parts_of m b.
Proof. apply filter_app. Qed.

Lemma parts_of_full_same m n : parts_of m (full m n) = full m n.
Proof.
  unfold parts_of, full. induction (seq 0 n) as [|k l IH]; cbn; [reflexivity|].
  rewrite Nat.eqb_refl. now rewrite IH.
Qed.

Lemma parts_of_full_other m m' n : m <> m' -> parts_of m (full m' n) = [].
Proof.
  intros Hn. unfold parts_of, full. induction (seq 0 n) as [|k l IH]; cbn; [reflexivity|].
  destruct (Nat.eqb_spec m' m); [congruence | exact IH].
Qed.

Lemma parts_of_flat (f : nat -> nat) m l :
  NoDup l ->
  parts_of m (flat_map (fun a => full a (f a)) l) = if in_dec Nat.eq_dec m l then full m (f m) else [].
Proof.
  induction 1 as [|a l Ha Hnd IH]; [reflexivity|]. cbn [flat_map].
  rewrite parts_of_app, IH.
  destruct (in_dec Nat.eq_dec m (a :: l)) as [Hin|Hin]; destruct (in_dec Nat.eq_dec m l) as [Hl|Hl];
    destruct (Nat.eq_dec a m) as [->|Hn]; cbn in Hin; try tauto.
  - rewrite parts_of_full_other by congruence. reflexivity.
  - rewrite parts_of_full_same. apply app_nil_r.
  - rewrite parts_of_full_other by congruence. reflexivity.
Qed.

Lemma NoDup_snoc {A} (l : list A) x : NoDup l -> ~ In x l -> NoDup (l ++ [x]).
Proof.
  induction 1 as [|a l Ha Hn IH]; cbn; intros Hx.
  - constructor; [tauto | constructor].
  - constructor.
    + rewrite in_app_iff; cbn. intros [H|[H|[]]]; [contradiction | subst; tauto].
    + apply IH; tauto.
Qed.

Lemma take_until_snoc_in {A} (p : A -> bool) l e x :
  In x (take_until p (l ++ [e])) ->
  In x (take_until p l) \/ (existsb p l = false /\ x = e /\ p e = false).
Proof.
  rewrite take_until_snoc. destruct (existsb p l) eqn:E; [auto|].
  rewrite take_until_none by exact E.
  destruct (p e) eqn:Ep; [auto|]. rewrite in_app_iff. cbn. intuition.
Qed.

(** * Part 2: invariants of the LTS *)

Ltac step_cases H :=
  unfold step in H;
  repeat match type of H with
  | match ?x with _ => _ end = Some _ => let E := fresh "E" in destruct x eqn:E; try discriminate
  | (if ?x then _ else _) = Some _ => let E := fresh "E" in destruct x eqn:E; try discriminate
  end;
  inversion H; subst; clear H.

Ltac norm := unfold recording in *; rewrite ?Nat.ltb_lt, ?Nat.ltb_ge, ?Nat.eqb_eq, ?Nat.eqb_neq in *.

(** Which program counters hold the span mutex, and which belong to which operation. *)
Definition holds (p : pc) : bool :=
  match p with ECrit | ESnap | MCrit | MApply _ | CCrit | RCrit => true | _ => false end.

Definition pc_op (o : op) (p : pc) : bool :=
  match p with
  | Idle | Called | Done => true
  | Ret r => match o with OIsRec => true | _ => negb r end
  | ECrit | ETask | EProcs | ESnapW | ESnap | EDeliver _ _ => match o with OEnd => true | _ => false end
  | MCrit | MApply _ => match o with OMut _ _ => true | _ => false end
  | CCrit => match o with OChild => true | _ => false end
  | RCrit => match o with OIsRec => true | _ => false end
  end.

Section Inv.
  Variable c : cfg.
  Notation R := (Reach (step c) init).

  Definition InvA (s : state) : Prop :=
    (forall t, holds (pcs s t) = true <-> mu s = Some t) /\
    (forall t, match prog c t with Some o => pc_op o (pcs s t) = true | None => pcs s t = Idle end).

  Lemma invA : forall s, R s -> InvA s.
  Proof.
    apply invariant.
    - split; cbn; intros t; [split; discriminate | now destruct (prog c t)].
    - intros s t s' _ [HL HP] Hs.
      assert (Ht := HP t). assert (HLt := HL t).
      step_cases Hs; cbn in Ht; cbn in HLt.
      all: split; cbn; intros u; destruct (Nat.eq_dec u t) as [->|Hn];
        [ rewrite upd_same | rewrite (upd_other _ _ _ _ Hn); specialize (HL u)
        | rewrite upd_same | rewrite (upd_other _ _ _ _ Hn); apply HP ].
      all: cbn; try rewrite E.
      all: try (destruct (nprocs c =? 0)); cbn.
      all: try (destruct o; cbn in *; congruence).
      all: try (assert (Hm : mu s = Some t) by (now apply HLt)).
      all: try (intuition congruence).
      all: destruct o; cbn; tauto.
  Qed.

  Lemma holder_unique s t u : R s -> holds (pcs s t) = true -> holds (pcs s u) = true -> t = u.
  Proof. intros Hr H1 H2. destruct (invA s Hr) as [HL _]. apply HL in H1, H2. congruence. Qed.

  Lemma pc_prog s t : R s -> pcs s t <> Idle -> exists o, prog c t = Some o /\ pc_op o (pcs s t) = true.
  Proof.
    intros Hr H. destruct (invA s Hr) as [_ HP]. specialize (HP t).
    destruct (prog c t) as [o|]; [eauto | contradiction].
  Qed.

  (** History and program counters agree. *)
  Definition InvB (s : state) : Prop :=
    (forall t, pcs s t = Idle -> existsb (thread_is t) (hist s) = false) /\
    (forall t o, prog c t = Some o -> pcs s t <> Idle -> In (EvCall t o) (hist s)) /\
    (forall t, pcs s t <> Done -> existsb (is_ret_of t) (hist s) = false) /\
    (forall t o r, In (EvRet t o r) (hist s) -> pcs s t = Done /\ prog c t = Some o) /\
    (forall t o, In (EvCall t o) (hist s) -> prog c t = Some o) /\
    (forall t o, prog c t = Some o -> pcs s t = Done -> exists r, In (EvRet t o r) (hist s)).

  Lemma invB : forall s, R s -> InvB s.
  Proof.
    apply invariant.
    - repeat split; cbn in *; intros; try tauto; try congruence; try discriminate.
    - intros s t s' _ (B1 & B2 & B3 & B4 & B5 & B6) Hs.
      step_cases Hs; cbn.
      all: repeat split; intros; cbn in *.
      all: upd_cases.
      all: rewrite ?existsb_app_tail, ?in_app_iff in *; cbn in *.
      all: rewrite ?orb_false_r, ?orb_false_iff, ?Nat.eqb_neq in *.
      all: repeat match goal with
        | H : _ /\ _ |- _ => destruct H
        | H : _ \/ _ |- _ => destruct H
        | H : False |- _ => contradiction
        | H : In (EvRet _ _ _) (hist _) |- _ => apply B4 in H
        | H : In (EvCall _ _) (hist _) |- _ => apply B5 in H
        | H : EvCall _ _ = EvCall _ _ |- _ => inversion H; subst; clear H
        | H : EvRet _ _ _ = EvRet _ _ _ |- _ => inversion H; subst; clear H
        | H : EvCall _ _ = _ |- _ => discriminate H
        | H : EvRet _ _ _ = _ |- _ => discriminate H
        | H : EvOnEnd _ _ = _ |- _ => discriminate H
        end.
      all: try congruence.
      all: try solve [ apply B1; congruence | apply B3; congruence | apply B2; congruence
                     | left; apply B2; congruence | right; left; congruence
                     | split; [apply B1|apply Nat.eqb_neq]; congruence
                     | split; [apply B3|]; congruence
                     | destruct (nprocs c =? 0); congruence
                     | destruct o; discriminate
                     | split; [apply B1; congruence | congruence] ].
      all: try (match goal with H1 : prog _ ?u = Some ?o', H2 : pcs _ ?u = Done |- _ =>
                  destruct (B6 u o' H1 H2) as [r' Hr'] end;
                exists r'; rewrite ?in_app_iff; auto; fail).
      all: try (eexists; rewrite in_app_iff; right; left; f_equal; congruence).
  Qed.

  (** The end of the span. *)
  Definition post_end (p : pc) : bool :=
    match p with ETask | EProcs | ESnapW | ESnap | EDeliver _ _ => true | _ => false end.
  Definition returning (p : pc) : bool :=
    match p with Ret _ | Done => true | _ => false end.

  Definition winner (s : state) : nat := pred (endt s).

  Definition InvC (s : state) : Prop :=
    (endt s = 0 -> existsb is_cut (hist s) = false) /\
    (forall t, post_end (pcs s t) = true -> endt s = S t) /\
    (forall t, prog c t = Some OEnd -> returning (pcs s t) = true -> endt s <> 0) /\
    (endt s <> 0 -> has_end_call (hist s) = true /\ prog c (winner s) = Some OEnd /\
                    post_end (pcs s (winner s)) || returning (pcs s (winner s)) = true) /\
    (forall t i, pcs s t = MApply i -> endt s = 0).

  Lemma invC : forall s, R s -> InvC s.
  Proof.
    apply invariant.
    - repeat split; cbn in *; intros; try tauto; try congruence; try discriminate.
    - intros s t s' Hr (C1 & C2 & C3 & C4 & C5) Hs.
      pose proof (invA s Hr) as [HL HP]. pose proof (invB s Hr) as (B1 & B2 & B3 & B4 & B5 & B6).
      assert (HPt := HP t). assert (C2t := C2 t). assert (C3t := C3 t). assert (HLt := HL t).
      assert (B2t := B2 t).
      step_cases Hs; unfold InvC, winner, recording in *; rewrite ?Nat.eqb_eq, ?Nat.eqb_neq in *; cbn in *.
      all: repeat split; intros; cbn in *.
      all: upd_cases.
      all: rewrite ?existsb_app_tail, ?in_app_iff in *; cbn in *.
      all: repeat match goal with
        | H : post_end (pcs _ _) = true |- _ => apply C2 in H
        | H : true = true -> _ |- _ => specialize (H eq_refl)
        | H : ?x = ?x -> _ |- _ => specialize (H eq_refl)
        end.
      all: try congruence.
      all: try lia.
      all: rewrite ?orb_false_r in *.
      all: try match goal with H : endt _ <> 0 |- _ => destruct (C4 H) as (C4a & C4b & C4c) end.
      all: try solve [ auto | apply C1; auto | eapply C3; eauto; congruence
                     | destruct (nprocs c =? 0); reflexivity ].
      all: try (match goal with H : pcs _ _ = MApply _ |- _ => apply C5 in H end; congruence).
      all: try (match goal with H1 : prog _ ?u = Some ?a, H2 : prog _ ?u = Some ?b |- _ =>
                  assert (a = b) by congruence; subst end).
      all: try (rewrite E0 in C4c; discriminate).
      all: try (destruct (nprocs c =? 0); discriminate).
      all: try (destruct o; cbn in *; try discriminate; try congruence; auto; fail).
      all: try (unfold has_end_call in C4a; rewrite C4a; reflexivity).
      all: try (destruct o; try discriminate; apply existsb_exists; exists (EvCall t OEnd);
                split; [apply B2t; congruence | reflexivity]).
      all: try (apply C3t; auto; fail).
      all: try (destruct o; cbn; rewrite ?orb_false_r; try (apply C1; assumption);
                exfalso; apply C3t; auto; fail).
      all: try (exfalso; match goal with H : pcs _ ?u = MApply _ |- _ =>
                  assert (u = t) by (apply (holder_unique s u t Hr); [rewrite H|rewrite E0]; reflexivity) end;
                congruence).
  Qed.

  (** Once the end time is set nothing the snapshot copies changes any more. *)
  Lemma frozen s t s' : R s -> endt s <> 0 -> step c s t = Some s' ->
    mk_snap s' = mk_snap s /\ applied s' = applied s /\ kids s' = kids s /\ drops s' = drops s.
  Proof.
    intros Hr He Hs. destruct (invC s Hr) as (_ & _ & _ & _ & C5).
    step_cases Hs; unfold recording in *; rewrite ?Nat.eqb_eq in *; cbn; auto 6; try congruence.
    all: exfalso; apply He; eapply C5; eauto.
  Qed.

  Lemma endt_mono s t s' : step c s t = Some s' -> endt s <> 0 -> endt s' = endt s.
  Proof.
    intros Hs He. step_cases Hs; unfold recording in *; rewrite ?Nat.eqb_eq in *; cbn; congruence.
  Qed.

  (** ** Structure of the mutation log *)
  Definition np (t : nat) : nat := match prog c t with Some o => nparts o | None => 0 end.
  Definition flat (l : list nat) : list (nat * nat) := flat_map (fun m => full m (np m)) l.

  Definition InvD (s : state) : Prop :=
    NoDup (applied s) /\
    (forall m, In m (applied s) -> returning (pcs s m) = true /\ exists k n, prog c m = Some (OMut k n)) /\
    (forall t i, pcs s t = MApply i -> i <= np t) /\
    (forall m, name s = Some m -> In m (applied s) /\ exists n, prog c m = Some (OMut KName n)) /\
    (name s = None -> forall m n, In m (applied s) -> prog c m <> Some (OMut KName n)) /\
    (forall m, status s = Some m -> In m (applied s) /\ exists n, prog c m = Some (OMut KStatus n)) /\
    (status s = None -> forall m n, In m (applied s) -> prog c m <> Some (OMut KStatus n)).

  Lemma invD : forall s, R s -> InvD s.
  Proof.
    apply invariant.
    - repeat split; cbn in *; intros; try tauto; try congruence; try discriminate. constructor.
    - intros s t s' Hr (D2 & D3 & D4 & D5 & D6 & D7 & D8) Hs.
      pose proof (invA s Hr) as [HL HP].
      assert (HPt := HP t). assert (D3t := D3 t).
      step_cases Hs; norm; unfold InvD, np in *; cbn in *.
      all: repeat split; intros; cbn in *.
      all: upd_cases.
      all: rewrite ?in_app_iff in *; cbn in *.
      all: try congruence.
      all: try solve [ eapply D3; eauto | eapply D4; eauto | eapply D5; eauto | eapply D6; eauto
                     | eapply D7; eauto | eapply D8; eauto | lia ].
      all: try (match goal with H : In ?m (applied _) |- _ =>
                  let X := fresh in destruct (D3 m H) as [X _]; try rewrite E0 in X; try discriminate X end; fail).
      all: try (destruct o; cbn in *; discriminate).
      all: try (destruct (nprocs c =? 0); discriminate).
      all: try (rewrite E; cbn; lia).
      all: try (match goal with H : MApply _ = MApply _ |- _ => inversion H; subst; clear H end;
                rewrite ?E; try destruct k; cbn in *; lia).
      all: try (apply NoDup_snoc; [assumption|]; intro Hin; destruct (D3t Hin) as [X _]; discriminate X).
      all: try (destruct H as [H|[<-|[]]]; [ destruct (D3 _ H) as [X Y]; first [exact X | exact Y] | eauto ]; fail).
      all: try destruct k; cbn in *;
           repeat match goal with
           | H : Some _ = Some _ |- _ => inversion H; subst; clear H
           | H : Some _ = None |- _ => discriminate H
           | H : _ \/ _ |- _ => destruct H
           | H : False |- _ => contradiction
           end; subst; eauto; try congruence.
      all: try solve [ left; eapply D5; eauto | eapply D5; eauto | eapply D6; eauto
                     | left; eapply D7; eauto | eapply D7; eauto | eapply D8; eauto ].
  Qed.

  (** From here to [spec_ok_holds]: spans without limits (the accounting under limits is ProofsLim.v). *)
  Hypothesis Hunl : lims c = no_limits.

  Lemma new_parts_unl s k x : new_parts c s k x = parts s ++ [x].
  Proof. unfold new_parts. rewrite Hunl. now destruct k. Qed.

  Definition partial (s : state) : list (nat * nat) :=
    match mu s with
    | Some t => match pcs s t with MApply i => full t i | _ => [] end
    | None => []
    end.

  Definition InvP (s : state) : Prop := parts s = flat (applied s) ++ partial s.

  Lemma invP : forall s, R s -> InvP s.
  Proof.
    apply invariant.
    - reflexivity.
    - intros s t s' Hr D1 Hs.
      pose proof (invA s Hr) as [HL HP]. pose proof (invD s Hr) as (_ & _ & D4 & _).
      assert (HLt := HL t). assert (D4t := D4 t).
      unfold InvP, partial in *.
      step_cases Hs; norm; cbn in *.
      (* threads that hold the lock in s *)
      all: try (assert (Hm : mu s = Some t) by (apply HLt; reflexivity);
                rewrite Hm in D1; rewrite E0 in D1; cbn in D1; rewrite ?Hm; rewrite ?upd_same;
                rewrite ?app_nil_r in *; try assumption).
      (* threads that do not *)
      all: try (destruct (mu s) as [h|] eqn:Hm; [|assumption];
                assert (h <> t) by (intros ->; destruct HLt as [_ X]; discriminate (X eq_refl));
                rewrite upd_other by assumption; assumption).
      all: try (rewrite upd_same; try destruct o; cbn; exact D1).
      + rewrite new_parts_unl, full_S, app_assoc. fold (flat (applied s)). rewrite <- D1. reflexivity.
      + rewrite flat_map_app. cbn. rewrite app_nil_r.
        assert (Hi : i = np t).
        { specialize (D4t i eq_refl). unfold np in *. rewrite E in *. cbn in *. lia. }
        rewrite <- Hi. exact D1.
  Qed.

  (** ** Ghost lists versus history *)
  Definition InvE (s : state) : Prop :=
    (forall m o, In m (applied s) -> prog c m = Some o -> In (EvCall m o) (cut (hist s))) /\
    (forall m k n r, In (EvRet m (OMut k n) r) (pre_end (hist s)) -> In m (applied s)) /\
    (forall m k n r, pcs s m = Ret r -> prog c m = Some (OMut k n) -> In m (applied s) \/ endt s <> 0) /\
    NoDup (kids s) /\ children s = length (kids s) /\
    (forall t, In t (kids s) -> In (EvCall t OChild) (cut (hist s))) /\
    (forall t r, In (EvRet t OChild r) (pre_end (hist s)) -> In t (kids s)) /\
    (forall t r, pcs s t = Ret r -> prog c t = Some OChild -> In t (kids s) \/ endt s <> 0) /\
    (forall t, In t (kids s) -> returning (pcs s t) = true).

  Lemma invE : forall s, R s -> InvE s.
  Proof.
    apply invariant.
    - repeat split; cbn in *; intros; try tauto; try congruence; try discriminate. constructor.
    - intros s t s' Hr (E1 & E2 & E3 & K1 & K2 & K3 & K4 & K5 & K6) Hs.
      pose proof (invA s Hr) as [HL HP]. pose proof (invB s Hr) as (B1 & B2 & B3 & B4 & B5 & B6).
      pose proof (invC s Hr) as (C1 & C2 & C3 & C4 & C5).
      assert (HPt := HP t). assert (K6t := K6 t). assert (B2t := B2 t).
      step_cases Hs; norm; unfold InvE, cut, pre_end in *; cbn in *.
      all: repeat split; intros; cbn in *.
      all: upd_cases.
      all: rewrite ?in_app_iff, ?app_length in *; cbn in *.
      all: try congruence.
      all: try (apply take_until_mono; eauto; fail).
      all: repeat match goal with
           | H : In _ (take_until _ (_ ++ [_])) |- _ =>
               let Hn := fresh "Hn" in let He := fresh "He" in let Hp := fresh "Hp" in
               apply take_until_snoc_in in H; destruct H as [H|(Hn & He & Hp)]
           end.
      all: try solve [ eauto | lia | discriminate ].
      all: try (exfalso; match goal with H : In _ (kids _) |- _ => discriminate (K6t H) end).
      all: try (match goal with H : entry_pc _ = Ret _ |- _ => destruct o; discriminate H end).
      all: try (match goal with H1 : prog _ ?u = Some ?a, H2 : prog _ ?u = Some ?b |- _ =>
                  assert (a = b) by congruence; subst; cbn in HPt; discriminate HPt end).
      all: try (right; first [assumption | congruence | lia]; fail).
      all: try (destruct (nprocs c =? 0); discriminate).
      all: try (apply NoDup_snoc; [assumption | intro Hin; discriminate (K6t Hin)]).
      all: try (match goal with H : _ \/ _ \/ False |- _ => destruct H as [H|[H|[]]] end;
                [ eauto | subst; eauto; try congruence ]; fail).
      all: try (match goal with
                | H : pcs _ ?m = Ret _, H' : prog _ ?m = Some (OMut _ _) |- _ => destruct (E3 _ _ _ _ H H'); tauto
                | H : pcs _ ?m = Ret _, H' : prog _ ?m = Some OChild |- _ => destruct (K5 _ _ H H'); tauto
                end).
      all: try (match goal with H : _ \/ _ \/ False |- _ => destruct H as [H|[H|[]]] end;
                [ eauto | subst; rewrite take_until_none by (apply C1; first [assumption | eapply C5; eauto]);
                          apply B2; congruence ]; fail).
      + destruct H as [H|[H|[]]]; [eauto|]. subst t0. destruct o; try discriminate.
        rewrite take_until_none by (apply C1; assumption). apply B2; congruence.
      + inversion He; subst. clear He.
        destruct (E3 _ _ _ _ E0 E) as [X|X]; [exact X|].
        exfalso. destruct (C4 X) as [Y _]. unfold has_end_call in Y. congruence.
      + inversion He; subst. clear He.
        destruct (K5 _ _ E0 E) as [X|X]; [exact X|].
        exfalso. destruct (C4 X) as [Y _]. unfold has_end_call in Y. congruence.
  Qed.

  (** ** Deliveries *)
  Definition pre_crit (p : pc) : bool := match p with Idle | Called | ECrit => true | _ => false end.
  Definition dcount (s : state) : nat :=
    match endt s with
    | 0 => 0
    | S w => match pcs s w with EDeliver k _ => k | Ret _ | Done => nprocs c | _ => 0 end
    end.

  Definition InvF (s : state) : Prop :=
    (forall p sn, In (EvOnEnd p sn) (hist s) <-> p < dcount s /\ sn = mk_snap s) /\
    (forall t k sn, pcs s t = EDeliver k sn -> k <= nprocs c /\ sn = mk_snap s) /\
    (forall t, pre_crit (pcs s t) = true -> endt s <> S t).

  Lemma invF : forall s, R s -> InvF s.
  Proof.
    apply invariant.
    - repeat split; cbn in *; intros; try tauto; try congruence; try discriminate; try lia.
    - intros s t s' Hr (F1 & F2 & F3) Hs.
      pose proof (invA s Hr) as [HL HP].
      pose proof (invC s Hr) as (C1 & C2 & C3 & C4 & C5).
      assert (HPt := HP t). assert (C2t := C2 t). assert (F3t := F3 t). assert (F2t := F2 t).
      assert (C5t := C5 t).
      unfold InvF, dcount, mk_snap in *.
      destruct (endt s) as [|w] eqn:Het.
      + step_cases Hs; norm; cbn in *; try rewrite Het in *; cbn in *.
        all: try lia.
        all: repeat split; intros; cbn in *.
        all: upd_cases.
        all: rewrite ?in_app_iff in *; cbn in *.
        all: try congruence; try lia.
        all: try (match goal with H : In (EvOnEnd _ _) (hist _) |- _ => apply F1 in H; lia end).
        all: try solve [ eapply F2; eauto | eapply F3; eauto ].
        all: try (exfalso; match goal with H : pcs _ ?u = EDeliver _ _ |- _ =>
                    generalize (C2 u); rewrite H; cbn; intro X; specialize (X eq_refl); lia end).
        all: try (exfalso; match goal with H : _ \/ _ \/ False |- _ => destruct H as [H|[H|[]]];
                    [apply F1 in H; lia | discriminate H] end).
        all: try (destruct o; discriminate).
      + assert (F1w := F1).
        step_cases Hs; norm; cbn in *; try rewrite Het in *; cbn in *.
        all: try lia.
        all: repeat split; intros; cbn in *.
        all: upd_cases.
        all: rewrite ?in_app_iff in *; cbn in *.
        all: try congruence; try lia.
        all: try solve [ eapply F2; eauto | eapply F3; eauto | eapply F1; eauto ].
        all: try (exfalso; specialize (C5t _ eq_refl); discriminate).
        all: repeat match goal with
          | H : _ \/ _ \/ False |- _ => destruct H as [H|[H|[]]]
          | H : In (EvOnEnd _ _) (hist _) |- _ => apply F1w in H; destruct H
          | H : EvOnEnd _ _ = EvOnEnd _ _ |- _ => inversion H; subst; clear H
          | H : _ = EvOnEnd _ _ |- _ => discriminate H
          | H : _ /\ _ |- _ => destruct H
          end.
        all: rewrite ?E0 in *; cbn in *.
        all: try lia; try congruence.
        all: try (first [left|idtac]; apply F1w; rewrite ?E0; cbn; split; first [lia | congruence | assumption]; fail).
        all: try (destruct o; discriminate).
        all: try (exfalso; assert (Hne : S t <> 0) by discriminate;
                  destruct (C4 Hne) as (_ & _ & X); unfold winner in X; rewrite Het in X; cbn in X;
                  rewrite E0 in X; discriminate X).
        all: try (destruct (nprocs c =? 0) eqn:Hz; norm; cbn in *; first [discriminate | lia]).
        all: try (match goal with H : EDeliver _ _ = EDeliver _ _ |- _ => inversion H; subst; clear H end).
        all: try (destruct (F2t _ _ eq_refl) as [Xa Xb]; first [lia | exact Xb]; fail).
        all: try (unfold mk_snap; rewrite Het; reflexivity).
        all: try lia.
        destruct (F2t _ _ eq_refl) as [Xa Xb].
        destruct (Nat.eq_dec p k) as [->|Hpk].
        * right; left. f_equal. rewrite H0, Xb. unfold mk_snap. rewrite ?Het. reflexivity.
        * left. apply F1w. rewrite ?E0. split; [lia | exact H0].
  Qed.

  (** ** IsRecording answers *)
  Definition InvG (s : state) : Prop :=
    forall t r, pcs s t = Ret r -> prog c t = Some OIsRec ->
      if r then In (EvCall t OIsRec) (cut (hist s)) else endt s <> 0.

  Lemma invG : forall s, R s -> InvG s.
  Proof.
    apply invariant.
    - intros t r H. discriminate H.
    - intros s t s' Hr G Hs u r.
      pose proof (invA s Hr) as [HL HP]. pose proof (invB s Hr) as (B1 & B2 & B3 & B4 & B5 & B6).
      pose proof (invC s Hr) as (C1 & C2 & C3 & C4 & C5).
      assert (HPt := HP t). assert (Gu := G u r).
      step_cases Hs; norm; unfold cut in *; cbn in *; intros Hpc Hpr.
      all: upd_cases.
      all: try (specialize (Gu Hpc Hpr); destruct r; [try apply take_until_mono|]; first [assumption|discriminate]).
      all: try (inversion Hpc; subst; clear Hpc).
      all: try (match goal with H1 : prog _ ?u = Some ?a, H2 : prog _ ?u = Some ?b |- _ =>
                  assert (a = b) by congruence; subst; cbn in HPt; discriminate HPt end).
      all: try (destruct (nprocs c =? 0); discriminate).
      all: try (destruct o; discriminate).
      + congruence.
      + destruct (Nat.eqb_spec (endt s) 0) as [Hz|Hz]; [|exact Hz].
        rewrite take_until_none by (apply C1; exact Hz). apply B2; congruence.
  Qed.

  (** Each child Start returns at most once. *)
  Definition ev_tid (e : event) : nat :=
    match e with EvCall t _ | EvRet t _ _ => t | EvOnEnd p _ => p end.

  Definition InvK (s : state) : Prop :=
    NoDup (map ev_tid (filter is_child_ret (pre_end (hist s)))).

  Lemma invK : forall s, R s -> InvK s.
  Proof.
    apply invariant.
    - constructor.
    - intros s t s' Hr K Hs.
      pose proof (invB s Hr) as (B1 & B2 & B3 & B4 & B5 & B6).
      unfold InvK, pre_end in *.
      step_cases Hs; cbn; try assumption.
      all: rewrite take_until_snoc.
      all: destruct (existsb is_end_call (hist s)) eqn:Hex; try assumption.
      all: cbn.
      all: try (destruct o; cbn; rewrite ?filter_app, ?map_app; cbn; rewrite ?app_nil_r;
                rewrite take_until_none in K by exact Hex; try assumption).
      apply NoDup_snoc; [exact K|]. intros Hin. apply in_map_iff in Hin as [e [He Hin]].
      apply filter_In in Hin as [Hin Hc]. destruct e as [|u o' r'|]; try discriminate. cbn in He; subst u.
      destruct (B4 _ _ _ Hin) as [X _]. congruence.
  Qed.

  (** * Part 3: the clauses *)

  Lemma partial_nil s : R s -> endt s <> 0 -> partial s = [].
  Proof.
    intros Hr He. pose proof (invC s Hr) as (_ & _ & _ & _ & C5). unfold partial.
    destruct (mu s) as [h|]; [|reflexivity]. destruct (pcs s h) eqn:Hp; try reflexivity.
    exfalso; apply He; eapply C5; eauto.
  Qed.

  Lemma parts_of_reach s m : R s -> endt s <> 0 ->
    parts_of m (parts s) = if in_dec Nat.eq_dec m (applied s) then full m (np m) else [].
  Proof.
    intros Hr He. rewrite (invP s Hr), partial_nil, app_nil_r by assumption.
    apply parts_of_flat. apply invD; assumption.
  Qed.

  Lemma parts_of_applied s m : R s -> endt s <> 0 -> In m (applied s) ->
    parts_of m (parts s) = full m (np m).
  Proof.
    intros Hr He Hm. rewrite parts_of_reach by assumption.
    destruct (in_dec Nat.eq_dec m (applied s)); [reflexivity | contradiction].
  Qed.

  Lemma atomic_reach s : R s -> endt s <> 0 -> atomic_ok (hist s) (mk_snap s) = true.
  Proof.
    intros Hr He. unfold atomic_ok. apply forallb_forall. intros x Hx. cbn in Hx.
    rewrite (invP s Hr), partial_nil, app_nil_r in Hx by assumption.
    unfold flat in Hx. apply in_flat_map in Hx as [m [Hm Hx]]. apply in_full in Hx as [Hf Hs].
    destruct (invD s Hr) as (D2 & D3 & _). destruct (D3 m Hm) as [_ (k & n & Hp)].
    destruct (invE s Hr) as (E1 & _). specialize (E1 m _ Hm Hp).
    unfold whole_in. apply existsb_exists. exists (EvCall m (OMut k n)). split; [exact E1|].
    rewrite Hf, Nat.eqb_refl. cbn [andb].
    assert (Hnp : np m = nparts (OMut k n)) by (unfold np; now rewrite Hp).
    assert (Hl : is_log k = true). { destruct k; try reflexivity; cbn in Hnp; lia. }
    rewrite Hl. cbn [andb]. apply plist_eqb_eq. cbn [sn_parts mk_snap].
    rewrite parts_of_applied by assumption. now rewrite Hnp.
  Qed.

  Lemma present_reach s : R s -> endt s <> 0 -> present_ok (hist s) (mk_snap s) = true.
  Proof.
    intros Hr He. unfold present_ok. apply forallb_forall. intros e Hin.
    destruct e as [|m o r|]; try reflexivity. destruct o as [|k n| |]; try reflexivity.
    destruct (is_log k) eqn:Hl; [|reflexivity].
    destruct (invE s Hr) as (_ & E2 & _). pose proof (E2 _ _ _ _ Hin) as Hm.
    destruct (invB s Hr) as (_ & _ & _ & B4 & _).
    destruct (B4 _ _ _ (take_until_incl _ _ _ Hin)) as [_ Hp].
    apply plist_eqb_eq. cbn [sn_parts mk_snap]. rewrite parts_of_applied by assumption.
    unfold np. now rewrite Hp.
  Qed.

  Lemma reg_name_reach s : R s -> reg_ok KName (name s) (hist s) = true.
  Proof.
    intros Hr. destruct (invD s Hr) as (_ & _ & _ & D5 & D6 & _).
    destruct (invE s Hr) as (E1 & E2 & _). destruct (invB s Hr) as (_ & _ & _ & B4 & _).
    unfold reg_ok. destruct (name s) as [m|] eqn:Hn.
    - destruct (D5 m eq_refl) as [Hm [n Hp]]. apply existsb_exists.
      exists (EvCall m (OMut KName n)). split; [now apply E1|]. now rewrite Nat.eqb_refl.
    - apply negb_true_iff. apply not_true_is_false. intros Hex.
      apply existsb_exists in Hex as [e [Hin He]].
      destruct e as [|m o r|]; try discriminate. destruct o as [|k n| |]; try discriminate.
      apply mkind_eqb_eq in He; subst k.
      destruct (B4 _ _ _ (take_until_incl _ _ _ Hin)) as [_ Hp].
      exact (D6 eq_refl m n (E2 _ _ _ _ Hin) Hp).
  Qed.

  Lemma reg_status_reach s : R s -> reg_ok KStatus (status s) (hist s) = true.
  Proof.
    intros Hr. destruct (invD s Hr) as (_ & _ & _ & _ & _ & D7 & D8).
    destruct (invE s Hr) as (E1 & E2 & _). destruct (invB s Hr) as (_ & _ & _ & B4 & _).
    unfold reg_ok. destruct (status s) as [m|] eqn:Hn.
    - destruct (D7 m eq_refl) as [Hm [n Hp]]. apply existsb_exists.
      exists (EvCall m (OMut KStatus n)). split; [now apply E1|]. now rewrite Nat.eqb_refl.
    - apply negb_true_iff. apply not_true_is_false. intros Hex.
      apply existsb_exists in Hex as [e [Hin He]].
      destruct e as [|m o r|]; try discriminate. destruct o as [|k n| |]; try discriminate.
      apply mkind_eqb_eq in He; subst k.
      destruct (B4 _ _ _ (take_until_incl _ _ _ Hin)) as [_ Hp].
      exact (D8 eq_refl m n (E2 _ _ _ _ Hin) Hp).
  Qed.

  Lemma countb_map_tid p (l : list event) : countb p l = length (map ev_tid (filter p l)).
  Proof. unfold countb. now rewrite map_length. Qed.

  Lemma children_reach s : R s -> children_ok (hist s) (mk_snap s) = true.
  Proof.
    intros Hr. destruct (invE s Hr) as (_ & _ & _ & K1 & K2 & K3 & K4 & _).
    unfold children_ok. cbn [sn_children mk_snap]. rewrite K2.
    apply andb_true_iff; split; apply Nat.leb_le; rewrite countb_map_tid.
    - apply NoDup_incl_length; [apply (invK s Hr)|].
      intros t Ht. apply in_map_iff in Ht as [e [He Hin]]. apply filter_In in Hin as [Hin Hc].
      destruct e as [|u o r|]; try discriminate. destruct o; try discriminate. cbn in He; subst u.
      eapply K4; eauto.
    - apply NoDup_incl_length; [exact K1|].
      intros t Ht. apply in_map_iff. exists (EvCall t OChild). split; [reflexivity|].
      apply filter_In. split; [now apply K3 | reflexivity].
  Qed.

  Lemma snap_ok_reach s : R s -> endt s <> 0 -> snap_ok (hist s) (mk_snap s) = true.
  Proof.
    intros Hr He. unfold snap_ok.
    rewrite atomic_reach, present_reach, children_reach by assumption.
    cbn [sn_name sn_status sn_et mk_snap]. rewrite reg_name_reach, reg_status_reach by assumption.
    cbn. destruct (endt s); [contradiction | reflexivity].
  Qed.

  Lemma winner_eq s : endt s <> 0 -> endt s = S (winner s).
  Proof. unfold winner. destruct (endt s); [contradiction | reflexivity]. Qed.

  (** Every event at the moment it is recorded: calls and returns satisfy their clause; an OnEnd
      delivery is the first for its processor, follows an End call, carries the snapshot of the
      present (ended) state, equal to every earlier one. *)
  Lemma emit_base s t s' : R s -> step c s t = Some s' ->
    hist s' = hist s \/
    exists e, hist s' = hist s ++ [e] /\
      match e with
      | EvOnEnd p sn => onend_base (nprocs c) (hist s) p sn = true /\ sn = mk_snap s /\ endt s <> 0
      | _ => ev_ok (nprocs c) (hist s) e = true
      end.
  Proof.
    intros Hr Hs.
    pose proof (invA s Hr) as [HL HP]. pose proof (invB s Hr) as (B1 & B2 & B3 & B4 & B5 & B6).
    pose proof (invC s Hr) as (C1 & C2 & C3 & C4 & C5).
    pose proof (invF s Hr) as (F1 & F2 & F3).
    assert (HPt := HP t).
    step_cases Hs; norm; cbn [hist set_pc set_mu emit set_endt apply_part finish_mut inc_child]; auto.
    - right. eexists. split; [reflexivity|]. cbn. now rewrite B1.
    - right. eexists. split; [reflexivity|].
      assert (Het : endt s = S t) by (apply C2; now rewrite E0).
      assert (Hne : endt s <> 0) by lia.
      destruct (F2 _ _ _ E0) as [_ Hsn]. subst sn.
      assert (Hd : dcount s = k) by (unfold dcount; now rewrite Het, E0).
      destruct (C4 Hne) as (Hec & _). split; [|auto].
      unfold onend_base.
      apply andb_true_iff; split; [apply andb_true_iff; split; [apply andb_true_iff; split|]|];
        [ now apply Nat.ltb_lt | | exact Hec | ].
      + apply negb_true_iff, not_true_is_false. intros Hex. apply onend_exists in Hex as [sn Hin].
        apply F1 in Hin. lia.
      + apply forallb_forall. intros e Hin. destruct e as [| |p sn]; auto.
        apply F1 in Hin as [_ ->]. now apply snap_eqb_eq.
    - right. eexists. split; [reflexivity|]. cbn in HPt. cbn [ev_ok].
      replace (mem_ev (EvCall t o) (hist s)) with true
        by (symmetry; apply mem_ev_In; apply B2; congruence).
      rewrite B3 by congruence. cbn [negb andb].
      destruct o; try exact HPt.
      pose proof (invG s Hr t r E0 E) as G. destruct r.
      + now apply mem_ev_In.
      + now apply C4.
  Qed.

  (** Every event satisfies its clause at the moment it is recorded. *)
  Lemma emit_ok s t s' : R s -> step c s t = Some s' ->
    hist s' = hist s \/ exists e, hist s' = hist s ++ [e] /\ ev_ok (nprocs c) (hist s) e = true.
  Proof.
    intros Hr Hs. destruct (emit_base s t s' Hr Hs) as [H|[e [He H]]]; [now left|right].
    exists e. split; [exact He|]. destruct e as [| |p sn]; try exact H.
    destruct H as (Hb & -> & Hne). cbn [ev_ok]. fold (onend_base (nprocs c) (hist s) p (mk_snap s)).
    rewrite Hb. now rewrite snap_ok_reach.
  Qed.

  Theorem spec_holds s : R s -> Spec (nprocs c) (hist s).
  Proof.
    intros Hr past e fut Hh.
    eapply (history_positions (step c) init hist (fun past e => ev_ok (nprocs c) past e = true)); eauto.
    intros s0 t s0' Hr0 Hs0. exact (emit_ok s0 t s0' Hr0 Hs0).
  Qed.

  (** The limit-independent clauses hold whatever the span limits are. *)
  Theorem specw_holds s : R s -> SpecW (nprocs c) (hist s).
  Proof.
    intros Hr past e fut Hh.
    eapply (history_positions (step c) init hist (fun past e => ev_w (nprocs c) past e = true)); eauto.
    intros s0 t s0' Hr0 Hs0. destruct (emit_base s0 t s0' Hr0 Hs0) as [H|[e0 [H He0]]]; [now left|right].
    exists e0. split; [exact H|]. destruct e0 as [| |p sn]; try exact He0.
    destruct He0 as (Hb & -> & Hne). cbn [ev_w]. rewrite Hb, (children_reach s0 Hr0). cbn [andb sn_et mk_snap].
    destruct (endt s0); [contradiction | reflexivity].
  Qed.

  Theorem final_holds s : R s -> SpecFinal (nprocs c) (hist s).
  Proof.
    intros Hr Hc He p Hp.
    pose proof (invB s Hr) as (B1 & B2 & B3 & B4 & B5 & B6).
    pose proof (invC s Hr) as (C1 & C2 & C3 & C4 & C5).
    pose proof (invF s Hr) as (F1 & F2 & F3).
    apply existsb_exists in He as [e [Hin He]]. destruct e as [t o| |]; try discriminate.
    destruct o; try discriminate.
    destruct (Hc _ _ Hin) as (o' & r & Hret). destruct (B4 _ _ _ Hret) as [Hd _].
    assert (Hne : endt s <> 0). { apply (C3 t); [now apply B5 | now rewrite Hd]. }
    destruct (C4 Hne) as (_ & Hw & Hpc).
    assert (Hwi : pcs s (winner s) <> Idle) by (intros X; rewrite X in Hpc; discriminate).
    pose proof (B2 _ _ Hw Hwi) as Hcall.
    destruct (Hc _ _ Hcall) as (o2 & r2 & Hret2). destruct (B4 _ _ _ Hret2) as [Hd2 _].
    exists (mk_snap s). apply F1. split; [|reflexivity].
    unfold dcount. rewrite (winner_eq s Hne), Hd2. exact Hp.
  Qed.

  Theorem spec_ok_holds s : R s -> spec_ok (nprocs c) (hist s) = true.
  Proof. intros Hr. apply spec_ok_iff. split; [now apply spec_holds | now apply final_holds]. Qed.

  (** What was delivered is what the span still holds, at any later time. *)
  Theorem delivered_is_live s p sn : R s -> In (EvOnEnd p sn) (hist s) -> sn = mk_snap s.
  Proof. intros Hr Hin. destruct (invF s Hr) as (F1 & _). now apply F1 in Hin. Qed.

  (** After the end time is set, no step changes what snapshot() copies. *)
  Theorem ended_is_frozen s sch s' : R s -> endt s <> 0 -> run (step c) s sch = Some s' ->
    mk_snap s' = mk_snap s.
  Proof.
    revert s. induction sch as [|t r IH]; cbn; intros s Hr He H.
    - now inversion H.
    - destruct (step c s t) as [s1|] eqn:Hs; [|discriminate].
      destruct (frozen s t s1 Hr He Hs) as [Hsn _].
      rewrite <- Hsn. apply IH; [eapply Reach_step; eauto | | exact H].
      rewrite (endt_mono s t s1 Hs He). exact He.
  Qed.

  (** No reachable state is stuck unless every call has returned. *)
  Theorem no_deadlock s t o : R s -> prog c t = Some o -> pcs s t <> Done ->
    exists u, step c s u <> None.
  Proof.
    intros Hr Hp Hd. destruct (invA s Hr) as [HL HP].
    destruct (mu s) as [h|] eqn:Hm.
    - exists h. assert (Hh : holds (pcs s h) = true) by now apply HL.
      specialize (HP h). unfold step. destruct (prog c h) as [oh|]; [|rewrite HP in Hh; discriminate].
      destruct (pcs s h) eqn:E; try discriminate Hh; cbn in HP; destruct oh; try discriminate HP;
        repeat match goal with |- context [if ?b then _ else _] => destruct b end; discriminate.
    - exists t. specialize (HP t). unfold step. rewrite Hp in *. rewrite Hm.
      destruct (pcs s t) eqn:E; try contradiction; cbn in HP; try (destruct o; try discriminate HP);
        repeat match goal with |- context [if ?b then _ else _] => destruct b end; try discriminate.
  Qed.
End Inv.

(** * Part 4: readable consequences of the specification (model independent) *)

Lemma ev_ok_w P past e : ev_ok P past e = true -> ev_w P past e = true.
Proof.
  destruct e as [| |p sn]; auto. cbn [ev_ok ev_w]. unfold onend_base, snap_ok.
  rewrite !andb_true_iff. tauto.
Qed.

Lemma Spec_W P h : Spec P h -> SpecW P h.
Proof. intros H past e fut E. apply ev_ok_w. eapply H; eauto. Qed.

Lemma SpecW_snoc P l e : SpecW P (l ++ [e]) <-> SpecW P l /\ ev_w P l e = true.
Proof.
  split.
  - intros H. split.
    + intros past x fut E. apply (H past x (fut ++ [e])). rewrite E, <- app_assoc. reflexivity.
    + apply (H l e []). reflexivity.
  - intros [H1 H2] past x fut E.
    destruct fut as [|f fut'] using rev_ind.
    + apply app_inj_tail in E as [-> ->]. exact H2.
    + clear IHfut'. rewrite app_comm_cons, app_assoc in E. apply app_inj_tail in E as [E _].
      eapply H1; eauto.
Qed.

Lemma ev_w_onend P past p sn : ev_w P past (EvOnEnd p sn) = true ->
  p < P /\ existsb (is_onend_of p) past = false /\ has_end_call past = true /\
  (forall q x, In (EvOnEnd q x) past -> x = sn) /\ children_ok past sn = true /\ sn_et sn <> 0.
Proof.
  cbn [ev_w]. unfold onend_base. rewrite !andb_true_iff. intros [[[[[Hp Hn] Hh] Hall] Hc] Het].
  repeat split; auto.
  - now apply Nat.ltb_lt.
  - now apply negb_true_iff.
  - intros q x Hin. rewrite forallb_forall in Hall. specialize (Hall _ Hin). now apply snap_eqb_eq in Hall.
  - apply Nat.ltb_lt in Het. lia.
Qed.

(** At most one OnEnd per processor. *)
Lemma Spec_once P h p : SpecW P h -> countb (is_onend_of p) h <= 1.
Proof.
  induction h as [|e l IH] using rev_ind; intros H; [cbn; lia|].
  apply SpecW_snoc in H as [Hl He]. rewrite countb_snoc.
  destruct (is_onend_of p e) eqn:Ep; [|specialize (IH Hl); lia].
  destruct e as [| |q sn]; try discriminate. cbn in Ep. apply Nat.eqb_eq in Ep; subst q.
  apply ev_w_onend in He as (_ & Hn & _). apply countb_zero in Hn. lia.
Qed.

(** Only registered processors receive it. *)
Lemma Spec_registered P h p sn : SpecW P h -> In (EvOnEnd p sn) h -> p < P.
Proof.
  intros H Hin. apply in_split in Hin as (a & b & ->). specialize (H a _ b eq_refl).
  apply ev_w_onend in H. tauto.
Qed.

(** One snapshot (hence one end time) for all deliveries, and it is non-zero. *)
Lemma Spec_one_snapshot P h : SpecW P h ->
  forall p sn p' sn', In (EvOnEnd p sn) h -> In (EvOnEnd p' sn') h -> sn = sn' /\ sn_et sn <> 0.
Proof.
  induction h as [|e l IH] using rev_ind; intros H p sn p' sn' H1 H2; [destruct H1|].
  apply SpecW_snoc in H as [Hl He]. specialize (IH Hl).
  assert (Hlast : forall q x, e = EvOnEnd q x ->
            sn_et x <> 0 /\ forall q' x', In (EvOnEnd q' x') l -> x' = x).
  { intros q x ->. apply ev_w_onend in He as (_ & _ & _ & Hall & _ & Het). auto. }
  apply in_app_iff in H1 as [H1|[H1|[]]]; apply in_app_iff in H2 as [H2|[H2|[]]].
  - eapply IH; eauto.
  - destruct (Hlast _ _ H2) as [Ha Hb]. rewrite (Hb _ _ H1). auto.
  - destruct (Hlast _ _ H1) as [Ha Hb]. rewrite (Hb _ _ H2). auto.
  - destruct (Hlast _ _ H1) as [Ha _]. rewrite H1 in H2. inversion H2; subst. auto.
Qed.

(** Delivery only after End was invoked. *)
Lemma Spec_after_end_call P past p sn fut :
  SpecW P (past ++ EvOnEnd p sn :: fut) -> has_end_call past = true.
Proof. intros H. specialize (H past _ fut eq_refl). apply ev_w_onend in H. tauto. Qed.

Lemma SpecW_children P past p sn fut : SpecW P (past ++ EvOnEnd p sn :: fut) ->
  countb is_child_ret (pre_end past) <= sn_children sn <= countb is_child_call (cut past).
Proof.
  intros H. specialize (H past _ fut eq_refl). apply ev_w_onend in H as (_ & _ & _ & _ & Hc & _).
  unfold children_ok in Hc. rewrite andb_true_iff, !Nat.leb_le in Hc. tauto.
Qed.

Lemma Spec_snap P past p sn fut :
  Spec P (past ++ EvOnEnd p sn :: fut) -> snap_ok past sn = true.
Proof.
  intros H. specialize (H past _ fut eq_refl). cbn in H. rewrite !andb_true_iff in H. tauto.
Qed.

(** Atomicity, in words: each mutation is absent from the snapshot or wholly present
    (and then it was invoked before the end was visible); present if it returned before
    the first End was invoked. *)
Lemma snap_atomic past sn m : snap_ok past sn = true ->
  parts_of m (sn_parts sn) = [] \/
  exists k n, In (EvCall m (OMut k n)) (cut past) /\ is_log k = true /\
              parts_of m (sn_parts sn) = full m (nparts (OMut k n)).
Proof.
  unfold snap_ok. rewrite !andb_true_iff. intros [[[[[Ha _] _] _] _] _].
  destruct (parts_of m (sn_parts sn)) as [|x r] eqn:Hp; [now left|right].
  assert (Hx : In x (parts_of m (sn_parts sn))) by (rewrite Hp; now left).
  apply filter_In in Hx as [Hin Hm]. apply Nat.eqb_eq in Hm.
  unfold atomic_ok in Ha. rewrite forallb_forall in Ha. specialize (Ha _ Hin). rewrite Hm in Ha.
  apply existsb_exists in Ha as [e [He Hw]]. destruct e as [t o| |]; try discriminate.
  destruct o as [|k n| |]; try discriminate. rewrite !andb_true_iff in Hw. destruct Hw as [[Ht Hl] Hf].
  apply Nat.eqb_eq in Ht; subst t. apply plist_eqb_eq in Hf. exists k, n. rewrite <- Hp. auto.
Qed.

Lemma snap_present past sn m k n r : snap_ok past sn = true ->
  In (EvRet m (OMut k n) r) (pre_end past) -> is_log k = true ->
  parts_of m (sn_parts sn) = full m (nparts (OMut k n)).
Proof.
  unfold snap_ok. rewrite !andb_true_iff. intros [[[[[_ Hp] _] _] _] _] Hin Hl.
  unfold present_ok in Hp. rewrite forallb_forall in Hp. specialize (Hp _ Hin). cbn beta iota in Hp.
  rewrite Hl in Hp. now apply plist_eqb_eq.
Qed.

Lemma snap_children past sn : snap_ok past sn = true ->
  countb is_child_ret (pre_end past) <= sn_children sn <= countb is_child_call (cut past).
Proof.
  unfold snap_ok, children_ok. rewrite !andb_true_iff, !Nat.leb_le. tauto.
Qed.

(** IsRecording: true only if invoked before the end was visible; false only after an End was invoked. *)
Lemma Spec_isrec P past t r fut : SpecW P (past ++ EvRet t OIsRec r :: fut) ->
  (r = true -> In (EvCall t OIsRec) (cut past)) /\ (r = false -> has_end_call past = true).
Proof.
  intros H. specialize (H past _ fut eq_refl). cbn in H. rewrite !andb_true_iff in H.
  destruct H as [_ H]. split; intros ->; [now apply mem_ev_In | exact H].
Qed.

(** * The protocol before fix 845ec5d delivers twice (documentation of what end-once excludes). *)
Lemma old_protocol_double_delivery :
  exists sch s, run Old.ostep Old.oinit sch = Some s /\ Old.odelivered s = 2.
Proof.
  (* thread 0: lock, check, unlock (window); thread 1: lock, check (still recording!), unlock;
     both: task end, relock, set end time, unlock, deliver *)
  exists [0; 0; 1; 1; 0; 0; 0; 0; 1; 1; 1; 1]. eexists. split; [vm_compute; reflexivity | reflexivity].
Qed.
