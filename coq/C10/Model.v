(** C10 model: one recording span of sdk/trace shared by any number of goroutines,
    as a labelled transition system (definitions only; proofs in Proofs.v).

    Mirrors sdk/trace/span.go after fix 845ec5d:
      End           lock; if !isRecording {unlock; return}; endTime := et; unlock;
                    [executionTracerTaskEnd()]; sps := getSpanProcessors();
                    if len(sps)==0 return; snapshot() {lock; copy; unlock};
                    for sp in sps { sp.OnEnd(snap) }
      mutators      lock; if !isRecording {unlock; return}; apply …; unlock
                    (SetAttributes appends its attributes one at a time while holding the lock;
                     AddEvent/AddLink/RecordError append one element; SetName/SetStatus write a field)
      addChild      lock; if isRecording {childSpanCount++}; unlock      (tracer.Start of a child)
      IsRecording   lock; r := endTime.IsZero(); unlock; return r

    One call per thread id; a goroutine issuing several calls in sequence is several
    ids whose calls do not overlap, which the schedules include.  [sync.Mutex] is an
    atomic acquire that blocks while held, the processor list is read atomically.
    The ghost fields [applied], [kids] and [hist] record what happened; no step reads them. *)
From Coq Require Import List Arith Lia Bool.
From Verif Require Import Lib.LTS C10.Spec.
Import ListNotations.

Record cfg := {
  nprocs : nat;                 (* registered span processors *)
  prog : nat -> option op;      (* the call issued by each thread id (None: the id is unused) *)
  lims : limits                 (* SpanLimits: attribute / event / link count limits (None = unlimited) *)
}.

Definition no_limits : limits := {| lim_attr := None; lim_event := None; lim_link := None |}.

Inductive pc :=
| Idle                          (* call not yet issued *)
| Called                        (* issued; about to s.mu.Lock() *)
| ECrit                         (* End: holds mu, before the isRecording check *)
| ETask                         (* End: ended, mu released, about to end the runtime/trace task *)
| EProcs                        (* End: about to read the processor list *)
| ESnapW                        (* End: snapshot() about to lock *)
| ESnap                         (* End: snapshot() holds mu *)
| EDeliver (k : nat) (sn : snap)(* End: about to call OnEnd on processor k *)
| MCrit                         (* mutator: holds mu, before the isRecording check *)
| MApply (i : nat)              (* mutator: holds mu, i parts appended so far *)
| CCrit                         (* addChild: holds mu *)
| RCrit                         (* IsRecording: holds mu *)
| Ret (r : bool)                (* about to return r *)
| Done.

Record state := {
  mu : option nat;              (* owner of s.mu *)
  endt : nat;                   (* endTime; 0 = zero time = still recording *)
  parts : list (nat * nat);     (* attributes / events / links, abstractly (mutation id, part index) *)
  name : option nat;            (* id of the last applied SetName *)
  status : option nat;          (* id of the last applied SetStatus *)
  children : nat;               (* childSpanCount *)
  pcs : nat -> pc;
  applied : list nat;           (* ghost: mutators that completed their critical section while recording *)
  drops : dropped;              (* droppedAttributes, events.droppedCount, links.droppedCount *)
  kids : list nat;              (* ghost: addChild calls that incremented the count *)
  hist : list event             (* ghost: chronological history *)
}.

Definition init : state :=
  {| mu := None; endt := 0; parts := []; name := None; status := None; children := 0;
     pcs := fun _ => Idle; applied := [];
     drops := {| d_attr := 0; d_event := 0; d_link := 0 |}; kids := []; hist := [] |}.

(** What snapshot() copies. *)
Definition mk_snap (s : state) : snap :=
  {| sn_parts := parts s; sn_name := name s; sn_status := status s;
     sn_et := endt s; sn_children := children s |}.

Definition set_pc (s : state) (t : nat) (p : pc) : state :=
  {| mu := mu s; endt := endt s; parts := parts s; name := name s; status := status s;
     children := children s; pcs := upd (pcs s) t p; applied := applied s; drops := drops s; kids := kids s; hist := hist s |}.
Definition set_mu (s : state) (m : option nat) : state :=
  {| mu := m; endt := endt s; parts := parts s; name := name s; status := status s;
     children := children s; pcs := pcs s; applied := applied s; drops := drops s; kids := kids s; hist := hist s |}.
Definition emit (s : state) (e : event) : state :=
  {| mu := mu s; endt := endt s; parts := parts s; name := name s; status := status s;
     children := children s; pcs := pcs s; applied := applied s; drops := drops s; kids := kids s; hist := hist s ++ [e] |}.
Definition set_endt (s : state) (et : nat) : state :=
  {| mu := mu s; endt := et; parts := parts s; name := name s; status := status s;
     children := children s; pcs := pcs s; applied := applied s; drops := drops s; kids := kids s; hist := hist s |}.
(** Applying one part of a mutation under the span limits.
    SetAttributes (addOverCapAttrs / the limit == 0 branch): a new attribute is kept while fewer than
    [limit] are held, otherwise counted in droppedAttributes.  AddEvent / AddLink / RecordError
    (evictedQueue.add): capacity 0 only counts; at capacity the oldest element is evicted and counted,
    then the new one is appended.  The kind of an existing part is the kind of the call that made it. *)
Definition is_kind (c : cfg) (k : mkind) (x : nat * nat) : bool :=
  match prog c (fst x) with Some (OMut k' _) => mkind_eqb k k' | _ => false end.

Fixpoint remove_first_p (p : nat * nat -> bool) (l : list (nat * nat)) : list (nat * nat) :=
  match l with
  | [] => []
  | x :: r => if p x then r else x :: remove_first_p p r
  end.

Definition bump (d : dropped) (k : mkind) : dropped :=
  match k with
  | KAttr => {| d_attr := S (d_attr d); d_event := d_event d; d_link := d_link d |}
  | KEvent => {| d_attr := d_attr d; d_event := S (d_event d); d_link := d_link d |}
  | KLink => {| d_attr := d_attr d; d_event := d_event d; d_link := S (d_link d) |}
  | _ => d
  end.

Definition new_parts (c : cfg) (s : state) (k : mkind) (x : nat * nat) : list (nat * nat) :=
  match lim_of (lims c) k with
  | None => parts s ++ [x]
  | Some L =>
      let cnt := countb (is_kind c k) (parts s) in
      match k with
      | KAttr => if cnt <? L then parts s ++ [x] else parts s
      | _ => if L =? 0 then parts s
             else if cnt <? L then parts s ++ [x]
             else remove_first_p (is_kind c k) (parts s) ++ [x]
      end
  end.

Definition new_drops (c : cfg) (s : state) (k : mkind) : dropped :=
  match lim_of (lims c) k with
  | None => drops s
  | Some L => if countb (is_kind c k) (parts s) <? L then drops s else bump (drops s) k
  end.

Definition apply_part (c : cfg) (s : state) (k : mkind) (x : nat * nat) : state :=
  {| mu := mu s; endt := endt s; parts := new_parts c s k x; name := name s; status := status s;
     children := children s; pcs := pcs s; applied := applied s; drops := new_drops c s k; kids := kids s; hist := hist s |}.

(** End of a mutator's critical section: register write (SetName/SetStatus) and ghost. *)
Definition finish_mut (s : state) (k : mkind) (t : nat) : state :=
  {| mu := mu s; endt := endt s; parts := parts s;
     name := match k with KName => Some t | _ => name s end;
     status := match k with KStatus => Some t | _ => status s end;
     children := children s; pcs := pcs s; applied := applied s ++ [t]; drops := drops s; kids := kids s; hist := hist s |}.
Definition inc_child (s : state) (t : nat) : state :=
  {| mu := mu s; endt := endt s; parts := parts s; name := name s; status := status s;
     children := S (children s); pcs := pcs s; applied := applied s; drops := drops s; kids := kids s ++ [t]; hist := hist s |}.

Definition recording (s : state) : bool := endt s =? 0.

Definition entry_pc (o : op) : pc :=
  match o with OEnd => ECrit | OMut _ _ => MCrit | OChild => CCrit | OIsRec => RCrit end.

(** One step of thread [t]; [None] = not enabled (blocked on the mutex, finished, or unused id). *)
Definition step (c : cfg) (s : state) (t : nat) : option state :=
  match prog c t with
  | None => None
  | Some o =>
    match pcs s t with
    | Idle => Some (set_pc (emit s (EvCall t o)) t Called)
    | Called =>
        match mu s with
        | Some _ => None
        | None => Some (set_pc (set_mu s (Some t)) t (entry_pc o))
        end
    | ECrit =>
        if recording s
        then Some (set_pc (set_mu (set_endt s (S t)) None) t ETask)   (* endTime := et; Unlock *)
        else Some (set_pc (set_mu s None) t (Ret false))
    | ETask => Some (set_pc s t EProcs)                               (* executionTracerTaskEnd(), outside the lock *)
    | EProcs => Some (set_pc s t (if nprocs c =? 0 then Ret false else ESnapW))
    | ESnapW =>
        match mu s with
        | Some _ => None
        | None => Some (set_pc (set_mu s (Some t)) t ESnap)
        end
    | ESnap => Some (set_pc (set_mu s None) t (EDeliver 0 (mk_snap s)))
    | EDeliver k sn =>
        if k <? nprocs c
        then Some (set_pc (emit s (EvOnEnd k sn)) t (EDeliver (S k) sn))
        else Some (set_pc s t (Ret false))
    | MCrit =>
        if recording s
        then Some (set_pc s t (MApply 0))
        else Some (set_pc (set_mu s None) t (Ret false))
    | MApply i =>
        match o with
        | OMut k _ =>
            if i <? nparts o
            then Some (set_pc (apply_part c s k (t, i)) t (MApply (S i)))
            else Some (set_pc (set_mu (finish_mut s k t) None) t (Ret false))
        | _ => None
        end
    | CCrit =>
        if recording s
        then Some (set_pc (set_mu (inc_child s t) None) t (Ret false))
        else Some (set_pc (set_mu s None) t (Ret false))
    | RCrit => Some (set_pc (set_mu s None) t (Ret (recording s)))
    | Ret r => Some (set_pc (emit s (EvRet t o r)) t Done)
    | Done => None
    end
  end.

Definition run_c (c : cfg) : state -> list nat -> option state := run (step c).

(** ** Sequential programs (the deterministic fragment of the correspondence run):
    call [i] is [nth i ops]; each call runs to completion before the next starts. *)
Definition seq_cfg (P : nat) (l : limits) (ops : list op) : cfg :=
  {| nprocs := P; prog := fun t => nth_error ops t; lims := l |}.

Fixpoint run_thread (c : cfg) (fuel : nat) (s : state) (t : nat) : state :=
  match fuel with
  | O => s
  | S f => match step c s t with Some s' => run_thread c f s' t | None => s end
  end.

Definition seq_fuel (P : nat) (o : op) : nat := 12 + P + nparts o.

Definition run_seq (P : nat) (l : limits) (ops : list op) : state :=
  fold_left (fun s t => run_thread (seq_cfg P l ops) (seq_fuel P (nth t ops OEnd)) s t)
            (seq 0 (length ops)) init.

(** ** The protocol before fix 845ec5d, reduced to what matters: End released the
    span lock around the runtime/trace task end BEFORE setting the end time.
    Kept as documentation of what [c10_end_once] excludes (see Proofs.end_once_prefix_refuted). *)
Module Old.
  Inductive opc := OIdle | OLocked | OWindow | ORelock | OSet | ODeliver | ODone.
  Record ost := { olock : option nat; oended : bool; opcs : nat -> opc; odelivered : nat }.
  Definition oinit := {| olock := None; oended := false; opcs := fun _ => OIdle; odelivered := 0 |}.
  Definition ostep (s : ost) (t : nat) : option ost :=
    match opcs s t with
    | OIdle => match olock s with
               | None => Some {| olock := Some t; oended := oended s; opcs := upd (opcs s) t OLocked; odelivered := odelivered s |}
               | Some _ => None
               end
    | OLocked => if oended s
                 then Some {| olock := None; oended := oended s; opcs := upd (opcs s) t ODone; odelivered := odelivered s |}
                 else (* s.mu.Unlock() before executionTracerTaskEnd() *)
                      Some {| olock := None; oended := oended s; opcs := upd (opcs s) t OWindow; odelivered := odelivered s |}
    | OWindow => Some {| olock := olock s; oended := oended s; opcs := upd (opcs s) t ORelock; odelivered := odelivered s |}
    | ORelock => match olock s with
                 | None => Some {| olock := Some t; oended := oended s; opcs := upd (opcs s) t OSet; odelivered := odelivered s |}
                 | Some _ => None
                 end
    | OSet => Some {| olock := None; oended := true; opcs := upd (opcs s) t ODeliver; odelivered := odelivered s |}
    | ODeliver => Some {| olock := olock s; oended := oended s; opcs := upd (opcs s) t ODone; odelivered := S (odelivered s) |}
    | ODone => None
    end.
End Old.

(** * SetStatus on a recording span (span.go): [if s.status.Code > code { return }], codes Unset < Error < Ok;
    the description is kept for Error only. *)
Definition srank (c : scode) : nat := match c with SUnset => 0 | SError _ => 1 | SOk => 2 end.
Definition set_status (cur new : scode) : scode := if srank new <? srank cur then cur else new.
Fixpoint status_run (cur : scode) (ws : list scode) : list scode :=
  match ws with
  | [] => []
  | w :: r => let c := set_status cur w in c :: status_run c r
  end.
