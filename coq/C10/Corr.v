(** C10 correspondence: evaluates the model and the specification on what the Go
    harness observed from sdk/trace (generated case files import this).

    Compact literals: the harness writes numbers as [N]; snapshots go to a per-case
    table and OnEnd events refer to them by index.  Options are encoded 0 = None,
    k+1 = Some k. *)
From Verif Require Import Lib.Base Lib.LTS C10.Spec C10.Model C10.ProofsLim.
Open Scope N_scope.

Definition n2 (x : N) : nat := N.to_nat x.
Definition optn (x : N) : option nat := if x =? 0 then None else Some (N.to_nat (x - 1)).

(** Operations. *)
Definition MA (k : N) : op := OMut KAttr (n2 k).   (* SetAttributes with k fresh keys *)
Definition ME : op := OMut KEvent 1.               (* AddEvent / RecordError *)
Definition ML : op := OMut KLink 1.                (* AddLink *)
Definition MN : op := OMut KName 0.                (* SetName *)
Definition MS : op := OMut KStatus 0.              (* SetStatus(Error, desc) *)

(** Snapshot literal: parts, name, status, end-time index, child count. *)
Definition SN (ps : list (N * N)) (nm st et ch : N) : snap :=
  {| sn_parts := map (fun x => (n2 (fst x), n2 (snd x))) ps;
     sn_name := optn nm; sn_status := optn st; sn_et := n2 et; sn_children := n2 ch |}.

Inductive ev :=
| C (t : N) (o : op)                 (* call *)
| R (t : N) (o : op) (r : bool)      (* return *)
| O (p : N) (i : N).                 (* OnEnd on processor p with snapshot number i *)

Definition dummy_snap : snap := SN [] 0 0 0 0.

Definition conv (tbl : list snap) (e : ev) : event :=
  match e with
  | C t o => EvCall (n2 t) o
  | R t o r => EvRet (n2 t) o r
  | O p i => EvOnEnd (n2 p) (nth (n2 i) tbl dummy_snap)
  end.

Inductive case :=
(** deterministic fragment: one goroutine issues [ops] in order (call i = i-th op) on one span
    with [P] processors, with ([tr] = true) or without runtime/trace active *)
| CSeq (P : N) (tr : bool) (lims : limits) (ops : list op) (tbl : list snap) (drops : list dropped) (h : list ev) (rereads : list N)
(** free-running fragment: recorded history of one span shared by racing goroutines *)
| CHist (P : N) (tr : bool) (tbl : list snap) (h : list ev) (rereads : list N)
(** the same under span limits: [drops] gives, per snapshot number, the DroppedAttributes / DroppedEvents /
    DroppedLinks read together with it *)
| CLim (P : N) (tr : bool) (lims : limits) (tbl : list snap) (drops : list dropped) (h : list ev) (rereads : list N)
(** SetStatus calls on one recording span and the status read after each (XE m = Error by call m) *)
| CStatus (ws reads : list scode)
(** a race-detector report the harness classified as known finding [k] (see harness raceTier) *)
| CRace (k : N).

Definition XE (m : N) : scode := SError (n2 m).

Definition LM (a e l : N) : limits := {| lim_attr := optn a; lim_event := optn e; lim_link := optn l |}.
Definition DR (a e l : N) : dropped := {| d_attr := n2 a; d_event := n2 e; d_link := n2 l |}.
Definition no_drop : dropped := DR 0 0 0.
Definition conv_lim (tbl : list snap) (drops : list dropped) (e : ev) : event * dropped :=
  (conv tbl e, match e with O _ i => nth (n2 i) drops no_drop | _ => no_drop end).

(** Model side of the deterministic fragment.  End times are compared up to "zero or
    not" (the harness numbers distinct end times 1, 2, …; the model stamps the winner's id);
    parts are compared as the harness lists them: attributes sorted (in a sequential program
    application order is already sorted), then events in order, then links in order. *)
Definition kind_of (ops : list op) (m : nat) : option mkind :=
  match nth_error ops m with Some (OMut k _) => Some k | _ => None end.
Definition kind_is (ops : list op) (k : mkind) (x : nat * nat) : bool :=
  match kind_of ops (fst x) with Some k' => mkind_eqb k k' | None => false end.
Definition canon_snap (ops : list op) (sn : snap) : snap :=
  {| sn_parts := filter (kind_is ops KAttr) (sn_parts sn) ++ filter (kind_is ops KEvent) (sn_parts sn)
                 ++ filter (kind_is ops KLink) (sn_parts sn);
     sn_name := sn_name sn; sn_status := sn_status sn;
     sn_et := if Nat.eqb (sn_et sn) 0 then 0%nat else 1%nat; sn_children := sn_children sn |}.
Definition canon_ev (ops : list op) (e : event) : event :=
  match e with EvOnEnd p sn => EvOnEnd p (canon_snap ops sn) | _ => e end.

Fixpoint hist_eqb (a b : list event) : bool :=
  match a, b with
  | [], [] => true
  | x :: a', y :: b' => event_eqb x y && hist_eqb a' b'
  | _, _ => false
  end.

Definition flag (b : bool) (code : N) : list N := if b then [] else [code].

Definition judge (P : nat) (tbl : list snap) (h : list ev) (rereads : list N) : bool :=
  let hh := map (conv tbl) h in
  spec_ok P hh && stable_ok hh (map (fun i => nth (n2 i) tbl dummy_snap) rereads).

Definition check_case (c : case) : list N :=
  match c with
  | CSeq P tr lims ops tbl drops h rr =>
      let ms := run_seq (n2 P) lims ops in
      let m := hist ms in
      let hh := map (conv_lim tbl drops) h in
      let unlimited := match lim_attr lims, lim_event lims, lim_link lims with None, None, None => true | _, _, _ => false end in
      (* same history, and every delivery / re-read shows the model's drop counts *)
      flag (hist_eqb (map (canon_ev ops) m) (map (conv tbl) h) &&
            forallb (fun x => match fst x with EvOnEnd _ _ => dropped_eqb (snd x) (Model.drops ms) | _ => true end) hh &&
            forallb (fun i => dropped_eqb (nth (n2 i) drops no_drop) (Model.drops ms)) rr) V_MISMATCH ++
      flag ((negb unlimited || judge (n2 P) tbl h rr) &&
            spec_lim_ok lims (n2 P) hh &&
            stable_lim_ok hh (map (fun i => (nth (n2 i) tbl dummy_snap, nth (n2 i) drops no_drop)) rr)) V_SPECFAIL ++
      flag ((negb unlimited || spec_ok (n2 P) m) && spec_lim_ok lims (n2 P) (ProofsLim.lim_hist ms)) V_MODELSPEC
  | CHist P tr tbl h rr =>
      flag (judge (n2 P) tbl h rr) V_SPECFAIL
  | CLim P tr lims tbl drops h rr =>
      let hh := map (conv_lim tbl drops) h in
      flag (spec_lim_ok lims (n2 P) hh &&
            stable_lim_ok hh (map (fun i => (nth (n2 i) tbl dummy_snap, nth (n2 i) drops no_drop)) rr)) V_SPECFAIL
  | CStatus ws reads =>
      flag (scodes_eqb (status_run SUnset ws) reads) V_MISMATCH ++
      flag (status_spec ws reads) V_SPECFAIL ++
      flag (status_spec ws (status_run SUnset ws)) V_MODELSPEC
  | CRace k => [V_KNOWN k]
  end.

Definition run (cs : list case) : list (N * N) := index_from 0 check_case cs.
