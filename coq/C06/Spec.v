(** C06 specification: what a user of the sdk/log BatchProcessor may observe, as
    decidable predicates over a recorded history of call / return / exporter
    events.  Nothing here refers to the model. *)
From Verif Require Import Lib.Base.
Local Open Scope nat_scope.

(** A record is identified by the goroutine that emitted it and that goroutine's
    sequence number; [r_body] stands for its content (body and attributes). *)
Record rec := mkrec { r_tid : nat; r_seq : nat; r_body : nat }.
Inductive ret := RNil | RCtx | ROther.
Inductive op := OpEmit (r : rec) | OpFlush | OpShutdown.
Inductive event :=
| EvCall (t : nat) (o : op)            (* logged before the call is issued *)
| EvRet (t : nat) (o : op) (x : ret)   (* logged after it returned *)
| EvBegin (b : list rec)               (* the exporter's Export was entered with batch b *)
| EvEnd (ok : bool)                    (* that Export returned *)
| EvExpShutdown.                       (* the exporter's Shutdown was called *)
Definition history := list event.      (* oldest event first *)

(** effective configuration (queue size, max export batch size, export buffer size) *)
Record config := mkcfg { qcap : nat; maxb : nat; bufsz : nat }.
Definition valid (c : config) : Prop := 1 <= qcap c /\ 1 <= maxb c /\ 1 <= bufsz c.

Definition rec_eqb (a b : rec) : bool :=
  Nat.eqb (r_tid a) (r_tid b) && Nat.eqb (r_seq a) (r_seq b) && Nat.eqb (r_body a) (r_body b).
Definition memb (r : rec) (l : list rec) : bool := existsb (rec_eqb r) l.
Fixpoint nodupb (l : list rec) : bool :=
  match l with [] => true | x :: r => negb (memb x r) && nodupb r end.

(** ** Vocabulary over (prefixes of) histories *)
Definition ev_exported (e : event) : list rec := match e with EvBegin b => b | _ => [] end.
Definition ev_emitted (e : event) : list rec := match e with EvCall _ (OpEmit r) => [r] | _ => [] end.
Definition ev_emit_ret (e : event) : list rec := match e with EvRet _ (OpEmit r) _ => [r] | _ => [] end.
Definition exported (h : history) : list rec := flat_map ev_exported h.
Definition emitted (h : history) : list rec := flat_map ev_emitted h.
Definition emit_rets (h : history) : list rec := flat_map ev_emit_ret h.

Definition open_step (b : bool) (e : event) : bool :=
  match e with EvBegin _ => true | EvEnd _ => false | _ => b end.
(** an Export call is in progress at the end of h *)
Definition open_export (h : history) : bool := fold_left open_step h false.

Definition is_shut_call (e : event) : bool := match e with EvCall _ OpShutdown => true | _ => false end.
Definition is_fail (e : event) : bool := match e with EvEnd false => true | _ => false end.
Definition is_shut_nil (e : event) : bool := match e with EvRet _ OpShutdown RNil => true | _ => false end.
Definition is_call_of (t : nat) (e : event) : bool := match e with EvCall t' _ => Nat.eqb t' t | _ => false end.
Definition shut_calls (h : history) : nat := length (filter is_shut_call h).
Definition has_fail (h : history) : bool := existsb is_fail h.

(** the part of h before the LAST call event of goroutine t (newest-first helper) *)
Fixpoint drop_to_call (t : nat) (l : history) : history :=
  match l with [] => [] | e :: r => if is_call_of t e then r else drop_to_call t r end.
Definition before_call (t : nat) (h : history) : history := rev (drop_to_call t (rev h)).

(** Quantification over the positions of a history. *)
Fixpoint all_from (f : history -> event -> bool) (pre l : history) : bool :=
  match l with [] => true | e :: post => f pre e && all_from f (pre ++ [e]) post end.
Definition all_pos (f : history -> event -> bool) (h : history) : bool := all_from f [] h.
(** a ForceFlush call and a Shutdown call overlap somewhere in h.  One pass: the calls
    of these two kinds in progress (goroutine, is it a ForceFlush), verdict. *)
Definition ov_state := (list (nat * bool) * bool)%type.
Definition ov_drop (t : nat) (l : list (nat * bool)) := filter (fun x => negb (Nat.eqb (fst x) t)) l.
Definition ov_step (st : ov_state) (e : event) : ov_state :=
  let '(opens, f) := st in
  match e with
  | EvCall t OpShutdown => ((t, false) :: opens, f || existsb (fun x => snd x) opens)
  | EvCall t OpFlush => ((t, true) :: opens, f || existsb (fun x => negb (snd x)) opens)
  | EvRet t OpFlush _ | EvRet t OpShutdown _ => (ov_drop t opens, f)
  | _ => st
  end.
Definition overlap (h : history) : bool := snd (fold_left ov_step h ([], false)).

(** r may have been overwritten as the oldest record of a full queue: at some point
    after its Emit was issued, more than qcap emitted records had not yet been handed
    to the exporter.  One pass: (Emit of r seen, #emitted, #exported, verdict). *)
Definition exc_state := (bool * nat * nat * bool)%type.
Definition exc_step (c : config) (r : rec) (st : exc_state) (e : event) : exc_state :=
  let '(seen, ne, nx, ok) := st in
  let seen' := seen || memb r (ev_emitted e) in
  let ne' := ne + length (ev_emitted e) in
  let nx' := nx + length (ev_exported e) in
  (seen', ne', nx', ok || (seen' && (nx' + qcap c + 1 <=? ne'))).
Definition excused (c : config) (h : history) (r : rec) : bool :=
  snd (fold_left (exc_step c r) h (false, 0, 0, false)).

(** batches: per-goroutine emission order *)
Definition before_ok (a b : rec) : bool := negb (Nat.eqb (r_tid a) (r_tid b)) || (r_seq a <? r_seq b).
Fixpoint ordered (l : list rec) : bool :=
  match l with [] => true | a :: r => forallb (before_ok a) r && ordered r end.
(** every record of b comes strictly after the records of the same goroutine in l *)
Definition ordered_after (l b : list rec) : bool :=
  forallb (fun a => forallb (before_ok a) b) l && ordered b.
Definition fresh_in (l b : list rec) : bool :=
  forallb (fun r => negb (memb r l)) b && nodupb b.

(** the part of h before the first Shutdown call (all of h if there is none) *)
Fixpoint before_shut (h : history) : history :=
  match h with [] => [] | e :: r => if is_shut_call e then [] else e :: before_shut r end.
(** every record of b comes after the records of the same goroutine in l *)
Definition all_before (l b : list rec) : bool := forallb (fun a => forallb (before_ok a) b) l.

(** ** The property, clause by clause, as a check of one event against its prefix *)

(** Guards (forced hypotheses, see Properties.v): with a guard switched on, the clause
    it protects is not required of histories in which the guarded situation occurred. *)
Record guards := mkg { g_shut : bool; g_fail : bool; g_overlap : bool }.
Definition all_guards := mkg true true true.
Definition no_guards := mkg false false false.

(** every record whose Emit had returned before goroutine t issued its current call is,
    at the end of pre, handed to the exporter or excused as overwritten *)
Definition visible (c : config) (pre : history) (t : nat) : bool :=
  forallb (fun r => if memb r (exported pre) then true else excused c pre r)
          (emit_rets (before_call t pre)).

(** a Shutdown has returned nil before the end of h; with the guard on, only a Shutdown
    that was the only Shutdown call issued so far counts.  One pass: (#Shutdown calls, verdict). *)
Definition sr_step (g : guards) (st : nat * bool) (e : event) : nat * bool :=
  let '(n, f) := st in
  (if is_shut_call e then S n else n,
   f || (is_shut_nil e && (negb (g_shut g) || (n <=? 1)))).
Definition shut_returned (g : guards) (h : history) : bool := snd (fold_left (sr_step g) h (0, false)).

Definition begin_ok (g : guards) (c : config) (pre : history) (b : list rec) : bool :=
  (1 <=? length b) && (length b <=? maxb c)            (* batch bound *)
  && negb (open_export pre)                             (* Export never runs twice at once *)
  && forallb (fun r => memb r (emitted pre)) b          (* an emitted record, content as at Emit *)
  && fresh_in (exported pre) b                          (* at most once *)
  && (if ordered_after (exported pre) b then true       (* emission order; when a ForceFlush *)
      else g_overlap g && overlap pre                    (* overlapped a Shutdown (F-C06-2): still *)
           && all_before (exported (before_shut pre)) b) (* after everything exported before Shutdown was called *)
  && negb (shut_returned g pre).                        (* nothing after Shutdown returned nil *)

(** When an Export call has failed, chunkExporter abandons the rest of that payload
    (F-C06-3), so the clause above is false of the code.  What the code does guarantee:
    a failed call loses at most the rest of ONE payload, i.e. at most qcap - maxb records
    (a payload is at most one queue; the failed chunk itself was a full batch).  So the
    records emitted before the call and neither handed over nor excused are at most
    (#failed Export calls) * (qcap - maxb). *)
Fixpoint dedup (l : list rec) : list rec :=
  match l with [] => [] | x :: r => if memb x r then dedup r else x :: dedup r end.
Definition fails (h : history) : nat := length (filter is_fail h).
Definition missing (c : config) (pre : history) (t : nat) : list rec :=
  filter (fun r => negb (memb r (exported pre)) && negb (excused c pre r))
         (dedup (emit_rets (before_call t pre))).
Definition visible_upto (c : config) (pre : history) (t : nat) : bool :=
  length (missing c pre t) <=? fails pre * (qcap c - maxb c).

Definition flush_ok (g : guards) (c : config) (pre : history) (t : nat) : bool :=
  if g_shut g && (1 <=? shut_calls pre) then true
  else if g_fail g && has_fail pre then visible_upto c pre t
  else visible c pre t.
Definition shut_ok (g : guards) (c : config) (pre : history) (t : nat) : bool :=
  if g_shut g && (2 <=? shut_calls pre) then true
  else if g_fail g && has_fail pre then visible_upto c pre t
  else visible c pre t.

Definition ev_ok (g : guards) (c : config) (pre : history) (e : event) : bool :=
  match e with
  | EvBegin b => begin_ok g c pre b
  | EvEnd _ => open_export pre
  | EvRet t OpFlush RNil => flush_ok g c pre t
  | EvRet t OpShutdown RNil => shut_ok g c pre t
  | _ => true
  end.

Definition spec_gen (g : guards) (c : config) (h : history) : bool := all_pos (ev_ok g c) h.
(** the guarded property (what the theorems establish of every model history) *)
Definition spec_ok := spec_gen all_guards.
(** the literal reading of the statement *)
Definition spec_strict := spec_gen no_guards.
