(** C06 theorems. *)
From Verif Require Import Lib.Base C06.Spec C06.Model C06.Proofs.
Local Open Scope nat_scope.
