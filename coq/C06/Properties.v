(** C06 — sdk/log BatchProcessor: every record once (or overwritten and counted),
    per-goroutine order, bounded batches, one Export at a time, value copies,
    nothing after Shutdown.  Every theorem quantifies over ALL configurations
    (queue, batch and buffer sizes >= 1), ALL schedules (lists of model actions, any
    length) and any number of goroutines (thread ids are arbitrary naturals); the
    exporter's outcome, context expiry and the poll timer are actions of the schedule.

    Guards in plain sight (each is forced: see the _refuted lemmas below):
      - order: "no ForceFlush call overlaps a Shutdown call"   ([overlap h = false])
      - quiet / visibility: the Shutdown that returned nil was the only Shutdown
        call issued so far; no Shutdown call before a ForceFlush returned
      - visibility: no Export call has failed so far. *)
From Verif Require Import Lib.Base C06.Spec C06.Model C06.Inv C06.Proofs.
From Coq Require Import Permutation.
Local Open Scope nat_scope.

(** conservation: the records accepted by OnEmit are exactly (as a multiset, nothing
    twice) those handed to the exporter, overwritten as the oldest of a full ring,
    lost to a failed export or a shutdown whose context expired, or still pending *)
Theorem c06_exactly_once_or_overwritten c sch s :
  valid c -> exec c sch = Some s ->
  Permutation (enq s) (exported (hist s) ++ dropped s ++ lostE s ++ lostD s ++ pend s) /\
  NoDup (enq s) /\ incl (enq s) (emitted (hist s)).
Proof. exact (p_conservation c sch s). Qed.
Print Assumptions c06_exactly_once_or_overwritten.

Theorem c06_at_most_once c sch s :
  valid c -> exec c sch = Some s -> NoDup (exported (hist s)).
Proof. exact (p_at_most_once c sch s). Qed.
Print Assumptions c06_at_most_once.

Theorem c06_batch_bound c sch s :
  valid c -> exec c sch = Some s ->
  forall h1 b h2, hist s = h1 ++ EvBegin b :: h2 -> 1 <= length b /\ length b <= maxb c.
Proof. exact (p_batch_bound c sch s). Qed.
Print Assumptions c06_batch_bound.

(** Export is entered only while no Export is in progress; it returns only while one is *)
Theorem c06_exclusive_export c sch s :
  valid c -> exec c sch = Some s ->
  (forall h1 b h2, hist s = h1 ++ EvBegin b :: h2 -> open_export h1 = false) /\
  (forall h1 ok h2, hist s = h1 ++ EvEnd ok :: h2 -> open_export h1 = true).
Proof. intros Hv Hr. split; [exact (p_exclusive_begin c sch s Hv Hr) | exact (p_exclusive_end c sch s Hv Hr)]. Qed.
Print Assumptions c06_exclusive_export.

(** every exported record is, as a VALUE, a record passed to Emit: the [AMutate]
    actions of the schedule (the caller editing its own copy) never show *)
Theorem c06_clone_isolation c sch s :
  valid c -> exec c sch = Some s ->
  forall x, In x (exported (hist s)) -> In x (emitted (hist s)).
Proof. exact (p_clone_isolation c sch s). Qed.
Print Assumptions c06_clone_isolation.

(** GUARD: no ForceFlush call overlaps a Shutdown call *)
Theorem c06_per_goroutine_order c sch s :
  valid c -> exec c sch = Some s ->
  overlap (hist s) = false -> ordered (exported (hist s)) = true.
Proof. exact (p_order c sch s). Qed.
Print Assumptions c06_per_goroutine_order.

(** GUARD (inside [shut_returned all_guards]): the Shutdown that returned nil was the
    only Shutdown call issued so far *)
Theorem c06_quiet_after_shutdown c sch s :
  valid c -> exec c sch = Some s ->
  forall h1 b h2, hist s = h1 ++ EvBegin b :: h2 -> shut_returned all_guards h1 = false.
Proof. exact (p_quiet c sch s). Qed.
Print Assumptions c06_quiet_after_shutdown.

(** all exporter-side clauses of spec_ok at every position of every model history *)
Theorem c06_exporter_clauses c sch s :
  valid c -> exec c sch = Some s -> all_pos (safe_ev c) (hist s) = true.
Proof. exact (safe_reach c sch s). Qed.
Print Assumptions c06_exporter_clauses.

(** GUARDS: no Shutdown call was issued before the ForceFlush returned (F-C06-1); no
    Export call has failed so far (F-C06-3).  Every record whose Emit had returned before
    the ForceFlush was called has been handed to the exporter when it returns nil, or is
    excused as overwritten. *)
Theorem c06_flush_visibility c sch s :
  valid c -> exec c sch = Some s ->
  forall h1 t h2, hist s = h1 ++ EvRet t OpFlush RNil :: h2 ->
  shut_calls h1 = 0 -> has_fail h1 = false ->
  forall r, In r (emit_rets (before_call t h1)) -> In r (exported h1) \/ excused c h1 r = true.
Proof. exact (p_flush_visibility c sch s). Qed.
Print Assumptions c06_flush_visibility.

(** GUARDS: this Shutdown is the only Shutdown call issued so far (F-C06-1); no Export
    call has failed so far (F-C06-3). *)
Theorem c06_shutdown_drains c sch s :
  valid c -> exec c sch = Some s ->
  forall h1 t h2, hist s = h1 ++ EvRet t OpShutdown RNil :: h2 ->
  shut_calls h1 <= 1 -> has_fail h1 = false ->
  forall r, In r (emit_rets (before_call t h1)) -> In r (exported h1) \/ excused c h1 r = true.
Proof. exact (p_shutdown_drains c sch s). Qed.
Print Assumptions c06_shutdown_drains.

(** every history the model can produce satisfies the (guarded) specification - the same
    [spec_ok] that judges the histories recorded from the implementation *)
Theorem c06_spec_ok c sch s :
  valid c -> exec c sch = Some s -> spec_ok c (hist s) = true.
Proof. exact (spec_reach c sch s). Qed.
Print Assumptions c06_spec_ok.

(** the model never sends on the closed input channel (in Go that would be a panic):
    whenever a step makes the export buffer longer, the channel is still open *)
Theorem c06_no_send_on_closed c sch s a s' :
  valid c -> exec c sch = Some s -> step c s a = Some s' ->
  length (input s) < length (input s') -> closed s = false.
Proof. exact (p_no_send_on_closed c sch s a s'). Qed.
Print Assumptions c06_no_send_on_closed.

(** the queue never holds more than qcap records, the export buffer never more than bufsz
    requests, no payload is larger than one queue, and a failed Export call costs at most
    the rest of one payload: qcap - maxb records per failure *)
Theorem c06_bounded c sch s :
  valid c -> exec c sch = Some s ->
  length (ring s) <= qcap c /\ length (input s) <= bufsz c /\
  Forall (fun q => length (req_recs q) <= qcap c) (input s) /\
  length (lostE s) <= fails (hist s) * (qcap c - maxb c).
Proof. exact (p_bounded c sch s). Qed.
Print Assumptions c06_bounded.

(** what ForceFlush still guarantees after failed Export calls (F-C06-3 makes the full
    clause false): when it returns nil and no Shutdown was called, the records emitted
    before it that are neither handed to the exporter nor excused as overwritten number
    at most (#failed Export calls so far) * (qcap - maxb); with no failure, none.
    This clause is part of [spec_ok] (flush_ok / shut_ok), so a change that loses more than
    the known finding does is a specification failure, not a classified finding. *)
Theorem c06_flush_bounded_loss c sch s :
  valid c -> exec c sch = Some s ->
  forall h1 t h2, hist s = h1 ++ EvRet t OpFlush RNil :: h2 -> shut_calls h1 = 0 ->
  length (missing c h1 t) <= fails h1 * (qcap c - maxb c).
Proof. exact (p_flush_bounded_loss c sch s). Qed.
Print Assumptions c06_flush_bounded_loss.

(** what remains of per-goroutine order WITHOUT the guard (F-C06-2 makes the full clause
    false when a ForceFlush overlaps a Shutdown): every record exported before the first
    Shutdown call precedes, goroutine by goroutine, every record exported later.  This is
    the else-branch of the order clause of [spec_ok]. *)
Theorem c06_order_before_shutdown c sch s :
  valid c -> exec c sch = Some s ->
  forall h1 b h2, hist s = h1 ++ EvBegin b :: h2 ->
  forall a x, In a (exported (before_shut h1)) -> In x b -> before_ok a x = true.
Proof. exact (p_order_before_shutdown c sch s). Qed.
Print Assumptions c06_order_before_shutdown.

(** ** The literal statement is false of the code as it is: witnesses (known findings) *)
Definition strict_fails (c : config) (sch : list action) : bool :=
  match exec c sch with
  | Some s => negb (spec_strict c (hist s)) && spec_ok c (hist s)
  | None => false
  end.

(** F-C06-1: a second Shutdown after a first Shutdown whose context expired returns nil
    at once although record (1,0) has not been handed to the exporter *)
Definition w_second_shutdown : list action :=
  [AEmit 1 0; AStep 1; AShutdown 2; APoll WKill true; AStep 2; AStep 2; AStep 2; AStep 2;
   ACtx 2; AStep 2; AStep 2; ACtx 2; AStep 2; AShutdown 3].
Theorem c06_second_shutdown_refuted :
  exists c sch, valid c /\ strict_fails c sch = true.
Proof. exists (mkcfg 4 2 2), w_second_shutdown. split; [cbv; lia | vm_compute; reflexivity]. Qed.
Print Assumptions c06_second_shutdown_refuted.

(** ... and so does a ForceFlush *)
Definition w_flush_after_shutdown : list action :=
  [AEmit 1 0; AStep 1; AShutdown 2; APoll WKill true; AStep 2; AStep 2; AStep 2; AStep 2;
   ACtx 2; AStep 2; AStep 2; ACtx 2; AStep 2; AFlush 3].
Theorem c06_flush_after_shutdown_refuted :
  exists c sch, valid c /\ strict_fails c sch = true.
Proof. exists (mkcfg 4 2 2), w_flush_after_shutdown. split; [cbv; lia | vm_compute; reflexivity]. Qed.
Print Assumptions c06_flush_after_shutdown_refuted.

(** F-C06-2: three parties.  Goroutine 1 has record 0 queued and is inside OnEmit with
    record 1 (past the stopped check); goroutine 3 is inside ForceFlush (past the stopped
    check); goroutine 2 calls Shutdown, which empties the ring (record 0) under the queue
    lock; record 1 is enqueued and handed over by the ForceFlush; only then Shutdown pushes
    its final batch: record 1 is exported before record 0. *)
Definition w_order : list action :=
  [AEmit 1 0; AStep 1; AEmit 1 0; AFlush 3; AShutdown 2; APoll WKill true; AStep 2; AStep 2;
   AStep 1; AStep 3; AStep 2; AStep 2; AXTake; AXBegin; AXEnd true; AXTake; AXBegin].
Theorem c06_order_unguarded_refuted :
  exists c sch s, valid c /\ exec c sch = Some s /\ ordered (exported (hist s)) = false.
Proof.
  exists (mkcfg 4 4 2), w_order. destruct (exec (mkcfg 4 4 2) w_order) as [s|] eqn:E; [|vm_compute in E; discriminate].
  exists s. split; [cbv; lia|]. split; [reflexivity|].
  vm_compute in E. inversion E; subst. vm_compute. reflexivity.
Qed.
Print Assumptions c06_order_unguarded_refuted.

(** F-C06-3: ForceFlush hands two records over as one payload (batch size 1); the
    exporter fails on the first chunk, the second is never passed to it, ForceFlush returns nil *)
Definition w_fail : list action :=
  [AEmit 1 0; AStep 1; AEmit 1 0; AStep 1; AFlush 2; AStep 2; AXTake; AXBegin; AXEnd false;
   AStep 2; AStep 2; AXTake; AStep 2; AStep 2].
Theorem c06_flush_after_failure_refuted :
  exists c sch, valid c /\ strict_fails c sch = true.
Proof. exists (mkcfg 4 1 2), w_fail. split; [cbv; lia | vm_compute; reflexivity]. Qed.
Print Assumptions c06_flush_after_failure_refuted.

(** ** Non-vacuity: three emitters (one edits its record after Emit, one record is
    overwritten in a queue of two), a ForceFlush and a Shutdown that both return nil;
    the history satisfies even the literal statement. *)
Definition good : list action :=
  [AEmit 1 5; AStep 1; AMutate 1 9; AEmit 2 0; AStep 2; APoll WTrig true; AXTake; AXBegin; AXEnd true;
   AEmit 3 1; AStep 3; AEmit 1 9; AStep 1; AEmit 3 1; AStep 3;
   AFlush 4; AStep 4; AXTake; AXBegin; AXEnd true; AStep 4; AStep 4; AXTake; AStep 4; AStep 4;
   AShutdown 5; APoll WKill true; AStep 5; AStep 5; AStep 5; AStep 5; AXTake; AStep 5; AStep 5].
Example c06_nonvacuous :
  valid (mkcfg 2 2 1) /\
  match exec (mkcfg 2 2 1) good with
  | Some s => spec_strict (mkcfg 2 2 1) (hist s) && (length (exported (hist s)) =? 4) &&
              (length (dropped s) =? 1) && negb (overlap (hist s)) &&
              shut_returned all_guards (hist s)
  | None => false
  end = true.
Proof. split; [cbv; lia | vm_compute; reflexivity]. Qed.

(** the loss bound is attained: queue 4, batch 1, four records flushed as one payload, the
    first chunk fails, three records (= 1 * (4 - 1)) are never passed to the exporter *)
Definition w_fail_tight : list action :=
  [AEmit 1 0; AStep 1; AEmit 1 0; AStep 1; AEmit 1 0; AStep 1; AEmit 1 0; AStep 1;
   AFlush 2; AStep 2; AXTake; AXBegin; AXEnd false; AStep 2; AStep 2; AXTake; AStep 2].
Example c06_loss_bound_tight :
  match exec (mkcfg 4 1 2) w_fail_tight with
  | Some s => (length (missing (mkcfg 4 1 2) (hist s) 2) =? 3) && (fails (hist s) =? 1) &&
              (length (lostE s) =? 3) && spec_ok (mkcfg 4 1 2) (hist s)
  | None => false
  end = true.
Proof. vm_compute. reflexivity. Qed.

(** on the three-party schedule of F-C06-2 the guarded specification (with its proved
    remainder of the order clause) holds, the literal one does not *)
Example c06_order_witness_judged :
  match exec (mkcfg 4 4 2) w_order with
  | Some s => spec_ok (mkcfg 4 4 2) (hist s) && negb (spec_strict (mkcfg 4 4 2) (hist s)) && overlap (hist s)
  | None => false
  end = true.
Proof. vm_compute. reflexivity. Qed.
