(** C06 invariant, layer Q: the bounded queue, the bounded export buffer, payload sizes,
    and how much a failed export can lose. *)
From Verif Require Import Lib.Base C06.Spec C06.Model C06.Lemmas C06.Inv.
Local Open Scope nat_scope.

Lemma fails_snoc h e : fails (h ++ [e]) = fails h + (if is_fail e then 1 else 0).
Proof. unfold fails. rewrite filter_app, app_length. cbn. now destruct (is_fail e). Qed.

Definition ex_ok (c : config) (x : exst) : Prop :=
  match x with
  | XNext rs _ => length rs <= qcap c
  | XOpen cur rest _ => length cur + length rest <= qcap c /\ (rest <> [] -> length cur = maxb c)
  | _ => True
  end.

Record InvQ (c : config) (s : st) : Prop := {
  q_ring : length (ring s) <= qcap c;
  q_input : length (input s) <= bufsz c;
  q_data : Forall (fun q => length (req_recs q) <= qcap c) (input s);
  q_held : length (held s) <= qcap c;
  q_ex : ex_ok c (ex s);
  q_lost : length (lostE s) <= fails (hist s) * (qcap c - maxb c)
}.

Lemma invQ_init c : InvQ c init.
Proof. constructor; cbn; auto; lia. Qed.

Lemma enqueue_len c r s :
  1 <= qcap c -> length (ring s) <= qcap c -> length (ring (enqueue c r s)) <= qcap c.
Proof.
  intros Hq Hl. unfold enqueue; cbv zeta; cbn [ring set_enq].
  destruct (length (ring s) <? qcap c) eqn:E; cbn [ring set_ring set_dropped set_enq];
    rewrite app_length; cbn [length].
  - apply Nat.ltb_lt in E. lia.
  - rewrite skipn_length. apply Nat.ltb_ge in E. lia.
Qed.

Lemma invQ_step c s a s' : valid c -> InvQ c s -> step c s a = Some s' -> InvQ c s'.
Proof.
  intros [Hq [Hm Hb]] [Qr Qi Qd Qh Qe Ql] H.
  destruct a; open_step H; sst'; constructor; sstg'.
  all: rewrite ?fails_snoc; cbn [is_fail]; rewrite ?Nat.add_0_r.
  all: try match goal with E : input ?s = _ |- context [input ?s] => rewrite E end.
  all: try match goal with E : ex ?s = _ |- context [ex ?s] => rewrite E end.
  all: try assumption.
  all: try solve [apply enqueue_len; assumption].
  all: try solve [rewrite ?skipn_length; cbn [length]; lia].
  all: try solve [rewrite app_length; cbn [length]; unfold room in *;
                  match goal with E : (_ <? _) = true |- _ => apply Nat.ltb_lt in E; sst; lia end].
  all: try solve [apply Forall_app; split; [assumption | constructor; [cbn [req_recs length]; rewrite ?firstn_length; lia | constructor]]].
  all: try solve [match goal with E : ex ?s = _ |- ex_ok _ (ex ?s) => rewrite E; assumption end].
  all: try solve [cbn; lia].
  all: try solve [cbn [length] in *; lia].
  all: try solve [inversion Qd; subst; assumption].
  - (* Export entered: a non-final chunk is a full one *)
    cbn in Qe |- *. split.
    + rewrite <- app_length, firstn_skipn. exact Qe.
    + intro Hr. rewrite firstn_length. destruct (Nat.le_gt_cases (length rs) (maxb c)) as [Hle|Hgt]; [|lia].
      exfalso. apply Hr. apply skipn_all2. exact Hle.
  - cbn in Qe |- *. lia.
  - (* Export failed: the rest of the payload is lost *)
    cbn in Qe. destruct Qe as [Q1 Q2]. rewrite app_length.
    assert (length rest <= qcap c - maxb c).
    { destruct rest as [|x rest]; [cbn; lia|]. rewrite Q2 in Q1 by discriminate. lia. }
    nia.
Qed.
