(** C06: the inductive invariant of the model, layer by layer. *)
From Verif Require Import Lib.Base C06.Spec C06.Model C06.Lemmas.
From Coq Require Import Permutation.
Local Open Scope nat_scope.

(** ** projections of the model state *)
Definition xpend (x : exst) : list rec :=
  match x with XNext rs _ => rs | XOpen _ rest _ => rest | _ => [] end.
Definition req_recs (q : req) : list rec := match q with Data rs _ => rs | Sync _ => [] end.
Definition input_recs (i : list req) : list rec := flat_map req_recs i.
(** records accepted and not yet handed to the exporter, dropped or lost, oldest first *)
Definition pend (s : st) : list rec := xpend (ex s) ++ input_recs (input s) ++ held s ++ ring s.
Definition is_open (x : exst) : bool := match x with XOpen _ _ _ => true | _ => false end.

Lemma input_recs_app a b : input_recs (a ++ b) = input_recs a ++ input_recs b.
Proof. unfold input_recs. apply flat_map_app. Qed.

(** ** upd *)
Lemma upd_same {A} (f : nat -> A) t v : upd f t v t = v.
Proof. unfold upd. now rewrite Nat.eqb_refl. Qed.
Lemma upd_other {A} (f : nat -> A) t v u : u <> t -> upd f t v u = f u.
Proof. unfold upd. intro H. destruct (Nat.eqb_spec u t); congruence. Qed.

(** case analysis on whether a thread is the one that moved *)
Ltac upd_cases u t :=
  destruct (Nat.eq_dec u t) as [->|?];
  [rewrite ?upd_same in * | rewrite ?upd_other in * by assumption].

(** ** the step relation, opened up: one goal per enabled transition, the successor
    state written out as setters applied to s *)
Ltac destr_in H :=
  match type of H with
  | context [match ?x with _ => _ end] =>
      match x with
      | context [match _ with _ => _ end] => fail 1
      | _ => destruct x eqn:?
      end
  end.
Ltac open_step H :=
  unfold step, step_thread, step_ctx, step_poll, handover in H;
  repeat (destr_in H; try discriminate);
  try discriminate;
  repeat match type of H with
  | Some _ = Some _ => inversion H; subst; clear H
  | (_, _) = (_, _) => inversion H; subst; clear H
  end.

(** reduce projections of setters *)
Ltac sst :=
  cbn [ring dropped lostE lostD enq held input closed ex hist stopped bstopped pollkill polldead
       trigger mu ans nreq nexts crec pcs
       set_ring set_dropped set_lostE set_lostD set_enq set_held set_input set_closed set_ex set_hist
       set_stopped set_bstopped set_pollkill set_polldead set_trigger set_mu set_ans set_nreq
       set_nexts set_crec set_pcs log goto retn] in *.

(** ** Layer A: control structure *)
Definition Sst (p : pc) : bool :=
  match p with S1 | S2 | S3 | S3h | S4 _ | S5 _ | S6 _ | S7 _ | S8 _ => true | _ => false end.
Definition Searly (p : pc) : bool :=
  match p with S1 | S2 | S3 | S3h | S4 _ | S5 _ => true | _ => false end.
Definition Fst (p : pc) : bool :=
  match p with F1 | F2 _ | F3 _ | F4 _ _ | F5 _ => true | _ => false end.
Definition Sheld (p : pc) : bool := match p with S3 | S3h => true | _ => false end.
Definition Sis2 (p : pc) : bool := match p with S2 => true | _ => false end.
Definition Slate (p : pc) : bool := match p with S6 _ | S7 _ | S8 _ => true | _ => false end.
Definition data_ok (q : req) : Prop := match q with Data rs _ => rs <> [] | Sync _ => True end.

Record InvA (s : st) : Prop := {
  a_open : open_export (hist s) = is_open (ex s);
  a_input : Forall data_ok (input s);
  a_next : match ex s with XNext rs _ => rs <> [] | _ => True end;
  a_held3 : forall t, Sheld (pcs s t) = true -> held s <> [];
  a_stopped : stopped s = (1 <=? shut_calls (hist s));
  a_sst : forall t, Sst (pcs s t) = true -> stopped s = true;
  a_uniq : forall t u, Sst (pcs s t) = true -> Sst (pcs s u) = true -> t = u;
  a_bstop : bstopped s = true -> stopped s = true;
  a_closed : closed s = true -> bstopped s = true;
  a_early : forall t, Searly (pcs s t) = true -> bstopped s = false;
  a_late : forall t, Slate (pcs s t) = true -> bstopped s = true;
  a_held : held s <> [] -> polldead s = true /\ stopped s = true;
  a_s2 : forall t, Sis2 (pcs s t) = true -> polldead s = true;
  a_kill : polldead s = true -> pollkill s = true;
  a_heldw : held s = [] \/ exists t, Sheld (pcs s t) = true
}.

Lemma invA_init : InvA init.
Proof.
  constructor; cbn; auto; try discriminate; try (intros; discriminate);
    try (intros H; congruence); try (left; reflexivity).
Qed.

(** enqueue and respond touch few fields *)
Lemma enq_lostE c r s : lostE (enqueue c r s) = lostE s.
Proof. unfold enqueue; cbv zeta; cbn [ring set_enq]; destruct (length (ring s) <? qcap c); reflexivity. Qed.
Lemma enq_lostD c r s : lostD (enqueue c r s) = lostD s.
Proof. unfold enqueue; cbv zeta; cbn [ring set_enq]; destruct (length (ring s) <? qcap c); reflexivity. Qed.
Lemma enq_held c r s : held (enqueue c r s) = held s.
Proof. unfold enqueue; cbv zeta; cbn [ring set_enq]; destruct (length (ring s) <? qcap c); reflexivity. Qed.
Lemma enq_input c r s : input (enqueue c r s) = input s.
Proof. unfold enqueue; cbv zeta; cbn [ring set_enq]; destruct (length (ring s) <? qcap c); reflexivity. Qed.
Lemma enq_closed c r s : closed (enqueue c r s) = closed s.
Proof. unfold enqueue; cbv zeta; cbn [ring set_enq]; destruct (length (ring s) <? qcap c); reflexivity. Qed.
Lemma enq_ex c r s : ex (enqueue c r s) = ex s.
Proof. unfold enqueue; cbv zeta; cbn [ring set_enq]; destruct (length (ring s) <? qcap c); reflexivity. Qed.
Lemma enq_hist c r s : hist (enqueue c r s) = hist s.
Proof. unfold enqueue; cbv zeta; cbn [ring set_enq]; destruct (length (ring s) <? qcap c); reflexivity. Qed.
Lemma enq_stopped c r s : stopped (enqueue c r s) = stopped s.
Proof. unfold enqueue; cbv zeta; cbn [ring set_enq]; destruct (length (ring s) <? qcap c); reflexivity. Qed.
Lemma enq_bstopped c r s : bstopped (enqueue c r s) = bstopped s.
Proof. unfold enqueue; cbv zeta; cbn [ring set_enq]; destruct (length (ring s) <? qcap c); reflexivity. Qed.
Lemma enq_pollkill c r s : pollkill (enqueue c r s) = pollkill s.
Proof. unfold enqueue; cbv zeta; cbn [ring set_enq]; destruct (length (ring s) <? qcap c); reflexivity. Qed.
Lemma enq_polldead c r s : polldead (enqueue c r s) = polldead s.
Proof. unfold enqueue; cbv zeta; cbn [ring set_enq]; destruct (length (ring s) <? qcap c); reflexivity. Qed.
Lemma enq_trigger c r s : trigger (enqueue c r s) = trigger s.
Proof. unfold enqueue; cbv zeta; cbn [ring set_enq]; destruct (length (ring s) <? qcap c); reflexivity. Qed.
Lemma enq_mu c r s : mu (enqueue c r s) = mu s.
Proof. unfold enqueue; cbv zeta; cbn [ring set_enq]; destruct (length (ring s) <? qcap c); reflexivity. Qed.
Lemma enq_ans c r s : ans (enqueue c r s) = ans s.
Proof. unfold enqueue; cbv zeta; cbn [ring set_enq]; destruct (length (ring s) <? qcap c); reflexivity. Qed.
Lemma enq_nreq c r s : nreq (enqueue c r s) = nreq s.
Proof. unfold enqueue; cbv zeta; cbn [ring set_enq]; destruct (length (ring s) <? qcap c); reflexivity. Qed.
Lemma enq_nexts c r s : nexts (enqueue c r s) = nexts s.
Proof. unfold enqueue; cbv zeta; cbn [ring set_enq]; destruct (length (ring s) <? qcap c); reflexivity. Qed.
Lemma enq_crec c r s : crec (enqueue c r s) = crec s.
Proof. unfold enqueue; cbv zeta; cbn [ring set_enq]; destruct (length (ring s) <? qcap c); reflexivity. Qed.
Lemma enq_pcs c r s : pcs (enqueue c r s) = pcs s.
Proof. unfold enqueue; cbv zeta; cbn [ring set_enq]; destruct (length (ring s) <? qcap c); reflexivity. Qed.
Lemma enq_enq c r s : enq (enqueue c r s) = enq s ++ [r].
Proof. unfold enqueue; cbv zeta; cbn [ring set_enq]; destruct (length (ring s) <? qcap c); reflexivity. Qed.
Lemma resp_ring a v s : ring (respond a v s) = ring s.
Proof. destruct a; reflexivity. Qed.
Lemma resp_dropped a v s : dropped (respond a v s) = dropped s.
Proof. destruct a; reflexivity. Qed.
Lemma resp_lostE a v s : lostE (respond a v s) = lostE s.
Proof. destruct a; reflexivity. Qed.
Lemma resp_lostD a v s : lostD (respond a v s) = lostD s.
Proof. destruct a; reflexivity. Qed.
Lemma resp_enq a v s : enq (respond a v s) = enq s.
Proof. destruct a; reflexivity. Qed.
Lemma resp_held a v s : held (respond a v s) = held s.
Proof. destruct a; reflexivity. Qed.
Lemma resp_input a v s : input (respond a v s) = input s.
Proof. destruct a; reflexivity. Qed.
Lemma resp_closed a v s : closed (respond a v s) = closed s.
Proof. destruct a; reflexivity. Qed.
Lemma resp_ex a v s : ex (respond a v s) = ex s.
Proof. destruct a; reflexivity. Qed.
Lemma resp_hist a v s : hist (respond a v s) = hist s.
Proof. destruct a; reflexivity. Qed.
Lemma resp_stopped a v s : stopped (respond a v s) = stopped s.
Proof. destruct a; reflexivity. Qed.
Lemma resp_bstopped a v s : bstopped (respond a v s) = bstopped s.
Proof. destruct a; reflexivity. Qed.
Lemma resp_pollkill a v s : pollkill (respond a v s) = pollkill s.
Proof. destruct a; reflexivity. Qed.
Lemma resp_polldead a v s : polldead (respond a v s) = polldead s.
Proof. destruct a; reflexivity. Qed.
Lemma resp_trigger a v s : trigger (respond a v s) = trigger s.
Proof. destruct a; reflexivity. Qed.
Lemma resp_mu a v s : mu (respond a v s) = mu s.
Proof. destruct a; reflexivity. Qed.
Lemma resp_nreq a v s : nreq (respond a v s) = nreq s.
Proof. destruct a; reflexivity. Qed.
Lemma resp_nexts a v s : nexts (respond a v s) = nexts s.
Proof. destruct a; reflexivity. Qed.
Lemma resp_crec a v s : crec (respond a v s) = crec s.
Proof. destruct a; reflexivity. Qed.
Lemma resp_pcs a v s : pcs (respond a v s) = pcs s.
Proof. destruct a; reflexivity. Qed.
#[export] Hint Rewrite enq_lostE enq_lostD enq_held enq_input enq_closed enq_ex enq_hist enq_stopped enq_bstopped enq_pollkill enq_polldead enq_trigger enq_mu enq_ans enq_nreq enq_nexts enq_crec enq_pcs enq_enq resp_ring resp_dropped resp_lostE resp_lostD resp_enq resp_held resp_input resp_closed resp_ex resp_hist resp_stopped resp_bstopped resp_pollkill resp_polldead resp_trigger resp_mu resp_nreq resp_nexts resp_crec resp_pcs : c06.
Ltac sst' := sst; autorewrite with c06 in *; sst.
(** the same on the goal only *)
Ltac sstg :=
  cbn [ring dropped lostE lostD enq held input closed ex hist stopped bstopped pollkill polldead
       trigger mu ans nreq nexts crec pcs
       set_ring set_dropped set_lostE set_lostD set_enq set_held set_input set_closed set_ex set_hist
       set_stopped set_bstopped set_pollkill set_polldead set_trigger set_mu set_ans set_nreq
       set_nexts set_crec set_pcs log goto retn].
Ltac sstg' := sstg; autorewrite with c06; sstg.

Lemma nilb_false {A} (l : list A) : nilb l = false -> l <> [].
Proof. destruct l; [discriminate | intros _ H; discriminate]. Qed.
Lemma nilb_true {A} (l : list A) : nilb l = true -> l = [].
Proof. destruct l; [reflexivity | discriminate]. Qed.

Ltac updall :=
  repeat match goal with
  | H : context [upd _ ?t _ ?u] |- _ => upd_cases u t
  | |- context [upd _ ?t _ ?u] => upd_cases u t
  end.
(** what the equation for the moving thread says about the pc classes *)
Ltac know_pc :=
  repeat match goal with
  | E : pcs ?s ?t = ?p |- _ =>
      lazymatch goal with | _ : Sst (pcs s t) = _ |- _ => fail | _ => idtac end;
      assert (Sst (pcs s t) = Sst p) by (rewrite E; reflexivity);
      assert (Searly (pcs s t) = Searly p) by (rewrite E; reflexivity);
      assert (Fst (pcs s t) = Fst p) by (rewrite E; reflexivity);
      assert (Sheld (pcs s t) = Sheld p) by (rewrite E; reflexivity);
      assert (Sis2 (pcs s t) = Sis2 p) by (rewrite E; reflexivity);
      assert (Slate (pcs s t) = Slate p) by (rewrite E; reflexivity)
  end; cbn [Sst Searly Fst Sheld Sis2 Slate] in *.
Ltac fin :=
  intros;
  rewrite ?shut_calls_snoc in *; cbn [is_shut_call] in *; rewrite ?Nat.add_0_r in *;
  updall; know_pc; cbn [Sst Searly Fst Sheld Sis2 Slate] in *;
  try discriminate; try congruence; eauto.

Lemma Sheld_Sst p : Sheld p = true -> Sst p = true. Proof. destruct p; auto. Qed.
Lemma Searly_Sst p : Searly p = true -> Sst p = true. Proof. destruct p; auto. Qed.
Lemma Sis2_Sst p : Sis2 p = true -> Sst p = true. Proof. destruct p; auto. Qed.
Lemma Slate_Sst p : Slate p = true -> Sst p = true. Proof. destruct p; auto. Qed.

Ltac stop_tac :=
  rewrite ?shut_calls_snoc; cbn [is_shut_call]; rewrite ?Nat.add_0_r;
  try match goal with H : stopped ?s = ?b |- context [stopped ?s] => rewrite H in * end;
  match goal with A : _ = (1 <=? shut_calls (hist ?s)) |- _ =>
    destruct (1 <=? shut_calls (hist s)) eqn:?E; try congruence;
    try (symmetry; apply Nat.leb_le; lia);
    try (symmetry; apply Nat.leb_le; apply Nat.leb_le in E; lia) end.
(* another thread u is in an S state although the mover t is (or nobody may be) *)
Ltac uniq_contra :=
  exfalso;
  match goal with
  | U : forall t u, Sst _ = true -> Sst _ = true -> t = u, H : _ (pcs ?s ?u) = true, E : pcs ?s ?t = _ |- _ =>
      assert (Sst (pcs s u) = true) by (first [exact H | apply Sheld_Sst, H | apply Searly_Sst, H | apply Sis2_Sst, H | apply Slate_Sst, H]);
      assert (t = u) by (apply U; [rewrite E; reflexivity | assumption]); congruence
  end.
Ltac sst_contra :=
  exfalso;
  match goal with
  | A : forall t, Sst _ = true -> stopped _ = true, H : _ (pcs ?s ?u) = true |- _ =>
      assert (stopped s = true) by (apply (A u); first [exact H | apply Sheld_Sst, H | apply Searly_Sst, H | apply Sis2_Sst, H | apply Slate_Sst, H]);
      congruence
  end.

Lemma invA_step c s a s' : valid c -> InvA s -> step c s a = Some s' -> InvA s'.
Proof.
  intros Hv HA H.
  destruct HA as [Aopen Ainput Anext Aheld3 Astopped Asst Auniq Abstop Aclosed Aearly Alate Aheld As2 Akill Aheldw].
  destruct a; open_step H; sst'.
  all: constructor; sstg'; try assumption.
  all: try (rewrite ?open_export_snoc; cbn [open_step is_open]; try assumption;
            try (rewrite Aopen; match goal with H : ex _ = _ |- _ => rewrite H end; reflexivity)).
  all: try solve [fin].
  all: try solve [fin; match goal with U : forall t u, Sst _ = true -> _ |- _ => apply U; congruence end].
  all: try solve [apply Forall_app; split; [assumption | constructor; [cbn; auto using nilb_false | constructor]]].
  all: try solve [stop_tac].
  all: try solve [fin; uniq_contra].
  all: try solve [fin; sst_contra].
  all: try solve [intro Hh; destruct (Aheld Hh); split; fin].
  all: try solve [fin; try sst_contra; match goal with |- bstopped ?s = false => assert (bstopped s <> true) by (intro Eb; apply Abstop in Eb; congruence); destruct (bstopped s); congruence end].
  all: try solve [fin; try (apply nilb_false; assumption); try uniq_contra; try sst_contra; try congruence].
  all: try solve [apply Forall_app; split; [assumption | constructor; [cbn; apply (Aheld3 t); rewrite Heqp; reflexivity | constructor]]].
  all: try solve [match goal with E : ex ?s = _ |- context [ex ?s] => rewrite E; auto end].
  all: try solve [match goal with E : input ?s = _ :: _, F : Forall data_ok (input ?s) |- _ => rewrite E in F; inversion F; subst; cbn in *; auto using nilb_false end].
  all: try solve [match goal with F : Forall data_ok (_ :: _) |- _ => inversion F; subst; cbn in *; auto using nilb_false end].
  all: try solve [left; reflexivity].
  all: try solve [destruct Aheldw as [Hn|[t0 Ht0]];
    [left; assumption
    | right; exists t0; upd_cases t0 t; [know_pc; cbn [Sheld] in *; try congruence; try reflexivity | assumption]]].
  all: try solve [left; apply nilb_true; assumption].
  all: try solve [right; exists t; rewrite upd_same; reflexivity].
Qed.
