(** C06 proofs: the invariant holds along every schedule; the clauses of the
    specification hold of every event the model appends to its history. *)
From Verif Require Import Lib.Base C06.Spec C06.Model C06.Lemmas C06.Inv C06.InvB C06.InvC C06.InvD C06.InvE C06.InvV C06.InvX C06.InvQ C06.InvO.
From Coq Require Import Permutation.
Local Open Scope nat_scope.

Record Inv (c : config) (s : st) : Prop :=
  { iA : InvA s; iB : InvB s; iC : InvC s; iD : InvD s; iE : InvE s; iV : InvV s; iX : InvX c s; iQ : InvQ c s; iO : InvO s }.

Lemma inv_init c : Inv c init.
Proof.
  constructor; [apply invA_init | apply invB_init | apply invC_init | apply invD_init
               | apply invE_init | apply invV_init | apply invX_init | apply invQ_init | apply invO_init].
Qed.

Lemma inv_step c s a s' : valid c -> Inv c s -> step c s a = Some s' -> Inv c s'.
Proof.
  intros Hv [HA HB HC HD HE HV HX HQ HO] H. constructor.
  - eapply invA_step; eauto.
  - eapply invB_step; eauto.
  - eapply invC_step; eauto.
  - eapply invD_step; eauto.
  - eapply invE_step; eauto.
  - eapply invV_step; eauto.
  - eapply invX_step; eauto.
  - eapply invQ_step; eauto.
  - eapply invO_step; eauto. eapply invC_step; eauto.
Qed.

Lemma inv_run c sch : valid c -> forall s s', Inv c s -> run_from c s sch = Some s' -> Inv c s'.
Proof.
  intro Hv. induction sch as [|a r IH]; cbn; intros s s' Hi H.
  - inversion H; now subst.
  - destruct (step c s a) eqn:E; [|discriminate]. eapply IH; [|exact H]. eapply inv_step; eauto.
Qed.

Theorem inv_reach c sch s : valid c -> exec c sch = Some s -> Inv c s.
Proof. intros Hv H. eapply inv_run; eauto using inv_init. Qed.

(** ** the exporter-side clauses at the moment Export is entered *)
Lemma begin_ok_holds c s rs resp :
  valid c -> Inv c s -> ex s = XNext rs resp ->
  begin_ok all_guards c (hist s) (firstn (maxb c) rs) = true.
Proof.
  intros [_ [Hm _]] [HA HB HC HD _ _ _ _ HO] He. unfold begin_ok.
  pose proof (a_next s HA) as Hn. rewrite He in Hn.
  assert (Hsub : forall x, In x (firstn (maxb c) rs) -> In x rs).
  { intros x Hx. rewrite <- (firstn_skipn (maxb c) rs). apply in_or_app; now left. }
  assert (Hcnt : forall x, cnt x (exported (hist s)) + cnt x rs <= 1).
  { intro x. pose proof (b_nodup s HB x). rewrite (b_cnt s HB x) in H. unfold total in H.
    rewrite He in H. cbn [xpend] in H. lia. }
  rewrite !andb_true_iff. repeat split.
  - apply Nat.leb_le. destruct rs; [congruence|]. destruct (maxb c); [lia|]. cbn. lia.
  - apply Nat.leb_le. apply firstn_le_length.
  - rewrite (a_open s HA), He. reflexivity.
  - apply forallb_forall. intros x Hx. apply memb_In. apply (b_prov s HB).
    apply seqn_in_enq; [assumption|]. rewrite He. cbn [xpend].
    apply in_or_app; right. apply in_or_app; left. auto.
  - apply fresh_in_spec. split.
    + intros x Hx. apply cnt_notin. specialize (Hcnt x). apply Hsub, cnt_In in Hx. lia.
    + apply NoDup_cnt. intro x. specialize (Hcnt x).
      pose proof (cnt_split x (maxb c) rs). lia.
  - destruct (ordered_after (exported (hist s)) (firstn (maxb c) rs)) eqn:Eo; [reflexivity|].
    cbn [all_guards g_overlap andb].
    destruct (overlap (hist s)) eqn:Ev; [cbn [andb]; eapply all_before_holds; eauto|].
    pose proof (c_ord s HC Ev) as Ho. unfold seqn, pend in Ho. rewrite He in Ho. cbn [xpend] in Ho.
    rewrite <- (firstn_skipn (maxb c) rs) in Ho. rewrite <- !app_assoc in Ho.
    rewrite ordered_app in Ho. apply andb_true_iff in Ho as [Ho H3]. apply andb_true_iff in Ho as [H1 H2].
    rewrite ordered_app in H3. apply andb_true_iff in H3 as [H3 _]. apply andb_true_iff in H3 as [H3 _].
    rewrite cross_app_r in H2. apply andb_true_iff in H2 as [H2 _].
    rewrite ordered_after_eq, H2, H3 in Eo. discriminate.
  - apply negb_true_iff. destruct (shut_returned all_guards (hist s)) eqn:Eq; [|reflexivity].
    pose proof (d_quiet s HD Eq). congruence.
Qed.

(** ** the exporter-side part of the specification along every schedule *)
Definition safe_ev (c : config) (pre : history) (e : event) : bool :=
  match e with
  | EvBegin b => begin_ok all_guards c pre b
  | EvEnd _ => open_export pre
  | _ => true
  end.

Lemma safe_step c s a s' :
  valid c -> Inv c s -> step c s a = Some s' ->
  all_pos (safe_ev c) (hist s) = true -> all_pos (safe_ev c) (hist s') = true.
Proof.
  intros Hv Hi H Hs. pose proof (a_open s (iA c s Hi)) as Hopen.
  destruct a; open_step H; sst'; rewrite ?all_pos_snoc, ?Hs; cbn [safe_ev andb]; auto.
  (* Export entered *)
  eapply begin_ok_holds; eauto.
Qed.

Lemma safe_run c sch : valid c -> forall s s', Inv c s -> all_pos (safe_ev c) (hist s) = true ->
  run_from c s sch = Some s' -> all_pos (safe_ev c) (hist s') = true.
Proof.
  intro Hv. induction sch as [|a r IH]; cbn; intros s s' Hi Hs H.
  - inversion H; now subst.
  - destruct (step c s a) eqn:E; [|discriminate].
    eapply IH; [eapply inv_step; eauto | eapply safe_step; eauto | exact H].
Qed.

Theorem safe_reach c sch s : valid c -> exec c sch = Some s -> all_pos (safe_ev c) (hist s) = true.
Proof. intros Hv H. eapply safe_run; eauto using inv_init. Qed.

(** reading a position-wise verdict at one position *)
Lemma all_from_at f pre h1 e h2 :
  all_from f pre (h1 ++ e :: h2) = true -> f (pre ++ h1) e = true.
Proof.
  revert pre; induction h1 as [|x h1 IH]; intros pre H; cbn in H; apply andb_true_iff in H as [H1 H2].
  - now rewrite app_nil_r.
  - specialize (IH _ H2). now rewrite <- app_assoc in IH.
Qed.
Lemma all_pos_at f h1 e h2 : all_pos f (h1 ++ e :: h2) = true -> f h1 e = true.
Proof. intro H. now apply all_from_at in H. Qed.

(** ** Prop readings *)
Section Readings.
  Variables (c : config) (sch : list action) (s : st).
  Hypothesis Hv : valid c.
  Hypothesis Hr : exec c sch = Some s.

  Lemma begin_at h1 b h2 :
    hist s = h1 ++ EvBegin b :: h2 -> begin_ok all_guards c h1 b = true.
  Proof.
    intro Hh. pose proof (safe_reach c sch s Hv Hr) as Hs. rewrite Hh in Hs.
    exact (all_pos_at _ _ _ _ Hs).
  Qed.

  Lemma p_batch_bound h1 b h2 :
    hist s = h1 ++ EvBegin b :: h2 -> 1 <= length b /\ length b <= maxb c.
  Proof.
    intro Hh. pose proof (begin_at _ _ _ Hh) as Hb. unfold begin_ok in Hb.
    rewrite !andb_true_iff in Hb. destruct Hb as [[[[[[H1 H2] _] _] _] _] _].
    split; now apply Nat.leb_le.
  Qed.

  Lemma p_exclusive_begin h1 b h2 :
    hist s = h1 ++ EvBegin b :: h2 -> open_export h1 = false.
  Proof.
    intro Hh. pose proof (begin_at _ _ _ Hh) as Hb. unfold begin_ok in Hb.
    rewrite !andb_true_iff in Hb. destruct Hb as [[[[[[_ _] H3] _] _] _] _].
    now apply negb_true_iff in H3.
  Qed.
  Lemma p_exclusive_end h1 ok h2 :
    hist s = h1 ++ EvEnd ok :: h2 -> open_export h1 = true.
  Proof.
    intro Hh. pose proof (safe_reach c sch s Hv Hr) as Hs. rewrite Hh in Hs.
    exact (all_pos_at _ _ _ _ Hs).
  Qed.

  Lemma p_quiet h1 b h2 :
    hist s = h1 ++ EvBegin b :: h2 -> shut_returned all_guards h1 = false.
  Proof.
    intro Hh. pose proof (begin_at _ _ _ Hh) as Hb. unfold begin_ok in Hb.
    rewrite !andb_true_iff in Hb. destruct Hb as [_ H7]. now apply negb_true_iff in H7.
  Qed.

  Lemma p_conservation :
    Permutation (enq s) (exported (hist s) ++ dropped s ++ lostE s ++ lostD s ++ pend s) /\
    NoDup (enq s) /\ incl (enq s) (emitted (hist s)).
  Proof.
    destruct (inv_reach c sch s Hv Hr) as [_ HB _ _ _ _ _ _ _]. repeat split.
    - apply (Permutation_count_occ rec_eq_dec). intro x.
      pose proof (b_cnt s HB x) as H. unfold total, cnt in *. unfold pend.
      rewrite !count_occ_app. lia.
    - apply NoDup_cnt. apply (b_nodup s HB).
    - intros x Hx. now apply (b_prov s HB).
  Qed.

  Lemma p_at_most_once : NoDup (exported (hist s)).
  Proof.
    destruct (inv_reach c sch s Hv Hr) as [_ HB _ _ _ _ _ _ _]. apply NoDup_cnt. intro x.
    pose proof (b_nodup s HB x) as H. rewrite (b_cnt s HB x) in H. unfold total in H. lia.
  Qed.

  Lemma p_clone_isolation x : In x (exported (hist s)) -> In x (emitted (hist s)).
  Proof.
    intro Hx. destruct (inv_reach c sch s Hv Hr) as [_ HB _ _ _ _ _ _ _].
    apply (b_prov s HB). apply seqn_in_enq; [assumption|]. apply in_or_app; now left.
  Qed.

  Lemma p_order : overlap (hist s) = false -> ordered (exported (hist s)) = true.
  Proof.
    intro Ho. destruct (inv_reach c sch s Hv Hr) as [_ _ HC _ _ _ _ _ _].
    pose proof (c_ord s HC Ho) as H. unfold seqn in H. rewrite ordered_app in H.
    apply andb_true_iff in H as [H _]. now apply andb_true_iff in H as [H _].
  Qed.
End Readings.

(** ** visibility at the moment ForceFlush / Shutdown return nil *)
Lemma in_base c s t r :
  Inv c s -> place s (pcs s t) = Some (base s) -> guard s t -> In r (P s t) ->
  In r (exported (hist s)) \/ excused c (hist s) r = true \/ In r (lostE s).
Proof.
  intros Hi Hp G Hr.
  pose proof (v_place s (iV c s Hi) t _ Hp G r Hr) as Hb. unfold base in Hb.
  apply in_app_or in Hb as [Hb|Hb]; [now left|]. apply in_app_or in Hb as [Hb|Hb]; [|now right; right].
  right; left. now apply (iX c s Hi).
Qed.

Lemma visible_holds c s t :
  Inv c s -> place s (pcs s t) = Some (base s) -> guard s t -> has_fail (hist s) = false ->
  visible c (hist s) t = true.
Proof.
  intros Hi Hp G Hf. unfold visible. apply forallb_forall. intros r Hr.
  destruct (in_base c s t r Hi Hp G Hr) as [H|[H|H]].
  - apply memb_In in H. now rewrite H.
  - rewrite H. now destruct (memb r (exported (hist s))).
  - rewrite (v_lostE s (iV c s Hi) Hf) in H. contradiction.
Qed.

(** after failed exports: at most (#failures) * (qcap - maxb) records are unaccounted for *)
Lemma dedup_In x l : In x (dedup l) <-> In x l.
Proof.
  induction l as [|y l IH]; cbn; [tauto|]. destruct (memb y l) eqn:E; cbn; rewrite IH.
  - apply memb_In in E. split; [auto|]. intros [<-|H]; auto.
  - tauto.
Qed.
Lemma dedup_NoDup l : NoDup (dedup l).
Proof.
  induction l as [|y l IH]; cbn; [constructor|]. destruct (memb y l) eqn:E; [assumption|].
  constructor; [|assumption]. rewrite dedup_In. now apply memb_false.
Qed.

Lemma upto_holds c s t :
  Inv c s -> place s (pcs s t) = Some (base s) -> guard s t -> visible_upto c (hist s) t = true.
Proof.
  intros Hi Hp G. unfold visible_upto. apply Nat.leb_le.
  eapply Nat.le_trans; [|apply (q_lost c s (iQ c s Hi))].
  apply NoDup_incl_length.
  - unfold missing. apply NoDup_filter, dedup_NoDup.
  - intros r Hr. unfold missing in Hr. apply filter_In in Hr as [Hr Hc].
    apply (proj1 (dedup_In _ _)) in Hr. apply andb_true_iff in Hc as [H1 H2].
    apply negb_true_iff in H1, H2.
    destruct (in_base c s t r Hi Hp G Hr) as [H|[H|H]]; [apply memb_In in H; congruence | congruence | exact H].
Qed.

Lemma filter_none {A} (f : A -> bool) l : (forall x, In x l -> f x = false) -> filter f l = [].
Proof.
  induction l as [|x l IH]; cbn; intro H; [reflexivity|].
  rewrite (H x (or_introl eq_refl)). apply IH. intros y Hy. apply H. now right.
Qed.
Lemma filter_length_le {A} (f g : A -> bool) l :
  (forall x, f x = true -> g x = true) -> length (filter f l) <= length (filter g l).
Proof.
  intro H. induction l as [|x l IH]; cbn; [lia|].
  destruct (f x) eqn:Ef; [rewrite (H x Ef); cbn; lia | destruct (g x); cbn; lia].
Qed.
Lemma upto_ext c h t e :
  is_call_of t e = false -> ev_exported e = [] -> is_fail e = false ->
  visible_upto c h t = true -> visible_upto c (h ++ [e]) t = true.
Proof.
  unfold visible_upto, missing, fails. intros Hc He Hf Hv. apply Nat.leb_le in Hv. apply Nat.leb_le.
  rewrite before_call_snoc, Hc, exported_snoc, He, app_nil_r, filter_app. cbn [filter]. rewrite Hf, app_nil_r.
  eapply Nat.le_trans; [|exact Hv]. apply filter_length_le. intros x Hx.
  apply andb_true_iff in Hx as [H1 H2]. rewrite H1. cbn. apply negb_true_iff in H2. apply negb_true_iff.
  destruct (excused c h x) eqn:E; [|reflexivity]. now rewrite (excused_mono c h e x E) in H2.
Qed.

Lemma visible_ext c h t e :
  is_call_of t e = false -> visible c h t = true -> visible c (h ++ [e]) t = true.
Proof.
  unfold visible. intros Hc Hv. rewrite before_call_snoc, Hc.
  apply forallb_forall. intros r Hr. rewrite forallb_forall in Hv. specialize (Hv r Hr).
  destruct (memb r (exported h)) eqn:Em.
  - apply memb_In in Em. assert (In r (exported (h ++ [e]))) by (rewrite exported_snoc; apply in_or_app; now left).
    apply memb_In in H. now rewrite H.
  - destruct (memb r (exported (h ++ [e]))); [reflexivity|]. now apply excused_mono.
Qed.

Lemma flush_ok_holds c s t :
  Inv c s -> pcs s t = F5 RNil -> flush_ok all_guards c (hist s) t = true.
Proof.
  intros Hi Hp. unfold flush_ok. cbn [all_guards g_shut g_fail andb].
  destruct (1 <=? shut_calls (hist s)) eqn:Es; [reflexivity|].
  assert (G : guard s t).
  { split; [intros _; rewrite (a_stopped s (iA c s Hi)); exact Es | rewrite Hp; discriminate]. }
  assert (Hpl : place s (pcs s t) = Some (base s)) by (rewrite Hp; reflexivity).
  destruct (has_fail (hist s)) eqn:Ef; [now apply upto_holds | now apply visible_holds].
Qed.

Lemma shut_ok_holds c s t :
  Inv c s -> pcs s t = S8 RNil -> shut_ok all_guards c (hist s ++ [EvExpShutdown]) t = true.
Proof.
  intros Hi Hp. unfold shut_ok. cbn [all_guards g_shut g_fail andb].
  rewrite shut_calls_snoc, has_fail_snoc. cbn [is_shut_call is_fail]. rewrite Nat.add_0_r, orb_false_r.
  destruct (2 <=? shut_calls (hist s)) eqn:Es; [reflexivity|].
  assert (G : guard s t).
  { split; [rewrite Hp; discriminate | intros _; apply Nat.leb_gt in Es; lia]. }
  assert (Hpl : place s (pcs s t) = Some (base s)) by (rewrite Hp; reflexivity).
  destruct (has_fail (hist s)) eqn:Ef.
  - apply upto_ext; try reflexivity. now apply upto_holds.
  - apply visible_ext; [reflexivity|]. now apply visible_holds.
Qed.

(** ** the whole (guarded) specification along every schedule *)
Lemma spec_step c s a s' :
  valid c -> Inv c s -> step c s a = Some s' ->
  spec_ok c (hist s) = true -> spec_ok c (hist s') = true.
Proof.
  intros Hv Hi H Hs. unfold spec_ok, spec_gen in *.
  pose proof (a_open s (iA c s Hi)) as Hopen.
  pose proof (a_stopped s (iA c s Hi)) as Hst.
  pose proof (a_bstop s (iA c s Hi)) as Hbs.
  pose proof (a_early s (iA c s Hi)) as Hea.
  destruct a; open_step H; sst'; rewrite ?all_pos_snoc, ?Hs; cbn [ev_ok andb]; auto.
  - (* ForceFlush after Shutdown: guarded *)
    unfold flush_ok. cbn [all_guards g_shut andb]. rewrite shut_calls_snoc. cbn [is_shut_call].
    rewrite Heqb in Hst. symmetry in Hst. apply Nat.leb_le in Hst.
    replace (1 <=? shut_calls (hist s) + 0) with true by (symmetry; apply Nat.leb_le; lia). reflexivity.
  - (* second Shutdown: guarded *)
    unfold shut_ok. cbn [all_guards g_shut andb]. rewrite shut_calls_snoc. cbn [is_shut_call].
    rewrite Heqb in Hst. symmetry in Hst. apply Nat.leb_le in Hst.
    replace (2 <=? shut_calls (hist s) + 1) with true by (symmetry; apply Nat.leb_le; lia). reflexivity.
  - (* ForceFlush finds the buffer exporter stopped: guarded *)
    destruct e; auto. unfold flush_ok. cbn [all_guards g_shut andb].
    rewrite (Hbs eq_refl) in Hst. now rewrite <- Hst.
  - (* ForceFlush returns *)
    destruct e; auto. now apply flush_ok_holds.
  - (* unreachable: the buffer exporter is stopped only by this very call *)
    exfalso. specialize (Hea t). rewrite Heqp in Hea. specialize (Hea eq_refl). discriminate.
  - (* Shutdown returns *)
    destruct e; auto. now apply shut_ok_holds.
  - (* Export entered *)
    eapply begin_ok_holds; eauto.
Qed.

Lemma spec_run c sch : valid c -> forall s s', Inv c s -> spec_ok c (hist s) = true ->
  run_from c s sch = Some s' -> spec_ok c (hist s') = true.
Proof.
  intro Hv. induction sch as [|a r IH]; cbn; intros s s' Hi Hs H.
  - inversion H; now subst.
  - destruct (step c s a) eqn:E; [|discriminate].
    eapply IH; [eapply inv_step; eauto | eapply spec_step; eauto | exact H].
Qed.

Theorem spec_reach c sch s : valid c -> exec c sch = Some s -> spec_ok c (hist s) = true.
Proof. intros Hv H. eapply spec_run; eauto using inv_init. Qed.


Section Readings2.
  Variables (c : config) (sch : list action) (s : st).
  Hypothesis Hv : valid c.
  Hypothesis Hr : exec c sch = Some s.

  Lemma visible_reading h t r :
    visible c h t = true -> In r (emit_rets (before_call t h)) ->
    In r (exported h) \/ excused c h r = true.
  Proof.
    unfold visible. rewrite forallb_forall. intros H Hi. specialize (H r Hi).
    destruct (memb r (exported h)) eqn:E; [left; now apply memb_In | now right].
  Qed.

  Lemma p_flush_visibility h1 t h2 :
    hist s = h1 ++ EvRet t OpFlush RNil :: h2 ->
    shut_calls h1 = 0 -> has_fail h1 = false ->
    forall r, In r (emit_rets (before_call t h1)) -> In r (exported h1) \/ excused c h1 r = true.
  Proof.
    intros Hh Hs Hf r Hi. pose proof (spec_reach c sch s Hv Hr) as Hsp.
    unfold spec_ok, spec_gen in Hsp. rewrite Hh in Hsp.
    apply (all_pos_at _ h1 (EvRet t OpFlush RNil) h2) in Hsp.
    cbn [ev_ok] in Hsp. unfold flush_ok in Hsp. rewrite Hs, Hf in Hsp. cbn in Hsp.
    now apply (visible_reading h1 t r).
  Qed.

  Lemma p_flush_bounded_loss h1 t h2 :
    hist s = h1 ++ EvRet t OpFlush RNil :: h2 -> shut_calls h1 = 0 ->
    length (missing c h1 t) <= fails h1 * (qcap c - maxb c).
  Proof.
    intros Hh Hs. pose proof (spec_reach c sch s Hv Hr) as Hsp.
    unfold spec_ok, spec_gen in Hsp. rewrite Hh in Hsp.
    apply (all_pos_at _ h1 (EvRet t OpFlush RNil) h2) in Hsp.
    cbn [ev_ok] in Hsp. unfold flush_ok in Hsp. rewrite Hs in Hsp. cbn in Hsp.
    destruct (has_fail h1) eqn:Ef; [now apply Nat.leb_le in Hsp|].
    (* no failure: nothing is missing at all *)
    assert (missing c h1 t = []) as ->; [|apply Nat.le_0_l].
    unfold missing. apply filter_none. intros r Hx.
    apply (proj1 (dedup_In _ _)) in Hx. unfold visible in Hsp. rewrite forallb_forall in Hsp. specialize (Hsp r Hx).
    destruct (memb r (exported h1)); [reflexivity|]. now rewrite Hsp.
  Qed.

  Lemma p_shutdown_drains h1 t h2 :
    hist s = h1 ++ EvRet t OpShutdown RNil :: h2 ->
    shut_calls h1 <= 1 -> has_fail h1 = false ->
    forall r, In r (emit_rets (before_call t h1)) -> In r (exported h1) \/ excused c h1 r = true.
  Proof.
    intros Hh Hs Hf r Hi. pose proof (spec_reach c sch s Hv Hr) as Hsp.
    unfold spec_ok, spec_gen in Hsp. rewrite Hh in Hsp.
    apply (all_pos_at _ h1 (EvRet t OpShutdown RNil) h2) in Hsp.
    cbn [ev_ok] in Hsp. unfold shut_ok in Hsp. rewrite Hf in Hsp.
    replace (2 <=? shut_calls h1) with false in Hsp by (symmetry; apply Nat.leb_gt; lia).
    cbn in Hsp. now apply (visible_reading h1 t r).
  Qed.
End Readings2.

(** ** no send on the closed input channel (in Go: a panic) *)
Lemma push_not_closed c s a s' :
  InvA s -> InvE s -> step c s a = Some s' ->
  length (input s) < length (input s') -> closed s = false.
Proof.
  intros HA HE H Hl. pose proof (a_closed s HA) as Hc. pose proof (e_hold s HE) as Hh.
  destruct (closed s) eqn:Ecl; [|reflexivity]. exfalso. specialize (Hc eq_refl).
  destruct a; open_step H; sst'; rewrite ?app_length in Hl; cbn [length] in Hl; try lia; try congruence.
  all: try solve [destruct (Hh t) as [_ Hf]; [rewrite Heqp; reflexivity | congruence]].
  all: try solve [rewrite ?Heql in Hl; cbn [length] in Hl; lia].
Qed.

Lemma p_no_send_on_closed c sch s a s' :
  valid c -> exec c sch = Some s -> step c s a = Some s' ->
  length (input s) < length (input s') -> closed s = false.
Proof.
  intros Hv Hr. destruct (inv_reach c sch s Hv Hr) as [HA _ _ _ HE _ _ _ _]. now apply push_not_closed.
Qed.

Lemma p_bounded c sch s :
  valid c -> exec c sch = Some s ->
  length (ring s) <= qcap c /\ length (input s) <= bufsz c /\
  Forall (fun q => length (req_recs q) <= qcap c) (input s) /\
  length (lostE s) <= fails (hist s) * (qcap c - maxb c).
Proof.
  intros Hv Hr. destruct (iQ c s (inv_reach c sch s Hv Hr)) as [H1 H2 H3 _ _ H6]. auto.
Qed.

(** ** order relative to what was exported before the first Shutdown call (no guard) *)
Definition ord0_ev (pre : history) (e : event) : bool :=
  match e with EvBegin b => all_before (exported (before_shut pre)) b | _ => true end.

Lemma ord0_step c s a s' :
  Inv c s -> step c s a = Some s' ->
  all_pos ord0_ev (hist s) = true -> all_pos ord0_ev (hist s') = true.
Proof.
  intros Hi H Hs.
  destruct a; open_step H; sst'; rewrite ?all_pos_snoc, ?Hs; cbn [ord0_ev andb]; auto.
  eapply all_before_holds; eauto using iB, iO.
Qed.

Lemma ord0_run c sch : valid c -> forall s s', Inv c s -> all_pos ord0_ev (hist s) = true ->
  run_from c s sch = Some s' -> all_pos ord0_ev (hist s') = true.
Proof.
  intro Hv. induction sch as [|a r IH]; cbn; intros s s' Hi Hs H.
  - inversion H; now subst.
  - destruct (step c s a) eqn:E; [|discriminate].
    eapply IH; [eapply inv_step; eauto | eapply ord0_step; eauto | exact H].
Qed.

Lemma p_order_before_shutdown c sch s :
  valid c -> exec c sch = Some s ->
  forall h1 b h2, hist s = h1 ++ EvBegin b :: h2 ->
  forall a x, In a (exported (before_shut h1)) -> In x b -> before_ok a x = true.
Proof.
  intros Hv Hr h1 b h2 Hh a x Ha Hx.
  assert (Hs : all_pos ord0_ev (hist s) = true) by (eapply ord0_run; eauto using inv_init).
  rewrite Hh in Hs. apply (all_pos_at _ h1 (EvBegin b) h2) in Hs. cbn in Hs.
  unfold all_before in Hs. rewrite forallb_forall in Hs. specialize (Hs a Ha).
  rewrite forallb_forall in Hs. now apply Hs.
Qed.
