(** C06 proofs. *)
From Verif Require Import Lib.Base C06.Spec C06.Model.
Local Open Scope nat_scope.
