(** C06 proofs: the invariant holds along every schedule; the clauses of the
    specification hold of every event the model appends to its history. *)
From Verif Require Import Lib.Base C06.Spec C06.Model C06.Lemmas C06.Inv C06.InvB C06.InvC C06.InvD C06.InvE C06.InvV C06.InvX.
From Coq Require Import Permutation.
Local Open Scope nat_scope.

Record Inv (c : config) (s : st) : Prop :=
  { iA : InvA s; iB : InvB s; iC : InvC s; iD : InvD s; iE : InvE s; iV : InvV s; iX : InvX c s }.

Lemma inv_init c : Inv c init.
Proof.
  constructor; [apply invA_init | apply invB_init | apply invC_init | apply invD_init
               | apply invE_init | apply invV_init | apply invX_init].
Qed.

Lemma inv_step c s a s' : valid c -> Inv c s -> step c s a = Some s' -> Inv c s'.
Proof.
  intros Hv [HA HB HC HD HE HV HX] H. constructor.
  - eapply invA_step; eauto.
  - eapply invB_step; eauto.
  - eapply invC_step; eauto.
  - eapply invD_step; eauto.
  - eapply invE_step; eauto.
  - eapply invV_step; eauto.
  - eapply invX_step; eauto.
Qed.

Lemma inv_run c sch : valid c -> forall s s', Inv c s -> run_from c s sch = Some s' -> Inv c s'.
Proof.
  intro Hv. induction sch as [|a r IH]; cbn; intros s s' Hi H.
  - inversion H; now subst.
  - destruct (step c s a) eqn:E; [|discriminate]. eapply IH; [|exact H]. eapply inv_step; eauto.
Qed.

Theorem inv_reach c sch s : valid c -> exec c sch = Some s -> Inv c s.
Proof. intros Hv H. eapply inv_run; eauto using inv_init. Qed.

(** ** the exporter-side clauses at the moment Export is entered *)
Lemma begin_ok_holds c s rs resp :
  valid c -> Inv c s -> ex s = XNext rs resp ->
  begin_ok all_guards c (hist s) (firstn (maxb c) rs) = true.
Proof.
  intros [_ [Hm _]] [HA HB HC HD _ _ _] He. unfold begin_ok.
  pose proof (a_next s HA) as Hn. rewrite He in Hn.
  assert (Hsub : forall x, In x (firstn (maxb c) rs) -> In x rs).
  { intros x Hx. rewrite <- (firstn_skipn (maxb c) rs). apply in_or_app; now left. }
  assert (Hcnt : forall x, cnt x (exported (hist s)) + cnt x rs <= 1).
  { intro x. pose proof (b_nodup s HB x). rewrite (b_cnt s HB x) in H. unfold total in H.
    rewrite He in H. cbn [xpend] in H. lia. }
  rewrite !andb_true_iff. repeat split.
  - apply Nat.leb_le. destruct rs; [congruence|]. destruct (maxb c); [lia|]. cbn. lia.
  - apply Nat.leb_le. apply firstn_le_length.
  - rewrite (a_open s HA), He. reflexivity.
  - apply forallb_forall. intros x Hx. apply memb_In. apply (b_prov s HB).
    apply seqn_in_enq; [assumption|]. rewrite He. cbn [xpend].
    apply in_or_app; right. apply in_or_app; left. auto.
  - apply fresh_in_spec. split.
    + intros x Hx. apply cnt_notin. specialize (Hcnt x). apply Hsub, cnt_In in Hx. lia.
    + apply NoDup_cnt. intro x. specialize (Hcnt x).
      pose proof (cnt_split x (maxb c) rs). lia.
  - destruct (ordered_after (exported (hist s)) (firstn (maxb c) rs)) eqn:Eo; [reflexivity|].
    cbn [all_guards g_overlap andb].
    destruct (overlap (hist s)) eqn:Ev; [reflexivity|].
    pose proof (c_ord s HC Ev) as Ho. unfold seqn, pend in Ho. rewrite He in Ho. cbn [xpend] in Ho.
    rewrite <- (firstn_skipn (maxb c) rs) in Ho. rewrite <- !app_assoc in Ho.
    rewrite ordered_app in Ho. apply andb_true_iff in Ho as [Ho H3]. apply andb_true_iff in Ho as [H1 H2].
    rewrite ordered_app in H3. apply andb_true_iff in H3 as [H3 _]. apply andb_true_iff in H3 as [H3 _].
    rewrite cross_app_r in H2. apply andb_true_iff in H2 as [H2 _].
    rewrite ordered_after_eq, H2, H3 in Eo. discriminate.
  - apply negb_true_iff. destruct (shut_returned all_guards (hist s)) eqn:Eq; [|reflexivity].
    pose proof (d_quiet s HD Eq). congruence.
Qed.

(** ** the exporter-side part of the specification along every schedule *)
Definition safe_ev (c : config) (pre : history) (e : event) : bool :=
  match e with
  | EvBegin b => begin_ok all_guards c pre b
  | EvEnd _ => open_export pre
  | _ => true
  end.

Lemma safe_step c s a s' :
  valid c -> Inv c s -> step c s a = Some s' ->
  all_pos (safe_ev c) (hist s) = true -> all_pos (safe_ev c) (hist s') = true.
Proof.
  intros Hv Hi H Hs. pose proof (a_open s (iA c s Hi)) as Hopen.
  destruct a; open_step H; sst'; rewrite ?all_pos_snoc, ?Hs; cbn [safe_ev andb]; auto.
  (* Export entered *)
  eapply begin_ok_holds; eauto.
Qed.

Lemma safe_run c sch : valid c -> forall s s', Inv c s -> all_pos (safe_ev c) (hist s) = true ->
  run_from c s sch = Some s' -> all_pos (safe_ev c) (hist s') = true.
Proof.
  intro Hv. induction sch as [|a r IH]; cbn; intros s s' Hi Hs H.
  - inversion H; now subst.
  - destruct (step c s a) eqn:E; [|discriminate].
    eapply IH; [eapply inv_step; eauto | eapply safe_step; eauto | exact H].
Qed.

Theorem safe_reach c sch s : valid c -> exec c sch = Some s -> all_pos (safe_ev c) (hist s) = true.
Proof. intros Hv H. eapply safe_run; eauto using inv_init. Qed.

(** reading a position-wise verdict at one position *)
Lemma all_from_at f pre h1 e h2 :
  all_from f pre (h1 ++ e :: h2) = true -> f (pre ++ h1) e = true.
Proof.
  revert pre; induction h1 as [|x h1 IH]; intros pre H; cbn in H; apply andb_true_iff in H as [H1 H2].
  - now rewrite app_nil_r.
  - specialize (IH _ H2). now rewrite <- app_assoc in IH.
Qed.
Lemma all_pos_at f h1 e h2 : all_pos f (h1 ++ e :: h2) = true -> f h1 e = true.
Proof. intro H. now apply all_from_at in H. Qed.

(** ** Prop readings *)
Section Readings.
  Variables (c : config) (sch : list action) (s : st).
  Hypothesis Hv : valid c.
  Hypothesis Hr : exec c sch = Some s.

  Lemma begin_at h1 b h2 :
    hist s = h1 ++ EvBegin b :: h2 -> begin_ok all_guards c h1 b = true.
  Proof.
    intro Hh. pose proof (safe_reach c sch s Hv Hr) as Hs. rewrite Hh in Hs.
    exact (all_pos_at _ _ _ _ Hs).
  Qed.

  Lemma p_batch_bound h1 b h2 :
    hist s = h1 ++ EvBegin b :: h2 -> 1 <= length b /\ length b <= maxb c.
  Proof.
    intro Hh. pose proof (begin_at _ _ _ Hh) as Hb. unfold begin_ok in Hb.
    rewrite !andb_true_iff in Hb. destruct Hb as [[[[[[H1 H2] _] _] _] _] _].
    split; now apply Nat.leb_le.
  Qed.

  Lemma p_exclusive_begin h1 b h2 :
    hist s = h1 ++ EvBegin b :: h2 -> open_export h1 = false.
  Proof.
    intro Hh. pose proof (begin_at _ _ _ Hh) as Hb. unfold begin_ok in Hb.
    rewrite !andb_true_iff in Hb. destruct Hb as [[[[[[_ _] H3] _] _] _] _].
    now apply negb_true_iff in H3.
  Qed.
  Lemma p_exclusive_end h1 ok h2 :
    hist s = h1 ++ EvEnd ok :: h2 -> open_export h1 = true.
  Proof.
    intro Hh. pose proof (safe_reach c sch s Hv Hr) as Hs. rewrite Hh in Hs.
    exact (all_pos_at _ _ _ _ Hs).
  Qed.

  Lemma p_quiet h1 b h2 :
    hist s = h1 ++ EvBegin b :: h2 -> shut_returned all_guards h1 = false.
  Proof.
    intro Hh. pose proof (begin_at _ _ _ Hh) as Hb. unfold begin_ok in Hb.
    rewrite !andb_true_iff in Hb. destruct Hb as [_ H7]. now apply negb_true_iff in H7.
  Qed.

  Lemma p_conservation :
    Permutation (enq s) (exported (hist s) ++ dropped s ++ lostE s ++ lostD s ++ pend s) /\
    NoDup (enq s) /\ incl (enq s) (emitted (hist s)).
  Proof.
    destruct (inv_reach c sch s Hv Hr) as [_ HB _ _ _ _ _]. repeat split.
    - apply (Permutation_count_occ rec_eq_dec). intro x.
      pose proof (b_cnt s HB x) as H. unfold total, cnt in *. unfold pend.
      rewrite !count_occ_app. lia.
    - apply NoDup_cnt. apply (b_nodup s HB).
    - intros x Hx. now apply (b_prov s HB).
  Qed.

  Lemma p_at_most_once : NoDup (exported (hist s)).
  Proof.
    destruct (inv_reach c sch s Hv Hr) as [_ HB _ _ _ _ _]. apply NoDup_cnt. intro x.
    pose proof (b_nodup s HB x) as H. rewrite (b_cnt s HB x) in H. unfold total in H. lia.
  Qed.

  Lemma p_clone_isolation x : In x (exported (hist s)) -> In x (emitted (hist s)).
  Proof.
    intro Hx. destruct (inv_reach c sch s Hv Hr) as [_ HB _ _ _ _ _].
    apply (b_prov s HB). apply seqn_in_enq; [assumption|]. apply in_or_app; now left.
  Qed.

  Lemma p_order : overlap (hist s) = false -> ordered (exported (hist s)) = true.
  Proof.
    intro Ho. destruct (inv_reach c sch s Hv Hr) as [_ _ HC _ _ _ _].
    pose proof (c_ord s HC Ho) as H. unfold seqn in H. rewrite ordered_app in H.
    apply andb_true_iff in H as [H _]. now apply andb_true_iff in H as [H _].
  Qed.
End Readings.

(** ** visibility at the moment ForceFlush / Shutdown return nil *)
Lemma visible_holds c s t :
  Inv c s -> place s (pcs s t) = Some (base s) -> guard s t -> visible c (hist s) t = true.
Proof.
  intros Hi Hp G. unfold visible. apply forallb_forall. intros r Hr.
  pose proof (v_place s (iV c s Hi) t _ Hp G r Hr) as Hb. unfold base in Hb.
  destruct (memb r (exported (hist s))) eqn:Em; [reflexivity|].
  apply in_app_or in Hb as [Hb|Hb]; [apply memb_In in Hb; congruence|].
  now apply (iX c s Hi).
Qed.

Lemma flush_ok_holds c s t :
  Inv c s -> pcs s t = F5 RNil -> flush_ok all_guards c (hist s) t = true.
Proof.
  intros Hi Hp. unfold flush_ok. cbn [all_guards g_shut g_fail andb].
  destruct (1 <=? shut_calls (hist s)) eqn:Es; [reflexivity|].
  destruct (has_fail (hist s)) eqn:Ef; [reflexivity|].
  apply visible_holds; auto.
  - rewrite Hp. reflexivity.
  - repeat split; auto.
    + intros _. rewrite (a_stopped s (iA c s Hi)). exact Es.
    + rewrite Hp. discriminate.
Qed.

Lemma visible_ext c h t e :
  is_call_of t e = false -> visible c h t = true -> visible c (h ++ [e]) t = true.
Proof.
  unfold visible. intros Hc Hv. rewrite before_call_snoc, Hc.
  apply forallb_forall. intros r Hr. rewrite forallb_forall in Hv. specialize (Hv r Hr).
  destruct (memb r (exported h)) eqn:Em.
  - apply memb_In in Em. assert (In r (exported (h ++ [e]))) by (rewrite exported_snoc; apply in_or_app; now left).
    apply memb_In in H. now rewrite H.
  - destruct (memb r (exported (h ++ [e]))); [reflexivity|]. now apply excused_mono.
Qed.

Lemma shut_ok_holds c s t :
  Inv c s -> pcs s t = S8 RNil -> shut_ok all_guards c (hist s ++ [EvExpShutdown]) t = true.
Proof.
  intros Hi Hp. unfold shut_ok. cbn [all_guards g_shut g_fail andb].
  rewrite shut_calls_snoc, has_fail_snoc. cbn [is_shut_call is_fail]. rewrite Nat.add_0_r, orb_false_r.
  destruct (2 <=? shut_calls (hist s)) eqn:Es; [reflexivity|].
  destruct (has_fail (hist s)) eqn:Ef; [reflexivity|].
  apply visible_ext; [reflexivity|]. apply visible_holds; auto.
  - rewrite Hp. reflexivity.
  - repeat split; auto.
    + rewrite Hp. discriminate.
    + intros _. apply Nat.leb_gt in Es. lia.
Qed.

(** ** the whole (guarded) specification along every schedule *)
Lemma spec_step c s a s' :
  valid c -> Inv c s -> step c s a = Some s' ->
  spec_ok c (hist s) = true -> spec_ok c (hist s') = true.
Proof.
  intros Hv Hi H Hs. unfold spec_ok, spec_gen in *.
  pose proof (a_open s (iA c s Hi)) as Hopen.
  pose proof (a_stopped s (iA c s Hi)) as Hst.
  pose proof (a_bstop s (iA c s Hi)) as Hbs.
  pose proof (a_early s (iA c s Hi)) as Hea.
  destruct a; open_step H; sst'; rewrite ?all_pos_snoc, ?Hs; cbn [ev_ok andb]; auto.
  - (* ForceFlush after Shutdown: guarded *)
    unfold flush_ok. cbn [all_guards g_shut andb]. rewrite shut_calls_snoc. cbn [is_shut_call].
    rewrite Heqb in Hst. symmetry in Hst. apply Nat.leb_le in Hst.
    replace (1 <=? shut_calls (hist s) + 0) with true by (symmetry; apply Nat.leb_le; lia). reflexivity.
  - (* second Shutdown: guarded *)
    unfold shut_ok. cbn [all_guards g_shut andb]. rewrite shut_calls_snoc. cbn [is_shut_call].
    rewrite Heqb in Hst. symmetry in Hst. apply Nat.leb_le in Hst.
    replace (2 <=? shut_calls (hist s) + 1) with true by (symmetry; apply Nat.leb_le; lia). reflexivity.
  - (* ForceFlush finds the buffer exporter stopped: guarded *)
    destruct e; auto. unfold flush_ok. cbn [all_guards g_shut andb].
    rewrite (Hbs eq_refl) in Hst. now rewrite <- Hst.
  - (* ForceFlush returns *)
    destruct e; auto. now apply flush_ok_holds.
  - (* unreachable: the buffer exporter is stopped only by this very call *)
    exfalso. specialize (Hea t). rewrite Heqp in Hea. specialize (Hea eq_refl). discriminate.
  - (* Shutdown returns *)
    destruct e; auto. now apply shut_ok_holds.
  - (* Export entered *)
    eapply begin_ok_holds; eauto.
Qed.

Lemma spec_run c sch : valid c -> forall s s', Inv c s -> spec_ok c (hist s) = true ->
  run_from c s sch = Some s' -> spec_ok c (hist s') = true.
Proof.
  intro Hv. induction sch as [|a r IH]; cbn; intros s s' Hi Hs H.
  - inversion H; now subst.
  - destruct (step c s a) eqn:E; [|discriminate].
    eapply IH; [eapply inv_step; eauto | eapply spec_step; eauto | exact H].
Qed.

Theorem spec_reach c sch s : valid c -> exec c sch = Some s -> spec_ok c (hist s) = true.
Proof. intros Hv H. eapply spec_run; eauto using inv_init. Qed.


Section Readings2.
  Variables (c : config) (sch : list action) (s : st).
  Hypothesis Hv : valid c.
  Hypothesis Hr : exec c sch = Some s.

  Lemma visible_reading h t r :
    visible c h t = true -> In r (emit_rets (before_call t h)) ->
    In r (exported h) \/ excused c h r = true.
  Proof.
    unfold visible. rewrite forallb_forall. intros H Hi. specialize (H r Hi).
    destruct (memb r (exported h)) eqn:E; [left; now apply memb_In | now right].
  Qed.

  Lemma p_flush_visibility h1 t h2 :
    hist s = h1 ++ EvRet t OpFlush RNil :: h2 ->
    shut_calls h1 = 0 -> has_fail h1 = false ->
    forall r, In r (emit_rets (before_call t h1)) -> In r (exported h1) \/ excused c h1 r = true.
  Proof.
    intros Hh Hs Hf r Hi. pose proof (spec_reach c sch s Hv Hr) as Hsp.
    unfold spec_ok, spec_gen in Hsp. rewrite Hh in Hsp.
    apply (all_pos_at _ h1 (EvRet t OpFlush RNil) h2) in Hsp.
    cbn [ev_ok] in Hsp. unfold flush_ok in Hsp. rewrite Hs, Hf in Hsp. cbn in Hsp.
    now apply (visible_reading h1 t r).
  Qed.

  Lemma p_shutdown_drains h1 t h2 :
    hist s = h1 ++ EvRet t OpShutdown RNil :: h2 ->
    shut_calls h1 <= 1 -> has_fail h1 = false ->
    forall r, In r (emit_rets (before_call t h1)) -> In r (exported h1) \/ excused c h1 r = true.
  Proof.
    intros Hh Hs Hf r Hi. pose proof (spec_reach c sch s Hv Hr) as Hsp.
    unfold spec_ok, spec_gen in Hsp. rewrite Hh in Hsp.
    apply (all_pos_at _ h1 (EvRet t OpShutdown RNil) h2) in Hsp.
    cbn [ev_ok] in Hsp. unfold shut_ok in Hsp. rewrite Hf in Hsp.
    replace (2 <=? shut_calls h1) with false in Hsp by (symmetry; apply Nat.leb_gt; lia).
    cbn in Hsp. now apply (visible_reading h1 t r).
  Qed.
End Readings2.

(** ** no send on the closed input channel (in Go: a panic) *)
Lemma push_not_closed c s a s' :
  InvA s -> InvE s -> step c s a = Some s' ->
  length (input s) < length (input s') -> closed s = false.
Proof.
  intros HA HE H Hl. pose proof (a_closed s HA) as Hc. pose proof (e_hold s HE) as Hh.
  destruct (closed s) eqn:Ecl; [|reflexivity]. exfalso. specialize (Hc eq_refl).
  destruct a; open_step H; sst'; rewrite ?app_length in Hl; cbn [length] in Hl; try lia; try congruence.
  all: try solve [destruct (Hh t) as [_ Hf]; [rewrite Heqp; reflexivity | congruence]].
  all: try solve [rewrite ?Heql in Hl; cbn [length] in Hl; lia].
Qed.

Lemma p_no_send_on_closed c sch s a s' :
  valid c -> exec c sch = Some s -> step c s a = Some s' ->
  length (input s) < length (input s') -> closed s = false.
Proof.
  intros Hv Hr. destruct (inv_reach c sch s Hv Hr) as [HA _ _ _ HE _ _]. now apply push_not_closed.
Qed.
