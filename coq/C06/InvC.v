(** C06 invariant, layer C: per-goroutine order (guard: no ForceFlush overlaps a Shutdown). *)
From Verif Require Import Lib.Base C06.Spec C06.Model C06.Lemmas C06.Inv C06.InvB.
Local Open Scope nat_scope.

Definition opens (h : history) : list (nat * bool) := fst (ov_run h).

Lemma ov_snoc h e : ov_run (h ++ [e]) = ov_step (opens h, overlap h) e.
Proof. rewrite ov_run_snoc. unfold opens, overlap. fold (ov_run h). now destruct (ov_run h). Qed.
Lemma overlap_snoc_false h e : overlap (h ++ [e]) = false -> overlap h = false.
Proof.
  intro H. destruct (overlap h) eqn:E; [|reflexivity].
  rewrite overlap_run in *. rewrite ov_run_snoc in H. now rewrite ov_step_mono in H.
Qed.
Lemma In_ov_drop u b t l : In (u, b) (ov_drop t l) <-> In (u, b) l /\ u <> t.
Proof.
  unfold ov_drop. rewrite filter_In. cbn. rewrite negb_true_iff, Nat.eqb_neq. tauto.
Qed.

(** the sequence whose restriction to any goroutine is in emission order *)
Definition seqn (s : st) : list rec := exported (hist s) ++ pend s.

Record InvC (s : st) : Prop := {
  c_opens : forall t, Fst (pcs s t) = true -> In (t, true) (opens (hist s));
  c_nof : overlap (hist s) = false -> stopped s = true -> forall t, Fst (pcs s t) = false;
  c_ord : overlap (hist s) = false -> ordered (seqn s) = true
}.

Lemma invC_init : InvC init.
Proof. constructor; cbn; intros; auto; discriminate. Qed.

(** effect of one more event on the calls in progress *)
Lemma opens_snoc h e :
  opens (h ++ [e]) =
  match e with
  | EvCall t OpShutdown => (t, false) :: opens h
  | EvCall t OpFlush => (t, true) :: opens h
  | EvRet t OpFlush _ | EvRet t OpShutdown _ => ov_drop t (opens h)
  | _ => opens h
  end.
Proof.
  unfold opens at 1. rewrite ov_snoc.
  destruct e as [t [r| |]|t [r| |] x|b|ok|]; reflexivity.
Qed.
Lemma overlap_snoc h e :
  overlap (h ++ [e]) =
  match e with
  | EvCall t OpShutdown => overlap h || existsb (fun x => snd x) (opens h)
  | EvCall t OpFlush => overlap h || existsb (fun x => negb (snd x)) (opens h)
  | _ => overlap h
  end.
Proof.
  rewrite overlap_run, ov_snoc.
  destruct e as [t [r| |]|t [r| |] x|b|ok|]; reflexivity.
Qed.

Lemma invC_opens c s a s' :
  InvC s -> step c s a = Some s' ->
  forall u, Fst (pcs s' u) = true -> In (u, true) (opens (hist s')).
Proof.
  intros [Copens _ _] H u Hu.
  destruct a; open_step H; sst'; rewrite ?opens_snoc; cbn [opens_snoc].
  all: try (upd_cases u t).
  all: know_pc; cbn [Fst] in *; try discriminate.
  all: try solve [auto].
  all: try solve [left; reflexivity].
  all: try solve [right; auto].
  all: try solve [apply Copens; congruence].
  all: try solve [apply In_ov_drop; split; auto].
  all: try solve [apply In_ov_drop; split; auto; right; auto].
Qed.

Lemma overlap_step_false c s a s' :
  step c s a = Some s' -> overlap (hist s') = false -> overlap (hist s) = false.
Proof.
  intros H Ho. destruct a; open_step H; sst'; auto;
    repeat (apply overlap_snoc_false in Ho); assumption.
Qed.

Lemma existsb_false_In {A} (f : A -> bool) l x : existsb f l = false -> In x l -> f x = false.
Proof.
  intros H Hi. destruct (f x) eqn:E; [|reflexivity].
  assert (existsb f l = true) by (apply existsb_exists; eauto). congruence.
Qed.

Lemma invC_nof c s a s' :
  InvA s -> InvC s -> step c s a = Some s' ->
  overlap (hist s') = false -> stopped s' = true -> forall u, Fst (pcs s' u) = false.
Proof.
  intros HA [Copens Cnof _] H Ho Hs u.
  pose proof (overlap_step_false _ _ _ _ H Ho) as Ho0.
  specialize (Cnof Ho0).
  destruct a; open_step H; sst'.
  all: try (upd_cases u t).
  all: know_pc; cbn [Fst] in *; try reflexivity.
  all: try solve [auto].
  all: try solve [specialize (Cnof Hs t); congruence].
  all: try solve [congruence].
  rewrite overlap_snoc in Ho. apply orb_false_iff in Ho as [_ Ho].
  destruct (Fst (pcs s u)) eqn:E; [|reflexivity].
  apply Copens in E. now apply (existsb_false_In _ _ _ Ho) in E.
Qed.

Lemma enqueue_ring c r s :
  exists d keep, ring s = d ++ keep /\ ring (enqueue c r s) = keep ++ [r].
Proof.
  unfold enqueue; cbv zeta; cbn [ring set_enq].
  destruct (length (ring s) <? qcap c); cbn [ring set_ring set_dropped set_enq].
  - exists [], (ring s). auto.
  - exists (firstn 1 (ring s)), (skipn 1 (ring s)). now rewrite firstn_skipn.
Qed.

Lemma seqn_in_enq s x :
  InvB s ->
  In x (exported (hist s) ++ xpend (ex s) ++ input_recs (input s) ++ held s ++ ring s) ->
  In x (enq s).
Proof.
  intros HB Hi. apply cnt_In. rewrite (b_cnt s HB x). unfold total.
  apply cnt_In in Hi. rewrite !cnt_app in Hi. lia.
Qed.

Lemma newer_than_all s t r :
  InvB s -> pcs s t = E1 r -> forall a, In a (enq s) -> before_ok a r = true.
Proof.
  intros HB Hp a Ha. destruct (b_e1 s HB t r Hp) as [Ht [_ Hlt]].
  destruct (Nat.eq_dec (r_tid a) (r_tid r)) as [E|E].
  - apply before_ok_lt; [assumption|]. apply Hlt; congruence.
  - now apply before_ok_other.
Qed.

(** subsequences keep the order *)
Inductive subseq {A} : list A -> list A -> Prop :=
| ss_nil : subseq [] []
| ss_skip x l l' : subseq l l' -> subseq l (x :: l')
| ss_keep x l l' : subseq l l' -> subseq (x :: l) (x :: l').
Lemma subseq_refl {A} (l : list A) : subseq l l.
Proof. induction l; [apply ss_nil | now apply ss_keep]. Qed.
Lemma subseq_nil_l {A} (l : list A) : subseq [] l.
Proof. induction l; [apply ss_nil | now apply ss_skip]. Qed.
Lemma subseq_app {A} (a a' b b' : list A) : subseq a a' -> subseq b b' -> subseq (a ++ b) (a' ++ b').
Proof. intros Ha Hb. induction Ha; cbn; auto; [now apply ss_skip | now apply ss_keep]. Qed.
Lemma subseq_skipn {A} n (l : list A) : subseq (skipn n l) l.
Proof.
  revert n; induction l as [|x l IH]; intros [|n]; cbn.
  - apply ss_nil.
  - apply ss_nil.
  - apply subseq_refl.
  - apply ss_skip, IH.
Qed.
Lemma subseq_forallb {A} (f : A -> bool) l l' : subseq l l' -> forallb f l' = true -> forallb f l = true.
Proof.
  induction 1; cbn; auto; intro Hf; apply andb_true_iff in Hf as [H1 H2]; auto.
  now rewrite H1, IHsubseq.
Qed.
Lemma ordered_subseq l l' : subseq l l' -> ordered l' = true -> ordered l = true.
Proof.
  induction 1; cbn; auto; intro Ho; apply andb_true_iff in Ho as [H1 H2]; auto.
  rewrite IHsubseq by assumption. now rewrite (subseq_forallb _ _ _ H H1).
Qed.
Ltac subseq_tac :=
  repeat first [apply subseq_refl | apply subseq_nil_l | apply subseq_skipn
               | apply subseq_app ].

Lemma firstn_skipn_app {A} n (l x : list A) : firstn n l ++ skipn n l ++ x = l ++ x.
Proof. now rewrite app_assoc, firstn_skipn. Qed.

Ltac seq_norm :=
  rewrite ?exported_snoc, ?input_recs_app, ?input_recs_cons, ?input_recs_nil in *;
  cbn [ev_exported req_recs xpend] in *;
  rewrite <- ?app_assoc, ?app_nil_r in *; cbn [app] in *;
  rewrite ?firstn_skipn_app, ?firstn_skipn, ?app_nil_r in *.

Lemma invC_ord c s a s' :
  InvA s -> InvB s -> InvC s -> step c s a = Some s' ->
  overlap (hist s') = false -> ordered (seqn s') = true.
Proof.
  intros HA HB [Copens Cnof Cord] H Ho.
  pose proof (overlap_step_false _ _ _ _ H Ho) as Ho0.
  specialize (Cnof Ho0). specialize (Cord Ho0).
  assert (Hh1 : polldead s = false -> held s = []).
  { intro Hp. destruct (held s) eqn:E; [reflexivity|]. destruct (a_held s HA) as [Hd _]; [congruence|congruence]. }
  assert (Hh2 : forall t, Fst (pcs s t) = true -> held s = []).
  { intros t Ht. destruct (held s) eqn:E; [reflexivity|]. destruct (a_held s HA) as [_ Hd]; [congruence|].
    specialize (Cnof Hd t). congruence. }
  assert (Hh3 : forall t, Sheld (pcs s t) = false -> Sst (pcs s t) = true -> held s = []).
  { intros t H1 H2. destruct (a_heldw s HA) as [|[t0 Ht0]]; [assumption|].
    assert (t = t0) by (apply (a_uniq s HA); [assumption | apply Sheld_Sst, Ht0]). congruence. }
  unfold seqn, pend in *.
  destruct a; open_step H; sst';
    try match goal with E : ex _ = _ |- _ => rewrite E in * end;
    try match goal with E : input _ = _ |- _ => rewrite E in * end;
    try match goal with E : nilb _ = true |- _ => apply nilb_true in E; rewrite ?E in * end.
  all: try solve [seq_norm; exact Cord].
  all: try solve [rewrite (Hh2 t) in * by (rewrite Heqp; reflexivity); seq_norm; exact Cord].
  all: try solve [rewrite Hh1 in * by (assumption || reflexivity); seq_norm; exact Cord].
  all: try solve [eapply ordered_subseq; [|exact Cord]; seq_norm; subseq_tac].
  1: { (* enqueue *)
    destruct (enqueue_ring c r s) as [d [keep [Hr Hr']]]. rewrite Hr'.
    rewrite exported_snoc; cbn [ev_exported]; rewrite app_nil_r.
    assert (Hall : forall a, In a (exported (hist s) ++ xpend (ex s) ++ input_recs (input s) ++ held s ++ ring s) ->
                             before_ok a r = true).
    { intros a Ha. eapply newer_than_all; eauto. now apply seqn_in_enq. }
    rewrite Hr in Cord, Hall.
    replace (exported (hist s) ++ xpend (ex s) ++ input_recs (input s) ++ held s ++ keep ++ [r])
      with ((exported (hist s) ++ xpend (ex s) ++ input_recs (input s) ++ held s ++ keep) ++ [r])
      by (now rewrite <- !app_assoc).
    apply ordered_snoc.
    + replace (exported (hist s) ++ xpend (ex s) ++ input_recs (input s) ++ held s ++ d ++ keep)
        with ((exported (hist s) ++ xpend (ex s) ++ input_recs (input s) ++ held s) ++ d ++ keep) in Cord
        by (now rewrite <- !app_assoc).
      apply ordered_remove in Cord. now rewrite <- !app_assoc in Cord.
    + intros a Ha. apply Hall. rewrite !in_app_iff in *. tauto. }
  all: try solve [rewrite (Hh3 t) in * by (rewrite Heqp; reflexivity); seq_norm; exact Cord].
  all: try solve [eapply ordered_subseq; [|exact Cord];
                  rewrite ?exported_snoc; cbn [ev_exported xpend]; rewrite ?app_nil_r; subseq_tac].
Qed.

Lemma invC_step c s a s' : InvA s -> InvB s -> InvC s -> step c s a = Some s' -> InvC s'.
Proof.
  intros HA HB HC H. constructor.
  - eapply invC_opens; eauto.
  - eapply invC_nof; eauto.
  - eapply invC_ord; eauto.
Qed.
