(** C06 invariant, layer D: nothing is exported after a (first) Shutdown returned nil. *)
From Verif Require Import Lib.Base C06.Spec C06.Model C06.Lemmas C06.Inv.
Local Open Scope nat_scope.

Definition S8st (p : pc) : bool := match p with S8 RNil => true | _ => false end.

Record InvD (s : st) : Prop := {
  d_quiet : shut_returned all_guards (hist s) = true -> ex s = XDone;
  d_s8 : forall t, S8st (pcs s t) = true -> ex s = XDone
}.

Lemma invD_init : InvD init.
Proof. constructor; cbn; intros; discriminate. Qed.

Lemma invD_step c s a s' : InvA s -> InvD s -> step c s a = Some s' -> InvD s'.
Proof.
  intros HA [Dq D8] H.
  pose proof (a_stopped s HA) as Hst. pose proof (a_early s HA) as Hearly.
  destruct a; open_step H; sst'; constructor; sstg'.
  all: rewrite ?shut_returned_snoc, ?shut_calls_snoc; cbn [is_shut_nil is_shut_call all_guards g_shut negb orb andb].
  all: rewrite ?orb_false_r, ?Nat.add_0_r.
  all: try assumption.
  all: try solve [intros u Hu; upd_cases u t; [cbn in Hu; try discriminate | eauto]; eauto].
  all: try solve [intros u Hu; upd_cases u t; [reflexivity | exfalso; specialize (D8 u Hu); congruence]].
  all: try solve [intro Hq; specialize (Dq Hq); congruence].
  all: try solve [intro Hq; apply orb_true_iff in Hq as [Hq|Hq]; [auto|];
                  rewrite Heqb in Hst; symmetry in Hst; apply Nat.leb_le in Hst; apply Nat.leb_le in Hq; lia].
  all: try solve [exfalso; specialize (Hearly t); rewrite Heqp in Hearly; specialize (Hearly eq_refl); discriminate].
  all: try solve [intro Hq; apply orb_true_iff in Hq as [Hq|Hq]; [auto|]; destruct e; try discriminate; apply (D8 t); rewrite Heqp; reflexivity].
  all: try solve [intros; reflexivity].
  all: try solve [intros u Hu; specialize (D8 u Hu); discriminate].
  all: try solve [intros Hq; specialize (Dq Hq); discriminate].
Qed.
