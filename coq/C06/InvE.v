(** C06 invariant, layer E: inputMu, request ids and answers, the closed channel,
    returned emits are accepted while the processor is not stopped. *)
From Verif Require Import Lib.Base C06.Spec C06.Model C06.Lemmas C06.Inv.
Local Open Scope nat_scope.

Definition Hold (p : pc) : bool := match p with F3 _ | S3h => true | _ => false end.
Definition opt_id (o : option nat) : list nat := match o with Some i => [i] | None => [] end.
Definition req_ids (q : req) : list nat := match q with Data _ r => opt_id r | Sync i => [i] end.
Definition input_ids (i : list req) : list nat := flat_map req_ids i.
Definition ex_ids (x : exst) : list nat :=
  match x with XNext _ r => opt_id r | XOpen _ _ r => opt_id r | _ => [] end.
Definition pending_ids (s : st) : list nat := ex_ids (ex s) ++ input_ids (input s).

Record InvE (s : st) : Prop := {
  e_hold : forall t, Hold (pcs s t) = true -> mu s = true /\ closed s = false;
  e_hold_uniq : forall t u, Hold (pcs s t) = true -> Hold (pcs s u) = true -> t = u;
  e_done : ex s = XDone -> input s = [] /\ closed s = true;
  e_ids_lt : forall i, In i (pending_ids s) -> i < nreq s;
  e_ids_nodup : NoDup (pending_ids s);
  e_ans_fresh : forall i, nreq s <= i -> ans s i = None;
  e_ans_pending : forall i, In i (pending_ids s) -> ans s i = None;
  e_rets : stopped s = false -> forall r, In r (emit_rets (hist s)) -> In r (enq s)
}.

Lemma invE_init : InvE init.
Proof.
  constructor; cbn; intros; auto; try discriminate; try contradiction; try constructor.
Qed.

Lemma input_ids_app a b : input_ids (a ++ b) = input_ids a ++ input_ids b.
Proof. unfold input_ids. apply flat_map_app. Qed.
Lemma input_ids_cons q l : input_ids (q :: l) = req_ids q ++ input_ids l.
Proof. reflexivity. Qed.

Ltac know_hold :=
  repeat match goal with
  | E : pcs ?s ?t = ?p |- _ =>
      lazymatch goal with | _ : Hold (pcs s t) = _ |- _ => fail | _ => idtac end;
      assert (Hold (pcs s t) = Hold p) by (rewrite E; reflexivity)
  end; cbn [Hold] in *.

Lemma invE_hold c s a s' :
  InvA s -> InvE s -> step c s a = Some s' ->
  (forall u, Hold (pcs s' u) = true -> mu s' = true /\ closed s' = false) /\
  (forall u v, Hold (pcs s' u) = true -> Hold (pcs s' v) = true -> u = v).
Proof.
  intros HA [Eh Eu _ _ _ _ _ _] H.
  pose proof (a_closed s HA) as Hcl.
  assert (Hnone : mu s = false -> forall u, Hold (pcs s u) = false).
  { intros Hm u. destruct (Hold (pcs s u)) eqn:E; [|reflexivity]. destruct (Eh u E). congruence. }
  destruct a; open_step H; sst'; split.
  all: intros; updall; know_hold; cbn [Hold] in *; try discriminate; eauto.
  all: try solve [match goal with H : Hold (pcs _ ?u) = true |- _ => destruct (Eh u H) as [? ?]; try split; congruence end].
  all: try solve [exfalso; match goal with H : Hold (pcs _ ?u) = true |- _ =>
                    first [specialize (Hnone eq_refl u) | specialize (Hnone Heqb u) | specialize (Hnone Heqb0 u)]; congruence end].
  all: try solve [split; [reflexivity|]; destruct (closed s); [exfalso; specialize (Hcl eq_refl); discriminate | reflexivity]].
  all: try solve [exfalso; match goal with H : Hold (pcs _ ?u) = true, H0 : Hold (pcs _ ?t) = true, n : ?u <> ?t |- _ =>
                    apply n; apply Eu; assumption end].
Qed.

Lemma invE_done c s a s' :
  InvA s -> InvE s -> step c s a = Some s' -> ex s' = XDone -> input s' = [] /\ closed s' = true.
Proof.
  intros HA [Eh _ Ed _ _ _ _ _] H.
  pose proof (a_closed s HA) as Hcl.
  destruct a; open_step H; sst'; intro Hx; try discriminate; auto.
  all: try solve [destruct (Ed Hx) as [Hi Hc]; rewrite ?Hi in *; cbn in *; try discriminate; auto].
  all: try solve [exfalso; destruct (Ed Hx) as [_ Hc]; specialize (Hcl Hc); congruence].
  all: try solve [exfalso; destruct (Ed Hx) as [_ Hc]; destruct (Eh t) as [_ Hf]; [rewrite Heqp; reflexivity | congruence]].
  all: try solve [congruence].
Qed.

Lemma ans_respond resp v s :
  ans (respond resp v s) = match resp with Some j => upd (ans s) j (Some v) | None => ans s end.
Proof. destruct resp; reflexivity. Qed.

Lemma ids_push (L : list nat) n (an : nat -> option bool) :
  (forall i, In i L -> i < n) -> NoDup L -> (forall i, n <= i -> an i = None) ->
  (forall i, In i L -> an i = None) ->
  (forall i, In i (L ++ [n]) -> i < S n) /\ NoDup (L ++ [n]) /\
  (forall i, S n <= i -> an i = None) /\ (forall i, In i (L ++ [n]) -> an i = None).
Proof.
  intros Hlt Hnd Hfr Hpe. repeat split.
  - intros i Hi. apply in_app_or in Hi as [Hi|[<-|[]]]; [specialize (Hlt i Hi)|]; lia.
  - apply NoDup_app_parts_rev; auto.
    + constructor; [intros []|constructor].
    + intros x [<-|[]] Hx. specialize (Hlt _ Hx). lia.
  - intros i Hi. apply Hfr. lia.
  - intros i Hi. apply in_app_or in Hi as [Hi|[<-|[]]]; auto.
Qed.

Lemma ids_pop resp (L : list nat) n (an : nat -> option bool) v :
  (forall i, In i (opt_id resp ++ L) -> i < n) -> NoDup (opt_id resp ++ L) ->
  (forall i, n <= i -> an i = None) -> (forall i, In i (opt_id resp ++ L) -> an i = None) ->
  let an' := match resp with Some j => upd an j (Some v) | None => an end in
  (forall i, In i L -> i < n) /\ NoDup L /\
  (forall i, n <= i -> an' i = None) /\ (forall i, In i L -> an' i = None).
Proof.
  intros Hlt Hnd Hfr Hpe. destruct resp as [j|]; cbn in *; [|auto].
  inversion Hnd; subst. repeat split; auto.
  - intros i Hi. rewrite upd_other; [auto|]. specialize (Hlt j (or_introl eq_refl)). lia.
  - intros i Hi. rewrite upd_other; [auto|]. intros ->. contradiction.
Qed.

Ltac ids_norm :=
  unfold pending_ids in *; sst';
  rewrite ?ans_respond in *;
  try match goal with E : ex _ = _ |- _ => rewrite E in * end;
  try match goal with E : input _ = _ |- _ => rewrite E in * end;
  rewrite ?input_ids_app, ?input_ids_cons in *;
  cbn [ex_ids req_ids opt_id input_ids flat_map app] in *;
  rewrite ?app_nil_r in *.

Lemma invE_ids c s a s' :
  InvA s -> InvE s -> step c s a = Some s' ->
  (forall i, In i (pending_ids s') -> i < nreq s') /\
  NoDup (pending_ids s') /\
  (forall i, nreq s' <= i -> ans s' i = None) /\
  (forall i, In i (pending_ids s') -> ans s' i = None).
Proof.
  intros HA [_ _ _ Elt End Efr Epe _] H.
  destruct a; open_step H; ids_norm.
  all: try solve [repeat split; auto].
  all: try solve [rewrite app_assoc; apply ids_push; auto].
  all: try solve [sst'; eapply ids_pop; eauto].
  all: try solve [sst'; apply (ids_pop (Some id) _ _ _ true); auto].
Qed.

Lemma invE_rets c s a s' :
  InvA s -> InvE s -> step c s a = Some s' ->
  stopped s' = false -> forall r, In r (emit_rets (hist s')) -> In r (enq s').
Proof.
  intros HA HE H. pose proof (e_rets s HE) as Er.
  destruct a; open_step H; sst'; intros Hs x Hr;
    rewrite ?emit_rets_snoc in Hr; cbn [ev_emit_ret] in Hr; rewrite ?app_nil_r in Hr;
    try congruence; auto.
  apply in_app_or in Hr as [Hr|[<-|[]]]; apply in_or_app; [left; auto | right; now left].
Qed.

Lemma invE_step c s a s' : InvA s -> InvE s -> step c s a = Some s' -> InvE s'.
Proof.
  intros HA HE H.
  destruct (invE_hold _ _ _ _ HA HE H) as [H1 H2].
  destruct (invE_ids _ _ _ _ HA HE H) as [H3 [H4 [H5 H6]]].
  constructor; auto.
  - eapply invE_done; eauto.
  - eapply invE_rets; eauto.
Qed.
