(** C06 model: the sdk/log BatchProcessor as a labelled transition system
    (definitions only).  One action = one atomic step of the Go code (a critical
    section, a channel operation, an atomic load/swap); see notes/C06.md for the
    table action <-> source line. *)
From Verif Require Import Lib.Base C06.Spec.
Local Open Scope nat_scope.

(** export requests in bufferExporter.input: records (+ response channel id) or a
    flush marker (exportData with nil records) *)
Inductive req := Data (rs : list rec) (resp : option nat) | Sync (id : nat).
(** the single exportSync goroutine *)
Inductive exst :=
| XIdle
| XNext (rs : list rec) (resp : option nat)        (* chunkExporter loop: next chunk to cut from rs *)
| XOpen (cur rest : list rec) (resp : option nat)  (* inside the exporter's Export with cur *)
| XDone.                                           (* input closed and drained: goroutine exited *)
(** program counters of caller goroutines *)
Inductive pc :=
| Idle
| E1 (r : rec)                    (* OnEmit: stopped was false; about to clone+enqueue *)
| F1                              (* ForceFlush: hand-over loop *)
| F2 (e : ret)                    (* bufferExporter.ForceFlush: about to lock inputMu *)
| F3 (e : ret)                    (* holding inputMu, blocking send of the marker *)
| F4 (e : ret) (id : nat)         (* waiting for the marker's answer *)
| F5 (e : ret)                    (* exporter.ForceFlush *)
| S1                              (* Shutdown: stopped swapped, pollKill closed; waiting for poll *)
| S2                              (* q.Flush() *)
| S3                              (* bufferExporter.Export: about to lock inputMu *)
| S3h                             (* holding inputMu, blocking send of the final batch *)
| S4 (id : nat)                   (* waiting for its answer *)
| S5 (e : ret)                    (* bufferExporter.Shutdown: stopped.Swap *)
| S6 (e : ret)                    (* lock inputMu, close(input) *)
| S7 (e : ret)                    (* wait for the export goroutine *)
| S8 (e : ret).                   (* exporter.Shutdown, return *)
Inductive wake := WTick | WTrig | WKill.

Inductive action :=
| AEmit (t b : nat)               (* goroutine t calls Emit with a record of content b; loads stopped *)
| AMutate (t b : nat)             (* goroutine t edits ITS OWN copy of the record (between calls) *)
| AFlush (t : nat)                (* t calls ForceFlush; loads stopped *)
| AShutdown (t : nat)             (* t calls Shutdown; stopped.Swap(true) *)
| AStep (t : nat)                 (* next step of t's call in progress *)
| ACtx (t : nat)                  (* t's context is done, taken at t's current wait point *)
| APoll (w : wake) (ready : bool) (* one wake-up of the poll goroutine; ready=false: Ready() was false *)
| AXTake | AXBegin | AXEnd (ok : bool).  (* export goroutine: receive / enter Export / Export returns *)

Record st := mkst {
  ring : list rec;
  dropped : list rec;
  lostE : list rec;
  lostD : list rec;
  enq : list rec;
  held : list rec;
  input : list req;
  closed : bool;
  ex : exst;
  hist : history;
  stopped : bool;
  bstopped : bool;
  pollkill : bool;
  polldead : bool;
  trigger : bool;
  mu : bool;
  ans : nat -> option bool;
  nreq : nat;
  nexts : nat -> nat;
  crec : nat -> nat;
  pcs : nat -> pc }.

Definition set_ring (v : list rec) (s : st) : st :=
  {| ring := v; dropped := dropped s; lostE := lostE s; lostD := lostD s; enq := enq s; held := held s; input := input s; closed := closed s; ex := ex s; hist := hist s; stopped := stopped s; bstopped := bstopped s; pollkill := pollkill s; polldead := polldead s; trigger := trigger s; mu := mu s; ans := ans s; nreq := nreq s; nexts := nexts s; crec := crec s; pcs := pcs s |}.
Definition set_dropped (v : list rec) (s : st) : st :=
  {| ring := ring s; dropped := v; lostE := lostE s; lostD := lostD s; enq := enq s; held := held s; input := input s; closed := closed s; ex := ex s; hist := hist s; stopped := stopped s; bstopped := bstopped s; pollkill := pollkill s; polldead := polldead s; trigger := trigger s; mu := mu s; ans := ans s; nreq := nreq s; nexts := nexts s; crec := crec s; pcs := pcs s |}.
Definition set_lostE (v : list rec) (s : st) : st :=
  {| ring := ring s; dropped := dropped s; lostE := v; lostD := lostD s; enq := enq s; held := held s; input := input s; closed := closed s; ex := ex s; hist := hist s; stopped := stopped s; bstopped := bstopped s; pollkill := pollkill s; polldead := polldead s; trigger := trigger s; mu := mu s; ans := ans s; nreq := nreq s; nexts := nexts s; crec := crec s; pcs := pcs s |}.
Definition set_lostD (v : list rec) (s : st) : st :=
  {| ring := ring s; dropped := dropped s; lostE := lostE s; lostD := v; enq := enq s; held := held s; input := input s; closed := closed s; ex := ex s; hist := hist s; stopped := stopped s; bstopped := bstopped s; pollkill := pollkill s; polldead := polldead s; trigger := trigger s; mu := mu s; ans := ans s; nreq := nreq s; nexts := nexts s; crec := crec s; pcs := pcs s |}.
Definition set_enq (v : list rec) (s : st) : st :=
  {| ring := ring s; dropped := dropped s; lostE := lostE s; lostD := lostD s; enq := v; held := held s; input := input s; closed := closed s; ex := ex s; hist := hist s; stopped := stopped s; bstopped := bstopped s; pollkill := pollkill s; polldead := polldead s; trigger := trigger s; mu := mu s; ans := ans s; nreq := nreq s; nexts := nexts s; crec := crec s; pcs := pcs s |}.
Definition set_held (v : list rec) (s : st) : st :=
  {| ring := ring s; dropped := dropped s; lostE := lostE s; lostD := lostD s; enq := enq s; held := v; input := input s; closed := closed s; ex := ex s; hist := hist s; stopped := stopped s; bstopped := bstopped s; pollkill := pollkill s; polldead := polldead s; trigger := trigger s; mu := mu s; ans := ans s; nreq := nreq s; nexts := nexts s; crec := crec s; pcs := pcs s |}.
Definition set_input (v : list req) (s : st) : st :=
  {| ring := ring s; dropped := dropped s; lostE := lostE s; lostD := lostD s; enq := enq s; held := held s; input := v; closed := closed s; ex := ex s; hist := hist s; stopped := stopped s; bstopped := bstopped s; pollkill := pollkill s; polldead := polldead s; trigger := trigger s; mu := mu s; ans := ans s; nreq := nreq s; nexts := nexts s; crec := crec s; pcs := pcs s |}.
Definition set_closed (v : bool) (s : st) : st :=
  {| ring := ring s; dropped := dropped s; lostE := lostE s; lostD := lostD s; enq := enq s; held := held s; input := input s; closed := v; ex := ex s; hist := hist s; stopped := stopped s; bstopped := bstopped s; pollkill := pollkill s; polldead := polldead s; trigger := trigger s; mu := mu s; ans := ans s; nreq := nreq s; nexts := nexts s; crec := crec s; pcs := pcs s |}.
Definition set_ex (v : exst) (s : st) : st :=
  {| ring := ring s; dropped := dropped s; lostE := lostE s; lostD := lostD s; enq := enq s; held := held s; input := input s; closed := closed s; ex := v; hist := hist s; stopped := stopped s; bstopped := bstopped s; pollkill := pollkill s; polldead := polldead s; trigger := trigger s; mu := mu s; ans := ans s; nreq := nreq s; nexts := nexts s; crec := crec s; pcs := pcs s |}.
Definition set_hist (v : history) (s : st) : st :=
  {| ring := ring s; dropped := dropped s; lostE := lostE s; lostD := lostD s; enq := enq s; held := held s; input := input s; closed := closed s; ex := ex s; hist := v; stopped := stopped s; bstopped := bstopped s; pollkill := pollkill s; polldead := polldead s; trigger := trigger s; mu := mu s; ans := ans s; nreq := nreq s; nexts := nexts s; crec := crec s; pcs := pcs s |}.
Definition set_stopped (v : bool) (s : st) : st :=
  {| ring := ring s; dropped := dropped s; lostE := lostE s; lostD := lostD s; enq := enq s; held := held s; input := input s; closed := closed s; ex := ex s; hist := hist s; stopped := v; bstopped := bstopped s; pollkill := pollkill s; polldead := polldead s; trigger := trigger s; mu := mu s; ans := ans s; nreq := nreq s; nexts := nexts s; crec := crec s; pcs := pcs s |}.
Definition set_bstopped (v : bool) (s : st) : st :=
  {| ring := ring s; dropped := dropped s; lostE := lostE s; lostD := lostD s; enq := enq s; held := held s; input := input s; closed := closed s; ex := ex s; hist := hist s; stopped := stopped s; bstopped := v; pollkill := pollkill s; polldead := polldead s; trigger := trigger s; mu := mu s; ans := ans s; nreq := nreq s; nexts := nexts s; crec := crec s; pcs := pcs s |}.
Definition set_pollkill (v : bool) (s : st) : st :=
  {| ring := ring s; dropped := dropped s; lostE := lostE s; lostD := lostD s; enq := enq s; held := held s; input := input s; closed := closed s; ex := ex s; hist := hist s; stopped := stopped s; bstopped := bstopped s; pollkill := v; polldead := polldead s; trigger := trigger s; mu := mu s; ans := ans s; nreq := nreq s; nexts := nexts s; crec := crec s; pcs := pcs s |}.
Definition set_polldead (v : bool) (s : st) : st :=
  {| ring := ring s; dropped := dropped s; lostE := lostE s; lostD := lostD s; enq := enq s; held := held s; input := input s; closed := closed s; ex := ex s; hist := hist s; stopped := stopped s; bstopped := bstopped s; pollkill := pollkill s; polldead := v; trigger := trigger s; mu := mu s; ans := ans s; nreq := nreq s; nexts := nexts s; crec := crec s; pcs := pcs s |}.
Definition set_trigger (v : bool) (s : st) : st :=
  {| ring := ring s; dropped := dropped s; lostE := lostE s; lostD := lostD s; enq := enq s; held := held s; input := input s; closed := closed s; ex := ex s; hist := hist s; stopped := stopped s; bstopped := bstopped s; pollkill := pollkill s; polldead := polldead s; trigger := v; mu := mu s; ans := ans s; nreq := nreq s; nexts := nexts s; crec := crec s; pcs := pcs s |}.
Definition set_mu (v : bool) (s : st) : st :=
  {| ring := ring s; dropped := dropped s; lostE := lostE s; lostD := lostD s; enq := enq s; held := held s; input := input s; closed := closed s; ex := ex s; hist := hist s; stopped := stopped s; bstopped := bstopped s; pollkill := pollkill s; polldead := polldead s; trigger := trigger s; mu := v; ans := ans s; nreq := nreq s; nexts := nexts s; crec := crec s; pcs := pcs s |}.
Definition set_ans (v : nat -> option bool) (s : st) : st :=
  {| ring := ring s; dropped := dropped s; lostE := lostE s; lostD := lostD s; enq := enq s; held := held s; input := input s; closed := closed s; ex := ex s; hist := hist s; stopped := stopped s; bstopped := bstopped s; pollkill := pollkill s; polldead := polldead s; trigger := trigger s; mu := mu s; ans := v; nreq := nreq s; nexts := nexts s; crec := crec s; pcs := pcs s |}.
Definition set_nreq (v : nat) (s : st) : st :=
  {| ring := ring s; dropped := dropped s; lostE := lostE s; lostD := lostD s; enq := enq s; held := held s; input := input s; closed := closed s; ex := ex s; hist := hist s; stopped := stopped s; bstopped := bstopped s; pollkill := pollkill s; polldead := polldead s; trigger := trigger s; mu := mu s; ans := ans s; nreq := v; nexts := nexts s; crec := crec s; pcs := pcs s |}.
Definition set_nexts (v : nat -> nat) (s : st) : st :=
  {| ring := ring s; dropped := dropped s; lostE := lostE s; lostD := lostD s; enq := enq s; held := held s; input := input s; closed := closed s; ex := ex s; hist := hist s; stopped := stopped s; bstopped := bstopped s; pollkill := pollkill s; polldead := polldead s; trigger := trigger s; mu := mu s; ans := ans s; nreq := nreq s; nexts := v; crec := crec s; pcs := pcs s |}.
Definition set_crec (v : nat -> nat) (s : st) : st :=
  {| ring := ring s; dropped := dropped s; lostE := lostE s; lostD := lostD s; enq := enq s; held := held s; input := input s; closed := closed s; ex := ex s; hist := hist s; stopped := stopped s; bstopped := bstopped s; pollkill := pollkill s; polldead := polldead s; trigger := trigger s; mu := mu s; ans := ans s; nreq := nreq s; nexts := nexts s; crec := v; pcs := pcs s |}.
Definition set_pcs (v : nat -> pc) (s : st) : st :=
  {| ring := ring s; dropped := dropped s; lostE := lostE s; lostD := lostD s; enq := enq s; held := held s; input := input s; closed := closed s; ex := ex s; hist := hist s; stopped := stopped s; bstopped := bstopped s; pollkill := pollkill s; polldead := polldead s; trigger := trigger s; mu := mu s; ans := ans s; nreq := nreq s; nexts := nexts s; crec := crec s; pcs := v |}.

Definition upd {A} (f : nat -> A) (t : nat) (v : A) : nat -> A :=
  fun u => if Nat.eqb u t then v else f u.
Definition nilb {A} (l : list A) : bool := match l with [] => true | _ => false end.
Definition join_ret (a b : ret) : ret :=
  match a, b with
  | RCtx, _ | _, RCtx => RCtx
  | ROther, _ | _, ROther => ROther
  | RNil, RNil => RNil
  end.

Definition log (e : event) (s : st) : st := set_hist (hist s ++ [e]) s.
Definition goto (t : nat) (p : pc) (s : st) : st := set_pcs (upd (pcs s) t p) s.
(** the call of t returns x *)
Definition retn (t : nat) (o : op) (x : ret) (s : st) : st := goto t Idle (log (EvRet t o x) s).
Definition respond (resp : option nat) (v : bool) (s : st) : st :=
  match resp with Some id => set_ans (upd (ans s) id (Some v)) s | None => s end.
Definition room (c : config) (s : st) : bool := length (input s) <? bufsz c.

(** queue.Enqueue: overwrite the oldest when full, count it *)
Definition enqueue (c : config) (r : rec) (s : st) : st :=
  let s := set_enq (enq s ++ [r]) s in
  if length (ring s) <? qcap c then set_ring (ring s ++ [r]) s
  else set_dropped (dropped s ++ firstn 1 (ring s)) (set_ring (skipn 1 (ring s) ++ [r]) s).

(** queue.TryDequeue(buf[:n], EnqueueExport): under the queue lock, hand the n oldest
    records to the buffer exporter; removed only if accepted.  None: blocked on inputMu.
    The boolean is EnqueueExport's answer. *)
Definition handover (c : config) (n : nat) (s : st) : option (st * bool) :=
  let rs := firstn n (ring s) in
  if nilb rs then Some (s, true)
  else if mu s then None
  else if bstopped s then Some (set_lostD (lostD s ++ rs) (set_ring (skipn n (ring s)) s), true)
  else if room c s then Some (set_input (input s ++ [Data rs None]) (set_ring (skipn n (ring s)) s), true)
  else Some (s, false).

Definition step_thread (c : config) (s : st) (t : nat) : option st :=
  match pcs s t with
  | Idle => None
  | E1 r =>
      let s := enqueue c r s in
      let s := set_trigger (trigger s || (maxb c <=? length (ring s))) s in
      Some (retn t (OpEmit r) RNil s)
  | F1 =>
      match handover c (length (ring s)) s with
      | None => None
      | Some (s', true) => Some (goto t (F2 RNil) s')
      | Some (_, false) => Some s
      end
  | F2 e =>
      if mu s then None
      else if bstopped s then Some (retn t OpFlush e s)
      else Some (goto t (F3 e) (set_mu true s))
  | F3 e =>
      if room c s
      then Some (goto t (F4 e (nreq s))
                 (set_mu false (set_nreq (S (nreq s)) (set_input (input s ++ [Sync (nreq s)]) s))))
      else None
  | F4 e id => match ans s id with Some _ => Some (goto t (F5 e) s) | None => None end
  | F5 e => Some (retn t OpFlush e s)
  | S1 => if polldead s then Some (goto t S2 s) else None
  | S2 =>
      let s' := set_held (ring s) (set_ring [] s) in
      if nilb (ring s) then Some (goto t (S5 RNil) s') else Some (goto t S3 s')
  | S3 =>
      if mu s then None
      else if bstopped s
           then Some (goto t (S5 RNil) (set_lostD (lostD s ++ held s) (set_held [] s)))
           else Some (goto t S3h (set_mu true s))
  | S3h =>
      if room c s
      then Some (goto t (S4 (nreq s))
                 (set_mu false (set_nreq (S (nreq s))
                   (set_held [] (set_input (input s ++ [Data (held s) (Some (nreq s))]) s)))))
      else None
  | S4 id =>
      match ans s id with
      | Some ok => Some (goto t (S5 (if ok then RNil else ROther)) s)
      | None => None
      end
  | S5 e =>
      if bstopped s then Some (retn t OpShutdown e s)
      else Some (goto t (S6 e) (set_bstopped true s))
  | S6 e => if mu s then None else Some (goto t (S7 e) (set_closed true s))
  | S7 e => match ex s with XDone => Some (goto t (S8 e) s) | _ => None end
  | S8 e => Some (retn t OpShutdown e (log EvExpShutdown s))
  end.

Definition step_ctx (c : config) (s : st) (t : nat) : option st :=
  match pcs s t with
  | F1 => Some (goto t (F2 RCtx) s)
  | F3 e => Some (retn t OpFlush RCtx (set_mu false s))
  | F4 e _ => Some (retn t OpFlush RCtx s)
  | S1 => Some (goto t (S5 RCtx) s)
  | S3h => Some (goto t (S5 RCtx) (set_mu false (set_lostD (lostD s ++ held s) (set_held [] s))))
  | S4 _ => Some (goto t (S5 RCtx) s)
  | S7 e => Some (goto t (S8 RCtx) s)
  | _ => None
  end.

Definition step_poll (c : config) (s : st) (w : wake) (ready : bool) : option st :=
  if polldead s then None else
  match w with
  | WKill => if pollkill s then Some (set_polldead true s) else None
  | _ =>
      let woke := match w with WTrig => if trigger s then Some (set_trigger false s) else None
                            | _ => Some s end in
      match woke with
      | None => None
      | Some s =>
          let tried := if ready && room c s
                       then match handover c (maxb c) s with Some (s', _) => Some s' | None => None end
                       else Some s in
          match tried with
          | None => None
          | Some s => Some (set_trigger (trigger s || (maxb c <=? length (ring s))) s)
          end
      end
  end.

Definition step (c : config) (s : st) (a : action) : option st :=
  match a with
  | AEmit t b =>
      match pcs s t with
      | Idle =>
          let r := mkrec t (nexts s t) b in
          let s := set_crec (upd (crec s) t b)
                     (set_nexts (upd (nexts s) t (S (nexts s t))) (log (EvCall t (OpEmit r)) s)) in
          if stopped s then Some (retn t (OpEmit r) RNil s) else Some (goto t (E1 r) s)
      | _ => None
      end
  | AMutate t b =>
      match pcs s t with Idle => Some (set_crec (upd (crec s) t b) s) | _ => None end
  | AFlush t =>
      match pcs s t with
      | Idle =>
          let s := log (EvCall t OpFlush) s in
          if stopped s then Some (retn t OpFlush RNil s) else Some (goto t F1 s)
      | _ => None
      end
  | AShutdown t =>
      match pcs s t with
      | Idle =>
          let s := log (EvCall t OpShutdown) s in
          if stopped s then Some (retn t OpShutdown RNil s)
          else Some (goto t S1 (set_pollkill true (set_stopped true s)))
      | _ => None
      end
  | AStep t => step_thread c s t
  | ACtx t => step_ctx c s t
  | APoll w ready => step_poll c s w ready
  | AXTake =>
      match ex s with
      | XIdle =>
          match input s with
          | Data rs resp :: rest =>
              let s := set_input rest s in
              if nilb rs then Some (respond resp true s) else Some (set_ex (XNext rs resp) s)
          | Sync id :: rest => Some (set_ans (upd (ans s) id (Some true)) (set_input rest s))
          | [] => if closed s then Some (set_ex XDone s) else None
          end
      | _ => None
      end
  | AXBegin =>
      match ex s with
      | XNext rs resp =>
          let b := firstn (maxb c) rs in
          Some (log (EvBegin b) (set_ex (XOpen b (skipn (maxb c) rs) resp) s))
      | _ => None
      end
  | AXEnd ok =>
      match ex s with
      | XOpen cur rest resp =>
          let s := log (EvEnd ok) s in
          if ok then
            (if nilb rest then Some (respond resp true (set_ex XIdle s))
             else Some (set_ex (XNext rest resp) s))
          else Some (respond resp false (set_ex XIdle (set_lostE (lostE s ++ rest) s)))
      | _ => None
      end
  end.

Definition init : st :=
  {| ring := []; dropped := []; lostE := []; lostD := []; enq := []; held := [];
     input := []; closed := false; ex := XIdle; hist := [];
     stopped := false; bstopped := false; pollkill := false; polldead := false;
     trigger := false; mu := false;
     ans := fun _ => None; nreq := 0; nexts := fun _ => 0; crec := fun _ => 0;
     pcs := fun _ => Idle |}.

Fixpoint run_from (c : config) (s : st) (sch : list action) : option st :=
  match sch with
  | [] => Some s
  | a :: r => match step c s a with Some s' => run_from c s' r | None => None end
  end.
Definition exec (c : config) (sch : list action) : option st := run_from c init sch.
