(** C06 invariant, layer X: every overwritten record is excused on the history. *)
From Verif Require Import Lib.Base C06.Spec C06.Model C06.Lemmas C06.Inv C06.InvB.
From Coq Require Import Permutation.
Local Open Scope nat_scope.

Definition InvX (c : config) (s : st) : Prop :=
  forall r, In r (dropped s) -> excused c (hist s) r = true.

Lemma invX_init c : InvX c init.
Proof. intros r []. Qed.

Lemma perm_of_cnt s : InvB s ->
  Permutation (enq s) (exported (hist s) ++ dropped s ++ lostE s ++ lostD s ++ pend s).
Proof.
  intro HB. apply (Permutation_count_occ rec_eq_dec). intro x.
  pose proof (b_cnt s HB x) as H. unfold total, cnt in *. unfold pend.
  rewrite !count_occ_app. lia.
Qed.

Lemma excused_mono_app c h evs r : excused c h r = true -> excused c (h ++ evs) r = true.
Proof.
  intro H. induction evs as [|e evs IH] using rev_ind; [now rewrite app_nil_r|].
  rewrite app_assoc. now apply excused_mono.
Qed.

(** at the moment the ring overflows, more than qcap emitted records are not yet exported *)
Lemma overflow_backlog c s t r :
  InvB s -> pcs s t = E1 r -> qcap c <= length (ring s) ->
  length (exported (hist s)) + qcap c + 1 <= length (emitted (hist s)).
Proof.
  intros HB Hp Hfull.
  pose proof (Permutation_length (perm_of_cnt s HB)) as Hl. rewrite !app_length in Hl. unfold pend in Hl.
  rewrite !app_length in Hl.
  assert (Hnd : NoDup (r :: enq s)).
  { constructor; [|apply NoDup_cnt, (b_nodup s HB)].
    intro Hi. destruct (b_e1 s HB t r Hp) as [Ht [_ Hlt]]. specialize (Hlt r Hi Ht). lia. }
  assert (Hincl : incl (r :: enq s) (emitted (hist s))).
  { intros x [<-|Hx]; [eapply b_e1prov; eauto | now apply (b_prov s HB)]. }
  pose proof (NoDup_incl_length Hnd Hincl) as Hle. cbn in Hle. lia.
Qed.

Lemma hist_extends c s a s' : step c s a = Some s' -> exists evs, hist s' = hist s ++ evs.
Proof.
  intro H. destruct a; open_step H; sst'; rewrite <- ?app_assoc; eauto; exists []; now rewrite app_nil_r.
Qed.

Lemma invX_step c s a s' : InvB s -> InvX c s -> step c s a = Some s' -> InvX c s'.
Proof.
  intros HB HX H r Hr.
  destruct (hist_extends _ _ _ _ H) as [evs He].
  assert (Hold : In r (dropped s) -> excused c (hist s') r = true).
  { intro Hi. rewrite He. apply excused_mono_app. now apply HX. }
  destruct a; open_step H; sst'; auto.
  (* the enqueue *)
  unfold enqueue in Hr; cbv zeta in Hr; cbn [ring set_enq] in Hr.
  destruct (length (ring s) <? qcap c) eqn:El; cbn [dropped set_ring set_dropped set_enq] in Hr; [auto|].
  apply in_app_or in Hr as [Hr|Hr]; [auto|].
  apply Nat.ltb_ge in El.
  assert (Hin : In r (ring s)) by (rewrite <- (firstn_skipn 1 (ring s)); apply in_or_app; now left).
  apply excused_now.
  - rewrite emitted_snoc. cbn. rewrite app_nil_r. apply (b_prov s HB).
    apply cnt_In. rewrite (b_cnt s HB r). unfold total. apply cnt_In in Hin. lia.
  - rewrite emitted_snoc, exported_snoc. cbn. rewrite !app_nil_r.
    eapply overflow_backlog; eauto.
Qed.
