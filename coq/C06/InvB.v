(** C06 invariant, layer B: conservation, uniqueness and provenance of records. *)
From Verif Require Import Lib.Base C06.Spec C06.Model C06.Lemmas C06.Inv.
Local Open Scope nat_scope.

(** where an accepted record can be: handed to the exporter, overwritten (counted),
    lost to an exporter error, discarded on a shutdown path, or still pending *)
Definition total (x : rec) (s : st) : nat :=
  cnt x (exported (hist s)) + cnt x (dropped s) + cnt x (lostE s) + cnt x (lostD s) +
  cnt x (xpend (ex s)) + cnt x (input_recs (input s)) + cnt x (held s) + cnt x (ring s).

Record InvB (s : st) : Prop := {
  b_cnt : forall x, cnt x (enq s) = total x s;
  b_nodup : forall x, cnt x (enq s) <= 1;
  b_seq : forall x, In x (enq s) -> r_seq x < nexts s (r_tid x);
  b_e1 : forall t r, pcs s t = E1 r ->
         r_tid r = t /\ r_seq r < nexts s t /\
         (forall x, In x (enq s) -> r_tid x = t -> r_seq x < r_seq r);
  b_prov : forall x, In x (enq s) -> In x (emitted (hist s));
  b_e1prov : forall t r, pcs s t = E1 r -> In r (emitted (hist s))
}.

Lemma invB_init : InvB init.
Proof. constructor; cbn; intros; try lia; try contradiction; try discriminate. Qed.

Lemma enqueue_cnt x c r s :
  cnt x (ring (enqueue c r s)) + cnt x (dropped (enqueue c r s)) =
  cnt x (ring s) + cnt x (dropped s) + cnt x [r].
Proof.
  unfold enqueue; cbv zeta; cbn [ring set_enq].
  destruct (length (ring s) <? qcap c); cbn [ring dropped set_ring set_dropped set_enq];
    rewrite ?cnt_app; [lia|]. pose proof (cnt_split x 1 (ring s)). lia.
Qed.

Lemma input_recs_cons q l : input_recs (q :: l) = req_recs q ++ input_recs l.
Proof. reflexivity. Qed.
Lemma input_recs_nil : input_recs [] = [].
Proof. reflexivity. Qed.

Ltac cnt_tac x :=
  try match goal with |- context [enqueue ?c ?r ?s] => pose proof (enqueue_cnt x c r s) end;
  unfold total in *; sst';
  try match goal with E : nilb _ = true |- _ => apply nilb_true in E; rewrite ?E in * end;
  try match goal with E : ex _ = _ |- _ => rewrite E in * end;
  try match goal with E : input _ = _ |- _ => rewrite E in * end;
  rewrite ?exported_snoc, ?input_recs_app, ?input_recs_cons, ?input_recs_nil, ?cnt_app in *;
  cbn [ev_exported req_recs xpend app] in *;
  rewrite ?app_nil_r, ?cnt_app, ?cnt_nil in *;
  repeat match goal with
  | |- context [firstn ?n ?l] =>
      lazymatch goal with
      | _ : cnt x l = cnt x (firstn n l) + _ |- _ => fail
      | _ => pose proof (cnt_split x n l)
      end
  end;
  try lia.

Lemma invB_cnt c s a s' :
  InvA s -> InvB s -> step c s a = Some s' -> forall x, cnt x (enq s') = total x s'.
Proof.
  intros HA HB H x. pose proof (b_cnt s HB x) as Hc. clear HB.
  assert (Hh : forall t, Sheld (pcs s t) = false -> Sst (pcs s t) = true -> held s = []).
  { intros t H1 H2. destruct (a_heldw s HA) as [|[t0 Ht0]]; [assumption|].
    assert (t = t0) by (apply (a_uniq s HA); [assumption | apply Sheld_Sst, Ht0]). congruence. }
  clear HA.
  destruct a; open_step H.
  all: try solve [cnt_tac x].
  all: try solve [unfold total in *; rewrite (Hh t) in * by (rewrite Heqp; reflexivity); cnt_tac x].
Qed.

Lemma enq_step c s a s' :
  step c s a = Some s' ->
  enq s' = enq s \/ exists t r, pcs s t = E1 r /\ enq s' = enq s ++ [r] /\ nexts s' = nexts s.
Proof.
  intro H. destruct a; open_step H; sst'; auto.
  right. eauto.
Qed.

Lemma invB_rest c s a s' :
  InvA s -> InvB s -> step c s a = Some s' ->
  (forall x, cnt x (enq s') <= 1) /\
  (forall x, In x (enq s') -> r_seq x < nexts s' (r_tid x)) /\
  (forall x, In x (enq s') -> In x (emitted (hist s'))).
Proof.
  intros HA [Bcnt Bnodup Bseq Be1 Bprov Be1prov] H.
  assert (Hemit : forall x, In x (emitted (hist s)) -> In x (emitted (hist s'))).
  { intros x Hx. destruct a; open_step H; sst'; rewrite ?emitted_snoc; repeat (apply in_or_app; left); assumption. }
  assert (Hnx : forall u, nexts s u <= nexts s' u).
  { intro u. destruct a; open_step H; sst'; auto; (unfold upd; destruct (Nat.eqb u t) eqn:E; [apply Nat.eqb_eq in E; subst|]; lia). }
  destruct (enq_step _ _ _ _ H) as [He | [t [r [Hp [He Hn]]]]]; rewrite He.
  - repeat split; auto. intros x Hx. specialize (Bseq x Hx). specialize (Hnx (r_tid x)). lia.
  - destruct (Be1 t r Hp) as [Ht [Hs Hlt]]. repeat split.
    + intro x. rewrite cnt_app, cnt_single. specialize (Bnodup x).
      destruct (rec_eq_dec r x) as [->|]; [|lia].
      assert (~ In x (enq s)) by (intro Hi; specialize (Hlt x Hi Ht); lia).
      apply cnt_notin in H0. lia.
    + intros x Hx. rewrite Hn. apply in_app_or in Hx as [Hx|[<-|[]]]; [auto | now rewrite Ht].
    + intros x Hx. apply Hemit. apply in_app_or in Hx as [Hx|[<-|[]]]; eauto.
Qed.

Lemma invB_e1 c s a s' :
  InvA s -> InvB s -> step c s a = Some s' ->
  forall u r', pcs s' u = E1 r' ->
    (r_tid r' = u /\ r_seq r' < nexts s' u /\
     (forall x, In x (enq s') -> r_tid x = u -> r_seq x < r_seq r')) /\
    In r' (emitted (hist s')).
Proof.
  intros HA HB H u r' Hu.
  destruct (invB_rest _ _ _ _ HA HB H) as [_ [_ _]].
  destruct HB as [Bcnt Bnodup Bseq Be1 Bprov Be1prov].
  assert (Hold : pcs s u = E1 r' -> nexts s' u = nexts s u -> 
                 (enq s' = enq s \/ exists t r, t <> u /\ r_tid r = t /\ enq s' = enq s ++ [r]) ->
                 (forall x, In x (emitted (hist s)) -> In x (emitted (hist s'))) ->
                 (r_tid r' = u /\ r_seq r' < nexts s' u /\
                  (forall x, In x (enq s') -> r_tid x = u -> r_seq x < r_seq r')) /\
                 In r' (emitted (hist s'))).
  { intros Hp Hn He Hm. destruct (Be1 u r' Hp) as [H1 [H2 H3]]. split; [|apply Hm; eauto].
    rewrite Hn. repeat split; auto. intros x Hx Ht.
    destruct He as [He|[t [r [Hne [Hr He]]]]]; rewrite He in Hx; [auto|].
    apply in_app_or in Hx as [Hx|[<-|[]]]; [auto | congruence]. }
  destruct a; open_step H; sst'.
  all: try (upd_cases u t; [try discriminate | ]).
  all: try solve [apply Hold; sst'; rewrite ?emitted_snoc; auto using in_or_app;
                  try (rewrite upd_other by assumption; reflexivity)].
  - inversion Hu; subst r'; clear Hu Hold. cbn. split; [repeat split; auto|].
    + intros x Hx Ht. specialize (Bseq x Hx). rewrite Ht in Bseq. exact Bseq.
    + rewrite emitted_snoc. apply in_or_app; right. cbn. auto.
  - apply Hold; auto.
    + right. exists t, r. repeat split; auto. now destruct (Be1 t r Heqp).
    + intros x Hx. rewrite emitted_snoc. apply in_or_app; now left.
Qed.

Lemma invB_step c s a s' : InvA s -> InvB s -> step c s a = Some s' -> InvB s'.
Proof.
  intros HA HB H.
  destruct (invB_rest _ _ _ _ HA HB H) as [H1 [H2 H3]].
  constructor; auto.
  - eapply invB_cnt; eauto.
  - intros t r Hp. now destruct (invB_e1 _ _ _ _ HA HB H t r Hp).
  - intros t r Hp. now destruct (invB_e1 _ _ _ _ HA HB H t r Hp).
Qed.
