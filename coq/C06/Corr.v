(** C06 correspondence: evaluates model and spec on what the Go harness observed
    (generated case files import this). *)
From Verif Require Import Lib.Base C06.Spec C06.Model.
Local Open Scope nat_scope.

(** ** Deterministic fragment: one driver goroutine (thread 0), a gate exporter.
    The model is run under the EAGER schedule: after every step of the driver the poll
    goroutine (if triggered and the export buffer has room) and the export goroutine run
    until nothing is enabled; a blocked gate keeps the export goroutine inside Export.
    A scripted context expires exactly where the call would otherwise wait. *)
Inductive mode := MOk | MErr | MBlock.
Inductive dop :=
| DEmit | DMutate (b : nat)
| DFlush            (* ForceFlush(Background) *)
| DProbe            (* ForceFlush(scripted context) *)
| DShutdown         (* Shutdown(Background) *)
| DShutdownX        (* Shutdown(scripted context) *)
| DMode (m : mode)
| DRelease (m : mode)   (* the blocked Export returns nil; the gate continues in mode m *)
| DFlushLive (m : mode). (* ForceFlush with a live context while Export is blocked; once the
                            call waits, the blocked Export returns nil and the gate continues in mode m *)

Definition try (c : config) (s : st) (a : action) : option st := step c s a.

Definition settle1 (c : config) (m : mode) (s : st) : option st :=
  let poll :=
    if polldead s then None
    else if pollkill s then try c s (APoll WKill true)
    else if trigger s && room c s && negb (mu s) then try c s (APoll WTrig true)
    else None in
  match poll with
  | Some s' => Some s'
  | None =>
      match ex s with
      | XIdle => try c s AXTake
      | XNext _ _ => try c s AXBegin
      | XOpen _ _ _ => match m with MBlock => None | MOk => try c s (AXEnd true) | MErr => try c s (AXEnd false) end
      | XDone => None
      end
  end.
Fixpoint settle (fuel : nat) (c : config) (m : mode) (s : st) : st :=
  match fuel with
  | 0 => s
  | S f => match settle1 c m s with Some s' => settle f c m s' | None => s end
  end.

Definition can_step (c : config) (s : st) (t : nat) : bool :=
  match pcs s t with
  | F1 => match handover c (length (ring s)) s with Some (_, true) => true | _ => false end
  | _ => match step_thread c s t with Some _ => true | None => false end
  end.
Definition idle (s : st) (t : nat) : bool := match pcs s t with Idle => true | _ => false end.

Definition FUEL := 400.
Fixpoint drive (fuel : nat) (c : config) (m : mode) (scripted : bool) (s : st) : st :=
  match fuel with
  | 0 => s
  | S f =>
      if idle s 0 then s
      else if can_step c s 0
      then match step c s (AStep 0) with
           | Some s' => drive f c m scripted (settle FUEL c m s')
           | None => s
           end
      else if scripted
      then match step c s (ACtx 0) with
           | Some s' => drive f c m scripted (settle FUEL c m s')
           | None => s
           end
      else s
  end.

Definition call (c : config) (m : mode) (scripted : bool) (a : action) (s : st) : st :=
  match step c s a with
  | Some s' => drive FUEL c m scripted (settle FUEL c m s')
  | None => s
  end.

Definition dstep (c : config) (sm : st * mode) (o : dop) : st * mode :=
  let '(s, m) := sm in
  match o with
  | DEmit => (call c m false (AEmit 0 0) s, m)
  | DMutate b => (match step c s (AMutate 0 b) with Some s' => s' | None => s end, m)
  | DFlush => (call c m false (AFlush 0) s, m)
  | DProbe => (call c m true (AFlush 0) s, m)
  | DShutdown => (call c m false (AShutdown 0) s, m)
  | DShutdownX => (call c m true (AShutdown 0) s, m)
  | DMode m' => (settle FUEL c m' s, m')
  | DRelease m' =>
      match step c s (AXEnd true) with
      | Some s' => (settle FUEL c m' s', m')
      | None => (s, m')
      end
  | DFlushLive m' =>
      let s1 := call c m false (AFlush 0) s in
      let s2 := match step c s1 (AXEnd true) with
                | Some x => settle FUEL c m' x
                | None => settle FUEL c m' s1
                end in
      (drive FUEL c m' false s2, m')
  end.
Definition drun (c : config) (p : list dop) : st := fst (fold_left (dstep c) p (init, MOk)).

(** ** What is compared: the exporter's view (order of Begin/End/Shutdown calls with
    batch contents) and the sequence of returns of the driver's calls. *)
Definition is_gate (e : event) : bool :=
  match e with EvBegin _ | EvEnd _ | EvExpShutdown => true | _ => false end.
Definition is_ret (e : event) : bool := match e with EvRet _ _ _ => true | _ => false end.
Definition ret_eqb (a b : ret) : bool :=
  match a, b with RNil, RNil | RCtx, RCtx | ROther, ROther => true | _, _ => false end.
Definition op_eqb (a b : op) : bool :=
  match a, b with
  | OpEmit x, OpEmit y => rec_eqb x y
  | OpFlush, OpFlush | OpShutdown, OpShutdown => true
  | _, _ => false
  end.
Definition event_eqb (a b : event) : bool :=
  match a, b with
  | EvCall t o, EvCall t' o' => Nat.eqb t t' && op_eqb o o'
  | EvRet t o x, EvRet t' o' x' => Nat.eqb t t' && op_eqb o o' && ret_eqb x x'
  | EvBegin l, EvBegin l' => list_eqb rec_eqb l l'
  | EvEnd x, EvEnd y => Bool.eqb x y
  | EvExpShutdown, EvExpShutdown => true
  | _, _ => false
  end.
Definition same_view (h1 h2 : history) : bool :=
  list_eqb event_eqb (filter is_gate h1) (filter is_gate h2) &&
  list_eqb event_eqb (filter is_ret h1) (filter is_ret h2).

(** ** Cases *)
Inductive case :=
| CDet (c : config) (p : list dop) (h : history)      (* program and the recorded history *)
| CFree (c : config) (h : history) (reported : nat).  (* history; sum of logged drop counts *)

Definition flag (b : bool) (code : N) : list N := if b then [] else [code].

(** The literal statement fails.  If the guarded one holds the failure is exactly one of
    the forced hypotheses: name it (known finding k = guard k). *)
Definition judge (c : config) (h : history) : list N :=
  if spec_strict c h then []
  else if spec_ok c h
  then flag (spec_gen (mkg false true true) c h) (V_KNOWN 1)
       ++ flag (spec_gen (mkg true true false) c h) (V_KNOWN 2)
       ++ flag (spec_gen (mkg true false true) c h) (V_KNOWN 3)
  else [V_SPECFAIL].

Definition check_case (x : case) : list N :=
  match x with
  | CDet c p h =>
      let hm := hist (drun c p) in
      flag (same_view hm h) V_MISMATCH ++ judge c h ++ flag (spec_ok c hm) V_MODELSPEC
  | CFree c h reported =>
      judge c h ++ flag (reported + length (exported h) <=? length (emitted h)) V_SPECFAIL
  end.

Definition run (cs : list case) : list (N * N) := index_from 0%N check_case cs.

(** short constructors for generated files *)
Definition rc := mkrec.
Definition eC := EvCall.
Definition eR := EvRet.
Definition eB := EvBegin.
Definition eE := EvEnd.
Definition eS := EvExpShutdown.
Definition oE (t k b : nat) := OpEmit (mkrec t k b).
