(** C06: facts about the vocabulary of Spec.v (no model here). *)
From Verif Require Import Lib.Base C06.Spec.
From Coq Require Import Permutation.
Local Open Scope nat_scope.

(** ** records *)
Lemma rec_eqb_eq a b : rec_eqb a b = true <-> a = b.
Proof.
  destruct a as [t k x], b as [t' k' x']; unfold rec_eqb; cbn. split.
  - intro H. apply andb_true_iff in H as [H H3]. apply andb_true_iff in H as [H1 H2].
    apply Nat.eqb_eq in H1, H2, H3. congruence.
  - intro H; inversion H; subst. now rewrite !Nat.eqb_refl.
Qed.
Lemma rec_eqb_refl a : rec_eqb a a = true.
Proof. now apply rec_eqb_eq. Qed.
Lemma rec_eq_dec (a b : rec) : {a = b} + {a <> b}.
Proof. decide equality; apply Nat.eq_dec. Qed.

Lemma memb_In r l : memb r l = true <-> In r l.
Proof.
  unfold memb. rewrite existsb_exists. split.
  - intros [x [Hx He]]. apply rec_eqb_eq in He. now subst.
  - intro H. exists r. split; [assumption | apply rec_eqb_refl].
Qed.
Lemma memb_false r l : memb r l = false <-> ~ In r l.
Proof.
  split; intro H.
  - intro Hi. apply memb_In in Hi. congruence.
  - destruct (memb r l) eqn:E; [apply memb_In in E; contradiction | reflexivity].
Qed.
Lemma nodupb_NoDup l : nodupb l = true <-> NoDup l.
Proof.
  induction l as [|x l IH]; cbn.
  - split; [constructor | reflexivity].
  - rewrite andb_true_iff, negb_true_iff, memb_false, IH. split.
    + intros [H1 H2]. now constructor.
    + intro H. inversion H; subst. now split.
Qed.

(** ** homomorphisms over append *)
Lemma exported_app h1 h2 : exported (h1 ++ h2) = exported h1 ++ exported h2.
Proof. unfold exported. now rewrite flat_map_app. Qed.
Lemma emitted_app h1 h2 : emitted (h1 ++ h2) = emitted h1 ++ emitted h2.
Proof. unfold emitted. now rewrite flat_map_app. Qed.
Lemma emit_rets_app h1 h2 : emit_rets (h1 ++ h2) = emit_rets h1 ++ emit_rets h2.
Proof. unfold emit_rets. now rewrite flat_map_app. Qed.
Lemma exported_snoc h e : exported (h ++ [e]) = exported h ++ ev_exported e.
Proof. rewrite exported_app. unfold exported at 2. cbn. now rewrite app_nil_r. Qed.
Lemma emitted_snoc h e : emitted (h ++ [e]) = emitted h ++ ev_emitted e.
Proof. rewrite emitted_app. unfold emitted at 2. cbn. now rewrite app_nil_r. Qed.
Lemma emit_rets_snoc h e : emit_rets (h ++ [e]) = emit_rets h ++ ev_emit_ret e.
Proof. rewrite emit_rets_app. unfold emit_rets at 2. cbn. now rewrite app_nil_r. Qed.

Lemma open_export_snoc h e : open_export (h ++ [e]) = open_step (open_export h) e.
Proof. unfold open_export. now rewrite fold_left_app. Qed.
Lemma shut_calls_snoc h e :
  shut_calls (h ++ [e]) = shut_calls h + (if is_shut_call e then 1 else 0).
Proof.
  unfold shut_calls. rewrite filter_app, app_length. cbn. now destruct (is_shut_call e).
Qed.
Lemma has_fail_snoc h e : has_fail (h ++ [e]) = has_fail h || is_fail e.
Proof. unfold has_fail. rewrite existsb_app. cbn. now rewrite orb_false_r. Qed.

(** ** positions *)
Lemma all_from_snoc f pre l e :
  all_from f pre (l ++ [e]) = all_from f pre l && f (pre ++ l) e.
Proof.
  revert pre; induction l as [|x l IH]; intro pre; cbn.
  - now rewrite app_nil_r, andb_true_r.
  - rewrite IH, <- app_assoc. cbn. now rewrite andb_assoc.
Qed.
Lemma all_pos_snoc f h e : all_pos f (h ++ [e]) = all_pos f h && f h e.
Proof. unfold all_pos. now rewrite all_from_snoc. Qed.

(** ** the call in progress *)
Lemma before_call_snoc t h e :
  before_call t (h ++ [e]) = if is_call_of t e then h else before_call t h.
Proof.
  unfold before_call. rewrite rev_app_distr. cbn.
  destruct (is_call_of t e); [apply rev_involutive | reflexivity].
Qed.

(** ** one-pass verdicts: state after one more event *)
Definition sr_run (g : guards) (h : history) := fold_left (sr_step g) h (0, false).
Lemma sr_run_snoc g h e : sr_run g (h ++ [e]) = sr_step g (sr_run g h) e.
Proof. unfold sr_run. now rewrite fold_left_app. Qed.
Lemma sr_run_fst g h : fst (sr_run g h) = shut_calls h.
Proof.
  induction h as [|e h IH] using rev_ind; [reflexivity|].
  rewrite sr_run_snoc, shut_calls_snoc. destruct (sr_run g h) as [n f]. cbn in *. subst.
  destruct (is_shut_call e); lia.
Qed.
Lemma shut_returned_snoc g h e :
  shut_returned g (h ++ [e]) =
  shut_returned g h || (is_shut_nil e && (negb (g_shut g) || (shut_calls h <=? 1))).
Proof.
  unfold shut_returned. fold (sr_run g (h ++ [e])). fold (sr_run g h).
  rewrite sr_run_snoc. pose proof (sr_run_fst g h) as Hf.
  destruct (sr_run g h) as [n f]. cbn in *. now subst.
Qed.

Definition ov_run (h : history) := fold_left ov_step h ([], false).
Lemma ov_run_snoc h e : ov_run (h ++ [e]) = ov_step (ov_run h) e.
Proof. unfold ov_run. now rewrite fold_left_app. Qed.
Lemma overlap_run h : overlap h = snd (ov_run h).
Proof. reflexivity. Qed.
(** the verdict is monotone *)
Lemma ov_step_mono st e : snd st = true -> snd (ov_step st e) = true.
Proof.
  destruct st as [o f]; cbn; intro; subst.
  destruct e as [t [r| |]|t [r| |] x|b|ok|]; cbn; auto.
Qed.

(** ** excused *)
Definition exc_run (c : config) (r : rec) (h : history) := fold_left (exc_step c r) h (false, 0, 0, false).
Lemma exc_run_snoc c r h e : exc_run c r (h ++ [e]) = exc_step c r (exc_run c r h) e.
Proof. unfold exc_run. now rewrite fold_left_app. Qed.
Lemma memb_app r l m : memb r (l ++ m) = memb r l || memb r m.
Proof. unfold memb. apply existsb_app. Qed.
Lemma exc_run_spec c r h :
  exc_run c r h = (memb r (emitted h), length (emitted h), length (exported h), excused c h r).
Proof.
  induction h as [|e h IH] using rev_ind; [reflexivity|].
  unfold excused. fold (exc_run c r (h ++ [e])). rewrite exc_run_snoc.
  unfold excused in IH. fold (exc_run c r h) in IH.
  destruct (exc_run c r h) as [[[seen ne] nx] ok]. inversion IH; subst. cbn [exc_step snd].
  rewrite emitted_snoc, exported_snoc, memb_app, !app_length. reflexivity.
Qed.
Lemma excused_snoc c h e r :
  excused c (h ++ [e]) r =
  excused c h r || (memb r (emitted (h ++ [e])) &&
                    (length (exported (h ++ [e])) + qcap c + 1 <=? length (emitted (h ++ [e])))).
Proof.
  unfold excused at 1. fold (exc_run c r (h ++ [e])). rewrite exc_run_snoc, exc_run_spec.
  cbn [exc_step snd]. rewrite emitted_snoc, exported_snoc, memb_app, !app_length. reflexivity.
Qed.
Lemma excused_mono c h e r : excused c h r = true -> excused c (h ++ [e]) r = true.
Proof. intro H. rewrite excused_snoc, H. reflexivity. Qed.
Lemma excused_now c h e r :
  In r (emitted (h ++ [e])) ->
  length (exported (h ++ [e])) + qcap c + 1 <= length (emitted (h ++ [e])) ->
  excused c (h ++ [e]) r = true.
Proof.
  intros Hi Hl. rewrite excused_snoc. apply orb_true_iff; right.
  apply andb_true_iff; split; [now apply memb_In | now apply Nat.leb_le].
Qed.

(** ** per-goroutine order *)
Definition cross (l m : list rec) : bool := forallb (fun a => forallb (before_ok a) m) l.
Lemma forallb_app' {A} (f : A -> bool) l m : forallb f (l ++ m) = forallb f l && forallb f m.
Proof. induction l; cbn; [reflexivity | now rewrite IHl, andb_assoc]. Qed.
Lemma cross_app_l l1 l2 m : cross (l1 ++ l2) m = cross l1 m && cross l2 m.
Proof. unfold cross. apply forallb_app'. Qed.
Lemma cross_app_r l m1 m2 : cross l (m1 ++ m2) = cross l m1 && cross l m2.
Proof.
  unfold cross. induction l as [|a l IH]; cbn; [reflexivity|].
  rewrite forallb_app', IH.
  destruct (forallb (before_ok a) m1), (forallb (before_ok a) m2),
    (forallb (fun a0 => forallb (before_ok a0) m1) l), (forallb (fun a0 => forallb (before_ok a0) m2) l); reflexivity.
Qed.
Lemma cross_nil_r l : cross l [] = true.
Proof. unfold cross. induction l; cbn; auto. Qed.
Lemma ordered_app l m : ordered (l ++ m) = ordered l && cross l m && ordered m.
Proof.
  induction l as [|a l IH]; [reflexivity|].
  change (ordered ((a :: l) ++ m)) with (forallb (before_ok a) (l ++ m) && ordered (l ++ m)).
  change (ordered (a :: l)) with (forallb (before_ok a) l && ordered l).
  change (cross (a :: l) m) with (forallb (before_ok a) m && cross l m).
  rewrite forallb_app', IH.
  destruct (forallb (before_ok a) l), (forallb (before_ok a) m), (ordered l), (cross l m), (ordered m); reflexivity.
Qed.
Lemma ordered_after_eq l b : ordered_after l b = cross l b && ordered b.
Proof. reflexivity. Qed.
(** removing a segment keeps the order *)
Lemma ordered_remove a m b : ordered (a ++ m ++ b) = true -> ordered (a ++ b) = true.
Proof.
  rewrite !ordered_app, !cross_app_r, !andb_true_iff. tauto.
Qed.
Lemma ordered_snoc l r :
  ordered l = true -> (forall a, In a l -> before_ok a r = true) -> ordered (l ++ [r]) = true.
Proof.
  intros Ho Hc. rewrite ordered_app, Ho. cbn. rewrite andb_true_r.
  unfold cross. apply forallb_forall. intros a Ha. cbn. now rewrite Hc.
Qed.
Lemma before_ok_lt a r : r_tid a = r_tid r -> r_seq a < r_seq r -> before_ok a r = true.
Proof. intros _ H. unfold before_ok. apply orb_true_iff; right. now apply Nat.ltb_lt. Qed.
Lemma before_ok_other a r : r_tid a <> r_tid r -> before_ok a r = true.
Proof.
  intro H. unfold before_ok. apply orb_true_iff; left. apply negb_true_iff. now apply Nat.eqb_neq.
Qed.

(** ** fresh_in from NoDup *)
Lemma fresh_in_spec l b : fresh_in l b = true <-> (forall r, In r b -> ~ In r l) /\ NoDup b.
Proof.
  unfold fresh_in. rewrite andb_true_iff, forallb_forall, nodupb_NoDup. split; intros [H1 H2]; split; auto.
  - intros r Hr. apply memb_false. specialize (H1 r Hr). now apply negb_true_iff in H1.
  - intros r Hr. apply negb_true_iff, memb_false. auto.
Qed.
Lemma NoDup_app_parts {A} (l m : list A) :
  NoDup (l ++ m) -> NoDup l /\ NoDup m /\ (forall x, In x m -> ~ In x l).
Proof.
  induction l as [|a l IH]; cbn; intro H.
  - repeat split; [constructor | assumption | intros x _ []].
  - inversion H as [|? ? Hn Hd]; subst. destruct (IH Hd) as [H1 [H2 H3]].
    repeat split; auto.
    + constructor; [|assumption]. intro Hi. apply Hn. apply in_or_app; now left.
    + intros x Hx [->|Hi]; [apply Hn; apply in_or_app; now right | exact (H3 x Hx Hi)].
Qed.

(** ** counting occurrences (multiset reasoning by arithmetic) *)
Definition cnt (x : rec) (l : list rec) : nat := count_occ rec_eq_dec l x.
Lemma cnt_app x l m : cnt x (l ++ m) = cnt x l + cnt x m.
Proof. apply count_occ_app. Qed.
Lemma cnt_nil x : cnt x [] = 0.
Proof. reflexivity. Qed.
Lemma cnt_split x n l : cnt x l = cnt x (firstn n l) + cnt x (skipn n l).
Proof. rewrite <- cnt_app. now rewrite firstn_skipn. Qed.
Lemma cnt_In x l : In x l <-> 1 <= cnt x l.
Proof. unfold cnt. rewrite (count_occ_In rec_eq_dec). lia. Qed.
Lemma cnt_notin x l : ~ In x l <-> cnt x l = 0.
Proof. unfold cnt. apply count_occ_not_In. Qed.
Lemma NoDup_cnt l : NoDup l <-> forall x, cnt x l <= 1.
Proof. apply NoDup_count_occ. Qed.
Lemma cnt_single x r : cnt x [r] = if rec_eq_dec r x then 1 else 0.
Proof. unfold cnt. cbn. destruct (rec_eq_dec r x); reflexivity. Qed.

Lemma NoDup_app_parts_rev {A} (l m : list A) :
  NoDup l -> NoDup m -> (forall x, In x m -> ~ In x l) -> NoDup (l ++ m).
Proof.
  induction l as [|a l IH]; cbn; intros Hl Hm Hd; [assumption|].
  inversion Hl; subst. constructor.
  - intro Hi. apply in_app_or in Hi as [Hi|Hi]; [contradiction|]. apply (Hd a Hi). now left.
  - apply IH; auto. intros x Hx Hi. apply (Hd x Hx). now right.
Qed.
