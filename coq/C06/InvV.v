(** C06 invariant, layer V: where the records emitted before a ForceFlush / Shutdown
    call are while that call is in progress (visibility). *)
From Verif Require Import Lib.Base C06.Spec C06.Model C06.Lemmas C06.Inv C06.InvB C06.InvE.
Local Open Scope nat_scope.

(** records whose Emit had returned before goroutine t issued its current call *)
Definition P (s : st) (t : nat) : list rec := emit_rets (before_call t (hist s)).

(** records queued in the export buffer ahead of the flush marker id *)
Fixpoint ahead (id : nat) (inp : list req) : list rec :=
  match inp with
  | [] => []
  | Sync j :: l => if Nat.eqb j id then [] else ahead id l
  | Data rs _ :: l => rs ++ ahead id l
  end.
Definition is_sync (id : nat) (q : req) : bool := match q with Sync j => Nat.eqb j id | _ => false end.
Definition sync_in (id : nat) (inp : list req) : bool := existsb (is_sync id) inp.

(** handed to the exporter, overwritten (counted), or cut off by a failed export *)
Definition base (s : st) : list rec := exported (hist s) ++ dropped s ++ lostE s.
Definition Z1 s := base s ++ xpend (ex s) ++ input_recs (input s) ++ held s ++ ring s.
Definition Z2 s := base s ++ xpend (ex s) ++ input_recs (input s) ++ held s.
Definition Z3 s := base s ++ xpend (ex s) ++ input_recs (input s).
Definition Z4 id s := if sync_in id (input s) then base s ++ xpend (ex s) ++ ahead id (input s) else base s.

(** the zone the records of P must be in, by program counter (None: no obligation) *)
Definition place (s : st) (p : pc) : option (list rec) :=
  match p with
  | F1 | S1 | S2 => Some (Z1 s)
  | S3 | S3h => Some (Z2 s)
  | F2 RNil | F3 RNil | S4 _ | S5 RNil | S6 RNil | S7 RNil => Some (Z3 s)
  | F4 RNil id => Some (Z4 id s)
  | F5 RNil | S8 RNil => Some (base s)
  | _ => None
  end.

(** the situations in which the clause is required at all *)
Definition guard (s : st) (t : nat) : Prop :=
  (Fst (pcs s t) = true -> stopped s = false) /\
  (Sst (pcs s t) = true -> shut_calls (hist s) <= 1).

Record InvV (s : st) : Prop := {
  v_place : forall t W, place s (pcs s t) = Some W -> guard s t -> forall r, In r (P s t) -> In r W;
  v_lostE : has_fail (hist s) = false -> lostE s = [];
  v_lostD : stopped s = false -> lostD s = []
}.

Lemma invV_init : InvV init.
Proof. constructor; cbn; intros; auto; discriminate. Qed.

(** ** records only move forward *)
Lemma enqueue_keeps c x s r :
  (In r (ring s) -> In r (ring (enqueue c x s)) \/ In r (dropped (enqueue c x s))) /\
  (In r (dropped s) -> In r (dropped (enqueue c x s))).
Proof.
  unfold enqueue; cbv zeta; cbn [ring set_enq].
  destruct (length (ring s) <? qcap c); cbn [ring dropped set_ring set_dropped set_enq]; split; intro H.
  - left. apply in_or_app; now left.
  - assumption.
  - rewrite <- (firstn_skipn 1 (ring s)) in H. apply in_app_or in H as [H|H].
    + right. apply in_or_app; now right.
    + left. apply in_or_app; now left.
  - apply in_or_app; now left.
Qed.

Lemma in_split_n {A} (r : A) n l : In r l <-> In r (firstn n l) \/ In r (skipn n l).
Proof. rewrite <- in_app_iff. now rewrite firstn_skipn. Qed.

Ltac in_norm :=
  unfold Z1, Z2, Z3, base in *; sst';
  try match goal with E : ex _ = _ |- _ => rewrite E in * end;
  try match goal with E : input _ = _ |- _ => rewrite E in * end;
  try match goal with E : nilb _ = true |- _ => apply nilb_true in E; rewrite ?E in * end;
  rewrite ?exported_snoc, ?input_recs_app, ?input_recs_cons, ?input_recs_nil in *;
  cbn [ev_exported req_recs xpend] in *;
  rewrite ?in_app_iff in *; cbn [In] in *;
  repeat match goal with
  | |- context [firstn ?n ?l] =>
      match goal with H : context [In ?r l] |- _ => rewrite (in_split_n r n l) in H end
  end.

Lemma Z3_mono c s a s' r :
  step c s a = Some s' -> In r (Z3 s) -> In r (Z3 s').
Proof.
  intros H Hi. destruct a; open_step H; in_norm; try tauto.
  all: try (pose proof (enqueue_keeps c r0 s r) as [Hk1 Hk2]; tauto).
Qed.

Lemma base_mono c s a s' r : step c s a = Some s' -> In r (base s) -> In r (base s').
Proof.
  intros H Hi. destruct a; open_step H; in_norm; try tauto.
  all: try (pose proof (enqueue_keeps c r0 s r) as [Hk1 Hk2]; tauto).
Qed.

(** Z1 also counts the ring: nothing leaves it while the buffer exporter is not stopped *)
Lemma Z1_mono c s a s' r :
  step c s a = Some s' -> bstopped s = false -> held s = [] ->
  In r (Z1 s) -> In r (Z1 s').
Proof.
  intros H Hb Hh Hi. destruct a; open_step H; in_norm; rewrite ?Hh in *; cbn [In] in *; try tauto; try congruence.
  all: try (pose proof (enqueue_keeps c r0 s r) as [Hk1 Hk2]; tauto).
Qed.

(** Z2 (the final batch is held by Shutdown): steps of goroutines outside Shutdown *)
Lemma Z2_mono c s a s' r :
  step c s a = Some s' ->
  (forall t, a = AStep t \/ a = ACtx t -> Sst (pcs s t) = false) ->
  In r (Z2 s) -> In r (Z2 s').
Proof.
  intros H Hm Hi.
  destruct a; try (specialize (Hm t (or_introl eq_refl)) || specialize (Hm t (or_intror eq_refl)));
    open_step H; try (rewrite Heqp in Hm; discriminate); in_norm; try tauto.
  all: try (pose proof (enqueue_keeps c r0 s r) as [Hk1 Hk2]; tauto).
Qed.

(** Z4: what is ahead of the flush marker *)
Lemma sync_in_app id l m : sync_in id (l ++ m) = sync_in id l || sync_in id m.
Proof. unfold sync_in. apply existsb_app. Qed.
Lemma ahead_app_in id l m : sync_in id l = true -> ahead id (l ++ m) = ahead id l.
Proof.
  induction l as [|q l IH]; cbn; [discriminate|]. destruct q as [rs resp|j]; cbn.
  - intro H. now rewrite IH.
  - destruct (Nat.eqb j id); [reflexivity|]. cbn. exact IH.
Qed.
Lemma ahead_app_out id l m : sync_in id l = false -> ahead id (l ++ m) = input_recs l ++ ahead id m.
Proof.
  unfold input_recs. induction l as [|q l IH]; cbn; [reflexivity|]. destruct q as [rs resp|j]; cbn.
  - intro H. rewrite IH by assumption. now rewrite app_assoc.
  - destruct (Nat.eqb j id); [discriminate|]. cbn. exact IH.
Qed.

Lemma sync_in_cons id q l : sync_in id (q :: l) = is_sync id q || sync_in id l.
Proof. reflexivity. Qed.
Lemma sync_in_nil id : sync_in id [] = false.
Proof. reflexivity. Qed.
Lemma ahead_cons_data id rs resp l : ahead id (Data rs resp :: l) = rs ++ ahead id l.
Proof. reflexivity. Qed.
Lemma ahead_cons_sync id j l : ahead id (Sync j :: l) = if Nat.eqb j id then [] else ahead id l.
Proof. reflexivity. Qed.
Lemma ahead_nil id : ahead id [] = [].
Proof. reflexivity. Qed.

Lemma Z4_mono c s a s' r id :
  step c s a = Some s' -> In r (Z4 id s) -> In r (Z4 id s').
Proof.
  intros H Hi. unfold Z4 in *.
  destruct a; open_step H; sst';
    try match goal with E : input _ = _ |- _ => rewrite E in * end.
  all: rewrite ?sync_in_app, ?sync_in_cons, ?sync_in_nil, ?ahead_cons_data, ?ahead_cons_sync, ?ahead_nil in *;
       cbn [is_sync orb] in *; rewrite ?orb_false_r in *.
  all: try match goal with Hi : context [sync_in id ?I] |- _ => destruct (sync_in id I) eqn:Es end;
       rewrite ?ahead_app_in by assumption; cbn [orb] in *;
       repeat match goal with
       | |- context [if ?b then _ else _] => destruct b eqn:?
       | H : context [if ?b then _ else _] |- _ => destruct b eqn:?
       end;
       rewrite ?ahead_app_in in * by assumption; rewrite ?ahead_app_out in * by assumption;
       rewrite ?ahead_cons_data, ?ahead_cons_sync, ?ahead_nil in *; try discriminate.
  all: in_norm; try tauto.
  all: try (pose proof (enqueue_keeps c r0 s r) as [Hk1 Hk2]; tauto).
Qed.

(** ** frame facts *)
Lemma has_fail_step c s a s' : step c s a = Some s' -> has_fail (hist s') = false -> has_fail (hist s) = false.
Proof.
  intros H Hf. destruct a; open_step H; sst'; auto;
    repeat (rewrite has_fail_snoc in Hf; apply orb_false_iff in Hf as [Hf _]); assumption.
Qed.
Lemma stopped_step c s a s' : step c s a = Some s' -> stopped s' = false -> stopped s = false.
Proof. intros H Hf. destruct a; open_step H; sst'; auto; discriminate. Qed.
Lemma shut_calls_step c s a s' : step c s a = Some s' -> shut_calls (hist s) <= shut_calls (hist s').
Proof.
  intros H. destruct a; open_step H; sst'; auto; rewrite ?shut_calls_snoc; lia.
Qed.
Lemma P_other c s a s' u :
  step c s a = Some s' ->
  (forall b, a <> AEmit u b) -> a <> AFlush u -> a <> AShutdown u -> P s' u = P s u.
Proof.
  intros H H1 H2 H3. unfold P.
  destruct a; open_step H; sst'; auto; rewrite ?before_call_snoc; cbn [is_call_of]; auto.
  all: destruct (Nat.eqb_spec t u) as [->|]; auto.
  all: try (exfalso; eapply H1; reflexivity); try (exfalso; apply H2; reflexivity); try (exfalso; apply H3; reflexivity).
Qed.

Lemma held_nil_unless s u : InvA s -> Sst (pcs s u) = true -> Sheld (pcs s u) = false -> held s = [].
Proof.
  intros HA H1 H2. destruct (a_heldw s HA) as [|[t0 Ht0]]; [assumption|].
  assert (u = t0) by (apply (a_uniq s HA); [assumption | apply Sheld_Sst, Ht0]). congruence.
Qed.
Lemma held_nil_running s : InvA s -> stopped s = false -> held s = [] /\ bstopped s = false.
Proof.
  intros HA Hs. split.
  - destruct (held s) eqn:E; [reflexivity|]. destruct (a_held s HA); congruence.
  - destruct (bstopped s) eqn:E; [|reflexivity]. pose proof (a_bstop s HA E). congruence.
Qed.

Lemma guard_back c s a s' u :
  step c s a = Some s' -> pcs s' u = pcs s u -> guard s' u -> guard s u.
Proof.
  intros H Hp [G2 G3]. rewrite Hp in *. repeat split.
  - intro Hf. eapply stopped_step; eauto.
  - intro Hs. pose proof (shut_calls_step _ _ _ _ H). specialize (G3 Hs). lia.
Qed.

Lemma nonmover c s a s' u :
  InvA s -> InvV s -> step c s a = Some s' ->
  pcs s' u = pcs s u -> P s' u = P s u ->
  (forall t, a = AStep t \/ a = ACtx t -> t <> u) ->
  forall W', place s' (pcs s' u) = Some W' -> guard s' u -> forall r, In r (P s' u) -> In r W'.
Proof.
  intros HA HV H Hp HP Hm W' Hpl G r Hr.
  pose proof (guard_back _ _ _ _ _ H Hp G) as G0.
  destruct G as [Gs Gc]. rewrite Hp in *. rewrite HP in Hr.
  assert (Hmove : forall t, a = AStep t \/ a = ACtx t -> Sst (pcs s u) = true -> Sst (pcs s t) = false).
  { intros t Ht Hu. destruct (Sst (pcs s t)) eqn:E; [|reflexivity].
    exfalso. apply (Hm t Ht). now apply (a_uniq s HA). }
  pose proof (v_place s HV u) as Hv.
  destruct (pcs s u) eqn:Epc; cbn [place] in *; try discriminate;
    try (destruct e; try discriminate);
    inversion Hpl; subst W'; specialize (Hv _ eq_refl G0 r Hr).
  all: try solve [eapply Z3_mono; eauto].
  all: try solve [eapply Z4_mono; eauto].
  all: try solve [eapply base_mono; eauto].
  all: try solve [eapply Z2_mono; eauto; intros t Ht; apply Hmove; auto].
  - (* F1 *) destruct G0 as [G2 _]. rewrite Epc in G2. specialize (G2 eq_refl).
    destruct (held_nil_running s HA G2). eapply Z1_mono; eauto.
  - (* S1 *) eapply Z1_mono; eauto.
    + apply (a_early s HA u). now rewrite Epc.
    + apply (held_nil_unless s u HA); now rewrite Epc.
  - (* S2 *) eapply Z1_mono; eauto.
    + apply (a_early s HA u). now rewrite Epc.
    + apply (held_nil_unless s u HA); now rewrite Epc.
Qed.

Definition actor (a : action) : option nat :=
  match a with
  | AEmit t _ | AMutate t _ | AFlush t | AShutdown t | AStep t | ACtx t => Some t
  | _ => None
  end.

Lemma pcs_other c s a s' u : step c s a = Some s' -> actor a <> Some u -> pcs s' u = pcs s u.
Proof.
  intros H Ha. destruct a; cbn in Ha; open_step H; sst'; auto;
    rewrite upd_other; auto; congruence.
Qed.

Lemma others_ok c s a s' u :
  InvA s -> InvV s -> step c s a = Some s' -> actor a <> Some u ->
  forall W', place s' (pcs s' u) = Some W' -> guard s' u -> forall r, In r (P s' u) -> In r W'.
Proof.
  intros HA HV H Ha. eapply nonmover; eauto.
  - eapply pcs_other; eauto.
  - eapply P_other; eauto; intros; intro E; subst a; cbn in Ha; congruence.
  - intros t [->| ->]; cbn in Ha; congruence.
Qed.

Lemma in_total_zone s r :
  InvB s -> In r (enq s) -> lostD s = [] -> In r (Z1 s).
Proof.
  intros HB Hi HD. apply cnt_In in Hi. rewrite (b_cnt s HB r) in Hi. unfold total in Hi.
  rewrite HD in Hi. cbn in Hi. unfold Z1, base. apply cnt_In. rewrite !cnt_app. lia.
Qed.

Lemma call_start_zone s r :
  InvB s -> InvE s -> InvV s -> stopped s = false ->
  In r (emit_rets (hist s)) -> In r (Z1 s).
Proof.
  intros HB HE HV Hs Hr. apply in_total_zone; auto.
  - now apply (e_rets s HE).
  - now apply (v_lostD s HV).
Qed.

Lemma sync_in_ids id inp : sync_in id inp = true -> In id (input_ids inp).
Proof.
  unfold sync_in. rewrite existsb_exists. intros [q [Hq Hs]].
  destruct q as [rs resp|j]; cbn in Hs; [discriminate|]. apply Nat.eqb_eq in Hs; subst.
  unfold input_ids. apply in_flat_map. exists (Sync id). split; [assumption | now left].
Qed.
Lemma sync_fresh s : InvE s -> sync_in (nreq s) (input s) = false.
Proof.
  intro HE. destruct (sync_in (nreq s) (input s)) eqn:E; [|reflexivity].
  apply sync_in_ids in E. assert (nreq s < nreq s); [|lia].
  apply (e_ids_lt s HE). unfold pending_ids. apply in_or_app; now right.
Qed.

Lemma mover_ok c s a s' t :
  InvA s -> InvB s -> InvE s -> InvV s -> step c s a = Some s' -> actor a = Some t ->
  forall W', place s' (pcs s' t) = Some W' -> guard s' t -> forall r, In r (P s' t) -> In r W'.
Proof.
  intros HA HB HE HV H Ha W' Hpl G r Hr.
  pose proof (v_place s HV t) as Hv.
  destruct a; cbn in Ha; inversion Ha; subst; clear Ha; open_step H; sst';
    rewrite ?upd_same in *; try rewrite Heqp in Hpl; cbn [place] in *; try discriminate;
    repeat match goal with e : ret |- _ => destruct e; cbn [place] in *; try discriminate end;
    try (inversion Hpl; subst W'; clear Hpl).
  all: try solve [
    unfold guard, P in *; sst'; rewrite ?upd_same in *; try rewrite Heqp in *; cbn [Fst Sst place] in *;
    specialize (Hv _ eq_refl G r Hr); in_norm; tauto].
  all: try solve [
    unfold P in Hr; sst'; rewrite before_call_snoc in Hr; cbn [is_call_of] in Hr; rewrite Nat.eqb_refl in Hr;
    pose proof (call_start_zone s r HB HE HV Heqb Hr) as Hz; in_norm; tauto].
  all: try solve [
    unfold guard, P in *; sst'; rewrite ?upd_same in *; try rewrite Heqp in *; cbn [Fst Sst place] in *;
    specialize (Hv _ eq_refl G r Hr); destruct G as [G2 G3]; specialize (G2 eq_refl);
    destruct (held_nil_running s HA G2) as [Hh Hb];
    rewrite ?firstn_all, ?skipn_all in *; in_norm; rewrite ?Hh in *; cbn [In] in *; try congruence; tauto].
  all: try solve [
    unfold guard, P, Z4 in *; sst'; rewrite ?upd_same in *; try rewrite Heqp in *; cbn [Fst Sst place] in *;
    specialize (Hv _ eq_refl G r Hr);
    rewrite sync_in_app, (sync_fresh s HE), ahead_app_out by (apply (sync_fresh s HE));
    rewrite sync_in_cons, sync_in_nil, ahead_cons_sync, Nat.eqb_refl; cbn [is_sync orb];
    rewrite Nat.eqb_refl; cbn [orb]; in_norm; tauto].
  all: try solve [
    assert (Hsy : sync_in id (input s) = false) by
      (destruct (sync_in id (input s)) eqn:E; [|reflexivity]; apply sync_in_ids in E;
       assert (ans s id = None) by (apply (e_ans_pending s HE); unfold pending_ids; apply in_or_app; now right);
       congruence);
    unfold guard, P, Z4 in *; sst'; rewrite ?upd_same in *; try rewrite Heqp in *; cbn [Fst Sst place] in *;
    specialize (Hv _ eq_refl G r Hr); rewrite Hsy in Hv; in_norm; tauto].
  all: try solve [
    assert (Hh : held s = []) by (apply (held_nil_unless s t HA); rewrite Heqp; reflexivity);
    unfold guard, P in *; sst'; rewrite ?upd_same in *; try rewrite Heqp in *; cbn [Fst Sst place] in *;
    specialize (Hv _ eq_refl G r Hr); in_norm; rewrite ?Hh in *; cbn [In] in *; tauto].
  all: try solve [exfalso; pose proof (a_early s HA t) as He; rewrite Heqp in He; specialize (He eq_refl); congruence].
  destruct (e_done s HE Heqe0) as [Hi _].
  unfold guard, P in *; sst'; rewrite ?upd_same in *; try rewrite Heqp in *; cbn [Fst Sst place] in *.
  specialize (Hv _ eq_refl G r Hr). unfold Z3 in Hv. rewrite Heqe0, Hi in Hv. cbn in Hv.
  rewrite app_nil_r in Hv. exact Hv.
Qed.

Lemma invV_lost c s a s' :
  InvA s -> InvV s -> step c s a = Some s' ->
  (has_fail (hist s') = false -> lostE s' = []) /\ (stopped s' = false -> lostD s' = []).
Proof.
  intros HA [_ VE VD] H.
  pose proof (a_bstop s HA) as Hb. pose proof (a_sst s HA) as Hs.
  split; intro Hg.
  - pose proof (has_fail_step _ _ _ _ H Hg) as Hf. specialize (VE Hf).
    destruct a; open_step H; sst'; auto.
    rewrite has_fail_snoc in Hg. cbn in Hg. rewrite orb_true_r in Hg. discriminate.
  - pose proof (stopped_step _ _ _ _ H Hg) as Hf. specialize (VD Hf).
    destruct a; open_step H; sst'; auto.
    all: try solve [exfalso; specialize (Hb eq_refl); congruence].
    all: try solve [exfalso; specialize (Hb Heqb1); congruence].
    all: try solve [exfalso; specialize (Hb Heqb4); congruence].
    all: try solve [exfalso; specialize (Hs t); rewrite Heqp in Hs; specialize (Hs eq_refl); congruence].
Qed.

Lemma invV_step c s a s' :
  InvA s -> InvB s -> InvE s -> InvV s -> step c s a = Some s' -> InvV s'.
Proof.
  intros HA HB HE HV H. destruct (invV_lost _ _ _ _ HA HV H) as [H1 H2].
  constructor; auto.
  intros t W Hpl G r Hr.
  destruct (actor a) as [u|] eqn:Ea.
  - destruct (Nat.eq_dec u t) as [->|Hn].
    + eapply mover_ok; eauto.
    + eapply others_ok; eauto. congruence.
  - eapply others_ok; eauto. congruence.
Qed.
