(** C06 invariant, layer O: what remains of per-goroutine order when a ForceFlush
    overlaps a Shutdown (F-C06-2): everything exported before the first Shutdown call
    stays ahead of everything exported later. *)
From Verif Require Import Lib.Base C06.Spec C06.Model C06.Lemmas C06.Inv C06.InvB C06.InvC C06.InvV.
Local Open Scope nat_scope.

Definition E0 (s : st) : list rec := exported (before_shut (hist s)).

Definition InvO (s : st) : Prop :=
  forall a x, In a (E0 s) -> In x (seqn s) -> ~ In x (E0 s) -> before_ok a x = true.

Lemma invO_init : InvO init.
Proof. intros a x []. Qed.

Lemma shut_calls_cons e h : shut_calls (e :: h) = (if is_shut_call e then 1 else 0) + shut_calls h.
Proof. unfold shut_calls. cbn. now destruct (is_shut_call e). Qed.
Lemma before_shut_snoc h e :
  before_shut (h ++ [e]) =
  if 1 <=? shut_calls h then before_shut h else if is_shut_call e then h else h ++ [e].
Proof.
  induction h as [|x h IH]; cbn [app before_shut].
  - cbn. now destruct (is_shut_call e).
  - rewrite shut_calls_cons. destruct (is_shut_call x) eqn:Ex; [reflexivity|].
    rewrite IH. cbn [Nat.add]. destruct (1 <=? shut_calls h); [reflexivity|].
    now destruct (is_shut_call e).
Qed.
Lemma before_shut_all h : shut_calls h = 0 -> before_shut h = h.
Proof.
  induction h as [|x h IH]; [reflexivity|]. rewrite shut_calls_cons. cbn [before_shut].
  destruct (is_shut_call x); [discriminate|]. cbn. intro H. now rewrite IH.
Qed.

(** without a Shutdown call nothing overlaps *)
Lemma no_shut_no_overlap h :
  shut_calls h = 0 -> overlap h = false /\ forall t, ~ In (t, false) (opens h).
Proof.
  induction h as [|e h IH] using rev_ind; [cbn; split; [reflexivity | intros t []]|].
  rewrite shut_calls_snoc. intro H.
  assert (Hs : shut_calls h = 0) by lia. assert (He : is_shut_call e = false) by (destruct (is_shut_call e); [lia | reflexivity]).
  destruct (IH Hs) as [Ho Hn]. rewrite overlap_snoc, opens_snoc.
  destruct e as [t [r| |]|t [r| |] x|b|ok|]; try discriminate; cbn; split; auto.
  - rewrite Ho. cbn. destruct (existsb (fun x => negb (snd x)) (opens h)) eqn:E; [|reflexivity].
    apply existsb_exists in E as [[u b] [Hi Hb]]. destruct b; [discriminate|]. exfalso. exact (Hn u Hi).
  - intros u [Hu|Hu]; [discriminate | exact (Hn u Hu)].
  - intros u Hu. apply In_ov_drop in Hu as [Hu _]. exact (Hn u Hu).
  - intros u Hu. apply In_ov_drop in Hu as [Hu _]. exact (Hn u Hu).
Qed.

Lemma E0_step c s a s' :
  step c s a = Some s' -> 1 <= shut_calls (hist s') -> E0 s' = E0 s.
Proof.
  intros H Hs. unfold E0.
  destruct (1 <=? shut_calls (hist s)) eqn:E0s.
  - destruct a; open_step H; sst'; auto; rewrite ?before_shut_snoc, ?shut_calls_snoc, ?E0s; auto;
      apply Nat.leb_le in E0s;
      repeat match goal with |- context [1 <=? ?n] => replace (1 <=? n) with true by (symmetry; apply Nat.leb_le; lia) end; auto.
  - apply Nat.leb_gt in E0s. assert (Hz : shut_calls (hist s) = 0) by lia.
    rewrite (before_shut_all _ Hz).
    destruct a; open_step H; sst'; rewrite ?shut_calls_snoc in Hs; cbn [is_shut_call] in Hs; try lia;
      rewrite ?before_shut_snoc, ?shut_calls_snoc; cbn [is_shut_call];
      repeat match goal with |- context [1 <=? ?n] => 
        first [replace (1 <=? n) with true by (symmetry; apply Nat.leb_le; lia)
              |replace (1 <=? n) with false by (symmetry; apply Nat.leb_gt; lia)] end;
      rewrite ?(before_shut_all _ Hz); auto.
Qed.

Lemma enqueue_from c r s x : In x (ring (enqueue c r s)) -> In x (ring s) \/ x = r.
Proof.
  unfold enqueue; cbv zeta; cbn [ring set_enq].
  destruct (length (ring s) <? qcap c); cbn [ring set_ring set_dropped set_enq]; intro H;
    apply in_app_or in H as [H|[<-|[]]]; auto.
  left. rewrite <- (firstn_skipn 1 (ring s)). apply in_or_app; now right.
Qed.

(** records in the sequence were there before, or are the one being enqueued *)
Lemma seqn_from c s a s' x :
  step c s a = Some s' -> In x (seqn s') -> In x (seqn s) \/ exists t, pcs s t = E1 x.
Proof.
  intros H Hi. unfold seqn, pend in *.
  destruct a; open_step H; sst';
    try match goal with E : ex _ = _ |- _ => rewrite E in * end;
    try match goal with E : input _ = _ |- _ => rewrite E in * end;
    rewrite ?exported_snoc, ?input_recs_app, ?input_recs_cons, ?input_recs_nil in *;
    cbn [ev_exported req_recs xpend] in *;
    rewrite ?in_app_iff in *; cbn [In] in *;
    repeat match goal with
    | H : context [In ?r (firstn ?n ?l)] |- _ =>
        lazymatch goal with | _ : In r (firstn n l) -> In r l |- _ => fail | _ => idtac end;
        assert (In r (firstn n l) -> In r l) by (intro; rewrite (in_split_n r n l); auto);
        assert (In r (skipn n l) -> In r l) by (intro; rewrite (in_split_n r n l); auto)
    end;
    try tauto.
  all: repeat match goal with
    | H : context [In ?r (skipn ?n ?l)] |- _ =>
        lazymatch goal with | _ : In r (skipn n l) -> In r l |- _ => fail | _ => idtac end;
        assert (In r (skipn n l) -> In r l) by (intro; rewrite (in_split_n r n l); auto)
    end; try tauto.
  all: try solve [destruct Hi as [Hi|[Hi|[Hi|[Hi|Hi]]]]; try tauto;
                  apply enqueue_from in Hi as [Hi| ->]; [tauto | right; eauto]].
Qed.

Lemma E0_in_exported s a : In a (E0 s) -> In a (exported (hist s)).
Proof.
  unfold E0. generalize (hist s). intro h. induction h as [|e h IH]; cbn [before_shut]; [auto|].
  destruct (is_shut_call e); [intros []|]. unfold exported in *. cbn [flat_map].
  rewrite !in_app_iff. tauto.
Qed.

Lemma invO_step c s a s' :
  InvA s -> InvB s -> InvC s' -> InvO s -> step c s a = Some s' -> InvO s'.
Proof.
  intros HA HB HC' HO H p x Hp Hx Hn.
  destruct (1 <=? shut_calls (hist s')) eqn:Es.
  - apply Nat.leb_le in Es. rewrite (E0_step _ _ _ _ H Es) in *.
    destruct (seqn_from _ _ _ _ _ H Hx) as [Hx0|[t Ht]]; [now apply HO|].
    eapply newer_than_all; eauto. apply seqn_in_enq; [assumption|].
    apply E0_in_exported in Hp. unfold seqn, pend in *. apply in_or_app; now left.
  - apply Nat.leb_gt in Es. assert (Hz : shut_calls (hist s') = 0) by lia.
    unfold E0 in *. rewrite (before_shut_all _ Hz) in *.
    destruct (no_shut_no_overlap _ Hz) as [Ho _]. pose proof (c_ord s' HC' Ho) as Hord.
    unfold seqn in *. rewrite ordered_app in Hord.
    apply andb_true_iff in Hord as [Hord _]. apply andb_true_iff in Hord as [_ Hcr].
    apply in_app_or in Hx as [Hx|Hx]; [contradiction|].
    unfold cross in Hcr. rewrite forallb_forall in Hcr. specialize (Hcr p Hp).
    rewrite forallb_forall in Hcr. now apply Hcr.
Qed.

(** the clause at the moment Export is entered *)
Lemma all_before_holds c s rs resp :
  InvB s -> InvO s -> ex s = XNext rs resp ->
  all_before (exported (before_shut (hist s))) (firstn (maxb c) rs) = true.
Proof.
  intros HB HO He. unfold all_before. apply forallb_forall. intros a Ha.
  apply forallb_forall. intros x Hx. apply HO; [exact Ha | |].
  - unfold seqn, pend. rewrite He. cbn [xpend]. apply in_or_app; right. apply in_or_app; left.
    rewrite (in_split_n x (maxb c) rs). now left.
  - intro Hin. apply E0_in_exported in Hin.
    assert (Hrs : In x rs) by (rewrite (in_split_n x (maxb c) rs); now left).
    pose proof (b_nodup s HB x) as Hn. rewrite (b_cnt s HB x) in Hn. unfold total in Hn.
    rewrite He in Hn. cbn [xpend] in Hn. apply cnt_In in Hin, Hrs. lia.
Qed.
