(** C08 specification: delta and cumulative views of the same measurements agree.

    Written against the property text, in terms of what a user does (a history
    of measurements, callback registrations and collections) and what the two
    readers show (per collection and per instrument: start time, time and the
    data points sorted by attribute set).  Nothing here refers to aggregators.

    Vocabulary
      - an attribute set is a canonical key ([N]); a data point value is a
        vector: [[v]] for sums and gauges, [[sum; count; bucket counts...]]
        for histograms (so "count, sum and per-bucket counts" are the components);
      - a history is a list of [op]; [Collect who script failing] is one collection point at
        which both readers (who = 0), only the delta reader (1) or only the cumulative reader (2)
        collect; who = 3, 4, 5: the same with a context that is already cancelled; [failing] lists the callbacks that return an error in this
        cycle (after making their observations); [script] lists what each callback would observe
        if it were invoked in that cycle (callback id, instrument, attribute set, value),
        in the callback's own order;
      - instants are compared only by order and equality.                       *)
From Verif Require Import Lib.Base.
Open Scope Z_scope.

Definition inst := nat.
Definition cbid := N.
Definition skey := N.
Definition svec := list Z.
Definition points := list (skey * svec).
(** one stream in one collection: (start, time, points); no points = stream not reported *)
Definition sobs := (N * N * points)%type.
Definition s_start (o : sobs) : N := fst (fst o).
Definition s_time (o : sobs) : N := snd (fst o).
Definition s_points (o : sobs) : points := snd o.
Definition s_reported (o : sobs) : bool := match s_points o with [] => false | _ => true end.
Definition dflt : sobs := (0%N, 0%N, []).

Definition attempt := (cbid * inst * skey * Z)%type.
Definition at_cb (a : attempt) : cbid := fst (fst (fst a)).
Definition at_inst (a : attempt) : inst := snd (fst (fst a)).
Definition at_key (a : attempt) : skey := snd (fst a).
Definition at_val (a : attempt) : Z := snd a.

Inductive op :=
| Measure (i : inst) (k : skey) (v : Z)        (* synchronous Add / Record *)
| Register (c : cbid) (insts : list inst)     (* Meter.RegisterCallback(c, insts...) *)
| Unregister (c : cbid)                       (* Registration.Unregister *)
| Collect (who : N) (script : list attempt) (failing : list cbid).

(** does a collection point involve the delta reader ([dl = true]) / the cumulative reader *)
Definition includes (who : N) (dl : bool) : bool :=
  if (who mod 3 =? 0)%N then true else if (who mod 3 =? 1)%N then dl else negb dl.
(** the Collect call is made with a context that is already cancelled *)
Definition cancelled (who : N) : bool := (3 <=? who)%N.
(** the reader takes part and the collection goes through *)
Definition collects_ok (who : N) (dl : bool) : bool := includes who dl && negb (cancelled who).

(** ** Input side: which recorded values belong to which cycle (of which reader) *)

(** registrations in force, in registration order *)
Definition reg := (cbid * list inst)%type.
Definition reg_step (rs : list reg) (o : op) : list reg :=
  match o with
  | Register c insts => rs ++ [(c, insts)]
  | Unregister c => filter (fun r => negb (fst r =? c)%N) rs
  | _ => rs
  end.

(** observations of one cycle that reach instrument [i]: every registered callback,
    in registration order, its own attempts in its own order, only for instruments it
    was registered with *)
Definition delivered (rs : list reg) (script : list attempt) (i : inst) : list (skey * Z) :=
  flat_map (fun r =>
              if existsb (Nat.eqb i) (snd r)
              then map (fun a => (at_key a, at_val a))
                       (filter (fun a => (at_cb a =? fst r)%N && Nat.eqb (at_inst a) i) script)
              else []) rs.

(** pipeline.produce looks at the context only between callbacks: with no callback registered a
    Collect with a cancelled context is an ordinary, successful Collect.  [normalize] rewrites those
    (the registrations are the same for every reader); in a normalized history a cancelled
    collection always has at least one callback registered: it returns the context's error and no
    data, and must not consume anything. *)
Fixpoint normalize (h : list op) (rs : list reg) : list op :=
  match h with
  | [] => []
  | Collect w s f :: r =>
      Collect (match rs with [] => (w mod 3)%N | _ => w end) s f :: normalize r rs
  | o :: r => o :: normalize r (reg_step rs o)
  end.

(** synchronous instrument [i]: the measurements between two successful collections *)
Fixpoint cycles_sync (dl : bool) (i : inst) (h : list op) (cur : list (skey * Z)) : list (list (skey * Z)) :=
  match h with
  | [] => []
  | Measure i' k v :: r => cycles_sync dl i r (if Nat.eqb i' i then cur ++ [(k, v)] else cur)
  | Collect w _ _ :: r => if collects_ok w dl then cur :: cycles_sync dl i r [] else cycles_sync dl i r cur
  | _ :: r => cycles_sync dl i r cur
  end.

(** asynchronous instrument [i]: the observations delivered during each collection *)
Fixpoint cycles_async (dl : bool) (i : inst) (h : list op) (rs : list reg) : list (list (skey * Z)) :=
  match h with
  | [] => []
  | Collect w s _ :: r => if collects_ok w dl then delivered rs s i :: cycles_async dl i r rs else cycles_async dl i r rs
  | o :: r => cycles_async dl i r (reg_step rs o)
  end.

(** What the code does today (finding F-C08-1): a collection with a cancelled context runs the FIRST
    registered callback before it notices, and what that callback observed stays in the aggregators
    of this reader and is counted into its next successful cycle.  [carry] = those leftovers. *)
Fixpoint cycles_async_leaky (dl : bool) (i : inst) (h : list op) (rs : list reg) (carry : list (skey * Z))
  : list (list (skey * Z)) :=
  match h with
  | [] => []
  | Collect w s _ :: r =>
      if includes w dl
      then if cancelled w then cycles_async_leaky dl i r rs (carry ++ delivered (firstn 1 rs) s i)
           else (carry ++ delivered rs s i) :: cycles_async_leaky dl i r rs []
      else cycles_async_leaky dl i r rs carry
  | o :: r => cycles_async_leaky dl i r (reg_step rs o) carry
  end.
(** no collection of this reader is made with a cancelled context (while callbacks are registered) *)
Definition calm (dl : bool) (h : list op) : bool :=
  forallb (fun o => match o with Collect w _ _ => negb (includes w dl && cancelled w) | _ => true end) h.

(** does Collect report an error in a cycle: exactly when a registered callback failed.  The
    observations of that cycle - those of the failing callback included - are reported all the
    same, and nothing of the cycle is left over for the next one (the clauses below do not
    mention [failing] at all). *)
Definition cycle_err (rs : list reg) (failing : list cbid) : bool :=
  existsb (fun r => existsb (N.eqb (fst r)) failing) rs.
Fixpoint errs_of (dl : bool) (h : list op) (rs : list reg) : list bool :=
  match h with
  | [] => []
  | Collect w _ f :: r => if includes w dl then (cancelled w || cycle_err rs f) :: errs_of dl r rs else errs_of dl r rs
  | o :: r => errs_of dl r (reg_step rs o)
  end.

(** the points at which both readers collect: (index of that collection among the delta reader's,
    index among the cumulative reader's) *)
Fixpoint sync_points (h : list op) (nd nc : nat) : list (nat * nat) :=
  match h with
  | [] => []
  | Collect w _ _ :: r =>
      if (w =? 0)%N then (nd, nc) :: sync_points r (S nd) (S nc)
      else if (w =? 1)%N then sync_points r (S nd) nc
      else if (w =? 2)%N then sync_points r nd (S nc)
      else sync_points r nd nc
  | _ :: r => sync_points r nd nc
  end.

(** value of a cycle for one attribute set: several recordings of the same set in
    one cycle accumulate for sums, the last one wins for gauges *)
Fixpoint cyc_total (k : skey) (c : list (skey * Z)) : option Z :=
  match c with
  | [] => None
  | (k', v) :: r =>
      if (k' =? k)%N then Some (v + match cyc_total k r with Some s => s | None => 0 end)
      else cyc_total k r
  end.
Fixpoint cyc_last (k : skey) (c : list (skey * Z)) : option Z :=
  match c with
  | [] => None
  | (k', v) :: r =>
      match cyc_last k r with
      | Some x => Some x
      | None => if (k' =? k)%N then Some v else None
      end
  end.
Definition one (z : option Z) : option svec := option_map (fun x => [x]) z.

(** ** Observation side *)
Fixpoint pget (k : skey) (p : points) : option svec :=
  match p with
  | [] => None
  | (k', v) :: r => if (k =? k')%N then Some v else pget k r
  end.
Fixpoint psorted (p : points) : bool :=
  match p with
  | [] => true
  | (k, _) :: r => match r with [] => true | (k', _) :: _ => (k <? k')%N && psorted r end
  end.

Fixpoint vplus (a b : svec) : svec :=
  match a, b with
  | [], _ => b
  | _, [] => a
  | x :: a', y :: b' => (x + y) :: vplus a' b'
  end.
Definition oplus (a b : option svec) : option svec :=
  match a, b with
  | None, x => x
  | x, None => x
  | Some u, Some v => Some (vplus u v)
  end.

(** running total of the delta values reported so far for attribute set [k] *)
Definition running_from (acc : option svec) (k : skey) (ds : list points) : option svec :=
  fold_left (fun acc p => oplus acc (pget k p)) ds acc.
Definition running := running_from None.

(** Clause 1: at every point where both readers collect, every cumulative value equals the running
    total of the delta values reported so far for that attribute set (and a set is in the
    cumulative view exactly when some delta collection so far reported it).  The readers may
    collect on their own in between, any number of times. *)
Definition RunningDelta (sync : list (nat * nat)) (dtr ctr : list points) : Prop :=
  forall nd nc k, In (nd, nc) sync -> pget k (nth nc ctr []) = running k (firstn (S nd) dtr).

(** Clause 2: delta points cover adjacent intervals, cumulative points keep one start,
    start never exceeds time.  Stated on the full trace of a stream (one entry per
    collection, also for collections in which the stream had no points). *)
Definition Adjacent (tr : list sobs) : Prop :=
  forall n, (S n < length tr)%nat -> s_start (nth (S n) tr dflt) = s_time (nth n tr dflt).
Definition StartFixed (tr : list sobs) : Prop :=
  forall n m, (n < length tr)%nat -> (m < length tr)%nat -> s_start (nth n tr dflt) = s_start (nth m tr dflt).
Definition StartLeTime (tr : list sobs) : Prop :=
  forall n, (n < length tr)%nat -> (s_start (nth n tr dflt) <= s_time (nth n tr dflt))%N.
Definition AllSorted (tr : list sobs) : Prop :=
  forall n, (n < length tr)%nat -> psorted (s_points (nth n tr dflt)) = true.

(** Clause 3 (asynchronous sums): each cycle reports exactly the observed sets; the
    cumulative view shows the observed value, the delta view the observed value minus
    the value observed in the preceding cycle (zero if it was not observed then). *)
Definition prev_total (k : skey) (cycles : list (list (skey * Z))) (n : nat) : Z :=
  match n with
  | O => 0
  | S m => match cyc_total k (nth m cycles []) with Some y => y | None => 0 end
  end.
Definition AsyncCum (cycles : list (list (skey * Z))) (tr : list points) : Prop :=
  length tr = length cycles /\
  forall n k, (n < length cycles)%nat -> pget k (nth n tr []) = one (cyc_total k (nth n cycles [])).
Definition AsyncDelta (cycles : list (list (skey * Z))) (tr : list points) : Prop :=
  length tr = length cycles /\
  forall n k, (n < length cycles)%nat ->
    pget k (nth n tr []) = one (option_map (fun x => x - prev_total k cycles n) (cyc_total k (nth n cycles []))).

(** Clause 4 (gauges): the last value recorded in the cycle, for exactly the sets
    recorded in the cycle.  A synchronous gauge read with cumulative temporality keeps
    every set it has seen and shows its last value so far (for a set recorded in the
    cycle that is the last value recorded in the cycle). *)
Definition GaugeCycle (cycles : list (list (skey * Z))) (tr : list points) : Prop :=
  length tr = length cycles /\
  forall n k, (n < length cycles)%nat -> pget k (nth n tr []) = one (cyc_last k (nth n cycles [])).
Definition GaugeSoFar (cycles : list (list (skey * Z))) (tr : list points) : Prop :=
  length tr = length cycles /\
  forall n k, (n < length cycles)%nat -> pget k (nth n tr []) = one (cyc_last k (concat (firstn (S n) cycles))).

(** ** Decidable versions, evaluated on what the implementation reported *)
Definition ovec_eqb (a b : option svec) : bool := option_eqb (list_eqb Z.eqb) a b.
Definition keys_of (p : points) : list skey := map fst p.
Definition ckeys (c : list (skey * Z)) : list skey := map fst c.

(** running totals kept as an (unsorted) association list *)
Fixpoint padd (k : skey) (v : svec) (acc : points) : points :=
  match acc with
  | [] => [(k, v)]
  | (k', u) :: r => if (k =? k')%N then (k', vplus u v) :: r else (k', u) :: padd k v r
  end.
Definition pmerge (acc d : points) : points := fold_left (fun a kv => padd (fst kv) (snd kv) a) d acc.
Definition same_points (a b : points) : bool :=
  forallb (fun k => ovec_eqb (pget k a) (pget k b)) (keys_of a ++ keys_of b).

Definition running_deltab (sync : list (nat * nat)) (dtr ctr : list points) : bool :=
  forallb (fun p => (fst p <? length dtr)%nat && (snd p <? length ctr)%nat &&
                    same_points (nth (snd p) ctr []) (fold_left pmerge (firstn (S (fst p)) dtr) []))
          sync.

(** expected-value checks: for every key in the points or in the cycle *)
Definition expect_points (p : points) (ks : list skey) (f : skey -> option svec) : bool :=
  psorted p && forallb (fun k => ovec_eqb (pget k p) (f k)) (keys_of p ++ ks).

Fixpoint async_cumb (cycles : list (list (skey * Z))) (tr : list points) : bool :=
  match cycles, tr with
  | [], [] => true
  | c :: cr, p :: pr => expect_points p (ckeys c) (fun k => one (cyc_total k c)) && async_cumb cr pr
  | _, _ => false
  end.
Fixpoint async_deltab (prev : list (skey * Z)) (cycles : list (list (skey * Z))) (tr : list points) : bool :=
  match cycles, tr with
  | [], [] => true
  | c :: cr, p :: pr =>
      expect_points p (ckeys c)
        (fun k => one (option_map (fun x => x - match cyc_total k prev with Some y => y | None => 0 end) (cyc_total k c)))
      && async_deltab c cr pr
  | _, _ => false
  end.
Fixpoint gauge_cycleb (cycles : list (list (skey * Z))) (tr : list points) : bool :=
  match cycles, tr with
  | [], [] => true
  | c :: cr, p :: pr => expect_points p (ckeys c) (fun k => one (cyc_last k c)) && gauge_cycleb cr pr
  | _, _ => false
  end.
Fixpoint gauge_sofarb (sofar : list (skey * Z)) (cycles : list (list (skey * Z))) (tr : list points) : bool :=
  match cycles, tr with
  | [], [] => true
  | c :: cr, p :: pr =>
      let all := sofar ++ c in
      expect_points p (ckeys all) (fun k => one (cyc_last k all)) && gauge_sofarb all cr pr
  | _, _ => false
  end.

(** times, on the observable part of a trace: only collections that reported points
    carry instants.  [prev] = time of the immediately preceding collection when it
    reported, [lastT] = time of the last collection that reported. *)
Fixpoint adjacent_obs (prev : option N) (lastT : N) (tr : list sobs) : bool :=
  match tr with
  | [] => true
  | o :: r =>
      if s_reported o
      then (match prev with Some t => (s_start o =? t)%N | None => (lastT <=? s_start o)%N end)
           && adjacent_obs (Some (s_time o)) (s_time o) r
      else adjacent_obs None lastT r
  end.
Fixpoint fixed_obs (s0 : option N) (lastT : N) (tr : list sobs) : bool :=
  match tr with
  | [] => true
  | o :: r =>
      if s_reported o
      then (match s0 with Some s => (s_start o =? s)%N | None => true end) && (lastT <=? s_time o)%N
           && fixed_obs (Some (s_start o)) (s_time o) r
      else fixed_obs s0 lastT r
  end.
Definition start_le_time_obs (tr : list sobs) : bool :=
  forallb (fun o => negb (s_reported o) || (s_start o <=? s_time o)%N) tr.

(** the four kinds of stream the property distinguishes *)
Inductive sclass := CSyncAdd | CSyncGauge | CAsyncSum | CAsyncGauge.

Definition stream_ok (leaky : bool) (cl : sclass) (i : inst) (h0 : list op) (dtr ctr : list sobs) : bool :=
  let h := normalize h0 [] in
  let cyca := fun dl => if leaky then cycles_async_leaky dl i h [] [] else cycles_async dl i h [] in
  let dp := map s_points dtr in
  let cp := map s_points ctr in
  adjacent_obs None 0%N dtr && fixed_obs None 0%N ctr &&
  start_le_time_obs dtr && start_le_time_obs ctr &&
  forallb psorted dp && forallb psorted cp &&
  match cl with
  | CSyncAdd => running_deltab (sync_points h 0 0) dp cp
  | CSyncGauge => gauge_cycleb (cycles_sync true i h []) dp && gauge_sofarb [] (cycles_sync false i h []) cp
  | CAsyncSum => async_deltab [] (cyca true) dp && async_cumb (cyca false) cp
  | CAsyncGauge => gauge_cycleb (cyca true) dp && gauge_cycleb (cyca false) cp
  end.

(** ** Base-2 exponential histograms that rescale (small MaxSize): scale-independent clauses

    A data point: attribute set, scale, sum, count, zero count, positive and negative buckets as
    (index, count) pairs.  Delta and cumulative points of the same measurements generally have
    different scales (the cumulative point has seen a wider range), so buckets are compared after
    shifting the finer one down: an index i at scale s becomes i >> (s - s') at scale s' <= s. *)
Definition ebuckets := list (Z * Z).
Record epoint := { e_key : skey; e_scale : Z; e_sum : Z; e_count : Z; e_zero : Z; e_pos : ebuckets; e_neg : ebuckets }.

Definition bsum (b : ebuckets) : Z := fold_right (fun ic s => snd ic + s) 0 b.
(** count at index [i] of buckets [b] shifted down by [d] *)
Definition bshift_count (d i : Z) (b : ebuckets) : Z :=
  fold_right (fun ic s => (if Z.shiftr (fst ic) d =? i then snd ic else 0) + s) 0 b.

(** every count is in exactly one place *)
Definition epoint_counts_ok (p : epoint) : bool :=
  e_count p =? e_zero p + bsum (e_pos p) + bsum (e_neg p).
Definition epoint_ok (p : epoint) : bool :=
  (0 <=? e_zero p) && (0 <? e_count p) && forallb (fun ic => 0 <? snd ic) (e_pos p ++ e_neg p).

(** Which magnitudes a point has been fed, as a bit set: 1 = positive <= 1, 2 = positive > 1,
    4 = negative of magnitude <= 1, 8 = negative of magnitude > 1.  At the minimum scale -10 there
    are two buckets per sign, (0, 1] and (1, oo): with MaxSize 1 the values of one sign fit only if
    they are all on one side of 1.  When they do not fit, the code counts a value it cannot bucket
    (finding F-C07-1 of property C07) and stops rescaling that point, so its scale may stay above
    the scale of a later delta point; the bucket and scale-order clauses are then not applied here -
    count, sum, zero-count clauses and "the cumulative scale never rises" always are. *)
Definition fits (maxsize flags : N) : bool :=
  (2 <=? maxsize)%N ||
  negb ((N.testbit flags 0 && N.testbit flags 1) || (N.testbit flags 2 && N.testbit flags 3)).
Definition key_flags (k : skey) (m : list (skey * Z * N)) : N :=
  fold_right (fun x f => if (fst (fst x) =? k)%N then N.lor (snd x) f else f) 0%N m.

Fixpoint ekeys_sorted (ps : list epoint) : bool :=
  match ps with
  | [] => true
  | p :: r => match r with [] => true | q :: _ => (e_key p <? e_key q)%N && ekeys_sorted r end
  end.

Definition esum (f : epoint -> Z) (ps : list epoint) : Z := fold_right (fun p s => f p + s) 0 ps.

(** cumulative point [c] against all delta points [ds] reported so far for its attribute set *)
Definition cum_vs_deltas (buckets : bool) (c : epoint) (ds : list epoint) : bool :=
  match ds with [] => false | _ => true end &&
  (e_count c =? esum e_count ds) && (e_sum c =? esum e_sum ds) && (e_zero c =? esum e_zero ds) &&
  (negb buckets ||
   forallb (fun d => e_scale c <=? e_scale d) ds &&
   let side (sel : epoint -> ebuckets) :=
     let idxs := map fst (sel c) ++ flat_map (fun d => map (fun ic => Z.shiftr (fst ic) (e_scale d - e_scale c)) (sel d)) ds in
     forallb (fun i => bshift_count 0 i (sel c) =? esum (fun d => bshift_count (e_scale d - e_scale c) i (sel d)) ds) idxs in
   side e_pos && side e_neg).

Definition key_count (k : skey) (m : list (skey * Z * N)) : Z :=
  fold_right (fun x s => (if (fst (fst x) =? k)%N then snd (fst x) else 0) + s) 0 m.

(** [meas]: per cycle and attribute set, how many values were recorded and which magnitudes
    ([key_flags]); [obs]: per cycle, the points of the delta reader and of the cumulative reader;
    [hist]: all delta points so far; [prevc]: the cumulative points of the previous cycle;
    [seen]: everything recorded so far. *)
Fixpoint expo_run (maxsize : N) (hist prevc : list epoint) (seen : list (skey * Z * N))
         (meas : list (list (skey * Z * N))) (obs : list (list epoint * list epoint)) : bool :=
  match meas, obs with
  | [], [] => true
  | m :: mr, (dp, cp) :: or_ =>
      let hist' := hist ++ dp in
      let seen' := seen ++ m in
      ekeys_sorted dp && ekeys_sorted cp && forallb epoint_ok dp && forallb epoint_ok cp &&
      forallb (fun p => negb (fits maxsize (key_flags (e_key p) m)) || epoint_counts_ok p) dp &&
      forallb (fun p => negb (fits maxsize (key_flags (e_key p) seen')) || epoint_counts_ok p) cp &&
      (* the delta view shows exactly the cycle: one point per recorded set, counting every value *)
      forallb (fun k => esum e_count (filter (fun p => (e_key p =? k)%N) dp) =? key_count k m) (map e_key dp ++ map (fun x => fst (fst x)) m) &&
      (* cumulative = running total of the deltas; bucket-wise after aligning scales when everything fits *)
      forallb (fun c => cum_vs_deltas (fits maxsize (key_flags (e_key c) seen')) c (filter (fun p => (e_key p =? e_key c)%N) hist')) cp &&
      forallb (fun d => existsb (fun c => (e_key c =? e_key d)%N) cp) hist' &&
      (* the scale of a cumulative point never goes back up *)
      forallb (fun c => forallb (fun pc => negb (e_key pc =? e_key c)%N || (e_scale c <=? e_scale pc)) prevc) cp &&
      expo_run maxsize hist' cp seen' mr or_
  | _, _ => false
  end.
Definition expo_ok (maxsize : N) (meas : list (list (skey * Z * N))) (obs : list (list epoint * list epoint)) : bool :=
  expo_run maxsize [] [] [] meas obs.

(** Prop readings of the exponential clauses (what [expo_ok] decides) *)
Definition CumVsDeltas (buckets : bool) (c : epoint) (ds : list epoint) : Prop :=
  ds <> [] /\ e_count c = esum e_count ds /\ e_sum c = esum e_sum ds /\ e_zero c = esum e_zero ds /\
  (buckets = true ->
     (forall d, In d ds -> e_scale c <= e_scale d) /\
     forall i, bshift_count 0 i (e_pos c) = esum (fun d => bshift_count (e_scale d - e_scale c) i (e_pos d)) ds /\
               bshift_count 0 i (e_neg c) = esum (fun d => bshift_count (e_scale d - e_scale c) i (e_neg d)) ds).

Definition for_key (k : skey) (ps : list epoint) : list epoint := filter (fun p => (e_key p =? k)%N) ps.

Fixpoint ExpoRun (maxsize : N) (hist prevc : list epoint) (seen : list (skey * Z * N))
         (meas : list (list (skey * Z * N))) (obs : list (list epoint * list epoint)) : Prop :=
  match meas, obs with
  | [], [] => True
  | m :: mr, (dp, cp) :: or_ =>
      let hist' := hist ++ dp in
      let seen' := seen ++ m in
      (forall p, In p dp -> fits maxsize (key_flags (e_key p) m) = true -> e_count p = e_zero p + bsum (e_pos p) + bsum (e_neg p)) /\
      (forall p, In p cp -> fits maxsize (key_flags (e_key p) seen') = true -> e_count p = e_zero p + bsum (e_pos p) + bsum (e_neg p)) /\
      (forall p, In p dp -> esum e_count (for_key (e_key p) dp) = key_count (e_key p) m) /\
      (forall c, In c cp -> CumVsDeltas (fits maxsize (key_flags (e_key c) seen')) c (for_key (e_key c) hist')) /\
      (forall d, In d hist' -> exists c, In c cp /\ e_key c = e_key d) /\
      (forall c pc, In c cp -> In pc prevc -> e_key pc = e_key c -> e_scale c <= e_scale pc) /\
      ExpoRun maxsize hist' cp seen' mr or_
  | _, _ => False
  end.
