(** C08 model: one instrument observed by a delta and a cumulative ManualReader.

    Mirrors
      - sdk/metric/pipeline.go  aggregateFunc (which aggregator an instrument kind
        gets), cachedAggregator (temporality taken from the reader), produce
        (callbacks run inside the collection, before the aggregators are read);
      - sdk/metric/meter.go     RegisterCallback / unregister, observer.Observe*
        (a callback's observation reaches an instrument only if the callback was
        registered with it);
      - sdk/metric/instrument.go  int64Inst.aggregate / float64Inst.aggregate;
      - the aggregators themselves are Lib/MetricsModel.v.
    Each reader pipeline owns one aggregator per instrument; aggregators do not
    interact, so the model of a history is, per instrument and per reader, the
    run of one aggregator ([stream]).  Executable definitions only. *)
From Verif Require Import Lib.Base Lib.MetricsModel C08.Spec.
Open Scope Z_scope.

Inductive ikind :=
| KCounter | KUpDown | KHist (bounds : list Z) | KGauge
| KObsCounter | KObsUpDown | KObsGauge
| KExpo (unit : Z)    (* Histogram instrument with a base-2 exponential view, MaxScale 0 *)
| KHistNS (bounds : list Z).   (* up-down counter with an explicit-bucket histogram view: no sum is kept (noSum) *)

Definition is_async (x : ikind) : bool :=
  match x with KObsCounter | KObsUpDown | KObsGauge => true | _ => false end.

(** pipeline.go aggregateFunc: Sum / PrecomputedSum / LastValue / PrecomputedLastValue /
    ExplicitBucketHistogram *)
Definition kop (x : ikind) : aop :=
  match x with KGauge | KObsGauge => OpSet | _ => OpAdd end.

Definition vecof (x : ikind) (v : Z) : vec :=
  match x with
  | KHist b => hvec b v
  | KHistNS b => match hvec b v with _ :: r => 0 :: r | [] => [] end
  | KExpo u => evec u v
  | _ => [v]
  end.

Definition is_delta (t : temporality) : bool := match t with Delta => true | Cumulative => false end.

Definition cfg_of (x : ikind) (t : temporality) : aggcfg :=
  {| a_op := kop x; a_pre := is_async x; a_temp := t |}.

Definition class_of (x : ikind) : sclass :=
  match x with
  | KCounter | KUpDown | KHist _ | KExpo _ | KHistNS _ => CSyncAdd
  | KGauge => CSyncGauge
  | KObsCounter | KObsUpDown => CAsyncSum
  | KObsGauge => CAsyncGauge
  end.

Definition vm (x : ikind) (c : list (skey * Z)) : list (key * vec) :=
  map (fun kv => (fst kv, vecof x (snd kv))) c.

(** state of one stream: the registrations in force (pipeline.multiCallbacks), the
    aggregator, and the number of collections made so far *)
Record sst := { s_regs : list reg; s_agg : agg; s_n : nat }.

Definition sstep (x : ikind) (i : inst) (t : temporality) (tm : nat -> N) (s : sst) (o : op)
  : sst * list sobs :=
  match o with
  | Measure i' k v =>
      if is_async x || negb (Nat.eqb i' i) then (s, [])
      else ({| s_regs := s_regs s; s_agg := measure (cfg_of x t) k (vecof x v) (s_agg s); s_n := s_n s |}, [])
  | Register _ _ | Unregister _ =>
      ({| s_regs := reg_step (s_regs s) o; s_agg := s_agg s; s_n := s_n s |}, [])
  | Collect w script _ =>
      if negb (includes w (is_delta t)) then (s, []) else
      if cancelled w then
        (* produce with a context that is already done: the first callback runs (its observations
           reach this pipeline's aggregators), then ctx.Err() ends the collection: no aggregation is
           computed, nothing is returned.  (With no callback registered the context is never looked
           at: [normalize] has turned that case into an ordinary Collect.) *)
        ({| s_regs := s_regs s;
            s_agg := if is_async x
                     then measure_all (cfg_of x t) (vm x (delivered (firstn 1 (s_regs s)) script i)) (s_agg s)
                     else s_agg s;
            s_n := s_n s |}, [])
      else
      (* produce: callbacks first (their errors are joined and returned with the data), then the
         aggregation is computed regardless *)
      let a1 := if is_async x
                then measure_all (cfg_of x t) (vm x (delivered (s_regs s) script i)) (s_agg s)
                else s_agg s in
      let '(out, a2) := collect (cfg_of x t) (tm (s_n s)) a1 in
      ({| s_regs := s_regs s; s_agg := a2; s_n := S (s_n s) |}, [out])
  end.

Fixpoint srun (x : ikind) (i : inst) (t : temporality) (tm : nat -> N) (h : list op) (s : sst) : list sobs :=
  match h with
  | [] => []
  | o :: r => let '(s', out) := sstep x i t tm s o in out ++ srun x i t tm r s'
  end.

(** the trace of instrument [i] of kind [x] under a reader of temporality [t];
    [t0] = instant the aggregator was created, [tm n] = instant of its n-th collection *)
Definition stream (x : ikind) (i : inst) (t : temporality) (t0 : N) (tm : nat -> N) (h : list op) : list sobs :=
  srun x i t tm (normalize h []) {| s_regs := []; s_agg := new_agg t0; s_n := 0 |}.

(** the clock is an oracle of non-decreasing instants *)
Definition monotone (tm : nat -> N) : Prop := forall a b, (a <= b)%nat -> (tm a <= tm b)%N.

(** all instruments, both readers *)
Fixpoint enum_from {A} (n : nat) (l : list A) : list (nat * A) :=
  match l with [] => [] | x :: r => (n, x) :: enum_from (S n) r end.

Definition model (kinds : list ikind) (t0 : N) (tm : nat -> N) (h : list op) : list (list sobs * list sobs) :=
  map (fun ix => (stream (snd ix) (fst ix) Delta t0 tm h, stream (snd ix) (fst ix) Cumulative t0 tm h))
      (enum_from 0 kinds).

(** erase callback [c] from every later script (used to state that an unregistered
    callback is silent) *)
Definition erase_cb (c : cbid) (h : list op) : list op :=
  map (fun o => match o with
                | Collect w s f => Collect w (filter (fun a => negb (at_cb a =? c)%N) s) f
                | _ => o
                end) h.
Definition registers (c : cbid) (o : op) : bool :=
  match o with Register c' _ => (c' =? c)%N | _ => false end.
