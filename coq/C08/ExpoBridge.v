(** The harness reports a bucket window as the list of its non-empty (index, count) pairs
    ([Spec.ebuckets]); C07's points carry an offset and a dense count list.  The functions that
    [Spec.expo_ok] uses on the sparse form are the functions of C08/Expo.v on the dense form. *)
From Coq Require Import ZArith NArith List Lia Bool.
From Verif Require Import Lib.Base C07.Spec C07.Proofs C08.Expo.
From Verif Require C08.Spec.
Import ListNotations.
Open Scope Z_scope.

Fixpoint to_buckets (off : Z) (counts : list N) : C08.Spec.ebuckets :=
  match counts with
  | [] => []
  | c :: r => (if (c =? 0)%N then [] else [(off, Z.of_N c)]) ++ to_buckets (off + 1) r
  end.

Lemma nsum_upto_shift (g : nat -> N) n :
  nsum (map g (nat_upto (S n))) = (g 0%nat + nsum (map (fun k => g (S k)) (nat_upto n)))%N.
Proof.
  induction n as [|n IH]; [cbn; lia|].
  change (nat_upto (S (S n))) with (nat_upto (S n) ++ [S n]). rewrite map_app, nsum_app, IH.
  cbn [nat_upto]. rewrite map_app, nsum_app. cbn [map nsum fold_right]. lia.
Qed.

Lemma shift_count_cons d off c r b :
  shift_count d off (c :: r) b = ((if Z.eqb (Z.shiftr off d) b then c else 0) + shift_count d (off + 1) r b)%N.
Proof.
  unfold shift_count. cbn [length]. rewrite nsum_upto_shift. cbn [nth]. change (Z.of_nat 0) with 0. rewrite Z.add_0_r. f_equal.
  f_equal. apply map_ext. intro k. cbn [nth]. replace (off + Z.of_nat (S k)) with (off + 1 + Z.of_nat k) by lia. reflexivity.
Qed.

Lemma bshift_count_app d i a b : C08.Spec.bshift_count d i (a ++ b) = C08.Spec.bshift_count d i a + C08.Spec.bshift_count d i b.
Proof. unfold C08.Spec.bshift_count. induction a as [|x a IH]; cbn [app fold_right]; [lia|]. rewrite IH. lia. Qed.

Lemma bshift_count_dense d counts : forall off b,
  C08.Spec.bshift_count d b (to_buckets off counts) = Z.of_N (shift_count d off counts b).
Proof.
  induction counts as [|c r IH]; intros off b; [reflexivity|].
  cbn [to_buckets]. rewrite bshift_count_app, IH, shift_count_cons.
  destruct (N.eqb_spec c 0) as [->|Hc]; unfold C08.Spec.bshift_count; cbn [fold_right fst snd];
    destruct (Z.shiftr off d =? b); lia.
Qed.

Lemma bsum_dense counts : forall off, C08.Spec.bsum (to_buckets off counts) = Z.of_N (nsum counts).
Proof.
  induction counts as [|c r IH]; intro off; [reflexivity|].
  cbn [to_buckets]. unfold C08.Spec.bsum in *. rewrite fold_right_app.
  cbn [nsum fold_right]. fold (nsum r). specialize (IH (off + 1)).
  destruct (N.eqb_spec c 0) as [->|Hc]; cbn [fold_right snd]; lia.
Qed.
