(** C08: the decidable checks evaluated on the implementation's observations imply the
    Prop readings of the clauses (so a passing check means the clause holds of what was observed). *)
From Verif Require Import Lib.Base C08.Spec.
Open Scope Z_scope.

Lemma zlist_eqb_eq (a b : list Z) : list_eqb Z.eqb a b = true -> a = b.
Proof. apply list_eqb_eq. intros x y. apply Z.eqb_eq. Qed.

Lemma ovec_eqb_eq a b : ovec_eqb a b = true -> a = b.
Proof.
  destruct a, b; cbn; intros H; try discriminate; try reflexivity. f_equal. now apply zlist_eqb_eq.
Qed.

Lemma pget_notin k p : ~ In k (keys_of p) -> pget k p = None.
Proof.
  induction p as [|[k' v] r IH]; cbn; intros H; [reflexivity|].
  destruct (N.eqb_spec k k'); [exfalso; apply H; left; congruence|]. apply IH. intros Hin. apply H. now right.
Qed.
Lemma cyc_total_notin k c : ~ In k (ckeys c) -> cyc_total k c = None.
Proof.
  induction c as [|[k' v] r IH]; cbn; intros H; [reflexivity|].
  destruct (N.eqb_spec k' k); [exfalso; apply H; now left|]. apply IH. intros Hin. apply H. now right.
Qed.
Lemma cyc_last_notin k c : ~ In k (ckeys c) -> cyc_last k c = None.
Proof.
  induction c as [|[k' v] r IH]; cbn; intros H; [reflexivity|].
  rewrite IH by (intros Hin; apply H; now right).
  destruct (N.eqb_spec k' k); [exfalso; apply H; now left | reflexivity].
Qed.

Lemma in_dec_N (k : N) (l : list N) : In k l \/ ~ In k l.
Proof. destruct (in_dec N.eq_dec k l); auto. Qed.

Lemma expect_points_sound p ks f : expect_points p ks f = true ->
  (forall k, ~ In k ks -> f k = None) -> forall k, pget k p = f k.
Proof.
  unfold expect_points. intros H Hf k. apply andb_true_iff in H as [_ H]. rewrite forallb_forall in H.
  destruct (in_dec_N k (keys_of p ++ ks)) as [Hin|Hn].
  - apply ovec_eqb_eq. now apply H.
  - rewrite pget_notin by (intros Hi; apply Hn; apply in_or_app; now left).
    symmetry. apply Hf. intros Hi; apply Hn; apply in_or_app; now right.
Qed.

Lemma async_cumb_sound cycles : forall tr, async_cumb cycles tr = true -> AsyncCum cycles tr.
Proof.
  induction cycles as [|c cr IH]; intros [|p pr] H; try discriminate.
  - split; [reflexivity|]. intros n k Hn. cbn in Hn. lia.
  - cbn [async_cumb] in H. apply andb_true_iff in H as [H1 H2]. destruct (IH pr H2) as [Hl Hp]. split; [cbn; now rewrite Hl|].
    intros n k Hn. destruct n as [|n]; cbn [nth].
    + apply (expect_points_sound _ _ _ H1). intros k' Hk. now rewrite cyc_total_notin.
    + apply Hp. cbn in Hn. lia.
Qed.

Lemma gauge_cycleb_sound cycles : forall tr, gauge_cycleb cycles tr = true -> GaugeCycle cycles tr.
Proof.
  induction cycles as [|c cr IH]; intros [|p pr] H; try discriminate.
  - split; [reflexivity|]. intros n k Hn. cbn in Hn. lia.
  - cbn [gauge_cycleb] in H. apply andb_true_iff in H as [H1 H2]. destruct (IH pr H2) as [Hl Hp]. split; [cbn; now rewrite Hl|].
    intros n k Hn. destruct n as [|n]; cbn [nth].
    + apply (expect_points_sound _ _ _ H1). intros k' Hk. now rewrite cyc_last_notin.
    + apply Hp. cbn in Hn. lia.
Qed.

Lemma gauge_sofarb_sound cycles : forall sofar tr, gauge_sofarb sofar cycles tr = true ->
  length tr = length cycles /\
  forall n k, (n < length cycles)%nat -> pget k (nth n tr []) = one (cyc_last k (sofar ++ concat (firstn (S n) cycles))).
Proof.
  induction cycles as [|c cr IH]; intros sofar [|p pr] H; try discriminate.
  - split; [reflexivity|]. intros n k Hn. cbn in Hn. lia.
  - cbn [gauge_sofarb] in H. cbn zeta in H. apply andb_true_iff in H as [H1 H2]. destruct (IH _ pr H2) as [Hl Hp]. split; [cbn; now rewrite Hl|].
    intros n k Hn. destruct n as [|n]; cbn [nth].
    + cbn [firstn concat]. rewrite app_nil_r.
      apply (expect_points_sound _ _ _ H1). intros k' Hk. rewrite cyc_last_notin by exact Hk. reflexivity.
    + rewrite Hp by (cbn in Hn; lia). change (firstn (S (S n)) (c :: cr)) with (c :: firstn (S n) cr).
      cbn [concat]. now rewrite app_assoc.
Qed.

Lemma async_deltab_sound cycles : forall prev tr, async_deltab prev cycles tr = true ->
  length tr = length cycles /\
  forall n k, (n < length cycles)%nat ->
    pget k (nth n tr []) =
    one (option_map (fun x => x - match n with
                                  | O => match cyc_total k prev with Some y => y | None => 0 end
                                  | S m => match cyc_total k (nth m cycles []) with Some y => y | None => 0 end
                                  end) (cyc_total k (nth n cycles []))).
Proof.
  induction cycles as [|c cr IH]; intros prev [|p pr] H; try discriminate.
  - split; [reflexivity|]. intros n k Hn. cbn in Hn. lia.
  - cbn [async_deltab] in H. apply andb_true_iff in H as [H1 H2]. destruct (IH _ pr H2) as [Hl Hp]. split; [cbn; now rewrite Hl|].
    intros n k Hn. destruct n as [|n]; cbn [nth].
    + apply (expect_points_sound _ _ _ H1). intros k' Hk. rewrite (cyc_total_notin k' c) by exact Hk. reflexivity.
    + rewrite Hp by (cbn in Hn; lia). destruct n; reflexivity.
Qed.

(** running totals kept by the checker *)
Lemma pget_padd k v acc j : pget j (padd k v acc) = if (j =? k)%N then oplus (pget j acc) (Some v) else pget j acc.
Proof.
  induction acc as [|[k' u] r IH]; cbn [padd pget].
  - destruct (N.eqb_spec j k); reflexivity.
  - destruct (N.eqb_spec k k') as [->|Hn]; cbn [pget].
    + destruct (N.eqb_spec j k'); reflexivity.
    + rewrite IH. destruct (N.eqb_spec j k') as [->|]; [|reflexivity].
      destruct (N.eqb_spec k' k); [congruence | reflexivity].
Qed.

Lemma oplus_none_r a : oplus a None = a.
Proof. destruct a; reflexivity. Qed.

Lemma lower_notin k (d : points) : psorted d = true ->
  match d with [] => True | (k', _) :: _ => (k < k')%N end -> pget k d = None.
Proof.
  revert k; induction d as [|[k' v] r IH]; intros k Hs Hl; [reflexivity|].
  cbn [pget]. destruct (N.eqb_spec k k'); [lia|]. apply IH.
  - destruct r as [|[k'' ?] ?]; [reflexivity|]. cbn [psorted] in Hs. now apply andb_true_iff in Hs as [_ Hs].
  - destruct r as [|[k'' ?] ?]; [exact I|]. cbn [psorted] in Hs. apply andb_true_iff in Hs as [Hs _]. apply N.ltb_lt in Hs. lia.
Qed.

Lemma pget_pmerge d : psorted d = true -> forall acc j, pget j (pmerge acc d) = oplus (pget j acc) (pget j d).
Proof.
  unfold pmerge. induction d as [|[k v] r IH]; intros Hs acc j; cbn [fold_left pget].
  - now rewrite oplus_none_r.
  - assert (Hr : psorted r = true).
    { destruct r as [|[k'' ?] ?]; [reflexivity|]. cbn [psorted] in Hs. now apply andb_true_iff in Hs as [_ Hs]. }
    rewrite (IH Hr). cbn [fst snd]. rewrite pget_padd. destruct (N.eqb_spec j k) as [->|Hn]; [|reflexivity].
    rewrite (lower_notin k r Hr).
    + now rewrite oplus_none_r.
    + destruct r as [|[k'' ?] ?]; [exact I|]. cbn [psorted] in Hs. apply andb_true_iff in Hs as [Hs _]. now apply N.ltb_lt in Hs.
Qed.

Lemma same_points_sound a b : same_points a b = true -> forall k, pget k a = pget k b.
Proof.
  unfold same_points. intros H k. rewrite forallb_forall in H.
  destruct (in_dec_N k (keys_of a ++ keys_of b)) as [Hin|Hn].
  - apply ovec_eqb_eq. now apply H.
  - rewrite !pget_notin; [reflexivity | |]; intros Hi; apply Hn; apply in_or_app; auto.
Qed.

Lemma pget_merge_all ds : forallb psorted ds = true -> forall acc k,
  pget k (fold_left pmerge ds acc) = running_from (pget k acc) k ds.
Proof.
  induction ds as [|d r IH]; intros Hs acc k; [reflexivity|].
  cbn [forallb] in Hs. apply andb_true_iff in Hs as [Hd Hs].
  cbn [fold_left]. rewrite (IH Hs). unfold running_from. cbn [fold_left]. now rewrite pget_pmerge.
Qed.

Lemma forallb_firstn {A} (f : A -> bool) n l : forallb f l = true -> forallb f (firstn n l) = true.
Proof.
  revert n; induction l as [|x l IH]; intros [|n] H; try reflexivity.
  cbn in *. apply andb_true_iff in H as [H1 H2]. now rewrite H1, IH.
Qed.

Lemma running_deltab_sound sync dtr ctr : forallb psorted dtr = true -> running_deltab sync dtr ctr = true ->
  RunningDelta sync dtr ctr.
Proof.
  intros Hs H nd nc k Hin. unfold running_deltab in H. rewrite forallb_forall in H.
  specialize (H (nd, nc) Hin). cbn [fst snd] in H. apply andb_true_iff in H as [_ H].
  rewrite (same_points_sound _ _ H). unfold running.
  now rewrite (pget_merge_all _ (forallb_firstn psorted (S nd) dtr Hs)).
Qed.

(** the checker of one stream is sound for the clause of its class ([leaky = false]: the
    property's reading) *)
Theorem stream_ok_sound cl i h0 dtr ctr : stream_ok false cl i h0 dtr ctr = true ->
  let h := normalize h0 [] in
  match cl with
  | CSyncAdd => RunningDelta (sync_points h 0 0) (map s_points dtr) (map s_points ctr)
  | CSyncGauge => GaugeCycle (cycles_sync true i h []) (map s_points dtr) /\ GaugeSoFar (cycles_sync false i h []) (map s_points ctr)
  | CAsyncSum => AsyncDelta (cycles_async true i h []) (map s_points dtr) /\ AsyncCum (cycles_async false i h []) (map s_points ctr)
  | CAsyncGauge => GaugeCycle (cycles_async true i h []) (map s_points dtr) /\ GaugeCycle (cycles_async false i h []) (map s_points ctr)
  end.
Proof.
  unfold stream_ok. cbv zeta. intros H. repeat (apply andb_true_iff in H as [H ?]).
  destruct cl.
  - match goal with Hr : running_deltab _ _ _ = true, Hs : forallb psorted (map s_points dtr) = true |- _ =>
      exact (running_deltab_sound _ _ _ Hs Hr) end.
  - match goal with Hg : _ && _ = true |- _ => apply andb_true_iff in Hg as [Hg1 Hg2] end.
    split; [now apply gauge_cycleb_sound | now apply (gauge_sofarb_sound _ [])].
  - match goal with Hg : _ && _ = true |- _ => apply andb_true_iff in Hg as [Hg1 Hg2] end.
    split; [|now apply async_cumb_sound].
    destruct (async_deltab_sound _ _ _ Hg1) as [Hl Hp]. split; [exact Hl|]. intros n k Hn. rewrite Hp by exact Hn.
    destruct n; reflexivity.
  - match goal with Hg : _ && _ = true |- _ => apply andb_true_iff in Hg as [Hg1 Hg2] end.
    split; now apply gauge_cycleb_sound.
Qed.

(** * Exponential clauses: the checker implies the Prop reading *)
Lemma bshift_count_notin d i b : ~ In i (map (fun ic => Z.shiftr (fst ic) d) b) -> bshift_count d i b = 0.
Proof.
  unfold bshift_count. induction b as [|ic r IH]; intro H; [reflexivity|].
  cbn [fold_right map] in *. rewrite IH by (intro Hx; apply H; now right).
  destruct (Z.eqb_spec (Z.shiftr (fst ic) d) i) as [E|E]; [exfalso; apply H; now left | reflexivity].
Qed.

Lemma esum_zero (f : epoint -> Z) ds : (forall d, In d ds -> f d = 0) -> esum f ds = 0.
Proof.
  unfold esum. induction ds as [|d r IH]; intro H; [reflexivity|].
  cbn [fold_right]. rewrite (H d (or_introl eq_refl)), IH; [reflexivity|]. intros x Hx. apply H. now right.
Qed.

Lemma in_dec_Z (k : Z) (l : list Z) : In k l \/ ~ In k l.
Proof. destruct (in_dec Z.eq_dec k l); auto. Qed.

Lemma side_sound (sel : epoint -> ebuckets) c ds :
  (let idxs := map fst (sel c) ++ flat_map (fun d => map (fun ic => Z.shiftr (fst ic) (e_scale d - e_scale c)) (sel d)) ds in
   forallb (fun i => bshift_count 0 i (sel c) =? esum (fun d => bshift_count (e_scale d - e_scale c) i (sel d)) ds) idxs) = true ->
  forall i, bshift_count 0 i (sel c) = esum (fun d => bshift_count (e_scale d - e_scale c) i (sel d)) ds.
Proof.
  cbv zeta. intros H i. rewrite forallb_forall in H.
  set (idxs := map fst (sel c) ++ flat_map (fun d => map (fun ic => Z.shiftr (fst ic) (e_scale d - e_scale c)) (sel d)) ds) in *.
  destruct (in_dec_Z i idxs) as [Hin|Hn].
  - apply Z.eqb_eq. now apply H.
  - rewrite bshift_count_notin.
    + symmetry. apply esum_zero. intros d Hd. apply bshift_count_notin. intro Hx. apply Hn.
      unfold idxs. apply in_or_app. right. apply in_flat_map. now exists d.
    + intro Hx. apply Hn. unfold idxs. apply in_or_app. left.
      rewrite in_map_iff in Hx. destruct Hx as (ic & E & Hic). rewrite Z.shiftr_0_r in E. subst i. now apply in_map.
Qed.

Lemma cum_vs_deltas_sound bk c ds : cum_vs_deltas bk c ds = true -> CumVsDeltas bk c ds.
Proof.
  unfold cum_vs_deltas. intro H.
  apply andb_true_iff in H as [H Hb]. apply andb_true_iff in H as [H Hz]. apply andb_true_iff in H as [H Hs].
  apply andb_true_iff in H as [Hne Hc].
  split; [destruct ds; [discriminate Hne | discriminate]|].
  split; [now apply Z.eqb_eq|]. split; [now apply Z.eqb_eq|]. split; [now apply Z.eqb_eq|].
  intro E. subst bk. cbn [negb orb] in Hb.
  apply andb_true_iff in Hb as [Hsc Hsides]. apply andb_true_iff in Hsides as [Hpos Hneg]. split.
  - intros d Hd. rewrite forallb_forall in Hsc. apply Z.leb_le. now apply Hsc.
  - intro i. split; [exact (side_sound e_pos c ds Hpos i) | exact (side_sound e_neg c ds Hneg i)].
Qed.

Theorem expo_run_sound maxsize meas : forall hist prevc seen obs,
  expo_run maxsize hist prevc seen meas obs = true -> ExpoRun maxsize hist prevc seen meas obs.
Proof.
  induction meas as [|m mr IH]; intros hist prevc seen [|[dp cp] or_] H; try discriminate; [exact I|].
  cbn [expo_run] in H. cbv zeta in H. repeat (apply andb_true_iff in H as [H ?]).
  cbn [ExpoRun]. cbv zeta.
  repeat match goal with Hf : forallb _ _ = true |- _ => rewrite forallb_forall in Hf end.
  split; [|split; [|split; [|split; [|split; [|split]]]]].
  - intros p Hp Hf. match goal with Hx : forall x, In x dp -> negb _ || epoint_counts_ok x = true |- _ => specialize (Hx p Hp); rewrite Hf in Hx; cbn in Hx; now apply Z.eqb_eq in Hx end.
  - intros p Hp Hf. match goal with Hx : forall x, In x cp -> negb _ || epoint_counts_ok x = true |- _ => specialize (Hx p Hp); rewrite Hf in Hx; cbn in Hx; now apply Z.eqb_eq in Hx end.
  - intros p Hp. match goal with Hx : forall x, In x (map e_key dp ++ _) -> _ |- _ => apply Z.eqb_eq; apply Hx; apply in_or_app; left; now apply in_map end.
  - intros c Hc. apply cum_vs_deltas_sound. match goal with Hx : forall x, In x cp -> cum_vs_deltas _ _ _ = true |- _ => now apply Hx end.
  - intros d Hd. match goal with Hx : forall x, In x (hist ++ dp) -> existsb _ cp = true |- _ => specialize (Hx d Hd); apply existsb_exists in Hx as (c & Hc & E); exists c; split; [exact Hc | now apply N.eqb_eq] end.
  - intros c pc Hc Hpc Ek.
    match goal with Hx : forall x, In x cp -> forallb _ prevc = true |- _ => pose proof (Hx c Hc) as Hy end.
    rewrite forallb_forall in Hy. specialize (Hy pc Hpc).
    apply orb_true_iff in Hy as [Hk|Hk]; [apply negb_true_iff in Hk; apply N.eqb_neq in Hk; congruence | now apply Z.leb_le].
  - now apply IH.
Qed.

Theorem expo_ok_sound maxsize meas obs : expo_ok maxsize meas obs = true -> ExpoRun maxsize [] [] [] meas obs.
Proof. apply expo_run_sound. Qed.
