(** C08 property theorems: statements only, each closed by a lemma of Proofs.v,
    the axiom audit, and non-vacuity examples.

    [stream x i t t0 tm h] is the trace (one (start, time, points) per collection)
    that a reader of temporality [t] shows for instrument [i] of kind [x] over
    history [h]; [t0] is the instant the stream was created and [tm n] the instant
    of its n-th collection.  All theorems hold for every history, every instrument
    kind of the stated class, every instrument index and every clock. *)
From Verif Require Import Lib.Base Lib.MetricsModel C08.Spec C08.Model C08.Proofs C08.Sound.
From Verif Require C07.Spec C07.Model C08.Expo C08.ExpoBridge.
Open Scope Z_scope.

(** Counters, up-down counters and histograms (sum, count and every bucket are the
    components of the point vector): at every point where both readers collect (they may also
    collect on their own in between, any number of times) every cumulative value is the running total of
    the delta values reported so far for that attribute set; a set absent from every
    delta so far is absent from the cumulative view. *)
Theorem c08_cumulative_is_running_delta : forall x i h t0 t0' tm tm',
  class_of x = CSyncAdd ->
  RunningDelta (sync_points (normalize h []) 0 0) (map s_points (stream x i Delta t0 tm h))
               (map s_points (stream x i Cumulative t0' tm' h)).
Proof. intros. now apply running_delta. Qed.
Print Assumptions c08_cumulative_is_running_delta.

(** Every delta stream of every kind: each interval starts where the previous
    collection ended, and the first one at the creation of the stream. *)
Theorem c08_delta_intervals_adjacent : forall x i h t0 tm,
  Adjacent (stream x i Delta t0 tm h) /\
  ((0 < length (stream x i Delta t0 tm h))%nat -> s_start (nth 0 (stream x i Delta t0 tm h) dflt) = t0).
Proof. intros. split; [apply adjacent | apply delta_first_start]. Qed.
Print Assumptions c08_delta_intervals_adjacent.

(** Every cumulative stream of every kind keeps one fixed start (its creation). *)
Theorem c08_cumulative_start_fixed : forall x i h t0 tm,
  StartFixed (stream x i Cumulative t0 tm h) /\
  forall n, (n < length (stream x i Cumulative t0 tm h))%nat ->
            s_start (nth n (stream x i Cumulative t0 tm h) dflt) = t0.
Proof. intros. split; [apply start_fixed | intros; now apply cum_start]. Qed.
Print Assumptions c08_cumulative_start_fixed.

(** With a non-decreasing clock, start never exceeds time; the n-th collection carries
    the n-th instant. *)
Theorem c08_start_le_time : forall x i t h t0 tm,
  (t0 <= tm 0%nat)%N -> monotone tm ->
  StartLeTime (stream x i t t0 tm h) /\
  forall n, (n < length (stream x i t t0 tm h))%nat -> s_time (nth n (stream x i t t0 tm h) dflt) = tm n.
Proof. intros. split; [now apply start_le_time | intros; now apply stream_time]. Qed.
Print Assumptions c08_start_le_time.

(** Asynchronous counters / up-down counters: each cycle reports exactly the attribute
    sets observed by the callbacks registered in that cycle (with the instruments they were
    registered for); cumulative = observed value, delta = observed value minus the value
    observed in the preceding cycle (zero if not observed then). *)
Theorem c08_async_cycle_exact : forall x i h t0 t0' tm tm',
  class_of x = CAsyncSum ->
  (calm true (normalize h []) = true ->
     AsyncDelta (cycles_async true i (normalize h []) []) (map s_points (stream x i Delta t0 tm h))) /\
  (calm false (normalize h []) = true ->
     AsyncCum (cycles_async false i (normalize h []) []) (map s_points (stream x i Cumulative t0' tm' h))).
Proof. exact async_exact. Qed.
Print Assumptions c08_async_cycle_exact.

(** Gauges report the last value recorded in the cycle, for exactly the sets recorded in
    the cycle: synchronous gauges under a delta reader, asynchronous gauges under both.  A
    synchronous gauge under a cumulative reader keeps every set and shows its last value so far. *)
Theorem c08_gauge_last : forall x i h t0 t0' tm tm',
  (class_of x = CSyncGauge ->
     GaugeCycle (cycles_sync true i (normalize h []) []) (map s_points (stream x i Delta t0 tm h)) /\
     GaugeSoFar (cycles_sync false i (normalize h []) []) (map s_points (stream x i Cumulative t0' tm' h))) /\
  (class_of x = CAsyncGauge ->
     (calm true (normalize h []) = true ->
        GaugeCycle (cycles_async true i (normalize h []) []) (map s_points (stream x i Delta t0 tm h))) /\
     (calm false (normalize h []) = true ->
        GaugeCycle (cycles_async false i (normalize h []) []) (map s_points (stream x i Cumulative t0' tm' h)))).
Proof. exact gauge_last. Qed.
Print Assumptions c08_gauge_last.

(** After [Unregister c], and until [c] is registered again, nothing callback [c] would
    observe has any effect on any stream of any reader. *)
Theorem c08_unregistered_callback_silent : forall x i t t0 tm c h1 h2,
  forallb (fun o => negb (registers c o)) h2 = true ->
  stream x i t t0 tm (h1 ++ Unregister c :: erase_cb c h2) = stream x i t t0 tm (h1 ++ Unregister c :: h2).
Proof. intros. now apply unregistered_silent. Qed.
Print Assumptions c08_unregistered_callback_silent.

(** A callback that is never registered is never heard. *)
Theorem c08_never_registered_silent : forall x i t t0 tm c h,
  forallb (fun o => negb (registers c o)) h = true ->
  stream x i t t0 tm (erase_cb c h) = stream x i t t0 tm h.
Proof. intros. now apply never_registered_silent. Qed.
Print Assumptions c08_never_registered_silent.

(** A callback returning an error in some cycle (Collect then returns the error together with the
    data) changes no stream of any reader, in that cycle or any later one: the cycle still reports
    exactly what its callbacks observed and leaves nothing over.  [errs_of] says in which cycles
    Collect reports an error. *)
Theorem c08_callback_error_harmless : forall x i t t0 tm h,
  stream x i t t0 tm (clear_fail h) = stream x i t t0 tm h.
Proof. exact callback_error_harmless. Qed.
Print Assumptions c08_callback_error_harmless.

(** Points come out in canonical order without repeated attribute sets, one trace entry
    per collection. *)
Theorem c08_points_canonical : forall x i t t0 tm h,
  AllSorted (stream x i t t0 tm h) /\
  length (stream x i t t0 tm h) = length (filter (collects (is_delta t)) (normalize h [])).
Proof. exact points_canonical. Qed.
Print Assumptions c08_points_canonical.

(** Law of the specified deltas: over a run of consecutive cycles n..n+m in which a set is
    observed, the deltas add up to the last observed value minus the value before the run
    (so cumulative = running total of deltas as long as the set keeps being observed). *)
Theorem c08_async_deltas_telescope : forall cycles k n m y,
  (n + m < length cycles)%nat ->
  (forall j, (n <= j <= n + m)%nat -> cyc_total k (nth j cycles []) <> None) ->
  cyc_total k (nth (n + m) cycles []) = Some y ->
  fold_left Z.add
    (map (fun j => match cyc_total k (nth j cycles []) with Some x => x - prev_total k cycles j | None => 0 end)
         (seq n (S m))) 0 = y - prev_total k cycles n.
Proof. exact async_delta_telescope. Qed.
Print Assumptions c08_async_deltas_telescope.

(** A collection made with a context that is already cancelled ([who] = 3, 4, 5; [normalize] turns
    it into an ordinary collection when no callback is registered, because the code then never looks
    at the context) returns an error and no data, and consumes nothing: the theorems above are stated
    over cycles that simply skip it - measurements made before it belong to the reader's next
    successful collection, the delta interval is not cut (no trace entry, no clock tick), cumulative
    = running delta totals at the next common collection.  This holds with no guard for synchronous
    instruments.  For asynchronous ones it needs [calm]: finding F-C08-1 - the first registered
    callback runs before the context is looked at and its observations leak into the reader's next
    cycle ([cycles_async_leaky] is what the code does, exactly: the model equals it, below). *)
Theorem c08_cancelled_collect_refuted :
  exists x i h, class_of x = CAsyncSum /\
    ~ AsyncDelta (cycles_async true i (normalize h []) []) (map s_points (stream x i Delta 0%N (fun n => N.of_nat (S n)) h)).
Proof. exact async_exact_refuted. Qed.
Print Assumptions c08_cancelled_collect_refuted.

(** what asynchronous streams show in general (no guard): the leaky cycles *)
Theorem c08_async_leaky_exact : forall x i h t0 t0' tm tm',
  class_of x = CAsyncSum ->
  AsyncDelta (cycles_async_leaky true i (normalize h []) [] []) (map s_points (stream x i Delta t0 tm h)) /\
  AsyncCum (cycles_async_leaky false i (normalize h []) [] []) (map s_points (stream x i Cumulative t0' tm' h)).
Proof.
  intros x i h t0 t0' tm tm' Hx. assert (Ha : is_async x = true) by (destruct x; try discriminate; reflexivity).
  pose proof (async_delta x i t0 tm h Hx) as H1. pose proof (async_cum x i t0' tm' h Hx) as H2.
  unfold cycles in H1, H2. rewrite Ha in H1, H2. now split.
Qed.
Print Assumptions c08_async_leaky_exact.

(** The decidable check that the correspondence run evaluates on the implementation's traces
    implies the Prop reading of the clause of the stream's class (for any traces whatsoever). *)
Theorem c08_checker_sound : forall cl i h0 dtr ctr, stream_ok false cl i h0 dtr ctr = true ->
  let h := normalize h0 [] in
  match cl with
  | CSyncAdd => RunningDelta (sync_points h 0 0) (map s_points dtr) (map s_points ctr)
  | CSyncGauge => GaugeCycle (cycles_sync true i h []) (map s_points dtr) /\ GaugeSoFar (cycles_sync false i h []) (map s_points ctr)
  | CAsyncSum => AsyncDelta (cycles_async true i h []) (map s_points dtr) /\ AsyncCum (cycles_async false i h []) (map s_points ctr)
  | CAsyncGauge => GaugeCycle (cycles_async true i h []) (map s_points dtr) /\ GaugeCycle (cycles_async false i h []) (map s_points ctr)
  end.
Proof. exact stream_ok_sound. Qed.
Print Assumptions c08_checker_sound.

(** Exponential histograms that RESCALE (any MaxSize >= 1, any MaxScale in -10..20), on C07's model
    of the exponential aggregator: delta reader = a fresh aggregator per cycle, cumulative reader =
    one aggregator over all cycles.  For every history of cycles and every n ([C08.Expo.ExpoClauses],
    the clauses that [expo_ok] judges):
      - cumulative count / sum / zero count = running totals of the delta ones, and the cumulative
        scale never rises - no guard on the values;
      - while the values of each sign fit into MaxSize buckets at scale -10 ([fits_at_min_scale],
        whose failure is finding F-C07-1 of C07): count = zero + positive + negative counts for the
        cumulative and every delta point, cumulative scale <= every delta scale, and every bin b of
        the cumulative point holds the sum over the cycles of the delta counts of the bins that
        shift to b (index >> (delta scale - cumulative scale)), for both signs.
    Guard inherited from C07: [positive_index_exact] - getBin's floating-point formula returns the
    exact bucket at positive scales (vacuous for MaxScale <= 0; C07's tested-only clause). *)
Theorem c08_expo_rescaling : forall gb u ms mxs,
  C07.Spec.positive_index_exact gb u mxs -> 1 <= ms -> -10 <= mxs <= 20 ->
  forall cycles n, C08.Expo.ExpoClauses gb u ms mxs cycles n.
Proof. exact C08.Expo.expo_streams. Qed.
Print Assumptions c08_expo_rescaling.

(** The check the correspondence run applies to the implementation's exponential points implies
    the Prop reading of the same clauses ([ExpoRun], on arbitrary observations). *)
Theorem c08_expo_checker_sound : forall maxsize meas obs,
  expo_ok maxsize meas obs = true -> ExpoRun maxsize [] [] [] meas obs.
Proof. exact expo_ok_sound. Qed.
Print Assumptions c08_expo_checker_sound.

(** The functions [expo_ok] applies to the sparse bucket lists reported by the harness are the
    functions of the theorem above on C07's dense windows. *)
Theorem c08_expo_sparse_dense : forall d off counts b,
  bshift_count d b (C08.ExpoBridge.to_buckets off counts) = Z.of_N (C08.Expo.shift_count d off counts b) /\
  bsum (C08.ExpoBridge.to_buckets off counts) = Z.of_N (C07.Spec.nsum counts).
Proof. intros. split; [apply C08.ExpoBridge.bshift_count_dense | apply C08.ExpoBridge.bsum_dense]. Qed.
Print Assumptions c08_expo_sparse_dense.

(** ** Non-vacuity *)
Definition ex_h : list op :=
  [ Measure 0%nat 1%N 5; Measure 0%nat 2%N 7; Register 10%N [1%nat]; Collect 0 [(10%N, 1%nat, 1%N, 100)] [];
    Measure 0%nat 1%N 3; Collect 0 [(10%N, 1%nat, 1%N, 130); (10%N, 1%nat, 2%N, 9)] [10%N];
    Unregister 10%N; Collect 0 [(10%N, 1%nat, 1%N, 999)] [10%N] ].
Definition ex_tm (n : nat) : N := N.of_nat (10 * S n).

Example ex_counter :
  map s_points (stream KCounter 0%nat Delta 1%N ex_tm ex_h) = [[(1%N, [5]); (2%N, [7])]; [(1%N, [3])]; []] /\
  map s_points (stream KCounter 0%nat Cumulative 1%N ex_tm ex_h) =
    [[(1%N, [5]); (2%N, [7])]; [(1%N, [8]); (2%N, [7])]; [(1%N, [8]); (2%N, [7])]] /\
  map (fun o => (s_start o, s_time o)) (stream KCounter 0%nat Delta 1%N ex_tm ex_h) = [(1, 10); (10, 20); (20, 30)]%N.
Proof. vm_compute. auto. Qed.
Example ex_async :
  map s_points (stream KObsCounter 1%nat Delta 1%N ex_tm ex_h) = [[(1%N, [100])]; [(1%N, [30]); (2%N, [9])]; []] /\
  map s_points (stream KObsCounter 1%nat Cumulative 1%N ex_tm ex_h) = [[(1%N, [100])]; [(1%N, [130]); (2%N, [9])]; []].
Proof. vm_compute. auto. Qed.
Example ex_hist :
  map s_points (stream (KHist [0; 10]) 0%nat Cumulative 1%N ex_tm ex_h) =
    [[(1%N, [5; 1; 0; 1; 0]); (2%N, [7; 1; 0; 1; 0])]; [(1%N, [8; 2; 0; 2; 0]); (2%N, [7; 1; 0; 1; 0])];
     [(1%N, [8; 2; 0; 2; 0]); (2%N, [7; 1; 0; 1; 0])]].
Proof. vm_compute. auto. Qed.
Example ex_clock : (1 <= ex_tm 0)%N /\ monotone ex_tm.
Proof. split; [vm_compute; discriminate|]. intros a b H. unfold ex_tm. lia. Qed.
Example ex_unregistered : forallb (fun o => negb (registers 10%N o)) [Collect 0 [(10%N, 1%nat, 1%N, 999)] []] = true.
Proof. reflexivity. Qed.

(** 1.5, 3, 0 then -3, 100 in unit 2^-1 at MaxSize 2, MaxScale 2: the cumulative point rescales *)
Example ex_expo_rescale :
  let gb := fun s m => C07.Spec.exact_bin s m (-1) in
  let cyc := [[3; 6; 0]; [-6; 200]] in
  C07.Spec.ep_scale (C08.Expo.delta_pt gb (-1) 2 2 cyc 0) = 0 /\
  C07.Spec.ep_scale (C08.Expo.cum_pt gb (-1) 2 2 cyc 1) = -2 /\
  C07.Spec.ep_count (C08.Expo.cum_pt gb (-1) 2 2 cyc 1) = 5%N /\
  C07.Spec.positive_index_exact gb (-1) 2.
Proof. cbv zeta. split; [vm_compute; reflexivity|]. split; [vm_compute; reflexivity|]. split; [vm_compute; reflexivity|]. intros s m _ _. reflexivity. Qed.
