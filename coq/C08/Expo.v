(** C08, exponential histograms that rescale: the delta reader's and the cumulative reader's
    streams over a history of cycles, built on C07's model of the exponential aggregator
    (C07/Model.v [expo_run]: record, scale change, grow, downscale), and the clauses that the
    correspondence run judges with [Spec.expo_ok], proved for all histories, MaxSize and MaxScale.

      delta reader      : a fresh aggregator per cycle       -> [delta_pt cycles j]
      cumulative reader : one aggregator over all cycles     -> [cum_pt cycles n]

    [cycles] = the values recorded for one attribute set in each cycle (integers in the unit
    2^u).  Guards are C07's: [positive_index_exact] (getBin's floating-point formula returns the
    exact bucket at positive scales), 1 <= MaxSize, -10 <= MaxScale <= 20, and - only for the
    bucket and scale-order clauses - [fits_at_min_scale] (finding F-C07-1 is its failure). *)
From Coq Require Import ZArith NArith List Lia Bool.
From Verif Require Import Lib.Base Lib.Dyadic C07.Model C07.Spec C07.Proofs.
Import ListNotations.
Open Scope Z_scope.

(** two counting facts *)
Lemma window_tally_sel {A} (f : A -> Z) (P : Z -> bool) (l : list A) off n :
  nsum (map (fun k => if P (off + Z.of_nat k) then count_where (fun m => f m =? off + Z.of_nat k) l else 0%N) (nat_upto n)) =
  count_where (fun m => (off <=? f m) && (f m <? off + Z.of_nat n) && P (f m)) l.
Proof.
  induction n as [|n IH].
  - cbn [nat_upto map nsum fold_right]. symmetry. apply count_where_none. intros x _. lia.
  - cbn [nat_upto]. rewrite map_app, nsum_app, IH. cbn [map nsum fold_right]. rewrite N.add_0_r.
    destruct (P (off + Z.of_nat n)) eqn:EP.
    + symmetry. apply count_where_disj. intro x. cbv beta.
      destruct (Z.eqb_spec (f x) (off + Z.of_nat n)) as [E|E].
      * rewrite E, EP.
        replace (off <=? off + Z.of_nat n) with true by lia.
        replace (off + Z.of_nat n <? off + Z.of_nat n) with false by lia.
        replace (off + Z.of_nat n <? off + Z.of_nat (S n)) with true by lia.
        split; reflexivity.
      * replace (f x <? off + Z.of_nat (S n)) with (f x <? off + Z.of_nat n) by lia.
        split; [now rewrite orb_false_r | now rewrite andb_false_r].
    + rewrite N.add_0_r. apply count_where_ext. intros x _. cbv beta.
      destruct (Z.eqb_spec (f x) (off + Z.of_nat n)) as [E|E].
      * rewrite E, EP. now rewrite !andb_false_r.
      * now replace (f x <? off + Z.of_nat (S n)) with (f x <? off + Z.of_nat n) by lia.
Qed.

Lemma count_where_pos {A} (p : A -> bool) l x : In x l -> p x = true -> (0 < count_where p l)%N.
Proof.
  intros Hin Hp. destruct (N.eq_dec (count_where p l) 0) as [E|E]; [|lia].
  assert (H : forall y, In y l -> p y = false).
  { unfold count_where in E. intros y Hy. destruct (p y) eqn:Ey; [|reflexivity].
    assert (In y (filter p l)) by (apply filter_In; now split).
    destruct (filter p l); [contradiction | cbn in E; lia]. }
  rewrite (H x Hin) in Hp. discriminate.
Qed.


Section Streams.
  Variable gb : Z -> Z -> Z.
  Variables u ms mxs : Z.

  Definition point_of (vs : list Z) : expo_point := expo_to_point (expo_run gb u ms mxs vs).
  Definition upto (cycles : list (list Z)) (n : nat) : list Z := concat (firstn (S n) cycles).
  Definition delta_pt (cycles : list (list Z)) (j : nat) : expo_point := point_of (nth j cycles []).
  Definition cum_pt (cycles : list (list Z)) (n : nat) : expo_point := point_of (upto cycles n).

  (** running totals of a per-point quantity over the first n+1 delta points *)
  Definition nrun (f : expo_point -> N) (cycles : list (list Z)) (n : nat) : N :=
    nsum (map (fun c => f (point_of c)) (firstn (S n) cycles)).
  Definition zrun (f : expo_point -> Z) (cycles : list (list Z)) (n : nat) : Z :=
    zsum (map (fun c => f (point_of c)) (firstn (S n) cycles)).

  Lemma point_count vs : ep_count (point_of vs) = N.of_nat (length vs).
  Proof. unfold point_of, expo_to_point. cbn [ep_count]. apply (stats_run gb u ms mxs vs). Qed.
  Lemma point_sum vs : ep_sum (point_of vs) = zsum vs.
  Proof. unfold point_of, expo_to_point. cbn [ep_sum]. apply (stats_run gb u ms mxs vs). Qed.

  (** the zero count needs no guard: a zero is counted before any bucket is touched *)
  Lemma record_zero st v : e_zero (expo_record gb u ms st v) = (e_zero st + if Z.eqb v 0 then 1 else 0)%N.
  Proof.
    unfold expo_record. cbv zeta. destruct (v =? 0); [reflexivity|].
    destruct (0 <? _); [destruct (_ <? -10)|]; destruct (v <? 0); cbn; lia.
  Qed.
  Lemma fold_zero vs : forall st,
    e_zero (fold_left (expo_record gb u ms) vs st) = (e_zero st + count_where (Z.eqb 0) vs)%N.
  Proof.
    induction vs as [|v vs IH]; intro st; [cbn; lia|].
    cbn [fold_left]. rewrite IH, record_zero, count_where_cons.
    rewrite (Z.eqb_sym 0 v). destruct (Z.eqb v 0); lia.
  Qed.
  Lemma point_zero vs : ep_zero (point_of vs) = count_where (Z.eqb 0) vs.
  Proof. unfold point_of, expo_to_point, expo_run. cbn [ep_zero]. rewrite fold_zero. cbn. lia. Qed.

  Lemma length_concat (l : list (list Z)) : N.of_nat (length (concat l)) = nsum (map (fun c => N.of_nat (length c)) l).
  Proof. induction l as [|c r IH]; [reflexivity|]. cbn [concat map nsum fold_right]. rewrite app_length. fold (nsum (map (fun c => N.of_nat (length c)) r)). lia. Qed.
  Lemma zsum_concat (l : list (list Z)) : zsum (concat l) = zsum (map zsum l).
  Proof. induction l as [|c r IH]; [reflexivity|]. cbn [concat map]. rewrite zsum_app, IH. reflexivity. Qed.
  Lemma count_where_concat (p : Z -> bool) (l : list (list Z)) :
    count_where p (concat l) = nsum (map (count_where p) l).
  Proof. induction l as [|c r IH]; [reflexivity|]. cbn [concat map]. rewrite count_where_app, IH. reflexivity. Qed.

  (** cumulative count / sum / zero count = running totals of the delta ones: no guard at all *)
  Lemma cum_count cycles n : ep_count (cum_pt cycles n) = nrun ep_count cycles n.
  Proof.
    unfold cum_pt, nrun, upto. rewrite point_count, length_concat. f_equal.
    apply map_ext. intro c. now rewrite point_count.
  Qed.
  Lemma cum_sum cycles n : ep_sum (cum_pt cycles n) = zrun ep_sum cycles n.
  Proof.
    unfold cum_pt, zrun, upto. rewrite point_sum, zsum_concat. f_equal.
    apply map_ext. intro c. now rewrite point_sum.
  Qed.
  Lemma cum_zero cycles n : ep_zero (cum_pt cycles n) = nrun ep_zero cycles n.
  Proof.
    unfold cum_pt, nrun, upto. rewrite point_zero, count_where_concat. f_equal.
    apply map_ext. intro c. now rewrite point_zero.
  Qed.

  (** the scale of the cumulative point never rises *)
  Lemma upto_S cycles n : upto cycles (S n) = upto cycles n ++ nth (S n) cycles [].
  Proof.
    unfold upto. revert n. induction cycles as [|c r IH]; intro n.
    - destruct n; reflexivity.
    - destruct n as [|n].
      + destruct r as [|c' r']; cbn; now rewrite ?app_nil_r.
      + change (firstn (S (S (S n))) (c :: r)) with (c :: firstn (S (S n)) r).
        change (firstn (S (S n)) (c :: r)) with (c :: firstn (S n) r).
        cbn [concat nth]. rewrite IH. now rewrite app_assoc.
  Qed.
  Lemma cum_scale_never_rises cycles n : ep_scale (cum_pt cycles (S n)) <= ep_scale (cum_pt cycles n).
  Proof.
    unfold cum_pt, point_of, expo_to_point. cbn [ep_scale]. rewrite upto_S. apply expo_scale_monotone.
  Qed.

  (** ** Buckets *)
  (** count that the window (off, counts), indexed at some scale, contributes to bin [b] of a scale
      [d] steps coarser: the counts of the bins that shift to [b] *)
  Definition shift_count (d off : Z) (counts : list N) (b : Z) : N :=
    nsum (map (fun k => if Z.shiftr (off + Z.of_nat k) d =? b then nth k counts 0%N else 0%N)
              (nat_upto (length counts))).

  (** a window that tallies the magnitudes [l] at scale [s], read at the coarser scale [s - d] *)
  Lemma shift_count_tally s d off counts l b :
    Forall (fun m => 0 < m) l -> 0 <= d ->
    (forall i, bucket_get off counts i = count_where (fun m => exact_bin s m u =? i) l) ->
    shift_count d off counts b = count_where (fun m => exact_bin (s - d) m u =? b) l.
  Proof.
    intros Hpos Hd Ht. unfold shift_count.
    rewrite (map_ext_in _ (fun k => if Z.shiftr (off + Z.of_nat k) d =? b
                                    then count_where (fun m => exact_bin s m u =? off + Z.of_nat k) l else 0%N)).
    2: { intros k Hk. destruct (_ =? b); [|reflexivity]. rewrite <- Ht. unfold bucket_get.
         replace (off + Z.of_nat k <? off) with false by lia. f_equal. lia. }
    rewrite (window_tally_sel (fun m => exact_bin s m u) (fun i => Z.shiftr i d =? b)).
    apply count_where_ext. intros m Hm. cbv beta.
    rewrite Forall_forall in Hpos. rewrite (exact_bin_shift s m u d (Hpos m Hm) Hd).
    (* the bin of m lies in the window: otherwise the window would count it as 0 *)
    assert (Hin : (off <=? exact_bin s m u) && (exact_bin s m u <? off + Z.of_nat (length counts)) = true).
    { pose proof (Ht (exact_bin s m u)) as E.
      pose proof (count_where_pos (fun m0 => exact_bin s m0 u =? exact_bin s m u) l m Hm (Z.eqb_refl _)) as Hp.
      rewrite <- E in Hp. unfold bucket_get in Hp.
      destruct (Z.ltb_spec (exact_bin s m u) off); [lia|].
      destruct (Z.ltb_spec (exact_bin s m u) (off + Z.of_nat (length counts))); [now destruct (off <=? _) eqn:?; lia|].
      rewrite nth_overflow in Hp by lia. lia. }
    now rewrite Hin.
  Qed.
End Streams.

Section Guarded.
  Variable gb : Z -> Z -> Z.
  Variables u ms mxs : Z.
  Hypothesis Hgb : positive_index_exact gb u mxs.
  Hypothesis Hms : 1 <= ms.
  Hypothesis Hmx : -10 <= mxs <= 20.
  Notation pt := (point_of gb u ms mxs).
  Notation run := (expo_run gb u ms mxs).

  Lemma fits_incl vs ws : fits_at_min_scale u ms vs -> incl ws vs -> fits_at_min_scale u ms ws.
  Proof. intros F Hi v w i j Hv Hw. apply F; now apply Hi. Qed.

  Lemma incl_cycle (pre : list (list Z)) c : In c pre -> incl c (concat pre).
  Proof. intros Hc x Hx. apply in_concat. now exists c. Qed.

  Lemma posl_concat l : posl (concat l) = concat (map posl l).
  Proof. induction l as [|c r IH]; [reflexivity|]. cbn [concat map]. unfold posl in *. now rewrite filter_app, IH. Qed.
  Lemma negl_concat l : negl (concat l) = concat (map negl l).
  Proof. induction l as [|c r IH]; [reflexivity|]. cbn [concat map]. unfold negl in *. now rewrite filter_app, map_app, IH. Qed.

  (** every point: count = zero + positive + negative counts (C07's theorem, per point) *)
  Lemma point_counts_ok vs : fits_at_min_scale u ms vs -> expo_count_ok (pt vs).
  Proof. intro F. apply expo_count_eq_run; assumption. Qed.

  (** the bucket clause, one sign: [sel] picks the window of the sign, [mags] its magnitudes *)
  Lemma cum_bucket_side (sel : expo -> buckets) (mags : list Z -> list Z) :
    (forall l, mags (concat l) = concat (map mags l)) ->
    (forall vs, fits_at_min_scale u ms vs -> BI u (e_scale (run vs)) (sel (run vs)) (mags vs)) ->
    forall (pre : list (list Z)), fits_at_min_scale u ms (concat pre) ->
    (forall c, In c pre -> e_scale (run (concat pre)) <= e_scale (run c)) ->
    forall b, bget (sel (run (concat pre))) b =
      nsum (map (fun c => shift_count (e_scale (run c) - e_scale (run (concat pre)))
                                       (b_start (sel (run c))) (b_counts (sel (run c))) b) pre).
  Proof.
    intros Hconcat HBI pre F Hord b.
    destruct (HBI _ F) as (_ & Hget & _). rewrite Hget, Hconcat, count_where_concat, map_map.
    f_equal. apply map_ext_in. intros c Hc.
    assert (Fc : fits_at_min_scale u ms c) by (eapply fits_incl; [exact F | now apply incl_cycle]).
    destruct (HBI c Fc) as (Hpos & Hgc & _).
    rewrite shift_count_tally with (u := u) (s := e_scale (run c)) (l := mags c);
      try exact Hpos; try exact Hgc; try (specialize (Hord c Hc); lia).
    all: try (apply count_where_ext; intros m _; f_equal; f_equal; lia).
    exact gb.
  Qed.

  Lemma BI_pos vs : fits_at_min_scale u ms vs -> BI u (e_scale (run vs)) (e_pos (run vs)) (posl vs).
  Proof. intro F. now destruct (EInv_run gb u ms mxs Hgb Hms Hmx vs F) as (_ & Hp & _). Qed.
  Lemma BI_neg vs : fits_at_min_scale u ms vs -> BI u (e_scale (run vs)) (e_neg (run vs)) (negl vs).
  Proof. intro F. now destruct (EInv_run gb u ms mxs Hgb Hms Hmx vs F) as (_ & _ & Hn & _). Qed.

  (** ** Scale order: the cumulative point's scale is at most every delta point's scale *)
  Lemma shiftr_mono a b d : 0 <= d -> a <= b -> Z.shiftr a d <= Z.shiftr b d.
  Proof. intros Hd H. rewrite !Z.shiftr_div_pow2 by exact Hd. apply Z.div_le_mono; [apply Z.pow_pos_nonneg; lia | exact H]. Qed.
  Lemma shiftr_diff_le a b d : 0 <= d -> a <= b -> Z.shiftr b d - Z.shiftr a d <= b - a.
  Proof.
    intros Hd H. rewrite !Z.shiftr_div_pow2 by exact Hd.
    assert (Hp : 0 < 2 ^ d) by (apply Z.pow_pos_nonneg; lia). set (p := 2 ^ d) in *.
    assert (b / p <= (a + (b - a) * p) / p).
    { apply Z.div_le_mono; [exact Hp|]. nia. }
    rewrite Z.div_add in H0 by lia. lia.
  Qed.

  (** "the magnitudes [l] do not fit into MaxSize buckets at scale [s]" *)
  Definition spans (s : Z) (l : list Z) : Prop :=
    exists m1 m2, In m1 l /\ In m2 l /\ ms <= exact_bin s m2 u - exact_bin s m1 u.
  Lemma spans_incl s l l' : spans s l -> incl l l' -> spans s l'.
  Proof. intros (m1 & m2 & H1 & H2 & H) Hi. exists m1, m2. auto. Qed.

  (** the scale is as high as the recorded values allow *)
  Definition Maxi (vs : list Z) (st : expo) : Prop :=
    e_scale st = mxs \/ spans (e_scale st + 1) (posl vs) \/ spans (e_scale st + 1) (negl vs).

  Lemma Maxi_extend vs v st st' : e_scale st' = e_scale st -> Maxi vs st -> Maxi (vs ++ [v]) st'.
  Proof.
    intros E [H|[H|H]]; unfold Maxi; rewrite E; [now left | right; left | right; right];
      (eapply spans_incl; [exact H|]); intros x Hx; [rewrite posl_snoc | rewrite negl_snoc]; apply in_or_app; now left.
  Qed.

  (** one sign of record: if the scale drops by d, the values did not fit one step above *)
  Lemma core_maximal s bk ob m l :
    s <= mxs -> 0 < m -> BI u s bk l ->
    match step_core gb u ms s bk ob m with
    | None => True
    | Some (s', _, _) => s' = s \/ spans (s' + 1) (l ++ [m])
    end.
  Proof.
    intros Hs Hm (Hpos & Hget & Hends). unfold step_core. cbv zeta.
    rewrite (get_bin_exact gb u mxs Hgb s m Hs Hm).
    set (bin := exact_bin s m u). set (d := scale_change ms bin (b_start bk) (blen bk)).
    destruct (Z.ltb_spec 0 d) as [Hd|Hd]; [|now left].
    destruct (Z.ltb_spec (s - d) (-10)); [exact I|]. right.
    unfold scale_change in d. destruct (Z.eqb_spec (blen bk) 0) as [E0|E0]; [subst d; lia|].
    assert (Hne : b_counts bk <> []) by (intro E; unfold blen in E0; rewrite E in E0; now apply E0).
    destruct (Hends Hne) as (m1 & m2 & Hi1 & Hi2 & Es & Ee).
    assert (Hp1 : 0 < m1) by (rewrite Forall_forall in Hpos; now apply Hpos).
    assert (Hp2 : 0 < m2) by (rewrite Forall_forall in Hpos; now apply Hpos).
    replace (s - d + 1) with (s - (d - 1)) by lia.
    destruct (Z.leb_spec bin (b_start bk)) as [Hle|Hgt].
    - pose proof (sc_loop_below 30 bin (b_start bk + blen bk - 1) ms (d - 1) ltac:(subst d; lia)) as Hb.
      exists m, m2. split; [apply in_or_app; right; now left|]. split; [apply in_or_app; now left|].
      rewrite !exact_bin_shift by lia. fold bin. unfold bend in Ee. rewrite <- Ee. exact Hb.
    - pose proof (sc_loop_below 30 (b_start bk) bin ms (d - 1) ltac:(subst d; lia)) as Hb.
      exists m1, m. split; [apply in_or_app; now left|]. split; [apply in_or_app; right; now left|].
      rewrite !exact_bin_shift by lia. fold bin. rewrite <- Es. exact Hb.
  Qed.

  Lemma Maxi_step vs st v : EInv u ms mxs vs st -> Maxi vs st -> Maxi (vs ++ [v]) (expo_record gb u ms st v).
  Proof.
    intros (Hs & Hp & Hn & _) HM. destruct (Z.eq_dec v 0) as [->|Hv].
    - apply (Maxi_extend vs 0 st); [|exact HM]. unfold expo_record. reflexivity.
    - rewrite (expo_record_core gb u ms) by exact Hv. cbv zeta. destruct (Z.ltb_spec v 0) as [Hneg|Hpos].
      + pose proof (core_maximal (e_scale st) (e_neg st) (e_pos st) (Z.abs v) (negl vs) ltac:(lia) ltac:(lia) Hn) as Hc.
        destruct (step_core _ _ _ _ _ _ _) as [[[s' bk'] ob']|].
        * destruct Hc as [->|Hsp].
          -- apply (Maxi_extend vs v st); [reflexivity | exact HM].
          -- right. right. cbn [with_buckets e_scale]. rewrite negl_snoc.
             replace (v <? 0) with true by lia. replace (Z.abs v) with (- v) in Hsp by lia. exact Hsp.
        * apply (Maxi_extend vs v st); [reflexivity | exact HM].
      + pose proof (core_maximal (e_scale st) (e_pos st) (e_neg st) (Z.abs v) (posl vs) ltac:(lia) ltac:(lia) Hp) as Hc.
        destruct (step_core _ _ _ _ _ _ _) as [[[s' bk'] ob']|].
        * destruct Hc as [->|Hsp].
          -- apply (Maxi_extend vs v st); [reflexivity | exact HM].
          -- right. left. cbn [with_buckets e_scale]. rewrite posl_snoc.
             replace (0 <? v) with true by lia. replace (Z.abs v) with v in Hsp by lia. exact Hsp.
        * apply (Maxi_extend vs v st); [reflexivity | exact HM].
  Qed.

  Lemma Maxi_run vs : fits_at_min_scale u ms vs -> Maxi vs (run vs).
  Proof.
    unfold expo_run. induction vs as [|v vs IH] using rev_ind; intro F.
    - left. reflexivity.
    - rewrite fold_left_app. cbn [fold_left].
      pose proof (fits_prefix u ms vs v F) as F'.
      apply Maxi_step; [exact (EInv_run gb u ms mxs Hgb Hms Hmx vs F') | now apply IH].
  Qed.

  (** a window of at most MaxSize buckets that tallies [l] cannot hold two values MaxSize bins apart,
      at its own scale or at any coarser one *)
  Lemma window_no_span s s' bk l : BI u s bk l -> blen bk <= ms -> s' <= s -> ~ spans s' l.
  Proof.
    intros (Hpos & Hget & _) Hlen Hs (m1 & m2 & H1 & H2 & Hsp).
    rewrite Forall_forall in Hpos.
    assert (Hin : forall m, In m l -> b_start bk <= exact_bin s m u < b_start bk + blen bk).
    { intros m Hm. pose proof (count_where_pos (fun m0 => exact_bin s m0 u =? exact_bin s m u) l m Hm (Z.eqb_refl _)) as Hc.
      rewrite <- Hget in Hc. unfold bget, bucket_get in Hc.
      destruct (Z.ltb_spec (exact_bin s m u) (b_start bk)); [lia|]. split; [lia|].
      destruct (Z_lt_le_dec (exact_bin s m u) (b_start bk + blen bk)) as [|Hge]; [assumption|].
      unfold blen in Hge. rewrite nth_overflow in Hc by lia. lia. }
    pose proof (Hin m1 H1) as I1. pose proof (Hin m2 H2) as I2.
    replace s' with (s - (s - s')) in Hsp by lia.
    rewrite !exact_bin_shift in Hsp by (try apply Hpos; auto; lia).
    destruct (Z_le_gt_dec (exact_bin s m1 u) (exact_bin s m2 u)) as [Hle|Hgt].
    - pose proof (shiftr_diff_le _ _ (s - s') ltac:(lia) Hle). lia.
    - pose proof (shiftr_mono (exact_bin s m2 u) (exact_bin s m1 u) (s - s') ltac:(lia) ltac:(lia)). lia.
  Qed.

  Lemma posl_incl ws vs : incl ws vs -> incl (posl ws) (posl vs).
  Proof. intros Hi x Hx. apply posl_in in Hx as [H1 H2]. apply posl_in. split; [now apply Hi | exact H2]. Qed.
  Lemma negl_incl ws vs : incl ws vs -> incl (negl ws) (negl vs).
  Proof. intros Hi x Hx. apply negl_in in Hx as [H1 H2]. apply negl_in. split; [now apply Hi | exact H2]. Qed.

  (** the aggregator that has seen more has the lower (or equal) scale *)
  Lemma scale_order vs ws : fits_at_min_scale u ms vs -> incl ws vs -> e_scale (run vs) <= e_scale (run ws).
  Proof.
    intros F Hi. assert (Fw : fits_at_min_scale u ms ws) by (eapply fits_incl; eassumption).
    destruct (EInv_run gb u ms mxs Hgb Hms Hmx vs F) as (Hs & Hp & Hn & Hlp & Hln & _).
    destruct (Z_le_gt_dec (e_scale (run vs)) (e_scale (run ws))) as [|Hgt]; [assumption|]. exfalso.
    destruct (Maxi_run ws Fw) as [E|[Hsp|Hsp]].
    - lia.
    - apply (window_no_span _ (e_scale (run ws) + 1) _ _ Hp Hlp ltac:(lia)).
      eapply spans_incl; [exact Hsp | now apply posl_incl].
    - apply (window_no_span _ (e_scale (run ws) + 1) _ _ Hn Hln ltac:(lia)).
      eapply spans_incl; [exact Hsp | now apply negl_incl].
  Qed.
End Guarded.

(** ** The clauses of [Spec.expo_ok], for the two streams of every history *)
Section Clauses.
  Variable gb : Z -> Z -> Z.
  Variables u ms mxs : Z.
  Hypothesis Hgb : positive_index_exact gb u mxs.
  Hypothesis Hms : 1 <= ms.
  Hypothesis Hmx : -10 <= mxs <= 20.
  Notation pt := (point_of gb u ms mxs).
  Notation cum := (cum_pt gb u ms mxs).
  Notation delta := (delta_pt gb u ms mxs).

  Lemma in_firstn_nth (cycles : list (list Z)) n c : In c (firstn (S n) cycles) -> incl c (upto cycles n).
  Proof. intros H x Hx. unfold upto. apply in_concat. now exists c. Qed.

  Lemma nth_in_firstn (cycles : list (list Z)) j n : (j <= n)%nat -> (j < length cycles)%nat ->
    In (nth j cycles []) (firstn (S n) cycles).
  Proof.
    revert j n. induction cycles as [|c r IH]; intros j n Hj Hl; [cbn in Hl; lia|].
    destruct j as [|j]; [now left|]. destruct n as [|n]; [lia|].
    change (firstn (S (S n)) (c :: r)) with (c :: firstn (S n) r). right. cbn [nth]. apply IH; [lia | cbn in Hl; lia].
  Qed.

  (** scale order *)
  Lemma cum_scale_le_delta cycles n j : fits_at_min_scale u ms (upto cycles n) ->
    (j <= n)%nat -> (j < length cycles)%nat -> ep_scale (cum cycles n) <= ep_scale (delta cycles j).
  Proof.
    intros F Hj Hl. unfold cum_pt, delta_pt, point_of, expo_to_point. cbn [ep_scale].
    apply (scale_order gb u ms mxs Hgb Hms Hmx); [exact F|]. apply in_firstn_nth. now apply nth_in_firstn.
  Qed.

  (** buckets: the count of bin b of the cumulative point is the sum, over the cycles, of the counts
      of the delta point's bins that shift to b *)
  Lemma cum_buckets cycles n : fits_at_min_scale u ms (upto cycles n) -> forall b,
    bucket_get (ep_pos_off (cum cycles n)) (ep_pos (cum cycles n)) b =
      nsum (map (fun c => shift_count (ep_scale (pt c) - ep_scale (cum cycles n)) (ep_pos_off (pt c)) (ep_pos (pt c)) b)
                (firstn (S n) cycles)) /\
    bucket_get (ep_neg_off (cum cycles n)) (ep_neg (cum cycles n)) b =
      nsum (map (fun c => shift_count (ep_scale (pt c) - ep_scale (cum cycles n)) (ep_neg_off (pt c)) (ep_neg (pt c)) b)
                (firstn (S n) cycles)).
  Proof.
    intros F b.
    assert (Hord : forall c, In c (firstn (S n) cycles) ->
              e_scale (expo_run gb u ms mxs (concat (firstn (S n) cycles))) <= e_scale (expo_run gb u ms mxs c)).
    { intros c Hc. apply (scale_order gb u ms mxs Hgb Hms Hmx); [exact F | now apply in_firstn_nth]. }
    split.
    - apply (cum_bucket_side gb u ms mxs) with (sel := e_pos) (mags := posl); try assumption;
        [apply posl_concat | apply (BI_pos gb u ms mxs Hgb Hms Hmx)].
    - apply (cum_bucket_side gb u ms mxs) with (sel := e_neg) (mags := negl); try assumption;
        [apply negl_concat | apply (BI_neg gb u ms mxs Hgb Hms Hmx)].
  Qed.

  (** all clauses together *)
  Definition ExpoClauses (cycles : list (list Z)) (n : nat) : Prop :=
    (* no guard on the values *)
    ep_count (cum cycles n) = nrun gb u ms mxs ep_count cycles n /\
    ep_sum (cum cycles n) = zrun gb u ms mxs ep_sum cycles n /\
    ep_zero (cum cycles n) = nrun gb u ms mxs ep_zero cycles n /\
    ep_scale (cum cycles (S n)) <= ep_scale (cum cycles n) /\
    (* while the values of each sign fit into MaxSize buckets at scale -10 *)
    (fits_at_min_scale u ms (upto cycles n) ->
       expo_count_ok (cum cycles n) /\
       (forall j, (j <= n)%nat -> (j < length cycles)%nat ->
          expo_count_ok (delta cycles j) /\ ep_scale (cum cycles n) <= ep_scale (delta cycles j)) /\
       forall b,
         bucket_get (ep_pos_off (cum cycles n)) (ep_pos (cum cycles n)) b =
           nsum (map (fun c => shift_count (ep_scale (pt c) - ep_scale (cum cycles n)) (ep_pos_off (pt c)) (ep_pos (pt c)) b)
                     (firstn (S n) cycles)) /\
         bucket_get (ep_neg_off (cum cycles n)) (ep_neg (cum cycles n)) b =
           nsum (map (fun c => shift_count (ep_scale (pt c) - ep_scale (cum cycles n)) (ep_neg_off (pt c)) (ep_neg (pt c)) b)
                     (firstn (S n) cycles))).

  Theorem expo_streams cycles n : ExpoClauses cycles n.
  Proof.
    unfold ExpoClauses. split; [apply cum_count|]. split; [apply cum_sum|]. split; [apply cum_zero|]. split; [apply cum_scale_never_rises|].
    intro F. split; [now apply (point_counts_ok gb u ms mxs Hgb Hms Hmx)|]. split.
    - intros j Hj Hl. split; [|now apply cum_scale_le_delta].
      apply (point_counts_ok gb u ms mxs Hgb Hms Hmx). eapply fits_incl; [exact F|].
      apply in_firstn_nth. now apply nth_in_firstn.
    - now apply cum_buckets.
  Qed.
End Clauses.
