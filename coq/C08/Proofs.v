(** C08 proofs. *)
From Verif Require Import Lib.Base Lib.MetricsModel C08.Spec C08.Model.
Open Scope Z_scope.

(** * Spec vocabulary = model vocabulary (same functions, defined twice) *)
Lemma pget_get k p : pget k p = get k p.
Proof. induction p as [|[k' v] r IH]; cbn; [reflexivity|]. now rewrite IH. Qed.
Lemma psorted_ksorted p : psorted p = ksorted p.
Proof.
  induction p as [|[k v] r IH]; [reflexivity|]. destruct r as [|[k' v'] r']; [reflexivity|].
  change (((k <? k')%N && psorted ((k', v') :: r')) = ((k <? k')%N && ksorted ((k', v') :: r'))). now rewrite IH.
Qed.
Lemma vplus_vadd a b : vplus a b = vadd a b.
Proof. reflexivity. Qed.
Lemma oplus_oadd a b : oplus a b = oadd a b.
Proof. reflexivity. Qed.

Lemma running_from_fold acc k ds :
  running_from acc k ds = fold_left (fun s p => oadd s (get k p)) ds acc.
Proof.
  unfold running_from. revert acc; induction ds as [|d r IH]; intros acc; cbn; [reflexivity|].
  now rewrite IH, oplus_oadd, pget_get.
Qed.

(** * The operational stream is the aggregator run over the cycles of the history *)
Definition cycles (x : ikind) (dl : bool) (i : inst) (h : list op) : list (list (skey * Z)) :=
  if is_async x then cycles_async_leaky dl i (normalize h []) [] [] else cycles_sync dl i (normalize h []) [].

Lemma vm_app x a b : vm x (a ++ b) = vm x a ++ vm x b.
Proof. unfold vm. apply map_app. Qed.

Lemma measure_all_app c l1 l2 a : measure_all c (l1 ++ l2) a = measure_all c l2 (measure_all c l1 a).
Proof. unfold measure_all. apply fold_left_app. Qed.

Lemma srun_sync x i t tm h : is_async x = false ->
  forall rs a n cur,
  srun x i t tm h {| s_regs := rs; s_agg := measure_all (cfg_of x t) (vm x cur) a; s_n := n |} =
  arun (cfg_of x t) (map (vm x) (cycles_sync (is_delta t) i h cur)) tm n a.
Proof.
  intros Ha. induction h as [|o r IH]; intros rs a n cur; [reflexivity|].
  destruct o as [i' k v|c insts|c|w script fl]; cbn [srun sstep cycles_sync]; rewrite ?Ha; cbn [orb s_regs s_agg s_n].
  - destruct (Nat.eqb i' i); cbn [negb app].
    + rewrite <- (IH rs a n (cur ++ [(k, v)])). rewrite vm_app, measure_all_app. reflexivity.
    + apply IH.
  - apply IH.
  - apply IH.
  - unfold collects_ok. destruct (includes w (is_delta t)); cbn [negb app andb]; [|apply IH].
    destruct (cancelled w); cbn [negb s_regs s_agg s_n app]; [apply IH|].
    cbn [map]. rewrite arun_cons.
    destruct (collect (cfg_of x t) (tm n) (measure_all (cfg_of x t) (vm x cur) a)) as [out a2] eqn:E.
    cbn [fst snd app]. f_equal. apply (IH rs a2 (S n) []).
Qed.

Lemma srun_async x i t tm h : is_async x = true ->
  forall rs a n carry,
  srun x i t tm h {| s_regs := rs; s_agg := measure_all (cfg_of x t) (vm x carry) a; s_n := n |} =
  arun (cfg_of x t) (map (vm x) (cycles_async_leaky (is_delta t) i h rs carry)) tm n a.
Proof.
  intros Ha. induction h as [|o r IH]; intros rs a n carry; [reflexivity|].
  destruct o as [i' k v|c insts|c|w script fl]; cbn [srun sstep cycles_async_leaky]; rewrite ?Ha; cbn [orb s_regs s_agg s_n].
  - apply IH.
  - apply IH.
  - apply IH.
  - destruct (includes w (is_delta t)); cbn [negb app]; [|apply IH].
    destruct (cancelled w); cbn [s_regs s_agg s_n app].
    + rewrite <- measure_all_app, <- vm_app. apply IH.
    + cbn [map]. rewrite arun_cons. rewrite <- measure_all_app, <- vm_app.
      destruct (collect (cfg_of x t) (tm n) (measure_all (cfg_of x t) (vm x (carry ++ delivered rs script i)) a)) as [out a2] eqn:E.
      cbn [fst snd app]. f_equal. apply (IH rs a2 (S n) []).
Qed.

Lemma stream_arun x i t t0 tm h :
  stream x i t t0 tm h = arun (cfg_of x t) (map (vm x) (cycles x (is_delta t) i h)) tm 0 (new_agg t0).
Proof.
  unfold stream, cycles. destruct (is_async x) eqn:Ha.
  - apply (srun_async x i t tm (normalize h []) Ha [] (new_agg t0) 0%nat []).
  - apply (srun_sync x i t tm (normalize h []) Ha [] (new_agg t0) 0%nat []).
Qed.

(** without a cancelled collection of this reader nothing leaks *)
Lemma leaky_calm dl i h : calm dl h = true -> forall rs,
  cycles_async_leaky dl i h rs [] = cycles_async dl i h rs.
Proof.
  induction h as [|o r IH]; intros Hc rs; [reflexivity|].
  cbn [calm forallb] in Hc. apply andb_true_iff in Hc as [Ho Hc]. fold (calm dl r) in Hc.
  destruct o as [i' k v|c insts|c|w script fl]; cbn [cycles_async_leaky cycles_async]; try (now apply IH).
  unfold collects_ok. destruct (includes w dl); cbn [andb] in *; [|now apply IH].
  apply negb_true_iff in Ho. rewrite Ho. cbn [negb app]. f_equal. now apply IH.
Qed.

Definition collects (dl : bool) (o : op) : bool := match o with Collect w _ _ => collects_ok w dl | _ => false end.
Lemma cycles_sync_length dl i h : forall cur, length (cycles_sync dl i h cur) = length (filter (collects dl) h).
Proof.
  induction h as [|o r IH]; intros cur; [reflexivity|]. destruct o; cbn [cycles_sync filter collects]; auto.
  destruct (collects_ok who dl); cbn; auto.
Qed.
Lemma cycles_leaky_length dl i h : forall rs carry, length (cycles_async_leaky dl i h rs carry) = length (filter (collects dl) h).
Proof.
  induction h as [|o r IH]; intros rs carry; [reflexivity|]. destruct o; cbn [cycles_async_leaky filter collects]; auto.
  unfold collects_ok. destruct (includes who dl); cbn [andb]; auto. destruct (cancelled who); cbn; auto.
Qed.

Lemma stream_length x i t t0 tm h : length (stream x i t t0 tm h) = length (cycles x (is_delta t) i h).
Proof. now rewrite stream_arun, arun_length, map_length. Qed.

(** * Times *)
Lemma nth_dflt (tr : list sobs) n : nth n tr dflt = nth n tr odflt.
Proof. reflexivity. Qed.

Lemma adjacent x i t0 tm h : Adjacent (stream x i Delta t0 tm h).
Proof.
  intros n Hn. rewrite stream_length in Hn. cbn [is_delta] in Hn. rewrite stream_arun. cbn [is_delta].
  change (o_start (nth (S n) (arun (cfg_of x Delta) (map (vm x) (cycles x true i h)) tm 0 (new_agg t0)) odflt) =
          o_time (nth n (arun (cfg_of x Delta) (map (vm x) (cycles x true i h)) tm 0 (new_agg t0)) odflt)).
  rewrite arun_nth_start_delta, arun_nth_time; rewrite ?map_length; try reflexivity; lia.
Qed.

Lemma delta_first_start x i t0 tm h : (0 < length (stream x i Delta t0 tm h))%nat ->
  s_start (nth 0 (stream x i Delta t0 tm h) dflt) = t0.
Proof.
  intros Hn. rewrite stream_length in Hn. cbn [is_delta] in Hn. rewrite stream_arun. cbn [is_delta].
  change (o_start (nth 0 (arun (cfg_of x Delta) (map (vm x) (cycles x true i h)) tm 0 (new_agg t0)) odflt) = t0).
  rewrite arun_nth_start_delta; rewrite ?map_length; try reflexivity; lia.
Qed.

Lemma cum_start x i t0 tm h n : (n < length (stream x i Cumulative t0 tm h))%nat ->
  s_start (nth n (stream x i Cumulative t0 tm h) dflt) = t0.
Proof.
  intros Hn. rewrite stream_length in Hn. cbn [is_delta] in Hn. rewrite stream_arun. cbn [is_delta].
  change (o_start (nth n (arun (cfg_of x Cumulative) (map (vm x) (cycles x false i h)) tm 0 (new_agg t0)) odflt) = t0).
  rewrite arun_nth_start_cum; rewrite ?map_length; try reflexivity; lia.
Qed.

Lemma start_fixed x i t0 tm h : StartFixed (stream x i Cumulative t0 tm h).
Proof. intros n m Hn Hm. now rewrite !cum_start. Qed.

Lemma stream_time x i t t0 tm h n : (n < length (stream x i t t0 tm h))%nat ->
  s_time (nth n (stream x i t t0 tm h) dflt) = tm n.
Proof.
  intros Hn. rewrite stream_length in Hn. cbn [is_delta] in Hn. rewrite stream_arun. cbn [is_delta].
  change (o_time (nth n (arun (cfg_of x t) (map (vm x) (cycles x (is_delta t) i h)) tm 0 (new_agg t0)) odflt) = tm n).
  rewrite arun_nth_time; rewrite ?map_length; try reflexivity; lia.
Qed.

Lemma start_le_time x i t t0 tm h : (t0 <= tm 0%nat)%N -> monotone tm -> StartLeTime (stream x i t t0 tm h).
Proof.
  intros H0 Hm n Hn. rewrite stream_time by exact Hn. destruct t.
  - destruct n as [|n].
    + rewrite delta_first_start by exact Hn. exact H0.
    + rewrite (adjacent x i t0 tm h n) by exact Hn. rewrite stream_time by lia. apply Hm. lia.
  - rewrite cum_start by exact Hn. eapply N.le_trans; [exact H0|]. apply Hm. lia.
Qed.

Lemma all_sorted x i t t0 tm h : AllSorted (stream x i t t0 tm h).
Proof.
  intros n Hn. rewrite stream_arun. rewrite psorted_ksorted.
  change (ksorted (o_points (nth n (arun (cfg_of x t) (map (vm x) (cycles x (is_delta t) i h)) tm 0 (new_agg t0)) odflt)) = true).
  now apply arun_sorted.
Qed.

(** * Points *)
Lemma nth_points (tr : list sobs) n : nth n (map s_points tr) [] = o_points (nth n tr odflt).
Proof. change [] with (s_points odflt) at 1. now rewrite map_nth. Qed.

Lemma nth_vm x cyc n : nth n (map (vm x) cyc) [] = vm x (nth n cyc []).
Proof. change [] with (vm x []) at 1. now rewrite map_nth. Qed.

(** clause 1 *)
Lemma concat_vm x cs : concat (map (vm x) cs) = vm x (concat cs).
Proof. induction cs as [|c r IH]; [reflexivity|]. cbn [map concat]. now rewrite IH, vm_app. Qed.

(** at a point where both readers collect, both have been fed the same measurements *)
Lemma sync_concat i h : forall curD curC (accD accC : list (skey * Z)) nd0 nc0,
  accD ++ curD = accC ++ curC ->
  forall nd nc, In (nd, nc) (sync_points h nd0 nc0) ->
  exists nd' nc', nd = (nd0 + nd')%nat /\ nc = (nc0 + nc')%nat /\
    (nd' < length (cycles_sync true i h curD))%nat /\ (nc' < length (cycles_sync false i h curC))%nat /\
    accD ++ concat (firstn (S nd') (cycles_sync true i h curD)) =
    accC ++ concat (firstn (S nc') (cycles_sync false i h curC)).
Proof.
  induction h as [|o r IH]; intros curD curC accD accC nd0 nc0 Heq nd nc Hin; [destruct Hin|].
  destruct o as [i' k v|c insts|c|w script fl]; cbn [sync_points cycles_sync] in *.
  - apply (IH _ _ accD accC nd0 nc0); [|exact Hin].
    destruct (Nat.eqb i' i); [|exact Heq]. now rewrite !app_assoc, Heq.
  - now apply (IH _ _ accD accC nd0 nc0).
  - now apply (IH _ _ accD accC nd0 nc0).
  - destruct (N.eqb_spec w 0) as [->|N0]; [|destruct (N.eqb_spec w 1) as [->|N1]; [|destruct (N.eqb_spec w 2) as [->|N2]]].
    + change (collects_ok 0 true) with true in *. change (collects_ok 0 false) with true in *.
      destruct Hin as [E|Hin].
      * inversion E; subst. exists 0%nat, 0%nat. cbn [length firstn concat]. rewrite !app_nil_r.
        repeat split; try lia. exact Heq.
      * destruct (IH [] [] (accD ++ curD) (accC ++ curC) (S nd0) (S nc0) ltac:(now rewrite !app_nil_r) nd nc Hin)
          as [nd' [nc' [E1 [E2 [L1 [L2 E3]]]]]].
        exists (S nd'), (S nc'). cbn [length]. repeat split; try lia.
        change (firstn (S (S nd')) (curD :: ?y)) with (curD :: firstn (S nd') y).
        change (firstn (S (S nc')) (curC :: ?y)) with (curC :: firstn (S nc') y).
        cbn [concat]. now rewrite !app_assoc.
    + change (collects_ok 1 true) with true in *. change (collects_ok 1 false) with false in *.
      destruct (IH [] curC (accD ++ curD) accC (S nd0) nc0 ltac:(now rewrite app_nil_r) nd nc Hin)
        as [nd' [nc' [E1 [E2 [L1 [L2 E3]]]]]].
      exists (S nd'), nc'. cbn [length]. repeat split; try lia.
      change (firstn (S (S nd')) (curD :: ?y)) with (curD :: firstn (S nd') y).
      cbn [concat]. now rewrite app_assoc.
    + change (collects_ok 2 true) with false in *. change (collects_ok 2 false) with true in *.
      destruct (IH curD [] accD (accC ++ curC) nd0 (S nc0) ltac:(now rewrite app_nil_r) nd nc Hin)
        as [nd' [nc' [E1 [E2 [L1 [L2 E3]]]]]].
      exists nd', (S nc'). cbn [length]. repeat split; try lia.
      change (firstn (S (S nc')) (curC :: ?y)) with (curC :: firstn (S nc') y).
      cbn [concat]. now rewrite app_assoc.
    + (* a cancelled collection: nobody collects *)
      assert (Hc : cancelled w = true) by (unfold cancelled; apply N.leb_le; lia).
      unfold collects_ok in *. rewrite Hc, !andb_false_r in *.
      now apply (IH _ _ accD accC nd0 nc0).
Qed.

Lemma running_delta x i t0 t0' tm tm' h : class_of x = CSyncAdd ->
  RunningDelta (sync_points (normalize h []) 0 0) (map s_points (stream x i Delta t0 tm h)) (map s_points (stream x i Cumulative t0' tm' h)).
Proof.
  intros Hx.
  assert (Ha : is_async x = false /\ kop x = OpAdd) by (destruct x; try discriminate; auto).
  destruct Ha as [Ha Ho].
  intros nd nc k Hin.
  assert (HcD : cycles x true i h = cycles_sync true i (normalize h []) []) by (unfold cycles; now rewrite Ha).
  assert (HcC : cycles x false i h = cycles_sync false i (normalize h []) []) by (unfold cycles; now rewrite Ha).
  set (hn := normalize h []) in *.
  destruct (sync_concat i hn [] [] [] [] 0%nat 0%nat eq_refl nd nc Hin) as [nd' [nc' [E1 [E2 [L1 [L2 E3]]]]]].
  cbn [Nat.add app] in *. subst nd' nc'.
  rewrite nth_points, pget_get. unfold running. rewrite running_from_fold. rewrite !stream_arun. cbn [is_delta].
  rewrite HcD, HcC.
  change (map s_points ?l) with (map o_points l).
  assert (H1 : a_op (cfg_of x Delta) = OpAdd) by exact Ho.
  assert (H2 : clears (cfg_of x Delta) = true) by reflexivity.
  assert (H3 : is_presum_delta (cfg_of x Delta) = false) by (unfold is_presum_delta; cbn; now rewrite Ha, Ho).
  assert (H4 : clears (cfg_of x Cumulative) = false) by (cbn; exact Ha).
  rewrite (arun_delta_running (cfg_of x Delta) _ tm H1 H2 H3 0%nat (new_agg t0) (S nd) k None eq_refl).
  rewrite (arun_sofar (cfg_of x Cumulative) _ tm' H4) by (now rewrite map_length).
  cbn [cfg_of a_op new_agg vals get]. rewrite Ho. cbn [ocomb oadd].
  rewrite !firstn_map, !concat_vm. now rewrite E3.
Qed.

(** scalar instruments: the folded cycle value is the spec's cycle value *)
Lemma ofold_add_total x k c : (forall v, vecof x v = [v]) ->
  ofold OpAdd (sel k (vm x c)) = one (cyc_total k c).
Proof.
  intros Hv. induction c as [|[k' v] r IH]; [reflexivity|].
  cbn [vm map sel fst snd ofold fold_right cyc_total]. fold (vm x r). fold (sel k (vm x r)). fold (ofold OpAdd (sel k (vm x r))).
  rewrite IH, Hv. destruct (N.eqb_spec k' k).
  - destruct (cyc_total k r); cbn; [reflexivity | now rewrite Z.add_0_r].
  - reflexivity.
Qed.

Lemma ofold_set_last x k c : (forall v, vecof x v = [v]) ->
  ofold OpSet (sel k (vm x c)) = one (cyc_last k c).
Proof.
  intros Hv. induction c as [|[k' v] r IH]; [reflexivity|].
  cbn [vm map sel fst snd ofold fold_right cyc_last]. fold (vm x r). fold (sel k (vm x r)). fold (ofold OpSet (sel k (vm x r))).
  rewrite IH, Hv. destruct (cyc_last k r); destruct (N.eqb_spec k' k); reflexivity.
Qed.

Lemma scalar_kind x : (match x with KHist _ | KExpo _ | KHistNS _ => False | _ => True end) -> forall v, vecof x v = [v].
Proof. destruct x; intros H v; try reflexivity; contradiction. Qed.

(** clause 3 *)
Lemma async_cum x i t0 tm h : class_of x = CAsyncSum ->
  AsyncCum (cycles x false i h) (map s_points (stream x i Cumulative t0 tm h)).
Proof.
  intros Hx.
  assert (Ha : is_async x = true /\ kop x = OpAdd /\ forall v, vecof x v = [v]) by (destruct x; try discriminate; auto).
  destruct Ha as [Ha [Ho Hv]].
  split; [rewrite map_length, stream_length; cbn [is_delta]; reflexivity|].
  intros n k Hn. rewrite nth_points, pget_get, stream_arun. cbn [is_delta].
  assert (Hcl : clears (cfg_of x Cumulative) = true) by (cbn; exact Ha).
  assert (Hp : is_presum_delta (cfg_of x Cumulative) = false) by (unfold is_presum_delta; cbn; now rewrite Ho).
  rewrite (arun_cycle_exact _ _ _ Hcl Hp); [| reflexivity | now rewrite map_length].
  cbn [cfg_of a_op]. rewrite Ho, nth_vm. now apply ofold_add_total.
Qed.

Lemma async_delta x i t0 tm h : class_of x = CAsyncSum ->
  AsyncDelta (cycles x true i h) (map s_points (stream x i Delta t0 tm h)).
Proof.
  intros Hx.
  assert (Ha : is_async x = true /\ kop x = OpAdd /\ forall v, vecof x v = [v]) by (destruct x; try discriminate; auto).
  destruct Ha as [Ha [Ho Hv]].
  split; [rewrite map_length, stream_length; cbn [is_delta]; reflexivity|].
  intros n k Hn. rewrite nth_points, pget_get, stream_arun. cbn [is_delta].
  assert (Hp : is_presum_delta (cfg_of x Delta) = true) by (unfold is_presum_delta; cbn; now rewrite Ho, Ha).
  rewrite (arun_presum_delta _ _ _ Hp 0%nat (new_agg t0) n k []);
    [| reflexivity | reflexivity | now rewrite map_length].
  rewrite nth_vm, (ofold_add_total x k _ Hv).
  destruct (cyc_total k (nth n (cycles x true i h) [])) as [y|]; [|reflexivity].
  cbn [one option_map]. do 2 f_equal. destruct n as [|n]; cbn [prev_total sel map ofold fold_right ovz].
  - cbn. now rewrite Z.sub_0_r.
  - rewrite nth_vm, (ofold_add_total x k _ Hv).
    destruct (cyc_total k (nth n (cycles x true i h) [])) as [p|]; cbn; [now rewrite Z.add_opp_r | now rewrite Z.sub_0_r].
Qed.

(** clause 4 *)
Lemma gauge_cycle x i t t0 tm h :
  (class_of x = CAsyncGauge \/ (class_of x = CSyncGauge /\ t = Delta)) ->
  GaugeCycle (cycles x (is_delta t) i h) (map s_points (stream x i t t0 tm h)).
Proof.
  intros Hx.
  assert (Ho : kop x = OpSet /\ (forall v, vecof x v = [v]) /\ clears (cfg_of x t) = true /\ is_presum_delta (cfg_of x t) = false).
  { destruct Hx as [Hx|[Hx Ht]]; [|subst t]; destruct x; try discriminate; cbn; try destruct t; auto. }
  destruct Ho as [Ho [Hv [Hc Hp]]].
  split; [now rewrite map_length, stream_length|].
  intros n k Hn. rewrite nth_points, pget_get, stream_arun.
  rewrite arun_cycle_exact; try assumption; try reflexivity; [|now rewrite map_length].
  rewrite nth_vm. cbn [cfg_of a_op]. rewrite Ho. now apply ofold_set_last.
Qed.


Lemma gauge_sofar x i t0 tm h : class_of x = CSyncGauge ->
  GaugeSoFar (cycles_sync false i (normalize h []) []) (map s_points (stream x i Cumulative t0 tm h)).
Proof.
  intros Hx.
  assert (Ha : x = KGauge) by (destruct x; try discriminate; reflexivity). subst x.
  assert (Hc : cycles KGauge false i h = cycles_sync false i (normalize h []) []) by reflexivity.
  split; [rewrite map_length, stream_length; cbn [is_delta]; now rewrite Hc|].
  intros n k Hn. rewrite nth_points, pget_get, stream_arun. cbn [is_delta]. rewrite Hc.
  rewrite arun_sofar; try reflexivity; [|now rewrite map_length].
  cbn [new_agg vals get ocomb cfg_of a_op kop]. rewrite firstn_map, concat_vm.
  apply ofold_set_last. reflexivity.
Qed.

(** * An unregistered callback is silent *)
Lemma cycles_sync_erase dl i c h : forall cur, cycles_sync dl i (erase_cb c h) cur = cycles_sync dl i h cur.
Proof.
  induction h as [|o r IH]; intros cur; [reflexivity|].
  destruct o; cbn [erase_cb map cycles_sync]; fold (erase_cb c r); rewrite ?IH; reflexivity.
Qed.

Definition no_reg (c : cbid) (rs : list reg) : Prop := forall r, In r rs -> fst r <> c.

Lemma filter_erase c c' i (script : list attempt) : c' <> c ->
  filter (fun a => (at_cb a =? c')%N && Nat.eqb (at_inst a) i) (filter (fun a => negb (at_cb a =? c)%N) script) =
  filter (fun a => (at_cb a =? c')%N && Nat.eqb (at_inst a) i) script.
Proof.
  intros Hr. induction script as [|a s IHs]; [reflexivity|]. cbn [filter].
  destruct (N.eqb_spec (at_cb a) c) as [E|E]; cbn [negb].
  - destruct (N.eqb_spec (at_cb a) c') as [E'|E']; [congruence|]. cbn [andb]. exact IHs.
  - cbn [filter]. destruct ((at_cb a =? c')%N && Nat.eqb (at_inst a) i); [now rewrite IHs | exact IHs].
Qed.

Lemma delivered_erase c rs script i : no_reg c rs ->
  delivered rs (filter (fun a => negb (at_cb a =? c)%N) script) i = delivered rs script i.
Proof.
  intros Hn. unfold delivered. induction rs as [|r rs IH]; [reflexivity|].
  cbn [flat_map]. rewrite IH by (intros r' Hr; apply Hn; now right).
  rewrite filter_erase; [reflexivity|]. apply Hn. now left.
Qed.

Lemma no_reg_firstn c n rs : no_reg c rs -> no_reg c (firstn n rs).
Proof. intros H r Hr. apply H. rewrite <- (firstn_skipn n rs). apply in_or_app. now left. Qed.

Lemma no_reg_step c rs o : no_reg c rs -> registers c o = false -> no_reg c (reg_step rs o).
Proof.
  intros Hn Ho. destruct o as [| c' insts | c' |]; cbn [reg_step]; try exact Hn.
  - intros r Hr. apply in_app_or in Hr as [Hr|[<-|[]]]; [now apply Hn|]. cbn in *.
    destruct (N.eqb_spec c' c); [discriminate | assumption].
  - intros r Hr. apply filter_In in Hr as [Hr _]. now apply Hn.
Qed.

Lemma cycles_leaky_erase dl i c h : forall rs carry, no_reg c rs -> forallb (fun o => negb (registers c o)) h = true ->
  cycles_async_leaky dl i (erase_cb c h) rs carry = cycles_async_leaky dl i h rs carry.
Proof.
  induction h as [|o r IH]; intros rs carry Hn Hh; [reflexivity|].
  cbn [forallb] in Hh. apply andb_true_iff in Hh as [Ho Hh]. apply negb_true_iff in Ho.
  destruct o as [i' k v|c' insts|c'|w script fl]; cbn [erase_cb map cycles_async_leaky]; fold (erase_cb c r).
  - now apply IH.
  - apply IH; [|exact Hh]. now apply (no_reg_step c rs (Register c' insts)).
  - apply IH; [|exact Hh]. now apply (no_reg_step c rs (Unregister c')).
  - rewrite !delivered_erase by (try apply no_reg_firstn; exact Hn). rewrite !IH by assumption. reflexivity.
Qed.

(** state of the cycle functions after a prefix *)
Definition sync_end (i : inst) (h : list op) (dl : bool) (cur : list (skey * Z)) : list (skey * Z) :=
  fold_left (fun cur o => match o with
                          | Measure i' k v => if Nat.eqb i' i then cur ++ [(k, v)] else cur
                          | Collect w _ _ => if collects_ok w dl then [] else cur
                          | _ => cur end) h cur.
Definition leaky_end (i : inst) (h : list op) (dl : bool) (st : list reg * list (skey * Z)) : list reg * list (skey * Z) :=
  fold_left (fun st o => match o with
                         | Collect w s _ => if includes w dl then (if cancelled w then (fst st, snd st ++ delivered (firstn 1 (fst st)) s i) else (fst st, []))
                                            else st
                         | _ => (reg_step (fst st) o, snd st) end) h st.

Lemma cycles_sync_app dl i h1 h2 : forall cur,
  cycles_sync dl i (h1 ++ h2) cur = cycles_sync dl i h1 cur ++ cycles_sync dl i h2 (sync_end i h1 dl cur).
Proof.
  induction h1 as [|o r IH]; intros cur; [reflexivity|].
  destruct o as [i' k v|c' insts|c'|w script fl]; cbn [app cycles_sync sync_end fold_left]; try apply IH.
  destruct (collects_ok w dl); [cbn [app]; f_equal|]; apply IH.
Qed.

Lemma cycles_leaky_app dl i h1 h2 : forall rs carry,
  cycles_async_leaky dl i (h1 ++ h2) rs carry =
  cycles_async_leaky dl i h1 rs carry ++
  cycles_async_leaky dl i h2 (fst (leaky_end i h1 dl (rs, carry))) (snd (leaky_end i h1 dl (rs, carry))).
Proof.
  induction h1 as [|o r IH]; intros rs carry; [reflexivity|].
  destruct o as [i' k v|c' insts|c'|w script fl]; cbn [app cycles_async_leaky leaky_end fold_left fst snd]; try apply IH.
  destruct (includes w dl); [|apply IH]. destruct (cancelled w); [apply IH|]. cbn [app]. f_equal. apply IH.
Qed.

Lemma leaky_end_regs i h dl : forall rs carry, fst (leaky_end i h dl (rs, carry)) = fold_left reg_step h rs.
Proof.
  induction h as [|o r IH]; intros rs carry; [reflexivity|].
  destruct o as [i' k v|c' insts|c'|w script fl]; cbn [leaky_end fold_left fst snd reg_step]; try apply IH.
  destruct (includes w dl); [destruct (cancelled w)|]; apply IH.
Qed.

(** normalisation only rewrites the [who] of some collections *)
Lemma normalize_erase c h : forall rs, normalize (erase_cb c h) rs = erase_cb c (normalize h rs).
Proof. induction h as [|o r IH]; intro rs; [reflexivity|]. destruct o; cbn [erase_cb map normalize reg_step]; fold (erase_cb c r); now rewrite IH. Qed.
Lemma normalize_app h1 h2 : forall rs, normalize (h1 ++ h2) rs = normalize h1 rs ++ normalize h2 (fold_left reg_step h1 rs).
Proof. induction h1 as [|o r IH]; intro rs; [reflexivity|]. destruct o; cbn [app normalize fold_left reg_step]; now rewrite IH. Qed.
Lemma normalize_regs h : forall rs, fold_left reg_step (normalize h rs) rs = fold_left reg_step h rs.
Proof. induction h as [|o r IH]; intro rs; [reflexivity|]. destruct o; cbn [normalize fold_left reg_step]; apply IH. Qed.
Lemma normalize_registers c h : forall rs,
  forallb (fun o => negb (registers c o)) (normalize h rs) = forallb (fun o => negb (registers c o)) h.
Proof. induction h as [|o r IH]; intro rs; [reflexivity|]. destruct o; cbn [normalize forallb registers]; now rewrite IH. Qed.

Lemma unregister_no_reg c rs : no_reg c (reg_step rs (Unregister c)).
Proof.
  intros r Hr. cbn in Hr. apply filter_In in Hr as [_ Hr]. apply negb_true_iff in Hr.
  now apply N.eqb_neq.
Qed.

Lemma cycles_unregistered x dl i c h1 h2 : forallb (fun o => negb (registers c o)) h2 = true ->
  cycles x dl i (h1 ++ Unregister c :: erase_cb c h2) = cycles x dl i (h1 ++ Unregister c :: h2).
Proof.
  intros Hh. unfold cycles. rewrite !normalize_app. cbn [normalize reg_step].
  set (rs1 := filter (fun r => negb (fst r =? c)%N) (fold_left reg_step h1 [])).
  rewrite normalize_erase. set (H2 := normalize h2 rs1).
  assert (HH : forallb (fun o => negb (registers c o)) H2 = true) by (unfold H2; now rewrite normalize_registers).
  destruct (is_async x).
  - rewrite !cycles_leaky_app. f_equal. cbn [cycles_async_leaky]. rewrite !leaky_end_regs, normalize_regs.
    apply cycles_leaky_erase; [apply (unregister_no_reg c) | exact HH].
  - rewrite !cycles_sync_app. f_equal. cbn [cycles_sync]. apply cycles_sync_erase.
Qed.

Lemma unregistered_silent x i t t0 tm c h1 h2 : forallb (fun o => negb (registers c o)) h2 = true ->
  stream x i t t0 tm (h1 ++ Unregister c :: erase_cb c h2) = stream x i t t0 tm (h1 ++ Unregister c :: h2).
Proof. intros Hh. rewrite !stream_arun. now rewrite cycles_unregistered. Qed.

(** never-registered callbacks are silent too (the initial registration list is empty) *)
Lemma never_registered_silent x i t t0 tm c h : forallb (fun o => negb (registers c o)) h = true ->
  stream x i t t0 tm (erase_cb c h) = stream x i t t0 tm h.
Proof.
  intros Hh. rewrite !stream_arun. f_equal. f_equal. unfold cycles. rewrite normalize_erase. destruct (is_async x).
  - apply cycles_leaky_erase; [intros r []| now rewrite normalize_registers].
  - apply cycles_sync_erase.
Qed.

(** * Corollary: an asynchronous sum observed in every cycle since its first appearance has a
    cumulative value equal to the running total of its deltas (telescoping). *)
Lemma async_delta_telescope cycles k : forall n m y,
  (n + m < length cycles)%nat ->
  (forall j, (n <= j <= n + m)%nat -> cyc_total k (nth j cycles []) <> None) ->
  cyc_total k (nth (n + m) cycles []) = Some y ->
  fold_left Z.add
    (map (fun j => match cyc_total k (nth j cycles []) with Some x => x - prev_total k cycles j | None => 0 end)
         (seq n (S m))) 0 = y - prev_total k cycles n.
Proof.
  intros n m. revert n. induction m as [|m IH]; intros n y Hl Hall Hy.
  - cbn. rewrite Nat.add_0_r in Hy. rewrite Hy. lia.
  - rewrite seq_S, map_app, fold_left_app. cbn [map fold_left].
    replace (n + S (S m))%nat with (S (n + S m)) by lia.
    replace (n + S m)%nat with (S (n + m)) in * by lia.
    rewrite Hy.
    destruct (cyc_total k (nth (n + m) cycles [])) as [p|] eqn:Ep.
    2: { exfalso. apply (Hall (n + m)%nat); [lia | exact Ep]. }
    rewrite (IH n p); [|lia| |exact Ep].
    + cbn [prev_total]. rewrite Ep. lia.
    + intros j Hj. apply Hall. lia.
Qed.

Lemma cycles_async_calm x dl i h : is_async x = true -> calm dl (normalize h []) = true ->
  cycles x dl i h = cycles_async dl i (normalize h []) [].
Proof. intros Ha Hc. unfold cycles. rewrite Ha. now apply leaky_calm. Qed.

Lemma gauge_last : forall x i h t0 t0' tm tm',
  (class_of x = CSyncGauge ->
     GaugeCycle (cycles_sync true i (normalize h []) []) (map s_points (stream x i Delta t0 tm h)) /\
     GaugeSoFar (cycles_sync false i (normalize h []) []) (map s_points (stream x i Cumulative t0' tm' h))) /\
  (class_of x = CAsyncGauge ->
     (calm true (normalize h []) = true ->
        GaugeCycle (cycles_async true i (normalize h []) []) (map s_points (stream x i Delta t0 tm h))) /\
     (calm false (normalize h []) = true ->
        GaugeCycle (cycles_async false i (normalize h []) []) (map s_points (stream x i Cumulative t0' tm' h)))).
Proof.
  intros. split; intros Hx.
  - split; [|now apply gauge_sofar].
    replace (cycles_sync true i (normalize h []) []) with (cycles x (is_delta Delta) i h) by (destruct x; try discriminate; reflexivity).
    apply gauge_cycle. right. now split.
  - assert (Ha : is_async x = true) by (destruct x; try discriminate; reflexivity).
    split; intro Hc; rewrite <- (cycles_async_calm x _ i h Ha Hc).
    + apply (gauge_cycle x i Delta); now left.
    + apply (gauge_cycle x i Cumulative); now left.
Qed.

Lemma async_exact : forall x i h t0 t0' tm tm', class_of x = CAsyncSum ->
  (calm true (normalize h []) = true ->
     AsyncDelta (cycles_async true i (normalize h []) []) (map s_points (stream x i Delta t0 tm h))) /\
  (calm false (normalize h []) = true ->
     AsyncCum (cycles_async false i (normalize h []) []) (map s_points (stream x i Cumulative t0' tm' h))).
Proof.
  intros x i h t0 t0' tm tm' Hx.
  assert (Ha : is_async x = true) by (destruct x; try discriminate; reflexivity).
  split; intro Hc; rewrite <- (cycles_async_calm x _ i h Ha Hc); [now apply async_delta | now apply async_cum].
Qed.

Lemma points_canonical : forall x i t t0 tm h,
  AllSorted (stream x i t t0 tm h) /\
  length (stream x i t t0 tm h) = length (filter (collects (is_delta t)) (normalize h [])).
Proof.
  intros. split; [apply all_sorted|]. rewrite stream_length. unfold cycles.
  destruct (is_async x); [apply cycles_leaky_length | apply cycles_sync_length].
Qed.

(** * A callback that returns an error changes nothing but the error report *)
Definition clear_fail (h : list op) : list op :=
  map (fun o => match o with Collect w s _ => Collect w s [] | _ => o end) h.

Lemma normalize_clear_fail h : forall rs, normalize (clear_fail h) rs = clear_fail (normalize h rs).
Proof. induction h as [|o r IH]; intro rs; [reflexivity|]. destruct o; cbn [clear_fail map normalize reg_step]; fold (clear_fail r); now rewrite IH. Qed.
Lemma cycles_sync_clear_fail dl i h : forall cur, cycles_sync dl i (clear_fail h) cur = cycles_sync dl i h cur.
Proof. induction h as [|o r IH]; intros cur; [reflexivity|]. destruct o; cbn [clear_fail map cycles_sync]; fold (clear_fail r); rewrite ?IH; reflexivity. Qed.
Lemma cycles_leaky_clear_fail dl i h : forall rs carry, cycles_async_leaky dl i (clear_fail h) rs carry = cycles_async_leaky dl i h rs carry.
Proof. induction h as [|o r IH]; intros rs carry; [reflexivity|]. destruct o; cbn [clear_fail map cycles_async_leaky reg_step]; fold (clear_fail r); rewrite ?IH; reflexivity. Qed.

Lemma callback_error_harmless x i t t0 tm h : stream x i t t0 tm (clear_fail h) = stream x i t t0 tm h.
Proof.
  rewrite !stream_arun. f_equal. f_equal. unfold cycles. rewrite normalize_clear_fail.
  destruct (is_async x); [apply cycles_leaky_clear_fail | apply cycles_sync_clear_fail].
Qed.

(** * Finding F-C08-1: a collection with a cancelled context leaves the first callback's observations
    behind.  Witness: callback 7 on observable counter 0; it observes 10 during a cancelled Collect of
    the delta reader, then 20 during a normal one: the delta reader reports 30. *)
Definition leak_h : list op :=
  [Register 7%N [0%nat]; Collect 4 [(7%N, 0%nat, 0%N, 10)] []; Collect 1 [(7%N, 0%nat, 0%N, 20)] []].
Lemma async_exact_refuted :
  exists x i h, class_of x = CAsyncSum /\
    ~ AsyncDelta (cycles_async true i (normalize h []) []) (map s_points (stream x i Delta 0%N (fun n => N.of_nat (S n)) h)).
Proof.
  exists KObsCounter, 0%nat, leak_h. split; [reflexivity|]. intros [_ H].
  specialize (H 0%nat 0%N ltac:(vm_compute; lia)). vm_compute in H. discriminate.
Qed.
