(** C08 correspondence: evaluates model and spec on the histories the Go harness
    drove through two ManualReaders (delta, cumulative) of one MeterProvider. *)
From Verif Require Import Lib.Base Lib.MetricsModel C08.Spec C08.Model.
Open Scope N_scope.

(** compact literals: integers are zig-zag encoded naturals (2z / -2z-1) *)
Definition zz (n : N) : Z := if N.even n then Z.of_N (n / 2) else (- Z.of_N ((n + 1) / 2))%Z.
Definition zs (l : list N) : list Z := map zz l.

Definition M (i k v : N) : op := Measure (N.to_nat i) k (zz v).
Definition Rg (c : N) (insts : list N) : op := Register c (map N.to_nat insts).
Definition Un (c : N) : op := Unregister c.
Definition A (c i k v : N) : attempt := (c, N.to_nat i, k, zz v).
Definition Co (w : N) (s : list attempt) (f : list N) : op := Collect w s f.
Definition P (k : N) (v : list N) : skey * svec := (k, zs v).
(** one stream in one collection: start rank, time rank (0 0 when not reported), points *)
Definition O (s t : N) (p : points) : sobs := (s, t, p).
Definition KH (b : list N) : ikind := KHist (zs b).
Definition KE (u : N) : ikind := KExpo (Z.of_N u).
Definition KHN (b : list N) : ikind := KHistNS (zs b).

Definition B (i c : N) : Z * Z := (zz i, Z.of_N c).
Definition EP (k sc sum cnt zero : N) (pos neg : ebuckets) : epoint :=
  {| e_key := k; e_scale := zz sc; e_sum := zz sum; e_count := Z.of_N cnt; e_zero := Z.of_N zero; e_pos := pos; e_neg := neg |}.
Definition MC (k c f : N) : skey * Z * N := (k, Z.of_N c, f).

Inductive case :=
| CExpo (maxsize : N) (meas : list (list (skey * Z * N))) (obs : list (list epoint * list epoint))
| CHist (kinds : list ikind) (h : list op) (obs : list (list sobs * list sobs)) (errs : list bool * list bool).

Definition pts_eqb (a b : list sobs) : bool :=
  list_eqb (fun x y => amap_eqb (s_points x) (s_points y)) a b.

Definition traces_eqb (m o : list (list sobs * list sobs)) : bool :=
  list_eqb (fun x y => pts_eqb (fst x) (fst y) && pts_eqb (snd x) (snd y)) m o.

(** per stream: 0 = satisfies the property, 1 = instance of finding F-C08-1 (an asynchronous
    stream whose reader collected with a cancelled context while callbacks were registered, and
    whose points are exactly what the leaky reading predicts), 2 = violation *)
Definition stream_verdict (x : ikind) (i : nat) (h : list op) (dtr ctr : list sobs) : N :=
  if stream_ok false (class_of x) i h dtr ctr then 0
  else if is_async x && negb (calm true (normalize h []) && calm false (normalize h [])) &&
          stream_ok true (class_of x) i h dtr ctr then 1 else 2.

Definition verdicts (kinds : list ikind) (h : list op) (o : list (list sobs * list sobs)) : list N :=
  map (fun ixo => stream_verdict (snd (fst ixo)) (fst (fst ixo)) h (fst (snd ixo)) (snd (snd ixo)))
      (combine (enum_from 0 kinds) o).

Definition flag (b : bool) (code : N) : list N := if b then [] else [code].

Definition check_case (c : case) : list N :=
  match c with
  | CExpo maxsize meas obs => flag (expo_ok maxsize meas obs) V_SPECFAIL
  | CHist kinds h obs errs =>
      let m := model kinds 0 (fun n => N.of_nat (S n)) h in
      let vs := verdicts kinds h obs in
      let hn := normalize h [] in
      flag (traces_eqb m obs) V_MISMATCH ++
      (* each reader's Collect reports an error exactly in its cycles in which a registered callback
         failed or the context was cancelled (with a callback registered) *)
      (if negb (Nat.eqb (length kinds) (length obs)) || existsb (N.eqb 2) vs ||
          negb (list_eqb Bool.eqb (fst errs) (errs_of true hn []) && list_eqb Bool.eqb (snd errs) (errs_of false hn []))
       then [V_SPECFAIL] else if existsb (N.eqb 1) vs then [V_KNOWN 1] else []) ++
      flag (forallb (fun v => negb (v =? 2)) (verdicts kinds h m)) V_MODELSPEC
  end.

Definition run (cs : list case) : list (N * N) := index_from 0 check_case cs.
