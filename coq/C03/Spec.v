(** C03 specification: the W3C Trace Context grammar and the property's
    clauses, written against the recommendation (not against the model).

    traceparent (version 00) = "00" "-" 32HEXDIGLC "-" 16HEXDIGLC "-" 2HEXDIGLC,
    trace-id and parent-id not all zero.
    tracestate = list-member 0*31( "," list-member ), keys unique,
    list-member = key "=" value,
    key = simple-key / tenant-id "@" system-id, value = 0*255(chr) nblk-chr. *)
From Verif Require Import Lib.Base.
Open Scope N_scope.

(* HEXDIGLC = DIGIT / "a" / "b" / "c" / "d" / "e" / "f" *)
Definition lchex (c : N) : bool :=
  ((48 <=? c) && (c <=? 57)) || ((97 <=? c) && (c <=? 102)).
Definition lcalpha (c : N) : bool := (97 <=? c) && (c <=? 122).
Definition digit (c : N) : bool := (48 <=? c) && (c <=? 57).
(* lcalpha / DIGIT / "_" / "-" / "*" / "/" *)
Definition keychar (c : N) : bool :=
  lcalpha c || digit c || (c =? 95) || (c =? 45) || (c =? 42) || (c =? 47).
(* nblk-chr = %x21-2B / %x2D-3C / %x3E-7E ; chr = %x20 / nblk-chr *)
Definition nblk (c : N) : bool :=
  ((33 <=? c) && (c <=? 43)) || ((45 <=? c) && (c <=? 60)) || ((62 <=? c) && (c <=? 126)).
Definition chr (c : N) : bool := (c =? 32) || nblk c.

(** [span p l] = (longest prefix satisfying p, rest) *)
Fixpoint span (p : N -> bool) (l : bytes) : bytes * bytes :=
  match l with
  | c :: r => if p c then let '(a, b) := span p r in (c :: a, b) else ([], l)
  | [] => ([], [])
  end.

Definition simple_key (k : bytes) : bool :=
  match k with
  | f :: r => lcalpha f && forallb keychar r && Nat.leb (length r) 255
  | [] => false
  end.
Definition system_id (k : bytes) : bool :=
  match k with
  | f :: r => lcalpha f && forallb keychar r && Nat.leb (length r) 13
  | [] => false
  end.
Definition tenant_id (k : bytes) : bool :=
  match k with
  | f :: r => (lcalpha f || digit f) && forallb keychar r && Nat.leb (length r) 240
  | [] => false
  end.
(** key: either no '@' and a simple key, or exactly tenant '@' system. *)
Definition w3c_key (k : bytes) : bool :=
  let '(a, b) := span (fun c => negb (c =? 64)) k in
  match b with
  | [] => simple_key k
  | _ :: sys => tenant_id a && system_id sys
  end.

Definition w3c_value (v : bytes) : bool :=
  match rev v with
  | [] => false
  | l :: r => nblk l && forallb chr r && Nat.leb (length r) 255
  end.

Definition w3c_member (m : bytes * bytes) : bool := w3c_key (fst m) && w3c_value (snd m).

Fixpoint nodup_keys (l : list (bytes * bytes)) : bool :=
  match l with
  | [] => true
  | (k, _) :: r => negb (existsb (fun m => bytes_eqb (fst m) k) r) && nodup_keys r
  end.

(** A well-formed member list (the abstract tracestate). *)
Definition w3c_members (l : list (bytes * bytes)) : bool :=
  forallb w3c_member l && nodup_keys l && Nat.leb (length l) 32.

(** Serialisation demanded by the grammar. *)
Fixpoint w3c_serialise (l : list (bytes * bytes)) : bytes :=
  match l with
  | [] => []
  | [m] => fst m ++ 61 :: snd m
  | m :: r => fst m ++ 61 :: snd m ++ 44 :: w3c_serialise r
  end.

(** A tracestate header string conforms iff it is the serialisation of a
    well-formed member list (Prop reading). *)
Definition W3C_tracestate (s : bytes) : Prop :=
  exists l, w3c_members l = true /\ s = w3c_serialise l.

(** Decidable version used on implementation output: split the string at
    ',' then at the first '=' and check each member. Equivalence with the
    Prop reading is proved in Proofs.v (w3c_tracestate_b_sound). *)
Fixpoint split_at (sep : N) (s cur : bytes) : list bytes :=
  match s with
  | [] => [rev cur]
  | c :: r => if c =? sep then rev cur :: split_at sep r [] else split_at sep r (c :: cur)
  end.
Definition split_member (m : bytes) : option (bytes * bytes) :=
  let '(k, r) := span (fun c => negb (c =? 61)) m in
  match r with
  | [] => None
  | _ :: v => Some (k, v)
  end.
Fixpoint all_some {A} (l : list (option A)) : option (list A) :=
  match l with
  | [] => Some []
  | Some x :: r => match all_some r with Some r' => Some (x :: r') | None => None end
  | None :: _ => None
  end.
Definition w3c_tracestate_b (s : bytes) : bool :=
  match s with
  | [] => true
  | _ => match all_some (map split_member (split_at 44 s [])) with
         | Some l => w3c_members l
         | None => false
         end
  end.

(** traceparent, version 00. *)
Definition nonzero_hex (s : bytes) : bool := existsb (fun c => negb (c =? 48)) s.
Definition w3c_traceparent (s : bytes) : bool :=
  match s with
  | 48 :: 48 :: 45 :: r =>
      let t := firstn 32 r in
      match skipn 32 r with
      | 45 :: r2 =>
          let p := firstn 16 r2 in
          match skipn 16 r2 with
          | [45; f1; f2] =>
              Nat.eqb (length t) 32 && forallb lchex t && nonzero_hex t &&
              Nat.eqb (length p) 16 && forallb lchex p && nonzero_hex p &&
              lchex f1 && lchex f2
          | _ => false
          end
      | _ => false
      end
  | _ => false
  end.

(** The W3C grammar forbids version ff ("version ff is invalid"): a header that
    starts with it is malformed whatever follows, so extraction must ignore it. *)
Definition forbidden_version (tp : bytes) : bool :=
  match tp with a :: b :: _ => (a =? 102) && (b =? 102) | _ => false end.

(** Fields of a conforming traceparent. *)
Definition tp_trace_id (s : bytes) : bytes := firstn 32 (skipn 3 s).
Definition tp_span_id (s : bytes) : bytes := firstn 16 (skipn 36 s).
Definition tp_flags (s : bytes) : bytes := skipn 53 s.

(** ** Editing (abstract): the new/updated member comes first, the others keep
    their relative order, and on overflow only right-most members fall off. *)
Definition key_is (k : bytes) (m : bytes * bytes) : bool := bytes_eqb (fst m) k.
Definition spec_insert (l : list (bytes * bytes)) (k v : bytes) : list (bytes * bytes) :=
  firstn 32 ((k, v) :: filter (fun m => negb (key_is k m)) l).
Definition spec_delete (l : list (bytes * bytes)) (k : bytes) : list (bytes * bytes) :=
  filter (fun m => negb (key_is k m)) l.
