(** C03 proofs. *)
From Verif Require Import Lib.Base C03.Model C03.Spec.
From Coq Require Import ZifyBool ZifyN ZifyNat.
Open Scope N_scope.

(** ** cut / span *)
Lemma cut_spec sep s :
  match cut sep s with
  | (a, b, true) => s = a ++ sep :: b /\ forallb (fun c => negb (c =? sep)) a = true
  | (a, b, false) => a = s /\ b = [] /\ forallb (fun c => negb (c =? sep)) s = true
  end.
Proof.
  induction s as [|c r IH]; cbn.
  - auto.
  - destruct (c =? sep) eqn:E.
    + apply N.eqb_eq in E; subst. cbn. auto.
    + destruct (cut sep r) as [[a b] f]. destruct f; cbn; rewrite ?E; cbn.
      * destruct IH as [-> H]. auto.
      * destruct IH as [-> [-> H]]. auto.
Qed.

Lemma cut_app_sep sep a b :
  forallb (fun c => negb (c =? sep)) a = true -> cut sep (a ++ sep :: b) = (a, b, true).
Proof.
  induction a as [|c a IH]; cbn; intro H.
  - now rewrite N.eqb_refl.
  - apply andb_true_iff in H as [H1 H2]. apply negb_true_iff in H1. rewrite H1.
    now rewrite IH.
Qed.

Lemma cut_none sep a :
  forallb (fun c => negb (c =? sep)) a = true -> cut sep a = (a, [], false).
Proof.
  induction a as [|c a IH]; cbn; intro H; [reflexivity|].
  apply andb_true_iff in H as [H1 H2]. apply negb_true_iff in H1. rewrite H1.
  now rewrite IH.
Qed.

Lemma span_app_stop p a c b :
  forallb p a = true -> p c = false -> span p (a ++ c :: b) = (a, c :: b).
Proof.
  induction a as [|x a IH]; cbn; intros H Hc.
  - now rewrite Hc.
  - apply andb_true_iff in H as [H1 H2]. rewrite H1. now rewrite IH.
Qed.

Lemma span_all p a : forallb p a = true -> span p a = (a, []).
Proof.
  induction a as [|x a IH]; cbn; intro H; [reflexivity|].
  apply andb_true_iff in H as [H1 H2]. rewrite H1. now rewrite IH.
Qed.

(** ** character classes: model = spec *)
Lemma is_lchex_eq c : is_lchex c = lchex c. Proof. reflexivity. Qed.
Lemma key_remain_char_eq c : key_remain_char c = keychar c. Proof. reflexivity. Qed.

Lemma value_char_eq c : value_char c = chr c.
Proof. unfold value_char, chr, nblk. lia. Qed.
Lemma value_last_eq c : value_last c = nblk c.
Proof. unfold value_last, nblk. lia. Qed.

Lemma forallb_ext_eq {A} (p q : A -> bool) l : (forall x, p x = q x) -> forallb p l = forallb q l.
Proof. intro H; induction l; cbn; [reflexivity|]. now rewrite H, IHl. Qed.

(** ** keys *)
Lemma check_key_eq k : check_key k = w3c_key k.
Proof.
  unfold check_key, w3c_key, AT.
  pose proof (cut_spec 64 k) as H.
  destruct (cut 64 k) as [[a b] f]. destruct f.
  - destruct H as [-> Ha].
    rewrite (span_app_stop _ a 64 b); [| exact Ha | reflexivity].
    unfold check_key_tenant, tenant_id, check_key_part, system_id.
    destruct a as [|x a]; [reflexivity|]. destruct b as [|y b]; cbn [andb].
    + now rewrite !andb_false_r.
    + unfold is_alnum, is_lcalpha, is_digit, lcalpha, digit.
      rewrite (forallb_ext_eq _ _ a key_remain_char_eq), (forallb_ext_eq _ _ b key_remain_char_eq).
      destruct (forallb keychar a), (forallb keychar b), (Nat.leb (length a) 240), (Nat.leb (length b) 13);
        cbn; lia.
  - destruct H as [-> [-> Hk]].
    rewrite (span_all _ k Hk).
    unfold check_key_part, simple_key. destruct k as [|x k]; [reflexivity|].
    rewrite (forallb_ext_eq _ _ k key_remain_char_eq). unfold is_lcalpha, lcalpha.
    destruct (forallb keychar k), (Nat.leb (length k) 255); cbn; lia.
Qed.

(** ** values *)
Lemma check_value_go_snoc r l :
  check_value_go (r ++ [l]) = forallb value_char r && value_last l.
Proof.
  induction r as [|c r IH]; cbn.
  - reflexivity.
  - destruct (r ++ [l]) eqn:E; [destruct r; discriminate|]. rewrite IH.
    now rewrite andb_assoc.
Qed.

Lemma check_value_eq v : check_value v = w3c_value v.
Proof.
  unfold check_value, w3c_value.
  destruct (rev v) as [|l r] eqn:E.
  - assert (v = []) as -> by (now rewrite <- (rev_involutive v), E). reflexivity.
  - assert (Hv : v = rev r ++ [l]) by (now rewrite <- (rev_involutive v), E).
    rewrite Hv, check_value_go_snoc, app_length, rev_length. cbn [length].
    rewrite (forallb_ext_eq _ _ _ value_char_eq), value_last_eq.
    assert (Hf : forallb chr (rev r) = forallb chr r).
    { clear. induction r as [|x r IH]; cbn; [reflexivity|].
      rewrite forallb_app, IH. cbn. now rewrite andb_true_r, andb_comm. }
    rewrite Hf. replace (Nat.leb (length r + 1) 256) with (Nat.leb (length r) 255).
    + destruct (Nat.leb (length r) 255), (forallb chr r), (nblk l); reflexivity.
    + destruct (Nat.leb_spec (length r) 255), (Nat.leb_spec (length r + 1) 256); lia.
Qed.

Lemma new_member_spec k v m :
  new_member k v = Some m -> m = (k, v) /\ w3c_member m = true.
Proof.
  unfold new_member, w3c_member. rewrite check_key_eq, check_value_eq.
  destruct (w3c_key k) eqn:Hk; [|discriminate]. destruct (w3c_value v) eqn:Hv; [|discriminate].
  intro H; inversion H; subst; cbn. now rewrite Hk, Hv.
Qed.

Lemma new_member_ok k v : w3c_member (k, v) = true -> new_member k v = Some (k, v).
Proof.
  unfold new_member, w3c_member; cbn. rewrite check_key_eq, check_value_eq.
  intro H. apply andb_true_iff in H as [-> ->]. reflexivity.
Qed.

(** ** has_key / nodup *)
Lemma has_key_existsb k l : has_key k l = existsb (fun m => bytes_eqb (fst m) k) l.
Proof. induction l as [|[k' v'] l IH]; cbn; [reflexivity|]. now rewrite IH. Qed.

Lemma nodup_keys_snoc l k v :
  nodup_keys (l ++ [(k, v)]) = nodup_keys l && negb (has_key k l).
Proof.
  induction l as [|[k' v'] l IH]; cbn.
  - reflexivity.
  - rewrite IH, existsb_app. cbn. rewrite orb_false_r.
    rewrite has_key_existsb.
    assert (bytes_eqb k k' = bytes_eqb k' k) as ->.
    { destruct (bytes_eqb k k') eqn:E1, (bytes_eqb k' k) eqn:E2; try reflexivity.
      - apply bytes_eqb_eq in E1; subst. now rewrite bytes_eqb_refl in E2.
      - apply bytes_eqb_eq in E2; subst. now rewrite bytes_eqb_refl in E1. }
    destruct (existsb _ l), (bytes_eqb k' k), (nodup_keys l), (existsb (fun m => bytes_eqb (fst m) k) l); reflexivity.
Qed.

(** ** parse_members invariant *)
Lemma parse_member_spec p m : parse_member p = Some m -> w3c_member m = true.
Proof.
  unfold parse_member. destruct (cut EQUALS p) as [[k v] ok]. destruct ok; [|discriminate].
  intro H. now apply new_member_spec in H as [_ H].
Qed.

Lemma parse_members_sound pieces : forall acc l,
  w3c_members (rev acc) = true ->
  parse_members pieces acc = Some l -> w3c_members l = true.
Proof.
  induction pieces as [|p r IH]; intros acc l Hacc; cbn [parse_members].
  - intro H; inversion H; subst; exact Hacc.
  - destruct p as [|c p']; [apply IH; exact Hacc|].
    destruct (parse_member (c :: p')) as [[k v]|] eqn:Hp; [|discriminate].
    destruct (has_key k acc) eqn:Hk; [discriminate|].
    match goal with |- context [if ?b then _ else _] => destruct b eqn:Hn end; [discriminate|].
    apply IH. cbn [rev]. unfold w3c_members in *.
    apply andb_true_iff in Hacc as [Hacc H3]. apply andb_true_iff in Hacc as [H1 H2].
    rewrite forallb_app, H1. cbn [forallb]. rewrite (parse_member_spec _ _ Hp). cbn [andb].
    rewrite nodup_keys_snoc, H2. cbn [andb].
    assert (has_key k (rev acc) = false) as ->.
    { rewrite has_key_existsb in *. destruct (existsb _ (rev acc)) eqn:E; [|reflexivity].
      apply existsb_exists in E as [x [Hx1 Hx2]]. apply in_rev in Hx1.
      assert (existsb (fun m => bytes_eqb (fst m) k) acc = true) by (apply existsb_exists; eauto).
      congruence. }
    cbn. rewrite app_length, rev_length. cbn.
    apply Nat.ltb_ge in Hn. unfold MAX_MEMBERS, member in *. apply Nat.leb_le. lia.
Qed.

Lemma parse_tracestate_sound s l : parse_tracestate s = Some l -> w3c_members l = true.
Proof.
  unfold parse_tracestate. destruct s as [|c s].
  - intro H; inversion H; reflexivity.
  - apply parse_members_sound. reflexivity.
Qed.

(** ** serialisation = the grammar's *)
Lemma ts_string_eq l : ts_string l = w3c_serialise l.
Proof.
  induction l as [|[k v] l IH]; cbn; [reflexivity|].
  destruct l as [|m l]; [reflexivity|]. now rewrite IH.
Qed.

(** ** parse (serialise l) = l *)
Definition keyish (c : N) : bool := keychar c || (c =? 64).

Lemma keyish_props c : keyish c = true -> c <> 44 /\ c <> 61 /\ is_blank c = false.
Proof. unfold keyish, keychar, lcalpha, digit, is_blank. lia. Qed.

Lemma forallb_imp {A} (p q : A -> bool) l :
  (forall x, p x = true -> q x = true) -> forallb p l = true -> forallb q l = true.
Proof.
  intros H; induction l as [|x l IH]; cbn; [auto|]. intro H1.
  apply andb_true_iff in H1 as [H1 H2]. rewrite (H _ H1), (IH H2). reflexivity.
Qed.

Lemma check_key_chars k :
  check_key k = true -> forallb keyish k = true /\ k <> [].
Proof.
  unfold check_key. pose proof (cut_spec AT k) as H.
  destruct (cut AT k) as [[a b] f]. destruct f.
  - destruct H as [-> _]. unfold check_key_tenant, check_key_part.
    destruct a as [|x a]; [discriminate|]. destruct b as [|y b]; [now rewrite andb_false_r|].
    intro H. split; [|discriminate].
    rewrite !andb_true_iff in H. destruct H as [[[Hx _] Ha] [[_ Hy] Hb]].
    cbn [app forallb]. rewrite forallb_app. cbn [forallb].
    rewrite (forallb_imp key_remain_char keyish a), (forallb_imp key_remain_char keyish b); auto;
      try (intros z Hz; unfold keyish; rewrite <- key_remain_char_eq, Hz; reflexivity).
    assert (keyish x = true) as -> by (unfold keyish, keychar, is_alnum, is_lcalpha, is_digit, lcalpha, digit in *; lia).
    assert (keyish y = true) as -> by (unfold keyish, keychar, is_alnum, is_lcalpha, is_digit, lcalpha, digit in *; lia).
    reflexivity.
  - destruct H as [-> [-> _]]. unfold check_key_part. destruct k as [|x k]; [discriminate|].
    intro H. split; [|discriminate]. rewrite !andb_true_iff in H. destruct H as [[_ Hx] Hk].
    cbn [forallb]. rewrite (forallb_imp key_remain_char keyish k); auto;
      try (intros z Hz; unfold keyish; rewrite <- key_remain_char_eq, Hz; reflexivity).
    assert (keyish x = true) as -> by (unfold keyish, keychar, is_lcalpha, lcalpha, digit in *; lia).
    reflexivity.
Qed.

Lemma trim_left_id k : (match k with c :: _ => is_blank c = false | [] => True end) -> trim_left k = k.
Proof. destruct k as [|c k]; cbn; [reflexivity|]. now intros ->. Qed.

Lemma trim_right_id v : (match rev v with c :: _ => is_blank c = false | [] => True end) -> trim_right v = v.
Proof. unfold trim_right. intro H. rewrite trim_left_id by exact H. apply rev_involutive. Qed.

Lemma w3c_value_chars v :
  w3c_value v = true ->
  forallb (fun c => negb (c =? 44)) v = true /\ trim_right v = v.
Proof.
  unfold w3c_value. intro H. split.
  - destruct (rev v) as [|l r] eqn:E; [discriminate|].
    assert (Hv : v = rev r ++ [l]) by (now rewrite <- (rev_involutive v), E).
    rewrite !andb_true_iff in H. destruct H as [[Hl Hr] _].
    rewrite Hv, forallb_app. cbn [forallb].
    assert (forallb (fun c => negb (c =? 44)) (rev r) = true) as ->.
    { apply forallb_forall. intros x Hx. apply in_rev in Hx.
      rewrite forallb_forall in Hr. specialize (Hr x Hx). unfold chr, nblk in Hr. lia. }
    unfold nblk in Hl. cbn. rewrite andb_true_r. lia.
  - apply trim_right_id. destruct (rev v) as [|l r]; [exact I|].
    rewrite !andb_true_iff in H. destruct H as [[Hl _] _]. unfold nblk, is_blank in *. lia.
Qed.

Definition member_bytes (m : member) : bytes := fst m ++ EQUALS :: snd m.

Lemma parse_member_bytes m : w3c_member m = true -> parse_member (member_bytes m) = Some m.
Proof.
  destruct m as [k v]. unfold w3c_member, member_bytes; cbn [fst snd]. intro H.
  pose proof H as H0. apply andb_true_iff in H as [Hk Hv].
  rewrite <- check_key_eq in Hk. apply check_key_chars in Hk as [Hk Hne].
  unfold parse_member. rewrite cut_app_sep.
  - apply w3c_value_chars in Hv as [_ Hv]. rewrite Hv, trim_left_id.
    + now apply new_member_ok.
    + destruct k as [|c k]; [exact I|]. cbn in Hk. apply andb_true_iff in Hk as [Hc _].
      now apply keyish_props in Hc.
  - eapply forallb_imp; [|exact Hk]. intros x Hx. apply keyish_props in Hx. unfold EQUALS. lia.
Qed.

Lemma member_bytes_nocomma m :
  w3c_member m = true -> forallb (fun c => negb (c =? COMMA)) (member_bytes m) = true /\ member_bytes m <> [].
Proof.
  destruct m as [k v]. unfold w3c_member, member_bytes; cbn [fst snd]. intro H.
  apply andb_true_iff in H as [Hk Hv]. split; [|destruct k; discriminate].
  rewrite <- check_key_eq in Hk. apply check_key_chars in Hk as [Hk _].
  apply w3c_value_chars in Hv as [Hv _].
  rewrite forallb_app. cbn [forallb]. unfold COMMA, EQUALS. rewrite Hv.
  rewrite (forallb_imp keyish _ k); [reflexivity| |exact Hk].
  intros x Hx. apply keyish_props in Hx. lia.
Qed.

Lemma split_on_nosep sep a cur :
  forallb (fun c => negb (c =? sep)) a = true -> split_on sep a cur = [rev cur ++ a].
Proof.
  revert cur; induction a as [|c a IH]; intros cur H; cbn.
  - now rewrite app_nil_r.
  - cbn in H. apply andb_true_iff in H as [H1 H2]. apply negb_true_iff in H1. rewrite H1.
    rewrite IH by exact H2. cbn. now rewrite <- app_assoc.
Qed.

Lemma split_on_app sep a r cur :
  forallb (fun c => negb (c =? sep)) a = true ->
  split_on sep (a ++ sep :: r) cur = (rev cur ++ a) :: split_on sep r [].
Proof.
  revert cur; induction a as [|c a IH]; intros cur H; cbn.
  - now rewrite N.eqb_refl, app_nil_r.
  - cbn in H. apply andb_true_iff in H as [H1 H2]. apply negb_true_iff in H1. rewrite H1.
    rewrite IH by exact H2. cbn. now rewrite <- app_assoc.
Qed.

Lemma ts_string_cons m l :
  l <> [] -> ts_string (m :: l) = member_bytes m ++ COMMA :: ts_string l.
Proof.
  destruct m as [k v]. destruct l as [|m' l]; [congruence|]. intros _.
  unfold member_bytes. cbn [ts_string fst snd]. now rewrite <- app_assoc.
Qed.

Lemma split_ts_string l :
  forallb w3c_member l = true -> l <> [] ->
  split_on COMMA (ts_string l) [] = map member_bytes l.
Proof.
  induction l as [|m l IH]; [congruence|]. intros H _. cbn [forallb] in H.
  apply andb_true_iff in H as [Hm Hl]. destruct l as [|m' l].
  - destruct m as [k v]. cbn [ts_string map]. apply member_bytes_nocomma in Hm as [Hm _].
    now rewrite split_on_nosep.
  - rewrite ts_string_cons by discriminate. apply member_bytes_nocomma in Hm as [Hm _].
    rewrite split_on_app by exact Hm. cbn [rev app map]. f_equal. apply IH; [exact Hl|discriminate].
Qed.

Lemma parse_members_complete l : forall acc,
  forallb w3c_member l = true ->
  nodup_keys (rev acc ++ l) = true ->
  (length acc + length l <= 32)%nat ->
  parse_members (map member_bytes l) acc = Some (rev acc ++ l).
Proof.
  induction l as [|m l IH]; intros acc Hf Hn Hlen; cbn [map parse_members].
  - now rewrite app_nil_r.
  - cbn [forallb] in Hf. apply andb_true_iff in Hf as [Hm Hl].
    destruct (member_bytes_nocomma m Hm) as [_ Hne].
    destruct (member_bytes m) as [|c p] eqn:E; [congruence|]. rewrite <- E.
    rewrite (parse_member_bytes m Hm). destruct m as [k v].
    assert (Hk : has_key k acc = false).
    { clear - Hn. induction acc as [|[k' v'] acc IHa] using rev_ind.
      - reflexivity.
      - rewrite rev_app_distr in Hn. cbn in Hn. apply andb_true_iff in Hn as [Hn1 Hn2].
        rewrite has_key_existsb, existsb_app. rewrite <- has_key_existsb, (IHa Hn2). cbn.
        rewrite orb_false_r. apply negb_true_iff in Hn1.
        rewrite existsb_app in Hn1. apply orb_false_iff in Hn1 as [_ Hn1]. cbn in Hn1.
        apply orb_false_iff in Hn1 as [Hn1 _].
        destruct (bytes_eqb k' k) eqn:E1; [|reflexivity]. apply bytes_eqb_eq in E1; subst.
        now rewrite bytes_eqb_refl in Hn1. }
    rewrite Hk.
    match goal with |- context [if ?b then _ else _] => assert (b = false) as -> end.
    { apply Nat.ltb_ge. unfold MAX_MEMBERS, member in *. cbn [length] in Hlen. lia. }
    rewrite IH; cbn [rev length] in *.
    + now rewrite <- app_assoc.
    + exact Hl.
    + rewrite <- app_assoc. exact Hn.
    + cbn [length] in *. lia.
Qed.

Lemma parse_serialise l : w3c_members l = true -> parse_tracestate (ts_string l) = Some l.
Proof.
  unfold w3c_members. intro H. apply andb_true_iff in H as [H H3]. apply andb_true_iff in H as [H1 H2].
  destruct l as [|m l]; [reflexivity|].
  unfold parse_tracestate.
  destruct (ts_string (m :: l)) as [|c s] eqn:E.
  - exfalso. destruct m as [k v]. cbn in E. destruct l; destruct k; discriminate.
  - rewrite <- E. rewrite split_ts_string; [|exact H1|discriminate].
    rewrite parse_members_complete; auto. apply Nat.leb_le in H3. cbn [length] in *. lia.
Qed.

(** ** editing *)
Lemma filter_nokey k l :
  has_key k l = false -> filter (fun m => negb (key_is k m)) l = l.
Proof.
  unfold key_is. induction l as [|[k' v'] l IH]; cbn; [reflexivity|]. intro H.
  apply orb_false_iff in H as [H1 H2]. rewrite H1. cbn.
  now rewrite IH.
Qed.

Lemma remove_key_filter k l :
  nodup_keys l = true -> remove_key k l = filter (fun m => negb (key_is k m)) l.
Proof.
  induction l as [|[k' v'] l IH]; cbn; [reflexivity|]. intro H.
  apply andb_true_iff in H as [H1 H2].
  destruct (bytes_eqb k' k) eqn:E; cbn.
  - apply bytes_eqb_eq in E; subst. apply negb_true_iff in H1.
    rewrite filter_nokey; [reflexivity|]. now rewrite has_key_existsb.
  - now rewrite IH.
Qed.

Lemma forallb_filter_keep {A} (p q : A -> bool) l :
  forallb p l = true -> forallb p (filter q l) = true.
Proof.
  induction l as [|x l IH]; cbn; [auto|]. intro H. apply andb_true_iff in H as [H1 H2].
  destruct (q x); cbn; rewrite ?H1; auto.
Qed.

Lemma forallb_firstn {A} (p : A -> bool) n l :
  forallb p l = true -> forallb p (firstn n l) = true.
Proof.
  revert l; induction n as [|n IH]; intros [|x l]; cbn; auto. intro H.
  apply andb_true_iff in H as [H1 H2]. rewrite H1. cbn. auto.
Qed.

Lemma existsb_filter_false {A} (p q : A -> bool) l :
  existsb p l = false -> existsb p (filter q l) = false.
Proof.
  induction l as [|x l IH]; cbn; [auto|]. intro H. apply orb_false_iff in H as [H1 H2].
  destruct (q x); cbn; rewrite ?H1; auto.
Qed.

Lemma existsb_firstn_false {A} (p : A -> bool) n l :
  existsb p l = false -> existsb p (firstn n l) = false.
Proof.
  revert l; induction n as [|n IH]; intros [|x l]; cbn; auto. intro H.
  apply orb_false_iff in H as [H1 H2]. rewrite H1. cbn. auto.
Qed.

Lemma nodup_keys_filter q l : nodup_keys l = true -> nodup_keys (filter q l) = true.
Proof.
  induction l as [|[k v] l IH]; cbn; [auto|]. intro H. apply andb_true_iff in H as [H1 H2].
  destruct (q (k, v)); cbn; auto. rewrite IH by exact H2.
  apply negb_true_iff in H1. now rewrite existsb_filter_false.
Qed.

Lemma nodup_keys_firstn n l : nodup_keys l = true -> nodup_keys (firstn n l) = true.
Proof.
  revert l; induction n as [|n IH]; intros [|[k v] l]; cbn; auto. intro H.
  apply andb_true_iff in H as [H1 H2]. rewrite IH by exact H2.
  apply negb_true_iff in H1. now rewrite existsb_firstn_false.
Qed.

Lemma filter_key_absent k l :
  existsb (fun m => bytes_eqb (fst m) k) (filter (fun m => negb (key_is k m)) l) = false.
Proof.
  unfold key_is. induction l as [|[k' v'] l IH]; cbn; [reflexivity|].
  destruct (bytes_eqb k' k) eqn:E; cbn; [exact IH|]. now rewrite E, IH.
Qed.

Lemma filter_length_le {A} (q : A -> bool) l : (length (filter q l) <= length l)%nat.
Proof. induction l as [|x l IH]; cbn; [lia|]. destruct (q x); cbn; lia. Qed.

Lemma spec_insert_members l k v :
  w3c_members l = true -> w3c_member (k, v) = true -> w3c_members (spec_insert l k v) = true.
Proof.
  unfold w3c_members, spec_insert. intros H Hm.
  apply andb_true_iff in H as [H H3]. apply andb_true_iff in H as [H1 H2].
  rewrite firstn_cons. cbn [forallb nodup_keys]. rewrite Hm. cbn [andb].
  rewrite forallb_firstn by (now apply forallb_filter_keep).
  rewrite nodup_keys_firstn by (now apply nodup_keys_filter).
  rewrite existsb_firstn_false by apply filter_key_absent. cbn [negb andb].
  apply Nat.leb_le. cbn [length]. rewrite firstn_length. lia.
Qed.

Lemma spec_delete_members l k : w3c_members l = true -> w3c_members (spec_delete l k) = true.
Proof.
  unfold w3c_members, spec_delete. intros H.
  apply andb_true_iff in H as [H H3]. apply andb_true_iff in H as [H1 H2].
  rewrite forallb_filter_keep, nodup_keys_filter by assumption. cbn.
  apply Nat.leb_le. apply Nat.leb_le in H3.
  pose proof (filter_length_le (fun m => negb (key_is k m)) l). lia.
Qed.

Lemma remove_key_length k l :
  has_key k l = true -> S (length (remove_key k l)) = length l.
Proof.
  induction l as [|[k' v'] l IH]; cbn; [discriminate|]. destruct (bytes_eqb k' k); cbn; [reflexivity|].
  intro H. now rewrite IH.
Qed.

Lemma removelast_firstn_len {A} (l : list A) n : length l = S n -> removelast l = firstn n l.
Proof.
  revert n; induction l as [|x l IH]; intros n H; [discriminate|].
  cbn in H. injection H as H. destruct l as [|y l].
  - subst. reflexivity.
  - destruct n as [|n]; [discriminate|]. cbn [removelast firstn]. f_equal. now apply IH.
Qed.

Lemma ts_insert_refines l k v :
  w3c_members l = true ->
  ts_insert l k v = if w3c_member (k, v) then Some (spec_insert l k v) else None.
Proof.
  intro H. unfold ts_insert. destruct (w3c_member (k, v)) eqn:Hm.
  - rewrite (new_member_ok _ _ Hm). unfold w3c_members in H.
    apply andb_true_iff in H as [H H3]. apply andb_true_iff in H as [H1 H2].
    apply Nat.leb_le in H3. unfold spec_insert. rewrite firstn_cons.
    destruct (has_key k l) eqn:Hk.
    + rewrite <- (remove_key_filter k l H2). rewrite firstn_all2; [reflexivity|].
      pose proof (remove_key_length k l Hk). unfold member in *. lia.
    + rewrite (filter_nokey k l Hk). match goal with |- context [if ?b then _ else _] => destruct b eqn:Hl end.
      * apply Nat.ltb_lt in Hl. unfold MAX_MEMBERS, member in *. rewrite firstn_all2; [reflexivity|lia].
      * apply Nat.ltb_ge in Hl. unfold MAX_MEMBERS, member in *.
        rewrite (removelast_firstn_len l 31); [reflexivity|lia].
  - unfold new_member. unfold w3c_member in Hm. cbn [fst snd] in Hm.
    rewrite check_key_eq, check_value_eq.
    destruct (w3c_key k); [|reflexivity]. destruct (w3c_value v); [discriminate|reflexivity].
Qed.

Lemma ts_delete_refines l k : w3c_members l = true -> ts_delete l k = spec_delete l k.
Proof.
  intro H. unfold w3c_members in H.
  apply andb_true_iff in H as [H H3]. apply andb_true_iff in H as [H1 H2].
  now apply remove_key_filter.
Qed.

(** An edit script applied to any well-formed tracestate keeps it well formed. *)
Inductive edit := EInsert (k v : bytes) | EDelete (k : bytes).
Definition apply_edit (l : list member) (e : edit) : list member :=
  match e with
  | EInsert k v => match ts_insert l k v with Some l' => l' | None => l end
  | EDelete k => ts_delete l k
  end.

Lemma apply_edit_members l e : w3c_members l = true -> w3c_members (apply_edit l e) = true.
Proof.
  intro H. destruct e as [k v|k]; cbn.
  - rewrite ts_insert_refines by exact H. destruct (w3c_member (k, v)) eqn:Hm; [|exact H].
    now apply spec_insert_members.
  - rewrite ts_delete_refines by exact H. now apply spec_delete_members.
Qed.

Lemma edits_members es : forall l,
  w3c_members l = true -> w3c_members (fold_left apply_edit es l) = true.
Proof.
  induction es as [|e es IH]; cbn; intros l H; [exact H|]. apply IH. now apply apply_edit_members.
Qed.

(** ** hex *)
Ltac Zify.zify_post_hook ::= Z.div_mod_to_equations.

Lemma hexchar_lchex v : v < 16 -> is_lchex (hexchar v) = true.
Proof. unfold is_lchex, hexchar. destruct (v <? 10) eqn:E; lia. Qed.

Lemma hexval_hexchar v : v < 16 -> hexval (hexchar v) = v.
Proof.
  unfold hexval, hexchar. intro H. destruct (v <? 10) eqn:E.
  - destruct (v + 48 <=? 57) eqn:E2; lia.
  - destruct (v + 87 <=? 57) eqn:E2; lia.
Qed.

Lemma hexchar_hexval c : is_lchex c = true -> hexchar (hexval c) = c /\ hexval c < 16.
Proof.
  unfold hexval, hexchar, is_lchex. intro H. destruct (c <=? 57) eqn:E.
  - destruct (c - 48 <? 10) eqn:E2; lia.
  - destruct (c - 87 <? 10) eqn:E2; lia.
Qed.

Lemma hex_decode_encode b : Forall (fun x => x < 256) b -> hex_decode (hex_encode b) = b.
Proof.
  induction 1 as [|x b Hx Hb IH]; cbn [hex_encode hex_decode]; [reflexivity|].
  rewrite IH, !hexval_hexchar by lia. f_equal. lia.
Qed.

Lemma hex_encode_lchex b : Forall (fun x => x < 256) b -> forallb is_lchex (hex_encode b) = true.
Proof.
  induction 1 as [|x b Hx Hb IH]; cbn [hex_encode forallb]; [reflexivity|].
  rewrite IH, !hexchar_lchex by lia. reflexivity.
Qed.

Lemma hex_encode_length b : length (hex_encode b) = (2 * length b)%nat.
Proof. induction b as [|x b IH]; cbn [hex_encode length]; [reflexivity|]. lia. Qed.

(** Strong induction two-at-a-time for even-length strings. *)
Lemma pair_ind {A} (P : list A -> Prop) :
  P [] -> (forall a, P [a]) -> (forall a b l, P l -> P (a :: b :: l)) -> forall l, P l.
Proof.
  intros H0 H1 H2. fix IH 1. intros [|a [|b l]]; [exact H0|apply H1|]. apply H2. apply IH.
Qed.

Lemma hex_decode_props s n :
  length s = (2 * n)%nat -> forallb is_lchex s = true ->
  length (hex_decode s) = n /\ Forall (fun x => x < 256) (hex_decode s) /\
  hex_encode (hex_decode s) = s.
Proof.
  revert n. induction s as [| a | a b s IH] using pair_ind; intros n Hl Hf.
  - destruct n; [|discriminate]. cbn. auto.
  - cbn in Hl. lia.
  - destruct n as [|n]; [discriminate|]. cbn [length] in Hl.
    cbn [forallb] in Hf. apply andb_true_iff in Hf as [Ha Hf]. apply andb_true_iff in Hf as [Hb Hf].
    destruct (IH n ltac:(lia) Hf) as [I1 [I2 I3]].
    destruct (hexchar_hexval a Ha) as [A1 A2]. destruct (hexchar_hexval b Hb) as [B1 B2].
    cbn [hex_decode length hex_encode]. repeat split.
    + now rewrite I1.
    + constructor; [lia|exact I2].
    + rewrite I3. replace ((16 * hexval a + hexval b) / 16) with (hexval a) by lia.
      replace ((16 * hexval a + hexval b) mod 16) with (hexval b) by lia.
      now rewrite A1, B1.
Qed.

Lemma lchex_nodash s : forallb is_lchex s = true -> forallb (fun c => negb (c =? DASH)) s = true.
Proof. apply forallb_imp. intros x. unfold is_lchex, DASH. lia. Qed.

Lemma extract_part_app n part rest :
  length part = n -> forallb is_lchex part = true ->
  extract_part n (part ++ DASH :: rest) = (Some (hex_decode part), rest).
Proof.
  intros Hl Hf. unfold extract_part. rewrite cut_app_sep by (now apply lchex_nodash).
  now rewrite Hl, Nat.eqb_refl, Hf.
Qed.

Lemma extract_part_end n part :
  length part = n -> forallb is_lchex part = true ->
  extract_part n part = (Some (hex_decode part), []).
Proof.
  intros Hl Hf. unfold extract_part. rewrite cut_none by (now apply lchex_nodash).
  now rewrite Hl, Nat.eqb_refl, Hf.
Qed.

Lemma extract_part_inv n h d rest :
  extract_part n h = (Some d, rest) ->
  exists part, length part = n /\ forallb is_lchex part = true /\ d = hex_decode part /\
               (h = part ++ DASH :: rest \/ (h = part /\ rest = [])).
Proof.
  unfold extract_part. pose proof (cut_spec DASH h) as Hc.
  destruct (cut DASH h) as [[part r] f].
  destruct (Nat.eqb (length part) n) eqn:E1; [|discriminate].
  destruct (forallb is_lchex part) eqn:E2; [|discriminate]. cbn [andb].
  intro H; inversion H; subst. exists part. apply Nat.eqb_eq in E1.
  repeat split; auto. destruct f.
  - left. tauto.
  - right. destruct Hc as [-> [-> _]]. auto.
Qed.

(** ** the forbidden version *)
Lemma extract_rejects_ff tp ts : forbidden_version tp = true -> extract tp ts = None.
Proof.
  intros H. destruct tp as [|a [|b r]]; try discriminate.
  cbn in H. apply andb_prop in H as [Ha Hb]. apply N.eqb_eq in Ha, Hb. subst.
  unfold extract.
  destruct (extract_part 2 (102 :: 102 :: r)) as [[ver|] h1] eqn:E; [|reflexivity].
  apply extract_part_inv in E as (part & Hl & _ & -> & Hh).
  assert (part = [102; 102]) as ->.
  { destruct part as [|x [|y [|z p]]]; cbn in Hl; try discriminate.
    destruct Hh as [Hh|[Hh _]]; cbn in Hh; inversion Hh; reflexivity. }
  vm_compute. reflexivity.
Qed.

(** ** round trip *)
Definition wf_sc (sc : spanctx) : Prop :=
  length (tid sc) = 16%nat /\ length (sid sc) = 8%nat /\
  Forall (fun x => x < 256) (tid sc) /\ Forall (fun x => x < 256) (sid sc) /\
  sc_valid sc = true /\ w3c_members (tstate sc) = true.

Lemma land1_cases x : N.land x 1 = 0 \/ N.land x 1 = 1.
Proof.
  replace (N.land x 1) with (x mod 2 ^ 1) by (symmetry; apply (N.land_ones x 1)).
  change (2 ^ 1) with 2. lia.
Qed.

Lemma roundtrip sc :
  wf_sc sc ->
  exists tp ts, inject sc = Some (tp, ts) /\
    extract tp ts = Some {| tid := tid sc; sid := sid sc; flags := N.land (flags sc) 1;
                            tstate := tstate sc; remote := true |}.
Proof.
  intros (Ht & Hs & Ft & Fs & Hv & Hm). unfold inject. rewrite Hv.
  eexists; eexists; split; [reflexivity|].
  unfold extract, TP_PREFIX. cbn [app].
  change (extract_part 2 (48 :: 48 :: DASH :: ?r)) with (extract_part 2 ([48; 48] ++ DASH :: r)).
  rewrite extract_part_app by reflexivity.
  change (hd 0 (hex_decode [48; 48])) with 0. cbn [N.ltb N.compare].
  rewrite extract_part_app; [| rewrite hex_encode_length; lia | now apply hex_encode_lchex].
  rewrite extract_part_app; [| rewrite hex_encode_length; lia | now apply hex_encode_lchex].
  assert (Hf : Forall (fun x => x < 256) [N.land (flags sc) 1]).
  { constructor; [|constructor]. destruct (land1_cases (flags sc)); lia. }
  rewrite extract_part_end; [| reflexivity | now apply hex_encode_lchex].
  rewrite !hex_decode_encode by assumption. cbn [hd].
  rewrite N.eqb_refl. cbn [negb orb andb].
  assert ((2 <? N.land (flags sc) 1) = false) as -> by (destruct (land1_cases (flags sc)); lia).
  rewrite parse_serialise by exact Hm.
  assert (N.land (N.land (flags sc) 1) 1 = N.land (flags sc) 1) as ->.
  { rewrite <- N.land_assoc. reflexivity. }
  unfold sc_valid in *. cbn [tid sid]. rewrite Hv. reflexivity.
Qed.

(** ** a bad tracestate never matters for validity or ids *)
Definition ids (o : option spanctx) : option (bytes * bytes * N) :=
  match o with Some sc => Some (tid sc, sid sc, flags sc) | None => None end.

Lemma tracestate_irrelevant tp ts ts' : ids (extract tp ts) = ids (extract tp ts').
Proof.
  unfold extract. destruct tp as [|c tp]; [reflexivity|].
  destruct (extract_part 2 (c :: tp)) as [[ver|] h1]; [|reflexivity].
  destruct (254 <? hd 0 ver); [reflexivity|].
  destruct (extract_part 32 h1) as [[t|] h2]; [|reflexivity].
  destruct (extract_part 16 h2) as [[s|] h3]; [|reflexivity].
  destruct (extract_part 2 h3) as [[o|] h4]; [|reflexivity].
  match goal with |- context [if ?b then None else _] => destruct b end; [reflexivity|].
  unfold sc_valid; cbn [tid sid].
  destruct (negb (all_zero t) && negb (all_zero s)); reflexivity.
Qed.

(** ** extraction is sound *)
Lemma nonzero_hex_decode s : nonzero_hex s = false -> all_zero (hex_decode s) = true.
Proof.
  unfold nonzero_hex, all_zero.
  induction s as [| a | a b s IH] using pair_ind; cbn [hex_decode existsb forallb]; auto.
  intro H. apply orb_false_iff in H as [Ha H]. apply orb_false_iff in H as [Hb H].
  rewrite (IH H). apply negb_false_iff in Ha, Hb. apply N.eqb_eq in Ha, Hb. subst. reflexivity.
Qed.

Lemma firstn_skipn_app {A} (a b : list A) n :
  length a = n -> firstn n (a ++ b) = a /\ skipn n (a ++ b) = b.
Proof.
  intros <-. split.
  - rewrite firstn_app, Nat.sub_diag, firstn_all. cbn. apply app_nil_r.
  - rewrite skipn_app, Nat.sub_diag, skipn_all. reflexivity.
Qed.

Lemma traceparent_ok pt ps f :
  length pt = 32%nat -> forallb is_lchex pt = true -> nonzero_hex pt = true ->
  length ps = 16%nat -> forallb is_lchex ps = true -> nonzero_hex ps = true ->
  f <= 1 ->
  w3c_traceparent (TP_PREFIX ++ DASH :: pt ++ DASH :: ps ++ DASH :: hex_encode [f]) = true.
Proof.
  intros L1 F1 N1 L2 F2 N2 Hf. unfold TP_PREFIX, DASH, w3c_traceparent. cbn [app].
  destruct (firstn_skipn_app pt (45 :: ps ++ 45 :: hex_encode [f]) 32 L1) as [-> ->].
  destruct (firstn_skipn_app ps (45 :: hex_encode [f]) 16 L2) as [-> ->].
  rewrite L1, L2. cbn [Nat.eqb andb].
  rewrite (forallb_ext_eq lchex is_lchex pt), (forallb_ext_eq lchex is_lchex ps) by reflexivity.
  rewrite F1, F2, N1, N2. cbn [andb].
  assert (f = 0 \/ f = 1) as [-> | ->] by lia; reflexivity.
Qed.

Lemma extract_sound tp ts sc :
  extract tp ts = Some sc ->
  wf_sc sc /\ remote sc = true /\ flags sc <= 1 /\
  exists tp', inject sc = Some (tp', ts_string (tstate sc)) /\
              w3c_traceparent tp' = true /\ W3C_tracestate (ts_string (tstate sc)).
Proof.
  unfold extract. destruct tp as [|c tp]; [discriminate|].
  destruct (extract_part 2 (c :: tp)) as [[ver|] h1]; [|discriminate].
  destruct (254 <? hd 0 ver); [discriminate|].
  destruct (extract_part 32 h1) as [[t|] h2] eqn:E1; [|discriminate].
  destruct (extract_part 16 h2) as [[s|] h3] eqn:E2; [|discriminate].
  destruct (extract_part 2 h3) as [[o|] h4]; [|discriminate].
  match goal with |- context [if ?b then None else _] => destruct b end; [discriminate|].
  match goal with |- context [if ?b then Some _ else None] => destruct b eqn:Hv end; [|discriminate].
  intro H; inversion H; subst; clear H.
  apply extract_part_inv in E1 as (pt & Lt & Ft & -> & _).
  apply extract_part_inv in E2 as (ps & Ls & Fs & -> & _).
  destruct (hex_decode_props pt 16 Lt Ft) as (T1 & T2 & T3).
  destruct (hex_decode_props ps 8 Ls Fs) as (S1 & S2 & S3).
  assert (Hm : w3c_members (match parse_tracestate ts with Some l => l | None => [] end) = true).
  { destruct (parse_tracestate ts) eqn:E; [now apply parse_tracestate_sound in E | reflexivity]. }
  assert (Hfl : N.land (hd 0 o) 1 <= 1) by (destruct (land1_cases (hd 0 o)); lia).
  split; [|split; [|split]].
  - unfold wf_sc; cbn [tid sid tstate]. auto 10.
  - reflexivity.
  - exact Hfl.
  - unfold inject. rewrite Hv. cbn [tid sid flags tstate]. eexists. split; [reflexivity|].
    rewrite T3, S3. split.
    + unfold sc_valid in Hv; cbn [tid sid] in Hv. apply andb_true_iff in Hv as [V1 V2].
      apply traceparent_ok; auto.
      * destruct (nonzero_hex pt) eqn:E; [reflexivity|]. apply nonzero_hex_decode in E.
        rewrite E in V1. discriminate.
      * destruct (nonzero_hex ps) eqn:E; [reflexivity|]. apply nonzero_hex_decode in E.
        rewrite E in V2. discriminate.
      * destruct (land1_cases (N.land (hd 0 o) 1)); lia.
    + eexists. split; [exact Hm|]. apply ts_string_eq.
Qed.

(** ** the decision procedure applied to implementation output is sound *)
Fixpoint intercalate (sep : N) (l : list bytes) : bytes :=
  match l with
  | [] => []
  | [x] => x
  | x :: r => x ++ sep :: intercalate sep r
  end.

Lemma split_at_nonempty sep s cur : split_at sep s cur <> [].
Proof. revert cur; induction s as [|c s IH]; intro cur; cbn; [discriminate|]. destruct (c =? sep); [discriminate|apply IH]. Qed.

Lemma split_at_join sep s : forall cur, intercalate sep (split_at sep s cur) = rev cur ++ s.
Proof.
  induction s as [|c s IH]; intro cur; cbn [split_at].
  - cbn. now rewrite app_nil_r.
  - destruct (c =? sep) eqn:E.
    + apply N.eqb_eq in E; subst.
      pose proof (split_at_nonempty sep s []) as Hne.
      cbn [intercalate]. destruct (split_at sep s []) as [|p ps] eqn:Es; [congruence|].
      rewrite <- Es, IH. reflexivity.
    + rewrite IH. cbn [rev]. now rewrite <- app_assoc.
Qed.

Lemma span_join p l : let '(a, b) := span p l in l = a ++ b.
Proof.
  induction l as [|c l IH]; cbn; [reflexivity|]. destruct (p c); [|reflexivity].
  destruct (span p l) as [a b]. cbn. now rewrite IH.
Qed.

Lemma span_stop p l : let '(a, b) := span p l in match b with c :: _ => p c = false | [] => True end.
Proof.
  induction l as [|c l IH]; cbn; [exact I|]. destruct (p c) eqn:E; [|exact E].
  destruct (span p l) as [a b]. exact IH.
Qed.

Lemma split_member_inv m k v : split_member m = Some (k, v) -> m = k ++ 61 :: v.
Proof.
  unfold split_member. pose proof (span_join (fun c => negb (c =? 61)) m) as Hj.
  pose proof (span_stop (fun c => negb (c =? 61)) m) as Hs.
  destruct (span (fun c => negb (c =? 61)) m) as [a b]. destruct b as [|c b]; [discriminate|].
  intro H; inversion H; subst. apply negb_false_iff, N.eqb_eq in Hs. now subst.
Qed.

Lemma all_some_split pieces : forall l,
  all_some (map split_member pieces) = Some l ->
  pieces = map (fun m => fst m ++ 61 :: snd m) l.
Proof.
  induction pieces as [|p ps IH]; cbn; intros l H.
  - inversion H; reflexivity.
  - destruct (split_member p) as [[k v]|] eqn:E; [|discriminate].
    destruct (all_some (map split_member ps)) as [l'|]; [|discriminate].
    inversion H; subst. cbn. f_equal; [now apply split_member_inv | now apply IH].
Qed.

Lemma intercalate_cons sep x r : r <> [] -> intercalate sep (x :: r) = x ++ sep :: intercalate sep r.
Proof. destruct r; [congruence|reflexivity]. Qed.

Lemma serialise_intercalate l :
  w3c_serialise l = intercalate 44 (map (fun m => fst m ++ 61 :: snd m) l).
Proof.
  induction l as [|m l IH]; [reflexivity|]. destruct l as [|m' l]; [reflexivity|].
  change (w3c_serialise (m :: m' :: l)) with (fst m ++ 61 :: snd m ++ 44 :: w3c_serialise (m' :: l)).
  rewrite IH. cbn [map]. rewrite (intercalate_cons 44 (fst m ++ 61 :: snd m)) by discriminate.
  set (R := intercalate _ _). rewrite <- app_assoc. reflexivity.
Qed.

Lemma w3c_tracestate_b_sound s : w3c_tracestate_b s = true -> W3C_tracestate s.
Proof.
  unfold w3c_tracestate_b. destruct s as [|c s].
  - intros _. exists []. split; reflexivity.
  - destruct (all_some (map split_member (split_at 44 (c :: s) []))) as [l|] eqn:E; [|discriminate].
    intro Hm. exists l. split; [exact Hm|].
    apply all_some_split in E. rewrite serialise_intercalate, <- E, split_at_join. reflexivity.
Qed.

(** ** TraceIDFromHex / SpanIDFromHex *)
Lemma id_from_hex_spec n h :
  match id_from_hex n h with
  | Some b => length b = n /\ Forall (fun x => x < 256) b /\ all_zero b = false /\
              hex_encode b = h /\ forallb lchex h = true /\ nonzero_hex h = true
  | None => length h <> (2 * n)%nat \/ forallb lchex h = false \/ nonzero_hex h = false
  end.
Proof.
  unfold id_from_hex.
  destruct (Nat.eqb_spec (length h) (2 * n)) as [L|L]; cbn [andb]; [|left; exact L].
  destruct (forallb is_lchex h) eqn:F; cbn [andb]; [|right; left; exact F].
  destruct (hex_decode_props h n L F) as [P1 [P2 P3]].
  fold (all_zero (hex_decode h)).
  destruct (all_zero (hex_decode h)) eqn:Z.
  - right; right. destruct (nonzero_hex h) eqn:NZ; [|reflexivity]. exfalso.
    unfold nonzero_hex in NZ. apply existsb_exists in NZ as [c [Hc Hn]].
    apply negb_true_iff, N.eqb_neq in Hn.
    assert (G : forall l, all_zero l = true -> forallb (fun c => c =? 48) (hex_encode l) = true).
    { unfold all_zero. induction l as [|x l IH]; cbn [forallb hex_encode]; [reflexivity|].
      intro H. apply andb_true_iff in H as [Hx Hl]. apply N.eqb_eq in Hx. subst x. cbn. now apply IH. }
    specialize (G _ Z). rewrite P3 in G. rewrite forallb_forall in G. specialize (G c Hc).
    apply N.eqb_eq in G. contradiction.
  - repeat split; auto.
    destruct (nonzero_hex h) eqn:NZ; [reflexivity|]. apply nonzero_hex_decode in NZ. congruence.
Qed.

