(** C03 property theorems.  This file holds only statements, each closed by
    [exact] of a lemma from Proofs.v, the axiom audit, and non-vacuity examples. *)
From Verif Require Import Lib.Base C03.Model C03.Spec C03.Proofs.
Open Scope N_scope.

(** Inject then Extract is the identity on every valid span context with a
    well-formed tracestate (trace id, span id, sampled flag, tracestate; remote set). *)
Theorem c03_roundtrip : forall sc, wf_sc sc ->
  exists tp ts, inject sc = Some (tp, ts) /\
    extract tp ts = Some {| tid := tid sc; sid := sid sc; flags := N.land (flags sc) 1;
                            tstate := tstate sc; remote := true |}.
Proof. exact roundtrip. Qed.
Print Assumptions c03_roundtrip.

(** For arbitrary header bytes, extraction yields nothing or a valid remote span
    context whose re-injected traceparent and tracestate conform to the grammar. *)
Theorem c03_extract_sound : forall tp ts sc, extract tp ts = Some sc ->
  wf_sc sc /\ remote sc = true /\ flags sc <= 1 /\
  exists tp', inject sc = Some (tp', ts_string (tstate sc)) /\
              w3c_traceparent tp' = true /\ W3C_tracestate (ts_string (tstate sc)).
Proof. exact extract_sound. Qed.
Print Assumptions c03_extract_sound.

(** A bad tracestate never invalidates (or alters the ids of) a good traceparent. *)
Theorem c03_bad_tracestate_harmless : forall tp ts ts',
  ids (extract tp ts) = ids (extract tp ts').
Proof. exact tracestate_irrelevant. Qed.
Print Assumptions c03_bad_tracestate_harmless.

(** Parsing accepts only the grammar: legal keys/values, unique keys, at most 32. *)
Theorem c03_parse_accepts_only_grammar : forall s l,
  parse_tracestate s = Some l -> w3c_members l = true.
Proof. exact parse_tracestate_sound. Qed.
Print Assumptions c03_parse_accepts_only_grammar.

(** String then Parse is the identity on well-formed member lists. *)
Theorem c03_string_parse_id : forall l,
  w3c_members l = true -> parse_tracestate (ts_string l) = Some l.
Proof. exact parse_serialise. Qed.
Print Assumptions c03_string_parse_id.

(** Insert: rejects exactly the illegal members; otherwise the new/updated member
    is first, the others keep their order, only right-most members fall off, and
    the result is well formed. *)
Theorem c03_insert : forall l k v, w3c_members l = true ->
  ts_insert l k v = (if w3c_member (k, v) then Some (spec_insert l k v) else None) /\
  (w3c_member (k, v) = true -> w3c_members (spec_insert l k v) = true).
Proof. intros l k v H. split; [now apply ts_insert_refines | now apply spec_insert_members]. Qed.
Print Assumptions c03_insert.

Theorem c03_delete : forall l k, w3c_members l = true ->
  ts_delete l k = spec_delete l k /\ w3c_members (spec_delete l k) = true.
Proof. intros l k H. split; [now apply ts_delete_refines | now apply spec_delete_members]. Qed.
Print Assumptions c03_delete.

(** Every edit script keeps every well-formed tracestate well formed. *)
Theorem c03_edits_preserve : forall es l,
  w3c_members l = true -> w3c_members (fold_left apply_edit es l) = true.
Proof. exact edits_members. Qed.
Print Assumptions c03_edits_preserve.

(** The boolean checker applied to implementation output implies the Prop reading. *)
Theorem c03_checker_sound : forall s, w3c_tracestate_b s = true -> W3C_tracestate s.
Proof. exact w3c_tracestate_b_sound. Qed.
Print Assumptions c03_checker_sound.

(** TraceIDFromHex / SpanIDFromHex accept exactly 2n lower-case hex digits that are not all
    '0', and return the n bytes whose lower-case hex rendering is the input. *)
Theorem c03_id_from_hex : forall n h,
  match id_from_hex n h with
  | Some b => length b = n /\ Forall (fun x => x < 256) b /\ all_zero b = false /\
              hex_encode b = h /\ forallb lchex h = true /\ nonzero_hex h = true
  | None => length h <> (2 * n)%nat \/ forallb lchex h = false \/ nonzero_hex h = false
  end.
Proof. exact id_from_hex_spec. Qed.
Print Assumptions c03_id_from_hex.

(** "Never accepts malformed headers": the W3C grammar forbids version ff, so a traceparent
    that starts with it leaves the context untouched whatever follows and whatever the tracestate. *)
Theorem c03_forbidden_version : forall tp ts, forbidden_version tp = true -> extract tp ts = None.
Proof. exact extract_rejects_ff. Qed.
Print Assumptions c03_forbidden_version.

(** Non-vacuity: concrete states meeting the hypotheses. *)
Definition ex_ts : list member := [(str "rojo", str "00f067aa0ba902b7"); (str "t1@sys", str "a b")].
Definition ex_sc : spanctx :=
  {| tid := hx "4bf92f3577b34da6a3ce929d0e0e4736"; sid := hx "00f067aa0ba902b7";
     flags := 3; tstate := ex_ts; remote := false |}.
Example ex_wf : wf_sc ex_sc.
Proof.
  unfold wf_sc. repeat split; try reflexivity;
    repeat (constructor; try (vm_compute; reflexivity)).
Qed.
Example ex_extract :
  exists sc, extract (str "00-4bf92f3577b34da6a3ce929d0e0e4736-00f067aa0ba902b7-01")
                     (str "rojo=00f067aa0ba902b7, t1@sys=a b ,,") = Some sc
             /\ tstate sc = ex_ts.
Proof. eexists. split; vm_compute; reflexivity. Qed.
Example ex_id_from_hex :
  id_from_hex 8 (str "00f067aa0ba902b7") = Some (hx "00f067aa0ba902b7") /\
  id_from_hex 8 (str "00F067aa0ba902b7") = None /\ id_from_hex 8 (str "0000000000000000") = None.
Proof. vm_compute. auto. Qed.
Example ex_insert_overflow :
  let l := map (fun i => (str "k" ++ [97 + i], str "v")) (map N.of_nat (seq 0 25))
           ++ map (fun i => (str "j" ++ [97 + i], str "v")) (map N.of_nat (seq 0 7)) in
  w3c_members l = true /\ length l = 32%nat /\
  ts_insert l (str "new") (str "x") = Some ((str "new", str "x") :: removelast l).
Proof. vm_compute. auto. Qed.
Example ex_forbidden_version :
  forbidden_version (str "ff-4bf92f3577b34da6a3ce929d0e0e4736-00f067aa0ba902b7-01") = true /\
  extract (str "fe-4bf92f3577b34da6a3ce929d0e0e4736-00f067aa0ba902b7-01") [] <> None.
Proof. split; vm_compute; [reflexivity|discriminate]. Qed.
