(** C03 model: W3C trace-context propagator and TraceState, byte level.
    Mirrors propagation/trace_context.go and trace/tracestate.go.
    Executable definitions only; proofs live in Proofs.v. *)
From Verif Require Import Lib.Base.
Open Scope N_scope.

(** strings.Cut(s, sep) for a one-byte separator: (before, after, found). *)
Fixpoint cut (sep : N) (s : bytes) : bytes * bytes * bool :=
  match s with
  | [] => ([], [], false)
  | c :: r => if c =? sep then ([], r, true)
              else let '(a, b, f) := cut sep r in (c :: a, b, f)
  end.

Definition DASH : N := 45.   (* '-' *)
Definition COMMA : N := 44.  (* ',' *)
Definition EQUALS : N := 61. (* '=' *)
Definition AT : N := 64.     (* '@' *)

(** *** hex *)
Definition is_lchex (c : N) : bool :=
  ((48 <=? c) && (c <=? 57)) || ((97 <=? c) && (c <=? 102)).
Definition hexval (c : N) : N := if c <=? 57 then c - 48 else c - 87.
Definition hexchar (v : N) : N := if v <? 10 then v + 48 else v + 87.

Fixpoint hex_decode (s : bytes) : bytes :=
  match s with
  | a :: b :: r => (16 * hexval a + hexval b) :: hex_decode r
  | _ => []
  end.
Fixpoint hex_encode (s : bytes) : bytes :=
  match s with
  | [] => []
  | b :: r => hexchar (b / 16) :: hexchar (b mod 16) :: hex_encode r
  end.

(** extractPart(dst, &h, n): cut at '-', demand exactly n lower-case hex bytes. *)
Definition extract_part (n : nat) (h : bytes) : option bytes * bytes :=
  let '(part, rest, _) := cut DASH h in
  if Nat.eqb (length part) n && forallb is_lchex part
  then (Some (hex_decode part), rest) else (None, rest).

(** TraceIDFromHex / SpanIDFromHex (trace/trace.go): exactly 2n lower-case hex digits, not all zero. *)
Definition id_from_hex (n : nat) (h : bytes) : option bytes :=
  if Nat.eqb (length h) (2 * n) && forallb is_lchex h
  then (if forallb (fun x => x =? 0) (hex_decode h) then None else Some (hex_decode h))
  else None.

(** *** tracestate members *)
Definition is_lcalpha (c : N) : bool := (97 <=? c) && (c <=? 122).
Definition is_digit (c : N) : bool := (48 <=? c) && (c <=? 57).
Definition is_alnum (c : N) : bool := is_lcalpha c || is_digit c.
Definition key_remain_char (c : N) : bool :=
  is_alnum c || (c =? 95) || (c =? 45) || (c =? 42) || (c =? 47).

Definition check_key_part (k : bytes) (n : nat) : bool :=
  match k with
  | [] => false
  | f :: r => Nat.leb (length r) n && is_lcalpha f && forallb key_remain_char r
  end.
Definition check_key_tenant (k : bytes) (n : nat) : bool :=
  match k with
  | [] => false
  | f :: r => is_alnum f && Nat.leb (length r) n && forallb key_remain_char r
  end.
Definition check_key (k : bytes) : bool :=
  let '(tenant, system, ok) := cut AT k in
  if ok then check_key_tenant tenant 240 && check_key_part system 13
  else check_key_part k 255.

Definition value_char (v : N) : bool := (32 <=? v) && (v <=? 126) && negb (v =? 44) && negb (v =? 61).
Definition value_last (v : N) : bool := (33 <=? v) && (v <=? 126) && negb (v =? 44) && negb (v =? 61).
Fixpoint check_value_go (v : bytes) : bool :=
  match v with
  | [] => false
  | [c] => value_last c
  | c :: r => value_char c && check_value_go r
  end.
Definition check_value (v : bytes) : bool :=
  Nat.leb (length v) 256 && check_value_go v.

Definition member := (bytes * bytes)%type.

Definition new_member (k v : bytes) : option member :=
  if check_key k then if check_value v then Some (k, v) else None else None.

Definition is_blank (c : N) : bool := (c =? 32) || (c =? 9).
Fixpoint trim_left (s : bytes) : bytes :=
  match s with
  | c :: r => if is_blank c then trim_left r else s
  | [] => []
  end.
Definition trim_right (s : bytes) : bytes := rev (trim_left (rev s)).

Definition parse_member (m : bytes) : option member :=
  let '(k, v, ok) := cut EQUALS m in
  if ok then new_member (trim_left k) (trim_right v) else None.

Fixpoint has_key (k : bytes) (l : list member) : bool :=
  match l with
  | [] => false
  | (k', _) :: r => bytes_eqb k' k || has_key k r
  end.

(** Split at every ',' (strings.Cut loop).  An empty input yields no pieces;
    the Go loop runs while ts <> "" and skips empty pieces. *)
Fixpoint split_on (sep : N) (s cur : bytes) : list bytes :=
  match s with
  | [] => [rev cur]
  | c :: r => if c =? sep then rev cur :: split_on sep r [] else split_on sep r (c :: cur)
  end.

Definition MAX_MEMBERS : nat := 32.

(** members accumulated in reverse; returns None on the first error. *)
Fixpoint parse_members (pieces : list bytes) (acc : list member) : option (list member) :=
  match pieces with
  | [] => Some (rev acc)
  | p :: r =>
      match p with
      | [] => parse_members r acc
      | _ =>
        match parse_member p with
        | None => None
        | Some (k, v) =>
            if has_key k acc then None
            else if Nat.ltb MAX_MEMBERS (S (length acc)) then None
            else parse_members r ((k, v) :: acc)
        end
      end
  end.

Definition parse_tracestate (s : bytes) : option (list member) :=
  match s with
  | [] => Some []
  | _ => parse_members (split_on COMMA s []) []
  end.

Fixpoint ts_string (l : list member) : bytes :=
  match l with
  | [] => []
  | [(k, v)] => k ++ EQUALS :: v
  | (k, v) :: r => k ++ EQUALS :: v ++ COMMA :: ts_string r
  end.

Fixpoint remove_key (k : bytes) (l : list member) : list member :=
  match l with
  | [] => []
  | (k', v') :: r => if bytes_eqb k' k then r else (k', v') :: remove_key k r
  end.

(** Insert: Some new list, or None = error (receiver returned unchanged). *)
Definition ts_insert (l : list member) (k v : bytes) : option (list member) :=
  match new_member k v with
  | None => None
  | Some m =>
      if has_key k l then Some (m :: remove_key k l)
      else if Nat.ltb (length l) MAX_MEMBERS then Some (m :: l)
      else Some (m :: removelast l)
  end.

Definition ts_delete (l : list member) (k : bytes) : list member := remove_key k l.

Fixpoint ts_get (l : list member) (k : bytes) : bytes :=
  match l with
  | [] => []
  | (k', v) :: r => if bytes_eqb k' k then v else ts_get r k
  end.

(** *** span context and the propagator *)
Record spanctx := { tid : bytes; sid : bytes; flags : N; tstate : list member; remote : bool }.

Definition all_zero (b : bytes) : bool := forallb (fun x => x =? 0) b.
Definition sc_valid (sc : spanctx) : bool := negb (all_zero (tid sc)) && negb (all_zero (sid sc)).

Definition TP_PREFIX : bytes := [48; 48]. (* "00" *)

Definition inject (sc : spanctx) : option (bytes * bytes) :=
  if sc_valid sc then
    Some (TP_PREFIX ++ DASH :: hex_encode (tid sc) ++ DASH :: hex_encode (sid sc)
            ++ DASH :: hex_encode [N.land (flags sc) 1],
          ts_string (tstate sc))
  else None.

Definition extract (tp ts : bytes) : option spanctx :=
  match tp with
  | [] => None
  | _ =>
    match extract_part 2 tp with
    | (None, _) => None
    | (Some ver, h1) =>
      let version := hd 0 ver in
      if 254 <? version then None else
      match extract_part 32 h1 with
      | (None, _) => None
      | (Some t, h2) =>
        match extract_part 16 h2 with
        | (None, _) => None
        | (Some s, h3) =>
          match extract_part 2 h3 with
          | (None, _) => None
          | (Some o, h4) =>
            let opts := hd 0 o in
            if (version =? 0) && (negb (match h4 with [] => true | _ => false end) || (2 <? opts))
            then None
            else
              let st := match parse_tracestate ts with Some l => l | None => [] end in
              let sc := {| tid := t; sid := s; flags := N.land opts 1; tstate := st; remote := true |} in
              if sc_valid sc then Some sc else None
          end
        end
      end
    end
  end.
