(** C03 correspondence: evaluates model and spec on the cases the Go harness
    observed from the implementation (generated files import this). *)
From Verif Require Import Lib.Base C03.Model C03.Spec C03.Proofs.
Open Scope N_scope.

Inductive obs_ext :=
| ObsNone
| ObsSome (t s : bytes) (fl : N) (rem : bool) (ts_str re_tp re_ts : bytes).

Definition obs_eqb (a b : obs_ext) : bool :=
  match a, b with
  | ObsNone, ObsNone => true
  | ObsSome t s f r x y z, ObsSome t' s' f' r' x' y' z' =>
      bytes_eqb t t' && bytes_eqb s s' && (f =? f') && Bool.eqb r r' &&
      bytes_eqb x x' && bytes_eqb y y' && bytes_eqb z z'
  | _, _ => false
  end.

Inductive case :=
| CExtract (tp ts : bytes) (o o_nots : obs_ext)
| CRound (t s : bytes) (fl : N) (ts : bytes) (ts_orig_str inj_tp inj_ts : bytes) (o : obs_ext)
| CParse (s : bytes) (o : option (list (bytes * bytes)))
| CEdit (s0 s0_str : bytes) (ops : list edit) (obs : list (bool * bytes))
| CHexId (n : nat) (h : bytes) (o : option bytes)
| CGet (s : bytes) (k : bytes) (len : nat) (v : bytes).

Definition model_obs (tp ts : bytes) : obs_ext :=
  match extract tp ts with
  | None => ObsNone
  | Some sc =>
      match inject sc with
      | Some (rtp, rts) => ObsSome (tid sc) (sid sc) (flags sc) (remote sc) (ts_string (tstate sc)) rtp rts
      | None => ObsSome (tid sc) (sid sc) (flags sc) (remote sc) (ts_string (tstate sc)) [] []
      end
  end.

(** Spec on an extraction observation (independent of the model). *)
Definition obs_ok (o : obs_ext) : bool :=
  match o with
  | ObsNone => true
  | ObsSome t s f r x rtp rts =>
      r && (f <=? 1) && Nat.eqb (length t) 16 && Nat.eqb (length s) 8 &&
      w3c_traceparent rtp && w3c_tracestate_b rts && bytes_eqb x rts &&
      bytes_eqb (tp_trace_id rtp) (hex_encode t) && bytes_eqb (tp_span_id rtp) (hex_encode s) &&
      bytes_eqb (tp_flags rtp) (hex_encode [f])
  end.
Definition obs_ids (o : obs_ext) : option (bytes * bytes * N) :=
  match o with ObsNone => None | ObsSome t s f _ _ _ _ => Some (t, s, f) end.
Definition ids_eqb (a b : option (bytes * bytes * N)) : bool :=
  match a, b with
  | None, None => true
  | Some (t, s, f), Some (t', s', f') => bytes_eqb t t' && bytes_eqb s s' && (f =? f')
  | _, _ => false
  end.

Definition members_of (s : bytes) : option (list (bytes * bytes)) :=
  match s with [] => Some [] | _ => all_some (map split_member (split_at 44 s [])) end.
Definition member_eqb (a b : bytes * bytes) : bool := bytes_eqb (fst a) (fst b) && bytes_eqb (snd a) (snd b).
Definition members_eqb := list_eqb member_eqb.

(** Edit observations: model side. *)
Fixpoint model_edits (l : list member) (ops : list edit) : list (bool * bytes) :=
  match ops with
  | [] => []
  | e :: r =>
      let '(err, l') := match e with
                        | EInsert k v => match ts_insert l k v with Some l' => (false, l') | None => (true, l) end
                        | EDelete k => (false, ts_delete l k)
                        end in
      (err, ts_string l') :: model_edits l' r
  end.

(** Edit observations: spec side, judged from consecutive observed strings only. *)
Fixpoint spec_edits (prev : bytes) (ops : list edit) (obs : list (bool * bytes)) : bool :=
  match ops, obs with
  | [], [] => true
  | e :: r, (err, cur) :: obs' =>
      w3c_tracestate_b cur &&
      match members_of prev, members_of cur with
      | Some lp, Some lc =>
          match e with
          | EInsert k v =>
              if err then negb (w3c_member (k, v)) && members_eqb lc lp
              else w3c_member (k, v) && members_eqb lc (spec_insert lp k v)
          | EDelete k => negb err && members_eqb lc (spec_delete lp k)
          end
      | _, _ => false
      end && spec_edits cur r obs'
  | _, _ => false
  end.

Definition obs_list_eqb (a b : list (bool * bytes)) : bool :=
  list_eqb (fun x y => Bool.eqb (fst x) (fst y) && bytes_eqb (snd x) (snd y)) a b.

Definition flag (b : bool) (code : N) : list N := if b then [] else [code].

Definition check_case (c : case) : list N :=
  match c with
  | CExtract tp ts o o0 =>
      flag (obs_eqb (model_obs tp ts) o && obs_eqb (model_obs tp []) o0) V_MISMATCH ++
      flag (obs_ok o && obs_ok o0 && ids_eqb (obs_ids o) (obs_ids o0) &&
            (negb (forbidden_version tp) || (obs_eqb o ObsNone && obs_eqb o0 ObsNone))) V_SPECFAIL ++
      flag (obs_ok (model_obs tp ts)) V_MODELSPEC
  | CRound t s fl ts ts_orig itp its o =>
      let valid := negb (all_zero t) && negb (all_zero s) in
      flag (match parse_tracestate ts with
            | None => false
            | Some l =>
                let sc := {| tid := t; sid := s; flags := fl; tstate := l; remote := false |} in
                bytes_eqb ts_orig (ts_string l) &&
                match inject sc with
                | None => bytes_eqb itp [] && bytes_eqb its [] && obs_eqb o ObsNone
                | Some (mtp, mts) => bytes_eqb itp mtp && bytes_eqb its mts && obs_eqb (model_obs mtp mts) o
                end
            end) V_MISMATCH ++
      flag (if valid then
              match o with
              | ObsSome t' s' f' r x _ _ =>
                  bytes_eqb t t' && bytes_eqb s s' && (f' =? N.land fl 1) && r && bytes_eqb x ts_orig &&
                  obs_ok o && w3c_traceparent itp && w3c_tracestate_b its
              | ObsNone => false
              end
            else bytes_eqb itp [] && bytes_eqb its []) V_SPECFAIL
  | CParse s o =>
      flag (option_eqb members_eqb (parse_tracestate s) o) V_MISMATCH ++
      flag (match o with Some l => w3c_members l | None => true end) V_SPECFAIL
  | CEdit s0 s0_str ops obs =>
      flag (match parse_tracestate s0 with
            | None => false
            | Some l => bytes_eqb s0_str (ts_string l) && obs_list_eqb (model_edits l ops) obs
            end) V_MISMATCH ++
      flag (w3c_tracestate_b s0_str && spec_edits s0_str ops obs) V_SPECFAIL
  | CHexId n h o =>
      flag (option_eqb bytes_eqb (id_from_hex n h) o) V_MISMATCH ++
      flag (match o with
            | Some b => Nat.eqb (length b) n && negb (forallb (fun x => x =? 0) b) &&
                        bytes_eqb (hex_encode b) h && forallb lchex h
            | None => negb (Nat.eqb (length h) (2 * n) && forallb lchex h && nonzero_hex h)
            end) V_SPECFAIL
  | CGet s k len v =>
      flag (match parse_tracestate s with
            | None => false
            | Some l => Nat.eqb (length l) len && bytes_eqb (ts_get l k) v
            end) V_MISMATCH ++
      flag (match members_of s with
            | Some l => Nat.eqb (length l) len &&
                        bytes_eqb v (match find (fun m => bytes_eqb (fst m) k) l with Some m => snd m | None => [] end)
            | None => false
            end) V_SPECFAIL
  end.

Definition run (cs : list case) : list (N * N) := index_from 0 check_case cs.
