(** C05 vocabulary shared by specification and model: attribute values as a sum
    type, key-values, the byte-wise key order of Go strings, and the IEEE-754
    classification of float64 bit patterns.  A float64 is its 64-bit pattern
    ([math.Float64bits]); an int64 is its two's-complement pattern.  No Coq
    primitive floats anywhere.  Definitions only. *)
From Verif Require Import Lib.Base.
Open Scope N_scope.

(** attribute.Value: vtype + payload.  [VInvalid] is the zero Value. *)
Inductive value :=
| VInvalid
| VBool (b : bool)
| VInt (n : N)            (* int64, two's complement pattern *)
| VFloat (bits : N)       (* float64, bit pattern *)
| VStr (s : bytes)
| VBools (l : list bool)
| VInts (l : list N)
| VFloats (l : list N)    (* bit patterns *)
| VStrs (l : list bytes).

(** attribute.KeyValue *)
Definition kv : Type := (bytes * value)%type.

(** attribute.Type numbering (value.go). *)
Definition vtype (v : value) : N :=
  match v with
  | VInvalid => 0 | VBool _ => 1 | VInt _ => 2 | VFloat _ => 3 | VStr _ => 4
  | VBools _ => 5 | VInts _ => 6 | VFloats _ => 7 | VStrs _ => 8
  end.

(** Identity of typed values: same type, same bits. *)
Definition value_eqb (a b : value) : bool :=
  match a, b with
  | VInvalid, VInvalid => true
  | VBool x, VBool y => Bool.eqb x y
  | VInt x, VInt y => x =? y
  | VFloat x, VFloat y => x =? y
  | VStr x, VStr y => bytes_eqb x y
  | VBools x, VBools y => list_eqb Bool.eqb x y
  | VInts x, VInts y => list_eqb N.eqb x y
  | VFloats x, VFloats y => list_eqb N.eqb x y
  | VStrs x, VStrs y => list_eqb bytes_eqb x y
  | _, _ => false
  end.

Definition kv_eqb (a b : kv) : bool := bytes_eqb (fst a) (fst b) && value_eqb (snd a) (snd b).

(** Go's [<] / [cmp.Compare] on strings: lexicographic on bytes. *)
Fixpoint bytes_compare (a b : bytes) : comparison :=
  match a, b with
  | [], [] => Eq
  | [], _ :: _ => Lt
  | _ :: _, [] => Gt
  | x :: a', y :: b' => match x ?= y with Eq => bytes_compare a' b' | c => c end
  end.

Definition key_ltb (a b : bytes) : bool := match bytes_compare a b with Lt => true | _ => false end.
Definition key_leb (a b : bytes) : bool := match bytes_compare a b with Gt => false | _ => true end.

(** IEEE-754 binary64 classes on bit patterns (sign bit 63 ignored via [mod 2^63]). *)
Definition TWO63 : N := 9223372036854775808.     (* 2^63 *)
Definition F64_INF : N := 9218868437227405312.   (* 0x7FF0000000000000 *)
Definition f64_is_nan (b : N) : bool := F64_INF <? b mod TWO63.
Definition f64_is_zero (b : N) : bool := b mod TWO63 =? 0.

(** Values whose Go [==] is the identity of typed values: no NaN and no negative
    zero inside a float64 slice (scalars are compared by bit pattern and need no guard). *)
Definition f64_regular (b : N) : bool := negb (f64_is_nan b) && negb (f64_is_zero b && negb (b =? 0)).
Definition value_nan_free (v : value) : bool :=
  match v with VFloats l => forallb (fun b => negb (f64_is_nan b)) l | _ => true end.
Definition value_regular (v : value) : bool :=
  match v with VFloats l => forallb f64_regular l | _ => true end.

(** Go's == on [N]float64 identifies +0 and -0: the representative with the sign of zeros erased. *)
Definition canonz_f (b : N) : N := if f64_is_zero b then 0 else b.
Definition canonz (v : value) : value :=
  match v with VFloats l => VFloats (map canonz_f l) | _ => v end.
Definition canonz_kv (x : kv) : kv := (fst x, canonz (snd x)).

(** ** Text forms (Value.Emit): decimal numerals, bool, slices, JSON strings. *)
Fixpoint dec_digits (fuel : nat) (n : N) (acc : bytes) : bytes :=
  match fuel with
  | O => acc
  | S f => let acc' := (48 + n mod 10) :: acc in
           if n <? 10 then acc' else dec_digits f (n / 10) acc'
  end.
Definition dec (n : N) : bytes := dec_digits 25 n [].
Definition TWO64 : N := 18446744073709551616.
(** strconv.FormatInt(x, 10) of the int64 whose two's-complement pattern is [n]. *)
Definition dec_i64 (n : N) : bytes := if n <? TWO63 then dec n else 45 :: dec (TWO64 - n).

Fixpoint join (sep : bytes) (l : list bytes) : bytes :=
  match l with
  | [] => []
  | [x] => x
  | x :: r => x ++ sep ++ join sep r
  end.

Definition text_bool (b : bool) : bytes := if b then str "true" else str "false".

(** encoding/json string escaping (escapeHTML on) of an ASCII byte. *)
Definition hexl (v : N) : N := if v <? 10 then 48 + v else 87 + v.
Definition json_esc (c : N) : bytes :=
  if (c =? 34) || (c =? 92) then [92; c]
  else if c =? 8 then [92; 98]
  else if c =? 12 then [92; 102]
  else if c =? 10 then [92; 110]
  else if c =? 13 then [92; 114]
  else if c =? 9 then [92; 116]
  else if (c <? 32) || (c =? 60) || (c =? 62) || (c =? 38) then [92; 117; 48; 48; hexl (c / 16); hexl (c mod 16)]
  else [c].
Definition json_string (s : bytes) : bytes := [34] ++ flat_map json_esc s ++ [34].

Definition text_bools (l : list bool) : bytes := [91] ++ join [32] (map text_bool l) ++ [93].   (* fmt.Sprint([]bool) *)
Definition text_ints (l : list N) : bytes := [91] ++ join [44] (map dec_i64 l) ++ [93].         (* json.Marshal([]int64) *)
Definition text_strs (l : list bytes) : bytes := [91] ++ join [44] (map json_string l) ++ [93]. (* json.Marshal([]string) *)

(** ** Iterator call sequences (iterator.go): the calls a user can make and what each returns. *)
Definition zero_kv : kv := ([], VInvalid).   (* KeyValue{} *)
Inductive iop := INext | IAttr | IIndexed | ILen | IToSlice.
Inductive iobs :=
| ONext (b : bool) | OAttr (x : kv) | OIndexed (i : Z) (x : kv) | OLen (n : N) | OSlice (l : list kv).
