(** C05 model: attribute.Set as the code builds and compares it.
    Mirrors attribute/set.go (NewSetWithFiltered, Filter, Value, Get, Len, Equals,
    Equivalent), value.go + internal/attribute.go (slice values are arrays held in an
    interface, so Go's == compares them element by element), iterator.go
    (MergeIterator), filter.go (allow / deny key filters) and encoder.go (default
    encoder).  Executable definitions only; proofs live in Proofs.v.

    A Set (its Distinct) is the array of key-values: [list kv]. *)
From Verif Require Import Lib.Base C05.Types.
Open Scope N_scope.

(** *** Go's == on Values.
    Scalars live in [numeric uint64] / [stringly string]: compared by bits, so a
    scalar NaN equals itself and +0 differs from -0.  Slices live in [slice
    interface{}] holding [N]T arrays: equal iff same dynamic type (element type
    and length) and all elements ==; for [N]float64 that is IEEE equality. *)
Definition f64_eq (a b : N) : bool :=
  negb (f64_is_nan a) && negb (f64_is_nan b) && ((a =? b) || (f64_is_zero a && f64_is_zero b)).

Definition go_eq (a b : value) : bool :=
  match a, b with
  | VInvalid, VInvalid => true
  | VBool x, VBool y => Bool.eqb x y
  | VInt x, VInt y => x =? y
  | VFloat x, VFloat y => x =? y
  | VStr x, VStr y => bytes_eqb x y
  | VBools x, VBools y => list_eqb Bool.eqb x y
  | VInts x, VInts y => list_eqb N.eqb x y
  | VFloats x, VFloats y => list_eqb f64_eq x y
  | VStrs x, VStrs y => list_eqb bytes_eqb x y
  | _, _ => false
  end.

Definition kv_go_eq (x y : kv) : bool := bytes_eqb (fst x) (fst y) && go_eq (snd x) (snd y).

(** Distinct == Distinct: [n]KeyValue arrays, equal length and element-wise ==.
    This is Set.Equals and (Go map semantics) whether Equivalent() finds the other as a map key. *)
Definition distinct_eq (a b : list kv) : bool := list_eqb kv_go_eq a b.
Definition set_equals := distinct_eq.

(** *** NewSetWithFiltered *)

(** slices.SortStableFunc by key: any stable sort gives this result; insertion sort. *)
Fixpoint insert_kv (x : kv) (l : list kv) : list kv :=
  match l with
  | [] => [x]
  | y :: r => if key_leb (fst x) (fst y) then x :: y :: r else y :: insert_kv x r
  end.
Fixpoint sort_stable (l : list kv) : list kv :=
  match l with
  | [] => []
  | x :: r => insert_kv x (sort_stable r)
  end.

(** The backward de-duplication loop on a sorted slice keeps the LAST element of
    each run of equal keys at the end ([uniq_last]) and leaves the others in front ([superseded]). *)
Fixpoint uniq_last (l : list kv) : list kv :=
  match l with
  | [] => []
  | x :: r => match r with
              | y :: _ => if bytes_eqb (fst x) (fst y) then uniq_last r else x :: uniq_last r
              | [] => [x]
              end
  end.
Fixpoint superseded (l : list kv) : list kv :=
  match l with
  | [] => []
  | x :: r => match r with
              | y :: _ => if bytes_eqb (fst x) (fst y) then x :: superseded r else superseded r
              | [] => []
              end
  end.

Record newset_result := { ns_set : list kv; ns_removed : list kv; ns_after : list kv }.

(** [keep = None] is a nil Filter.  [ns_after] is the caller's slice after the call,
    meaningful as a multiset in front of its [removed ++ set] tail. *)
Definition new_set_filtered (input : list kv) (keep : option (kv -> bool)) : newset_result :=
  match input with
  | [] => {| ns_set := []; ns_removed := []; ns_after := [] |}
  | _ =>
      let s := sort_stable input in
      let u := uniq_last s in
      let d := superseded s in
      match keep with
      | None => {| ns_set := u; ns_removed := []; ns_after := d ++ u |}
      | Some f =>
          let kept := filter f u in
          let rem := filter (fun x => negb (f x)) u in
          {| ns_set := kept; ns_removed := rem; ns_after := d ++ rem ++ kept |}
      end
  end.

Definition new_set (input : list kv) : list kv := ns_set (new_set_filtered input None).

(** *** Readers *)
Definition set_len (s : list kv) : N := N.of_nat (length s).
Definition set_get (s : list kv) (i : nat) : option kv := nth_error s i.

(** sort.Search(n, f): bisection for the smallest index in [0, n] at which f holds. *)
Fixpoint bsearch (fuel : nat) (f : nat -> bool) (i j : nat) : nat :=
  match fuel with
  | O => i
  | S fu => if Nat.ltb i j then
              let h := Nat.div (i + j) 2 in
              if f h then bsearch fu f i h else bsearch fu f (S h) j
            else i
  end.
Definition sort_search (n : nat) (f : nat -> bool) : nat := bsearch n f 0 n.

(** Set.Value: sort.Search for the first index whose key is >= k, then compare keys. *)
Definition key_ge_at (s : list kv) (k : bytes) (h : nat) : bool :=
  match nth_error s h with Some x => key_leb k (fst x) | None => true end.
Definition set_value (s : list kv) (k : bytes) : option value :=
  match nth_error s (sort_search (length s) (key_ge_at s k)) with
  | Some (k', v) => if bytes_eqb k k' then Some v else None
  | None => None
  end.
Definition has_value (s : list kv) (k : bytes) : bool :=
  match set_value s k with Some _ => true | None => false end.

(** *** Set.Filter: (kept set, dropped list); the receiver is not touched. *)
Definition set_filter (keep : kv -> bool) (s : list kv) : list kv * list kv :=
  (filter keep s, filter (fun x => negb (keep x)) s).

(** *** filter.go *)
Definition allow_keys_filter (keys : list bytes) : kv -> bool :=
  fun x => existsb (bytes_eqb (fst x)) keys.
Definition deny_keys_filter (keys : list bytes) : kv -> bool :=
  fun x => negb (existsb (bytes_eqb (fst x)) keys).

(** *** MergeIterator over two sets: ascending keys, the first set's value on a shared key. *)
Fixpoint merge_iter (a : list kv) : list kv -> list kv :=
  fix merge_a (b : list kv) : list kv :=
    match a, b with
    | [], _ => b
    | _, [] => a
    | x :: a', y :: b' =>
        match bytes_compare (fst x) (fst y) with
        | Eq => x :: merge_iter a' b'
        | Lt => x :: merge_iter a' b
        | Gt => y :: merge_a b'
        end
    end.

(** *** Iterator (iterator.go): the set and an index, -1 before the first Next.  ToSlice rewinds,
    walks to the end and leaves the index there (it leaves an empty set's iterator alone). *)
Record iter := { it_set : list kv; it_idx : Z }.
Definition iter_new (s : list kv) : iter := {| it_set := s; it_idx := (-1)%Z |}.
Definition iter_attr (it : iter) : kv :=
  if (it_idx it <? 0)%Z then zero_kv else nth (Z.to_nat (it_idx it)) (it_set it) zero_kv.
Definition iter_step (it : iter) (op : iop) : iter * iobs :=
  match op with
  | INext => let i := (it_idx it + 1)%Z in
             ({| it_set := it_set it; it_idx := i |}, ONext (i <? Z.of_nat (length (it_set it)))%Z)
  | IAttr => (it, OAttr (iter_attr it))
  | IIndexed => (it, OIndexed (it_idx it) (iter_attr it))
  | ILen => (it, OLen (N.of_nat (length (it_set it))))
  | IToSlice => ({| it_set := it_set it;
                    it_idx := match it_set it with [] => it_idx it | _ :: _ => Z.of_nat (length (it_set it)) end |},
                 OSlice (it_set it))
  end.
Fixpoint iter_run (it : iter) (ops : list iop) : list iobs :=
  match ops with
  | [] => []
  | op :: r => let '(it', o) := iter_step it op in o :: iter_run it' r
  end.

(** MergeIterator: what is left of the merged sequence and the current attribute (Next / Attribute only). *)
Record miter := { mi_rest : list kv; mi_cur : kv }.
Definition miter_new (a b : list kv) : miter := {| mi_rest := merge_iter a b; mi_cur := zero_kv |}.
Definition miter_step (m : miter) (op : iop) : miter * iobs :=
  match op with
  | INext => match mi_rest m with
             | [] => (m, ONext false)
             | x :: r => ({| mi_rest := r; mi_cur := x |}, ONext true)
             end
  | _ => (m, OAttr (mi_cur m))
  end.
Fixpoint miter_run (m : miter) (ops : list iop) : list iobs :=
  match ops with
  | [] => []
  | op :: r => let '(m', o) := miter_step m op in o :: miter_run m' r
  end.

(** *** Default encoder (encoder.go), for keys and strings that are valid UTF-8. *)
Definition esc (s : bytes) : bytes :=
  flat_map (fun c => if (c =? 61) || (c =? 44) || (c =? 92) then [92; c] else [c]) s.

(** Value.Emit for the types whose text form does not involve float formatting; string slices are
    modelled for ASCII elements (encoding/json's escaping of non-ASCII runes is not modelled);
    [None] = taken from the implementation (oracle) by the caller.  The text forms themselves
    (decimal numerals, "[true false]", JSON arrays, JSON string escaping) are in Types.v. *)
Definition emit_simple (v : value) : option bytes :=
  match v with
  | VInvalid => Some (str "unknown")
  | VBool b => Some (text_bool b)
  | VInt n => Some (dec_i64 n)
  | VStr s => Some s
  | VBools l => Some (text_bools l)
  | VInts l => Some (text_ints l)
  | VStrs l => if forallb (forallb (fun c => c <? 128)) l then Some (text_strs l) else None
  | _ => None
  end.

(** Encode over the iteration of a set; [emit] is Value.Emit as observed (only consulted where [emit_simple] gives no text). *)
Definition encode_kv (emit : value -> bytes) (x : kv) : bytes :=
  esc (fst x) ++ [61] ++
  match snd x with
  | VStr s => esc s
  | v => match emit_simple v with Some t => t | None => emit v end
  end.
Definition encode (emit : value -> bytes) (s : list kv) : bytes :=
  join [44] (map (encode_kv emit) s).
