(** C05 property theorems: statements, each closed by [exact] of a lemma from
    Proofs.v (or a one-line combination), the axiom audit, and non-vacuity examples.
    Every theorem quantifies over ALL key-value lists / filters / sets; nothing is bounded. *)
From Verif Require Import Lib.Base C05.Types C05.Spec C05.Model C05.Proofs.
From Coq Require Import Permutation.
Open Scope N_scope.

(** For every input slice and every filter (nil included) the constructed set is sorted by key
    with each key once. *)
Theorem c05_sorted_unique : forall input keep,
  SortedUnique (ns_set (new_set_filtered input keep)).
Proof. exact new_set_sorted_unique. Qed.
Print Assumptions c05_sorted_unique.

(** Each key carries the value supplied last; the filter decides on that binding whether it is in
    the set or in the removed list (never both, never neither). *)
Theorem c05_last_wins : forall input keep k,
  assoc k (ns_set (new_set_filtered input keep)) = selected (keep_of keep) true k input /\
  assoc k (ns_removed (new_set_filtered input keep)) = selected (keep_of keep) false k input.
Proof. exact new_set_last_wins. Qed.
Print Assumptions c05_last_wins.

(** No input value is lost: the caller's slice afterwards is a permutation of the input and ends
    with removed ++ set, superseded duplicates in front; set and removed only hold input elements. *)
Theorem c05_no_value_lost : forall input keep,
  let r := new_set_filtered input keep in
  Permutation input (ns_after r) /\
  (exists dups, ns_after r = dups ++ ns_removed r ++ ns_set r) /\
  (forall x, In x (ns_set r ++ ns_removed r) -> In x input).
Proof. exact new_set_no_value_lost. Qed.
Print Assumptions c05_no_value_lost.

(** The whole construction clause in one statement. *)
Theorem c05_newset_spec : forall input keep,
  let r := new_set_filtered input keep in
  NewSetSpec input (keep_of keep) (ns_after r) (ns_set r) (ns_removed r).
Proof. exact new_set_filtered_spec. Qed.
Print Assumptions c05_newset_spec.

(** Inputs denoting the same key -> typed value mapping build identical sets, whatever the order
    and duplication; in particular every permutation of a duplicate-free input, and an input with
    superseded duplicates put in front. *)
Theorem c05_order_dup_insensitive : forall i1 i2 keep, same_mapping i1 i2 ->
  ns_set (new_set_filtered i1 keep) = ns_set (new_set_filtered i2 keep).
Proof. exact new_set_order_dup_insensitive. Qed.
Print Assumptions c05_order_dup_insensitive.

Theorem c05_permutation_insensitive : forall i1 i2, Permutation i1 i2 -> NoDup (map fst i1) ->
  new_set i1 = new_set i2.
Proof. intros i1 i2 HP HN. apply new_set_order_dup_insensitive. now apply same_mapping_perm. Qed.
Print Assumptions c05_permutation_insensitive.

Theorem c05_duplicates_insensitive : forall d i, (forall x, In x d -> In (fst x) (map fst i)) ->
  new_set (d ++ i) = new_set i.
Proof. intros d i H. apply new_set_order_dup_insensitive. now apply same_mapping_dup_prefix. Qed.
Print Assumptions c05_duplicates_insensitive.

(** Equals / equal Equivalent() map keys exactly when the mappings are the same, and every set equals
    itself -- for inputs whose float64 slices hold no NaN and no negative zero (guard in plain sight;
    the unguarded statement is refuted below: F-C05-1). *)
Theorem c05_equal_iff_same_mapping_regular : forall i1 i2,
  kvs_regular i1 = true -> kvs_regular i2 = true ->
  (set_equals (new_set i1) (new_set i2) = true <-> same_mapping i1 i2).
Proof. exact equal_iff_same_mapping_regular. Qed.
Print Assumptions c05_equal_iff_same_mapping_regular.

(** Unguarded, exact: Go equality of two sets holds iff the first holds no NaN inside a float64 slice
    and the sets agree once the sign of zeros inside float64 slices is erased. *)
Theorem c05_equal_characterised : forall s1 s2,
  set_equals s1 s2 = true <-> set_nan_free s1 = true /\ map canonz_kv s1 = map canonz_kv s2.
Proof. exact distinct_eq_char. Qed.
Print Assumptions c05_equal_characterised.

(** A set equals itself iff no float64 slice in it holds a NaN. *)
Theorem c05_equal_reflexive_iff_nan_free : forall s,
  set_equals s s = true <-> set_nan_free s = true.
Proof. exact distinct_eq_refl_iff. Qed.
Print Assumptions c05_equal_reflexive_iff_nan_free.

(** F-C05-1: the full-strength statements fail (witnesses: k -> Float64Slice{NaN}; {+0} vs {-0}). *)
Theorem c05_equal_refuted_nan :
  exists i, same_mapping i i /\ set_equals (new_set i) (new_set i) = false.
Proof. exact equal_refuted_nan. Qed.
Print Assumptions c05_equal_refuted_nan.

Theorem c05_equal_refuted_signed_zero :
  exists i1 i2, ~ same_mapping i1 i2 /\ set_equals (new_set i1) (new_set i2) = true.
Proof. exact equal_refuted_signed_zero. Qed.
Print Assumptions c05_equal_refuted_signed_zero.

(** Set.Filter splits any set into kept (still a set) and dropped, together exactly the original. *)
Theorem c05_filter_partition : forall keep s, SortedUnique s ->
  FilterSpec keep s (fst (set_filter keep s)) (snd (set_filter keep s)).
Proof. exact set_filter_spec. Qed.
Print Assumptions c05_filter_partition.

(** Value(k) finds exactly the bindings iteration shows; Get(i) enumerates ToSlice and nothing more. *)
Theorem c05_lookup_iter_agree : forall s, SortedUnique s ->
  (forall k, LookupSpec s k (set_value s k)) /\
  (forall k v, set_value s k = Some v <-> In (k, v) s) /\
  map Some s = map (set_get s) (seq 0 (length s)) /\ set_get s (length s) = None.
Proof.
  intros s H. split; [intro k; now apply set_value_assoc|].
  split; [intros k v; now apply set_value_in_iff | apply set_get_iter].
Qed.
Print Assumptions c05_lookup_iter_agree.

(** Merged iteration of two sets: ascending, each key once, first set's value on shared keys. *)
Theorem c05_merge_first_wins : forall a b, SortedUnique a -> SortedUnique b ->
  MergeSpec a b (merge_iter a b).
Proof. intros a b. exact (merge_iter_spec a b). Qed.
Print Assumptions c05_merge_first_wins.

(** The allow / deny key filters mean membership / non-membership in the key list. *)
Theorem c05_key_filters : forall keys x,
  (allow_keys_filter keys x = true <-> In (fst x) keys) /\
  deny_keys_filter keys x = negb (allow_keys_filter keys x).
Proof. intros keys x. split; [apply allow_keys_filter_spec | reflexivity]. Qed.
Print Assumptions c05_key_filters.

(** ** Iterators, over every call sequence.
    Whatever sequence of Next / Attribute / IndexedAttribute / Len / ToSlice calls is made on a fresh
    iterator of any set, the iterator clause holds: ToSlice gives the whole set in order at any
    position, Len is constant, the p-th Next reports p <= |s| and the attribute is then element p-1. *)
Theorem c05_iterator_any_sequence : forall s ops,
  iter_ok s 0 true ops (iter_run (iter_new s) ops) = true.
Proof. exact iter_fresh_ok. Qed.
Print Assumptions c05_iterator_any_sequence.

Theorem c05_iterator_toslice_any_position : forall s ops,
  (forall l, In (OSlice l) (iter_run (iter_new s) ops) -> l = s) /\
  (forall n, In (OLen n) (iter_run (iter_new s) ops) -> n = N.of_nat (length s)).
Proof. intros s ops. exact (iter_run_slices ops (iter_new s)). Qed.
Print Assumptions c05_iterator_toslice_any_position.

(** The plain walk yields each element once, in order, and then reports the end. *)
Theorem c05_iterator_walk : forall s, iter_run (iter_new s) (walk_ops (length s)) = walk_obs s.
Proof. exact iter_walk. Qed.
Print Assumptions c05_iterator_walk.

(** MergeIterator: any sequence of Next / Attribute calls walks the merged sequence the same way. *)
Theorem c05_merge_iterator_any_sequence : forall a b ops, forallb mi_op ops = true ->
  iter_ok (merge_iter a b) 0 true ops (miter_run (miter_new a b) ops) = true.
Proof. exact miter_fresh_ok. Qed.
Print Assumptions c05_merge_iterator_any_sequence.

(** ** Encoding agrees with the contents.
    What FormatInt writes for an int64 reads back as that int64, on the whole int64 range. *)
Theorem c05_int64_text_roundtrip :
  (forall z, (- Z.of_N TWO63 <= z < Z.of_N TWO63)%Z -> parse_i64 (dec_i64 (bits_of_i64 z)) = Some z) /\
  (forall n, n < TWO64 -> parse_i64 (dec_i64 n) = Some (i64_of_bits n)).
Proof. split; [exact i64_text_roundtrip | exact parse_i64_dec]. Qed.
Print Assumptions c05_int64_text_roundtrip.

(** For every set over INVALID / BOOL / INT64 / STRING / BOOLSLICE / INT64SLICE / STRINGSLICE (string-slice
    elements JSON-plain, see [json_plain]; keys and strings arbitrary bytes) the default encoding
    determines the key -> printed value mapping: [decode_enc] reads it back exactly. *)
Theorem c05_encode_decodable : forall emit s, EncodingSpec s (encode emit s).
Proof. exact encode_decodable. Qed.
Print Assumptions c05_encode_decodable.

(** Hence two such sets with the same encoding have the same printed mapping: the encoding is injective
    up to the printing of values (which forgets the type: see the confusion examples below). *)
Theorem c05_encode_injective_printed : forall emit1 emit2 s1 s2 l1 l2,
  printed s1 = Some l1 -> printed s2 = Some l2 -> encode emit1 s1 = encode emit2 s2 -> l1 = l2.
Proof. exact encode_injective_printed. Qed.
Print Assumptions c05_encode_injective_printed.

(** ALL EIGHT VALUE TYPES.  [emit] is the text the encoder is handed for float64 / []float64 values
    (Go's strconv / JSON float formatting, not specified here).  Whatever it is, as long as those texts
    hold no backslash and no '=' (checked on every observed float text by the harness), the encoding of
    any set -- floats as bit patterns, slices as lists, keys and strings arbitrary bytes, string-slice
    elements JSON-plain -- decodes to exactly its key -> printed value mapping ... *)
Theorem c05_encode_decodable_all_types : forall emit s, EncodingSpecF emit s (encode emit s).
Proof. exact encode_decodable_f. Qed.
Print Assumptions c05_encode_decodable_all_types.

(** ... so two sets with the same encoding have the same printed mapping. *)
Theorem c05_encode_injective_printed_all_types : forall emit1 emit2 s1 s2 l1 l2,
  printed_f emit1 s1 = Some l1 -> printed_f emit2 s2 = Some l2 -> encode emit1 s1 = encode emit2 s2 -> l1 = l2.
Proof. exact encode_injective_printed_f. Qed.
Print Assumptions c05_encode_injective_printed_all_types.

(** The full-strength statement "different sets have different encodings" is FALSE for the default
    encoder (finding F-C05-2): the sets {k -> Int64(1)} and {k -> String("1")} are different, sorted,
    duplicate-free, not Equals -- and encode to the same string "k=1", for every float text function. *)
Theorem c05_encode_injective_refuted : exists s1 s2,
  SortedUnique s1 /\ SortedUnique s2 /\ s1 <> s2 /\ set_equals s1 s2 = false /\
  forall emit, encode emit s1 = encode emit s2.
Proof.
  exists [(str "k", VInt 1)], [(str "k", VStr (str "1"))].
  split; [split; [intros ? []|exact I]|]. split; [split; [intros ? []|exact I]|].
  split; [discriminate|]. split; [reflexivity|]. intro emit. reflexivity.
Qed.
Print Assumptions c05_encode_injective_refuted.

(** Special case kept from the first version: string-valued sets decode to exactly their bindings. *)
Theorem c05_encode_strings_lossless : forall emit s l,
  all_some (map string_binding s) = Some l -> decode_enc (encode emit s) = Some l.
Proof. intros emit s l H. apply encode_decodable. now apply printed_strings. Qed.
Print Assumptions c05_encode_strings_lossless.

(** The type confusion the text format inherently has: Int64(1), String("1") and (say) Bool(true) /
    String("true") print alike, so different sets share an encoding -- with the same printed mapping. *)
Theorem c05_encode_type_confusion :
  exists s1 s2 l, s1 <> s2 /\ encode (fun _ => []) s1 = encode (fun _ => []) s2 /\ printed s1 = Some l /\ printed s2 = Some l.
Proof.
  exists [(str "k", VInt 1); (str "t", VBool true)], [(str "k", VStr (str "1")); (str "t", VStr (str "true"))].
  eexists. split; [discriminate|]. split; [vm_compute; reflexivity|]. split; vm_compute; reflexivity.
Qed.
Print Assumptions c05_encode_type_confusion.

(** Outside the guard injectivity really fails, printed mappings included:
    (1) a string-slice element holding '=' : {a -> ["x,b=y"]} and {a -> "[\"x", b -> "y\"]"} encode alike;
    (2) a string-slice element holding a backslash: {k -> ["a\b"]} and {k -> "[\"a\b\"]"} encode alike
        (JSON doubles the backslash, the string escaper doubles it too). *)
Theorem c05_encode_injective_refuted_unguarded :
  (exists s1 s2, encode (fun _ => []) s1 = encode (fun _ => []) s2 /\ map fst s1 <> map fst s2) /\
  (exists s1 s2, encode (fun _ => []) s1 = encode (fun _ => []) s2 /\ map fst s1 = map fst s2 /\
                 map (fun x => emit_simple (snd x)) s1 <> map (fun x => emit_simple (snd x)) s2).
Proof.
  split.
  - exists [(str "a", VStrs [str "x,b=y"])], [(str "a", VStr ([91; 34] ++ str "x")); (str "b", VStr (str "y" ++ [34; 93]))].
    split; [vm_compute; reflexivity | discriminate].
  - exists [(str "k", VStrs [str "a\b"])], [(str "k", VStr ([91; 34] ++ str "a\b" ++ [34; 93]))].
    split; [vm_compute; reflexivity|]. split; [reflexivity | vm_compute; discriminate].
Qed.
Print Assumptions c05_encode_injective_refuted_unguarded.

(** The boolean checkers applied to the implementation's observations imply the Prop readings. *)
Theorem c05_checkers_sound :
  (forall input keep after set removed,
     newset_ok input keep after set removed = true -> NewSetSpec input keep after set removed) /\
  (forall i1 i2 eq, equals_ok i1 i2 eq = true -> EqualsSpec i1 i2 eq) /\
  (forall keep orig kept dropped,
     filter_ok keep orig kept dropped = true -> FilterSpec keep orig kept dropped) /\
  (forall a b merged, merge_ok a b merged = true -> MergeSpec a b merged) /\
  (forall s enc, encoding_ok s enc = true -> EncodingSpec s enc) /\
  (forall emit s enc, encoding_ok_f emit s enc = true -> EncodingSpecF emit s enc).
Proof.
  split; [exact newset_ok_sound|]. split; [exact equals_ok_sound|].
  split; [exact filter_ok_sound|]. split; [exact merge_ok_sound|]. split; [exact encoding_ok_sound | exact encoding_ok_f_sound].
Qed.
Print Assumptions c05_checkers_sound.

(** Non-vacuity: concrete inputs meeting the hypotheses, exercising every branch. *)
Definition ex_in : list kv :=
  [(str "b", VInt 1); (str "a", VStr (str "x")); (str "b", VFloats [NEG_ZERO_BITS; 0]);
   (str "", VBool true); (str "a", VFloat NAN_BITS); (str "c", VInvalid); (str "b", VInts [1; 2])].
Example ex_new_set :
  new_set ex_in = [(str "", VBool true); (str "a", VFloat NAN_BITS); (str "b", VInts [1; 2]); (str "c", VInvalid)]
  /\ kvs_regular (new_set ex_in) = true /\ kvs_regular ex_in = false
  /\ set_equals (new_set ex_in) (new_set ex_in) = true.
Proof. vm_compute. auto. Qed.
Example ex_filtered :
  let r := new_set_filtered ex_in (Some (allow_keys_filter [str "b"; str "zz"])) in
  ns_set r = [(str "b", VInts [1; 2])] /\ length (ns_removed r) = 3%nat /\ length (ns_after r) = 7%nat.
Proof. vm_compute. auto. Qed.
Example ex_same_mapping : same_mapping ex_in (rev (new_set ex_in)) /\ ex_in <> rev (new_set ex_in).
Proof. split; [apply same_mapping_b_spec; vm_compute; reflexivity | discriminate]. Qed.
Example ex_merge :
  merge_iter (new_set ex_in) [(str "a", VInt 7); (str "bb", VInt 8)] =
  [(str "", VBool true); (str "a", VFloat NAN_BITS); (str "b", VInts [1; 2]); (str "bb", VInt 8); (str "c", VInvalid)].
Proof. vm_compute. reflexivity. Qed.
Example ex_lookup : set_value (new_set ex_in) (str "b") = Some (VInts [1; 2]) /\ set_value (new_set ex_in) (str "ab") = None.
Proof. vm_compute. auto. Qed.
Example ex_encode :
  let s := [(str "a,b", VStr (str "x=y\")); (str "i", VInts [1; 18446744073709551615]); (str "k", VStr []);
            (str "s", VStrs [str "p,q"; str "r s"]); (str "t", VBools [true; false])] in
  encode (fun _ => []) s = str "a\,b=x\=y\\,i=[1,-1],k=,s=[" ++ [34] ++ str "p,q" ++ [34; 44; 34] ++ str "r s" ++ [34] ++ str "],t=[true false]" /\
  printed s = Some [(str "a,b", str "x=y\"); (str "i", str "[1,-1]"); (str "k", []);
                    (str "s", [91; 34] ++ str "p,q" ++ [34; 44; 34] ++ str "r s" ++ [34; 93]); (str "t", str "[true false]")] /\
  decode_enc (encode (fun _ => []) s) = printed s.
Proof. vm_compute. auto. Qed.
Example ex_encode_floats :
  let emit := fun v => match v with VFloat _ => str "NaN" | _ => str "[1.5,-0]" end in
  let s := [(str "f", VFloat NAN_BITS); (str "g", VFloats [4609434218613702656; NEG_ZERO_BITS]); (str "h", VStrs [])] in
  encode emit s = str "f=NaN,g=[1.5,-0],h=[]" /\
  decode_enc (encode emit s) = Some [(str "f", str "NaN"); (str "g", str "[1.5,-0]"); (str "h", str "[]")] /\
  printed_f emit s = decode_enc (encode emit s) /\ printed s = None.
Proof. vm_compute. auto. Qed.
Example ex_json_escaping :
  text_strs [[34; 92; 10; 1; 60; 127]; []] = [91; 34] ++ str "\" ++ [34] ++ str "\\\n\u0001\u003c" ++ [127; 34; 44; 34; 34; 93].
Proof. vm_compute. reflexivity. Qed.
Example ex_int_text : dec_i64 9223372036854775808 = str "-9223372036854775808" /\ dec_i64 0 = str "0" /\
  parse_i64 (str "-9223372036854775808") = Some (-9223372036854775808)%Z /\ parse_i64 (str "-") = None /\ parse_i64 (str "1x") = None.
Proof. vm_compute. auto. Qed.
Example ex_iter :
  iter_run (iter_new (new_set ex_in)) [INext; INext; IToSlice; INext; IAttr; ILen; IIndexed] =
  [ONext true; ONext true; OSlice (new_set ex_in); ONext false; OAttr zero_kv; OLen 4; OIndexed 5 zero_kv].
Proof. vm_compute. reflexivity. Qed.
Example ex_regular_guard_satisfiable :
  kvs_regular [(str "f", VFloats [0; 4607182418800017408]); (str "g", VFloat NEG_ZERO_BITS)] = true.
Proof. vm_compute. reflexivity. Qed.
