(** C05 specification: what a user of attribute.Set may rely on, stated over
    the user's input (a list of key-values, a filter predicate) and what the user
    observes (ToSlice, the removed list, the caller's slice afterwards, Equals,
    Value, merged iteration).  Written against the property text, not against
    the model: this file imports only the shared vocabulary. *)
From Verif Require Import Lib.Base C05.Types.
From Coq Require Import Permutation.
Open Scope N_scope.

Definition key_lt (a b : bytes) : Prop := bytes_compare a b = Lt.

(** First binding of [k] (what a reader of a slice finds scanning from the left). *)
Fixpoint assoc (k : bytes) (l : list kv) : option value :=
  match l with
  | [] => None
  | (k', v) :: r => if bytes_eqb k k' then Some v else assoc k r
  end.

(** The value supplied LAST for [k] in the user's input. *)
Fixpoint last_assoc (k : bytes) (l : list kv) : option value :=
  match l with
  | [] => None
  | (k', v) :: r =>
      match last_assoc k r with
      | Some w => Some w
      | None => if bytes_eqb k k' then Some v else None
      end
  end.

(** Sorted by key, each key once: every element is strictly below all later ones. *)
Fixpoint SortedUnique (l : list kv) : Prop :=
  match l with
  | [] => True
  | x :: r => (forall y, In y r -> key_lt (fst x) (fst y)) /\ SortedUnique r
  end.

Fixpoint sorted_unique_b (l : list kv) : bool :=
  match l with
  | x :: ((y :: _) as r) => key_ltb (fst x) (fst y) && sorted_unique_b r
  | _ => true
  end.

(** The key -> typed value mapping an input denotes (last value wins). *)
Definition same_mapping (a b : list kv) : Prop := forall k, last_assoc k a = last_assoc k b.

(** The binding of [k] the input denotes, if the filter's verdict on it is [sel]. *)
Definition selected (keep : kv -> bool) (sel : bool) (k : bytes) (input : list kv) : option value :=
  match last_assoc k input with
  | Some v => if Bool.eqb (keep (k, v)) sel then Some v else None
  | None => None
  end.

(** ** Clause 1+2: construction.  [after] is the caller's slice after the call. *)
Definition NewSetSpec (input : list kv) (keep : kv -> bool) (after set removed : list kv) : Prop :=
  SortedUnique set /\
  (forall k, assoc k set = selected keep true k input) /\
  NoDup (map fst removed) /\
  (forall k, assoc k removed = selected keep false k input) /\
  Permutation input after /\
  (exists dups, after = dups ++ removed ++ set).

(** ** Clause 3: identity.  [eq] is the observed Equals / map-key hit of the sets built from i1, i2. *)
Definition EqualsSpec (i1 i2 : list kv) (eq : bool) : Prop := eq = true <-> same_mapping i1 i2.

(** ** Clause 4: Set.Filter on a set whose ToSlice is [orig]. *)
Definition FilterSpec (keep : kv -> bool) (orig kept dropped : list kv) : Prop :=
  SortedUnique kept /\
  (forall x, In x kept <-> In x orig /\ keep x = true) /\
  (forall x, In x dropped <-> In x orig /\ keep x = false) /\
  Permutation orig (kept ++ dropped).

(** ** Clause 5: lookup and iteration agree with the contents. *)
Definition LookupSpec (contents : list kv) (k : bytes) (found : option value) : Prop :=
  found = assoc k contents.

(** ** Clause 6: merged iteration of two sets, first set wins on shared keys. *)
Definition MergeSpec (a b merged : list kv) : Prop :=
  SortedUnique merged /\
  forall k, assoc k merged = match assoc k a with Some v => Some v | None => assoc k b end.

(** ** Decidable readings used on the implementation's observations. *)
Definition keys_of (l : list kv) : list bytes := map fst l.
Definition mem_key (k : bytes) (ks : list bytes) : bool := existsb (bytes_eqb k) ks.

Fixpoint nodup_keys_b (ks : list bytes) : bool :=
  match ks with
  | [] => true
  | k :: r => negb (mem_key k r) && nodup_keys_b r
  end.

Definition optv_eqb : option value -> option value -> bool := option_eqb value_eqb.

(** Remove the first element identical to [x]. *)
Fixpoint remove_first (x : kv) (l : list kv) : option (list kv) :=
  match l with
  | [] => None
  | y :: r => if kv_eqb x y then Some r
              else match remove_first x r with Some r' => Some (y :: r') | None => None end
  end.

(** Multiset equality of key-value lists (typed values identified by their bits). *)
Fixpoint perm_b (a b : list kv) : bool :=
  match a with
  | [] => match b with [] => true | _ => false end
  | x :: a' => match remove_first x b with Some b' => perm_b a' b' | None => false end
  end.

Definition kvs_eqb : list kv -> list kv -> bool := list_eqb kv_eqb.

Definition same_mapping_b (a b : list kv) : bool :=
  forallb (fun k => optv_eqb (last_assoc k a) (last_assoc k b)) (keys_of a ++ keys_of b).

Definition newset_ok (input : list kv) (keep : kv -> bool) (after set removed : list kv) : bool :=
  let ks := keys_of input ++ keys_of set ++ keys_of removed in
  sorted_unique_b set &&
  forallb (fun k => optv_eqb (assoc k set) (selected keep true k input)) ks &&
  nodup_keys_b (keys_of removed) &&
  forallb (fun k => optv_eqb (assoc k removed) (selected keep false k input)) ks &&
  perm_b input after &&
  kvs_eqb (skipn (length after - length (removed ++ set)) after) (removed ++ set).

Definition equals_ok (i1 i2 : list kv) (eq : bool) : bool := Bool.eqb eq (same_mapping_b i1 i2).

Definition filter_ok (keep : kv -> bool) (orig kept dropped : list kv) : bool :=
  sorted_unique_b kept && kvs_eqb kept (filter keep orig) && perm_b dropped (filter (fun x => negb (keep x)) orig).

Definition lookup_ok (contents : list kv) (k : bytes) (found : option value) : bool :=
  optv_eqb found (assoc k contents).

Definition merge_ok (a b merged : list kv) : bool :=
  sorted_unique_b merged &&
  forallb (fun k => optv_eqb (assoc k merged)
                      (match assoc k a with Some v => Some v | None => assoc k b end))
          (keys_of a ++ keys_of b ++ keys_of merged).

(** ** Clause 7: the default encoding agrees with the contents.

    What a value prints as (Value.Emit): decimal int64, "true"/"false", "[true false]", JSON arrays;
    a string prints as itself.  float64 / []float64 are outside (strconv float formatting), and a
    []string prints inside this specification only if its elements are JSON-plain: printable ASCII
    other than the double quote, backslash, less-than, greater-than, ampersand (which encoding/json escapes) and '='. *)
Definition json_plain (c : N) : bool :=
  (32 <=? c) && (c <=? 126) &&
  negb ((c =? 34) || (c =? 92) || (c =? 60) || (c =? 62) || (c =? 38) || (c =? 61)).

(** Text that holds no backslash and no '=' (it may hold ','). *)
Definition plain_char (c : N) : bool := negb (c =? 92) && negb (c =? 61).
Definition plain_text (t : bytes) : bool := forallb plain_char t.

(** [femit] is the text of float64 / []float64 values (strconv / encoding/json float formatting, not
    specified here); such a value is inside the specification when that text is plain. *)
Definition print_value_f (femit : value -> bytes) (v : value) : option bytes :=
  match v with
  | VInvalid => Some (str "unknown")
  | VBool b => Some (text_bool b)
  | VInt n => Some (dec_i64 n)
  | VStr s => Some s
  | VBools l => Some (text_bools l)
  | VInts l => Some (text_ints l)
  | VStrs l => if forallb (forallb json_plain) l then Some (text_strs l) else None
  | VFloat _ | VFloats _ => if plain_text (femit v) then Some (femit v) else None
  end.
(** Without a float text: floats are outside. *)
Definition no_float (v : value) : bytes := [92].
Definition print_value (v : value) : option bytes := print_value_f no_float v.

Fixpoint all_some {A} (l : list (option A)) : option (list A) :=
  match l with
  | [] => Some []
  | Some x :: r => match all_some r with Some r' => Some (x :: r') | None => None end
  | None :: _ => None
  end.

Definition printed_binding_f (femit : value -> bytes) (x : kv) : option (bytes * bytes) :=
  match print_value_f femit (snd x) with Some t => Some (fst x, t) | None => None end.
(** The key -> printed value mapping of a set ([None] if some value is outside the specification). *)
Definition printed_f (femit : value -> bytes) (s : list kv) : option (list (bytes * bytes)) :=
  all_some (map (printed_binding_f femit) s).
Definition printed (s : list kv) : option (list (bytes * bytes)) := printed_f no_float s.

(** Reading decimal text (the meaning of what FormatInt writes). *)
Definition is_digit (c : N) : bool := (48 <=? c) && (c <=? 57).
Fixpoint parse_dec_acc (s : bytes) (acc : N) : option N :=
  match s with
  | [] => Some acc
  | c :: r => if is_digit c then parse_dec_acc r (10 * acc + (c - 48)) else None
  end.
Definition parse_dec (s : bytes) : option N := match s with [] => None | _ => parse_dec_acc s 0 end.
Definition parse_i64 (s : bytes) : option Z :=
  match s with
  | 45 :: r => match parse_dec r with Some n => Some (- Z.of_N n)%Z | None => None end
  | _ => match parse_dec s with Some n => Some (Z.of_N n) | None => None end
  end.
Definition i64_of_bits (n : N) : Z := if n <? TWO63 then Z.of_N n else (Z.of_N n - Z.of_N TWO64)%Z.
Definition bits_of_i64 (z : Z) : N := Z.to_N (z mod Z.of_N TWO64).

(** Reading an encoded set back.  A backslash protects the byte after it; an unprotected '=' ends a
    key; the text up to the next '=' is the value followed by ',' and the next key, and a key holds no
    unprotected ',' -- so the LAST unprotected ',' of that text is the separator (values such as
    [1,2] keep their own commas). *)
Inductive token := TChar (c : N) | TComma | TEq.

Fixpoint tok (s : bytes) : list token :=
  match s with
  | [] => []
  | c :: r =>
      if c =? 92 then match r with d :: r' => TChar d :: tok r' | [] => [] end
      else if c =? 44 then TComma :: tok r
      else if c =? 61 then TEq :: tok r
      else TChar c :: tok r
  end.

Definition untok1 (t : token) : N := match t with TChar c => c | TComma => 44 | TEq => 61 end.
Definition untok (ts : list token) : bytes := map untok1 ts.

Definition is_eq (t : token) : bool := match t with TEq => true | _ => false end.
Definition is_comma (t : token) : bool := match t with TComma => true | _ => false end.

Fixpoint split_eq (ts : list token) : list (list token) :=
  match ts with
  | [] => [[]]
  | t :: r => if is_eq t then [] :: split_eq r
              else match split_eq r with p :: ps => (t :: p) :: ps | [] => [[t]] end
  end.

Fixpoint cut_first_comma (ts : list token) : option (list token * list token) :=
  match ts with
  | [] => None
  | t :: r => if is_comma t then Some ([], r)
              else match cut_first_comma r with Some (a, b) => Some (t :: a, b) | None => None end
  end.
Definition cut_last_comma (ts : list token) : option (list token * list token) :=
  match cut_first_comma (rev ts) with Some (rk, rb) => Some (rev rb, rev rk) | None => None end.

Fixpoint dec_chunks (K : list token) (chunks : list (list token)) : option (list (list token * list token)) :=
  match chunks with
  | [] => None
  | c :: more =>
      match more with
      | [] => Some [(K, c)]
      | _ :: _ => match cut_last_comma c with
                  | Some (B, K') => match dec_chunks K' more with Some r => Some ((K, B) :: r) | None => None end
                  | None => None
                  end
      end
  end.

Definition decode_enc (enc : bytes) : option (list (bytes * bytes)) :=
  match enc with
  | [] => Some []
  | _ => match split_eq (tok enc) with
         | K :: chunks => match dec_chunks K chunks with
                          | Some l => Some (map (fun p => (untok (fst p), untok (snd p))) l)
                          | None => None
                          end
         | [] => None
         end
  end.

(** The encoded form determines the printed mapping. *)
Definition EncodingSpec (contents : list kv) (encoded : bytes) : Prop :=
  forall l, printed contents = Some l -> decode_enc encoded = Some l.

(** ... for all eight value types, given the float texts. *)
Definition EncodingSpecF (femit : value -> bytes) (contents : list kv) (encoded : bytes) : Prop :=
  forall l, printed_f femit contents = Some l -> decode_enc encoded = Some l.

Definition strpair_eqb (a b : bytes * bytes) : bool := bytes_eqb (fst a) (fst b) && bytes_eqb (snd a) (snd b).

Definition encoding_ok_f (femit : value -> bytes) (contents : list kv) (encoded : bytes) : bool :=
  match printed_f femit contents with
  | Some l => option_eqb (list_eqb strpair_eqb) (decode_enc encoded) (Some l)
  | None => true
  end.

Definition encoding_ok (contents : list kv) (encoded : bytes) : bool :=
  match printed contents with
  | Some l => option_eqb (list_eqb strpair_eqb) (decode_enc encoded) (Some l)
  | None => true
  end.

(** ** Clause 8: iterators.  [c] = the contents of the set (or of the merged iteration), [p] = number
    of Next calls made so far.  ToSlice returns the whole contents in order whatever the position; Len
    never changes; the p-th Next (p <= |c|) reports true and Attribute / IndexedAttribute then give
    element p-1 (index p-1), each element once, in order; Next reports false from |c|+1 on.  What
    Attribute returns before the first Next / after exhaustion, and where the iterator stands after a
    ToSlice, is not specified ([defined] turns false at a ToSlice). *)
Fixpoint iter_ok (c : list kv) (p : nat) (defined : bool) (ops : list iop) (obs : list iobs) : bool :=
  match ops, obs with
  | [], [] => true
  | INext :: r, ONext b :: o =>
      (if defined then Bool.eqb b (Nat.leb (S p) (length c)) else true) && iter_ok c (S p) defined r o
  | IAttr :: r, OAttr x :: o =>
      (if defined && Nat.leb 1 p && Nat.leb p (length c) then kv_eqb x (nth (p - 1) c zero_kv) else true)
      && iter_ok c p defined r o
  | IIndexed :: r, OIndexed i x :: o =>
      (if defined && Nat.leb 1 p && Nat.leb p (length c)
       then (i =? Z.of_nat p - 1)%Z && kv_eqb x (nth (p - 1) c zero_kv) else true)
      && iter_ok c p defined r o
  | ILen :: r, OLen n :: o => (n =? N.of_nat (length c)) && iter_ok c p defined r o
  | IToSlice :: r, OSlice l :: o => kvs_eqb l c && iter_ok c p false r o
  | _, _ => false
  end.
