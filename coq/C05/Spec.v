(** C05 specification: what a user of attribute.Set may rely on, stated over
    the user's input (a list of key-values, a filter predicate) and what the user
    observes (ToSlice, the removed list, the caller's slice afterwards, Equals,
    Value, merged iteration).  Written against the property text, not against
    the model: this file imports only the shared vocabulary. *)
From Verif Require Import Lib.Base C05.Types.
From Coq Require Import Permutation.
Open Scope N_scope.

Definition key_lt (a b : bytes) : Prop := bytes_compare a b = Lt.

(** First binding of [k] (what a reader of a slice finds scanning from the left). *)
Fixpoint assoc (k : bytes) (l : list kv) : option value :=
  match l with
  | [] => None
  | (k', v) :: r => if bytes_eqb k k' then Some v else assoc k r
  end.

(** The value supplied LAST for [k] in the user's input. *)
Fixpoint last_assoc (k : bytes) (l : list kv) : option value :=
  match l with
  | [] => None
  | (k', v) :: r =>
      match last_assoc k r with
      | Some w => Some w
      | None => if bytes_eqb k k' then Some v else None
      end
  end.

(** Sorted by key, each key once: every element is strictly below all later ones. *)
Fixpoint SortedUnique (l : list kv) : Prop :=
  match l with
  | [] => True
  | x :: r => (forall y, In y r -> key_lt (fst x) (fst y)) /\ SortedUnique r
  end.

Fixpoint sorted_unique_b (l : list kv) : bool :=
  match l with
  | x :: ((y :: _) as r) => key_ltb (fst x) (fst y) && sorted_unique_b r
  | _ => true
  end.

(** The key -> typed value mapping an input denotes (last value wins). *)
Definition same_mapping (a b : list kv) : Prop := forall k, last_assoc k a = last_assoc k b.

(** The binding of [k] the input denotes, if the filter's verdict on it is [sel]. *)
Definition selected (keep : kv -> bool) (sel : bool) (k : bytes) (input : list kv) : option value :=
  match last_assoc k input with
  | Some v => if Bool.eqb (keep (k, v)) sel then Some v else None
  | None => None
  end.

(** ** Clause 1+2: construction.  [after] is the caller's slice after the call. *)
Definition NewSetSpec (input : list kv) (keep : kv -> bool) (after set removed : list kv) : Prop :=
  SortedUnique set /\
  (forall k, assoc k set = selected keep true k input) /\
  NoDup (map fst removed) /\
  (forall k, assoc k removed = selected keep false k input) /\
  Permutation input after /\
  (exists dups, after = dups ++ removed ++ set).

(** ** Clause 3: identity.  [eq] is the observed Equals / map-key hit of the sets built from i1, i2. *)
Definition EqualsSpec (i1 i2 : list kv) (eq : bool) : Prop := eq = true <-> same_mapping i1 i2.

(** ** Clause 4: Set.Filter on a set whose ToSlice is [orig]. *)
Definition FilterSpec (keep : kv -> bool) (orig kept dropped : list kv) : Prop :=
  SortedUnique kept /\
  (forall x, In x kept <-> In x orig /\ keep x = true) /\
  (forall x, In x dropped <-> In x orig /\ keep x = false) /\
  Permutation orig (kept ++ dropped).

(** ** Clause 5: lookup and iteration agree with the contents. *)
Definition LookupSpec (contents : list kv) (k : bytes) (found : option value) : Prop :=
  found = assoc k contents.

(** ** Clause 6: merged iteration of two sets, first set wins on shared keys. *)
Definition MergeSpec (a b merged : list kv) : Prop :=
  SortedUnique merged /\
  forall k, assoc k merged = match assoc k a with Some v => Some v | None => assoc k b end.

(** ** Decidable readings used on the implementation's observations. *)
Definition keys_of (l : list kv) : list bytes := map fst l.
Definition mem_key (k : bytes) (ks : list bytes) : bool := existsb (bytes_eqb k) ks.

Fixpoint nodup_keys_b (ks : list bytes) : bool :=
  match ks with
  | [] => true
  | k :: r => negb (mem_key k r) && nodup_keys_b r
  end.

Definition optv_eqb : option value -> option value -> bool := option_eqb value_eqb.

(** Remove the first element identical to [x]. *)
Fixpoint remove_first (x : kv) (l : list kv) : option (list kv) :=
  match l with
  | [] => None
  | y :: r => if kv_eqb x y then Some r
              else match remove_first x r with Some r' => Some (y :: r') | None => None end
  end.

(** Multiset equality of key-value lists (typed values identified by their bits). *)
Fixpoint perm_b (a b : list kv) : bool :=
  match a with
  | [] => match b with [] => true | _ => false end
  | x :: a' => match remove_first x b with Some b' => perm_b a' b' | None => false end
  end.

Definition kvs_eqb : list kv -> list kv -> bool := list_eqb kv_eqb.

Definition same_mapping_b (a b : list kv) : bool :=
  forallb (fun k => optv_eqb (last_assoc k a) (last_assoc k b)) (keys_of a ++ keys_of b).

Definition newset_ok (input : list kv) (keep : kv -> bool) (after set removed : list kv) : bool :=
  let ks := keys_of input ++ keys_of set ++ keys_of removed in
  sorted_unique_b set &&
  forallb (fun k => optv_eqb (assoc k set) (selected keep true k input)) ks &&
  nodup_keys_b (keys_of removed) &&
  forallb (fun k => optv_eqb (assoc k removed) (selected keep false k input)) ks &&
  perm_b input after &&
  kvs_eqb (skipn (length after - length (removed ++ set)) after) (removed ++ set).

Definition equals_ok (i1 i2 : list kv) (eq : bool) : bool := Bool.eqb eq (same_mapping_b i1 i2).

Definition filter_ok (keep : kv -> bool) (orig kept dropped : list kv) : bool :=
  sorted_unique_b kept && kvs_eqb kept (filter keep orig) && perm_b dropped (filter (fun x => negb (keep x)) orig).

Definition lookup_ok (contents : list kv) (k : bytes) (found : option value) : bool :=
  optv_eqb found (assoc k contents).

Definition merge_ok (a b merged : list kv) : bool :=
  sorted_unique_b merged &&
  forallb (fun k => optv_eqb (assoc k merged)
                      (match assoc k a with Some v => Some v | None => assoc k b end))
          (keys_of a ++ keys_of b ++ keys_of merged).

(** ** Clause 7: the default encoding, read back.  For a set whose values are all strings the
    encoded form determines the set: items are separated by unescaped ',', key and value by the
    unescaped '=', and a backslash protects the byte after it. *)
Fixpoint split_unesc (sep : N) (s cur : bytes) : list bytes :=
  match s with
  | [] => [rev cur]
  | c :: r =>
      if c =? 92 then
        match r with
        | d :: r' => split_unesc sep r' (d :: c :: cur)
        | [] => [rev (c :: cur)]
        end
      else if c =? sep then rev cur :: split_unesc sep r []
      else split_unesc sep r (c :: cur)
  end.

Fixpoint unesc (s : bytes) : bytes :=
  match s with
  | [] => []
  | c :: r => if c =? 92 then match r with d :: r' => d :: unesc r' | [] => [] end
              else c :: unesc r
  end.

Definition decode_item (it : bytes) : option (bytes * bytes) :=
  match split_unesc 61 it [] with
  | [k; v] => Some (unesc k, unesc v)
  | _ => None
  end.

Fixpoint all_some {A} (l : list (option A)) : option (list A) :=
  match l with
  | [] => Some []
  | Some x :: r => match all_some r with Some r' => Some (x :: r') | None => None end
  | None :: _ => None
  end.

Definition decode_strings (enc : bytes) : option (list (bytes * bytes)) :=
  match enc with
  | [] => Some []
  | _ => all_some (map decode_item (split_unesc 44 enc []))
  end.

Definition string_binding (x : kv) : option (bytes * bytes) :=
  match snd x with VStr s => Some (fst x, s) | _ => None end.

Definition EncodingSpec (contents : list kv) (encoded : bytes) : Prop :=
  forall l, all_some (map string_binding contents) = Some l -> decode_strings encoded = Some l.

Definition strpair_eqb (a b : bytes * bytes) : bool := bytes_eqb (fst a) (fst b) && bytes_eqb (snd a) (snd b).

Definition encoding_ok (contents : list kv) (encoded : bytes) : bool :=
  match all_some (map string_binding contents) with
  | Some l => option_eqb (list_eqb strpair_eqb) (decode_strings encoded) (Some l)
  | None => true
  end.
