(** C05 correspondence: evaluates model and spec on what the Go harness observed
    from attribute.Set (generated case files import this). *)
From Verif Require Import Lib.Base C05.Types C05.Spec C05.Model.
Open Scope N_scope.

(** Filters the harness can hand to the implementation. *)
Inductive fspec :=
| FNil                         (* nil Filter *)
| FAllow (keys : list bytes)   (* attribute.NewAllowKeysFilter(keys...) *)
| FDeny (keys : list bytes)    (* attribute.NewDenyKeysFilter(keys...) *)
| FTypes (mask : N).           (* harness closure: keep iff bit Value.Type() of mask is set *)

(** Model reading (filter.go as modelled). *)
Definition fsem_model (f : fspec) : option (kv -> bool) :=
  match f with
  | FNil => None
  | FAllow ks => Some (allow_keys_filter ks)
  | FDeny ks => Some (deny_keys_filter ks)
  | FTypes m => Some (fun x => N.testbit m (vtype (snd x)))
  end.
Definition fsem_model_total (f : fspec) : kv -> bool :=
  match fsem_model f with Some g => g | None => fun _ => true end.

(** Specification reading (what the filter constructors are documented to mean). *)
Definition fsem_spec (f : fspec) : kv -> bool :=
  match f with
  | FNil => fun _ => true
  | FAllow ks => fun x => mem_key (fst x) ks
  | FDeny ks => fun x => negb (mem_key (fst x) ks)
  | FTypes m => fun x => N.testbit m (vtype (snd x))
  end.

Inductive case :=
| CNew (input : list kv) (f : fspec) (after set removed : list kv) (len : N)
       (self_eq self_key empty_eq : bool) (gets : list (option kv))
| CPair (i1 i2 : list kv) (eq12 eq21 key12 : bool)
| CLookup (input set : list kv) (probes : list (bytes * option value * bool))
| CFilter (input : list kv) (f : fspec) (orig kept dropped orig_after : list kv)
| CMerge (i1 i2 s1 s2 merged : list kv)
| CEnc (input set : list kv) (emits : list bytes) (encoded : bytes)
| CIter (input : list kv) (f : option fspec) (contents : list kv) (ops : list iop) (obs : list iobs)
| CMIter (i1 i2 s1 s2 merged : list kv) (ops : list iop) (obs : list iobs)
| CEncPair (i1 i2 s1 s2 : list kv) (em1 em2 : list bytes) (e1 e2 : bytes).

Definition flag (b : bool) (code : N) : list N := if b then [] else [code].

Definition optkv_eqb : option kv -> option kv -> bool := option_eqb kv_eqb.

Definition has_nan_slice (l : list kv) : bool := existsb (fun x => negb (value_nan_free (snd x))) l.

(** The mapping an input denotes, as a list (spec side: last binding of each key, first occurrence order). *)
Fixpoint final_bindings (seen : list bytes) (l all : list kv) : list kv :=
  match l with
  | [] => []
  | (k, _) :: r =>
      if mem_key k seen then final_bindings seen r all
      else match last_assoc k all with
           | Some v => (k, v) :: final_bindings (k :: seen) r all
           | None => final_bindings seen r all
           end
  end.
Definition mapping_of (l : list kv) : list kv := final_bindings [] l l.

(** Known finding F-C05-1 (code 1): a set holding a float64 slice with a NaN is not equal to itself /
    to a set with the same mapping, and is not found again as a map key. *)
Definition known_nan (i1 i2 : list kv) (e1 e2 e3 : bool) : bool :=
  same_mapping_b i1 i2 && has_nan_slice (mapping_of i1) && negb e1 && negb e2 && negb e3.
(** Known finding F-C05-1b (code 2): sets whose mappings differ only in the sign of zeros inside
    float64 slices are equal and share a map key. *)
Definition known_zero (i1 i2 : list kv) (e1 e2 e3 : bool) : bool :=
  negb (same_mapping_b i1 i2) && same_mapping_b (map canonz_kv i1) (map canonz_kv i2) &&
  negb (has_nan_slice (mapping_of i1)) && negb (has_nan_slice (mapping_of i2)) && e1 && e2 && e3.

Definition equality_verdict (i1 i2 : list kv) (e1 e2 e3 : bool) : list N :=
  if equals_ok i1 i2 e1 && equals_ok i1 i2 e2 && equals_ok i1 i2 e3 then []
  else if known_nan i1 i2 e1 e2 e3 then [V_KNOWN 1]
  else if known_zero i1 i2 e1 e2 e3 then [V_KNOWN 2]
  else [V_SPECFAIL].

(** Value.Emit as observed: the text the implementation emitted for each element of ToSlice. *)
Definition emit_of (s : list kv) (emits : list bytes) (v : value) : bytes :=
  match find (fun p => value_eqb v (snd (fst p))) (combine s emits) with
  | Some p => snd p
  | None => []
  end.

Definition iobs_eqb (a b : iobs) : bool :=
  match a, b with
  | ONext x, ONext y => Bool.eqb x y
  | OAttr x, OAttr y => kv_eqb x y
  | OIndexed i x, OIndexed j y => (i =? j)%Z && kv_eqb x y
  | OLen x, OLen y => x =? y
  | OSlice x, OSlice y => kvs_eqb x y
  | _, _ => false
  end.

(** "Different sets have different encodings" fails for the default encoder.  Known finding F-C05-2
    (code 3): the two sets print alike (type confusion: Int64(1) / Float64(1) / String("1") ...).
    Known finding F-C05-2b (code 4): a string slice with an element outside [json_plain] (an '=' or a
    character JSON escapes with a backslash) is involved, and the printed mappings differ. *)
Definition has_unplain_strs (l : list kv) : bool :=
  existsb (fun x => match snd x with VStrs e => negb (forallb (forallb json_plain) e) | _ => false end) l.

Definition enc_distinct_verdict (s1 s2 : list kv) (em1 em2 : list bytes) (e1 e2 : bytes) : list N :=
  if kvs_eqb s1 s2 || negb (bytes_eqb e1 e2) then []
  else match printed_f (emit_of s1 em1) s1, printed_f (emit_of s2 em2) s2 with
       | Some l1, Some l2 => if list_eqb strpair_eqb l1 l2 then [V_KNOWN 3] else [V_SPECFAIL]
       | _, _ => if has_unplain_strs s1 || has_unplain_strs s2 then [V_KNOWN 4] else [V_SPECFAIL]
       end.

Definition is_nil {A} (l : list A) : bool := match l with [] => true | _ => false end.

Definition check_case (c : case) : list N :=
  match c with
  | CNew input f after set removed len self_eq self_key empty_eq gets =>
      let r := new_set_filtered input (fsem_model f) in
      let s := ns_set r in
      flag (kvs_eqb set s && perm_b removed (ns_removed r) && perm_b after (ns_after r) &&
            (len =? set_len s) && Bool.eqb self_eq (set_equals s s) && Bool.eqb self_key (set_equals s s) &&
            Bool.eqb empty_eq (set_equals s []) &&
            list_eqb optkv_eqb gets (map (set_get s) (seq 0 (S (length s))))) V_MISMATCH ++
      flag (newset_ok input (fsem_spec f) after set removed &&
            (len =? N.of_nat (length set)) &&
            list_eqb optkv_eqb gets (map Some set ++ [None]) &&
            Bool.eqb empty_eq (is_nil set)) V_SPECFAIL ++
      equality_verdict set set self_eq self_key self_eq ++
      flag (let r' := new_set_filtered input (Some (fsem_model_total f)) in
            newset_ok input (fsem_model_total f) (ns_after r') (ns_set r') (ns_removed r')) V_MODELSPEC
  | CPair i1 i2 eq12 eq21 key12 =>
      let e := set_equals (new_set i1) (new_set i2) in
      flag (Bool.eqb eq12 e && Bool.eqb eq21 (set_equals (new_set i2) (new_set i1)) && Bool.eqb key12 e) V_MISMATCH ++
      equality_verdict i1 i2 eq12 eq21 key12
  | CLookup input set probes =>
      let s := new_set input in
      flag (kvs_eqb set s &&
            forallb (fun p => let '(k, found, has) := p in
                              optv_eqb found (set_value s k) && Bool.eqb has (has_value s k)) probes) V_MISMATCH ++
      flag (forallb (fun p => let '(k, found, has) := p in
                              lookup_ok set k found &&
                              Bool.eqb has (match found with Some _ => true | None => false end)) probes) V_SPECFAIL
  | CFilter input f orig kept dropped orig_after =>
      let s := new_set input in
      let '(k', d') := set_filter (fsem_model_total f) s in
      flag (kvs_eqb orig s && kvs_eqb kept k' && perm_b dropped d' && kvs_eqb orig_after s) V_MISMATCH ++
      flag (sorted_unique_b orig && filter_ok (fsem_spec f) orig kept dropped && kvs_eqb orig orig_after) V_SPECFAIL
  | CMerge i1 i2 s1 s2 merged =>
      flag (kvs_eqb s1 (new_set i1) && kvs_eqb s2 (new_set i2) &&
            kvs_eqb merged (merge_iter (new_set i1) (new_set i2))) V_MISMATCH ++
      flag (merge_ok s1 s2 merged) V_SPECFAIL
  | CEnc input set emits encoded =>
      let s := new_set input in
      flag (kvs_eqb set s && bytes_eqb encoded (encode (emit_of s emits) s) &&
            Nat.eqb (length emits) (length s) &&
            forallb (fun p => match emit_simple (snd (fst p)) with
                              | Some e => bytes_eqb e (snd p)
                              | None => true end) (combine s emits)) V_MISMATCH ++
      flag (encoding_ok_f (emit_of set emits) set encoded) V_SPECFAIL
  | CIter input f contents ops obs =>
      let s := match f with
               | None => new_set input
               | Some g => fst (set_filter (fsem_model_total g) (new_set input))
               end in
      flag (kvs_eqb contents s && list_eqb iobs_eqb obs (iter_run (iter_new s) ops)) V_MISMATCH ++
      flag (sorted_unique_b contents && iter_ok contents 0 true ops obs) V_SPECFAIL
  | CMIter i1 i2 s1 s2 merged ops obs =>
      let a := new_set i1 in let b := new_set i2 in
      flag (kvs_eqb s1 a && kvs_eqb s2 b && kvs_eqb merged (merge_iter a b) &&
            list_eqb iobs_eqb obs (miter_run (miter_new a b) ops)) V_MISMATCH ++
      flag (merge_ok s1 s2 merged && iter_ok merged 0 true ops obs) V_SPECFAIL
  | CEncPair i1 i2 s1 s2 em1 em2 e1 e2 =>
      let a := new_set i1 in let b := new_set i2 in
      flag (kvs_eqb s1 a && kvs_eqb s2 b && bytes_eqb e1 (encode (emit_of a em1) a) &&
            bytes_eqb e2 (encode (emit_of b em2) b)) V_MISMATCH ++
      flag (encoding_ok_f (emit_of s1 em1) s1 e1 && encoding_ok_f (emit_of s2 em2) s2 e2) V_SPECFAIL ++
      enc_distinct_verdict s1 s2 em1 em2 e1 e2
  end.

Definition run (cs : list case) : list (N * N) := index_from 0 check_case cs.
