(** C05 proofs. *)
From Verif Require Import Lib.Base C05.Types C05.Spec C05.Model.
From Coq Require Import Permutation.
Open Scope N_scope.

(** * Key order *)
Lemma bytes_compare_refl a : bytes_compare a a = Eq.
Proof. induction a as [|x a IH]; cbn; [reflexivity|]. now rewrite N.compare_refl. Qed.

Lemma bytes_compare_eq a b : bytes_compare a b = Eq <-> a = b.
Proof.
  split; [|intros ->; apply bytes_compare_refl].
  revert b; induction a as [|x a IH]; intros [|y b]; cbn; try discriminate; auto.
  destruct (x ?= y) eqn:E; try discriminate. intro H.
  apply N.compare_eq_iff in E. subst. f_equal. now apply IH.
Qed.

Lemma bytes_compare_antisym a b : bytes_compare b a = CompOpp (bytes_compare a b).
Proof.
  revert b; induction a as [|x a IH]; intros [|y b]; cbn; auto.
  rewrite (N.compare_antisym x y). destruct (x ?= y); cbn; auto.
Qed.

Lemma bytes_compare_lt_trans a b c :
  bytes_compare a b = Lt -> bytes_compare b c = Lt -> bytes_compare a c = Lt.
Proof.
  revert b c; induction a as [|x a IH]; intros [|y b] [|z c]; cbn; try discriminate; auto.
  destruct (x ?= y) eqn:E1; try discriminate; destruct (y ?= z) eqn:E2; try discriminate; intros H1 H2.
  - apply N.compare_eq_iff in E1. apply N.compare_eq_iff in E2. subst. rewrite N.compare_refl. eapply IH; eauto.
  - apply N.compare_eq_iff in E1; subst. now rewrite E2.
  - apply N.compare_eq_iff in E2; subst. now rewrite E1.
  - assert (x ?= z = Lt) as ->; [|reflexivity].
    change (x < y) in E1. change (y < z) in E2. change (x < z). lia.
Qed.

Lemma key_lt_irrefl a : ~ key_lt a a.
Proof. unfold key_lt. now rewrite bytes_compare_refl. Qed.

Lemma key_lt_trans a b c : key_lt a b -> key_lt b c -> key_lt a c.
Proof. apply bytes_compare_lt_trans. Qed.

Lemma key_lt_gt a b : key_lt a b <-> bytes_compare b a = Gt.
Proof. unfold key_lt. rewrite (bytes_compare_antisym a b). destruct (bytes_compare a b); cbn; split; congruence. Qed.

Lemma key_lt_neq a b : key_lt a b -> a <> b.
Proof. intros H ->. now apply key_lt_irrefl in H. Qed.

Lemma key_lt_asym a b : key_lt a b -> ~ key_lt b a.
Proof. intros H1 H2. eapply key_lt_irrefl, key_lt_trans; eauto. Qed.

Lemma key_ltb_lt a b : key_ltb a b = true <-> key_lt a b.
Proof. unfold key_ltb, key_lt. destruct (bytes_compare a b); split; congruence. Qed.

(** [key_leb a b] is [a < b \/ a = b]. *)
Lemma key_leb_spec a b : key_leb a b = true <-> key_lt a b \/ a = b.
Proof.
  unfold key_leb, key_lt. destruct (bytes_compare a b) eqn:E; split; intro H; auto; try discriminate.
  - right. now apply bytes_compare_eq.
  - destruct H as [H|H]; [discriminate|]. subst. rewrite bytes_compare_refl in E. discriminate.
Qed.

Lemma key_leb_false a b : key_leb a b = false -> key_lt b a.
Proof. unfold key_leb. intro H. apply key_lt_gt. destruct (bytes_compare a b); congruence. Qed.

Lemma key_lt_le_trans a b c : key_lt a b -> key_leb b c = true -> key_lt a c.
Proof. intros H1 H2. apply key_leb_spec in H2 as [H2| ->]; eauto using key_lt_trans. Qed.

Lemma key_le_lt_trans a b c : key_leb a b = true -> key_lt b c -> key_lt a c.
Proof. intros H1 H2. apply key_leb_spec in H1 as [H1| ->]; eauto using key_lt_trans. Qed.

Lemma key_leb_trans a b c : key_leb a b = true -> key_leb b c = true -> key_leb a c = true.
Proof.
  intros H1 H2. apply key_leb_spec. apply key_leb_spec in H1 as [H1| ->]; [|now apply key_leb_spec].
  left. eapply key_lt_le_trans; eauto.
Qed.

Lemma key_leb_refl a : key_leb a a = true.
Proof. apply key_leb_spec. now right. Qed.

Lemma key_trichotomy a b : key_lt a b \/ a = b \/ key_lt b a.
Proof.
  destruct (bytes_compare a b) eqn:E.
  - right; left. now apply bytes_compare_eq.
  - now left.
  - right; right. now apply key_lt_gt.
Qed.

Lemma bytes_eqb_sym a b : bytes_eqb a b = bytes_eqb b a.
Proof.
  destruct (bytes_eqb a b) eqn:E1, (bytes_eqb b a) eqn:E2; auto.
  - apply bytes_eqb_eq in E1. subst. now rewrite bytes_eqb_refl in E2.
  - apply bytes_eqb_eq in E2. subst. now rewrite bytes_eqb_refl in E1.
Qed.

Lemma key_lt_eqb_false a b : key_lt a b -> bytes_eqb a b = false.
Proof. intro H. apply bytes_eqb_neq. now apply key_lt_neq. Qed.

Lemma key_lt_eqb_false' a b : key_lt a b -> bytes_eqb b a = false.
Proof. intro H. rewrite bytes_eqb_sym. now apply key_lt_eqb_false. Qed.

(** * Identity of typed values *)
Lemma bool_eqb_iff x y : Bool.eqb x y = true <-> x = y.
Proof. apply Bool.eqb_true_iff. Qed.

Lemma value_eqb_eq a b : value_eqb a b = true <-> a = b.
Proof.
  destruct a, b; cbn; try (split; [discriminate | intro H; discriminate H]); try tauto.
  - rewrite bool_eqb_iff. split; congruence.
  - rewrite N.eqb_eq. split; congruence.
  - rewrite N.eqb_eq. split; congruence.
  - rewrite bytes_eqb_eq. split; congruence.
  - rewrite (list_eqb_eq _ bool_eqb_iff). split; congruence.
  - rewrite (list_eqb_eq _ N.eqb_eq). split; congruence.
  - rewrite (list_eqb_eq _ N.eqb_eq). split; congruence.
  - rewrite (list_eqb_eq _ bytes_eqb_eq). split; congruence.
Qed.

Lemma value_eqb_refl a : value_eqb a a = true.
Proof. now apply value_eqb_eq. Qed.

Lemma kv_eqb_eq a b : kv_eqb a b = true <-> a = b.
Proof.
  unfold kv_eqb. rewrite andb_true_iff, bytes_eqb_eq, value_eqb_eq.
  destruct a, b; cbn; split; [intros [-> ->]; auto | intro H; inversion H; auto].
Qed.

Lemma kvs_eqb_eq a b : kvs_eqb a b = true <-> a = b.
Proof. apply list_eqb_eq, kv_eqb_eq. Qed.

Lemma optv_eqb_eq a b : optv_eqb a b = true <-> a = b.
Proof.
  destruct a, b; cbn; try (split; [discriminate | intro H; discriminate H]); try tauto.
  rewrite value_eqb_eq. split; congruence.
Qed.

(** * Association lists *)
Lemma assoc_none k l : assoc k l = None <-> ~ In k (map fst l).
Proof.
  induction l as [|[k' v] r IH]; cbn; [tauto|].
  destruct (bytes_eqb k k') eqn:E.
  - apply bytes_eqb_eq in E. subst. split; [discriminate | intro H; exfalso; apply H; auto].
  - apply bytes_eqb_neq in E. rewrite IH. split; [intros H [H'|H']; congruence | tauto].
Qed.

Lemma last_assoc_none k l : last_assoc k l = None <-> ~ In k (map fst l).
Proof.
  induction l as [|[k' v] r IH]; cbn; [tauto|].
  destruct (last_assoc k r) eqn:E.
  - split; [discriminate|]. intro H. exfalso. apply H. right.
    destruct (in_dec (list_eq_dec N.eq_dec) k (map fst r)) as [i|n]; auto.
    apply IH in n. discriminate.
  - destruct (bytes_eqb k k') eqn:E2.
    + apply bytes_eqb_eq in E2. subst. split; [discriminate | intro H; exfalso; apply H; auto].
    + apply bytes_eqb_neq in E2. split; [|auto]. intros _ [H'|H']; [congruence|]. now apply IH in H'.
Qed.

Lemma assoc_in k v l : assoc k l = Some v -> In (k, v) l.
Proof.
  induction l as [|[k' w] r IH]; cbn; [discriminate|].
  destruct (bytes_eqb k k') eqn:E; [|auto].
  apply bytes_eqb_eq in E. subst. intro H. inversion H. auto.
Qed.

Lemma last_assoc_in k v l : last_assoc k l = Some v -> In (k, v) l.
Proof.
  induction l as [|[k' w] r IH]; cbn; [discriminate|].
  destruct (last_assoc k r) eqn:E.
  - intro H. inversion H; subst. auto.
  - destruct (bytes_eqb k k') eqn:E2; [|discriminate].
    apply bytes_eqb_eq in E2. subst. intro H. inversion H. auto.
Qed.

Lemma last_assoc_app k a b :
  last_assoc k (a ++ b) = match last_assoc k b with Some w => Some w | None => last_assoc k a end.
Proof.
  induction a as [|[k' v] r IH]; cbn.
  - now destruct (last_assoc k b).
  - rewrite IH. destruct (last_assoc k b); auto.
Qed.

(** All elements of [r] are strictly above [k]: no binding of [k] in [r]. *)
Lemma assoc_above k r : (forall y, In y r -> key_lt k (fst y)) -> assoc k r = None.
Proof.
  intro H. apply assoc_none. intro Hin. apply in_map_iff in Hin as [y [E Hy]].
  apply H in Hy. rewrite E in Hy. now apply key_lt_irrefl in Hy.
Qed.

Lemma last_assoc_above k r : (forall y, In y r -> key_lt k (fst y)) -> last_assoc k r = None.
Proof.
  intro H. apply last_assoc_none. intro Hin. apply in_map_iff in Hin as [y [E Hy]].
  apply H in Hy. rewrite E in Hy. now apply key_lt_irrefl in Hy.
Qed.

Lemma SortedUnique_tail x r : SortedUnique (x :: r) -> SortedUnique r.
Proof. cbn. tauto. Qed.

Lemma SortedUnique_nodup l : SortedUnique l -> NoDup (map fst l).
Proof.
  induction l as [|x r IH]; cbn; [constructor|]. intros [H1 H2]. constructor; auto.
  intro Hin. apply in_map_iff in Hin as [y [E Hy]]. apply H1 in Hy. rewrite E in Hy.
  now apply key_lt_irrefl in Hy.
Qed.

(** With unique keys the last binding is the first one. *)
Lemma last_assoc_unique k l : NoDup (map fst l) -> last_assoc k l = assoc k l.
Proof.
  induction l as [|[k' v] r IH]; cbn; [reflexivity|]. intro H. inversion H as [|? ? Hn Hr]; subst.
  rewrite IH by auto. destruct (bytes_eqb k k') eqn:E.
  - apply bytes_eqb_eq in E. subst. apply assoc_none in Hn. now rewrite Hn.
  - now destruct (assoc k r).
Qed.

Lemma sorted_unique_b_spec l : sorted_unique_b l = true <-> SortedUnique l.
Proof.
  induction l as [|x r IH]; [cbn; tauto|].
  destruct r as [|y r'].
  - cbn. split; auto. intros _. split; [intros y []|exact I].
  - change (sorted_unique_b (x :: y :: r')) with (key_ltb (fst x) (fst y) && sorted_unique_b (y :: r')).
    rewrite andb_true_iff, IH, key_ltb_lt. split.
    + intros [H1 H2]. split; auto. intros z [<-|Hz]; auto.
      destruct H2 as [H2 _]. eapply key_lt_trans; eauto.
    + intros [H1 H2]. split; auto. apply H1. now left.
Qed.

(** Two sorted duplicate-free lists with the same bindings are the same list. *)
Lemma sorted_unique_ext a : forall b, SortedUnique a -> SortedUnique b ->
  (forall k, assoc k a = assoc k b) -> a = b.
Proof.
  induction a as [|[ka va] a IH]; intros [|[kb vb] b] Ha Hb H; auto.
  - specialize (H kb). cbn in H. rewrite bytes_eqb_refl in H. discriminate.
  - specialize (H ka). cbn in H. rewrite bytes_eqb_refl in H. discriminate.
  - destruct Ha as [Ha1 Ha2]. destruct Hb as [Hb1 Hb2]. cbn [fst] in *.
    destruct (key_trichotomy ka kb) as [L|[E|L]].
    + exfalso. specialize (H ka). cbn in H. rewrite bytes_eqb_refl, (key_lt_eqb_false _ _ L) in H.
      rewrite assoc_above in H; [discriminate|]. intros y Hy. eapply key_lt_trans; eauto.
    + subst kb. pose proof (H ka) as H0. cbn in H0. rewrite bytes_eqb_refl in H0. inversion H0; subst vb.
      f_equal. apply IH; auto. intro k. specialize (H k). cbn in H.
      destruct (bytes_eqb k ka) eqn:E; [|exact H].
      apply bytes_eqb_eq in E. subst k. now rewrite !assoc_above.
    + exfalso. specialize (H kb). cbn in H. rewrite bytes_eqb_refl, (key_lt_eqb_false _ _ L) in H.
      rewrite assoc_above in H; [discriminate|]. intros y Hy. eapply key_lt_trans; eauto.
Qed.

(** * Stable sort *)
Fixpoint SortedLe (l : list kv) : Prop :=
  match l with
  | [] => True
  | x :: r => (forall y, In y r -> key_leb (fst x) (fst y) = true) /\ SortedLe r
  end.

Lemma insert_kv_perm x l : Permutation (x :: l) (insert_kv x l).
Proof.
  induction l as [|y r IH]; cbn; [apply Permutation_refl|].
  destruct (key_leb (fst x) (fst y)); [apply Permutation_refl|].
  eapply perm_trans; [apply perm_swap|]. now apply perm_skip.
Qed.

Lemma sort_stable_perm l : Permutation l (sort_stable l).
Proof.
  induction l as [|x r IH]; cbn; [constructor|].
  eapply perm_trans; [apply perm_skip, IH | apply insert_kv_perm].
Qed.

Lemma insert_kv_in x l z : In z (insert_kv x l) <-> z = x \/ In z l.
Proof.
  split; intro H.
  - eapply Permutation_in in H; [|apply Permutation_sym, insert_kv_perm]. destruct H; auto.
  - eapply Permutation_in; [apply insert_kv_perm|]. destruct H; [left|right]; auto.
Qed.

Lemma insert_kv_sorted x l : SortedLe l -> SortedLe (insert_kv x l).
Proof.
  induction l as [|y r IH]; cbn; [intros _; split; [intros ? []|exact I]|].
  intros [H1 H2]. destruct (key_leb (fst x) (fst y)) eqn:E; cbn.
  - split; [|split; auto]. intros z [<-|Hz]; auto. eapply key_leb_trans; eauto.
  - split; [|auto]. intros z Hz. apply insert_kv_in in Hz as [->|Hz]; auto.
    apply key_leb_spec. left. now apply key_leb_false.
Qed.

Lemma sort_stable_sorted l : SortedLe (sort_stable l).
Proof. induction l; cbn; [exact I|]. now apply insert_kv_sorted. Qed.

(** Stability, in the form the property needs: the last binding of every key survives sorting. *)
Lemma last_assoc_insert k x l : last_assoc k (insert_kv x l) = last_assoc k (x :: l).
Proof.
  induction l as [|y r IH]; [reflexivity|].
  cbn [insert_kv]. destruct (key_leb (fst x) (fst y)) eqn:E; [reflexivity|].
  apply key_leb_false in E. destruct x as [kx vx], y as [ky vy]. cbn [fst] in E.
  change (last_assoc k ((ky, vy) :: insert_kv (kx, vx) r)) with
    (match last_assoc k (insert_kv (kx, vx) r) with Some w => Some w
     | None => if bytes_eqb k ky then Some vy else None end).
  rewrite IH. cbn. destruct (last_assoc k r); auto.
  destruct (bytes_eqb k kx) eqn:E1, (bytes_eqb k ky) eqn:E2; auto.
  apply bytes_eqb_eq in E1, E2. subst. now apply key_lt_irrefl in E.
Qed.

Lemma last_assoc_sort k l : last_assoc k (sort_stable l) = last_assoc k l.
Proof.
  induction l as [|[k' v] r IH]; [reflexivity|]. cbn [sort_stable]. rewrite last_assoc_insert.
  cbn. now rewrite IH.
Qed.

(** * De-duplication *)
Lemma uniq_last_in l z : In z (uniq_last l) -> In z l.
Proof.
  induction l as [|x r IH]; [auto|]. destruct r as [|y r'].
  - cbn. auto.
  - change (uniq_last (x :: y :: r')) with
      (if bytes_eqb (fst x) (fst y) then uniq_last (y :: r') else x :: uniq_last (y :: r')).
    destruct (bytes_eqb (fst x) (fst y)); intro H.
    + right. now apply IH.
    + destruct H as [<-|H]; [now left | right; now apply IH].
Qed.

Lemma uniq_last_sorted l : SortedLe l -> SortedUnique (uniq_last l).
Proof.
  induction l as [|x r IH]; [auto|]. destruct r as [|y r'].
  - cbn. intros _. split; [intros ? []|exact I].
  - change (uniq_last (x :: y :: r')) with
      (if bytes_eqb (fst x) (fst y) then uniq_last (y :: r') else x :: uniq_last (y :: r')).
    intros [H1 H2]. destruct (bytes_eqb (fst x) (fst y)) eqn:E; [now apply IH|].
    split; [|now apply IH]. intros z Hz. apply uniq_last_in in Hz.
    assert (Hxy : key_lt (fst x) (fst y)).
    { specialize (H1 y (or_introl eq_refl)). apply key_leb_spec in H1 as [H1|H1]; auto.
      apply bytes_eqb_neq in E. contradiction. }
    destruct Hz as [<-|Hz]; auto. destruct H2 as [H2 _]. eapply key_lt_le_trans; eauto.
Qed.

Lemma uniq_last_assoc k l : SortedLe l -> assoc k (uniq_last l) = last_assoc k l.
Proof.
  induction l as [|x r IH]; [auto|]. destruct r as [|y r'].
  - destruct x as [kx vx]. cbn. auto.
  - change (uniq_last (x :: y :: r')) with
      (if bytes_eqb (fst x) (fst y) then uniq_last (y :: r') else x :: uniq_last (y :: r')).
    intros [H1 H2]. specialize (IH H2). destruct x as [kx vx]. cbn [fst] in *.
    change (last_assoc k ((kx, vx) :: y :: r')) with
      (match last_assoc k (y :: r') with Some w => Some w
       | None => if bytes_eqb k kx then Some vx else None end).
    destruct (bytes_eqb kx (fst y)) eqn:E.
    + rewrite IH. destruct (last_assoc k (y :: r')) eqn:EL; auto.
      destruct (bytes_eqb k kx) eqn:E2; auto. exfalso.
      apply bytes_eqb_eq in E, E2. subst. apply last_assoc_none in EL. apply EL. cbn. auto.
    + cbn [assoc]. destruct (bytes_eqb k kx) eqn:E2.
      * apply bytes_eqb_eq in E2. subst k. rewrite last_assoc_above; auto.
        assert (Hxy : key_lt kx (fst y)).
        { specialize (H1 y (or_introl eq_refl)). apply key_leb_spec in H1 as [H1|H1]; auto.
          apply bytes_eqb_neq in E. contradiction. }
        intros z [<-|Hz]; auto. destruct H2 as [H2 _]. eapply key_lt_le_trans; eauto.
      * rewrite IH. now destruct (last_assoc k (y :: r')).
Qed.

Lemma uniq_last_perm l : Permutation l (superseded l ++ uniq_last l).
Proof.
  induction l as [|x r IH]; [constructor|]. destruct r as [|y r'].
  - cbn. apply Permutation_refl.
  - change (uniq_last (x :: y :: r')) with
      (if bytes_eqb (fst x) (fst y) then uniq_last (y :: r') else x :: uniq_last (y :: r')).
    change (superseded (x :: y :: r')) with
      (if bytes_eqb (fst x) (fst y) then x :: superseded (y :: r') else superseded (y :: r')).
    destruct (bytes_eqb (fst x) (fst y)).
    + cbn. now apply perm_skip.
    + eapply perm_trans; [apply perm_skip, IH|]. apply Permutation_middle.
Qed.

(** * Filtering a sorted duplicate-free list *)
Lemma filter_sorted_unique f l : SortedUnique l -> SortedUnique (filter f l).
Proof.
  induction l as [|x r IH]; cbn; [auto|]. intros [H1 H2].
  destruct (f x); cbn; [split|]; auto. intros y Hy. apply filter_In in Hy as [Hy _]. auto.
Qed.

Lemma filter_assoc f k l : SortedUnique l ->
  assoc k (filter f l) = match assoc k l with Some v => if f (k, v) then Some v else None | None => None end.
Proof.
  induction l as [|[k' v] r IH]; cbn; [auto|]. intros [H1 H2]. cbn [fst] in H1.
  destruct (bytes_eqb k k') eqn:E.
  - apply bytes_eqb_eq in E. subst k'. destruct (f (k, v)); cbn.
    + now rewrite bytes_eqb_refl.
    + rewrite IH by auto. now rewrite assoc_above.
  - destruct (f (k', v)); cbn; [rewrite E|]; auto.
Qed.

Lemma filter_partition_perm {A} (f : A -> bool) (l : list A) :
  Permutation l (filter (fun x => negb (f x)) l ++ filter f l).
Proof.
  induction l as [|x r IH]; cbn; [constructor|]. destruct (f x); cbn.
  - eapply perm_trans; [apply perm_skip, IH|]. apply Permutation_middle.
  - now apply perm_skip.
Qed.

Lemma filter_true {A} (l : list A) : filter (fun _ => true) l = l.
Proof. induction l; cbn; congruence. Qed.
Lemma filter_false {A} (l : list A) : filter (fun _ : A => negb true) l = [].
Proof. induction l; cbn; auto. Qed.

(** * NewSetWithFiltered *)
Definition keep_of (keep : option (kv -> bool)) : kv -> bool :=
  match keep with Some f => f | None => fun _ => true end.

(** A nil filter behaves as the filter that keeps everything. *)
Lemma new_set_filtered_nil input :
  new_set_filtered input None = new_set_filtered input (Some (fun _ => true)).
Proof.
  destruct input as [|x r]; [reflexivity|]. unfold new_set_filtered.
  now rewrite filter_true, filter_false.
Qed.

Lemma selected_nil keep sel k : selected keep sel k [] = None.
Proof. reflexivity. Qed.

Lemma new_set_filtered_unfold x r f :
  new_set_filtered (x :: r) (Some f) =
  let u := uniq_last (sort_stable (x :: r)) in
  {| ns_set := filter f u; ns_removed := filter (fun y => negb (f y)) u;
     ns_after := superseded (sort_stable (x :: r)) ++ filter (fun y => negb (f y)) u ++ filter f u |}.
Proof. reflexivity. Qed.

Lemma new_set_filtered_some_spec input f :
  let r := new_set_filtered input (Some f) in
  NewSetSpec input f (ns_after r) (ns_set r) (ns_removed r).
Proof.
  destruct input as [|x0 r0].
  - cbn. repeat split; auto; try constructor. now exists [].
  - rewrite new_set_filtered_unfold. remember (x0 :: r0) as input eqn:Ei. clear Ei x0 r0.
    cbn [ns_after ns_set ns_removed].
    pose proof (sort_stable_sorted input) as Hs.
    pose proof (uniq_last_sorted _ Hs) as Hu.
    assert (Ha : forall k, assoc k (uniq_last (sort_stable input)) = last_assoc k input).
    { intro k. rewrite uniq_last_assoc by auto. apply last_assoc_sort. }
    repeat split.
    + now apply filter_sorted_unique.
    + intro k. rewrite filter_assoc by auto. rewrite Ha. unfold selected.
      destruct (last_assoc k input); auto; destruct (f (k, v)); auto.
    + apply SortedUnique_nodup. now apply filter_sorted_unique.
    + intro k. rewrite filter_assoc by auto. rewrite Ha. unfold selected.
      destruct (last_assoc k input); auto; destruct (f (k, v)); auto.
    + eapply perm_trans; [apply sort_stable_perm|].
      eapply perm_trans; [apply uniq_last_perm|]. apply Permutation_app_head, filter_partition_perm.
    + eexists. reflexivity.
Qed.

Lemma new_set_filtered_spec input keep :
  let r := new_set_filtered input keep in
  NewSetSpec input (keep_of keep) (ns_after r) (ns_set r) (ns_removed r).
Proof.
  destruct keep as [f|]; [apply new_set_filtered_some_spec|].
  rewrite new_set_filtered_nil. apply new_set_filtered_some_spec.
Qed.

Lemma new_set_sorted_unique input keep : SortedUnique (ns_set (new_set_filtered input keep)).
Proof. apply (new_set_filtered_spec input keep). Qed.

Lemma new_set_last_wins input keep k :
  assoc k (ns_set (new_set_filtered input keep)) = selected (keep_of keep) true k input /\
  assoc k (ns_removed (new_set_filtered input keep)) = selected (keep_of keep) false k input.
Proof. destruct (new_set_filtered_spec input keep) as (_ & H1 & _ & H2 & _). auto. Qed.

Lemma new_set_assoc input k : assoc k (new_set input) = last_assoc k input.
Proof.
  unfold new_set. destruct (new_set_last_wins input None k) as [H _]. rewrite H.
  unfold selected. cbn. now destruct (last_assoc k input).
Qed.

Lemma new_set_no_value_lost input keep :
  let r := new_set_filtered input keep in
  Permutation input (ns_after r) /\
  (exists dups, ns_after r = dups ++ ns_removed r ++ ns_set r) /\
  (forall x, In x (ns_set r ++ ns_removed r) -> In x input).
Proof.
  destruct (new_set_filtered_spec input keep) as (_ & _ & _ & _ & HP & dups & HD).
  cbn. repeat split; auto; [now exists dups|].
  intros x Hx. eapply Permutation_in; [apply Permutation_sym, HP|]. rewrite HD.
  apply in_or_app. right. apply in_app_or in Hx. apply in_or_app. tauto.
Qed.

(** Inputs denoting the same mapping (any order, any duplication) build the same set,
    and with the same filter the same removed set. *)
Lemma new_set_order_dup_insensitive i1 i2 keep : same_mapping i1 i2 ->
  ns_set (new_set_filtered i1 keep) = ns_set (new_set_filtered i2 keep).
Proof.
  intro H. apply sorted_unique_ext; try apply new_set_sorted_unique.
  intro k. destruct (new_set_last_wins i1 keep k) as [-> _]. destruct (new_set_last_wins i2 keep k) as [-> _].
  unfold selected. now rewrite H.
Qed.

Lemma same_mapping_perm i1 i2 : Permutation i1 i2 -> NoDup (map fst i1) -> same_mapping i1 i2.
Proof.
  intros HP HN k. assert (HN2 : NoDup (map fst i2)).
  { eapply Permutation_NoDup; [apply Permutation_map, HP|auto]. }
  destruct (last_assoc k i1) eqn:E1.
  - apply last_assoc_in in E1. eapply Permutation_in in E1; [|exact HP].
    destruct (last_assoc k i2) eqn:E2.
    + apply last_assoc_in in E2. f_equal.
      clear - E1 E2 HN2. induction i2 as [|[k' w] r IH]; [destruct E1|].
      cbn in HN2. inversion HN2 as [|? ? Hn Hr]; subst.
      destruct E1 as [E1|E1], E2 as [E2|E2]; try congruence; auto.
      * inversion E1; subst. exfalso. apply Hn. apply in_map_iff. now exists (k, v0).
      * inversion E2; subst. exfalso. apply Hn. apply in_map_iff. now exists (k, v).
    + apply last_assoc_none in E2. exfalso. apply E2. apply in_map_iff. now exists (k, v).
  - destruct (last_assoc k i2) eqn:E2; auto. exfalso.
    apply last_assoc_in in E2. eapply Permutation_in in E2; [|apply Permutation_sym, HP].
    apply last_assoc_none in E1. apply E1. apply in_map_iff. now exists (k, v).
Qed.

(** Superseded duplicates placed anywhere before the surviving binding change nothing. *)
Lemma same_mapping_dup_prefix d i :
  (forall x, In x d -> In (fst x) (map fst i)) -> same_mapping (d ++ i) i.
Proof.
  intros H k. rewrite last_assoc_app. destruct (last_assoc k i) eqn:E; auto.
  destruct (last_assoc k d) eqn:E2; auto. exfalso.
  apply last_assoc_in in E2. apply H in E2. cbn in E2. apply last_assoc_none in E. contradiction.
Qed.

(** A sorted duplicate-free slice is its own set (NewSet is idempotent on ToSlice output). *)
Lemma new_set_fixpoint l : SortedUnique l -> new_set l = l.
Proof.
  intro H. apply sorted_unique_ext; auto; [apply new_set_sorted_unique|].
  intro k. rewrite new_set_assoc. apply last_assoc_unique. now apply SortedUnique_nodup.
Qed.

(** * Go equality of Distincts, characterised exactly *)
Lemma f64_zero_not_nan b : f64_is_zero b = true -> f64_is_nan b = false.
Proof.
  unfold f64_is_zero, f64_is_nan. intro H. apply N.eqb_eq in H. rewrite H. reflexivity.
Qed.

Lemma f64_eq_char a b :
  f64_eq a b = true <-> f64_is_nan a = false /\ canonz_f a = canonz_f b.
Proof.
  unfold f64_eq, canonz_f. split.
  - intro H. apply andb_true_iff in H as [H H3]. apply andb_true_iff in H as [H1 H2].
    apply negb_true_iff in H1. split; auto.
    apply orb_true_iff in H3 as [H3|H3].
    + apply N.eqb_eq in H3. now subst.
    + apply andb_true_iff in H3 as [-> ->]. reflexivity.
  - intros [H1 H2]. rewrite H1. cbn [negb andb].
    destruct (f64_is_zero a) eqn:Za, (f64_is_zero b) eqn:Zb.
    + rewrite (f64_zero_not_nan b Zb). cbn. now rewrite orb_true_r.
    + subst b. discriminate Zb.
    + subst a. discriminate Za.
    + subst b. rewrite H1, N.eqb_refl. reflexivity.
Qed.

Lemma f64s_eq_char x : forall y,
  list_eqb f64_eq x y = true <->
  forallb (fun b => negb (f64_is_nan b)) x = true /\ map canonz_f x = map canonz_f y.
Proof.
  induction x as [|a x IH]; intros [|b y]; cbn; try (split; [discriminate | intros [_ H]; discriminate H]).
  - tauto.
  - rewrite !andb_true_iff, IH, f64_eq_char, negb_true_iff. split.
    + intros [[H1 H2] [H3 H4]]. repeat split; auto. congruence.
    + intros [[H1 H2] H3]. inversion H3. auto.
Qed.

Lemma go_eq_char a b : go_eq a b = true <-> value_nan_free a = true /\ canonz a = canonz b.
Proof.
  destruct a, b; cbn [go_eq value_nan_free canonz];
    try (split; [discriminate | intros [_ H]; discriminate H]).
  - tauto.
  - rewrite bool_eqb_iff. split; [intros ->; auto | intros [_ H]; congruence].
  - rewrite N.eqb_eq. split; [intros ->; auto | intros [_ H]; congruence].
  - rewrite N.eqb_eq. split; [intros ->; auto | intros [_ H]; congruence].
  - rewrite bytes_eqb_eq. split; [intros ->; auto | intros [_ H]; congruence].
  - rewrite (list_eqb_eq _ bool_eqb_iff). split; [intros ->; auto | intros [_ H]; congruence].
  - rewrite (list_eqb_eq _ N.eqb_eq). split; [intros ->; auto | intros [_ H]; congruence].
  - rewrite f64s_eq_char. split; [intros [H1 H2]; split; congruence | intros [H1 H2]; split; congruence].
  - rewrite (list_eqb_eq _ bytes_eqb_eq). split; [intros ->; auto | intros [_ H]; congruence].
Qed.

Definition set_nan_free (s : list kv) : bool := forallb (fun x => value_nan_free (snd x)) s.
Definition kvs_regular (s : list kv) : bool := forallb (fun x => value_regular (snd x)) s.

Lemma distinct_eq_char a : forall b,
  distinct_eq a b = true <-> set_nan_free a = true /\ map canonz_kv a = map canonz_kv b.
Proof.
  unfold distinct_eq, set_nan_free.
  induction a as [|[ka va] a IH]; intros [|[kb vb] b]; cbn;
    try (split; [discriminate | intros [_ H]; discriminate H]).
  - tauto.
  - unfold kv_go_eq, canonz_kv. cbn [fst snd].
    rewrite !andb_true_iff, IH, go_eq_char, bytes_eqb_eq. split.
    + intros [[-> [H1 H2]] [H3 H4]]. repeat split; auto. f_equal; [f_equal; exact H2 | exact H4].
    + intros [[H1 H2] H3]. inversion H3. auto.
Qed.

(** A set equals itself exactly when no float64 slice in it holds a NaN. *)
Lemma distinct_eq_refl_iff a : distinct_eq a a = true <-> set_nan_free a = true.
Proof. rewrite distinct_eq_char. tauto. Qed.

Lemma f64_regular_canon b : f64_regular b = true -> canonz_f b = b /\ f64_is_nan b = false.
Proof.
  unfold f64_regular, canonz_f. intro H. apply andb_true_iff in H as [H1 H2].
  apply negb_true_iff in H1. split; auto.
  destruct (f64_is_zero b); auto. cbn in H2. apply negb_true_iff, negb_false_iff, N.eqb_eq in H2. auto.
Qed.

Lemma value_regular_canon v : value_regular v = true -> canonz v = v /\ value_nan_free v = true.
Proof.
  destruct v; cbn; auto. induction l as [|b l IH]; cbn; auto.
  intro H. apply andb_true_iff in H as [H1 H2]. apply f64_regular_canon in H1 as [H1 H3].
  destruct (IH H2) as [H4 H5]. rewrite H1, H3, H5. split; auto. inversion H4. now rewrite !H0.
Qed.

Lemma kvs_regular_canon s : kvs_regular s = true -> map canonz_kv s = s /\ set_nan_free s = true.
Proof.
  unfold kvs_regular, set_nan_free. induction s as [|[k v] s IH]; cbn; auto.
  intro H. apply andb_true_iff in H as [H1 H2]. apply value_regular_canon in H1 as [H1 H3].
  destruct (IH H2) as [H4 H5]. unfold canonz_kv at 1. cbn. now rewrite H1, H3, H4, H5.
Qed.

Lemma forallb_incl {A} (p : A -> bool) (a b : list A) :
  (forall x, In x a -> In x b) -> forallb p b = true -> forallb p a = true.
Proof. intros Hi Hb. apply forallb_forall. intros x Hx. eapply forallb_forall in Hb; eauto. Qed.

Lemma new_set_incl input x : In x (new_set input) -> In x input.
Proof.
  intro H. destruct (new_set_no_value_lost input None) as (_ & _ & H3).
  apply H3. apply in_or_app. now left.
Qed.

(** On regular values, Go equality of the built sets is exactly "same mapping". *)
Lemma equal_iff_same_mapping_regular i1 i2 :
  kvs_regular i1 = true -> kvs_regular i2 = true ->
  (set_equals (new_set i1) (new_set i2) = true <-> same_mapping i1 i2).
Proof.
  intros R1 R2.
  assert (R1' : kvs_regular (new_set i1) = true) by (eapply forallb_incl; [apply new_set_incl|auto]).
  assert (R2' : kvs_regular (new_set i2) = true) by (eapply forallb_incl; [apply new_set_incl|auto]).
  apply kvs_regular_canon in R1' as [C1 N1]. apply kvs_regular_canon in R2' as [C2 N2].
  unfold set_equals. rewrite distinct_eq_char, C1, C2. split.
  - intros [_ H] k. rewrite <- !new_set_assoc. now rewrite H.
  - intro H. split; auto. now apply new_set_order_dup_insensitive.
Qed.

(** Unconditional reading: Go equality holds iff the first set has no NaN in a float slice and the
    mappings agree once the sign of zeros inside float slices is erased. *)
Lemma equal_characterised i1 i2 :
  set_equals (new_set i1) (new_set i2) = true <->
  set_nan_free (new_set i1) = true /\ map canonz_kv (new_set i1) = map canonz_kv (new_set i2).
Proof. apply distinct_eq_char. Qed.

Definition NAN_BITS : N := 9221120237041090561.      (* 0x7FF8000000000001 *)
Definition NEG_ZERO_BITS : N := 9223372036854775808. (* 0x8000000000000000 *)

Lemma equal_refuted_nan :
  exists i, same_mapping i i /\ set_equals (new_set i) (new_set i) = false.
Proof. exists [(str "k", VFloats [NAN_BITS])]. split; [intro k; reflexivity | vm_compute; reflexivity]. Qed.

Lemma equal_refuted_signed_zero :
  exists i1 i2, ~ same_mapping i1 i2 /\ set_equals (new_set i1) (new_set i2) = true.
Proof.
  exists [(str "k", VFloats [0])], [(str "k", VFloats [NEG_ZERO_BITS])]. split; [|vm_compute; reflexivity].
  intro H. specialize (H (str "k")). vm_compute in H. discriminate.
Qed.

(** * Lookup and iteration *)
(** Bisection finds the boundary of any monotone predicate. *)
Lemma half_between i j : (i < j)%nat -> (i <= (i + j) / 2 < j)%nat.
Proof. intro H. split; [apply Nat.div_le_lower_bound; lia | apply Nat.div_lt_upper_bound; lia]. Qed.

Lemma bsearch_spec f : (forall x y, (x <= y)%nat -> f x = true -> f y = true) ->
  forall fuel i j, (j - i <= fuel)%nat -> (i <= j)%nat ->
  (forall x, (x < i)%nat -> f x = false) -> (forall x, (j <= x)%nat -> f x = true) ->
  let r := bsearch fuel f i j in
  (forall x, (x < r)%nat -> f x = false) /\ (forall x, (r <= x)%nat -> f x = true).
Proof.
  intro Hm. induction fuel as [|fu IH]; intros i j Hf Hij Hlo Hhi; cbn [bsearch].
  - assert (i = j) by lia. subst. split; auto.
  - destruct (Nat.ltb i j) eqn:E.
    + apply Nat.ltb_lt in E. pose proof (half_between i j E) as [H1 H2].
      destruct (f ((i + j) / 2)%nat) eqn:Fh.
      * apply IH; auto; try lia. intros x Hx. eapply Hm; eauto.
      * apply IH; auto; try lia. intros x Hx.
        destruct (f x) eqn:Fx; auto. assert (f ((i + j) / 2)%nat = true) by (eapply Hm; [|exact Fx]; lia). congruence.
    + apply Nat.ltb_ge in E. assert (i = j) by lia. subst. split; auto.
Qed.

Lemma sorted_nth_lt s : SortedUnique s -> forall x y a b, (x < y)%nat ->
  nth_error s x = Some a -> nth_error s y = Some b -> key_lt (fst a) (fst b).
Proof.
  induction s as [|c s IH]; intros Hs x y a b Hxy Ha Hb; [destruct x; discriminate|].
  destruct Hs as [H1 H2]. destruct y as [|y]; [lia|]. cbn in Hb. destruct x as [|x].
  - cbn in Ha. inversion Ha; subst. apply H1. eapply nth_error_In; eauto.
  - cbn in Ha. apply (IH H2 x y a b); auto. lia.
Qed.

Lemma key_ge_at_mono s k : SortedUnique s ->
  forall x y, (x <= y)%nat -> key_ge_at s k x = true -> key_ge_at s k y = true.
Proof.
  intros Hs x y Hxy. unfold key_ge_at. destruct (nth_error s y) as [b|] eqn:Eb; [|auto].
  destruct (nth_error s x) as [a|] eqn:Ea.
  - intro H. destruct (Nat.eq_dec x y) as [->|Hn]; [congruence|].
    assert (L : key_lt (fst a) (fst b)) by (apply (sorted_nth_lt s Hs x y a b); auto; lia).
    apply key_leb_spec. left. eapply key_le_lt_trans; eauto.
  - apply nth_error_None in Ea. assert (nth_error s y = None) by (apply nth_error_None; lia). congruence.
Qed.

(** Looking at the boundary index of "key >= k" is the same as scanning for k. *)
Lemma boundary_lookup s k : SortedUnique s -> forall r,
  (forall x, (x < r)%nat -> key_ge_at s k x = false) -> (forall x, (r <= x)%nat -> key_ge_at s k x = true) ->
  match nth_error s r with Some (k', v) => if bytes_eqb k k' then Some v else None | None => None end = assoc k s.
Proof.
  induction s as [|[k0 v0] s IH]; intros Hs r Hlo Hhi.
  - destruct r; reflexivity.
  - destruct Hs as [H1 H2]. cbn [fst] in H1. destruct r as [|r].
    + specialize (Hhi 0%nat (le_n _)). unfold key_ge_at in Hhi. cbn in Hhi. cbn.
      destruct (bytes_eqb k k0) eqn:E; auto.
      apply key_leb_spec in Hhi as [L|L]; [|apply bytes_eqb_neq in E; contradiction].
      symmetry. apply assoc_above. intros y Hy. eapply key_lt_trans; eauto.
    + pose proof (Hlo 0%nat (Nat.lt_0_succ _)) as H0. unfold key_ge_at in H0. cbn in H0.
      apply key_leb_false in H0. cbn [nth_error assoc]. rewrite (key_lt_eqb_false' _ _ H0).
      apply IH; auto.
      * intros x Hx. apply (Hlo (S x)). lia.
      * intros x Hx. apply (Hhi (S x)). lia.
Qed.

Lemma set_value_assoc s k : SortedUnique s -> set_value s k = assoc k s.
Proof.
  intro Hs. unfold set_value, sort_search.
  destruct (bsearch_spec (key_ge_at s k) (key_ge_at_mono s k Hs) (length s) 0 (length s)) as [Hlo Hhi]; try lia.
  - intros x Hx. unfold key_ge_at. assert (E : nth_error s x = None) by (apply nth_error_None; lia). now rewrite E.
  - now apply boundary_lookup.
Qed.

Lemma assoc_some_in_iff s k v : SortedUnique s -> (assoc k s = Some v <-> In (k, v) s).
Proof.
  intro H. split; [apply assoc_in|].
  induction s as [|[k' w] r IH]; [intros []|]. destruct H as [H1 H2]. cbn [fst] in H1.
  intros [E|Hin]; cbn.
  - inversion E; subst. now rewrite bytes_eqb_refl.
  - specialize (H1 _ Hin). cbn in H1. rewrite (key_lt_eqb_false' _ _ H1). auto.
Qed.

Lemma set_value_in_iff s k v : SortedUnique s -> (set_value s k = Some v <-> In (k, v) s).
Proof. intro H. rewrite set_value_assoc by auto. now apply assoc_some_in_iff. Qed.

Lemma set_get_iter s : map Some s = map (set_get s) (seq 0 (length s)) /\ set_get s (length s) = None.
Proof.
  unfold set_get. split; [|apply nth_error_None; lia].
  induction s as [|x r IH]; [reflexivity|]. cbn [length seq map nth_error]. f_equal.
  rewrite <- seq_shift, map_map. exact IH.
Qed.

(** * Set.Filter *)
Lemma set_filter_spec keep s : SortedUnique s ->
  FilterSpec keep s (fst (set_filter keep s)) (snd (set_filter keep s)).
Proof.
  intro H. unfold set_filter, FilterSpec. cbn [fst snd].
  split; [now apply filter_sorted_unique|]. split; [intro x; apply filter_In|]. split.
  - intro x. rewrite filter_In, negb_true_iff. tauto.
  - eapply perm_trans; [apply (filter_partition_perm keep)|]. apply Permutation_app_comm.
Qed.

Lemma allow_deny_complement keys x : deny_keys_filter keys x = negb (allow_keys_filter keys x).
Proof. reflexivity. Qed.

Lemma allow_keys_filter_spec keys x : allow_keys_filter keys x = true <-> In (fst x) keys.
Proof.
  unfold allow_keys_filter. rewrite existsb_exists. split.
  - intros [k [H1 H2]]. apply bytes_eqb_eq in H2. now subst.
  - intro H. exists (fst x). split; auto. apply bytes_eqb_refl.
Qed.

(** * MergeIterator *)
Lemma merge_iter_nil_r a : merge_iter a [] = a.
Proof. destruct a; reflexivity. Qed.

Lemma merge_iter_cons x a y b :
  merge_iter (x :: a) (y :: b) =
  match bytes_compare (fst x) (fst y) with
  | Eq => x :: merge_iter a b
  | Lt => x :: merge_iter a (y :: b)
  | Gt => y :: merge_iter (x :: a) b
  end.
Proof. reflexivity. Qed.

Lemma merge_iter_in a : forall b z, In z (merge_iter a b) -> In z a \/ In z b.
Proof.
  induction a as [|x a IHa]; [cbn; intros [|? ?]; auto|].
  induction b as [|y b IHb]; [cbn; auto|]. intro z. rewrite merge_iter_cons.
  destruct (bytes_compare (fst x) (fst y)); intros [<-|H].
  - left; now left.
  - apply IHa in H as [H|H]; [left|right]; now right.
  - left; now left.
  - apply IHa in H as [H|H]; [left; now right | right; exact H].
  - right; now left.
  - apply IHb in H as [H|H]; [left; exact H | right; now right].
Qed.

Lemma merge_iter_spec a : forall b, SortedUnique a -> SortedUnique b -> MergeSpec a b (merge_iter a b).
Proof.
  unfold MergeSpec.
  induction a as [|[ka va] a IHa].
  - intros b _ Hb. split; [destruct b; exact Hb|]. intro k. destruct b; reflexivity.
  - induction b as [|[kb vb] b IHb]; intros Ha Hb.
    + rewrite merge_iter_nil_r. split; auto. intro k. match goal with |- ?x = _ => destruct x end; reflexivity.
    + rewrite merge_iter_cons. cbn [fst]. destruct Ha as [Ha1 Ha2]. destruct Hb as [Hb1 Hb2]. cbn [fst] in *.
      destruct (bytes_compare ka kb) eqn:E.
      * apply bytes_compare_eq in E. subst kb. destruct (IHa b Ha2 Hb2) as [S A]. split.
        -- split; auto. intros z Hz. apply merge_iter_in in Hz as [Hz|Hz]; auto.
        -- intro k. cbn. destruct (bytes_eqb k ka); auto.
      * destruct (IHa ((kb, vb) :: b) Ha2 (conj Hb1 Hb2)) as [S A]. split.
        -- split; auto. intros z Hz. apply merge_iter_in in Hz as [Hz|[<-|Hz]]; auto.
           eapply key_lt_trans; [exact E|]. now apply Hb1.
        -- intro k. cbn [assoc]. destruct (bytes_eqb k ka) eqn:E2; auto. exact (A k).
      * apply key_lt_gt in E. destruct (IHb (conj Ha1 Ha2) Hb2) as [S A]. split.
        -- split; auto. intros z Hz. apply merge_iter_in in Hz as [[<-|Hz]|Hz]; auto.
           eapply key_lt_trans; [exact E|]. now apply Ha1.
        -- intro k. specialize (A k). cbn [assoc] in *. destruct (bytes_eqb k kb) eqn:E2.
           ++ apply bytes_eqb_eq in E2. subst k. rewrite (key_lt_eqb_false _ _ E).
              rewrite assoc_above; auto. intros y Hy. eapply key_lt_trans; [exact E|]. now apply Ha1.
           ++ exact A.
Qed.

(** * The decidable readings imply the Prop specifications
    (what a passing correspondence case establishes about the implementation's observation). *)
Lemma key_in_dec (k : bytes) (ks : list bytes) : {In k ks} + {~ In k ks}.
Proof. apply in_dec, list_eq_dec, N.eq_dec. Qed.

Lemma forall_keys_sound (f g : bytes -> option value) ks :
  (forall k, ~ In k ks -> f k = None /\ g k = None) ->
  forallb (fun k => optv_eqb (f k) (g k)) ks = true -> forall k, f k = g k.
Proof.
  intros Hout Hall k. destruct (key_in_dec k ks) as [i|n].
  - eapply forallb_forall in Hall; eauto. now apply optv_eqb_eq.
  - destruct (Hout k n) as [-> ->]. reflexivity.
Qed.

Lemma mem_key_in k ks : mem_key k ks = true <-> In k ks.
Proof.
  unfold mem_key. rewrite existsb_exists. split.
  - intros [x [H1 H2]]. apply bytes_eqb_eq in H2. now subst.
  - intro H. exists k. split; auto. apply bytes_eqb_refl.
Qed.

Lemma nodup_keys_b_sound ks : nodup_keys_b ks = true -> NoDup ks.
Proof.
  induction ks as [|k r IH]; cbn; [constructor|]. intro H. apply andb_true_iff in H as [H1 H2].
  constructor; auto. intro Hin. apply mem_key_in in Hin. rewrite Hin in H1. discriminate.
Qed.

Lemma remove_first_perm x l : forall l', remove_first x l = Some l' -> Permutation l (x :: l').
Proof.
  induction l as [|y r IH]; cbn; [discriminate|]. intros l'. destruct (kv_eqb x y) eqn:E.
  - apply kv_eqb_eq in E. subst. intro H. inversion H. apply Permutation_refl.
  - destruct (remove_first x r) as [r'|]; [|discriminate]. intro H. inversion H; subst.
    eapply perm_trans; [apply perm_skip, IH; reflexivity|]. apply perm_swap.
Qed.

Lemma perm_b_sound a : forall b, perm_b a b = true -> Permutation a b.
Proof.
  induction a as [|x a IH]; intros b; cbn.
  - destruct b; [constructor|discriminate].
  - destruct (remove_first x b) as [b'|] eqn:E; [|discriminate]. intro H.
    apply remove_first_perm in E. eapply perm_trans; [apply perm_skip, IH, H|]. now apply Permutation_sym.
Qed.

Lemma selected_none keep sel k input : ~ In k (map fst input) -> selected keep sel k input = None.
Proof. intro H. unfold selected. apply last_assoc_none in H. now rewrite H. Qed.

Lemma newset_ok_sound input keep after set removed :
  newset_ok input keep after set removed = true -> NewSetSpec input keep after set removed.
Proof.
  unfold newset_ok, NewSetSpec, keys_of. intro H.
  repeat (apply andb_true_iff in H as [H ?]).
  assert (Hout : forall l k, ~ In k (map fst input ++ map fst set ++ map fst removed) ->
                 In l [set; removed] -> forall sel, assoc k l = None /\ selected keep sel k input = None).
  { intros l k Hk Hl sel. split.
    - apply assoc_none. intro Hi. apply Hk. apply in_or_app. right. apply in_or_app.
      destruct Hl as [<-|[<-|[]]]; auto.
    - apply selected_none. intro Hi. apply Hk. apply in_or_app. now left. }
  split; [now apply sorted_unique_b_spec|].
  split; [eapply forall_keys_sound; [|eassumption]; intros k Hk; apply (Hout set k Hk); cbn; auto|].
  split; [now apply nodup_keys_b_sound|].
  split; [eapply forall_keys_sound; [|eassumption]; intros k Hk; apply (Hout removed k Hk); cbn; auto|].
  split; [now apply perm_b_sound|].
  match goal with E : kvs_eqb _ _ = true |- _ => apply kvs_eqb_eq in E; rename E into HE end.
  remember (length after - length (removed ++ set))%nat as n eqn:En. clear En.
  exists (firstn n after). rewrite <- HE. symmetry. apply firstn_skipn.
Qed.

Lemma same_mapping_b_spec a b : same_mapping_b a b = true <-> same_mapping a b.
Proof.
  unfold same_mapping_b, same_mapping, keys_of. split.
  - apply forall_keys_sound. intros k Hk. split; apply last_assoc_none; intro Hi; apply Hk, in_or_app; auto.
  - intro H. apply forallb_forall. intros k _. apply optv_eqb_eq, H.
Qed.

Lemma equals_ok_sound i1 i2 eq : equals_ok i1 i2 eq = true -> EqualsSpec i1 i2 eq.
Proof.
  unfold equals_ok, EqualsSpec. rewrite bool_eqb_iff. intros ->. apply same_mapping_b_spec.
Qed.

Lemma filter_ok_sound keep orig kept dropped :
  filter_ok keep orig kept dropped = true -> FilterSpec keep orig kept dropped.
Proof.
  unfold filter_ok, FilterSpec. intro H. repeat (apply andb_true_iff in H as [H ?]).
  apply sorted_unique_b_spec in H. match goal with E : kvs_eqb _ _ = true |- _ => apply kvs_eqb_eq in E; subst kept end.
  match goal with E : perm_b _ _ = true |- _ => apply perm_b_sound in E; rename E into HP end.
  split; auto. split; [intro x; apply filter_In|]. split.
  - intro x. split.
    + intro Hx. eapply Permutation_in in Hx; [|exact HP]. apply filter_In in Hx. now rewrite negb_true_iff in Hx.
    + intros [H1 H2]. eapply Permutation_in; [apply Permutation_sym, HP|]. apply filter_In. now rewrite negb_true_iff.
  - eapply perm_trans; [apply (filter_partition_perm keep)|].
    eapply perm_trans; [apply Permutation_app_comm|]. apply Permutation_app_head. now apply Permutation_sym.
Qed.

Lemma lookup_ok_sound contents k found : lookup_ok contents k found = true -> LookupSpec contents k found.
Proof. apply optv_eqb_eq. Qed.

Lemma merge_ok_sound a b merged : merge_ok a b merged = true -> MergeSpec a b merged.
Proof.
  unfold merge_ok, MergeSpec, keys_of. intro H. apply andb_true_iff in H as [H1 H2].
  split; [now apply sorted_unique_b_spec|].
  eapply (forall_keys_sound (fun k => assoc k merged)); [|exact H2].
  intros k Hk. assert (Ha : assoc k a = None) by (apply assoc_none; intro; apply Hk, in_or_app; auto).
  assert (Hb : assoc k b = None) by (apply assoc_none; intro; apply Hk, in_or_app; right; apply in_or_app; auto).
  rewrite Ha, Hb. split; auto. apply assoc_none; intro; apply Hk, in_or_app; right; apply in_or_app; auto.
Qed.

(** * Decimal numerals: what FormatInt writes reads back as the same int64 *)
Lemma dec_digits_app f : forall n a1 a2, dec_digits f n (a1 ++ a2) = dec_digits f n a1 ++ a2.
Proof.
  induction f as [|f IH]; intros n a1 a2; [reflexivity|]. cbn [dec_digits].
  destruct (n <? 10); [reflexivity|]. exact (IH (n / 10) ((48 + n mod 10) :: a1) a2).
Qed.

Lemma dec_digits_step f n :
  dec_digits (S f) n [] = if n <? 10 then [48 + n] else dec_digits f (n / 10) [] ++ [48 + n mod 10].
Proof.
  cbn [dec_digits]. destruct (n <? 10) eqn:E.
  - apply N.ltb_lt in E. now rewrite N.mod_small.
  - exact (dec_digits_app f (n / 10) [] [48 + n mod 10]).
Qed.

Lemma parse_dec_acc_app s1 : forall s2 a,
  parse_dec_acc (s1 ++ s2) a = match parse_dec_acc s1 a with Some a' => parse_dec_acc s2 a' | None => None end.
Proof.
  induction s1 as [|c s1 IH]; intros s2 a; [reflexivity|]. cbn [app parse_dec_acc].
  destruct (is_digit c); [apply IH|reflexivity].
Qed.

Lemma is_digit_small d : d < 10 -> is_digit (48 + d) = true /\ 48 + d - 48 = d.
Proof. intro H. unfold is_digit. split; [apply andb_true_iff; split; apply N.leb_le; lia | lia]. Qed.

Lemma parse_dec_digits f : forall n, n < 10 ^ N.of_nat (S f) ->
  parse_dec_acc (dec_digits (S f) n []) 0 = Some n /\ dec_digits (S f) n [] <> [] /\
  forallb is_digit (dec_digits (S f) n []) = true.
Proof.
  induction f as [|f IH]; intros n Hn; rewrite dec_digits_step; destruct (n <? 10) eqn:E.
  - apply N.ltb_lt in E. destruct (is_digit_small n E) as [D1 D2]. cbn [parse_dec_acc forallb]. rewrite D1, D2.
    repeat split; try discriminate; try reflexivity; f_equal; lia.
  - apply N.ltb_ge in E. cbn in Hn. lia.
  - apply N.ltb_lt in E. destruct (is_digit_small n E) as [D1 D2]. cbn [parse_dec_acc forallb]. rewrite D1, D2.
    repeat split; try discriminate; try reflexivity; f_equal; lia.
  - apply N.ltb_ge in E.
    assert (Hd : n / 10 < 10 ^ N.of_nat (S f)).
    { apply N.div_lt_upper_bound; [lia|]. rewrite (Nnat.Nat2N.inj_succ (S f)), N.pow_succ_r' in Hn. lia. }
    destruct (IH (n / 10) Hd) as (I1 & I2 & I3).
    assert (Hm : n mod 10 < 10) by (apply N.mod_lt; lia). destruct (is_digit_small _ Hm) as [D1 D2].
    rewrite parse_dec_acc_app, I1. cbn [parse_dec_acc]. rewrite D1, D2. repeat split.
    + f_equal. rewrite (N.div_mod n 10) at 3 by lia. lia.
    + destruct (dec_digits (S f) (n / 10) []); [congruence|discriminate].
    + rewrite forallb_app, I3. cbn [forallb andb]. now rewrite D1.
Qed.

Lemma dec_spec n : n < TWO64 ->
  parse_dec (dec n) = Some n /\ forallb is_digit (dec n) = true /\ dec n <> [].
Proof.
  intro H. assert (E10 : 10 ^ N.of_nat 25 = 10000000000000000000000000) by (vm_compute; reflexivity).
  assert (Hn : n < 10 ^ N.of_nat 25) by (rewrite E10; unfold TWO64 in H; lia).
  destruct (parse_dec_digits 24 n Hn) as (I1 & I2 & I3). unfold dec, parse_dec.
  split; [|split; assumption].
  destruct (dec_digits 25 n []) eqn:E; [congruence|]. exact I1.
Qed.

Lemma parse_i64_dec n : n < TWO64 -> parse_i64 (dec_i64 n) = Some (i64_of_bits n).
Proof.
  intro H. unfold dec_i64, i64_of_bits. destruct (n <? TWO63) eqn:E.
  - destruct (dec_spec n H) as (P & D & Ne). unfold parse_i64.
    destruct (dec n) as [|c r] eqn:Ed; [congruence|].
    cbn [forallb] in D. apply andb_true_iff in D as [Dc _].
    assert (c <> 45). { unfold is_digit in Dc. apply andb_true_iff in Dc as [Dc _]. apply N.leb_le in Dc. lia. }
    destruct c as [|p]; [now rewrite P|].
    do 6 (destruct p as [p|p|]; try (now rewrite P)). congruence.
  - apply N.ltb_ge in E. assert (H2 : TWO64 - n < TWO64) by (unfold TWO64, TWO63 in *; lia).
    destruct (dec_spec _ H2) as (P & _ & _). cbn [parse_i64]. rewrite P. f_equal.
    unfold TWO64, TWO63 in *. lia.
Qed.

Lemma i64_bits_roundtrip z : (- Z.of_N TWO63 <= z < Z.of_N TWO63)%Z ->
  bits_of_i64 z < TWO64 /\ i64_of_bits (bits_of_i64 z) = z.
Proof.
  intro H. unfold bits_of_i64, i64_of_bits. unfold TWO63, TWO64 in *.
  change (Z.of_N 18446744073709551616) with 18446744073709551616%Z in *.
  change (Z.of_N 9223372036854775808) with 9223372036854775808%Z in *.
  destruct (Z_lt_le_dec z 0) as [Hn|Hp].
  - assert (E : (z mod 18446744073709551616 = z + 18446744073709551616)%Z).
    { symmetry. apply (Z.mod_unique _ _ (-1)); lia. }
    rewrite E. split; [lia|]. destruct (N.ltb_spec (Z.to_N (z + 18446744073709551616)) 9223372036854775808); lia.
  - rewrite Z.mod_small by lia. split; [lia|].
    destruct (N.ltb_spec (Z.to_N z) 9223372036854775808); lia.
Qed.

(** decode . encode = id on the int64 range. *)
Lemma i64_text_roundtrip z : (- Z.of_N TWO63 <= z < Z.of_N TWO63)%Z ->
  parse_i64 (dec_i64 (bits_of_i64 z)) = Some z.
Proof. intro H. destruct (i64_bits_roundtrip z H) as [B E]. now rewrite parse_i64_dec, E. Qed.

(** * Tokens of an encoded set *)
Definition special (c : N) : bool := (c =? 61) || (c =? 44) || (c =? 92).

Lemma esc_cons c a : esc (c :: a) = (if special c then [92; c] else [c]) ++ esc a.
Proof. reflexivity. Qed.

Lemma tok_esc a rest : tok (esc a ++ rest) = map TChar a ++ tok rest.
Proof.
  induction a as [|c a IH]; [reflexivity|]. rewrite esc_cons. destruct (special c) eqn:E.
  - cbn [app tok map]. cbn [N.eqb Pos.eqb]. now rewrite IH.
  - unfold special in E. apply orb_false_iff in E as [E E3]. apply orb_false_iff in E as [E1 E2].
    cbn [app tok map]. now rewrite E3, E2, E1, IH.
Qed.

Definition ptok (c : N) : token := if c =? 44 then TComma else TChar c.

Lemma tok_plain t rest : plain_text t = true -> tok (t ++ rest) = map ptok t ++ tok rest.
Proof.
  induction t as [|c t IH]; [reflexivity|]. cbn [plain_text forallb]. intro H.
  apply andb_true_iff in H as [Hc Ht]. unfold plain_char in Hc. apply andb_true_iff in Hc as [H1 H2].
  apply negb_true_iff in H1, H2. cbn [app tok map]. rewrite H1. unfold ptok at 1.
  destruct (c =? 44); [now rewrite IH|]. now rewrite H2, IH.
Qed.

Lemma untok_tchar a : untok (map TChar a) = a.
Proof. unfold untok. rewrite map_map. cbn. apply map_id. Qed.

Lemma untok_ptok t : untok (map ptok t) = t.
Proof.
  unfold untok. rewrite map_map. rewrite <- (map_id t) at 2. apply map_ext. intro c.
  unfold ptok. destruct (c =? 44) eqn:E; [apply N.eqb_eq in E; now subst|reflexivity].
Qed.

Definition noeq (ts : list token) : bool := forallb (fun t => negb (is_eq t)) ts.
Definition nocomma (ts : list token) : bool := forallb (fun t => negb (is_comma t)) ts.

Lemma noeq_tchar a : noeq (map TChar a) = true.
Proof. induction a; cbn; auto. Qed.
Lemma nocomma_tchar a : nocomma (map TChar a) = true.
Proof. induction a; cbn; auto. Qed.
Lemma noeq_ptok t : noeq (map ptok t) = true.
Proof. induction t as [|c t IH]; cbn; auto. unfold ptok at 1. destruct (c =? 44); cbn; auto. Qed.

(** ** The printed texts are plain *)
Lemma plain_text_app a b : plain_text (a ++ b) = plain_text a && plain_text b.
Proof. apply forallb_app. Qed.

Lemma plain_join sep l : plain_text sep = true -> forallb plain_text l = true -> plain_text (join sep l) = true.
Proof.
  intros Hs. induction l as [|x r IH]; [reflexivity|]. cbn [forallb]. intro H.
  apply andb_true_iff in H as [Hx Hr]. destruct r as [|y r']; [exact Hx|].
  change (join sep (x :: y :: r')) with (x ++ sep ++ join sep (y :: r')).
  now rewrite !plain_text_app, Hx, Hs, IH.
Qed.

Lemma digit_plain c : is_digit c = true -> plain_char c = true.
Proof.
  unfold is_digit, plain_char. intro H. apply andb_true_iff in H as [H1 H2]. apply N.leb_le in H1, H2.
  apply andb_true_iff. split; apply negb_true_iff, N.eqb_neq; lia.
Qed.

Lemma dec_digits_digits f : forall n acc, forallb is_digit acc = true -> forallb is_digit (dec_digits f n acc) = true.
Proof.
  induction f as [|f IH]; intros n acc H; [exact H|]. cbn [dec_digits].
  assert (Hm : n mod 10 < 10) by (apply N.mod_lt; lia). destruct (is_digit_small _ Hm) as [D _].
  assert (H' : forallb is_digit ((48 + n mod 10) :: acc) = true) by (cbn [forallb]; now rewrite D).
  destruct (n <? 10); auto.
Qed.

Lemma dec_i64_plain n : plain_text (dec_i64 n) = true.
Proof.
  assert (P : forall m, plain_text (dec m) = true).
  { intro m. unfold plain_text. apply forallb_forall. intros c Hc.
    pose proof (dec_digits_digits 25 m [] eq_refl) as D. eapply forallb_forall in D; eauto. now apply digit_plain. }
  unfold dec_i64. destruct (n <? TWO63); [apply P|]. change (plain_text (45 :: dec (TWO64 - n))) with (plain_char 45 && plain_text (dec (TWO64 - n))). now rewrite (P (TWO64 - n)).
Qed.

Lemma text_bool_plain b : plain_text (text_bool b) = true.
Proof. destruct b; reflexivity. Qed.

Lemma forallb_map {A B} (f : A -> B) (p : B -> bool) l : forallb p (map f l) = forallb (fun x => p (f x)) l.
Proof. induction l; cbn; congruence. Qed.

Lemma text_bools_plain l : plain_text (text_bools l) = true.
Proof.
  unfold text_bools. rewrite !plain_text_app. rewrite plain_join; [reflexivity|reflexivity|].
  rewrite forallb_map. apply forallb_forall. intros b _. apply text_bool_plain.
Qed.

Lemma text_ints_plain l : plain_text (text_ints l) = true.
Proof.
  unfold text_ints. rewrite !plain_text_app. rewrite plain_join; [reflexivity|reflexivity|].
  rewrite forallb_map. apply forallb_forall. intros n _. apply dec_i64_plain.
Qed.

Lemma json_plain_char c : json_plain c = true ->
  json_esc c = [c] /\ plain_char c = true /\ (c <? 128) = true.
Proof.
  unfold json_plain. intro H. apply andb_true_iff in H as [H H3]. apply andb_true_iff in H as [H1 H2].
  apply N.leb_le in H1, H2. apply negb_true_iff in H3.
  repeat (apply orb_false_iff in H3 as [H3 ?]).
  repeat match goal with E : (_ =? _) = false |- _ => apply N.eqb_neq in E end.
  assert (E8 : (c =? 8) = false) by (apply N.eqb_neq; lia).
  assert (E12 : (c =? 12) = false) by (apply N.eqb_neq; lia).
  assert (E10 : (c =? 10) = false) by (apply N.eqb_neq; lia).
  assert (E13 : (c =? 13) = false) by (apply N.eqb_neq; lia).
  assert (E9 : (c =? 9) = false) by (apply N.eqb_neq; lia).
  assert (E34 : (c =? 34) = false) by (apply N.eqb_neq; lia).
  assert (E92 : (c =? 92) = false) by (apply N.eqb_neq; lia).
  assert (E60 : (c =? 60) = false) by (apply N.eqb_neq; lia).
  assert (E62 : (c =? 62) = false) by (apply N.eqb_neq; lia).
  assert (E38 : (c =? 38) = false) by (apply N.eqb_neq; lia).
  assert (E61 : (c =? 61) = false) by (apply N.eqb_neq; lia).
  assert (L32 : (c <? 32) = false) by (apply N.ltb_ge; lia).
  unfold json_esc, plain_char. rewrite E34, E92, E8, E12, E10, E13, E9, L32, E60, E62, E38, E61.
  repeat split. apply N.ltb_lt. lia.
Qed.

Lemma json_string_plain s : forallb json_plain s = true ->
  json_string s = [34] ++ s ++ [34] /\ plain_text (json_string s) = true /\ forallb (fun c => c <? 128) s = true.
Proof.
  intro H. assert (E : flat_map json_esc s = s /\ plain_text s = true /\ forallb (fun c => c <? 128) s = true).
  { induction s as [|c s IH]; [repeat split|]. cbn [forallb] in H. apply andb_true_iff in H as [Hc Hs].
    destruct (json_plain_char c Hc) as (J1 & J2 & J3). destruct (IH Hs) as (I1 & I2 & I3).
    cbn [flat_map plain_text forallb]. rewrite J1, I1, J2, J3. cbn [app]. repeat split; auto. }
  destruct E as (E1 & E2 & E3). unfold json_string. rewrite E1. repeat split; auto.
  rewrite !plain_text_app, E2. reflexivity.
Qed.

Lemma text_strs_plain l : forallb (forallb json_plain) l = true ->
  plain_text (text_strs l) = true /\ forallb (forallb (fun c => c <? 128)) l = true.
Proof.
  intro H. split.
  - unfold text_strs. rewrite !plain_text_app. rewrite plain_join; [reflexivity|reflexivity|].
    rewrite forallb_map. apply forallb_forall. intros s Hs. eapply forallb_forall in H; eauto.
    now destruct (json_string_plain s H) as (_ & P & _).
  - apply forallb_forall. intros s Hs. eapply forallb_forall in H; eauto.
    now destruct (json_string_plain s H) as (_ & _ & P).
Qed.

(** Tokens of the value part of an item. *)
Definition btoks (emit : value -> bytes) (v : value) : list token :=
  match v with
  | VStr s => map TChar s
  | v => match print_value_f emit v with Some t => map ptok t | None => [] end
  end.

Definition body_of (emit : value -> bytes) (v : value) : bytes :=
  match v with
  | VStr s => esc s
  | v => match emit_simple v with Some t => t | None => emit v end
  end.

Lemma noeq_btoks emit v : noeq (btoks emit v) = true.
Proof. destruct v; cbn [btoks]; try apply noeq_tchar; try (destruct (print_value_f _ _); [apply noeq_ptok|reflexivity]). Qed.

Lemma body_tok emit v t rest : print_value_f emit v = Some t ->
  tok (body_of emit v ++ rest) = btoks emit v ++ tok rest /\ untok (btoks emit v) = t.
Proof.
  intro H. destruct v; cbn [print_value_f] in H.
  - inversion H; subst. cbn [body_of emit_simple btoks print_value_f]. split; [now apply tok_plain|apply untok_ptok].
  - inversion H; subst. cbn [body_of emit_simple btoks print_value_f]. split; [apply tok_plain, text_bool_plain|apply untok_ptok].
  - inversion H; subst. cbn [body_of emit_simple btoks print_value_f]. split; [apply tok_plain, dec_i64_plain|apply untok_ptok].
  - destruct (plain_text (emit (VFloat bits))) eqn:E; [|discriminate]. inversion H; subst.
    cbn [body_of emit_simple btoks print_value_f]. rewrite E. split; [now apply tok_plain|apply untok_ptok].
  - inversion H; subst. cbn [body_of btoks]. split; [apply tok_esc|apply untok_tchar].
  - inversion H; subst. cbn [body_of emit_simple btoks print_value_f]. split; [apply tok_plain, text_bools_plain|apply untok_ptok].
  - inversion H; subst. cbn [body_of emit_simple btoks print_value_f]. split; [apply tok_plain, text_ints_plain|apply untok_ptok].
  - destruct (plain_text (emit (VFloats l))) eqn:E; [|discriminate]. inversion H; subst.
    cbn [body_of emit_simple btoks print_value_f]. rewrite E. split; [now apply tok_plain|apply untok_ptok].
  - destruct (forallb (forallb json_plain) l) eqn:E; [|discriminate]. inversion H; subst.
    destruct (text_strs_plain l E) as [P A]. cbn [body_of emit_simple btoks print_value_f]. rewrite E, A.
    split; [now apply tok_plain|apply untok_ptok].
Qed.

(** ** Token-level structure of an encoded set and its parsing *)
Definition tpair : Type := (list token * list token)%type.

Fixpoint tail_toks (B : list token) (rest : list tpair) : list token :=
  match rest with
  | [] => B
  | (K', B') :: r => B ++ TComma :: K' ++ TEq :: tail_toks B' r
  end.

Fixpoint chunks_of (B : list token) (rest : list tpair) : list (list token) :=
  match rest with
  | [] => [B]
  | (K', B') :: r => (B ++ TComma :: K') :: chunks_of B' r
  end.

Definition tp_ok (p : tpair) : bool := noeq (fst p) && noeq (snd p) && nocomma (fst p).

Lemma split_eq_noeq A : noeq A = true -> split_eq A = [A].
Proof.
  induction A as [|t A IH]; [reflexivity|]. cbn [noeq forallb]. intro H.
  apply andb_true_iff in H as [H1 H2]. apply negb_true_iff in H1. cbn [split_eq]. rewrite H1.
  now rewrite (IH H2).
Qed.

Lemma split_eq_app A X : noeq A = true -> split_eq (A ++ TEq :: X) = A :: split_eq X.
Proof.
  induction A as [|t A IH]; [reflexivity|]. cbn [noeq forallb]. intro H.
  apply andb_true_iff in H as [H1 H2]. apply negb_true_iff in H1. cbn [app split_eq]. rewrite H1.
  now rewrite (IH H2).
Qed.

Lemma noeq_app a b : noeq (a ++ b) = noeq a && noeq b.
Proof. apply forallb_app. Qed.

Lemma split_tail B rest : noeq B = true -> forallb tp_ok rest = true ->
  split_eq (tail_toks B rest) = chunks_of B rest.
Proof.
  revert B. induction rest as [|[K' B'] r IH]; intros B HB Hr; cbn [tail_toks chunks_of].
  - now apply split_eq_noeq.
  - cbn [forallb] in Hr. apply andb_true_iff in Hr as [Hp Hr]. unfold tp_ok in Hp. cbn [fst snd] in Hp.
    apply andb_true_iff in Hp as [Hp H3]. apply andb_true_iff in Hp as [H1 H2].
    change (B ++ TComma :: K' ++ TEq :: tail_toks B' r) with (B ++ (TComma :: K') ++ TEq :: tail_toks B' r).
    rewrite app_assoc. rewrite split_eq_app; [now rewrite IH|].
    rewrite noeq_app, HB. cbn [noeq forallb is_eq negb andb]. exact H1.
Qed.

Lemma cut_first_comma_app A Y : nocomma A = true -> cut_first_comma (A ++ TComma :: Y) = Some (A, Y).
Proof.
  induction A as [|t A IH]; [reflexivity|]. cbn [nocomma forallb]. intro H.
  apply andb_true_iff in H as [H1 H2]. apply negb_true_iff in H1. cbn [app cut_first_comma]. rewrite H1.
  now rewrite (IH H2).
Qed.

Lemma nocomma_rev K : nocomma K = true -> nocomma (rev K) = true.
Proof.
  intro H. apply forallb_forall. intros t Ht. apply in_rev in Ht. eapply forallb_forall in H; eauto.
Qed.

Lemma cut_last_comma_app B K : nocomma K = true -> cut_last_comma (B ++ TComma :: K) = Some (B, K).
Proof.
  intro H. unfold cut_last_comma. rewrite rev_app_distr. cbn [rev]. rewrite <- app_assoc. cbn [app].
  rewrite cut_first_comma_app by now apply nocomma_rev. now rewrite !rev_involutive.
Qed.

Lemma chunks_of_cons B rest : exists c more, chunks_of B rest = c :: more.
Proof. destruct rest as [|[K' B'] r]; cbn; eauto. Qed.

Lemma dec_chunks_ok rest : forall K B, forallb tp_ok rest = true ->
  dec_chunks K (chunks_of B rest) = Some ((K, B) :: rest).
Proof.
  induction rest as [|[K' B'] r IH]; intros K B Hr; [reflexivity|].
  cbn [forallb] in Hr. apply andb_true_iff in Hr as [Hp Hr]. unfold tp_ok in Hp. cbn [fst snd] in Hp.
  apply andb_true_iff in Hp as [_ H3].
  cbn [chunks_of dec_chunks]. destruct (chunks_of_cons B' r) as (c & more & E). rewrite E, <- E.
  now rewrite cut_last_comma_app, IH.
Qed.

Definition tpairs (emit : value -> bytes) (s : list kv) : list tpair := map (fun x => (map TChar (fst x), btoks emit (snd x))) s.

Lemma tpairs_ok emit s : forallb tp_ok (tpairs emit s) = true.
Proof.
  induction s as [|x s IH]; [reflexivity|]. cbn [tpairs map forallb]. unfold tp_ok at 1. cbn [fst snd].
  rewrite noeq_tchar, noeq_btoks, nocomma_tchar. exact IH.
Qed.

Lemma join_cons sep x r : join sep (x :: r) = x ++ match r with [] => [] | _ :: _ => sep ++ join sep r end.
Proof. destruct r; cbn [join]; [now rewrite app_nil_r|reflexivity]. Qed.

Lemma printed_cons emit x s l : printed_f emit (x :: s) = Some l ->
  exists t l', print_value_f emit (snd x) = Some t /\ printed_f emit s = Some l' /\ l = (fst x, t) :: l'.
Proof.
  unfold printed_f. cbn [map all_some]. unfold printed_binding_f at 1.
  destruct (print_value_f emit (snd x)) as [t|]; [|discriminate].
  destruct (all_some (map (printed_binding_f emit) s)) as [l'|]; [|discriminate]. intro H. inversion H. eauto.
Qed.

Lemma encode_kv_body emit x : encode_kv emit x = esc (fst x) ++ 61 :: body_of emit (snd x).
Proof. destruct x as [k v]. destruct v; reflexivity. Qed.

Lemma encode_cons emit x s :
  encode emit (x :: s) = encode_kv emit x ++ match s with [] => [] | _ :: _ => 44 :: encode emit s end.
Proof. unfold encode. cbn [map]. rewrite join_cons. destruct s; reflexivity. Qed.

Lemma tok_item emit x t rest : print_value_f emit (snd x) = Some t ->
  tok (encode_kv emit x ++ rest) = map TChar (fst x) ++ TEq :: btoks emit (snd x) ++ tok rest.
Proof.
  intro Hv. rewrite encode_kv_body, <- app_assoc, tok_esc. f_equal.
  change ((61 :: body_of emit (snd x)) ++ rest) with (61 :: (body_of emit (snd x) ++ rest)).
  change (tok (61 :: (body_of emit (snd x) ++ rest))) with (TEq :: tok (body_of emit (snd x) ++ rest)).
  f_equal. now destruct (body_tok emit _ _ rest Hv) as [-> _].
Qed.

Lemma tok_encode emit : forall s x l, printed_f emit (x :: s) = Some l ->
  tok (encode emit (x :: s)) = map TChar (fst x) ++ TEq :: tail_toks (btoks emit (snd x)) (tpairs emit s).
Proof.
  induction s as [|y s IH]; intros x l H; apply printed_cons in H as (t & l' & Hv & Hs & _); rewrite encode_cons.
  - rewrite (tok_item emit x t [] Hv). cbn [tok tail_toks tpairs map]. now rewrite app_nil_r.
  - rewrite (tok_item emit x t _ Hv). f_equal. f_equal.
    change (tok (44 :: encode emit (y :: s))) with (TComma :: tok (encode emit (y :: s))).
    rewrite (IH y l' Hs). reflexivity.
Qed.

Lemma untok_tpairs emit s : forall l, printed_f emit s = Some l ->
  map (fun p => (untok (fst p), untok (snd p))) (tpairs emit s) = l.
Proof.
  induction s as [|x s IH]; intros l H.
  - cbn in H. inversion H. reflexivity.
  - apply printed_cons in H as (t & l' & Hv & Hs & ->). unfold tpairs. cbn [map fst snd]. fold (tpairs emit s).
    rewrite untok_tchar. destruct (body_tok emit _ _ [] Hv) as [_ E]. f_equal; [f_equal; exact E | exact (IH l' Hs)].
Qed.

Lemma encode_nonnil emit x s : encode emit (x :: s) <> [].
Proof.
  unfold encode. cbn [map]. rewrite join_cons. unfold encode_kv at 1. destruct (esc (fst x)); discriminate.
Qed.

Lemma strpair_eqb_eq a b : strpair_eqb a b = true <-> a = b.
Proof.
  unfold strpair_eqb. rewrite andb_true_iff, !bytes_eqb_eq. destruct a, b; cbn.
  split; [intros [-> ->]; auto | intro H; inversion H; auto].
Qed.

(** For all eight value types: the encoding decodes to the printed mapping, given only that the float
    texts the encoder was handed hold no backslash and no '='. *)
Lemma encode_decodable_f emit s : EncodingSpecF emit s (encode emit s).
Proof.
  intros l H. destruct s as [|x s].
  - cbn in H. inversion H. reflexivity.
  - unfold decode_enc. destruct (encode emit (x :: s)) eqn:E; [now apply encode_nonnil in E|]. rewrite <- E.
    rewrite (tok_encode emit s x l H).
    rewrite split_eq_app by apply noeq_tchar.
    rewrite split_tail by (try apply noeq_btoks; apply tpairs_ok).
    rewrite dec_chunks_ok by apply tpairs_ok.
    f_equal. exact (untok_tpairs emit (x :: s) l H).
Qed.

(** A set without floats prints the same whatever the float texts. *)
Lemma printed_no_float emit s : forall l, printed s = Some l -> printed_f emit s = Some l.
Proof.
  unfold printed, printed_f. induction s as [|[k v] s IH]; intros l H; [exact H|]. cbn [map all_some] in *.
  unfold printed_binding_f in H at 1. unfold printed_binding_f at 1. cbn [fst snd] in *.
  assert (E : forall t, print_value_f no_float v = Some t -> print_value_f emit v = Some t).
  { intros t Ht. destruct v; cbn [print_value_f] in *; try exact Ht; cbn in Ht; discriminate. }
  destruct (print_value_f no_float v) as [t|]; [|discriminate]. rewrite (E t eq_refl).
  destruct (all_some (map (printed_binding_f no_float) s)) as [l'|]; [|discriminate].
  now rewrite (IH l' eq_refl).
Qed.

Lemma encode_decodable emit s : EncodingSpec s (encode emit s).
Proof. intros l H. apply encode_decodable_f. now apply printed_no_float. Qed.

(** Same encoding, same printed mapping. *)
Lemma encode_injective_printed_f emit1 emit2 s1 s2 l1 l2 :
  printed_f emit1 s1 = Some l1 -> printed_f emit2 s2 = Some l2 -> encode emit1 s1 = encode emit2 s2 -> l1 = l2.
Proof.
  intros H1 H2 E. pose proof (encode_decodable_f emit1 s1 l1 H1) as D1.
  pose proof (encode_decodable_f emit2 s2 l2 H2) as D2. rewrite E in D1. congruence.
Qed.

Lemma encode_injective_printed emit1 emit2 s1 s2 l1 l2 :
  printed s1 = Some l1 -> printed s2 = Some l2 -> encode emit1 s1 = encode emit2 s2 -> l1 = l2.
Proof. intros H1 H2. apply encode_injective_printed_f; now apply printed_no_float. Qed.

Lemma encoding_ok_f_sound emit s enc : encoding_ok_f emit s enc = true -> EncodingSpecF emit s enc.
Proof.
  unfold encoding_ok_f, EncodingSpecF. intros H l Hl. rewrite Hl in H.
  destruct (decode_enc enc) as [d|]; [|discriminate]. cbn in H.
  apply (list_eqb_eq _ strpair_eqb_eq) in H. now subst.
Qed.


Lemma encoding_ok_sound s enc : encoding_ok s enc = true -> EncodingSpec s enc.
Proof.
  unfold encoding_ok, EncodingSpec. intros H l Hl. rewrite Hl in H.
  destruct (decode_enc enc) as [d|]; [|discriminate]. cbn in H.
  apply (list_eqb_eq _ strpair_eqb_eq) in H. now subst.
Qed.

(** A set whose values are all strings is inside the specification and prints as itself. *)
Definition string_binding (x : kv) : option (bytes * bytes) :=
  match snd x with VStr s => Some (fst x, s) | _ => None end.
Lemma printed_strings s : forall l, all_some (map string_binding s) = Some l -> printed s = Some l.
Proof.
  unfold printed, printed_f. induction s as [|[k v] s IH]; intros l H; [exact H|]. cbn [map all_some] in *.
  unfold string_binding in H at 1. cbn [fst snd] in H. destruct v; try discriminate.
  unfold printed_binding_f at 1. cbn [fst snd print_value_f].
  destruct (all_some (map string_binding s)) as [l'|]; [|discriminate]. now rewrite (IH l' eq_refl).
Qed.

(** * Iterators: every call sequence *)
Lemma kv_eqb_refl x : kv_eqb x x = true.
Proof. now apply kv_eqb_eq. Qed.
Lemma kvs_eqb_refl l : kvs_eqb l l = true.
Proof. now apply kvs_eqb_eq. Qed.

Lemma iter_run_ok ops : forall it p d,
  (d = true -> it_idx it = (Z.of_nat p - 1)%Z) ->
  iter_ok (it_set it) p d ops (iter_run it ops) = true.
Proof.
  induction ops as [|op ops IH]; intros it p d Hd; [reflexivity|].
  destruct op; cbn [iter_run iter_step iter_ok it_set it_idx].
  - (* Next *)
    apply andb_true_iff. split.
    + destruct d; [|reflexivity]. rewrite (Hd eq_refl). apply Bool.eqb_true_iff.
      destruct (Nat.leb_spec (S p) (length (it_set it))); [apply Z.ltb_lt | apply Z.ltb_ge]; lia.
    + apply (IH {| it_set := it_set it; it_idx := (it_idx it + 1)%Z |} (S p) d).
      intro E. cbn [it_idx]. rewrite (Hd E). lia.
  - (* Attribute *)
    apply andb_true_iff. split; [|now apply IH].
    destruct (d && Nat.leb 1 p && Nat.leb p (length (it_set it))) eqn:E; [|reflexivity].
    apply andb_true_iff in E as [E E3]. apply andb_true_iff in E as [E1 E2]. apply Nat.leb_le in E2, E3.
    unfold iter_attr. rewrite (Hd E1). destruct (Z.ltb_spec (Z.of_nat p - 1) 0); [lia|].
    replace (Z.to_nat (Z.of_nat p - 1)) with (p - 1)%nat by lia. apply kv_eqb_refl.
  - (* IndexedAttribute *)
    apply andb_true_iff. split; [|now apply IH].
    destruct (d && Nat.leb 1 p && Nat.leb p (length (it_set it))) eqn:E; [|reflexivity].
    apply andb_true_iff in E as [E E3]. apply andb_true_iff in E as [E1 E2]. apply Nat.leb_le in E2, E3.
    unfold iter_attr. rewrite (Hd E1). rewrite Z.eqb_refl. cbn [andb].
    destruct (Z.ltb_spec (Z.of_nat p - 1) 0); [lia|].
    replace (Z.to_nat (Z.of_nat p - 1)) with (p - 1)%nat by lia. apply kv_eqb_refl.
  - (* Len *)
    rewrite N.eqb_refl. cbn [andb]. now apply IH.
  - (* ToSlice *)
    rewrite kvs_eqb_refl. cbn [andb].
    apply (IH {| it_set := it_set it; it_idx := _ |} p false). discriminate.
Qed.

(** Any call sequence on a fresh iterator of any set satisfies the iterator clause. *)
Lemma iter_fresh_ok s ops : iter_ok s 0 true ops (iter_run (iter_new s) ops) = true.
Proof. apply (iter_run_ok ops (iter_new s) 0%nat true). reflexivity. Qed.

(** ToSlice returns the whole set whatever was called before, and Len never changes. *)
Lemma iter_run_slices ops : forall it,
  (forall l, In (OSlice l) (iter_run it ops) -> l = it_set it) /\
  (forall n, In (OLen n) (iter_run it ops) -> n = N.of_nat (length (it_set it))).
Proof.
  induction ops as [|op ops IH]; intro it; [split; intros ? []|].
  cbn [iter_run]. destruct (iter_step it op) as [it' o] eqn:E.
  assert (S : it_set it' = it_set it) by (destruct op; cbn in E; inversion E; reflexivity).
  destruct (IH it') as [I1 I2]. rewrite S in I1, I2. split.
  - intros l [H|H]; [|auto]. destruct op; cbn in E; inversion E as [[E1 E2]]; rewrite <- E2 in H; inversion H; reflexivity.
  - intros n [H|H]; [|auto]. destruct op; cbn in E; inversion E as [[E1 E2]]; rewrite <- E2 in H; inversion H; reflexivity.
Qed.

(** The plain walk: Next, Attribute, Next, Attribute ... yields every element once, in order, then false. *)
Fixpoint walk_obs (l : list kv) : list iobs :=
  match l with [] => [ONext false] | x :: r => ONext true :: OAttr x :: walk_obs r end.
Fixpoint walk_ops (n : nat) : list iop :=
  match n with O => [INext] | S m => INext :: IAttr :: walk_ops m end.

Lemma iter_walk_from pre rest : forall it,
  it_set it = pre ++ rest -> it_idx it = (Z.of_nat (length pre) - 1)%Z ->
  iter_run it (walk_ops (length rest)) = walk_obs rest.
Proof.
  revert pre. induction rest as [|x rest IH]; intros pre it Hs Hi; cbn [length walk_ops walk_obs iter_run iter_step].
  - f_equal. f_equal. rewrite Hs, Hi, app_nil_r. apply Z.ltb_ge. lia.
  - assert (L : ((it_idx it + 1 <? Z.of_nat (length (it_set it)))%Z) = true).
    { apply Z.ltb_lt. rewrite Hs, Hi, app_length. cbn [length]. lia. }
    rewrite L. f_equal. f_equal.
    + f_equal. unfold iter_attr. cbn [it_idx it_set]. rewrite Hi.
      destruct (Z.ltb_spec (Z.of_nat (length pre) - 1 + 1) 0); [lia|].
      replace (Z.to_nat (Z.of_nat (length pre) - 1 + 1)) with (length pre) by lia.
      rewrite Hs, app_nth2 by lia. now rewrite Nat.sub_diag.
    + apply (IH (pre ++ [x])).
      * cbn [it_set]. now rewrite Hs, <- app_assoc.
      * cbn [it_idx]. rewrite Hi, app_length. cbn [length]. lia.
Qed.

Lemma iter_walk s : iter_run (iter_new s) (walk_ops (length s)) = walk_obs s.
Proof. apply (iter_walk_from [] s); reflexivity. Qed.

(** MergeIterator: any sequence of Next / Attribute calls walks the merged sequence. *)
Definition mi_op (op : iop) : bool := match op with INext | IAttr => true | _ => false end.

Lemma skipn_cons_nth {A} (c : list A) : forall p x r d, skipn p c = x :: r ->
  nth p c d = x /\ skipn (S p) c = r /\ (p < length c)%nat.
Proof.
  induction c as [|y c IH]; intros p x r d H; [destruct p; discriminate|].
  destruct p as [|p]; cbn in H.
  - inversion H; subst. repeat split; cbn; lia.
  - destruct (IH p x r d H) as (H1 & H2 & H3). repeat split; auto. cbn. lia.
Qed.

Lemma skipn_nil_len {A} (c : list A) : forall p, skipn p c = [] -> (length c <= p)%nat.
Proof.
  induction c as [|y c IH]; intros p H; [cbn; lia|]. destruct p as [|p]; [discriminate|].
  cbn in *. apply IH in H. lia.
Qed.

Lemma miter_run_ok c ops : forallb mi_op ops = true -> forall m p,
  mi_rest m = skipn p c ->
  ((1 <= p)%nat -> (p <= length c)%nat -> mi_cur m = nth (p - 1) c zero_kv) ->
  iter_ok c p true ops (miter_run m ops) = true.
Proof.
  induction ops as [|op ops IH]; intros Ho m p Hr Hc; [reflexivity|].
  cbn [forallb] in Ho. apply andb_true_iff in Ho as [Hop Ho].
  destruct op; try discriminate; cbn [miter_run miter_step].
  - destruct (mi_rest m) as [|x r] eqn:E.
    + cbn [iter_ok]. symmetry in Hr. apply skipn_nil_len in Hr.
      destruct (Nat.leb_spec (S p) (length c)); [lia|]. cbn [Bool.eqb andb].
      apply IH; auto.
      * rewrite E. symmetry. apply skipn_all2. lia.
      * intros. lia.
    + cbn [iter_ok]. symmetry in Hr. destruct (skipn_cons_nth c p x r zero_kv Hr) as (N1 & N2 & N3).
      destruct (Nat.leb_spec (S p) (length c)); [|lia]. cbn [Bool.eqb andb].
      apply IH; auto. intros _ _. cbn [mi_cur]. replace (S p - 1)%nat with p by lia. now rewrite N1.
  - cbn [iter_ok andb].
    apply andb_true_iff. split; [|now apply IH].
    destruct (Nat.leb 1 p && Nat.leb p (length c)) eqn:E; cbn [andb]; [|reflexivity].
    apply andb_true_iff in E as [E1 E2]. apply Nat.leb_le in E1, E2. rewrite (Hc E1 E2). apply kv_eqb_refl.
Qed.

Lemma miter_fresh_ok a b ops : forallb mi_op ops = true ->
  iter_ok (merge_iter a b) 0 true ops (miter_run (miter_new a b) ops) = true.
Proof. intro H. apply miter_run_ok; auto. intros. lia. Qed.
