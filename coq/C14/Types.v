(** C14 vocabulary shared by model and specification (neither of them): what a
    collector response amounts to for the retry loop, how an export ends. *)
From Verif Require Import Lib.Base.
Open Scope Z_scope.

(** The three things one attempt can come back with.  A throttle of 0 means "no hint". *)
Inductive outcome :=
| OSuccess (partial : bool)      (* delivered; [partial]: the response carried a partial-success message *)
| ORetry (throttle : Z)          (* retry-able failure, with the server-supplied delay as the client reads it *)
| OFinal.                        (* any other failure *)

Inductive reason := EFinal | EMaxElapsed | EMaxWouldElapse | ECtx.
Inductive result := ROk | RErr (e : reason) | RPending.   (* RPending: the script ended while the loop was still running *)

Record run_out := { attempts : nat; waits : list Z; handled : nat; res : result }.

Definition is_retry (o : outcome) : bool := match o with ORetry _ => true | _ => false end.
Definition throttle_of (o : outcome) : Z := match o with ORetry t => t | _ => 0 end.
Definition report (o : outcome) : result := match o with OSuccess _ => ROk | _ => RErr EFinal end.

Definition reason_eqb (a b : reason) : bool :=
  match a, b with
  | EFinal, EFinal | EMaxElapsed, EMaxElapsed | EMaxWouldElapse, EMaxWouldElapse | ECtx, ECtx => true
  | _, _ => false
  end.
Definition result_eqb (a b : result) : bool :=
  match a, b with
  | ROk, ROk | RPending, RPending => true
  | RErr x, RErr y => reason_eqb x y
  | _, _ => false
  end.

(** A wire response as the scripted collector sends it. *)
Inductive response :=
| RespHttp (status : N) (retry_after : option Z) (partial : bool)   (* Retry-After: integer seconds, when present and numeric *)
| RespGrpc (code : N) (retry_info : option Z) (partial : bool).     (* RetryInfo.retry_delay in nanoseconds, when attached *)

Definition NS_PER_S : Z := 1000000000.

(** The partial_success field of an OK / 2xx response. *)
Inductive partial_info := NoPartial | Partial (rejected : N) (has_message : bool).
