(** C14 lemmas. *)
From Verif Require Import Lib.Base C14.Types C14.Model C14.Spec.
Open Scope Z_scope.

(** * Classification tables *)
Ltac neqs :=
  repeat match goal with
         | |- context [(?a =? ?b)%N] => destruct (N.eqb_spec a b)
         | |- context [(?a <=? ?b)%N] => destruct (N.leb_spec a b)
         end; cbn; try reflexivity; try lia.

Lemma http_retry_iff s ra p : is_retry (classify_http s ra p) = mem s http_retryable_statuses.
Proof. unfold classify_http, mem, http_retryable_statuses. cbn [existsb]. neqs. Qed.

Lemma http_success_iff s ra p :
  (exists q, classify_http s ra p = OSuccess q) <-> http_success s = true.
Proof.
  unfold classify_http, http_success.
  destruct ((200 <=? s) && (s <=? 299))%N; split; intros H; try reflexivity; try discriminate.
  - now exists p.
  - destruct H as [q H].
    destruct ((s =? 429) || (s =? 502) || (s =? 503) || (s =? 504))%N; discriminate.
Qed.

Lemma http_throttle s ra p t :
  classify_http s ra p = ORetry t -> t = match ra with Some x => x | None => 0 end.
Proof.
  unfold classify_http. destruct ((200 <=? s) && (s <=? 299))%N; [discriminate|].
  destruct ((s =? 429) || (s =? 502) || (s =? 503) || (s =? 504))%N; [|discriminate].
  now intros [= <-].
Qed.

(** Finite sweep over every status a server can send (100..999), as a cross-check by computation. *)
Definition statuses : list N := map (fun k => N.of_nat k + 100)%N (seq 0 900).
Lemma http_sweep :
  forallb (fun s => Bool.eqb (is_retry (classify_http s None false)) (mem s http_retryable_statuses) &&
                    Bool.eqb (match classify_http s None false with OSuccess _ => true | _ => false end) (http_success s))
          statuses = true.
Proof. vm_compute. reflexivity. Qed.

Lemma grpc_retry_iff c ri p :
  is_retry (classify_grpc c ri p) =
  mem c grpc_retryable_codes || ((c =? GRPC_RESOURCE_EXHAUSTED)%N && match ri with Some _ => true | None => false end).
Proof.
  unfold classify_grpc, grpc_always_retryable, mem, grpc_retryable_codes, GRPC_RESOURCE_EXHAUSTED. cbn [existsb].
  destruct ri; neqs.
Qed.

Lemma grpc_success_iff c ri p : (exists q, classify_grpc c ri p = OSuccess q) <-> c = 0%N.
Proof.
  unfold classify_grpc. destruct (N.eqb_spec c 0); split; intros H; try assumption; try contradiction.
  - now exists p.
  - destruct H as [q H]. destruct (grpc_always_retryable c); [discriminate|].
    destruct (c =? 8)%N; [destruct ri|]; discriminate.
Qed.

Lemma grpc_throttle c ri p t :
  classify_grpc c ri p = ORetry t -> t = match ri with Some x => x | None => 0 end.
Proof.
  unfold classify_grpc. destruct (c =? 0)%N; [discriminate|].
  destruct (grpc_always_retryable c); [now intros [= <-]|].
  destruct (c =? 8)%N; [|discriminate]. destruct ri; [now intros [= <-] | discriminate].
Qed.

(** All 17 codes, with and without RetryInfo, by computation. *)
Lemma grpc_sweep :
  forallb (fun c =>
    Bool.eqb (is_retry (classify_grpc c None false)) (mem c grpc_retryable_codes) &&
    Bool.eqb (is_retry (classify_grpc c (Some 5) false)) (mem c grpc_retryable_codes || (c =? 8)%N))
    grpc_codes = true.
Proof. vm_compute. reflexivity. Qed.

Lemma classify_retry r : is_retry (classify r) = spec_retryable r.
Proof. destruct r; cbn [classify spec_retryable]; [apply http_retry_iff | apply grpc_retry_iff]. Qed.

(** * The retry loop *)
Section LoopProofs.
  Variables elapsed1 elapsed2 backoff : nat -> Z.
  Variable ctx_fires : nat -> Z -> bool.
  Variable cfg : config.

  Notation loop := (loop elapsed1 elapsed2 backoff ctx_fires cfg).
  Notation give_up := (give_up elapsed1 elapsed2 backoff ctx_fires (max_elapsed cfg)).

  (** One unfolding of the loop on a retry-able outcome, in terms of the specification's [give_up]. *)
  Lemma loop_retry k thr rest :
    loop k (ORetry thr :: rest) =
    match give_up k thr with
    | Some e => one 0 (RErr e)
    | None => let r := loop (S k) rest in
              {| attempts := S (attempts r); waits := Z.max thr (backoff k) :: waits r;
                 handled := handled r; res := res r |}
    end.
  Proof.
    cbn [Model.loop]. unfold Spec.give_up, limited.
    destruct (negb (max_elapsed cfg =? 0) && (elapsed1 k >? max_elapsed cfg)); [reflexivity|].
    destruct (negb (max_elapsed cfg =? 0) && (elapsed2 k + thr >? max_elapsed cfg)); [reflexivity|].
    destruct (ctx_fires k (Z.max thr (backoff k))); reflexivity.
  Qed.

  Lemma loop_one_wait k outs : One_wait_per_resend (loop k outs).
  Proof.
    unfold One_wait_per_resend. revert k; induction outs as [|o rest IH]; intros k Hp.
    - cbn in Hp. congruence.
    - destruct o as [p|thr|]; [cbn; split; lia | | cbn; split; lia].
      rewrite loop_retry in *. destruct (give_up k thr); [cbn; split; lia|]. cbn in *.
      destruct (IH (S k) Hp) as [H1 H2]. split; lia.
  Qed.

  Lemma loop_attempts_le k outs : (attempts (loop k outs) <= length outs)%nat.
  Proof.
    revert k; induction outs as [|o rest IH]; intros k; [cbn; lia|].
    destruct o as [p|thr|]; try (cbn; lia).
    rewrite loop_retry. destruct (give_up k thr); cbn; [lia|]. specialize (IH (S k)). lia.
  Qed.

  Lemma loop_resend_only k outs : Resend_only_after_retryable outs (loop k outs).
  Proof.
    unfold Resend_only_after_retryable. revert k; induction outs as [|o rest IH]; intros k i Hi.
    - cbn in Hi. lia.
    - destruct o as [p|thr|]; try (cbn in Hi; lia).
      rewrite loop_retry in Hi. destruct (give_up k thr); [cbn in Hi; lia|].
      destruct i as [|i]; [reflexivity|]. cbn [nth]. apply (IH (S k)). cbn in Hi. lia.
  Qed.

  Lemma loop_stops k outs : Stops_at_first_final outs (loop k outs).
  Proof.
    unfold Stops_at_first_final. revert k; induction outs as [|o rest IH]; intros k i Hi Hr.
    - cbn in Hi. lia.
    - destruct o as [p|thr|].
      + cbn in Hi. assert (i = 0)%nat by lia. subst. split; reflexivity.
      + rewrite loop_retry in *. destruct (give_up k thr).
        * cbn in Hi. assert (i = 0)%nat by lia. subst. discriminate.
        * destruct i as [|i]; [discriminate|]. cbn [nth] in *. cbn in Hi.
          destruct (IH (S k) i ltac:(lia) Hr) as [H1 H2]. cbn. split; [now rewrite H1 | exact H2].
      + cbn in Hi. assert (i = 0)%nat by lia. subst. split; reflexivity.
  Qed.

  Lemma loop_wait_ge k outs : Wait_ge_throttle outs (loop k outs).
  Proof.
    unfold Wait_ge_throttle. revert k; induction outs as [|o rest IH]; intros k i Hi.
    - cbn in Hi. lia.
    - destruct o as [p|thr|]; try (cbn in Hi; lia).
      rewrite loop_retry in *. destruct (give_up k thr); [cbn in Hi; lia|].
      destruct i as [|i]; cbn [nth waits throttle_of].
      + apply Z.le_max_l.
      + apply (IH (S k)). cbn in Hi. lia.
  Qed.

  (** Deadline clauses for the loop started at iteration k (oracle indices are shifted by k). *)
  Lemma loop_gives_up k outs j e :
    (j < attempts (loop k outs))%nat -> is_retry (nth j outs OFinal) = true ->
    give_up (k + j) (throttle_of (nth j outs OFinal)) = Some e ->
    attempts (loop k outs) = S j /\ res (loop k outs) = RErr e.
  Proof.
    revert k j; induction outs as [|o rest IH]; intros k j Hj Hr Hg.
    - cbn in Hj. lia.
    - destruct o as [p|thr|].
      + cbn in Hj. assert (j = 0)%nat by lia. subst. discriminate.
      + rewrite loop_retry in *. destruct j as [|j].
        * cbn [nth throttle_of] in Hg. rewrite Nat.add_0_r in Hg. rewrite Hg. split; reflexivity.
        * destruct (give_up k thr); [cbn in Hj; lia|]. cbn in Hj. cbn [nth] in *.
          replace (k + S j)%nat with (S k + j)%nat in Hg by lia.
          destruct (IH (S k) j ltac:(lia) Hr Hg) as [H1 H2]. cbn. split; [now rewrite H1 | exact H2].
      + cbn in Hj. assert (j = 0)%nat by lia. subst. discriminate.
  Qed.

  Lemma loop_gives_up_only k outs e :
    res (loop k outs) = RErr e -> e <> EFinal ->
    exists j, attempts (loop k outs) = S j /\ is_retry (nth j outs OFinal) = true /\
              give_up (k + j) (throttle_of (nth j outs OFinal)) = Some e.
  Proof.
    revert k; induction outs as [|o rest IH]; intros k He Hne.
    - discriminate.
    - destruct o as [p|thr|].
      + discriminate.
      + rewrite loop_retry in *. destruct (give_up k thr) as [e'|] eqn:G.
        * cbn in He. inversion He; subst. exists 0%nat. rewrite Nat.add_0_r. repeat split. exact G.
        * cbn in He. destruct (IH (S k) He Hne) as [j [H1 [H2 H3]]]. exists (S j). cbn.
          replace (k + S j)%nat with (S k + j)%nat by lia. rewrite H1. repeat split; assumption.
      + cbn in He. inversion He; subst. contradiction.
  Qed.

  Lemma loop_partial k outs : Partial_success_delivered outs (loop k outs).
  Proof.
    unfold Partial_success_delivered. revert k; induction outs as [|o rest IH]; intros k.
    - cbn. split; [intros i Hi; lia|]. split; [lia | discriminate].
    - destruct o as [p|thr|].
      + cbn. split; [|split].
        * intros i Hi Hn. assert (i = 0)%nat by lia. subst. cbn in Hn. inversion Hn. split; reflexivity.
        * destruct p; lia.
        * intros Hh. exists 0%nat. destruct p; [split; reflexivity | discriminate].
      + rewrite loop_retry. destruct (give_up k thr).
        * cbn. split; [|split; [lia | discriminate]].
          intros i Hi Hn. assert (i = 0)%nat by lia. subst. discriminate.
        * destruct (IH (S k)) as [H1 [H2 H3]]. cbn. split; [|split].
          -- intros i Hi Hn. destruct i as [|i]; [discriminate|]. cbn [nth] in Hn. apply (H1 i); [lia | assumption].
          -- exact H2.
          -- intros Hh. destruct (H3 Hh) as [i [Hi1 Hi2]]. exists (S i). split; [now rewrite Hi1 | exact Hi2].
      + cbn. split; [|split; [lia | discriminate]].
        intros i Hi Hn. assert (i = 0)%nat by lia. subst. discriminate.
  Qed.

  (** * The whole request function *)
  Notation run := (retry_run elapsed1 elapsed2 backoff ctx_fires cfg).

  Lemma run_enabled outs : enabled cfg = true -> run outs = loop 0 outs.
  Proof. unfold retry_run. now intros ->. Qed.

  Lemma run_disabled outs :
    enabled cfg = false ->
    (attempts (run outs) <= 1)%nat /\ waits (run outs) = [] /\
    (forall o rest, outs = o :: rest -> attempts (run outs) = 1%nat /\ res (run outs) = report o).
  Proof.
    unfold retry_run. intros ->. destruct outs as [|o rest]; cbn.
    - split; [lia|]. split; [reflexivity|]. intros o rest H. discriminate.
    - split; [lia|]. split; [reflexivity|]. intros o' rest' H. inversion H; subst. split; reflexivity.
  Qed.

  Lemma run_resend_only outs : Resend_only_after_retryable outs (run outs).
  Proof.
    unfold retry_run. destruct (enabled cfg); [apply loop_resend_only|].
    intros i Hi. destruct outs; cbn in Hi; lia.
  Qed.

  Lemma run_stops outs : Stops_at_first_final outs (run outs).
  Proof.
    unfold retry_run. destruct (enabled cfg) eqn:E; [apply loop_stops|].
    intros i Hi Hr. destruct outs as [|o rest]; cbn in Hi; [lia|].
    assert (i = 0)%nat by lia. subst. split; reflexivity.
  Qed.

  Lemma run_wait_ge outs : Wait_ge_throttle outs (run outs) /\ One_wait_per_resend (run outs).
  Proof.
    unfold retry_run. destruct (enabled cfg); [split; [apply loop_wait_ge | apply loop_one_wait]|].
    destruct outs as [|o rest]; split; try (intros i Hi; cbn in Hi; lia); intros Hp; cbn in *; try congruence.
    split; lia.
  Qed.

  Lemma run_gives_up outs :
    enabled cfg = true ->
    Gives_up elapsed1 elapsed2 backoff ctx_fires (max_elapsed cfg) outs (run outs) /\
    Gives_up_only_then elapsed1 elapsed2 backoff ctx_fires (max_elapsed cfg) outs (run outs).
  Proof.
    intros E. rewrite (run_enabled _ E). split.
    - intros k e Hk Hr Hg. apply (loop_gives_up 0 outs k e Hk Hr Hg).
    - intros e He Hne. apply (loop_gives_up_only 0 outs e He Hne).
  Qed.

  Lemma run_partial outs : Partial_success_delivered outs (run outs).
  Proof.
    unfold retry_run. destruct (enabled cfg); [apply loop_partial|].
    unfold Partial_success_delivered. destruct outs as [|o rest]; cbn.
    - split; [intros i Hi; lia|]. split; [lia | discriminate].
    - split; [|split].
      + intros i Hi Hn. assert (i = 0)%nat by lia. subst. cbn in Hn. subst. split; reflexivity.
      + destruct o as [[|]| |]; lia.
      + intros Hh. exists 0%nat. split; [reflexivity|]. destruct o as [[|]| |]; try discriminate. reflexivity.
  Qed.
End LoopProofs.

(** * The throttle is honoured in the unit the CLIENT reads; for HTTP that is not the server's unit *)
Lemma grpc_wait_ge_hint c ri p t :
  classify_grpc c ri p = ORetry t -> t = hint_ns (RespGrpc c ri p).
Proof.
  intros H. pose proof (grpc_retry_iff c ri p) as Hr. rewrite H in Hr. cbn [is_retry] in Hr.
  unfold hint_ns. cbn [spec_retryable]. rewrite <- Hr. apply grpc_throttle in H. subst. now destruct ri.
Qed.

Lemma grpc_throttle_hint c ri p : throttle_of (classify_grpc c ri p) = hint_ns (RespGrpc c ri p).
Proof.
  pose proof (grpc_retry_iff c ri p) as Hr. unfold hint_ns. cbn [spec_retryable]. rewrite <- Hr.
  destruct (classify_grpc c ri p) eqn:C; cbn [is_retry throttle_of]; try reflexivity.
  apply grpc_throttle in C. subst. now destruct ri.
Qed.

Lemma nth_map_classify script i d :
  (i < length script)%nat -> nth i (map classify script) OFinal = classify (nth i script d).
Proof.
  intros H. rewrite (nth_indep _ OFinal (classify d)) by (rewrite map_length; exact H). apply map_nth.
Qed.

(** Witness of F-C14-1: "503, Retry-After: 2" then success, back-off oracle 1 ms, no deadline, context never
    done: the export waits 1 000 000 ns although the server asked for 2 000 000 000 ns. *)
Definition f_c14_1_script : list response := [RespHttp 503 (Some 2) false; RespHttp 200 None false].
Lemma http_wait_lt_hint_witness :
  let o := retry_run (fun _ => 0) (fun _ => 0) (fun _ => 1000000) (fun _ _ => false)
                     {| enabled := true; max_elapsed := 0 |} (map classify f_c14_1_script) in
  attempts o = 2%nat /\ res o = ROk /\ waits o = [1000000] /\
  nth 0 (waits o) 0 < hint_ns (nth 0 f_c14_1_script (RespHttp 0 None false)).
Proof. vm_compute. repeat split; reflexivity. Qed.

Lemma http_sweep_lifted :
  forall s, In s statuses ->
    is_retry (classify_http s None false) = mem s http_retryable_statuses /\
    (match classify_http s None false with OSuccess _ => true | _ => false end) = http_success s.
Proof.
  intros s Hs. pose proof http_sweep as H. rewrite forallb_forall in H. specialize (H s Hs).
  apply andb_true_iff in H as [H1 H2]. apply Bool.eqb_prop in H1, H2. now split.
Qed.

Lemma grpc_sweep_lifted :
  forall c, In c grpc_codes ->
    is_retry (classify_grpc c None false) = mem c grpc_retryable_codes /\
    is_retry (classify_grpc c (Some 5) false) = (mem c grpc_retryable_codes || (c =? 8)%N).
Proof.
  intros c Hc. pose proof grpc_sweep as H. rewrite forallb_forall in H. specialize (H c Hc).
  apply andb_true_iff in H as [H1 H2]. apply Bool.eqb_prop in H1, H2. now split.
Qed.

Lemma wait_ge_throttle_grpc : forall e1 e2 bo cf cfg (script : list response) i,
  (forall r, In r script -> exists c ri p, r = RespGrpc c ri p) ->
  (i < length (waits (retry_run e1 e2 bo cf cfg (map classify script))))%nat ->
  hint_ns (nth i script (RespGrpc 0 None false)) <= nth i (waits (retry_run e1 e2 bo cf cfg (map classify script))) 0.
Proof.
  intros e1 e2 bo cf cfg script i Hg Hi.
  destruct (run_wait_ge e1 e2 bo cf cfg (map classify script)) as [Hw _].
  specialize (Hw i Hi).
  assert (Hlen : (i < length script)%nat \/ (length script <= i)%nat) by lia.
  destruct Hlen as [Hl|Hl].
  - rewrite (nth_map_classify script i (RespGrpc 0 None false) Hl) in Hw.
    assert (Hin : In (nth i script (RespGrpc 0 None false)) script) by (now apply nth_In).
    destruct (Hg _ Hin) as [c [ri [p E]]]. rewrite E in *. cbn [classify] in Hw.
    now rewrite grpc_throttle_hint in Hw.
  - rewrite (nth_overflow script) by exact Hl.
    rewrite (nth_overflow (map classify script)) in Hw by (rewrite map_length; exact Hl). exact Hw.
Qed.

Lemma wait_ge_throttle_http_refuted :
  exists (script : list response) bo,
    let o := retry_run (fun _ => 0) (fun _ => 0) bo (fun _ _ => false) {| enabled := true; max_elapsed := 0 |}
                       (map classify script) in
    res o = ROk /\ attempts o = 2%nat /\
    nth 0 (waits o) 0 < hint_ns (nth 0 script (RespHttp 0 None false)).
Proof.
  exists f_c14_1_script, (fun _ => 1000000). cbv zeta.
  destruct http_wait_lt_hint_witness as [H1 [H2 [_ H4]]]. repeat split; assumption.
Qed.

(** * Accumulated elapsed time across (throttled) waits *)
Section Accumulated.
  Variables elapsed1 elapsed2 backoff : nat -> Z.
  Variable ctx_fires : nat -> Z -> bool.
  Variable cfg : config.
  Hypothesis Hmax : max_elapsed cfg <> 0.

  Notation loop := (loop elapsed1 elapsed2 backoff ctx_fires cfg).
  Notation give_up := (give_up elapsed1 elapsed2 backoff ctx_fires (max_elapsed cfg)).

  Lemma give_up_none k thr :
    give_up k thr = None -> elapsed1 k <= max_elapsed cfg /\ elapsed2 k + thr <= max_elapsed cfg.
  Proof.
    unfold Spec.give_up. apply Z.eqb_neq in Hmax. rewrite Hmax. cbn [negb andb].
    destruct (elapsed1 k >? max_elapsed cfg) eqn:A; [discriminate|].
    destruct (elapsed2 k + thr >? max_elapsed cfg) eqn:B; [discriminate|].
    intros _. rewrite Z.gtb_ltb in A, B. apply Z.ltb_ge in A, B. split; assumption.
  Qed.

  Lemma loop_within_limit outs : forall k acc,
    acc <= elapsed1 k ->
    (forall j, elapsed1 (k + j) <= elapsed2 (k + j) /\
               elapsed2 (k + j) + Z.max (throttle_of (nth j outs OFinal)) (backoff (k + j)) <= elapsed1 (S (k + j))) ->
    forall i, (i < length (waits (loop k outs)))%nat ->
      acc + sumz (firstn i (waits (loop k outs))) + throttle_of (nth i outs OFinal) <= max_elapsed cfg.
  Proof.
    induction outs as [|o rest IH]; intros k acc Hacc Hclk i Hi.
    - cbn in Hi. lia.
    - destruct o as [p|thr|]; try (cbn in Hi; lia).
      rewrite loop_retry in *. destruct (give_up k thr) eqn:G; [cbn in Hi; lia|].
      apply give_up_none in G as [G1 G2].
      pose proof (Hclk 0%nat) as [C1 C2]. rewrite Nat.add_0_r in C1, C2. cbn [nth throttle_of] in C2.
      destruct i as [|i].
      + cbn [firstn sumz fold_right nth throttle_of]. lia.
      + cbn [waits firstn sumz fold_right nth] in *.
        assert (Hi' : (i < length (waits (loop (S k) rest)))%nat) by (cbn in Hi; lia).
        specialize (IH (S k) (acc + Z.max thr (backoff k)) ltac:(lia)).
        assert (Hclk' : forall j, elapsed1 (S k + j) <= elapsed2 (S k + j) /\
                  elapsed2 (S k + j) + Z.max (throttle_of (nth j rest OFinal)) (backoff (S k + j)) <= elapsed1 (S (S k + j))).
        { intros j. specialize (Hclk (S j)). cbn [nth] in Hclk.
          replace (k + S j)%nat with (S k + j)%nat in Hclk by lia. exact Hclk. }
        specialize (IH Hclk' i Hi'). unfold sumz in *. lia.
  Qed.

  Lemma run_within_limit outs :
    enabled cfg = true -> Clock_advances elapsed1 elapsed2 backoff outs ->
    Waits_within_limit (max_elapsed cfg) outs (retry_run elapsed1 elapsed2 backoff ctx_fires cfg outs).
  Proof.
    intros E [H0 Hc] i Hi. rewrite (run_enabled _ _ _ _ _ _ E) in *.
    pose proof (loop_within_limit outs 0%nat 0 H0) as H. cbn [Nat.add] in H.
    specialize (H Hc i Hi). lia.
  Qed.
End Accumulated.

(** * Partial success: reported iff something was rejected or a message came along *)
Lemma reports_iff p :
  reports p = true <-> exists n m, p = Partial n m /\ (n <> 0%N \/ m = true).
Proof.
  destruct p as [|n m]; cbn.
  - split; [discriminate | intros [n [m [H _]]]; discriminate].
  - rewrite orb_true_iff, negb_true_iff, N.eqb_neq. split.
    + intros H. exists n, m. split; [reflexivity | exact H].
    + intros [n' [m' [E H]]]. inversion E; subst. exact H.
Qed.

Lemma partial_report_iff e1 e2 bo cf cfg (p : partial_info) rest :
  let o := retry_run e1 e2 bo cf cfg (OSuccess (reports p) :: rest) in
  res o = ROk /\ attempts o = 1%nat /\
  (handled o = 1%nat <-> exists n m, p = Partial n m /\ (n <> 0%N \/ m = true)) /\
  (handled o = 0%nat \/ handled o = 1%nat).
Proof.
  cbv zeta. unfold retry_run. rewrite <- reports_iff.
  destruct (enabled cfg); cbn; destruct (reports p); cbn; repeat split; auto; try discriminate.
Qed.

(** * Shutdown during a wait *)
Lemma shutdown_interrupts e1 e2 bo cf cfg outs k :
  enabled cfg = true -> max_elapsed cfg = 0 ->
  (k < length outs)%nat -> (forall j, (j <= k)%nat -> is_retry (nth j outs OFinal) = true) ->
  (forall j d, (j < k)%nat -> cf j d = false) ->
  let o := retry_run e1 e2 bo (ctx_with_shutdown Interrupts k cf) cfg outs in
  attempts o = S k /\ res o = RErr ECtx.
Proof.
  intros E M Hk Hr Hc. cbv zeta. rewrite (run_enabled _ _ _ _ _ _ E).
  assert (G : forall j, (j < k)%nat ->
            give_up e1 e2 bo (ctx_with_shutdown Interrupts k cf) (max_elapsed cfg) j (throttle_of (nth j outs OFinal)) = None).
  { intros j Hj. unfold give_up, ctx_with_shutdown. rewrite M. cbn [Z.eqb negb andb].
    rewrite (Hc j _ Hj). replace (Nat.eqb j k) with false by (symmetry; apply Nat.eqb_neq; lia). reflexivity. }
  assert (Gk : give_up e1 e2 bo (ctx_with_shutdown Interrupts k cf) (max_elapsed cfg) k (throttle_of (nth k outs OFinal)) = Some ECtx).
  { unfold give_up, ctx_with_shutdown. rewrite M. cbn [Z.eqb negb andb]. rewrite Nat.eqb_refl, orb_true_r. reflexivity. }
  (* the loop reaches attempt k: generalise over the starting index *)
  assert (L : forall outs' s, (k - s < length outs')%nat -> (s <= k)%nat ->
            (forall j, (j <= k - s)%nat -> is_retry (nth j outs' OFinal) = true) ->
            (forall j, (j < k - s)%nat -> give_up e1 e2 bo (ctx_with_shutdown Interrupts k cf) (max_elapsed cfg) (s + j) (throttle_of (nth j outs' OFinal)) = None) ->
            give_up e1 e2 bo (ctx_with_shutdown Interrupts k cf) (max_elapsed cfg) k (throttle_of (nth (k - s) outs' OFinal)) = Some ECtx ->
            attempts (loop e1 e2 bo (ctx_with_shutdown Interrupts k cf) cfg s outs') = S (k - s) /\
            res (loop e1 e2 bo (ctx_with_shutdown Interrupts k cf) cfg s outs') = RErr ECtx).
  { induction outs' as [|o rest IH]; intros s Hl Hs Hr' Hg Hgk; [cbn in Hl; lia|].
    pose proof (Hr' 0%nat ltac:(lia)) as R0. cbn [nth] in R0. destruct o as [p|thr|]; try discriminate.
    rewrite loop_retry. destruct (Nat.eq_dec s k) as [->|Hne].
    - rewrite Nat.sub_diag in *. cbn [nth throttle_of] in Hgk. rewrite Hgk. split; reflexivity.
    - pose proof (Hg 0%nat ltac:(lia)) as G0. rewrite Nat.add_0_r in G0. cbn [nth throttle_of] in G0. rewrite G0.
      replace (k - s)%nat with (S (k - S s)) in * by lia.
      destruct (IH (S s)) as [A B].
      + cbn in Hl. lia.
      + lia.
      + intros j Hj. apply (Hr' (S j)). lia.
      + intros j Hj. specialize (Hg (S j) ltac:(lia)). cbn [nth] in Hg. replace (s + S j)%nat with (S s + j)%nat in Hg by lia. exact Hg.
      + cbn [nth] in Hgk. exact Hgk.
      + cbn. split; [now rewrite A | exact B]. }
  pose proof (L outs 0%nat) as F. rewrite !Nat.sub_0_r in F. apply F; clear F.
  - exact Hk.
  - lia.
  - exact Hr.
  - intros j Hj. cbn [Nat.add]. now apply G.
  - exact Gk.
Qed.

(** For the other two modes the context oracle is untouched: the export runs exactly as if Shutdown had not been called. *)
Lemma shutdown_no_effect mode at_wait cf :
  mode <> Interrupts -> forall k d, ctx_with_shutdown mode at_wait cf k d = cf k d.
Proof. intros H k d. unfold ctx_with_shutdown. destruct mode; [contradiction | |]; apply orb_false_r. Qed.

(** Witness: metric / log exporters, Shutdown during the first wait, yet the export goes on to a second attempt. *)
Lemma shutdown_not_interrupting_witness :
  forall e, In e [1; 2; 4; 5]%N ->
  attempts (retry_run (fun _ => 0) (fun _ => 0) (fun _ => 0)
              (ctx_with_shutdown (shutdown_mode_of e) 0 (fun _ _ => false))
              {| enabled := true; max_elapsed := 0 |} [ORetry 0; ORetry 0; OSuccess false]) = 3%nat.
Proof. intros e [<-|[<-|[<-|[<-|[]]]]]; vm_compute; reflexivity. Qed.

(** * Attempt durations count against the limit *)
Section AttemptDurations.
  Variables elapsed1 elapsed2 backoff dur : nat -> Z.
  Variable ctx_fires : nat -> Z -> bool.
  Variable cfg : config.
  Hypothesis Hmax : max_elapsed cfg <> 0.

  Notation loop := (loop elapsed1 elapsed2 backoff ctx_fires cfg).
  Notation give_up := (give_up elapsed1 elapsed2 backoff ctx_fires (max_elapsed cfg)).

  Lemma loop_spent_within_limit outs : forall k acc,
    acc + dur k <= elapsed1 k ->
    (forall j, elapsed1 (k + j) <= elapsed2 (k + j) /\
               elapsed2 (k + j) + Z.max (throttle_of (nth j outs OFinal)) (backoff (k + j)) + dur (S (k + j)) <= elapsed1 (S (k + j))) ->
    forall i, (i < length (waits (loop k outs)))%nat ->
      acc + spent dur k (waits (loop k outs)) i + throttle_of (nth i outs OFinal) <= max_elapsed cfg.
  Proof.
    induction outs as [|o rest IH]; intros k acc Hacc Hclk i Hi.
    - cbn in Hi. lia.
    - destruct o as [p|thr|]; try (cbn in Hi; lia).
      rewrite loop_retry in *. destruct (give_up k thr) eqn:G; [cbn in Hi; lia|].
      apply (give_up_none elapsed1 elapsed2 backoff ctx_fires cfg Hmax) in G as [G1 G2].
      pose proof (Hclk 0%nat) as [C1 C2]. rewrite Nat.add_0_r in C1, C2. cbn [nth throttle_of] in C2.
      destruct i as [|i].
      + cbn [waits spent nth throttle_of]. lia.
      + cbn [waits spent nth] in *.
        assert (Hi' : (i < length (waits (loop (S k) rest)))%nat) by (cbn in Hi; lia).
        specialize (IH (S k) (acc + dur k + Z.max thr (backoff k)) ltac:(lia)).
        assert (Hclk' : forall j, elapsed1 (S k + j) <= elapsed2 (S k + j) /\
                  elapsed2 (S k + j) + Z.max (throttle_of (nth j rest OFinal)) (backoff (S k + j)) + dur (S (S k + j)) <= elapsed1 (S (S k + j))).
        { intros j. specialize (Hclk (S j)). cbn [nth] in Hclk.
          replace (k + S j)%nat with (S k + j)%nat in Hclk by lia. exact Hclk. }
        specialize (IH Hclk' i Hi'). lia.
  Qed.

  Lemma run_spent_within_limit outs :
    enabled cfg = true -> Clock_counts_attempts elapsed1 elapsed2 backoff dur outs ->
    Spent_within_limit dur (max_elapsed cfg) outs (retry_run elapsed1 elapsed2 backoff ctx_fires cfg outs).
  Proof.
    intros E [H0 Hc] i Hi. rewrite (run_enabled _ _ _ _ _ _ E) in *.
    pose proof (loop_spent_within_limit outs 0%nat 0 ltac:(lia)) as H. cbn [Nat.add] in H.
    specialize (H Hc i Hi). lia.
  Qed.
End AttemptDurations.

(** * A done context and wait() *)
Lemma zero_delay_never_gives_up_old e1 e2 n : forall k,
  let o := loop e1 e2 (fun _ => 0) (wait_ctx_fires_old (fun _ => true)) {| enabled := true; max_elapsed := 0 |} k (repeat (ORetry 0) n) in
  attempts o = n /\ res o = RPending /\ waits o = repeat 0 n.
Proof.
  induction n as [|n IH]; intros k; cbv zeta; [cbn; auto|].
  cbn [repeat]. rewrite loop_retry.
  assert (G : give_up e1 e2 (fun _ => 0) (wait_ctx_fires_old (fun _ => true)) 0 k 0 = None) by (unfold give_up, wait_ctx_fires_old; reflexivity).
  cbn [max_elapsed]. rewrite G. destruct (IH (S k)) as [A [B C]]. cbn [attempts res waits].
  rewrite A, B, C. repeat split.
Qed.

Lemma done_context_gives_up e1 e2 bo ctx_done k thr :
  ctx_done k = true -> give_up e1 e2 bo (wait_ctx_fires ctx_done) 0 k thr = Some ECtx.
Proof. intros Hc. unfold give_up, wait_ctx_fires. cbn [Z.eqb negb andb]. now rewrite Hc. Qed.

(** ... so with the context done from the start the export makes exactly one attempt, whatever the delays. *)
Lemma done_context_single_attempt e1 e2 bo thr rest :
  let o := retry_run e1 e2 bo (wait_ctx_fires (fun _ => true)) {| enabled := true; max_elapsed := 0 |} (ORetry thr :: rest) in
  attempts o = 1%nat /\ res o = RErr ECtx.
Proof.
  cbv zeta. unfold retry_run. cbn [enabled]. rewrite loop_retry. cbn [max_elapsed].
  rewrite done_context_gives_up by reflexivity. split; reflexivity.
Qed.
