(** C14 property theorems: statements closed by lemmas of Proofs.v, the axiom audit, non-vacuity examples.

    Quantification: every finite script of collector responses (any length), every retry configuration
    (enabled or not, any MaxElapsedTime, 0 = unlimited), every clock ([elapsed1 k], [elapsed2 k]: the two
    readings of time.Since in iteration k), every back-off oracle ([backoff k], any integer) and every
    cancellation pattern ([ctx_fires k d]: the context is done before the k-th wait of length d ends).
    The six exporters share the loop; they differ only in [classify_http] / [classify_grpc]. *)
From Verif Require Import Lib.Base C14.Types C14.Model C14.Spec C14.Proofs.
Open Scope Z_scope.

(** HTTP: retry-able exactly for 429 / 502 / 503 / 504, whatever the headers; success exactly for 2xx;
    for EVERY status number (and re-checked by computation on 100..999). *)
Theorem c14_http_retryable_set : forall status retry_after partial,
  is_retry (classify_http status retry_after partial) = mem status http_retryable_statuses /\
  ((exists q, classify_http status retry_after partial = OSuccess q) <-> http_success status = true).
Proof. intros. split; [apply http_retry_iff | apply http_success_iff]. Qed.
Print Assumptions c14_http_retryable_set.

Theorem c14_http_retryable_sweep_100_999 :
  forall s, In s statuses ->
    is_retry (classify_http s None false) = mem s http_retryable_statuses /\
    (match classify_http s None false with OSuccess _ => true | _ => false end) = http_success s.
Proof. exact http_sweep_lifted. Qed.
Print Assumptions c14_http_retryable_sweep_100_999.

(** gRPC: Canceled, DeadlineExceeded, Aborted, OutOfRange, Unavailable, DataLoss always; ResourceExhausted
    iff RetryInfo is attached; nothing else; success exactly for OK.  For every code number, in particular the 17. *)
Theorem c14_grpc_retryable_set : forall code retry_info partial,
  is_retry (classify_grpc code retry_info partial) =
    (mem code grpc_retryable_codes ||
     ((code =? GRPC_RESOURCE_EXHAUSTED)%N && match retry_info with Some _ => true | None => false end)) /\
  ((exists q, classify_grpc code retry_info partial = OSuccess q) <-> code = 0%N).
Proof. intros. split; [apply grpc_retry_iff | apply grpc_success_iff]. Qed.
Print Assumptions c14_grpc_retryable_set.

Theorem c14_grpc_retryable_sweep_17 :
  forall c, In c grpc_codes ->
    is_retry (classify_grpc c None false) = mem c grpc_retryable_codes /\
    is_retry (classify_grpc c (Some 5) false) = (mem c grpc_retryable_codes || (c =? 8)%N).
Proof. exact grpc_sweep_lifted. Qed.
Print Assumptions c14_grpc_retryable_sweep_17.

(** The payload is re-sent only after a retry-able outcome: every attempt but the last was answered retry-ably. *)
Theorem c14_resend_only_after_retryable : forall e1 e2 bo cf cfg outs,
  Resend_only_after_retryable outs (retry_run e1 e2 bo cf cfg outs).
Proof. exact run_resend_only. Qed.
Print Assumptions c14_resend_only_after_retryable.

(** The first success or non-retry-able failure that is reached ends the export and is what it reports. *)
Theorem c14_stops_at_first_final : forall e1 e2 bo cf cfg outs,
  Stops_at_first_final outs (retry_run e1 e2 bo cf cfg outs).
Proof. exact run_stops. Qed.
Print Assumptions c14_stops_at_first_final.

(** Every wait is at least the throttle the client read from the response before it, and a finished export
    waited exactly once per re-send.  The throttle is in the client's unit: for gRPC that is the server's
    RetryInfo duration ([c14_wait_ge_throttle_grpc]); for HTTP it is not ([..._http_refuted]). *)
Theorem c14_wait_ge_throttle : forall e1 e2 bo cf cfg outs,
  Wait_ge_throttle outs (retry_run e1 e2 bo cf cfg outs) /\
  One_wait_per_resend (retry_run e1 e2 bo cf cfg outs).
Proof. exact run_wait_ge. Qed.
Print Assumptions c14_wait_ge_throttle.

Theorem c14_wait_ge_throttle_grpc : forall e1 e2 bo cf cfg (script : list response) i,
  (forall r, In r script -> exists c ri p, r = RespGrpc c ri p) ->
  (i < length (waits (retry_run e1 e2 bo cf cfg (map classify script))))%nat ->
  hint_ns (nth i script (RespGrpc 0 None false)) <= nth i (waits (retry_run e1 e2 bo cf cfg (map classify script))) 0.
Proof. exact wait_ge_throttle_grpc. Qed.
Print Assumptions c14_wait_ge_throttle_grpc.

(** F-C14-1 (known, not repaired): an HTTP collector answering "503, Retry-After: 2" is re-contacted after the
    back-off delay (1 ms here), not after 2 s: the header's seconds are used as nanoseconds. *)
Theorem c14_wait_ge_throttle_http_refuted :
  exists (script : list response) bo,
    let o := retry_run (fun _ => 0) (fun _ => 0) bo (fun _ _ => false) {| enabled := true; max_elapsed := 0 |}
                       (map classify script) in
    res o = ROk /\ attempts o = 2%nat /\
    nth 0 (waits o) 0 < hint_ns (nth 0 script (RespHttp 0 None false)).
Proof. exact wait_ge_throttle_http_refuted. Qed.
Print Assumptions c14_wait_ge_throttle_http_refuted.

(** Deadlines: after a retry-able failure, once the elapsed time exceeds MaxElapsedTime, or elapsed + throttle
    would, or the context is done during the wait, the export ends with that error and no further attempt is
    made; and it never ends with such an error for another reason. *)
Theorem c14_gives_up : forall e1 e2 bo cf cfg outs,
  enabled cfg = true ->
  Gives_up e1 e2 bo cf (max_elapsed cfg) outs (retry_run e1 e2 bo cf cfg outs) /\
  Gives_up_only_then e1 e2 bo cf (max_elapsed cfg) outs (retry_run e1 e2 bo cf cfg outs).
Proof. exact run_gives_up. Qed.
Print Assumptions c14_gives_up.

(** Accumulated elapsed time: under any clock that is consistent with the waits (never runs backwards, each
    wait takes at least its length: [Clock_advances]), with a limit configured, the waits already spent PLUS
    the throttle about to be honoured never exceed MaxElapsedTime - for every number of consecutive throttled
    replies.  (A loop that restarted its accounting after a throttled wait would break this.) *)
Theorem c14_gives_up_accumulated : forall e1 e2 bo cf cfg,
  max_elapsed cfg <> 0 -> forall outs, enabled cfg = true -> Clock_advances e1 e2 bo outs ->
  Waits_within_limit (max_elapsed cfg) outs (retry_run e1 e2 bo cf cfg outs).
Proof. exact run_within_limit. Qed.
Print Assumptions c14_gives_up_accumulated.

(** Attempt durations count: under a clock that is read after each attempt ([Clock_counts_attempts]: attempt k
    took [dur k], every wait lasts its length), everything spent so far - all attempts including the one that has
    just failed, all waits - plus the throttle about to be honoured stays within MaxElapsedTime, for every script. *)
Theorem c14_gives_up_counts_attempts : forall e1 e2 bo dur cf cfg,
  max_elapsed cfg <> 0 -> forall outs, enabled cfg = true -> Clock_counts_attempts e1 e2 bo dur outs ->
  Spent_within_limit dur (max_elapsed cfg) outs (retry_run e1 e2 bo cf cfg outs).
Proof. exact run_spent_within_limit. Qed.
Print Assumptions c14_gives_up_counts_attempts.

(** Retry disabled: one attempt, no wait, its outcome reported. *)
Theorem c14_disabled_single_attempt : forall e1 e2 bo cf cfg outs,
  enabled cfg = false ->
  (attempts (retry_run e1 e2 bo cf cfg outs) <= 1)%nat /\ waits (retry_run e1 e2 bo cf cfg outs) = [] /\
  (forall o rest, outs = o :: rest ->
     attempts (retry_run e1 e2 bo cf cfg outs) = 1%nat /\ res (retry_run e1 e2 bo cf cfg outs) = report o).
Proof. exact run_disabled. Qed.
Print Assumptions c14_disabled_single_attempt.

(** A success carrying a partial-success message is delivered (no error, no re-send) and reported once. *)
Theorem c14_partial_success_delivered : forall e1 e2 bo cf cfg outs,
  Partial_success_delivered outs (retry_run e1 e2 bo cf cfg outs).
Proof. exact run_partial. Qed.
Print Assumptions c14_partial_success_delivered.

(** ... and the report happens exactly when the response's partial_success rejected something or carried a
    message ([reports] is what the six clients test; a success is delivered, in one attempt, in every case). *)
Theorem c14_partial_success_reported_iff : forall e1 e2 bo cf cfg (p : partial_info) rest,
  let o := retry_run e1 e2 bo cf cfg (OSuccess (reports p) :: rest) in
  res o = ROk /\ attempts o = 1%nat /\
  (handled o = 1%nat <-> exists n m, p = Partial n m /\ (n <> 0%N \/ m = true)) /\
  (handled o = 0%nat \/ handled o = 1%nat).
Proof. exact partial_report_iff. Qed.
Print Assumptions c14_partial_success_reported_iff.

(** Shutdown while the export sleeps in the back-off after attempt k (no elapsed limit, every earlier reply
    retry-able, the context quiet before): for the exporters whose Shutdown cancels the export's context
    ([Interrupts]: otlptracehttp, otlptracegrpc) attempt k is the last one and the export ends with the context
    error - for every script, clock and back-off.  For the other four ([shutdown_mode_of]) Shutdown does not touch
    the export's context: the run is the run without Shutdown ([..._refuted] below, known finding F-C14-2). *)
Theorem c14_shutdown_during_wait : forall e1 e2 bo cf cfg outs k,
  enabled cfg = true -> max_elapsed cfg = 0 ->
  (k < length outs)%nat -> (forall j, (j <= k)%nat -> is_retry (nth j outs OFinal) = true) ->
  (forall j d, (j < k)%nat -> cf j d = false) ->
  let o := retry_run e1 e2 bo (ctx_with_shutdown Interrupts k cf) cfg outs in
  attempts o = S k /\ res o = RErr ECtx.
Proof. exact shutdown_interrupts. Qed.
Print Assumptions c14_shutdown_during_wait.

Theorem c14_shutdown_during_wait_metric_log_refuted :
  (forall mode at_wait cf, mode <> Interrupts -> forall k d, ctx_with_shutdown mode at_wait cf k d = cf k d) /\
  (forall e, In e [1; 2; 4; 5]%N ->
     attempts (retry_run (fun _ => 0) (fun _ => 0) (fun _ => 0)
                 (ctx_with_shutdown (shutdown_mode_of e) 0 (fun _ _ => false))
                 {| enabled := true; max_elapsed := 0 |} [ORetry 0; ORetry 0; OSuccess false]) = 3%nat).
Proof. split; [exact shutdown_no_effect | exact shutdown_not_interrupting_witness]. Qed.
Print Assumptions c14_shutdown_during_wait_metric_log_refuted.

(** With the real wait() ([wait_ctx_fires], as repaired by 4b7b30b): a done context ends the export at the next wait,
    whatever its length (zero back-off included) - for every clock, back-off and throttle. *)
Theorem c14_gives_up_on_done_context : forall e1 e2 bo ctx_done k thr,
  ctx_done k = true -> give_up e1 e2 bo (wait_ctx_fires ctx_done) 0 k thr = Some ECtx.
Proof. exact done_context_gives_up. Qed.
Print Assumptions c14_gives_up_on_done_context.

Theorem c14_done_context_single_attempt : forall e1 e2 bo thr rest,
  let o := retry_run e1 e2 bo (wait_ctx_fires (fun _ => true)) {| enabled := true; max_elapsed := 0 |} (ORetry thr :: rest) in
  attempts o = 1%nat /\ res o = RErr ECtx.
Proof. exact done_context_single_attempt. Qed.
Print Assumptions c14_done_context_single_attempt.

(** The wait as it was before the repair (F-C14-3, fixed): with zero delays and no elapsed limit a done context was never
    noticed - for every n the loop makes all n attempts of a retry-able script of length n and is still running. *)
Theorem c14_gives_up_on_done_context_old_refuted : forall e1 e2 n,
  let o := retry_run e1 e2 (fun _ => 0) (wait_ctx_fires_old (fun _ => true)) {| enabled := true; max_elapsed := 0 |} (repeat (ORetry 0) n) in
  attempts o = n /\ res o = RPending /\ waits o = repeat 0 n.
Proof. intros e1 e2 n. exact (zero_delay_never_gives_up_old e1 e2 n 0%nat). Qed.
Print Assumptions c14_gives_up_on_done_context_old_refuted.

(** ** Non-vacuity *)
Definition ex_cfg : config := {| enabled := true; max_elapsed := 1000 |}.
Definition ex_script : list response :=
  [RespHttp 503 None false; RespGrpc 8 (Some 300) false; RespHttp 429 (Some 1) false; RespHttp 200 None true].

Example ex_run :
  let o := retry_run (fun k => Z.of_nat k * 100) (fun k => Z.of_nat k * 100 + 10) (fun _ => 7) (fun _ _ => false)
                     ex_cfg (map classify ex_script) in
  attempts o = 4%nat /\ waits o = [7; 300; 7] /\ res o = ROk /\ handled o = 1%nat.
Proof. vm_compute. repeat split. Qed.

Example ex_gives_up_would_elapse :
  let o := retry_run (fun _ => 0) (fun _ => 0) (fun _ => 7) (fun _ _ => false)
                     ex_cfg (map classify [RespGrpc 14 (Some 5000) false; RespGrpc 0 None false]) in
  attempts o = 1%nat /\ res o = RErr EMaxWouldElapse.
Proof. vm_compute. split; reflexivity. Qed.

Example ex_gives_up_ctx :
  let o := retry_run (fun _ => 0) (fun _ => 0) (fun _ => 7) (fun k _ => Nat.eqb k 1)
                     ex_cfg (map classify [RespHttp 503 None false; RespHttp 502 None false; RespHttp 200 None false]) in
  attempts o = 2%nat /\ res o = RErr ECtx /\ waits o = [7].
Proof. vm_compute. repeat split. Qed.

Example ex_final_and_disabled :
  res (retry_run (fun _ => 0) (fun _ => 0) (fun _ => 7) (fun _ _ => false) ex_cfg
                 (map classify [RespHttp 503 None false; RespHttp 400 None false; RespHttp 200 None false])) = RErr EFinal /\
  attempts (retry_run (fun _ => 0) (fun _ => 0) (fun _ => 7) (fun _ _ => false) {| enabled := false; max_elapsed := 0 |}
                 (map classify [RespHttp 503 None false; RespHttp 200 None false])) = 1%nat /\
  classify (RespGrpc 8 None false) = OFinal /\ classify (RespGrpc 8 (Some 0) false) = ORetry 0 /\
  classify (RespHttp 500 (Some 3) false) = OFinal.
Proof. vm_compute. repeat split. Qed.

(** Three throttled replies of 100 each under a limit of 250, the clock advancing by exactly the waits:
    the third throttle would overrun (200 + 100 > 250): three attempts, two waits, error. *)
Example ex_accumulated :
  let e := fun k => Z.of_nat k * 100 in
  let outs := [ORetry 100; ORetry 100; ORetry 100; ORetry 100; OSuccess false] in
  Clock_advances e e (fun _ => 1) outs /\
  let o := retry_run e e (fun _ => 1) (fun _ _ => false) {| enabled := true; max_elapsed := 250 |} outs in
  attempts o = 3%nat /\ waits o = [100; 100] /\ res o = RErr EMaxWouldElapse.
Proof.
  cbv zeta. split.
  - split; [cbn; lia|]. intros k. split; [lia|].
    assert (H : throttle_of (nth k [ORetry 100; ORetry 100; ORetry 100; ORetry 100; OSuccess false] OFinal) <= 100).
    { do 6 (destruct k as [|k]; [cbn; lia|]). cbn. lia. }
    lia.
  - vm_compute. repeat split.
Qed.

(** A slow failing attempt (300 of 500) whose reply asks for 300 more: the export gives up after the first attempt. *)
Example ex_slow_attempt :
  let e := fun k => 300 + Z.of_nat k * 600 in
  let outs := [ORetry 300; ORetry 300; OSuccess false] in
  Clock_counts_attempts e e (fun _ => 1) (fun _ => 300) outs /\
  let o := retry_run e e (fun _ => 1) (fun _ _ => false) {| enabled := true; max_elapsed := 500 |} outs in
  attempts o = 1%nat /\ res o = RErr EMaxWouldElapse.
Proof.
  cbv zeta. split.
  - split; [cbn; lia|]. intros k. split; [lia|].
    assert (H : throttle_of (nth k [ORetry 300; ORetry 300; OSuccess false] OFinal) <= 300).
    { do 4 (destruct k as [|k]; [cbn; lia|]). cbn. lia. }
    lia.
  - vm_compute. split; reflexivity.
Qed.
