(** C14 specification: what an OTLP export must do with a sequence of collector
    responses, stated on the script (responses / outcomes), the retry configuration,
    the oracles of the environment (clock, back-off, context) and the observation
    (number of attempts, waits, error class, partial-success reports).  Nothing here refers to C14.Model. *)
From Verif Require Import Lib.Base C14.Types.
Open Scope Z_scope.

(** ** Which responses may be retried (the property's own tables) *)
Definition http_retryable_statuses : list N := [429; 502; 503; 504]%N.
(** Canceled, DeadlineExceeded, Aborted, OutOfRange, Unavailable, DataLoss *)
Definition grpc_retryable_codes : list N := [1; 4; 10; 11; 14; 15]%N.
Definition GRPC_RESOURCE_EXHAUSTED : N := 8%N.
Definition grpc_codes : list N := map N.of_nat (seq 0 17).

Definition mem (x : N) (l : list N) : bool := existsb (N.eqb x) l.

Definition http_success (s : N) : bool := ((200 <=? s) && (s <=? 299))%N.

Definition spec_retryable (r : response) : bool :=
  match r with
  | RespHttp s _ _ => mem s http_retryable_statuses
  | RespGrpc c ri _ =>
      mem c grpc_retryable_codes ||
      ((c =? GRPC_RESOURCE_EXHAUSTED)%N && match ri with Some _ => true | None => false end)
  end.

Definition spec_success (r : response) : bool :=
  match r with RespHttp s _ _ => http_success s | RespGrpc c _ _ => (c =? 0)%N end.

Definition spec_partial (r : response) : bool :=
  spec_success r && match r with RespHttp _ _ p => p | RespGrpc _ _ p => p end.

(** The delay the SERVER asked for, in nanoseconds: Retry-After is in seconds, RetryInfo a duration. *)
Definition hint_ns (r : response) : Z :=
  if spec_retryable r then
    match r with
    | RespHttp _ (Some s) _ => s * NS_PER_S
    | RespGrpc _ (Some d) _ => d
    | _ => 0
    end
  else 0.

(** ** Clauses over a run, given as outcomes (see Types) *)
Definition Resend_only_after_retryable (outs : list outcome) (o : run_out) : Prop :=
  forall i, (S i < attempts o)%nat -> is_retry (nth i outs OFinal) = true.

Definition Stops_at_first_final (outs : list outcome) (o : run_out) : Prop :=
  forall i, (i < attempts o)%nat -> is_retry (nth i outs OFinal) = false ->
            attempts o = S i /\ res o = report (nth i outs OFinal).

(** A finished export has waited exactly once before each re-send (and made at least one attempt). *)
Definition One_wait_per_resend (o : run_out) : Prop :=
  res o <> RPending -> (1 <= attempts o)%nat /\ length (waits o) = pred (attempts o).

Definition Wait_ge_throttle (outs : list outcome) (o : run_out) : Prop :=
  forall i, (i < length (waits o))%nat -> throttle_of (nth i outs OFinal) <= nth i (waits o) 0.

Section Deadline.
  Variables elapsed1 elapsed2 backoff : nat -> Z.
  Variable ctx_fires : nat -> Z -> bool.
  Variable max : Z.     (* MaxElapsedTime, 0 = unlimited *)

  (** Why the export must give up after the retry-able failure of attempt k (throttle [thr]). *)
  Definition give_up (k : nat) (thr : Z) : option reason :=
    if negb (max =? 0) && (elapsed1 k >? max) then Some EMaxElapsed
    else if negb (max =? 0) && (elapsed2 k + thr >? max) then Some EMaxWouldElapse
    else if ctx_fires k (Z.max thr (backoff k)) then Some ECtx
    else None.

  (** Once a deadline condition holds after attempt k: error, and attempt k was the last one ... *)
  Definition Gives_up (outs : list outcome) (o : run_out) : Prop :=
    forall k e, (k < attempts o)%nat -> is_retry (nth k outs OFinal) = true ->
      give_up k (throttle_of (nth k outs OFinal)) = Some e ->
      attempts o = S k /\ res o = RErr e.

  (** ... and an export only ends with a deadline / context error for that reason. *)
  Definition Gives_up_only_then (outs : list outcome) (o : run_out) : Prop :=
    forall e, res o = RErr e -> e <> EFinal ->
      exists k, attempts o = S k /\ is_retry (nth k outs OFinal) = true /\
                give_up k (throttle_of (nth k outs OFinal)) = Some e.
End Deadline.

(** Accumulated time.  When the clock is consistent with the waits (it never runs backwards and each wait
    really takes at least its length), the limit bounds the SUM of all earlier waits plus the throttle about
    to be honoured, not just a single wait: a loop that restarted its accounting after a throttled wait
    would violate this. *)
Definition sumz (l : list Z) : Z := fold_right Z.add 0 l.

Definition Clock_advances (elapsed1 elapsed2 backoff : nat -> Z) (outs : list outcome) : Prop :=
  0 <= elapsed1 0%nat /\
  forall k, elapsed1 k <= elapsed2 k /\
            elapsed2 k + Z.max (throttle_of (nth k outs OFinal)) (backoff k) <= elapsed1 (S k).

Definition Waits_within_limit (max : Z) (outs : list outcome) (o : run_out) : Prop :=
  forall i, (i < length (waits o))%nat ->
            sumz (firstn i (waits o)) + throttle_of (nth i outs OFinal) <= max.

Definition Partial_success_delivered (outs : list outcome) (o : run_out) : Prop :=
  (forall i, (i < attempts o)%nat -> nth i outs OFinal = OSuccess true -> res o = ROk /\ handled o = 1%nat) /\
  (handled o <= 1)%nat /\
  (handled o = 1%nat -> exists i, attempts o = S i /\ nth i outs OFinal = OSuccess true).

(** ** Boolean reading used on the observations of the real exporters.
    Error classes: 0 nil, 1 context cancelled / deadline, 2 "max retry time ...", 3 any other error. *)
Definition first_final (l : list response) : nat :=
  (fix go (l : list response) (i : nat) : nat :=
     match l with
     | [] => i
     | r :: t => if spec_retryable r then go t (S i) else i
     end) l 0%nat.

Definition all_eq_nonzero (l : list N) : bool :=
  match l with
  | [] => true
  | x :: r => negb (x =? 0)%N && forallb (N.eqb x) r
  end.

(** [gap_ok]: the arrival gap after response i is at least the server's hint. *)
Fixpoint gaps_ok (script : list response) (gaps : list Z) : bool :=
  match script, gaps with
  | _, [] => true
  | r :: t, g :: gs => (hint_ns r <=? g) && gaps_ok t gs
  | [], _ :: _ => false
  end.

(** With a limit, a hint beyond it must end the export at that response even if no time has passed. *)
Fixpoint over_limit_at (max : Z) (script : list response) (i : nat) : option nat :=
  match script with
  | [] => None
  | r :: t => if spec_retryable r then
                if negb (max =? 0) && (hint_ns r >? max) then Some i else over_limit_at max t (S i)
              else None
  end.

Definition class_of_terminal (r : response) : N := if spec_success r then 0%N else 3%N.

Definition run_ok (enabled : bool) (max : Z) (cancel_at : option nat) (script : list response)
                  (attempts : nat) (bodies : list N) (gaps : list Z) (err handled : N) : bool :=
  let ff := first_final script in
  (1 <=? attempts)%nat && (attempts <=? S ff)%nat && (attempts <=? length script)%nat &&
  (* delivered or reported when the first non-retry-able response was reached *)
  (if (attempts =? S ff)%nat
   then match nth_error script ff with
        | Some r => (err =? class_of_terminal r)%N && (handled =? (if spec_partial r then 1 else 0))%N
        | None => false
        end
   else (* stopped while the last response was retry-able: only for a deadline / cancellation reason *)
        negb (err =? 0)%N && (handled =? 0)%N &&
        (negb enabled ||
         ((err =? 1)%N && match cancel_at with Some _ => true | None => false end) ||
         ((err =? 2)%N && negb (max =? 0)))) &&
  (if enabled then true else (attempts =? 1)%nat) &&
  (Nat.eqb (length bodies) attempts) && all_eq_nonzero bodies &&
  (Nat.eqb (length gaps) (pred attempts)) && gaps_ok script gaps &&
  match cancel_at with
  | Some k => if (k <? ff)%nat then (attempts <=? S k)%nat && negb (err =? 0)%N else true
  | None => true
  end &&
  (if enabled then
     match over_limit_at max script 0 with
     | Some i => (attempts <=? S i)%nat && negb (err =? 0)%N
     | None => true
     end
   else true).

(** Throttled sequences whose delays add up beyond the limit (each delay below it), then a collector that
    never recovers: the export must fail with a max-retry-time error, after at most ceil(max/min delay)+2
    attempts, within max + 3 s of wall clock; every gap is at least the delay asked for (in the unit the
    client reads), and the payload is the same on every attempt. *)
Fixpoint gaps_ge (delays gaps : list Z) : bool :=
  match delays, gaps with
  | d :: ds, g :: gs => (d <=? g) && gaps_ge ds gs
  | _, _ => true
  end.

Definition throttled_ok (max_ns min_delay_ns : Z) (delays : list Z)
                        (attempts : nat) (bodies : list N) (gaps : list Z) (err : N) (elapsed_ns : Z) : bool :=
  (1 <=? attempts)%nat && (err =? 2)%N &&
  (0 <? min_delay_ns) &&
  (Z.of_nat attempts <=? (max_ns + min_delay_ns - 1) / min_delay_ns + 2) &&
  (elapsed_ns <=? max_ns + 3 * NS_PER_S) &&
  Nat.eqb (length bodies) attempts && all_eq_nonzero bodies &&
  Nat.eqb (length gaps) (pred attempts) && gaps_ge delays gaps.

(** Concurrent bursts (several exports started together in one process, each with its own payload, first
    attempt answered 503, then 200): every export is delivered in two attempts, and the body of every attempt
    decompresses / decodes to that export's OWN payload, the same bytes each time. *)
Definition burst_ok (attempts : nat) (decoded : list N) (own : list bool) (err : N) : bool :=
  Nat.eqb attempts 2 && (err =? 0)%N &&
  Nat.eqb (length decoded) attempts && all_eq_nonzero decoded &&
  Nat.eqb (length own) attempts && forallb (fun b => b) own.

(** Shutdown with an already expired (or 1 ms) context while an export is in a retry loop against a collector
    that never recovers (long MaxElapsedTime, back-off <= 50 ms): Shutdown returns, the in-flight export
    returns an error, the collector sees no request later than 3 s after Shutdown returned, and a later
    Export fails. *)
Definition shutdown_expired_ok (shutdown_returned export_returned : bool) (export_err : N)
                               (late_requests : nat) (later_err : N) : bool :=
  shutdown_returned && export_returned && negb (export_err =? 0)%N &&
  Nat.eqb late_requests 0 && negb (later_err =? 0)%N.

(** The configured export timeout under option combinations (no headers / WithHeaders / OTEL_EXPORTER_OTLP_HEADERS),
    caller context without a deadline, collector that never answers or keeps failing retry-ably: the export
    returns an error no later than its bound (gRPC: the timeout, which covers the whole export; HTTP: the timeout
    is per attempt, so MaxElapsedTime + one timeout) + 10 s, no request arrives later than 2 s after it returned,
    and the configured headers are on every request that arrived.  An export that gave up in time without any
    request having reached the collector (connection not ready on a slow machine) is correct behaviour; the
    harness counts such a run as inconclusive for coverage. *)
Definition timeout_ok (returned : bool) (err : N) (elapsed_ns bound_ns : Z) (late attempts : nat) (headers_ok : bool) : bool :=
  returned && negb (err =? 0)%N && (elapsed_ns <=? bound_ns + 10 * NS_PER_S) &&
  Nat.eqb late 0 && headers_ok.

(** Transport errors of the HTTP clients (no response at all): k consecutive errors, then a working transport.
    A temporary error (net.Error with Temporary() = true, whatever Timeout() says) is retry-able: the export is
    re-sent and succeeds after k + 1 transport calls, one request reaches the collector and it carries the
    export's own payload; any other transport error is final: one call, nothing sent, an error returned. *)
Definition neterr_ok (temporary : bool) (k calls requests : nat) (body_ok : bool) (err : N) : bool :=
  if temporary then Nat.eqb calls (S k) && Nat.eqb requests 1 && body_ok && (err =? 0)%N
  else Nat.eqb calls 1 && Nat.eqb requests 0 && negb (err =? 0)%N.

(** The retry budget belongs to one export, not to the client: an exporter created longer ago than its
    MaxElapsedTime still retries, twice in a row (each export: retry-able reply, then success). *)
Definition aged_ok (attempts1 : nat) (err1 : N) (attempts2 : nat) (err2 : N) : bool :=
  Nat.eqb attempts1 2 && (err1 =? 0)%N && Nat.eqb attempts2 2 && (err2 =? 0)%N.

(** A success is delivered whatever its partial_success says; the error handler hears about it exactly when
    items were rejected or a message came along. *)
Definition partial_ok (p : partial_info) (err handled : N) : bool :=
  (err =? 0)%N &&
  (handled =? match p with
              | NoPartial => 0
              | Partial n m => if (n =? 0) && negb m then 0 else 1
              end)%N.

(** Shutdown while an export is asleep in the back-off (collector that never recovers, MaxElapsedTime far away):
    Shutdown returns, the export returns an error promptly (within 3 s of the Shutdown call, an unloaded run
    needs milliseconds), and no request arrives later than 3 s after Shutdown returned. *)
Definition shutdown_wait_ok (shutdown_returned export_returned : bool) (err : N)
                            (export_after_call_ns : Z) (late : nat) : bool :=
  shutdown_returned && export_returned && negb (err =? 0)%N &&
  (export_after_call_ns <=? 3 * NS_PER_S) && Nat.eqb late 0.

(** Attempts take time too.  [dur k] = how long attempt k took; the clock is consistent with attempts and waits when
    the first reading of iteration k comes after attempt k and each wait really lasts its length.  Then the limit
    bounds everything spent so far - every attempt including the one that just failed, every wait - plus the
    throttle about to be honoured.  (A loop that reads the clock BEFORE the attempt does not count a slow failing attempt.) *)
Definition Clock_counts_attempts (elapsed1 elapsed2 backoff dur : nat -> Z) (outs : list outcome) : Prop :=
  dur 0%nat <= elapsed1 0%nat /\
  forall k, elapsed1 k <= elapsed2 k /\
            elapsed2 k + Z.max (throttle_of (nth k outs OFinal)) (backoff k) + dur (S k) <= elapsed1 (S k).

Fixpoint spent (dur : nat -> Z) (k : nat) (ws : list Z) (i : nat) : Z :=
  dur k + match i, ws with
          | S i', w :: ws' => w + spent dur (S k) ws' i'
          | _, _ => 0
          end.

Definition Spent_within_limit (dur : nat -> Z) (max : Z) (outs : list outcome) (o : run_out) : Prop :=
  forall i, (i < length (waits o))%nat ->
            spent dur 0 (waits o) i + throttle_of (nth i outs OFinal) <= max.

(** Slow retry-able replies (each attempt takes at least [delay], each asks for [delay] more, limit < 2 * delay): the
    export gives up after the FIRST attempt with a max-retry-time error, within limit + 3 s. *)
Definition slow_attempt_ok (max_ns : Z) (attempts : nat) (err : N) (elapsed_ns : Z) : bool :=
  Nat.eqb attempts 1 && (err =? 2)%N && (elapsed_ns <=? max_ns + 3 * NS_PER_S).

(** A context that expires while the collector keeps failing retry-ably: the export returns an error (within the
    context's lifetime + 5 s of wall clock), whatever the back-off configuration - InitialInterval 0 included. *)
Definition ctx_expiry_ok (returned : bool) (err : N) : bool := returned && negb (err =? 0)%N.
