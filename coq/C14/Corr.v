(** C14 correspondence: evaluates model and spec on the exports the Go harness
    observed from the six real exporters (generated case files import this). *)
From Verif Require Import Lib.Base C14.Types C14.Model C14.Spec C14.Proofs.
Open Scope Z_scope.

(** exporter: 0 otlptracehttp, 1 otlpmetrichttp, 2 otlploghttp, 3 otlptracegrpc, 4 otlpmetricgrpc, 5 otlploggrpc.
    err: 0 nil, 1 context cancelled / deadline exceeded, 2 "max retry time ...", 3 other.
    [cancel_at = Some k]: the export context was cancelled (or the exporter shut down) once response k had been written.
    [timed]: the outcome depends on real time (short MaxElapsedTime against a collector that never recovers):
    only the specification is evaluated, and the export must have failed with a max-retry-time error no later
    than MaxElapsedTime + 3 s of wall clock ([elapsed_ns]; the slack is 60 times what an unloaded run needs). *)
Inductive case :=
| CRun (exporter : N) (enabled : bool) (max_ns : Z) (cancel_at : option nat) (timed : bool)
       (script : list response) (attempts : nat) (bodies : list N) (gaps : list Z) (err handled : N)
       (elapsed_ns : Z)
(** Throttled sequences whose delays (each below the limit, in the unit the client reads) add up beyond
    MaxElapsedTime, then a collector that never recovers: specification only ([Spec.throttled_ok]). *)
| CThrottled (exporter : N) (max_ns min_delay_ns : Z) (delays : list Z)
             (attempts : nat) (bodies : list N) (gaps : list Z) (err : N) (elapsed_ns : Z)
(** One export of a concurrent burst (HTTP exporters, with or without gzip): [decoded] = hash of the
    decompressed body of each attempt (0 when it does not decompress), [own] = it decodes to this export's payload. *)
(** Shutdown(ctx already cancelled: variant 0 / expiring after 1 ms: variant 1) during a retry loop; see
    [Spec.shutdown_expired_ok].  [before]: requests seen before Shutdown was called. *)
| CShutdownExpired (exporter variant : N) (before : nat) (shutdown_returned export_returned : bool)
                   (export_err : N) (late_requests : nat) (later_err : N)
(** WithTimeout x headers (0 none, 1 WithHeaders, 2 environment) x collector (hanging / always retry-able); see [Spec.timeout_ok]. *)
| CTimeout (exporter headers : N) (caller_deadline_later : bool)   (* the caller's context has a deadline LATER than the configured timeout *)
           (hang : bool) (timeout_ns bound_ns : Z) (returned : bool) (err : N)
           (elapsed_ns : Z) (late attempts : nat) (headers_ok : bool)
(** [k] transport errors (temporary or not) injected through WithProxy before the transport works; [calls] =
    transport (proxy function) calls, [requests] = requests that reached the collector. *)
| CNetErr (exporter : N) (temporary : bool) (k calls requests : nat) (body_ok : bool) (err : N)
(** An exporter older than its MaxElapsedTime exports twice (idle for MaxElapsedTime + margin before each);
    every export is answered retry-ably once, then accepted. *)
| CAged (exporter : N) (max_ns : Z) (attempts1 : nat) (err1 : N) (attempts2 : nat) (err2 : N)
(** One export answered OK / 200 with this partial_success; run with nothing else in flight, [handled] = partial-success
    reports the error handler received during it. *)
| CPartial (exporter : N) (p : partial_info) (err handled : N)
(** Shutdown (1 s context) called after the third attempt of an export that is retrying against a collector that never
    recovers (MaxElapsedTime 8 s): did Shutdown / the export return within the observation, the export's error class,
    how long after the Shutdown CALL each of them returned, requests later than 3 s after Shutdown returned. *)
| CShutdownWait (exporter : N) (shutdown_returned export_returned : bool) (err : N)
                (export_after_call_ns shutdown_after_call_ns : Z) (late : nat)
(** Slow retry-able replies: every attempt takes >= delay_ns at the collector and asks for delay_ns more (in the unit
    the client reads); MaxElapsedTime < 2 * delay_ns. *)
| CSlow (exporter : N) (delay_ns max_ns : Z) (attempts : nat) (err : N) (elapsed_ns : Z)
(** Export with a context that expires after 300 ms against a collector that always fails retry-ably, MaxElapsedTime 0,
    InitialInterval [initial_ns]: did the export return within 300 ms + 5 s, and with which error class. *)
| CCtxExpiry (exporter : N) (initial_ns : Z) (attempts : nat) (returned : bool) (err : N)
(** Consecutive exports on ONE exporter, every one answered with the same partial success: per export its error
    class and the partial-success reports the handler received during it. *)
| CPartialRepeat (exporter : N) (errs reports : list N)
| CBurst (exporter : N) (gzip : bool) (attempts : nat) (decoded : list N) (own : list bool) (err handled : N).

Definition flag (b : bool) (code : N) : list N := if b then [] else [code].

Definition class_of_result (r : result) : N :=
  match r with
  | ROk => 0
  | RErr ECtx => 1
  | RErr EMaxElapsed | RErr EMaxWouldElapse => 2
  | RErr EFinal => 3
  | RPending => 99
  end%N.

(** The model under the oracles of a deterministic scenario: no time passes on the clock (the limits used
    are far away or the hint alone exceeds them), the back-off adds nothing to a hint, the context is done
    exactly during the wait after response [cancel_at]. *)
Definition model_run (enabled : bool) (max_ns : Z) (cancel_at : option nat) (script : list response) : run_out :=
  retry_run (fun _ => 0) (fun _ => 0) (fun _ => 0)
            (fun k _ => match cancel_at with Some c => Nat.eqb k c | None => false end)
            {| Model.enabled := enabled; max_elapsed := max_ns |} (map classify script).

(** Known finding F-C14-1: an HTTP client, a retry-able response with Retry-After: n >= 1 seconds, and the next
    attempt arrived earlier than n seconds. *)
Fixpoint known_shape (script : list response) (gaps : list Z) : bool :=
  match script, gaps with
  | RespHttp s (Some n) p :: t, g :: gs =>
      (spec_retryable (RespHttp s (Some n) p) && (1 <=? n) && (g <? n * NS_PER_S)) || known_shape t gs
  | _ :: t, _ :: gs => known_shape t gs
  | _, _ => false
  end.

(** The same script with the HTTP hints taken out: what is left of the specification when F-C14-1 is set aside. *)
Definition without_http_hints (script : list response) : list response :=
  map (fun r => match r with RespHttp s (Some n) p => if (1 <=? n) then RespHttp s None p else r | _ => r end) script.

Definition check_case (c : case) : list N :=
  match c with
  | CRun exporter enabled max_ns cancel_at timed script attempts bodies gaps err handled elapsed_ns =>
      let m := model_run enabled max_ns cancel_at script in
      let spec := run_ok enabled max_ns cancel_at script attempts bodies gaps err handled &&
                  (if timed then (err =? 2)%N && (elapsed_ns <=? max_ns + 3 * NS_PER_S) else true) in
      flag (timed || (Nat.eqb (Types.attempts m) attempts && (class_of_result (res m) =? err)%N &&
                      (N.of_nat (Types.handled m) =? handled)%N)) V_MISMATCH ++
      (if spec then []
       else if (exporter <? 3)%N && known_shape script gaps &&
               run_ok enabled max_ns cancel_at (without_http_hints script) attempts bodies gaps err handled
            then [V_KNOWN 1] else [V_SPECFAIL])
  | CThrottled exporter max_ns min_delay_ns delays attempts bodies gaps err elapsed_ns =>
      flag (throttled_ok max_ns min_delay_ns delays attempts bodies gaps err elapsed_ns) V_SPECFAIL
  | CShutdownExpired exporter variant before sret eret eerr late later =>
      flag (shutdown_expired_ok sret eret eerr late later) V_SPECFAIL
  | CTimeout exporter headers caller_later hang timeout_ns bound_ns returned err elapsed_ns late attempts headers_ok =>
      flag (timeout_ok returned err elapsed_ns bound_ns late attempts headers_ok) V_SPECFAIL
  | CNetErr exporter temporary k calls requests body_ok err =>
      let m := retry_run (fun _ => 0) (fun _ => 0) (fun _ => 0) (fun _ _ => false)
                         {| Model.enabled := true; max_elapsed := 0 |}
                         (repeat (classify_http_neterr temporary) k ++ [OSuccess false]) in
      flag (Nat.eqb (Types.attempts m) calls && (class_of_result (res m) =? err)%N) V_MISMATCH ++
      flag (neterr_ok temporary k calls requests body_ok err) V_SPECFAIL
  | CAged exporter max_ns attempts1 err1 attempts2 err2 =>
      let script := if (exporter <? 3)%N then [RespHttp 503 None false; RespHttp 200 None false]
                    else [RespGrpc 14 None false; RespGrpc 0 None false] in
      let m := model_run true max_ns None script in   (* the clock of an export starts with the export *)
      flag (Nat.eqb (Types.attempts m) attempts1 && (class_of_result (res m) =? err1)%N &&
            Nat.eqb (Types.attempts m) attempts2 && (class_of_result (res m) =? err2)%N) V_MISMATCH ++
      flag (aged_ok attempts1 err1 attempts2 err2) V_SPECFAIL
  | CPartial exporter p err handled =>
      let o := retry_run (fun _ => 0) (fun _ => 0) (fun _ => 0) (fun _ _ => false)
                         {| Model.enabled := true; max_elapsed := 0 |} [OSuccess (reports p)] in
      flag ((class_of_result (res o) =? err)%N && (N.of_nat (Types.handled o) =? handled)%N) V_MISMATCH ++
      flag (partial_ok p err handled) V_SPECFAIL
  | CShutdownWait exporter sret eret err exp_ns shut_ns late =>
      (* known finding F-C14-2, narrowly: exactly what [shutdown_mode_of] says these exporters do *)
      let known :=
        match shutdown_mode_of exporter with
        | Interrupts => false
        | WaitsForExport => sret && eret && (err =? 2)%N && Nat.eqb late 0 && (exp_ns - NS_PER_S <=? shut_ns) && (3 * NS_PER_S <? shut_ns)   (* Shutdown came back only (about) when the export had used up its budget *)
        | Detached => sret && eret && (err =? 2)%N && (shut_ns <=? 3 * NS_PER_S)                     (* Shutdown came back at once, the export went on alone *)
        end in
      if shutdown_wait_ok sret eret err exp_ns late then [] else if known then [V_KNOWN 2] else [V_SPECFAIL]
  | CSlow exporter delay_ns max_ns attempts err elapsed_ns =>
      (* the model under a clock that counts attempts: reading k comes after k+1 attempts and k waits of delay_ns each *)
      let e := fun k => delay_ns + Z.of_nat k * (2 * delay_ns) in
      let m := retry_run e e (fun _ => 0) (fun _ _ => false) {| Model.enabled := true; max_elapsed := max_ns |}
                         [ORetry delay_ns; ORetry delay_ns; ORetry delay_ns] in
      flag (Nat.eqb (Types.attempts m) attempts && (class_of_result (res m) =? err)%N) V_MISMATCH ++
      flag (slow_attempt_ok max_ns attempts err elapsed_ns) V_SPECFAIL
  | CCtxExpiry exporter initial_ns attempts returned err =>
      (* since 4b7b30b wait() reports a done context whatever the delay: every export returns (model: one more attempt at most) *)
      flag returned V_MISMATCH ++ flag (ctx_expiry_ok returned err) V_SPECFAIL
  | CPartialRepeat exporter errs reports =>
      (* each export is a run of its own: delivered, reported once *)
      let o := retry_run (fun _ => 0) (fun _ => 0) (fun _ => 0) (fun _ _ => false)
                         {| Model.enabled := true; max_elapsed := 0 |} [OSuccess (Model.reports (Partial 4 true))] in
      flag (forallb (fun e => (class_of_result (res o) =? e)%N) errs &&
            forallb (fun r => (N.of_nat (Types.handled o) =? r)%N) reports) V_MISMATCH ++
      flag (Nat.eqb (length errs) (length reports) && negb (Nat.eqb (length errs) 0) &&
            forallb (fun e => partial_ok (Partial 4 true) e 1) errs && forallb (N.eqb 1) reports) V_SPECFAIL
  | CBurst exporter gzip attempts decoded own err handled =>
      let m := model_run true 0 None [RespHttp 503 None false; RespHttp 200 None false] in
      flag (Nat.eqb (Types.attempts m) attempts && (class_of_result (res m) =? err)%N &&
            (N.of_nat (Types.handled m) =? handled)%N) V_MISMATCH ++
      flag (burst_ok attempts decoded own err) V_SPECFAIL
  end.

Definition run (cs : list case) : list (N * N) := index_from 0 check_case cs.
