(** C14 model: the classification of collector responses by the six OTLP clients
    (otlp{trace,metric,log}{http,grpc}/client.go: the status switch + newResponseError +
    evaluate for HTTP, retryableGRPCStatus + throttleDelay for gRPC) and the retry loop
    (internal/retry/retry.go, Config.RequestFunc).  Definitions only. *)
From Verif Require Import Lib.Base C14.Types.
Open Scope Z_scope.

(** HTTP.  2xx is success; 429 / 502 / 503 / 504 build a [retryableError] whose [throttle] is the
    integer of the Retry-After header; [evaluate] returns [time.Duration(rErr.throttle)]: the header's
    SECONDS are used as NANOSECONDS (F-C14-1, modelled as the code is). *)
Definition classify_http (status : N) (retry_after : option Z) (partial : bool) : outcome :=
  if ((200 <=? status) && (status <=? 299))%N then OSuccess partial
  else if ((status =? 429) || (status =? 502) || (status =? 503) || (status =? 504))%N
       then ORetry (match retry_after with Some t => t | None => 0 end)
       else OFinal.

(** A transport error of http.Client.Do: retry-able (no throttle) iff it is a *url.Error with Temporary(). *)
Definition classify_http_neterr (temporary : bool) : outcome := if temporary then ORetry 0 else OFinal.

(** gRPC codes: OK 0, Canceled 1, Unknown 2, InvalidArgument 3, DeadlineExceeded 4, NotFound 5,
    AlreadyExists 6, PermissionDenied 7, ResourceExhausted 8, FailedPrecondition 9, Aborted 10,
    OutOfRange 11, Unimplemented 12, Internal 13, Unavailable 14, DataLoss 15, Unauthenticated 16. *)
Definition grpc_always_retryable (code : N) : bool :=
  ((code =? 1) || (code =? 4) || (code =? 10) || (code =? 11) || (code =? 14) || (code =? 15))%N.

(** [status.Code(err) == OK] is success; [retryableGRPCStatus]: the six codes retry, taking the RetryInfo
    delay when one is attached; ResourceExhausted retries only with RetryInfo; [throttleDelay]. *)
Definition classify_grpc (code : N) (retry_info : option Z) (partial : bool) : outcome :=
  if (code =? 0)%N then OSuccess partial
  else if grpc_always_retryable code then ORetry (match retry_info with Some d => d | None => 0 end)
  else if (code =? 8)%N then match retry_info with Some d => ORetry d | None => OFinal end
  else OFinal.

(** All six clients: [if resp.PartialSuccess != nil { if n != 0 || msg != "" { otel.Handle(...) } }]. *)
Definition reports (p : partial_info) : bool :=
  match p with
  | NoPartial => false
  | Partial n m => negb (n =? 0)%N || m
  end.

Definition classify (r : response) : outcome :=
  match r with
  | RespHttp s ra p => classify_http s ra p
  | RespGrpc c ri p => classify_grpc c ri p
  end.

Record config := { enabled : bool; max_elapsed : Z }.   (* MaxElapsedTime, 0 = no limit *)

Section Loop.
  (** Oracles: [elapsed1 k] / [elapsed2 k] are the two readings of time.Since(startTime) in iteration k,
      [backoff k] the k-th NextBackOff() (any value: a negative one makes the timer fire at once),
      [ctx_fires k d] whether the context is done before the timer of the k-th wait (of length d) fires. *)
  Variables elapsed1 elapsed2 backoff : nat -> Z.
  Variable ctx_fires : nat -> Z -> bool.
  Variable cfg : config.

  Definition limited : bool := negb (max_elapsed cfg =? 0).

  Definition one (h : nat) (r : result) : run_out := {| attempts := 1; waits := []; handled := h; res := r |}.

  (** [for { err := fn(ctx); ... }] over the scripted outcomes of the successive attempts. *)
  Fixpoint loop (k : nat) (outs : list outcome) : run_out :=
    match outs with
    | [] => {| attempts := 0; waits := []; handled := 0; res := RPending |}
    | OSuccess p :: _ => one (if p then 1 else 0)%nat ROk
    | OFinal :: _ => one 0 (RErr EFinal)
    | ORetry thr :: rest =>
        if limited && (elapsed1 k >? max_elapsed cfg) then one 0 (RErr EMaxElapsed)
        else
          let delay := Z.max thr (backoff k) in
          if limited && (elapsed2 k + thr >? max_elapsed cfg) then one 0 (RErr EMaxWouldElapse)
          else if ctx_fires k delay then one 0 (RErr ECtx)
          else
            let r := loop (S k) rest in
            {| attempts := S (attempts r); waits := delay :: waits r; handled := handled r; res := res r |}
    end.

  (** [Config.RequestFunc]: disabled means exactly one call of fn, its error returned as it is. *)
  Definition retry_run (outs : list outcome) : run_out :=
    if enabled cfg then loop 0 outs
    else match outs with
         | [] => {| attempts := 0; waits := []; handled := 0; res := RPending |}
         | o :: _ => one (match o with OSuccess true => 1 | _ => 0 end)%nat (report o)
         end.
End Loop.

(** ** What Shutdown does to an export that is asleep in the back-off (exporter.go / client.go of the six exporters;
    exporter numbers as in Corr: 0 tracehttp, 1 metrichttp, 2 loghttp, 3 tracegrpc, 4 metricgrpc, 5 loggrpc).
    - [Interrupts]: the stop channel (otlptracehttp) / stop context (otlptracegrpc, once Stop's own context is done)
      cancels the export's context: the wait ends with the context error.
    - [WaitsForExport]: otlpmetrichttp, otlpmetricgrpc, otlploggrpc take the exporter's client mutex, which the running
      Export holds: Shutdown blocks (whatever its context says) until the export has ended on its own.
    - [Detached]: otlploghttp swaps in a no-op client and returns; the running export is not told. *)
Inductive shutdown_mode := Interrupts | WaitsForExport | Detached.

Definition shutdown_mode_of (exporter : N) : shutdown_mode :=
  match exporter with
  | 0%N | 3%N => Interrupts
  | 2%N => Detached
  | _ => WaitsForExport
  end.

(** The context oracle of an export during which Shutdown is called in wait number [at]. *)
Definition ctx_with_shutdown (mode : shutdown_mode) (at_wait : nat) (ctx_fires : nat -> Z -> bool) : nat -> Z -> bool :=
  fun k d => ctx_fires k d || match mode with Interrupts => Nat.eqb k at_wait | _ => false end.

(** ** wait(ctx, delay), faithfully (retry.go).  Since commit 4b7b30b it returns the context error at once when the context
    is already done, whatever the delay; a context that ends during the wait is still reported unless the timer has fired
    by then.  [ctx_done k]: the context is done when the k-th wait begins (or ends before its timer). *)
Definition wait_ctx_fires (ctx_done : nat -> bool) : nat -> Z -> bool :=
  fun k _ => ctx_done k.

(** The wait before 4b7b30b (F-C14-3): the context error was returned only when the timer had NOT fired, and a timer of
    length <= 0 has always fired by the time it is looked at. *)
Definition wait_ctx_fires_old (ctx_done : nat -> bool) : nat -> Z -> bool :=
  fun k d => ctx_done k && (0 <? d).
