(** C16: the tracer side ([tstep]): invariants, forwarding, deadlock freedom. *)
From Coq Require Import List Arith NArith Bool Lia.
From Verif Require Import C16.Spec C16.Hist C16.Model C16.Inv C16.Inv4.
Import ListNotations.

Ltac simp_tst :=
  cbn [tlock tonce tpdel tmap tdel tpcs thist tset_pc tset_lock tset_once tset_pdel tset_map tset_del temit] in *.

Ltac inv_tstep Hs :=
  unfold tstep in Hs;
  repeat match type of Hs with
         | context [match ?x with _ => _ end] => destruct x eqn:?; try discriminate
         end;
  inversion Hs; subst; clear Hs.

Definition t_is_ipc (p : tpc) : bool :=
  match p with TILock | TIHold | TILoop _ | TIFinish => true | _ => false end.
Definition t_holds (p : tpc) : bool :=
  match p with THold | TIHold | TILoop _ => true | _ => false end.
Definition t_loop (p : tpc) : list nat := match p with TILoop l => l | _ => [] end.
Definition tpending (s : tst) : list nat :=
  if tpdel s then match tonce s with ORun u => t_loop (tpcs s u) | _ => [] end else tmap s.

Record TInv (s : tst) : Prop := mkTInv {
  t_once : forall u, orun (tonce s) = Some u <-> t_is_ipc (tpcs s u) = true;
  t_lock : forall u, tlock s = Some u <-> t_holds (tpcs s u) = true;
  t_pdel : tpdel s = false -> tonce s = ONew \/ exists u, tonce s = ORun u /\ (tpcs s u = TILock \/ tpcs s u = TIHold);
  t_pend : forall t, tdel s t = Some false -> In t (tpending s);
  t_span : forall u tr, tpcs s u = TSpan tr -> tdel s tr <> None;
  t_iret : inb ETInstallRet (thist s) = true -> tonce s = ODone;
  t_cnt : forall n, count (ESdkSpan #n) (thist s) <= 1 /\ (tpcs s n <> TDone -> count (ESdkSpan #n) (thist s) = 0);
  t_ret : forall n, inb (ESpanRet #n) (thist s) = true -> tpcs s n = TDone;
  t_call : forall n tr tr', tpcs s n = TSpan tr -> inb (ESpanCall #tr' #n) (after ETInstallRet (thist s)) = true ->
                            tonce s = ODone;
  t_fwd : forall n tr, inb (ESpanCall #tr #n) (after ETInstallRet (thist s)) = true ->
                       inb (ESpanRet #n) (thist s) = true -> count (ESdkSpan #n) (thist s) = 1;
  t_tret : forall t, inb (ETracerRet #t) (thist s) = true -> tdel s t <> None }.

Ltac get_tinv HT :=
  pose proof (t_once _ HT) as To; pose proof (t_lock _ HT) as Tl; pose proof (t_pdel _ HT) as Tpd;
  pose proof (t_pend _ HT) as Tp; pose proof (t_span _ HT) as Ts; pose proof (t_iret _ HT) as Ti;
  pose proof (t_cnt _ HT) as Tc; pose proof (t_ret _ HT) as Tr; pose proof (t_call _ HT) as Tca;
  pose proof (t_fwd _ HT) as Tf; pose proof (t_tret _ HT) as Ttr.

Section TLockLemmas.
  Variable h : tpc -> bool.
  Variable f : nat -> tpc.
  Variable t : nat.
  Variable P : tpc.
  Lemma tlock_keep l : (forall u, l = Some u <-> h (f u) = true) -> h (f t) = h P ->
    forall u, l = Some u <-> h (upd f t P u) = true.
  Proof.
    intros H E u. destruct (Nat.eq_dec u t) as [->|Hn].
    - rewrite upd_same, <- E. apply H.
    - rewrite upd_other by auto. apply H.
  Qed.
  Lemma tlock_acquire : (forall u, None = Some u <-> h (f u) = true) -> h P = true ->
    forall u, Some t = Some u <-> h (upd f t P u) = true.
  Proof.
    intros H E u. destruct (Nat.eq_dec u t) as [->|Hn].
    - rewrite upd_same. tauto.
    - rewrite upd_other by auto. split; [intro X; inversion X; congruence|].
      intro X. apply H in X. discriminate.
  Qed.
  Lemma tlock_release l : (forall u, l = Some u <-> h (f u) = true) -> h (f t) = true -> h P = false ->
    forall u, None = Some u <-> h (upd f t P u) = true.
  Proof.
    intros H E1 E2 u. split; [discriminate|]. destruct (Nat.eq_dec u t) as [->|Hn].
    - rewrite upd_same. congruence.
    - rewrite upd_other by auto. intro X. apply H in X. apply H in E1. congruence.
  Qed.
End TLockLemmas.

Ltac use_tpc := match goal with E : tpcs ?s ?t = _ |- _ => rewrite E end.
Ltac tlk H :=
  first
    [ apply tlock_keep; [exact H | use_tpc; sc]
    | apply tlock_acquire;
      [ first [exact H | match goal with E : ?l = None |- _ => rewrite <- E; exact H end] | sc ]
    | eapply tlock_release; [exact H | use_tpc; sc | sc] ].

Ltac trw :=
  repeat match goal with
         | E : ?l = _ |- context [?l] =>
             lazymatch l with tonce _ => idtac | tlock _ => idtac | tpdel _ => idtac | tdel _ _ => idtac end;
             rewrite E
         end.

Lemma tstep_once prog s t s' : TInv s -> tstep prog s t = Some s' ->
  forall u, orun (tonce s') = Some u <-> t_is_ipc (tpcs s' u) = true.
Proof.
  intros HT Hs. get_tinv HT. clear HT. inv_tstep Hs; simp_tst; trw; unfold orun in *; cbv iota in *; tlk To.
Qed.

Lemma tstep_lock prog s t s' : TInv s -> tstep prog s t = Some s' ->
  forall u, tlock s' = Some u <-> t_holds (tpcs s' u) = true.
Proof.
  intros HT Hs. get_tinv HT. clear HT. inv_tstep Hs; simp_tst; trw; tlk Tl.
Qed.

Ltac tipc_once :=
  match goal with
  | To : forall u, orun (tonce ?s) = Some u <-> _, E : tpcs ?s ?t = ?P |- _ =>
      lazymatch eval cbn in (t_is_ipc P) with
      | true =>
          let X := fresh "Eo" in
          assert (X : orun (tonce s) = Some t) by (apply To; rewrite E; reflexivity);
          destruct (tonce s) eqn:?; try discriminate X; cbn [orun] in X; inversion X; subst; clear X
      end
  end.
Ltac tnot_installer :=
  let u := fresh "u" in let X := fresh in
  intros u X;
  match goal with
  | To : forall u, orun (tonce ?s) = Some u <-> _, E : tpcs ?s ?t = _ |- _ =>
      apply To in X; intro; subst u; rewrite E in X; discriminate X
  end.

Lemma tearly_keep (o : once_t) (f : nat -> tpc) t P :
  (o = ONew \/ exists u, o = ORun u /\ (f u = TILock \/ f u = TIHold)) ->
  f t <> TILock -> f t <> TIHold ->
  o = ONew \/ exists u, o = ORun u /\ (upd f t P u = TILock \/ upd f t P u = TIHold).
Proof.
  intros [E|[u [E H]]] H1 H2; [left; exact E|]. right. exists u. split; [exact E|].
  destruct (Nat.eq_dec u t) as [->|Hn]; [destruct H; congruence|]. now rewrite upd_other.
Qed.

Lemma tstep_pdel prog s t s' : TInv s -> tstep prog s t = Some s' ->
  tpdel s' = false -> tonce s' = ONew \/ exists u, tonce s' = ORun u /\ (tpcs s' u = TILock \/ tpcs s' u = TIHold).
Proof.
  intros HT Hs. get_tinv HT. clear HT. inv_tstep Hs; try tipc_once; simp_tst; intro Hd;
    try discriminate;
    try (right; eexists; split; [first [reflexivity | eassumption]|]; rewrite upd_same; tauto);
    try (apply tearly_keep; [auto | congruence | congruence]);
    try (exfalso; destruct (Tpd Hd) as [X|[u [X [Y|Y]]]]; congruence);
    try congruence.
Qed.

Lemma tloop_other s t P : (forall u, orun (tonce s) = Some u -> u <> t) ->
  match tonce s with ORun u => t_loop (upd (tpcs s) t P u) | _ => [] end =
  match tonce s with ORun u => t_loop (tpcs s u) | _ => [] end.
Proof. intro H. destruct (tonce s) eqn:E; try reflexivity. rewrite upd_other; [reflexivity|]. apply H. reflexivity. Qed.

Lemma tstep_pend prog s t s' : TInv s -> tstep prog s t = Some s' ->
  forall x, tdel s' x = Some false -> In x (tpending s').
Proof.
  intros HT Hs. get_tinv HT. clear HT. unfold tpending in *.
  inv_tstep Hs; try tipc_once; simp_tst; intros x Hx;
    try (rewrite tloop_other by tnot_installer; apply Tp; assumption).
  all: try (try match goal with E : tonce _ = _ |- _ => rewrite E in * end;
            rewrite ?tloop_other by tnot_installer;
            rewrite ?upd_same in *; upd_cases; try discriminate;
            try (pose proof (Tp _ Hx) as X;
                 try match goal with E : tpcs _ _ = _ |- _ => rewrite E in X end);
            cbn [t_loop] in *;
            repeat match goal with
                   | |- context [tpdel ?s] => destruct (tpdel s) eqn:?
                   | H : context [if tpdel ?s then _ else _] |- _ => destruct (tpdel s) eqn:?
                   end;
            try discriminate; try congruence; try assumption;
            try (apply in_or_app; auto; fail);
            try (apply in_or_app; right; left; reflexivity);
            try (destruct X as [X|X]; [congruence | assumption]);
            try (destruct X; fail);
            try (exfalso; destruct (Tpd eq_refl) as [Y|[u [Y [Z|Z]]]]; congruence)).
Qed.

Lemma tstep_span prog s t s' : TInv s -> tstep prog s t = Some s' ->
  forall u tr, tpcs s' u = TSpan tr -> tdel s' tr <> None.
Proof.
  intros HT Hs. get_tinv HT. clear HT.
  inv_tstep Hs; simp_tst; intros u' tr' Hu'; upd_cases; try discriminate;
    try (inversion Hu'; subst; congruence); try (eapply Ts; eassumption).
Qed.

Lemma tstep_iret prog s t s' : TInv s -> tstep prog s t = Some s' ->
  inb ETInstallRet (thist s') = true -> tonce s' = ODone.
Proof.
  intros HT Hs. get_tinv HT. clear HT.
  inv_tstep Hs; simp_tst; intros Hr'; hist_simp; ev_cases; rewrite ?orb_false_r in *;
    try reflexivity; try (apply Ti; assumption); try assumption; try (apply Ti in Hr'; congruence).
Qed.

Lemma tstep_cnt prog s t s' : TInv s -> tstep prog s t = Some s' ->
  forall n, count (ESdkSpan #n) (thist s') <= 1 /\ (tpcs s' n <> TDone -> count (ESdkSpan #n) (thist s') = 0).
Proof.
  intros HT Hs. get_tinv HT. clear HT.
  inv_tstep Hs; simp_tst; intros n'; destruct (Tc n') as [G1 G2]; hist_simp; ev_cases; upd_cases; cbn;
    rewrite ?Nat.add_0_r; try (split; [assumption | first [assumption | congruence]]);
    try (split; [assumption | intros _; apply G2; congruence]);
    try (rewrite G2 by congruence; split; [lia | congruence]).
Qed.

Lemma tstep_ret prog s t s' : TInv s -> tstep prog s t = Some s' ->
  forall n, inb (ESpanRet #n) (thist s') = true -> tpcs s' n = TDone.
Proof.
  intros HT Hs. get_tinv HT. clear HT.
  inv_tstep Hs; simp_tst; intros n' Hn'; hist_simp; ev_cases; upd_cases; rewrite ?orb_false_r in *;
    try reflexivity; try (apply Tr; assumption); try (apply Tr in Hn'; congruence).
Qed.

Lemma tstep_tret prog s t s' : TInv s -> tstep prog s t = Some s' ->
  forall x, inb (ETracerRet #x) (thist s') = true -> tdel s' x <> None.
Proof.
  intros HT Hs. get_tinv HT. clear HT.
  inv_tstep Hs; simp_tst; intros x Hx; hist_simp; ev_cases; upd_cases; rewrite ?orb_false_r in *;
    try discriminate; try (apply Ttr; assumption).
Qed.

Lemma tstep_call prog s t s' : TInv s -> tstep prog s t = Some s' ->
  forall n tr tr', tpcs s' n = TSpan tr -> inb (ESpanCall #tr' #n) (after ETInstallRet (thist s')) = true ->
                   tonce s' = ODone.
Proof.
  intros HT Hs. get_tinv HT. clear HT.
  inv_tstep Hs; simp_tst; intros n' i0 i' Hn' Hc';
    repeat (hist_simp2;
            match goal with H : context [if ?b then _ else _] |- _ => destruct b eqn:? end);
    hist_simp2; upd_cases; try discriminate; ev_cases; rewrite ?orb_false_r, ?orb_true_r in *;
    try (cbn in Hc'; discriminate);
    try (eapply Tca; eassumption);
    try (apply Ti; assumption);
    try reflexivity;
    try (assert (X : tonce s = ODone) by (first [eapply Tca; eassumption | apply Ti; assumption]); congruence);
    try (apply Ti; reflexivity);
    try (exfalso; pose proof (Tca _ _ _ Hn' Hc') as X; discriminate X);
    try assumption.
Qed.

Lemma tall_delegated s : TInv s -> tonce s = ODone -> forall x, tdel s x <> Some false.
Proof.
  intros HT Hd x Hx. pose proof (t_pend _ HT x Hx) as X. unfold tpending in X.
  destruct (tpdel s) eqn:E.
  - rewrite Hd in X. destruct X.
  - destruct (t_pdel _ HT E) as [Y|[u [Y _]]]; congruence.
Qed.

Lemma tstep_fwd prog s t s' : TInv s -> tstep prog s t = Some s' ->
  forall n tr, inb (ESpanCall #tr #n) (after ETInstallRet (thist s')) = true ->
               inb (ESpanRet #n) (thist s') = true -> count (ESdkSpan #n) (thist s') = 1.
Proof.
  intros HT Hs. pose proof (tall_delegated s HT) as Hall. get_tinv HT. clear HT.
  inv_tstep Hs; simp_tst; intros n' i' Hc' Hr'; destruct (Tc n') as [G1 G2];
    repeat (hist_simp2;
            match goal with H : context [if ?b then _ else _] |- _ => destruct b eqn:? end);
    hist_simp2; ev_cases; rewrite ?orb_false_r, ?orb_true_r in *;
    try (cbn in Hc'; discriminate);
    rewrite ?Nat.add_0_r;
    try (eapply Tf; eassumption);
    try (apply Tr in Hr'; congruence);
    try (rewrite G2 by congruence; reflexivity);
    try congruence;
    try (exfalso;
         match goal with
         | E : tpcs ?s ?t = TSpan ?i |- _ =>
             assert (X : tonce s = ODone) by (eapply Tca; eassumption);
             pose proof (Hall X i); pose proof (Ts _ _ E); congruence
         end).
Qed.

Lemma tstep_inv prog s t s' : TInv s -> tstep prog s t = Some s' -> TInv s'.
Proof.
  intros HT Hs. constructor.
  - eapply tstep_once; eassumption.
  - eapply tstep_lock; eassumption.
  - eapply tstep_pdel; eassumption.
  - eapply tstep_pend; eassumption.
  - eapply tstep_span; eassumption.
  - eapply tstep_iret; eassumption.
  - eapply tstep_cnt; eassumption.
  - eapply tstep_ret; eassumption.
  - eapply tstep_call; eassumption.
  - eapply tstep_fwd; eassumption.
  - eapply tstep_tret; eassumption.
Qed.

Lemma tinit_inv : TInv tinit.
Proof.
  constructor; cbn; intros; try (split; discriminate); try discriminate; try reflexivity; try tauto.
  all: try (left; reflexivity).
  all: try (split; [lia | reflexivity]).
Qed.

Lemma trun_inv prog sch : forall s0 s, TInv s0 -> trun prog s0 sch = Some s -> TInv s.
Proof.
  induction sch as [|t r IH]; cbn; intros s0 s H0 Hr.
  - inversion Hr; subst. exact H0.
  - destruct (tstep prog s0 t) eqn:Hs; [|discriminate]. eapply IH; [|exact Hr]. eapply tstep_inv; eassumption.
Qed.

Lemma treachable prog sch s : trun prog tinit sch = Some s -> TInv s.
Proof. apply trun_inv, tinit_inv. Qed.

(** ** Deadlock freedom: delegateTraceOnce < tracerProvider.mtx, and the lock holder never waits. *)
Definition tprogress (prog : nat -> top) (s : tst) : Prop := exists u s', tstep prog s u = Some s'.

Ltac tenabled_by u E :=
  exists u; unfold tstep; rewrite E;
  repeat match goal with
         | |- context [match ?x with _ => _ end] => destruct x
         end;
  eexists; reflexivity.

Lemma tholder_progress prog s u : TInv s -> tlock s = Some u -> tprogress prog s.
Proof.
  intros HT H. apply (t_lock _ HT) in H. destruct (tpcs s u) eqn:E; cbn in H; try discriminate; tenabled_by u E.
Qed.

Lemma twait_progress prog s t : TInv s -> tpcs s t = TWait \/ tpcs s t = TILock -> tprogress prog s.
Proof.
  intros HT H. destruct (tlock s) as [u|] eqn:El; [eapply tholder_progress; eassumption|].
  destruct H as [E|E]; exists t; unfold tstep; rewrite E, El; eexists; reflexivity.
Qed.

Lemma tinstaller_progress prog s u : TInv s -> t_is_ipc (tpcs s u) = true -> tprogress prog s.
Proof.
  intros HT H. destruct (tpcs s u) eqn:E; cbn in H; try discriminate.
  - eapply twait_progress; [exact HT|]. right. exact E.
  - tenabled_by u E.
  - tenabled_by u E.
  - tenabled_by u E.
Qed.

Lemma tunfinished_progress prog s t : TInv s -> ~ tfinished prog s t -> tprogress prog s.
Proof.
  intros HT Hn. destruct (tpcs s t) eqn:E.
  - destruct (prog t) eqn:Ep.
    + exfalso. apply Hn. right. auto.
    + exists t. unfold tstep. rewrite E, Ep. eexists. reflexivity.
    + exists t. unfold tstep. rewrite E, Ep. destruct (tdel s tr); eexists; reflexivity.
    + exists t. unfold tstep. rewrite E, Ep. eexists. reflexivity.
  - exfalso. apply Hn. left. exact E.
  - eapply twait_progress; [exact HT|]. left. exact E.
  - tenabled_by t E.
  - tenabled_by t E.
  - destruct (tonce s) as [|u|] eqn:Eo.
    + exists t. unfold tstep. rewrite E, Eo. eexists. reflexivity.
    + eapply (tinstaller_progress prog s u HT). apply (t_once _ HT). rewrite Eo. reflexivity.
    + exists t. unfold tstep. rewrite E, Eo. eexists. reflexivity.
  - eapply tinstaller_progress; [exact HT|]. rewrite E. reflexivity.
  - eapply tinstaller_progress; [exact HT|]. rewrite E. reflexivity.
  - eapply tinstaller_progress; [exact HT|]. rewrite E. reflexivity.
  - eapply tinstaller_progress; [exact HT|]. rewrite E. reflexivity.
Qed.
