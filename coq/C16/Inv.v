(** C16: invariants of the meter-side transition system ([step false], the
    protocol of the repaired code), each preserved by every step of every thread. *)
From Coq Require Import List Arith NArith Bool Lia.
From Verif Require Import C16.Spec C16.Hist C16.Model.
Import ListNotations.

(** ** Infrastructure *)

Lemma upd_same {A} (f : nat -> A) t v : upd f t v t = v.
Proof. unfold upd. now rewrite Nat.eqb_refl. Qed.

Lemma upd_other {A} (f : nat -> A) t v u : u <> t -> upd f t v u = f u.
Proof. unfold upd. intro H. destruct (Nat.eqb_spec u t); congruence. Qed.

Ltac simp_st :=
  cbn [plock mlock ulock once pdel mlist mcreated mdel imap registry ist unreg sreg sunreg pcs hist
       set_plock set_mlock set_ulock set_once set_pdel set_mlist set_mcreated set_mdel set_imap
       set_registry set_ist set_unreg set_sreg set_sunreg set_pc emit sdk_register sdk_unregister
       delegate_inst] in *.

(** [inv_step Hs]: case analysis of one step into its explicit successor states. *)
Ltac inv_step Hs :=
  unfold step, start in Hs;
  repeat match type of Hs with
         | context [match ?x with _ => _ end] => destruct x eqn:?; try discriminate
         end;
  inversion Hs; subst; clear Hs.

(** Number of successor shapes (a smoke test of the tactic; also documents the case count). *)
Goal forall prog s t s', step false prog s t = Some s' -> True.
Proof. intros prog s t s' Hs. inv_step Hs. all: exact I. Qed.

(** ** Which program counters hold which lock *)
Definition is_ipc (p : pc) : bool :=
  match p with
  | ILockP | IWalk0 | IWalk _ | IMeter _ _ | IInsts _ _ _ | IRegs _ _ _ | IReg _ _ _ _ | IFinish => true
  | _ => false
  end.
Definition holds_p (p : pc) : bool :=
  match p with
  | MHold _ | IWalk0 | IWalk _ | IMeter _ _ | IInsts _ _ _ | IRegs _ _ _ | IReg _ _ _ _ => true
  | _ => false
  end.
Definition holds_m (k : nat) (p : pc) : bool :=
  match p with
  | CHold k' | AHold k' _ | GHold k' | UInM _ k' | IMeter k' _ | IInsts k' _ _ => Nat.eqb k' k
  | _ => false
  end.
Definition holds_u (r : nat) (p : pc) : bool :=
  match p with
  | UHold r' | UWaitM r' _ | UInM r' _ | UFin r' | IReg _ r' _ _ => Nat.eqb r' r
  | _ => false
  end.

Section LockLemmas.
  Variable h : pc -> bool.
  Variable f : nat -> pc.
  Variable t : nat.
  Variable P : pc.

  Lemma lock_keep l : (forall u, l = Some u <-> h (f u) = true) -> h (f t) = h P ->
    forall u, l = Some u <-> h (upd f t P u) = true.
  Proof.
    intros H E u. destruct (Nat.eq_dec u t) as [->|Hn].
    - rewrite upd_same, <- E. apply H.
    - rewrite upd_other by auto. apply H.
  Qed.

  Lemma lock_acquire : (forall u, None = Some u <-> h (f u) = true) -> h P = true ->
    forall u, Some t = Some u <-> h (upd f t P u) = true.
  Proof.
    intros H E u. destruct (Nat.eq_dec u t) as [->|Hn].
    - rewrite upd_same. tauto.
    - rewrite upd_other by auto. split; [intro X; inversion X; congruence|].
      intro X. apply H in X. discriminate.
  Qed.

  Lemma lock_release l : (forall u, l = Some u <-> h (f u) = true) -> h (f t) = true -> h P = false ->
    forall u, None = Some u <-> h (upd f t P u) = true.
  Proof.
    intros H E1 E2 u. split; [discriminate|]. destruct (Nat.eq_dec u t) as [->|Hn].
    - rewrite upd_same. congruence.
    - rewrite upd_other by auto. intro X. apply H in X. apply H in E1. congruence.
  Qed.
End LockLemmas.

(** ** Invariant 1: control (who is the installer, who holds which lock, freshness) *)
Definition orun (o : once_t) : option nat := match o with ORun u => Some u | _ => None end.

(** Registrations the installer has collected from meter k and not yet handed over. *)
Definition inst_regs (p : pc) (k : nat) : list nat :=
  match p with
  | IRegs k' rs _ => if Nat.eqb k' k then rs else []
  | IReg k' r rs _ => if Nat.eqb k' k then r :: rs else []
  | _ => []
  end.

Record Inv1 (s : st) : Prop := mkInv1 {
  i_once : forall u, orun (once s) = Some u <-> is_ipc (pcs s u) = true;
  i_plock : forall u, plock s = Some u <-> holds_p (pcs s u) = true;
  i_mlock : forall k u, mlock s k = Some u <-> holds_m k (pcs s u) = true;
  i_ulock : forall r u, ulock s r = Some u <-> holds_u r (pcs s u) = true;
  i_fresh : forall r, unreg s r <> RNone -> pcs s r = Done;
  i_rrec : forall u i, pcs s u = RRec i -> ist s i <> INone;
  i_uwm : forall u r k, pcs s u = UWaitM r k \/ pcs s u = UInM r k -> unreg s r = RLocal k;
  i_ufin : forall u r, pcs s u = UFin r -> exists k, unreg s r = RLocal k;
  i_ufin_out : forall u r k, pcs s u = UFin r -> ~ In r (registry s k);
  i_registry : forall k r, In r (registry s k) -> unreg s r = RLocal k;
  i_nodup : forall k, NoDup (registry s k);
  i_iregs : forall u k r, In r (inst_regs (pcs s u) k) -> unreg s r = RLocal k \/ unreg s r = RNil;
  i_iregs_nodup : forall u k, NoDup (inst_regs (pcs s u) k);
  i_iregs_out : forall u k r k', In r (inst_regs (pcs s u) k) -> ~ In r (registry s k') }.

Ltac get_inv HI :=
  pose proof (i_once _ HI) as Ho; pose proof (i_plock _ HI) as Hp; pose proof (i_mlock _ HI) as Hm;
  pose proof (i_ulock _ HI) as Hu; pose proof (i_fresh _ HI) as Hf; pose proof (i_rrec _ HI) as Hrr;
  pose proof (i_uwm _ HI) as Hw; pose proof (i_ufin _ HI) as Hfin; pose proof (i_ufin_out _ HI) as Hfo;
  pose proof (i_registry _ HI) as Hreg; pose proof (i_nodup _ HI) as Hnd;
  pose proof (i_iregs _ HI) as Hir; pose proof (i_iregs_nodup _ HI) as Hind;
  pose proof (i_iregs_out _ HI) as Hio.

Ltac sc :=
  cbn; rewrite ?Nat.eqb_refl; try reflexivity;
  try (apply Nat.eqb_neq; congruence); try (symmetry; apply Nat.eqb_neq; congruence); try congruence.

Ltac use_pc := match goal with E : pcs ?s ?t = _ |- _ => rewrite E end.

(** Solve [forall u, l' = Some u <-> h (upd (pcs s) t P u) = true] from the old fact H. *)
Ltac lk H :=
  first
    [ apply lock_keep; [exact H | use_pc; sc]
    | apply lock_acquire;
      [ first [exact H | match goal with E : ?l = None |- _ => rewrite <- E; exact H end] | sc ]
    | eapply lock_release; [exact H | use_pc; sc | sc] ].

Ltac split_upd :=
  match goal with
  | |- context [upd _ ?k0 _ ?k] =>
      lazymatch k with
      | k0 => fail
      | _ => destruct (Nat.eq_dec k k0) as [->|?]; [rewrite ?upd_same | rewrite ?upd_other by assumption]
      end
  end.

(** Use the equations produced by the case analysis of a step in the goal. *)
Ltac rw_eqs :=
  repeat match goal with
         | E : ?l = _ |- context [?l] =>
             lazymatch l with
             | once _ => idtac | pdel _ => idtac | mdel _ _ => idtac | mcreated _ _ => idtac
             | unreg _ _ => idtac | ist _ _ => idtac | plock _ => idtac | mlock _ _ => idtac
             | ulock _ _ => idtac
             end; rewrite E
         end.

Lemma step_once prog s t s' : Inv1 s -> step false prog s t = Some s' ->
  forall u, orun (once s') = Some u <-> is_ipc (pcs s' u) = true.
Proof.
  intros HI Hs. get_inv HI. clear HI. inv_step Hs; simp_st; rw_eqs; unfold orun in *; cbv iota in *; lk Ho.
Qed.

Lemma step_plock prog s t s' : Inv1 s -> step false prog s t = Some s' ->
  forall u, plock s' = Some u <-> holds_p (pcs s' u) = true.
Proof.
  intros HI Hs. get_inv HI. clear HI. inv_step Hs; simp_st; rw_eqs; lk Hp.
Qed.

Lemma step_mlock prog s t s' : Inv1 s -> step false prog s t = Some s' ->
  forall k u, mlock s' k = Some u <-> holds_m k (pcs s' u) = true.
Proof.
  intros HI Hs. get_inv HI. clear HI. inv_step Hs; simp_st;
    (let kk := fresh "kk" in intro kk; pose proof (Hm kk) as Hk; try split_upd; rw_eqs; lk Hk).
Qed.

Lemma step_ulock prog s t s' : Inv1 s -> step false prog s t = Some s' ->
  forall r u, ulock s' r = Some u <-> holds_u r (pcs s' u) = true.
Proof.
  intros HI Hs. get_inv HI. clear HI. inv_step Hs; simp_st;
    (let kk := fresh "kk" in intro kk; pose proof (Hu kk) as Hk; try split_upd; rw_eqs; lk Hk).
Qed.

Ltac upd_cases :=
  rewrite ?upd_same in *;
  repeat match goal with
         | |- context [upd _ ?a _ ?b] =>
             destruct (Nat.eq_dec b a) as [->|?];
             [rewrite ?upd_same in * | rewrite ?upd_other in * by assumption]
         | H : context [upd _ ?a _ ?b] |- _ =>
             destruct (Nat.eq_dec b a) as [->|?];
             [rewrite ?upd_same in * | rewrite ?upd_other in * by assumption]
         end.

(** Facts about the object the stepping thread is working on, from its program counter. *)
Ltac pc_facts :=
  try match goal with
      | E : pcs ?s ?t = UFin ?r, Hfin : forall u r, pcs ?s u = UFin r -> exists k, _ |- _ =>
          let kf := fresh "kf" in let Ef := fresh "Ef" in destruct (Hfin _ _ E) as [kf Ef]
      | E : pcs ?s ?t = UWaitM ?r ?k, Hw : forall u r k, _ \/ _ -> unreg ?s r = RLocal k |- _ =>
          let Ef := fresh "Ef" in pose proof (Hw t r k (or_introl E)) as Ef
      | E : pcs ?s ?t = UInM ?r ?k, Hw : forall u r k, _ \/ _ -> unreg ?s r = RLocal k |- _ =>
          let Ef := fresh "Ef" in pose proof (Hw t r k (or_intror E)) as Ef
      | E : pcs ?s ?t = IReg ?k ?r ?rs ?todo, Hir : forall u k r, In r (inst_regs _ k) -> _ |- _ =>
          let Ef := fresh "Ef" in
          assert (Ef : unreg s r = RLocal k \/ unreg s r = RNil)
            by (apply (Hir t k r); rewrite E; cbn; rewrite Nat.eqb_refl; left; reflexivity)
      end.

Lemma step_fresh prog s t s' : Inv1 s -> step false prog s t = Some s' ->
  forall r, unreg s' r <> RNone -> pcs s' r = Done.
Proof.
  intros HI Hs. get_inv HI. clear HI. inv_step Hs; pc_facts; simp_st; intros r' Hr; upd_cases;
    try reflexivity; try (apply Hf; congruence);
    try (match goal with E : pcs s ?x = _ |- _ => rewrite Hf in E by congruence; discriminate end);
    try (apply Hf; destruct Ef; congruence);
    try (exfalso; destruct Ef as [Ef|Ef];
         match goal with E : pcs s ?x = _ |- _ => rewrite Hf in E by congruence; discriminate end).
Qed.

Lemma deleg_none x : deleg x = INone -> x = INone.
Proof. destruct x; cbn; congruence. Qed.

Ltac contra_fresh :=
  exfalso;
  match goal with
  | E : pcs ?s ?x = _, Hf : forall r, unreg ?s r <> RNone -> pcs ?s r = Done |- _ =>
      rewrite Hf in E by congruence; discriminate
  end.

Lemma step_rrec prog s t s' : Inv1 s -> step false prog s t = Some s' ->
  forall u i, pcs s' u = RRec i -> ist s' i <> INone.
Proof.
  intros HI Hs. get_inv HI. clear HI. inv_step Hs; pc_facts; simp_st; intros u' i' Hu'; upd_cases;
    try discriminate; try (inversion Hu'; subst; congruence);
    try (eapply Hrr; eassumption);
    try (intro X; apply deleg_none in X; revert X; eapply Hrr; eassumption).
Qed.

(** Two different threads cannot both be at program counters that hold the same lock. *)
Ltac ulock_contra :=
  exfalso;
  match goal with
  | Hu : forall r u, ulock ?s r = Some u <-> _, E1 : pcs ?s ?t = _, E2 : pcs ?s ?u = _, n : ?u <> ?t |- _ =>
      match goal with
      | r : nat |- _ =>
          assert (ulock s r = Some t) by (apply Hu; rewrite E1; sc);
          assert (ulock s r = Some u) by (apply Hu; rewrite E2; sc); congruence
      end
  end.
Ltac mlock_contra :=
  exfalso;
  match goal with
  | Hm : forall k u, mlock ?s k = Some u <-> _, E1 : pcs ?s ?t = _, E2 : pcs ?s ?u = _, n : ?u <> ?t |- _ =>
      match goal with
      | k : nat |- _ =>
          assert (mlock s k = Some t) by (apply Hm; rewrite E1; sc);
          assert (mlock s k = Some u) by (apply Hm; rewrite E2; sc); congruence
      end
  end.

Lemma step_uwm prog s t s' : Inv1 s -> step false prog s t = Some s' ->
  forall u r k, pcs s' u = UWaitM r k \/ pcs s' u = UInM r k -> unreg s' r = RLocal k.
Proof.
  intros HI Hs. get_inv HI. clear HI. inv_step Hs; pc_facts; simp_st; intros u' r' k' Hu'; upd_cases;
    try (destruct Hu' as [Hu'|Hu']; discriminate);
    try (destruct Hu' as [Hu'|Hu']; inversion Hu'; subst; congruence);
    try (eapply Hw; eassumption);
    try (pose proof (Hw _ _ _ Hu'); congruence);
    try (pose proof (Hw _ _ _ Hu'); contra_fresh);
    try (destruct Hu' as [Hu'|Hu']; ulock_contra).
Qed.

Lemma in_remove_nat x r l : In x (remove_nat r l) <-> In x l /\ x <> r.
Proof.
  induction l as [|y l IH]; cbn; [tauto|].
  destruct (Nat.eqb_spec r y) as [->|Hn]; cbn; rewrite IH; intuition congruence.
Qed.

Lemma nodup_remove_nat r l : NoDup l -> NoDup (remove_nat r l).
Proof.
  induction 1 as [|y l Hy Hl IH]; cbn; [constructor|].
  destruct (Nat.eqb_spec r y); [exact IH|]. constructor; [|exact IH].
  rewrite in_remove_nat. tauto.
Qed.

Lemma nodup_snoc (x : nat) l : NoDup l -> ~ In x l -> NoDup (l ++ [x]).
Proof.
  induction 1 as [|y l Hy Hl IH]; cbn; intro Hx.
  - constructor; [tauto | constructor].
  - constructor; [rewrite in_app_iff; cbn; intuition congruence | apply IH; tauto].
Qed.

Lemma step_ufin prog s t s' : Inv1 s -> step false prog s t = Some s' ->
  forall u r, pcs s' u = UFin r -> exists k, unreg s' r = RLocal k.
Proof.
  intros HI Hs. get_inv HI. clear HI. inv_step Hs; pc_facts; simp_st; intros u' r' Hu'; upd_cases;
    try discriminate;
    try (inversion Hu'; subst; eauto; fail);
    try (eapply Hfin; eassumption);
    try (destruct (Hfin _ _ Hu') as [kk Hk]; congruence);
    try (destruct (Hfin _ _ Hu') as [kk Hk]; contra_fresh);
    try ulock_contra.
Qed.

Lemma step_ufin_out prog s t s' : Inv1 s -> step false prog s t = Some s' ->
  forall u r k, pcs s' u = UFin r -> ~ In r (registry s' k).
Proof.
  intros HI Hs. get_inv HI. clear HI. inv_step Hs; pc_facts; simp_st; intros u' r' k' Hu' Hin; upd_cases;
    try discriminate;
    try (eapply Hfo; eassumption);
    try (inversion Hu'; subst);
    try (apply in_remove_nat in Hin; destruct Hin as [Hin Hne]);
    try (apply in_app_iff in Hin; destruct Hin as [Hin|[Hin|[]]]);
    try congruence;
    try (eapply Hfo; eassumption);
    try (apply Hreg in Hin; congruence);
    try (subst; destruct (Hfin _ _ Hu') as [kk Hk]; contra_fresh);
    try (destruct Hin).
Qed.

Ltac eqb_cases :=
  repeat match goal with
         | |- context [Nat.eqb ?a ?b] => destruct (Nat.eqb_spec a b); subst
         | H : context [Nat.eqb ?a ?b] |- _ => destruct (Nat.eqb_spec a b); subst
         end.

(** The stepping thread is at IReg k r rs: r is in its list (used with i_iregs_out). *)
Ltac ireg_in :=
  match goal with
  | E : pcs ?s ?t = IReg ?k ?r ?rs ?todo |- _ =>
      assert (Hin_ireg : In r (inst_regs (pcs s t) k)) by (rewrite E; cbn; rewrite Nat.eqb_refl; left; reflexivity)
  end.

Lemma step_registry prog s t s' : Inv1 s -> step false prog s t = Some s' ->
  forall k r, In r (registry s' k) -> unreg s' r = RLocal k.
Proof.
  intros HI Hs. get_inv HI. clear HI. inv_step Hs; pc_facts; try ireg_in; simp_st; intros k' r' Hin; upd_cases;
    try (apply in_remove_nat in Hin; destruct Hin as [Hin Hne]);
    try (apply in_app_iff in Hin; destruct Hin as [Hin|[Hin|[]]]);
    try (destruct Hin; fail);
    try (apply Hreg; assumption);
    try congruence;
    try (apply Hreg in Hin; congruence);
    try (apply Hreg in Hin; contra_fresh);
    try (exfalso; eapply Hfo; eassumption);
    try (exfalso; eapply Hio; eassumption).
Qed.

Lemma step_nodup prog s t s' : Inv1 s -> step false prog s t = Some s' ->
  forall k, NoDup (registry s' k).
Proof.
  intros HI Hs. get_inv HI. clear HI. inv_step Hs; pc_facts; simp_st; intros k'; upd_cases;
    try (apply Hnd);
    try (apply nodup_remove_nat; apply Hnd);
    try (constructor; fail);
    try (apply nodup_snoc; [apply Hnd | intro Hin; apply Hreg in Hin; contra_fresh]).
Qed.

Lemma is_ipc_regs p k r : In r (inst_regs p k) -> is_ipc p = true.
Proof. destruct p; cbn; try tauto; reflexivity. Qed.

(** There is one installer: two different threads cannot both have collected registrations. *)
Ltac once_contra :=
  exfalso;
  match goal with
  | Ho : forall u, orun (once ?s) = Some u <-> _, E1 : pcs ?s ?t = _, H2 : In _ (inst_regs (pcs ?s ?u) _), n : ?u <> ?t |- _ =>
      assert (orun (once s) = Some t) by (apply Ho; rewrite E1; reflexivity);
      assert (orun (once s) = Some u) by (apply Ho; eapply is_ipc_regs; exact H2); congruence
  end.

Lemma step_iregs prog s t s' : Inv1 s -> step false prog s t = Some s' ->
  forall u k r, In r (inst_regs (pcs s' u) k) -> unreg s' r = RLocal k \/ unreg s' r = RNil.
Proof.
  intros HI Hs. get_inv HI. clear HI. inv_step Hs; pc_facts; try ireg_in; simp_st; intros u' k' r' Hin; upd_cases;
    cbn [inst_regs] in Hin; eqb_cases;
    try (destruct Hin; fail);
    try (eapply Hir; eassumption);
    try (right; reflexivity);
    try (left; apply Hreg; assumption);
    try (pose proof (Hir _ _ _ Hin) as [X|X]; congruence);
    try (pose proof (Hir _ _ _ Hin) as [X|X]; contra_fresh);
    try (match goal with
         | E : pcs s t = _ |- _ =>
             apply (Hir t); rewrite E; cbn [inst_regs]; rewrite Nat.eqb_refl; (exact Hin || (right; exact Hin))
         end);
    try (exfalso;
         match goal with
         | E : pcs s t = IReg ?k ?r ?rs _ |- _ =>
             pose proof (Hind t k) as Hnd'; rewrite E in Hnd'; cbn [inst_regs] in Hnd';
             rewrite Nat.eqb_refl in Hnd'; inversion Hnd'; subst; tauto
         end);
    try once_contra.
Qed.

Ltac own_nodup :=
  match goal with
  | E : pcs ?s ?t = _, Hind : forall u k, NoDup (inst_regs (pcs ?s u) k) |- _ =>
      let X := fresh "Hnd'" in
      pose proof (Hind t) as X; rewrite E in X; cbn [inst_regs] in X
  end.

Lemma step_iregs_nodup prog s t s' : Inv1 s -> step false prog s t = Some s' ->
  forall u k, NoDup (inst_regs (pcs s' u) k).
Proof.
  intros HI Hs. get_inv HI. clear HI. inv_step Hs; simp_st; intros u' k'; upd_cases;
    try (apply Hind); cbn [inst_regs]; try (constructor; fail);
    try (destruct (Nat.eqb_spec k k'); subst; [|constructor]);
    try (apply Hnd);
    try (own_nodup; specialize (Hnd' k'); rewrite Nat.eqb_refl in Hnd'; try exact Hnd';
         inversion Hnd'; assumption).
Qed.

Lemma step_iregs_out prog s t s' : Inv1 s -> step false prog s t = Some s' ->
  forall u k r k', In r (inst_regs (pcs s' u) k) -> ~ In r (registry s' k').
Proof.
  intros HI Hs. get_inv HI. clear HI. inv_step Hs; pc_facts; simp_st; intros u' k' r' k'' Hin Hin2; upd_cases;
    cbn [inst_regs] in Hin; eqb_cases;
    try (destruct Hin; fail); try (destruct Hin2; fail);
    try (apply in_remove_nat in Hin2; destruct Hin2 as [Hin2 Hne]);
    try (apply in_app_iff in Hin2; destruct Hin2 as [Hin2|[Hin2|[]]]);
    try (eapply Hio; eassumption);
    try (subst; pose proof (Hir _ _ _ Hin) as [X|X]; contra_fresh);
    try (apply Hreg in Hin; apply Hreg in Hin2; congruence);
    try (match goal with
         | E : pcs s t = _ |- _ =>
             apply (Hio t k' r' k''); [rewrite E; cbn [inst_regs]; rewrite Nat.eqb_refl; (exact Hin || (right; exact Hin)) | exact Hin2]
         end).
Qed.

Lemma step_inv1 prog s t s' : Inv1 s -> step false prog s t = Some s' -> Inv1 s'.
Proof.
  intros HI Hs. constructor.
  - eapply step_once; eassumption.
  - eapply step_plock; eassumption.
  - eapply step_mlock; eassumption.
  - eapply step_ulock; eassumption.
  - eapply step_fresh; eassumption.
  - eapply step_rrec; eassumption.
  - eapply step_uwm; eassumption.
  - eapply step_ufin; eassumption.
  - eapply step_ufin_out; eassumption.
  - eapply step_registry; eassumption.
  - eapply step_nodup; eassumption.
  - eapply step_iregs; eassumption.
  - eapply step_iregs_nodup; eassumption.
  - eapply step_iregs_out; eassumption.
Qed.

Lemma init_inv1 : Inv1 init.
Proof.
  constructor; cbn; intros; try (split; discriminate); try discriminate; try tauto;
    try congruence; try constructor.
  destruct H; discriminate.
Qed.
