(** C16 correspondence: evaluates model and spec on what the Go harness observed
    from the real internal/global package (generated case files import this). *)
From Verif Require Import Lib.Base C16.Spec C16.Model.
Open Scope N_scope.

(** Compact encodings used by the generated files. *)
Definition dec_ev (x : N * N * N) : list ev :=
  let '(tag, a, b) := x in
  match tag with
  | 0 => [EInstallCall] | 1 => [EInstallRet] | 2 => [EInstRet a] | 3 => [ERecCall a b] | 4 => [ERecRet a]
  | 5 => [ERegCall a] | 6 => [ERegRet a] | 7 => [EUnregCall a] | 8 => [EUnregRet a]
  | 9 => [ESdkRec a] | 10 => [ESdkReg a] | 11 => [ESdkUnreg a]
  | 12 => [ETInstallCall] | 13 => [ETInstallRet] | 14 => [ETracerRet a] | 15 => [ESpanCall a b]
  | 16 => [ESpanRet a] | 17 => [ESdkSpan a]
  | _ => []
  end.
Definition dec_hist (l : list (N * N * N)) : history := flat_map dec_ev l.

Definition dec_op (x : N * N) : op :=
  let '(tag, a) := x in let a := N.to_nat a in
  match tag with
  | 1 => OpMeter a | 2 => OpInst a | 3 => OpRecord a | 4 => OpRegister a | 5 => OpUnregister a | 6 => OpInstall
  | 11 => OpInstAgain (a / 1024) (a mod 1024)   (* meter * 1024 + step of the first request of the identity *)
  | _ => OpNone
  end.
Definition dec_top (x : N * N) : top :=
  let '(tag, a) := x in let a := N.to_nat a in
  match tag with 7 => TOpTracer | 8 => TOpSpan a | 9 => TOpInstall | _ => TOpNone end.

Inductive case :=
(** A sequential scenario: step j (= thread j of the model) is one API call; [h] is the
    history the harness recorded, [live] says for each registration how many times its
    callback ran in one final Collect of the installed SDK, how many of its instruments
    showed the value it observed, and how many instruments it has: (r, ran, found, ninst);
    empty when no SDK was installed (nothing can be collected).  [cbs]: identifiers of callbacks
    passed to an observable-instrument constructor (creation-time callbacks); the model has no
    such operation, so their events are left out of the model comparison and judged by the
    specification only.  [badrec] / [badcb]: measurements made through, and callbacks attached to,
    placeholder instruments whose NAME the SDK rejects (known finding F-C16-2: such a placeholder
    is never connected); the model has no such instruments, they are left out of the model
    comparison, and a specification failure that consists of exactly these identifiers not
    arriving is classified as known finding 2. *)
| CSeq (steps : list (N * N)) (cbs badrec badcb : list N) (h : list (N * N * N)) (live : list (N * N * N * N))
(** A free-running (concurrent) scenario: judged by the specification alone. *)
| CHist (h : list (N * N * N)) (live : list (N * N * N * N)).

Definition is_cb_event (cbs : list N) (e : ev) : bool :=
  existsb (fun r => existsb (N.eqb r) cbs) (ev_regs e).

Definition ev_meas (e : ev) : list N :=
  match e with ERecCall _ n | ERecRet n | ESdkRec n => [n] | _ => [] end.
Definition memN (x : N) (l : list N) : bool := existsb (N.eqb x) l.
Definition drop_ids (recs regs : list N) (h : history) : history :=
  filter (fun e => negb (existsb (fun n => memN n recs) (ev_meas e)) &&
                   negb (existsb (fun r => memN r regs) (ev_regs e))) h.
Definition drop_live (regs : list N) (live : list (N * N * N * N)) :=
  filter (fun p => let '(r, _, _, _) := p in negb (memN r regs)) live.

Definition same_counts (h1 h2 : history) : bool :=
  forallb (fun e => Nat.eqb (count e h1) (count e h2)) (h1 ++ h2).

(** What the SDK invokes in a Collect is what is registered with it at that time
    (observed: callback run counts; events: SDK registrations minus unregistrations). *)
Definition live_ok (h : history) (live : list (N * N * N * N)) : bool :=
  forallb (fun p => let '(r, ran, found, ninst) := p in
                    Nat.eqb (N.to_nat ran + count (ESdkUnreg r) h) (count (ESdkReg r) h) &&
                    (found =? (if ran =? 0 then 0 else ninst))) live.

Definition model_live (s : st) (live : list (N * N * N * N)) : bool :=
  forallb (fun p => let '(r, ran, _, _) := p in
                    let r := N.to_nat r in
                    Nat.eqb (N.to_nat ran + sunreg s r) (sreg s r)) live.

Definition seq_ids (n : nat) : list nat := seq 0 n.

Definition model_run (steps : list (N * N)) : st * tst :=
  let n := length steps in
  let fuel := (16 + 4 * n)%nat in
  (run_seq fuel (prog_of (map dec_op steps)) init (seq_ids n),
   trun_seq fuel (tprog_of (map dec_top steps)) tinit (seq_ids n)).

Definition all_done (steps : list (N * N)) (m : st * tst) : bool :=
  forallb (fun t => match pcs (fst m) t, tpcs (snd m) t with
                    | (Done | Start), (TDone | TStart) => true | _, _ => false end)
          (seq_ids (length steps)).

Definition flag (b : bool) (code : N) : list N := if b then [] else [code].

Definition check_case (c : case) : list N :=
  match c with
  | CSeq steps cbs badrec badcb h live =>
      let hi := dec_hist h in
      let m := model_run steps in
      let hm := hist (fst m) ++ thist (snd m) in
      let hi' := drop_ids badrec (cbs ++ badcb) hi in
      let hm' := drop_ids badrec badcb hm in
      let live' := drop_live (cbs ++ badcb) live in
      flag (all_done steps m && same_counts hm' hi' && model_live (fst m) live') V_MISMATCH ++
      (if spec_ok hi && live_ok hi live && ids_unique hi then []
       else
         let hk := drop_ids badrec badcb hi in
         if negb (match badrec ++ badcb with [] => true | _ => false end) &&
            spec_ok hk && live_ok hk (drop_live badcb live) && ids_unique hi &&
            forallb (fun n => Nat.eqb (count (ESdkRec n) hi) 0) badrec &&
            forallb (fun r => Nat.eqb (count (ESdkReg r) hi) 0) badcb
         then [V_KNOWN 2] else [V_SPECFAIL]) ++
      flag (spec_ok hm) V_MODELSPEC
  | CHist h live =>
      let hi := dec_hist h in
      flag (spec_ok hi && live_ok hi live && ids_unique hi) V_SPECFAIL
  end.

Definition run (cs : list case) : list (N * N) := index_from 0 check_case cs.

(** Smoke tests of the evaluator itself. *)
Example corr_ex1 :
  check_case (CSeq [(1,0);(2,0);(4,0);(6,0);(3,1)] [] [] []
                   [(0,0,0);(10,2,0);(1,0,0);(2,1,0);(5,2,0);(6,2,0)] [(2,1,1,1)]) = [1].
Proof. vm_compute. reflexivity. Qed.

(** F-C16-2 as recorded from the implementation: `Meter; Int64Counter "1i1" (a name the SDK rejects;
    the placeholder meter returns it without error); SetMeterProvider; Add` -- the measurement made
    after installation returned never reaches the SDK.  The full-strength specification is violated
    by this history (the theorems are about programs whose instrument requests the SDK accepts). *)
Example f_c16_2_history_violates_spec :
  spec_ok (dec_hist [(2,1,0); (0,0,0); (1,0,0); (3,1,3); (4,3,0)]) = false /\
  check_case (CSeq [(1,0);(2,0);(6,0);(3,1)] [] [3] [] [(2,1,0); (0,0,0); (1,0,0); (3,1,3); (4,3,0)] []) = [V_KNOWN 2].
Proof. vm_compute. split; reflexivity. Qed.
