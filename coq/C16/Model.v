(** C16 model: the delegation protocol of go.opentelemetry.io/otel/internal/global
    as labelled transition systems over any number of threads (thread ids are
    [nat]; thread [t] executes the single API call [prog t]).  Definitions only.

    Meter side ([step]): meterProvider.mtx ([plock]), one meter.mtx per global
    meter ([mlock k]), one registration.unregMu per registration ([ulock r]),
    delegateMeterOnce ([once]), the delegate pointers ([pdel], [mdel k], the
    delegate of every instrument in [ist]), meterProvider.meters ([mlist]),
    meter.instruments ([imap k]), meter.registry ([registry k]), registration.unreg
    ([unreg r]) and what the SDK has been told ([sreg], [sunreg]).  Object
    identities: a global meter is its key [k]; an instrument handle / registration
    is the id of the thread whose call created it; a measurement is the id of the
    thread that records it.

    [step old]: [old = false] is the protocol of the repaired code (79987fb:
    meter.setDelegate releases meter.mtx BEFORE handing the collected
    registrations over); [old = true] is the protocol as found (hand-over while
    holding meter.mtx), kept only to exhibit the deadlock it allowed.

    Tracer side ([tstep]): tracerProvider.mtx, delegateTraceOnce, tracer delegates. *)
From Coq Require Import List Arith NArith Bool.
From Verif Require Import C16.Spec.
Import ListNotations.

Inductive op :=
| OpNone                       (* thread does nothing *)
| OpMeter (k : nat)            (* otel.GetMeterProvider().Meter(key k) *)
| OpInst (k : nat)             (* any instrument constructor on global meter k (a new identity) *)
| OpInstAgain (k j : nat)      (* the same constructor call again: the identity (name, kind, unit, description)
                                  of the instrument that thread j obtained from meter k *)
| OpRecord (i : nat)           (* Add / Record on instrument handle i *)
| OpRegister (k : nat)         (* RegisterCallback on global meter k *)
| OpUnregister (r : nat)       (* registration r .Unregister() *)
| OpInstall.                   (* otel.SetMeterProvider(sdk) *)

(** A handle: none yet / a placeholder of global meter k / an SDK instrument / the SAME
    placeholder as handle j (meter.instruments caches by identity). *)
Inductive ist_t := INone | IGlobal (k : nat) (delegated : bool) | IDirect | IAlias (j : nat).
Inductive ureg := RNone | RLocal (k : nat) | RSdk | RNil | RDirect | RDirectNil.
Inductive once_t := ONew | ORun (t : nat) | ODone.

Inductive pc :=
| Start | Done
| MWait (k : nat) | MHold (k : nat)
| CWait (k : nat) | CHold (k : nat)
| AWait (k j : nat) | AHold (k j : nat)
| RRec (i : nat)
| GWait (k : nat) | GHold (k : nat)
| UWait (r : nat) | UHold (r : nat) | UWaitM (r k : nat) | UInM (r k : nat) | UFin (r : nat)
| IOnce | ILockP | IWalk0
| IWalk (todo : list nat)
| IMeter (k : nat) (todo : list nat)
| IInsts (k : nat) (l : list nat) (todo : list nat)
| IRegs (k : nat) (rs : list nat) (todo : list nat)
| IReg (k r : nat) (rs : list nat) (todo : list nat)
| IFinish.

Record st := mkst {
  plock : option nat; mlock : nat -> option nat; ulock : nat -> option nat;
  once : once_t; pdel : bool; mlist : list nat; mcreated : nat -> bool; mdel : nat -> bool;
  imap : nat -> list nat; registry : nat -> list nat;
  ist : nat -> ist_t; unreg : nat -> ureg; sreg : nat -> nat; sunreg : nat -> nat;
  pcs : nat -> pc; hist : history }.

Definition upd {A} (f : nat -> A) (t : nat) (v : A) : nat -> A :=
  fun u => if Nat.eqb u t then v else f u.

(** Field setters. *)
Definition set_plock v s := mkst v (mlock s) (ulock s) (once s) (pdel s) (mlist s) (mcreated s) (mdel s) (imap s) (registry s) (ist s) (unreg s) (sreg s) (sunreg s) (pcs s) (hist s).
Definition set_mlock k v s := mkst (plock s) (upd (mlock s) k v) (ulock s) (once s) (pdel s) (mlist s) (mcreated s) (mdel s) (imap s) (registry s) (ist s) (unreg s) (sreg s) (sunreg s) (pcs s) (hist s).
Definition set_ulock r v s := mkst (plock s) (mlock s) (upd (ulock s) r v) (once s) (pdel s) (mlist s) (mcreated s) (mdel s) (imap s) (registry s) (ist s) (unreg s) (sreg s) (sunreg s) (pcs s) (hist s).
Definition set_once v s := mkst (plock s) (mlock s) (ulock s) v (pdel s) (mlist s) (mcreated s) (mdel s) (imap s) (registry s) (ist s) (unreg s) (sreg s) (sunreg s) (pcs s) (hist s).
Definition set_pdel v s := mkst (plock s) (mlock s) (ulock s) (once s) v (mlist s) (mcreated s) (mdel s) (imap s) (registry s) (ist s) (unreg s) (sreg s) (sunreg s) (pcs s) (hist s).
Definition set_mlist v s := mkst (plock s) (mlock s) (ulock s) (once s) (pdel s) v (mcreated s) (mdel s) (imap s) (registry s) (ist s) (unreg s) (sreg s) (sunreg s) (pcs s) (hist s).
Definition set_mcreated k v s := mkst (plock s) (mlock s) (ulock s) (once s) (pdel s) (mlist s) (upd (mcreated s) k v) (mdel s) (imap s) (registry s) (ist s) (unreg s) (sreg s) (sunreg s) (pcs s) (hist s).
Definition set_mdel k v s := mkst (plock s) (mlock s) (ulock s) (once s) (pdel s) (mlist s) (mcreated s) (upd (mdel s) k v) (imap s) (registry s) (ist s) (unreg s) (sreg s) (sunreg s) (pcs s) (hist s).
Definition set_imap k v s := mkst (plock s) (mlock s) (ulock s) (once s) (pdel s) (mlist s) (mcreated s) (mdel s) (upd (imap s) k v) (registry s) (ist s) (unreg s) (sreg s) (sunreg s) (pcs s) (hist s).
Definition set_registry k v s := mkst (plock s) (mlock s) (ulock s) (once s) (pdel s) (mlist s) (mcreated s) (mdel s) (imap s) (upd (registry s) k v) (ist s) (unreg s) (sreg s) (sunreg s) (pcs s) (hist s).
Definition set_ist i v s := mkst (plock s) (mlock s) (ulock s) (once s) (pdel s) (mlist s) (mcreated s) (mdel s) (imap s) (registry s) (upd (ist s) i v) (unreg s) (sreg s) (sunreg s) (pcs s) (hist s).
Definition set_unreg r v s := mkst (plock s) (mlock s) (ulock s) (once s) (pdel s) (mlist s) (mcreated s) (mdel s) (imap s) (registry s) (ist s) (upd (unreg s) r v) (sreg s) (sunreg s) (pcs s) (hist s).
Definition set_sreg r v s := mkst (plock s) (mlock s) (ulock s) (once s) (pdel s) (mlist s) (mcreated s) (mdel s) (imap s) (registry s) (ist s) (unreg s) (upd (sreg s) r v) (sunreg s) (pcs s) (hist s).
Definition set_sunreg r v s := mkst (plock s) (mlock s) (ulock s) (once s) (pdel s) (mlist s) (mcreated s) (mdel s) (imap s) (registry s) (ist s) (unreg s) (sreg s) (upd (sunreg s) r v) (pcs s) (hist s).
Definition set_pc t v s := mkst (plock s) (mlock s) (ulock s) (once s) (pdel s) (mlist s) (mcreated s) (mdel s) (imap s) (registry s) (ist s) (unreg s) (sreg s) (sunreg s) (upd (pcs s) t v) (hist s).
Definition emit e s := mkst (plock s) (mlock s) (ulock s) (once s) (pdel s) (mlist s) (mcreated s) (mdel s) (imap s) (registry s) (ist s) (unreg s) (sreg s) (sunreg s) (pcs s) (hist s ++ [e]).

(** The SDK registers / unregisters the callback of registration r. *)
Definition sdk_register r s := emit (ESdkReg (N.of_nat r)) (set_sreg r (S (sreg s r)) s).
Definition sdk_unregister r s := emit (ESdkUnreg (N.of_nat r)) (set_sunreg r (S (sunreg s r)) s).

Fixpoint remove_nat (x : nat) (l : list nat) : list nat :=
  match l with [] => [] | y :: r => if Nat.eqb x y then remove_nat x r else y :: remove_nat x r end.

(** instrument.setDelegate: store the delegate (only global instruments have one to store). *)
Definition deleg (x : ist_t) : ist_t :=
  match x with IGlobal k _ => IGlobal k true | INone => INone | IDirect => IDirect | IAlias j => IAlias j end.
Definition delegate_inst (i : nat) (s : st) : st := set_ist i (deleg (ist s i)) s.

Definition fwd_obj (x : ist_t) : bool :=
  match x with IGlobal _ true | IDirect => true | _ => false end.
Definition forwards (s : st) (i : nat) : bool :=
  match ist s i with IAlias j => fwd_obj (ist s j) | x => fwd_obj x end.

(** First step of a call: argument handles that do not exist yet make the call a
    no-op thread (the user program has no such handle to call on); otherwise the
    call event is logged. *)
Definition start (prog : nat -> op) (s : st) (t : nat) : option st :=
  match prog t with
  | OpNone => None
  | OpMeter k => Some (set_pc t (MWait k) s)
  | OpInst k => Some (set_pc t (if mcreated s k then CWait k else Done) s)
  | OpInstAgain k j => Some (set_pc t (if mcreated s k then AWait k j else Done) s)
  | OpRecord i =>
      match ist s i with
      | INone => Some (set_pc t Done s)
      | _ => Some (set_pc t (RRec i) (emit (ERecCall (N.of_nat i) (N.of_nat t)) s))
      end
  | OpRegister k =>
      if mcreated s k then Some (set_pc t (GWait k) (emit (ERegCall (N.of_nat t)) s)) else Some (set_pc t Done s)
  | OpUnregister r =>
      match unreg s r with
      | RNone => Some (set_pc t Done s)
      | _ => Some (set_pc t (UWait r) (emit (EUnregCall (N.of_nat r)) s))
      end
  | OpInstall => Some (set_pc t IOnce (emit EInstallCall s))
  end.

Definition step (old : bool) (prog : nat -> op) (s : st) (t : nat) : option st :=
  match pcs s t with
  | Start => start prog s t
  | Done => None
  (* meterProvider.Meter *)
  | MWait k => match plock s with None => Some (set_pc t (MHold k) (set_plock (Some t) s)) | Some _ => None end
  | MHold k =>
      let s1 := if pdel s || mcreated s k then s
                else set_mlist (mlist s ++ [k]) (set_mcreated k true s) in
      Some (set_pc t Done (set_plock None s1))
  (* meter.<Instrument> *)
  | CWait k => match mlock s k with None => Some (set_pc t (CHold k) (set_mlock k (Some t) s)) | Some _ => None end
  | CHold k =>
      let s1 := if mdel s k then set_ist t IDirect s
                else set_imap k (imap s k ++ [t]) (set_ist t (IGlobal k false) s) in
      Some (set_pc t Done (emit (EInstRet (N.of_nat t)) (set_mlock k None s1)))
  (* the same constructor again: the cached placeholder is handed out again (no new map entry) *)
  | AWait k j => match mlock s k with None => Some (set_pc t (AHold k j) (set_mlock k (Some t) s)) | Some _ => None end
  | AHold k j =>
      if mdel s k then Some (set_pc t Done (emit (EInstRet (N.of_nat t)) (set_mlock k None (set_ist t IDirect s))))
      else match ist s j with
           | IGlobal k' _ =>
               if Nat.eqb k' k
               then Some (set_pc t Done (emit (EInstRet (N.of_nat t)) (set_mlock k None (set_ist t (IAlias j) s))))
               else Some (set_pc t Done (set_mlock k None s))
           | _ => Some (set_pc t Done (set_mlock k None s))
           end
  (* instrument.Add / Record: one atomic load of the delegate *)
  | RRec i =>
      let s1 := if forwards s i then emit (ESdkRec (N.of_nat t)) s else s in
      Some (set_pc t Done (emit (ERecRet (N.of_nat t)) s1))
  (* meter.RegisterCallback *)
  | GWait k => match mlock s k with None => Some (set_pc t (GHold k) (set_mlock k (Some t) s)) | Some _ => None end
  | GHold k =>
      let s1 := if mdel s k then set_unreg t RDirect (sdk_register t s)
                else set_registry k (registry s k ++ [t]) (set_unreg t (RLocal k) s) in
      Some (set_pc t Done (emit (ERegRet (N.of_nat t)) (set_mlock k None s1)))
  (* registration.Unregister (or the SDK's own Unregister for a registration made directly with the SDK) *)
  | UWait r =>
      match unreg s r with
      | RDirect => Some (set_pc t Done (emit (EUnregRet (N.of_nat r)) (set_unreg r RDirectNil (sdk_unregister r s))))
      | RDirectNil => Some (set_pc t Done (emit (EUnregRet (N.of_nat r)) s))
      | _ => match ulock s r with None => Some (set_pc t (UHold r) (set_ulock r (Some t) s)) | Some _ => None end
      end
  | UHold r =>
      match unreg s r with
      | RLocal k => Some (set_pc t (UWaitM r k) s)
      | RSdk => Some (set_pc t Done (emit (EUnregRet (N.of_nat r)) (set_ulock r None (set_unreg r RNil (sdk_unregister r s)))))
      | _ => Some (set_pc t Done (emit (EUnregRet (N.of_nat r)) (set_ulock r None s)))
      end
  | UWaitM r k => match mlock s k with None => Some (set_pc t (UInM r k) (set_mlock k (Some t) s)) | Some _ => None end
  | UInM r k => Some (set_pc t (UFin r) (set_mlock k None (set_registry k (remove_nat r (registry s k)) s)))
  | UFin r => Some (set_pc t Done (emit (EUnregRet (N.of_nat r)) (set_ulock r None (set_unreg r RNil s))))
  (* SetMeterProvider: delegateMeterOnce.Do(meterProvider.setDelegate); Store *)
  | IOnce =>
      match once s with
      | ONew => Some (set_pc t ILockP (set_once (ORun t) s))
      | ORun _ => None
      | ODone => Some (set_pc t Done (emit EInstallRet s))
      end
  | ILockP => match plock s with None => Some (set_pc t IWalk0 (set_plock (Some t) s)) | Some _ => None end
  | IWalk0 => Some (set_pc t (IWalk (mlist s)) (set_pdel true s))
  | IWalk [] => Some (set_pc t IFinish (set_plock None (set_mlist [] s)))
  | IWalk (k :: todo) =>
      match mlock s k with None => Some (set_pc t (IMeter k todo) (set_mlock k (Some t) s)) | Some _ => None end
  | IMeter k todo => Some (set_pc t (IInsts k (imap s k) todo) (set_mdel k true s))
  | IInsts k (i :: l) todo => Some (set_pc t (IInsts k l todo) (delegate_inst i s))
  | IInsts k [] todo =>
      let s1 := set_imap k [] (set_registry k [] s) in
      let s2 := if old then s1 else set_mlock k None s1 in
      Some (set_pc t (IRegs k (registry s k) todo) s2)
  | IRegs k (r :: rs) todo =>
      match ulock s r with None => Some (set_pc t (IReg k r rs todo) (set_ulock r (Some t) s)) | Some _ => None end
  | IRegs k [] todo => Some (set_pc t (IWalk todo) (if old then set_mlock k None s else s))
  | IReg k r rs todo =>
      let s1 := match unreg s r with RNil => s | _ => set_unreg r RSdk (sdk_register r s) end in
      Some (set_pc t (IRegs k rs todo) (set_ulock r None s1))
  | IFinish => Some (set_pc t Done (emit EInstallRet (set_once ODone s)))
  end.

Definition init : st :=
  mkst None (fun _ => None) (fun _ => None) ONew false [] (fun _ => false) (fun _ => false)
       (fun _ => []) (fun _ => []) (fun _ => INone) (fun _ => RNone) (fun _ => 0) (fun _ => 0)
       (fun _ => Start) [].

Fixpoint run (old : bool) (prog : nat -> op) (s : st) (sch : list nat) : option st :=
  match sch with
  | [] => Some s
  | t :: r => match step old prog s t with Some s' => run old prog s' r | None => None end
  end.

(** A thread has nothing left to do. *)
Definition finished (prog : nat -> op) (s : st) (t : nat) : Prop :=
  pcs s t = Done \/ (pcs s t = Start /\ prog t = OpNone).

(** ** Sequential execution (used by the correspondence check): thread 0 runs to
    completion, then thread 1, ... *)
Fixpoint run_thread (fuel : nat) (old : bool) (prog : nat -> op) (s : st) (t : nat) : st :=
  match fuel with
  | O => s
  | S f => match step old prog s t with Some s' => run_thread f old prog s' t | None => s end
  end.

Fixpoint run_seq (fuel : nat) (prog : nat -> op) (s : st) (ts : list nat) : st :=
  match ts with [] => s | t :: r => run_seq fuel prog (run_thread fuel false prog s t) r end.

Definition prog_of (l : list op) : nat -> op := fun t => nth t l OpNone.

(** ** Tracer side *)
Inductive top := TOpNone | TOpTracer | TOpSpan (tr : nat) | TOpInstall.
Inductive tpc :=
| TStart | TDone | TWait | THold | TSpan (tr : nat)
| TIOnce | TILock | TIHold | TILoop (l : list nat) | TIFinish.

Record tst := mktst {
  tlock : option nat; tonce : once_t; tpdel : bool; tmap : list nat;
  tdel : nat -> option bool;   (* None: no such handle; Some d: handle exists, d = it forwards *)
  tpcs : nat -> tpc; thist : history }.

Definition tset_pc t v s := mktst (tlock s) (tonce s) (tpdel s) (tmap s) (tdel s) (upd (tpcs s) t v) (thist s).
Definition tset_lock v s := mktst v (tonce s) (tpdel s) (tmap s) (tdel s) (tpcs s) (thist s).
Definition tset_once v s := mktst (tlock s) v (tpdel s) (tmap s) (tdel s) (tpcs s) (thist s).
Definition tset_pdel v s := mktst (tlock s) (tonce s) v (tmap s) (tdel s) (tpcs s) (thist s).
Definition tset_map v s := mktst (tlock s) (tonce s) (tpdel s) v (tdel s) (tpcs s) (thist s).
Definition tset_del i v s := mktst (tlock s) (tonce s) (tpdel s) (tmap s) (upd (tdel s) i v) (tpcs s) (thist s).
Definition temit e s := mktst (tlock s) (tonce s) (tpdel s) (tmap s) (tdel s) (tpcs s) (thist s ++ [e]).

Definition tstep (prog : nat -> top) (s : tst) (t : nat) : option tst :=
  match tpcs s t with
  | TStart =>
      match prog t with
      | TOpNone => None
      | TOpTracer => Some (tset_pc t TWait s)
      | TOpSpan tr =>
          match tdel s tr with
          | None => Some (tset_pc t TDone s)
          | Some _ => Some (tset_pc t (TSpan tr) (temit (ESpanCall (N.of_nat tr) (N.of_nat t)) s))
          end
      | TOpInstall => Some (tset_pc t TIOnce (temit ETInstallCall s))
      end
  | TDone => None
  | TWait => match tlock s with None => Some (tset_pc t THold (tset_lock (Some t) s)) | Some _ => None end
  | THold =>
      let s1 := if tpdel s then tset_del t (Some true) s
                else tset_map (tmap s ++ [t]) (tset_del t (Some false) s) in
      Some (tset_pc t TDone (temit (ETracerRet (N.of_nat t)) (tset_lock None s1)))
  | TSpan tr =>
      let s1 := match tdel s tr with Some true => temit (ESdkSpan (N.of_nat t)) s | _ => s end in
      Some (tset_pc t TDone (temit (ESpanRet (N.of_nat t)) s1))
  | TIOnce =>
      match tonce s with
      | ONew => Some (tset_pc t TILock (tset_once (ORun t) s))
      | ORun _ => None
      | ODone => Some (tset_pc t TDone (temit ETInstallRet s))
      end
  | TILock => match tlock s with None => Some (tset_pc t TIHold (tset_lock (Some t) s)) | Some _ => None end
  | TIHold => Some (tset_pc t (TILoop (tmap s)) (tset_pdel true s))
  | TILoop (x :: l) => Some (tset_pc t (TILoop l) (tset_del x (Some true) s))
  | TILoop [] => Some (tset_pc t TIFinish (tset_lock None (tset_map [] s)))
  | TIFinish => Some (tset_pc t TDone (temit ETInstallRet (tset_once ODone s)))
  end.

Definition tinit : tst := mktst None ONew false [] (fun _ => None) (fun _ => TStart) [].

Fixpoint trun (prog : nat -> top) (s : tst) (sch : list nat) : option tst :=
  match sch with
  | [] => Some s
  | t :: r => match tstep prog s t with Some s' => trun prog s' r | None => None end
  end.

Definition tfinished (prog : nat -> top) (s : tst) (t : nat) : Prop :=
  tpcs s t = TDone \/ (tpcs s t = TStart /\ prog t = TOpNone).

Fixpoint trun_thread (fuel : nat) (prog : nat -> top) (s : tst) (t : nat) : tst :=
  match fuel with
  | O => s
  | S f => match tstep prog s t with Some s' => trun_thread f prog s' t | None => s end
  end.
Fixpoint trun_seq (fuel : nat) (prog : nat -> top) (s : tst) (ts : list nat) : tst :=
  match ts with [] => s | t :: r => trun_seq fuel prog (trun_thread fuel prog s t) r end.
Definition tprog_of (l : list top) : nat -> top := fun t => nth t l TOpNone.
